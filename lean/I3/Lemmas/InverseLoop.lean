/-
  I3.Lemmas.InverseLoop — helpers for C05 `ff.Element.Inverse` (binary extended GCD, "Algorithm 16").

  1. piece lemmas: the straight-line pieces regenerated from /repo/ff/element.go (I3.Gen.FFInverse) are
     executed symbolically (`limb_eval`) and their effect is stated on VALUES (`val4`);
  2. value-level number theory of one iteration (coprimality, the two congruences, the measure);
  3. the hand-written fuel skeleton (I3.Model.FFInverse): inner loops, one outer iteration, the
     whole loop by induction on the fuel; independence of the destination cells.
-/
import I3.Model.FFInverse
import I3.Lemmas.LimbsField
import Mathlib.Data.Nat.GCD.Basic
namespace I3.InvLoop
open I3.Word I3.Gen.FFInv I3.Limbs I3.Model.FFInverse

-- `W` is the word modulus of I3.Exec.Word (inside `namespace I3` a bare `W` would resolve to the
-- equal but distinct constant `I3.W` of I3.Exec.Field)
local notation "W" => I3.Word.W

/-! ## 1. piece lemmas -/

theorem val4_mod2 (a b c d : Nat) : val4 a b c d % 2 = a % 2 := by
  simp only [val4, Word.W]; omega

theorem top_half_lt (a : Nat) (ha : a < W) : a / 2 < W := by
  simp only [Word.W] at *; omega

theorem loop1_cond_iff (carry s0 s1 s2 s3 v0 v1 v2 v3 : Nat) :
    Inverse_loop1_cond carry s0 s1 s2 s3 v0 v1 v2 v3 = true ↔ val4 v0 v1 v2 v3 % 2 = 0 := by
  unfold Inverse_loop1_cond
  rw [decide_eq_true_iff, Nat.and_one_is_mod, val4_mod2]

/-- one pass of `v >>= 1; if s odd { s += q }; s >>= 1` -/
theorem loop1_body_ok (carry s0 s1 s2 s3 v0 v1 v2 v3 : Nat)
    (hs0 : s0 < W) (hs1 : s1 < W) (hs2 : s2 < W) (hs3 : s3 < W)
    (hv0 : v0 < W) (hv1 : v1 < W) (hv2 : v2 < W) (hv3 : v3 < W)
    (hS : val4 s0 s1 s2 s3 < Q) :
    ∃ c' s0' s1' s2' s3' v0' v1' v2' v3',
      Inverse_loop1_body carry s0 s1 s2 s3 v0 v1 v2 v3 = (c', s0', s1', s2', s3', v0', v1', v2', v3') ∧
      s0' < W ∧ s1' < W ∧ s2' < W ∧ s3' < W ∧ v0' < W ∧ v1' < W ∧ v2' < W ∧ v3' < W ∧
      2 * val4 v0' v1' v2' v3' + v0 % 2 = val4 v0 v1 v2 v3 ∧
      val4 s0' s1' s2' s3' < Q ∧ (2 * val4 s0' s1' s2' s3') % Q = val4 s0 s1 s2 s3 := by
  have hodd : val4 s0 s1 s2 s3 % 2 = s0 % 2 := val4_mod2 _ _ _ _
  by_cases hb : (s0 &&& 1) = 1
  · obtain ⟨a0, c0, e0, ha0, hc0, g0⟩ := add64_spec s0 4891460686036598785 0 hs0 (by decide) (by decide)
    obtain ⟨a1, c1, e1, ha1, hc1, g1⟩ := add64_spec s1 2896914383306846353 c0 hs1 (by decide) hc0
    obtain ⟨a2, c2, e2, ha2, hc2, g2⟩ := add64_spec s2 13281191951274694749 c1 hs2 (by decide) hc1
    obtain ⟨a3, c3, e3, ha3, hc3, g3⟩ := add64_spec s3 3486998266802970665 c2 hs3 (by decide) hc2
    refine ⟨_, _, _, _, _, _, _, _, _, by limb_eval [Inverse_loop1_body], ?_⟩
    rw [shr_or a0 a1 ha0, shr_or a1 a2 ha1, shr_or a2 a3 ha2, shr_one,
      shr_or v0 v1 hv0, shr_or v1 v2 hv1, shr_or v2 v3 hv2, shr_one]
    have key := add_chain s0 s1 s2 s3 _ _ _ _ a0 a1 a2 a3 c0 c1 c2 c3 0 g0 g1 g2 g3
    rw [val4_Q] at key
    have ha0' : val4 a0 a1 a2 a3 % 2 = a0 % 2 := val4_mod2 _ _ _ _
    rw [Nat.and_one_is_mod] at hb
    have hfin := halve_arith_odd _ _ _ _ _ hS (hodd.trans hb) key
      (val4_lt a0 a1 a2 a3 ha0 ha1 ha2 ha3) (shr_chain a0 a1 a2 a3) ha0'
    exact ⟨shr_limb_lt a0 a1 ha0, shr_limb_lt a1 a2 ha1, shr_limb_lt a2 a3 ha2, top_half_lt a3 ha3,
      shr_limb_lt v0 v1 hv0, shr_limb_lt v1 v2 hv1, shr_limb_lt v2 v3 hv2, top_half_lt v3 hv3,
      shr_chain v0 v1 v2 v3, hfin.1, hfin.2⟩
  · refine ⟨_, _, _, _, _, _, _, _, _, by limb_eval [Inverse_loop1_body], ?_⟩
    rw [shr_or s0 s1 hs0, shr_or s1 s2 hs1, shr_or s2 s3 hs2, shr_one,
      shr_or v0 v1 hv0, shr_or v1 v2 hv1, shr_or v2 v3 hv2, shr_one]
    rw [Nat.and_one_is_mod] at hb
    have hfin := halve_arith_even _ _ _ hS (by omega) (shr_chain s0 s1 s2 s3) hodd
    exact ⟨shr_limb_lt s0 s1 hs0, shr_limb_lt s1 s2 hs1, shr_limb_lt s2 s3 hs2, top_half_lt s3 hs3,
      shr_limb_lt v0 v1 hv0, shr_limb_lt v1 v2 hv1, shr_limb_lt v2 v3 hv2, top_half_lt v3 hv3,
      shr_chain v0 v1 v2 v3, hfin.1, hfin.2⟩

theorem loop2_cond_eq : @Inverse_loop2_cond = @Inverse_loop1_cond := rfl
theorem loop2_body_eq : @Inverse_loop2_body = @Inverse_loop1_body := rfl

/-- the exit tests closing the main loop body, as printed by the translator -/
def tail (bigger : Bool) (borrow carry r0 r1 r2 r3 s0 s1 s2 s3 u0 u1 u2 u3 v0 v1 v2 v3 z0 z1 z2 z3 : Nat) :
    Option (Nat × Nat × Nat × Nat) × (Bool × Nat × Nat × Nat × Nat × Nat × Nat × Nat × Nat × Nat × Nat × Nat × Nat × Nat × Nat × Nat × Nat × Nat × Nat × Nat × Nat × Nat × Nat) :=
  if ((decide (u0 = 1)) && decide (((u3 ||| u2) ||| u1) = 0)) then
    (some (r0, r1, r2, r3), (bigger, borrow, carry, r0, r1, r2, r3, s0, s1, s2, s3, u0, u1, u2, u3, v0, v1, v2, v3, r0, r1, r2, r3))
  else
    if ((decide (v0 = 1)) && decide (((v3 ||| v2) ||| v1) = 0)) then
      (some (s0, s1, s2, s3), (bigger, borrow, carry, r0, r1, r2, r3, s0, s1, s2, s3, u0, u1, u2, u3, v0, v1, v2, v3, s0, s1, s2, s3))
    else
      (none, (bigger, borrow, carry, r0, r1, r2, r3, s0, s1, s2, s3, u0, u1, u2, u3, v0, v1, v2, v3, z0, z1, z2, z3))

/-- `limb_eval` after deciding the two exit tests -/
macro "seg1_eval" u0:term:max u1:term:max u2:term:max u3:term:max v0:term:max v1:term:max v2:term:max v3:term:max : tactic =>
  `(tactic| (
    by_cases e1 : ((decide ($u0 = 1)) && decide ((($u3 ||| $u2) ||| $u1) = 0)) = true
    · limb_eval [Inverse_seg1, tail]
    · by_cases e2 : ((decide ($v0 = 1)) && decide ((($v3 ||| $v2) ||| $v1) = 0)) = true
      · limb_eval [Inverse_seg1, tail]
      · limb_eval [Inverse_seg1, tail]))

theorem geLex_iff (v0 v1 v2 v3 u0 u1 u2 u3 : Nat)
    (hv0 : v0 < W) (hv1 : v1 < W) (hv2 : v2 < W) (hu0 : u0 < W) (hu1 : u1 < W) (hu2 : u2 < W) :
    (!((decide (v3 < u3) || ((decide (v3 = u3) && ((decide (v2 < u2) || ((decide (v2 = u2) && ((decide (v1 < u1) || ((decide (v1 = u1) && (decide (v0 < u0))))))))))))))) = true
     ↔ val4 u0 u1 u2 u3 ≤ val4 v0 v1 v2 v3 := by
  simp only [Bool.not_eq_true', Bool.or_eq_false_iff, Bool.and_eq_false_iff, decide_eq_false_iff_not, val4, Word.W] at *
  omega

/-- the arithmetic of `a -= b; if borrow { a += q }` on canonical values -/
theorem submod_arith1 (A B D E k c : Nat) (_hA : A < Q) (hB : B < Q) (hD : D < R) (hE : E < R)
    (key : D + B + 0 = A + k * R) (hk : k = 1) (key2 : E + c * R = D + Q + 0) :
    E < Q ∧ (E + B) % Q = A := by
  simp only [Q, R, Word.W] at *
  omega

theorem submod_arith0 (A B D k : Nat) (hA : A < Q) (hB : B < Q) (hD : D < R)
    (key : D + B + 0 = A + k * R) (hk : k ≤ 1) (hk1 : ¬ k = 1) :
    D < Q ∧ (D + B) % Q = A := by
  simp only [Q, R, Word.W] at hA hB hD key ⊢
  omega

theorem subval_arith (A B D k : Nat) (hD : D < R) (hle : B ≤ A) (key : D + B + 0 = A + k * R) :
    D + B = A := by
  simp only [R, Word.W] at *
  omega

theorem seg1_ge (carry r0 r1 r2 r3 s0 s1 s2 s3 u0 u1 u2 u3 v0 v1 v2 v3 : Nat)
    (hr0 : r0 < W) (hr1 : r1 < W) (hr2 : r2 < W) (hr3 : r3 < W)
    (hs0 : s0 < W) (hs1 : s1 < W) (hs2 : s2 < W) (hs3 : s3 < W)
    (hu0 : u0 < W) (hu1 : u1 < W) (hu2 : u2 < W) (hu3 : u3 < W)
    (hv0 : v0 < W) (hv1 : v1 < W) (hv2 : v2 < W) (hv3 : v3 < W)
    (hR : val4 r0 r1 r2 r3 < Q) (hS : val4 s0 s1 s2 s3 < Q)
    (hge : val4 u0 u1 u2 u3 ≤ val4 v0 v1 v2 v3) :
    ∃ b bo c s0' s1' s2' s3' v0' v1' v2' v3',
      s0' < W ∧ s1' < W ∧ s2' < W ∧ s3' < W ∧ v0' < W ∧ v1' < W ∧ v2' < W ∧ v3' < W ∧
      val4 v0' v1' v2' v3' + val4 u0 u1 u2 u3 = val4 v0 v1 v2 v3 ∧
      val4 s0' s1' s2' s3' < Q ∧ (val4 s0' s1' s2' s3' + val4 r0 r1 r2 r3) % Q = val4 s0 s1 s2 s3 ∧
      ∀ bigger borrow z0 z1 z2 z3,
        Inverse_seg1 bigger borrow carry r0 r1 r2 r3 s0 s1 s2 s3 u0 u1 u2 u3 v0 v1 v2 v3 z0 z1 z2 z3 =
          tail b bo c r0 r1 r2 r3 s0' s1' s2' s3' u0 u1 u2 u3 v0' v1' v2' v3' z0 z1 z2 z3 := by
  have hc := (geLex_iff v0 v1 v2 v3 u0 u1 u2 u3 hv0 hv1 hv2 hu0 hu1 hu2).2 hge
  obtain ⟨d0, k0, e0, hd0, hk0, f0⟩ := sub64_spec v0 u0 0 hv0 hu0 (by decide)
  obtain ⟨d1, k1, e1, hd1, hk1, f1⟩ := sub64_spec v1 u1 k0 hv1 hu1 hk0
  obtain ⟨d2, k2, e2, hd2, hk2, f2⟩ := sub64_spec v2 u2 k1 hv2 hu2 hk1
  obtain ⟨d3, k3, e3, hd3, hk3, f3⟩ := sub64_spec v3 u3 k2 hv3 hu3 hk2
  obtain ⟨t0, j0, e4, ht0, hj0, g0⟩ := sub64_spec s0 r0 0 hs0 hr0 (by decide)
  obtain ⟨t1, j1, e5, ht1, hj1, g1⟩ := sub64_spec s1 r1 j0 hs1 hr1 hj0
  obtain ⟨t2, j2, e6, ht2, hj2, g2⟩ := sub64_spec s2 r2 j1 hs2 hr2 hj1
  obtain ⟨t3, j3, e7, ht3, hj3, g3⟩ := sub64_spec s3 r3 j2 hs3 hr3 hj2
  have keyv := sub_chain v0 v1 v2 v3 u0 u1 u2 u3 d0 d1 d2 d3 k0 k1 k2 k3 0 f0 f1 f2 f3
  have keys := sub_chain s0 s1 s2 s3 r0 r1 r2 r3 t0 t1 t2 t3 j0 j1 j2 j3 0 g0 g1 g2 g3
  have hvv := subval_arith _ _ _ _ (val4_lt d0 d1 d2 d3 hd0 hd1 hd2 hd3) hge keyv
  by_cases hb : j3 = 1
  · obtain ⟨a0, c0, e8, ha0, hc0, h0⟩ := add64_spec t0 4891460686036598785 0 ht0 (by decide) (by decide)
    obtain ⟨a1, c1, e9, ha1, hc1, h1⟩ := add64_spec t1 2896914383306846353 c0 ht1 (by decide) hc0
    obtain ⟨a2, c2, e10, ha2, hc2, h2⟩ := add64_spec t2 13281191951274694749 c1 ht2 (by decide) hc1
    obtain ⟨a3, c3, e11, ha3, hc3, h3⟩ := add64_spec t3 3486998266802970665 c2 ht3 (by decide) hc2
    have key2 := add_chain t0 t1 t2 t3 _ _ _ _ a0 a1 a2 a3 c0 c1 c2 c3 0 h0 h1 h2 h3
    rw [val4_Q] at key2
    have hfin := submod_arith1 _ _ _ _ _ _ hS hR (val4_lt t0 t1 t2 t3 ht0 ht1 ht2 ht3)
      (val4_lt a0 a1 a2 a3 ha0 ha1 ha2 ha3) keys hb key2
    exact ⟨_, j3, c2, a0, a1, a2, a3, d0, d1, d2, d3, ha0, ha1, ha2, ha3, hd0, hd1, hd2, hd3, hvv, hfin.1, hfin.2,
      fun bigger borrow z0 z1 z2 z3 => by seg1_eval u0 u1 u2 u3 d0 d1 d2 d3⟩
  · have hfin := submod_arith0 _ _ _ _ hS hR (val4_lt t0 t1 t2 t3 ht0 ht1 ht2 ht3) keys hj3 hb
    exact ⟨_, j3, carry, t0, t1, t2, t3, d0, d1, d2, d3, ht0, ht1, ht2, ht3, hd0, hd1, hd2, hd3, hvv, hfin.1, hfin.2,
      fun bigger borrow z0 z1 z2 z3 => by seg1_eval u0 u1 u2 u3 d0 d1 d2 d3⟩

theorem seg1_lt (carry r0 r1 r2 r3 s0 s1 s2 s3 u0 u1 u2 u3 v0 v1 v2 v3 : Nat)
    (hr0 : r0 < W) (hr1 : r1 < W) (hr2 : r2 < W) (hr3 : r3 < W)
    (hs0 : s0 < W) (hs1 : s1 < W) (hs2 : s2 < W) (hs3 : s3 < W)
    (hu0 : u0 < W) (hu1 : u1 < W) (hu2 : u2 < W) (hu3 : u3 < W)
    (hv0 : v0 < W) (hv1 : v1 < W) (hv2 : v2 < W) (hv3 : v3 < W)
    (hR : val4 r0 r1 r2 r3 < Q) (hS : val4 s0 s1 s2 s3 < Q)
    (hlt : val4 v0 v1 v2 v3 < val4 u0 u1 u2 u3) :
    ∃ b bo c r0' r1' r2' r3' u0' u1' u2' u3',
      r0' < W ∧ r1' < W ∧ r2' < W ∧ r3' < W ∧ u0' < W ∧ u1' < W ∧ u2' < W ∧ u3' < W ∧
      val4 u0' u1' u2' u3' + val4 v0 v1 v2 v3 = val4 u0 u1 u2 u3 ∧
      val4 r0' r1' r2' r3' < Q ∧ (val4 r0' r1' r2' r3' + val4 s0 s1 s2 s3) % Q = val4 r0 r1 r2 r3 ∧
      ∀ bigger borrow z0 z1 z2 z3,
        Inverse_seg1 bigger borrow carry r0 r1 r2 r3 s0 s1 s2 s3 u0 u1 u2 u3 v0 v1 v2 v3 z0 z1 z2 z3 =
          tail b bo c r0' r1' r2' r3' s0 s1 s2 s3 u0' u1' u2' u3' v0 v1 v2 v3 z0 z1 z2 z3 := by
  have hc : ¬ ((!((decide (v3 < u3) || ((decide (v3 = u3) && ((decide (v2 < u2) || ((decide (v2 = u2) && ((decide (v1 < u1) || ((decide (v1 = u1) && (decide (v0 < u0))))))))))))))) = true) :=
    fun h => absurd ((geLex_iff v0 v1 v2 v3 u0 u1 u2 u3 hv0 hv1 hv2 hu0 hu1 hu2).1 h) (Nat.not_le.2 hlt)
  obtain ⟨d0, k0, e0, hd0, hk0, f0⟩ := sub64_spec u0 v0 0 hu0 hv0 (by decide)
  obtain ⟨d1, k1, e1, hd1, hk1, f1⟩ := sub64_spec u1 v1 k0 hu1 hv1 hk0
  obtain ⟨d2, k2, e2, hd2, hk2, f2⟩ := sub64_spec u2 v2 k1 hu2 hv2 hk1
  obtain ⟨d3, k3, e3, hd3, hk3, f3⟩ := sub64_spec u3 v3 k2 hu3 hv3 hk2
  obtain ⟨t0, j0, e4, ht0, hj0, g0⟩ := sub64_spec r0 s0 0 hr0 hs0 (by decide)
  obtain ⟨t1, j1, e5, ht1, hj1, g1⟩ := sub64_spec r1 s1 j0 hr1 hs1 hj0
  obtain ⟨t2, j2, e6, ht2, hj2, g2⟩ := sub64_spec r2 s2 j1 hr2 hs2 hj1
  obtain ⟨t3, j3, e7, ht3, hj3, g3⟩ := sub64_spec r3 s3 j2 hr3 hs3 hj2
  have keyu := sub_chain u0 u1 u2 u3 v0 v1 v2 v3 d0 d1 d2 d3 k0 k1 k2 k3 0 f0 f1 f2 f3
  have keyr := sub_chain r0 r1 r2 r3 s0 s1 s2 s3 t0 t1 t2 t3 j0 j1 j2 j3 0 g0 g1 g2 g3
  have huu := subval_arith _ _ _ _ (val4_lt d0 d1 d2 d3 hd0 hd1 hd2 hd3)
    (Nat.le_of_lt hlt) keyu
  by_cases hb : j3 = 1
  · obtain ⟨a0, c0, e8, ha0, hc0, h0⟩ := add64_spec t0 4891460686036598785 0 ht0 (by decide) (by decide)
    obtain ⟨a1, c1, e9, ha1, hc1, h1⟩ := add64_spec t1 2896914383306846353 c0 ht1 (by decide) hc0
    obtain ⟨a2, c2, e10, ha2, hc2, h2⟩ := add64_spec t2 13281191951274694749 c1 ht2 (by decide) hc1
    obtain ⟨a3, c3, e11, ha3, hc3, h3⟩ := add64_spec t3 3486998266802970665 c2 ht3 (by decide) hc2
    have key2 := add_chain t0 t1 t2 t3 _ _ _ _ a0 a1 a2 a3 c0 c1 c2 c3 0 h0 h1 h2 h3
    rw [val4_Q] at key2
    have hfin := submod_arith1 _ _ _ _ _ _ hR hS (val4_lt t0 t1 t2 t3 ht0 ht1 ht2 ht3)
      (val4_lt a0 a1 a2 a3 ha0 ha1 ha2 ha3) keyr hb key2
    exact ⟨_, j3, c2, a0, a1, a2, a3, d0, d1, d2, d3, ha0, ha1, ha2, ha3, hd0, hd1, hd2, hd3, huu, hfin.1, hfin.2,
      fun bigger borrow z0 z1 z2 z3 => by seg1_eval d0 d1 d2 d3 v0 v1 v2 v3⟩
  · have hfin := submod_arith0 _ _ _ _ hR hS (val4_lt t0 t1 t2 t3 ht0 ht1 ht2 ht3) keyr hj3 hb
    exact ⟨_, j3, carry, t0, t1, t2, t3, d0, d1, d2, d3, ht0, ht1, ht2, ht3, hd0, hd1, hd2, hd3, huu, hfin.1, hfin.2,
      fun bigger borrow z0 z1 z2 z3 => by seg1_eval d0 d1 d2 d3 v0 v1 v2 v3⟩

/-- shape of the tail segment for ARBITRARY words: everything but the exit tests is independent of
the incoming `bigger`, `borrow` and of the destination cells `z` -/
theorem seg1_tail (carry r0 r1 r2 r3 s0 s1 s2 s3 u0 u1 u2 u3 v0 v1 v2 v3 : Nat) :
    ∃ b bo c r0' r1' r2' r3' s0' s1' s2' s3' u0' u1' u2' u3' v0' v1' v2' v3',
      ∀ bigger borrow z0 z1 z2 z3,
        Inverse_seg1 bigger borrow carry r0 r1 r2 r3 s0 s1 s2 s3 u0 u1 u2 u3 v0 v1 v2 v3 z0 z1 z2 z3 =
          tail b bo c r0' r1' r2' r3' s0' s1' s2' s3' u0' u1' u2' u3' v0' v1' v2' v3' z0 z1 z2 z3 := by
  by_cases hc : (!((decide (v3 < u3) || ((decide (v3 = u3) && ((decide (v2 < u2) || ((decide (v2 = u2) && ((decide (v1 < u1) || ((decide (v1 = u1) && (decide (v0 < u0))))))))))))))) = true
  · rcases e0 : sub64 v0 u0 0 with ⟨d0, k0⟩
    rcases e1 : sub64 v1 u1 k0 with ⟨d1, k1⟩
    rcases e2 : sub64 v2 u2 k1 with ⟨d2, k2⟩
    rcases e3 : sub64 v3 u3 k2 with ⟨d3, k3⟩
    rcases e4 : sub64 s0 r0 0 with ⟨t0, j0⟩
    rcases e5 : sub64 s1 r1 j0 with ⟨t1, j1⟩
    rcases e6 : sub64 s2 r2 j1 with ⟨t2, j2⟩
    rcases e7 : sub64 s3 r3 j2 with ⟨t3, j3⟩
    by_cases hb : j3 = 1
    · rcases e8 : add64 t0 4891460686036598785 0 with ⟨a0, c0⟩
      rcases e9 : add64 t1 2896914383306846353 c0 with ⟨a1, c1⟩
      rcases e10 : add64 t2 13281191951274694749 c1 with ⟨a2, c2⟩
      rcases e11 : add64 t3 3486998266802970665 c2 with ⟨a3, c3⟩
      exact ⟨_, j3, c2, r0, r1, r2, r3, a0, a1, a2, a3, u0, u1, u2, u3, d0, d1, d2, d3,
        fun bigger borrow z0 z1 z2 z3 => by seg1_eval u0 u1 u2 u3 d0 d1 d2 d3⟩
    · exact ⟨_, j3, carry, r0, r1, r2, r3, t0, t1, t2, t3, u0, u1, u2, u3, d0, d1, d2, d3,
        fun bigger borrow z0 z1 z2 z3 => by seg1_eval u0 u1 u2 u3 d0 d1 d2 d3⟩
  · rcases e0 : sub64 u0 v0 0 with ⟨d0, k0⟩
    rcases e1 : sub64 u1 v1 k0 with ⟨d1, k1⟩
    rcases e2 : sub64 u2 v2 k1 with ⟨d2, k2⟩
    rcases e3 : sub64 u3 v3 k2 with ⟨d3, k3⟩
    rcases e4 : sub64 r0 s0 0 with ⟨t0, j0⟩
    rcases e5 : sub64 r1 s1 j0 with ⟨t1, j1⟩
    rcases e6 : sub64 r2 s2 j1 with ⟨t2, j2⟩
    rcases e7 : sub64 r3 s3 j2 with ⟨t3, j3⟩
    by_cases hb : j3 = 1
    · rcases e8 : add64 t0 4891460686036598785 0 with ⟨a0, c0⟩
      rcases e9 : add64 t1 2896914383306846353 c0 with ⟨a1, c1⟩
      rcases e10 : add64 t2 13281191951274694749 c1 with ⟨a2, c2⟩
      rcases e11 : add64 t3 3486998266802970665 c2 with ⟨a3, c3⟩
      exact ⟨_, j3, c2, a0, a1, a2, a3, s0, s1, s2, s3, d0, d1, d2, d3, v0, v1, v2, v3,
        fun bigger borrow z0 z1 z2 z3 => by seg1_eval d0 d1 d2 d3 v0 v1 v2 v3⟩
    · exact ⟨_, j3, carry, t0, t1, t2, t3, s0, s1, s2, s3, d0, d1, d2, d3, v0, v1, v2, v3,
        fun bigger borrow z0 z1 z2 z3 => by seg1_eval d0 d1 d2 d3 v0 v1 v2 v3⟩

/-! ## 2. value level -/

theorem halve_compose (S S1 S' k : Nat) (h1 : (2 * S1) % Q = S) (h2 : (2 ^ k * S') % Q = S1) :
    (2 ^ (k + 1) * S') % Q = S := by
  rw [← h1, ← h2, Nat.mul_mod_mod, pow_succ, Nat.mul_comm (2 ^ k) 2, Nat.mul_assoc]

theorem odd_two_pow_mul (a n : Nat) (h : (2 ^ a * n) % 2 = 1) : a = 0 := by
  rcases a with _ | a
  · rfl
  · exfalso
    have : 2 ^ (a + 1) * n = 2 * (2 ^ a * n) := by rw [pow_succ, Nat.mul_comm (2 ^ a) 2, Nat.mul_assoc]
    omega

/-- halving both sides of `x·S ≡ V·K` -/
theorem cong_halve (X V V' S S' k : Nat) (KK : ZMod Q) (hV : V = 2 ^ k * V') (hS : (2 ^ k * S') % Q = S)
    (h : (X : ZMod Q) * S = V * KK) : (X : ZMod Q) * S' = V' * KK := by
  have hS' : ((2 ^ k * S' : ℕ) : ZMod Q) = (S : ZMod Q) := by rw [← hS, ZMod.natCast_mod]
  subst hV
  push_cast at h hS'
  have h2 : (2 : ZMod Q) ^ k ≠ 0 := pow_ne_zero _ two_ne_zero
  apply mul_left_cancel₀ h2
  linear_combination h + (X : ZMod Q) * hS'

/-- subtracting `x·Rr ≡ U·K` from `x·S ≡ V·K` -/
theorem cong_sub (X U V V' Rr S S' : Nat) (KK : ZMod Q) (hV : V' + U = V) (hS : (S' + Rr) % Q = S)
    (h1 : (X : ZMod Q) * S = V * KK) (h2 : (X : ZMod Q) * Rr = U * KK) : (X : ZMod Q) * S' = V' * KK := by
  have hS' : ((S' + Rr : ℕ) : ZMod Q) = (S : ZMod Q) := by rw [← hS, ZMod.natCast_mod]
  subst hV
  push_cast at h1 hS'
  linear_combination h1 - h2 + (X : ZMod Q) * hS'

theorem coprime_halve_right (U V V' k : Nat) (hV : V = 2 ^ k * V') (h : Nat.Coprime U V) : Nat.Coprime U V' :=
  Nat.Coprime.coprime_dvd_right (Dvd.intro_left _ hV.symm) h

theorem coprime_sub_right (U V V' : Nat) (hV : V' + U = V) (h : Nat.Coprime U V) : Nat.Coprime U V' := by
  subst hV
  exact (Nat.coprime_add_self_right).1 h

/-- the termination measure: the product, doubled while both are odd -/
def mu (U V : Nat) : Nat := U * V * (if U % 2 = 1 ∧ V % 2 = 1 then 2 else 1)

theorem mu_pos (U V : Nat) (hU : 0 < U) (hV : 0 < V) : 0 < mu U V := by
  unfold mu
  split <;> positivity

theorem mu_ge (U V U1 V1 a b : Nat) (hU : U = 2 ^ a * U1) (hV : V = 2 ^ b * V1)
    (hU1 : U1 % 2 = 1) (hV1 : V1 % 2 = 1) : 2 * (U1 * V1) ≤ mu U V := by
  have pa : 1 ≤ 2 ^ a := Nat.one_le_two_pow
  have pb : 1 ≤ 2 ^ b := Nat.one_le_two_pow
  have hUle : U1 ≤ U := by rw [hU]; exact Nat.le_mul_of_pos_left _ pa
  have hVle : V1 ≤ V := by rw [hV]; exact Nat.le_mul_of_pos_left _ pb
  unfold mu
  by_cases hc : U % 2 = 1 ∧ V % 2 = 1
  · rw [if_pos hc, Nat.mul_comm _ 2]
    exact Nat.mul_le_mul_left _ (Nat.mul_le_mul hUle hVle)
  · rw [if_neg hc, Nat.mul_one]
    rcases a with _ | a
    · rcases b with _ | b
      · exfalso; apply hc; simp only [pow_zero, Nat.one_mul] at hU hV; subst hU hV; exact ⟨hU1, hV1⟩
      · have : V = 2 * (2 ^ b * V1) := by rw [hV, pow_succ, Nat.mul_comm (2 ^ b) 2, Nat.mul_assoc]
        have h1 : V1 ≤ 2 ^ b * V1 := Nat.le_mul_of_pos_left _ Nat.one_le_two_pow
        rw [this, Nat.mul_left_comm U 2]
        exact Nat.mul_le_mul_left _ (Nat.mul_le_mul hUle h1)
    · have : U = 2 * (2 ^ a * U1) := by rw [hU, pow_succ, Nat.mul_comm (2 ^ a) 2, Nat.mul_assoc]
      have h1 : U1 ≤ 2 ^ a * U1 := Nat.le_mul_of_pos_left _ Nat.one_le_two_pow
      rw [this, Nat.mul_assoc]
      exact Nat.mul_le_mul_left _ (Nat.mul_le_mul h1 hVle)

/-- after a subtraction of two odd numbers the measure is the plain product -/
theorem mu_sub (U1 V1 V2 : Nat) (hU1 : U1 % 2 = 1) (hV1 : V1 % 2 = 1) (hV : V2 + U1 = V1) (hpos : 0 < U1) :
    mu U1 V2 = U1 * V2 ∧ mu V2 U1 = U1 * V2 ∧ U1 * V2 < U1 * V1 := by
  have hev : ¬ V2 % 2 = 1 := by omega
  refine ⟨?_, ?_, ?_⟩
  · unfold mu; rw [if_neg (fun h => hev h.2), Nat.mul_one]
  · unfold mu; rw [if_neg (fun h => hev h.1), Nat.mul_one, Nat.mul_comm]
  · exact Nat.mul_lt_mul_of_pos_left (by omega) hpos


/-! ## 3. the fuel skeleton -/

def Uv (st : St) : Nat := val4 st.u0 st.u1 st.u2 st.u3
def Vv (st : St) : Nat := val4 st.v0 st.v1 st.v2 st.v3
def Rv (st : St) : Nat := val4 st.r0 st.r1 st.r2 st.r3
def Sv (st : St) : Nat := val4 st.s0 st.s1 st.s2 st.s3

/-- all sixteen working words are words -/
structure Limbs (st : St) : Prop where
  r0 : st.r0 < W
  r1 : st.r1 < W
  r2 : st.r2 < W
  r3 : st.r3 < W
  s0 : st.s0 < W
  s1 : st.s1 < W
  s2 : st.s2 < W
  s3 : st.s3 < W
  u0 : st.u0 < W
  u1 : st.u1 < W
  u2 : st.u2 < W
  u3 : st.u3 < W
  v0 : st.v0 < W
  v1 : st.v1 < W
  v2 : st.v2 < W
  v3 : st.v3 < W

theorem half_lt_pow (V V1 f : Nat) (h : 2 * V1 + 0 = V) (hf : V < 2 ^ (f + 1)) : V1 < 2 ^ f := by
  rw [pow_succ] at hf; omega

/-- the `v` loop: strips the powers of two from `v`, halving `s` modulo `q` as often -/
theorem loopV_spec : ∀ (f : Nat) (st : St), Limbs st → Sv st < Q → 0 < Vv st → Vv st < 2 ^ f →
    ∃ st', loopV f st = some st' ∧ Limbs st' ∧ Sv st' < Q ∧ Uv st' = Uv st ∧ Rv st' = Rv st ∧
      Vv st' % 2 = 1 ∧ ∃ k, Vv st = 2 ^ k * Vv st' ∧ (2 ^ k * Sv st') % Q = Sv st := by
  intro f
  induction f with
  | zero => intro st _ _ h0 h1; omega
  | succ f ih =>
    intro st hl hS h0 hf
    by_cases hc : Vv st % 2 = 0
    · obtain ⟨c', s0', s1', s2', s3', v0', v1', v2', v3', hb, b0, b1, b2, b3, b4, b5, b6, b7, hv, hs1, hs2⟩ :=
        loop1_body_ok st.carry st.s0 st.s1 st.s2 st.s3 st.v0 st.v1 st.v2 st.v3
          hl.s0 hl.s1 hl.s2 hl.s3 hl.v0 hl.v1 hl.v2 hl.v3 hS
      have hcond := (loop1_cond_iff st.carry st.s0 st.s1 st.s2 st.s3 st.v0 st.v1 st.v2 st.v3).2 hc
      have hstep : loopV (f + 1) st = loopV f
          { st with
            carry := c', s0 := s0', s1 := s1', s2 := s2', s3 := s3',
            v0 := v0', v1 := v1', v2 := v2', v3 := v3' } := by
        rw [loopV, if_pos hcond, hb]
      have hv0 : st.v0 % 2 = 0 := by rw [← val4_mod2 st.v0 st.v1 st.v2 st.v3]; exact hc
      rw [hv0] at hv
      obtain ⟨st', h1, hl', hS', hU', hR', hodd, k, hk1, hk2⟩ :=
        ih
          { st with
            carry := c', s0 := s0', s1 := s1', s2 := s2', s3 := s3',
            v0 := v0', v1 := v1', v2 := v2', v3 := v3' }
          ⟨hl.r0, hl.r1, hl.r2, hl.r3, b0, b1, b2, b3, hl.u0, hl.u1, hl.u2, hl.u3, b4, b5, b6, b7⟩
          hs1 (by show 0 < val4 v0' v1' v2' v3'; unfold Vv at h0; omega) (half_lt_pow _ _ _ hv hf)
      refine ⟨st', hstep.trans h1, hl', hS', hU', hR', hodd, k + 1, ?_, halve_compose _ _ _ _ hs2 hk2⟩
      show val4 st.v0 st.v1 st.v2 st.v3 = _
      rw [← hv, pow_succ, Nat.mul_assoc, Nat.mul_comm (2 ^ k), Nat.mul_assoc, Nat.add_zero]
      congr 1
      rw [Nat.mul_comm]; exact hk1
    · have hcond : ¬ Inverse_loop1_cond st.carry st.s0 st.s1 st.s2 st.s3 st.v0 st.v1 st.v2 st.v3 = true :=
        fun h => hc ((loop1_cond_iff _ _ _ _ _ _ _ _ _).1 h)
      refine ⟨st, by rw [loopV, if_neg hcond], hl, hS, rfl, rfl, by omega, 0, by simp, by
        simp [Nat.mod_eq_of_lt hS]⟩

/-- the `u` loop: the same for `u` and `r` -/
theorem loopU_spec : ∀ (f : Nat) (st : St), Limbs st → Rv st < Q → 0 < Uv st → Uv st < 2 ^ f →
    ∃ st', loopU f st = some st' ∧ Limbs st' ∧ Rv st' < Q ∧ Vv st' = Vv st ∧ Sv st' = Sv st ∧
      Uv st' % 2 = 1 ∧ ∃ k, Uv st = 2 ^ k * Uv st' ∧ (2 ^ k * Rv st') % Q = Rv st := by
  intro f
  induction f with
  | zero => intro st _ _ h0 h1; omega
  | succ f ih =>
    intro st hl hS h0 hf
    by_cases hc : Uv st % 2 = 0
    · obtain ⟨c', s0', s1', s2', s3', v0', v1', v2', v3', hb, b0, b1, b2, b3, b4, b5, b6, b7, hv, hs1, hs2⟩ :=
        loop1_body_ok st.carry st.r0 st.r1 st.r2 st.r3 st.u0 st.u1 st.u2 st.u3
          hl.r0 hl.r1 hl.r2 hl.r3 hl.u0 hl.u1 hl.u2 hl.u3 hS
      have hcond := (loop1_cond_iff st.carry st.r0 st.r1 st.r2 st.r3 st.u0 st.u1 st.u2 st.u3).2 hc
      have hstep : loopU (f + 1) st = loopU f
          { st with
            carry := c', r0 := s0', r1 := s1', r2 := s2', r3 := s3',
            u0 := v0', u1 := v1', u2 := v2', u3 := v3' } := by
        rw [loopU, loop2_cond_eq, if_pos hcond, loop2_body_eq, hb]
      have hv0 : st.u0 % 2 = 0 := by rw [← val4_mod2 st.u0 st.u1 st.u2 st.u3]; exact hc
      rw [hv0] at hv
      obtain ⟨st', h1, hl', hS', hU', hR', hodd, k, hk1, hk2⟩ :=
        ih
          { st with
            carry := c', r0 := s0', r1 := s1', r2 := s2', r3 := s3',
            u0 := v0', u1 := v1', u2 := v2', u3 := v3' }
          ⟨b0, b1, b2, b3, hl.s0, hl.s1, hl.s2, hl.s3, b4, b5, b6, b7, hl.v0, hl.v1, hl.v2, hl.v3⟩
          hs1 (by show 0 < val4 v0' v1' v2' v3'; unfold Uv at h0; omega) (half_lt_pow _ _ _ hv hf)
      refine ⟨st', hstep.trans h1, hl', hS', hU', hR', hodd, k + 1, ?_, halve_compose _ _ _ _ hs2 hk2⟩
      show val4 st.u0 st.u1 st.u2 st.u3 = _
      rw [← hv, pow_succ, Nat.mul_assoc, Nat.mul_comm (2 ^ k), Nat.mul_assoc, Nat.add_zero]
      congr 1
      rw [Nat.mul_comm]; exact hk1
    · have hcond : ¬ Inverse_loop1_cond st.carry st.r0 st.r1 st.r2 st.r3 st.u0 st.u1 st.u2 st.u3 = true :=
        fun h => hc ((loop1_cond_iff _ _ _ _ _ _ _ _ _).1 h)
      refine ⟨st, by rw [loopU, loop2_cond_eq, if_neg hcond], hl, hS, rfl, rfl, by omega, 0, by simp, by
        simp [Nat.mod_eq_of_lt hS]⟩

theorem exit_iff (a0 a1 a2 a3 : Nat) :
    ((decide (a0 = 1)) && decide (((a3 ||| a2) ||| a1) = 0)) = true ↔ val4 a0 a1 a2 a3 = 1 := by
  simp only [Bool.and_eq_true, decide_eq_true_eq, Nat.or_eq_zero_iff, val4, Word.W]
  omega

/-- the three outcomes of the exit tests -/
theorem tail_cases (bigger : Bool) (borrow carry r0 r1 r2 r3 s0 s1 s2 s3 u0 u1 u2 u3 v0 v1 v2 v3 z0 z1 z2 z3 : Nat) :
    (val4 u0 u1 u2 u3 = 1 ∧ ∃ t,
      tail bigger borrow carry r0 r1 r2 r3 s0 s1 s2 s3 u0 u1 u2 u3 v0 v1 v2 v3 z0 z1 z2 z3 = (some (r0, r1, r2, r3), t)) ∨
    (val4 u0 u1 u2 u3 ≠ 1 ∧ val4 v0 v1 v2 v3 = 1 ∧ ∃ t,
      tail bigger borrow carry r0 r1 r2 r3 s0 s1 s2 s3 u0 u1 u2 u3 v0 v1 v2 v3 z0 z1 z2 z3 = (some (s0, s1, s2, s3), t)) ∨
    (val4 u0 u1 u2 u3 ≠ 1 ∧ val4 v0 v1 v2 v3 ≠ 1 ∧
      tail bigger borrow carry r0 r1 r2 r3 s0 s1 s2 s3 u0 u1 u2 u3 v0 v1 v2 v3 z0 z1 z2 z3 =
        (none, (bigger, borrow, carry, r0, r1, r2, r3, s0, s1, s2, s3, u0, u1, u2, u3, v0, v1, v2, v3, z0, z1, z2, z3))) := by
  by_cases e1 : ((decide (u0 = 1)) && decide (((u3 ||| u2) ||| u1) = 0)) = true
  · exact Or.inl ⟨(exit_iff _ _ _ _).1 e1, _, by rw [tail, if_pos e1]⟩
  · have h1 : val4 u0 u1 u2 u3 ≠ 1 := fun h => e1 ((exit_iff _ _ _ _).2 h)
    by_cases e2 : ((decide (v0 = 1)) && decide (((v3 ||| v2) ||| v1) = 0)) = true
    · exact Or.inr (Or.inl ⟨h1, (exit_iff _ _ _ _).1 e2, _, by rw [tail, if_neg e1, if_pos e2]⟩)
    · exact Or.inr (Or.inr ⟨h1, fun h => e2 ((exit_iff _ _ _ _).2 h), by rw [tail, if_neg e1, if_neg e2]⟩)

/-- unfolding one iteration of the main loop -/
theorem outer_exit (f : Nat) (st st1 st2 : St) (r : Nat × Nat × Nat × Nat) (t)
    (h1 : loopV 300 st = some st1) (h2 : loopU 300 st1 = some st2)
    (h3 : Inverse_seg1 st2.bigger st2.borrow st2.carry st2.r0 st2.r1 st2.r2 st2.r3 st2.s0 st2.s1 st2.s2 st2.s3
            st2.u0 st2.u1 st2.u2 st2.u3 st2.v0 st2.v1 st2.v2 st2.v3 st2.z0 st2.z1 st2.z2 st2.z3 = (some r, t)) :
    outer (f + 1) st = some r := by
  rw [outer, h1]; dsimp only; rw [h2]; dsimp only; rw [h3]

theorem outer_cont (f : Nat) (st st1 st2 : St)
    (bigger : Bool) (borrow carry r0 r1 r2 r3 s0 s1 s2 s3 u0 u1 u2 u3 v0 v1 v2 v3 z0 z1 z2 z3 : Nat)
    (h1 : loopV 300 st = some st1) (h2 : loopU 300 st1 = some st2)
    (h3 : Inverse_seg1 st2.bigger st2.borrow st2.carry st2.r0 st2.r1 st2.r2 st2.r3 st2.s0 st2.s1 st2.s2 st2.s3
            st2.u0 st2.u1 st2.u2 st2.u3 st2.v0 st2.v1 st2.v2 st2.v3 st2.z0 st2.z1 st2.z2 st2.z3 =
          (none, (bigger, borrow, carry, r0, r1, r2, r3, s0, s1, s2, s3, u0, u1, u2, u3, v0, v1, v2, v3, z0, z1, z2, z3))) :
    outer (f + 1) st =
      outer f ⟨bigger, borrow, carry, r0, r1, r2, r3, s0, s1, s2, s3, u0, u1, u2, u3, v0, v1, v2, v3, z0, z1, z2, z3⟩ := by
  rw [outer, h1]; dsimp only; rw [h2]; dsimp only; rw [h3]


/-- the value-level loop invariant at the head of the main loop, for the operand `X` and the
constant `KK` (`= R²`): `x·s ≡ v·KK`, `x·r ≡ u·KK`, `gcd(u, v) = 1`, one of `u`, `v` is odd and `> 1` -/
structure InvV (X : Nat) (KK : ZMod Q) (U V Rr S : Nat) : Prop where
  hR : Rr < Q
  hS : S < Q
  hU : 0 < U
  hV : 0 < V
  cop : Nat.Coprime U V
  big : (U % 2 = 1 ∧ 1 < U) ∨ (V % 2 = 1 ∧ 1 < V)
  cS : (X : ZMod Q) * (S : ZMod Q) = (V : ZMod Q) * KK
  cR : (X : ZMod Q) * (Rr : ZMod Q) = (U : ZMod Q) * KK

/-- after the two inner loops -/
theorem invV_loops {X : Nat} {KK : ZMod Q} {U V Rr S U1 V1 R1 S1 a b : Nat} (h : InvV X KK U V Rr S)
    (hU : U = 2 ^ a * U1) (hV : V = 2 ^ b * V1) (hRr : (2 ^ a * R1) % Q = Rr) (hSs : (2 ^ b * S1) % Q = S)
    (hoU : U1 % 2 = 1) (hoV : V1 % 2 = 1) :
    Nat.Coprime U1 V1 ∧ (X : ZMod Q) * (S1 : ZMod Q) = (V1 : ZMod Q) * KK ∧
      (X : ZMod Q) * (R1 : ZMod Q) = (U1 : ZMod Q) * KK ∧ U1 ≠ V1 ∧ 2 * (U1 * V1) ≤ mu U V := by
  have c1 : Nat.Coprime U1 V1 :=
    coprime_halve_right _ _ _ _ hV (coprime_halve_right _ _ _ _ hU h.cop.symm).symm
  refine ⟨c1, cong_halve _ _ _ _ _ _ _ hV hSs h.cS, cong_halve _ _ _ _ _ _ _ hU hRr h.cR, ?_,
    mu_ge _ _ _ _ _ _ hU hV hoU hoV⟩
  intro he
  subst he
  have h1 : U1 = 1 := (Nat.coprime_self _).1 c1
  rcases h.big with ⟨ho, hgt⟩ | ⟨ho, hgt⟩
  · have := odd_two_pow_mul a U1 (hU ▸ ho); subst this; simp at hU; omega
  · have := odd_two_pow_mul b U1 (hV ▸ ho); subst this; simp at hV; omega

/-- the subtraction `v -= u; s -= r` re-establishes the invariant and at least halves the measure -/
theorem invV_sub_v {X : Nat} {KK : ZMod Q} {U1 V1 R1 S1 V2 S2 M : Nat}
    (hR : R1 < Q) (hS2 : S2 < Q) (hoU : U1 % 2 = 1) (hoV : V1 % 2 = 1)
    (cop : Nat.Coprime U1 V1) (cS : (X : ZMod Q) * (S1 : ZMod Q) = (V1 : ZMod Q) * KK)
    (cR : (X : ZMod Q) * (R1 : ZMod Q) = (U1 : ZMod Q) * KK) (hne : U1 ≠ V1) (hM : 2 * (U1 * V1) ≤ M)
    (hV : V2 + U1 = V1) (hS : (S2 + R1) % Q = S1) (hU1 : U1 ≠ 1) :
    InvV X KK U1 V2 R1 S2 ∧ 2 * mu U1 V2 < M := by
  have hm := mu_sub U1 V1 V2 hoU hoV hV (by omega)
  refine ⟨⟨hR, hS2, by omega, by omega, coprime_sub_right _ _ _ hV cop, Or.inl ⟨hoU, by omega⟩,
    cong_sub _ _ _ _ _ _ _ _ hV hS cS cR, cR⟩, ?_⟩
  rw [hm.1]; omega

/-- the subtraction `u -= v; r -= s` -/
theorem invV_sub_u {X : Nat} {KK : ZMod Q} {U1 V1 R1 S1 U2 R2 M : Nat}
    (hS : S1 < Q) (hR2 : R2 < Q) (hoU : U1 % 2 = 1) (hoV : V1 % 2 = 1)
    (cop : Nat.Coprime U1 V1) (cS : (X : ZMod Q) * (S1 : ZMod Q) = (V1 : ZMod Q) * KK)
    (cR : (X : ZMod Q) * (R1 : ZMod Q) = (U1 : ZMod Q) * KK) (hne : U1 ≠ V1) (hM : 2 * (U1 * V1) ≤ M)
    (hU : U2 + V1 = U1) (hR : (R2 + S1) % Q = R1) (hV1 : V1 ≠ 1) :
    InvV X KK U2 V1 R2 S1 ∧ 2 * mu U2 V1 < M := by
  have hm := mu_sub V1 U1 U2 hoV hoU hU (by omega)
  refine ⟨⟨hR2, hS, by omega, by omega, (coprime_sub_right _ _ _ hU cop.symm).symm, Or.inr ⟨hoV, by omega⟩,
    cS, cong_sub _ _ _ _ _ _ _ _ hU hR cR cS⟩, ?_⟩
  rw [hm.2.1, Nat.mul_comm U1 V1] at *; omega


/-- a correct result: four words, canonical, `x·r ≡ KK` -/
def Good (X : Nat) (KK : ZMod Q) (r : Nat × Nat × Nat × Nat) : Prop :=
  r.1 < W ∧ r.2.1 < W ∧ r.2.2.1 < W ∧ r.2.2.2 < W ∧ val4 r.1 r.2.1 r.2.2.1 r.2.2.2 < Q ∧
    (X : ZMod Q) * ((val4 r.1 r.2.1 r.2.2.1 r.2.2.2 : Nat) : ZMod Q) = KK

/-- the loop invariant on model states -/
structure Inv (X : Nat) (KK : ZMod Q) (st : St) : Prop where
  limbs : Limbs st
  v : InvV X KK (Uv st) (Vv st) (Rv st) (Sv st)

set_option exponentiation.threshold 1024 in
theorem R_le : R ≤ 2 ^ 300 := by
  have h : R = 2 ^ 256 := by decide
  rw [h]; exact Nat.pow_le_pow_right (by decide) (by decide)

theorem Limbs.V_lt {st : St} (h : Limbs st) : Vv st < 2 ^ 300 :=
  Nat.lt_of_lt_of_le (val4_lt _ _ _ _ h.v0 h.v1 h.v2 h.v3) R_le
theorem Limbs.U_lt {st : St} (h : Limbs st) : Uv st < 2 ^ 300 :=
  Nat.lt_of_lt_of_le (val4_lt _ _ _ _ h.u0 h.u1 h.u2 h.u3) R_le

/-- one iteration of the main loop from a state satisfying the invariant: the inner loops have enough
fuel, and either the iteration returns a correct result or it re-establishes the invariant with a
measure that has at least halved -/
theorem outer_step (X : Nat) (KK : ZMod Q) (st : St) (h : Inv X KK st) :
    (∃ r, (∀ f, outer (f + 1) st = some r) ∧ Good X KK r) ∨
    (∃ st', (∀ f, outer (f + 1) st = outer f st') ∧ Inv X KK st' ∧
      2 * mu (Uv st') (Vv st') < mu (Uv st) (Vv st)) := by
  obtain ⟨st1, hV1, hl1, hS1, hU1e, hR1e, hoV, k, hk1, hk2⟩ :=
    loopV_spec 300 st h.limbs h.v.hS h.v.hV h.limbs.V_lt
  obtain ⟨st2, hU2, hl2, hR2, hV2e, hS2e, hoU, j, hj1, hj2⟩ :=
    loopU_spec 300 st1 hl1 (hR1e ▸ h.v.hR) (hU1e ▸ h.v.hU) hl1.U_lt
  rw [hU1e] at hj1; rw [hR1e] at hj2
  rw [← hV2e] at hk1 hoV; rw [← hS2e] at hk2 hS1
  obtain ⟨cop, cS, cR, hne, hM⟩ := invV_loops h.v hj1 hk1 hj2 hk2 hoU hoV
  by_cases hge : Uv st2 ≤ Vv st2
  · obtain ⟨b, bo, c, s0', s1', s2', s3', v0', v1', v2', v3', a0, a1, a2, a3, a4, a5, a6, a7, hvv, hs', hss, heq⟩ :=
      seg1_ge st2.carry st2.r0 st2.r1 st2.r2 st2.r3 st2.s0 st2.s1 st2.s2 st2.s3 st2.u0 st2.u1 st2.u2 st2.u3
        st2.v0 st2.v1 st2.v2 st2.v3 hl2.r0 hl2.r1 hl2.r2 hl2.r3 hl2.s0 hl2.s1 hl2.s2 hl2.s3
        hl2.u0 hl2.u1 hl2.u2 hl2.u3 hl2.v0 hl2.v1 hl2.v2 hl2.v3 hR2 hS1 hge
    rcases tail_cases b bo c st2.r0 st2.r1 st2.r2 st2.r3 s0' s1' s2' s3' st2.u0 st2.u1 st2.u2 st2.u3
        v0' v1' v2' v3' st2.z0 st2.z1 st2.z2 st2.z3 with ⟨hu1, t, ht⟩ | ⟨hu1, hv1, t, ht⟩ | ⟨hu1, hv1, ht⟩
    · refine Or.inl ⟨(st2.r0, st2.r1, st2.r2, st2.r3),
        fun f => outer_exit f st st1 st2 _ t hV1 hU2 ((heq _ _ _ _ _ _).trans ht),
        hl2.r0, hl2.r1, hl2.r2, hl2.r3, hR2, ?_⟩
      have : Uv st2 = 1 := hu1
      rw [this, Nat.cast_one, one_mul] at cR
      exact cR
    · obtain ⟨hi, _⟩ := invV_sub_v hR2 hs' hoU hoV cop cS cR hne hM hvv hss hu1
      refine Or.inl ⟨(s0', s1', s2', s3'),
        fun f => outer_exit f st st1 st2 _ t hV1 hU2 ((heq _ _ _ _ _ _).trans ht),
        a0, a1, a2, a3, hs', ?_⟩
      have hc := hi.cS
      rw [hv1, Nat.cast_one, one_mul] at hc
      exact hc
    · obtain ⟨hi, hm⟩ := invV_sub_v hR2 hs' hoU hoV cop cS cR hne hM hvv hss hu1
      exact Or.inr ⟨_, fun f => outer_cont f st st1 st2 _ _ _ _ _ _ _ _ _ _ _ _ _ _ _ _ _ _ _ _ _ _ _ hV1 hU2
          ((heq _ _ _ _ _ _).trans ht),
        ⟨⟨hl2.r0, hl2.r1, hl2.r2, hl2.r3, a0, a1, a2, a3, hl2.u0, hl2.u1, hl2.u2, hl2.u3, a4, a5, a6, a7⟩, hi⟩, hm⟩
  · have hlt : Vv st2 < Uv st2 := Nat.lt_of_not_le hge
    obtain ⟨b, bo, c, r0', r1', r2', r3', u0', u1', u2', u3', a0, a1, a2, a3, a4, a5, a6, a7, huu, hr', hrr, heq⟩ :=
      seg1_lt st2.carry st2.r0 st2.r1 st2.r2 st2.r3 st2.s0 st2.s1 st2.s2 st2.s3 st2.u0 st2.u1 st2.u2 st2.u3
        st2.v0 st2.v1 st2.v2 st2.v3 hl2.r0 hl2.r1 hl2.r2 hl2.r3 hl2.s0 hl2.s1 hl2.s2 hl2.s3
        hl2.u0 hl2.u1 hl2.u2 hl2.u3 hl2.v0 hl2.v1 hl2.v2 hl2.v3 hR2 hS1 hlt
    rcases tail_cases b bo c r0' r1' r2' r3' st2.s0 st2.s1 st2.s2 st2.s3 u0' u1' u2' u3'
        st2.v0 st2.v1 st2.v2 st2.v3 st2.z0 st2.z1 st2.z2 st2.z3 with ⟨hu1, t, ht⟩ | ⟨hu1, hv1, t, ht⟩ | ⟨hu1, hv1, ht⟩
    · -- `u - v = 1`
      have hv1 : Vv st2 ≠ 1 := by
        intro hv
        have h1 : val4 u0' u1' u2' u3' + Vv st2 = Uv st2 := huu
        rw [hu1, hv] at h1
        omega
      obtain ⟨hi, _⟩ := invV_sub_u hS1 hr' hoU hoV cop cS cR hne hM huu hrr hv1
      refine Or.inl ⟨(r0', r1', r2', r3'),
        fun f => outer_exit f st st1 st2 _ t hV1 hU2 ((heq _ _ _ _ _ _).trans ht),
        a0, a1, a2, a3, hr', ?_⟩
      have hc := hi.cR
      rw [hu1, Nat.cast_one, one_mul] at hc
      exact hc
    · refine Or.inl ⟨(st2.s0, st2.s1, st2.s2, st2.s3),
        fun f => outer_exit f st st1 st2 _ t hV1 hU2 ((heq _ _ _ _ _ _).trans ht),
        hl2.s0, hl2.s1, hl2.s2, hl2.s3, hS1, ?_⟩
      have : Vv st2 = 1 := hv1
      rw [this, Nat.cast_one, one_mul] at cS
      exact cS
    · obtain ⟨hi, hm⟩ := invV_sub_u hS1 hr' hoU hoV cop cS cR hne hM huu hrr hv1
      exact Or.inr ⟨_, fun f => outer_cont f st st1 st2 _ _ _ _ _ _ _ _ _ _ _ _ _ _ _ _ _ _ _ _ _ _ _ hV1 hU2
          ((heq _ _ _ _ _ _).trans ht),
        ⟨⟨a0, a1, a2, a3, hl2.s0, hl2.s1, hl2.s2, hl2.s3, a4, a5, a6, a7, hl2.v0, hl2.v1, hl2.v2, hl2.v3⟩, hi⟩, hm⟩


/-- the main loop: fuel `f` suffices as soon as the measure is below `2^f` -/
theorem outer_ok (X : Nat) (KK : ZMod Q) : ∀ (f : Nat) (st : St), Inv X KK st → mu (Uv st) (Vv st) < 2 ^ f →
    ∃ r, outer f st = some r ∧ Good X KK r := by
  intro f
  induction f with
  | zero =>
    intro st h hm
    have := mu_pos _ _ h.v.hU h.v.hV
    omega
  | succ f ih =>
    intro st h hm
    rcases outer_step X KK st h with ⟨r, hr, hg⟩ | ⟨st', he, hi, hlt⟩
    · exact ⟨r, hr f, hg⟩
    · obtain ⟨r, hr, hg⟩ := ih st' hi (by rw [pow_succ] at hm; omega)
      exact ⟨r, (he f).trans hr, hg⟩

theorem mu_le (U V : Nat) : mu U V ≤ U * V * 2 := by
  unfold mu; split
  · exact Nat.le_refl _
  · omega

theorem Q_lt : Q < 2 ^ 254 := by decide

set_option exponentiation.threshold 1024 in
theorem mu_init (X : Nat) (hX : X < Q) : mu Q X < 2 ^ 600 := by
  have h1 : Q * X < 2 ^ 254 * 2 ^ 254 := Nat.mul_lt_mul'' Q_lt (Nat.lt_trans hX Q_lt)
  have h2 : (2 : Nat) ^ 254 * 2 ^ 254 * 2 = 2 ^ 509 := by rw [← pow_add, ← pow_succ]
  have h3 : (2 : Nat) ^ 509 ≤ 2 ^ 600 := Nat.pow_le_pow_right (by decide) (by decide)
  have h4 := mu_le Q X
  generalize Q * X = P at *
  generalize (2 : Nat) ^ 254 * 2 ^ 254 = B at *
  generalize (2 : Nat) ^ 509 = C at *
  generalize (2 : Nat) ^ 600 = D at *
  omega

/-! ### the pre-loop segment -/

theorem pre_zero (z0 z1 z2 z3 x0 x1 x2 x3 : Nat) (h : (x0 ||| x1 ||| x2 ||| x3) = 0) :
    ∃ t, Inverse_pre z0 z1 z2 z3 x0 x1 x2 x3 = (some (0, 0, 0, 0), t) :=
  ⟨_, by limb_eval [Inverse_pre]⟩

theorem pre_nonzero (z0 z1 z2 z3 x0 x1 x2 x3 : Nat) (h : ¬ (x0 ||| x1 ||| x2 ||| x3) = 0) :
    Inverse_pre z0 z1 z2 z3 x0 x1 x2 x3 = (none, (false, 0, 0, 0, 0, 0, 0,
      1997599621687373223, 6052339484930628067, 10108755138030829701, 150537098327114917,
      4891460686036598785, 2896914383306846353, 13281191951274694749, 3486998266802970665,
      x0, x1, x2, x3, z0, z1, z2, z3)) := by
  limb_eval [Inverse_pre]

/-- the state entering the main loop -/
def st0 (z0 z1 z2 z3 x0 x1 x2 x3 : Nat) : St :=
  ⟨false, 0, 0, 0, 0, 0, 0,
    1997599621687373223, 6052339484930628067, 10108755138030829701, 150537098327114917,
    4891460686036598785, 2896914383306846353, 13281191951274694749, 3486998266802970665,
    x0, x1, x2, x3, z0, z1, z2, z3⟩

theorem inverse_zero_of (z0 z1 z2 z3 x0 x1 x2 x3 : Nat) (h : (x0 ||| x1 ||| x2 ||| x3) = 0) :
    inverse z0 z1 z2 z3 x0 x1 x2 x3 = some (0, 0, 0, 0) := by
  obtain ⟨t, ht⟩ := pre_zero z0 z1 z2 z3 x0 x1 x2 x3 h
  rw [inverse, ht]

theorem inverse_nonzero_of (z0 z1 z2 z3 x0 x1 x2 x3 : Nat) (h : ¬ (x0 ||| x1 ||| x2 ||| x3) = 0) :
    inverse z0 z1 z2 z3 x0 x1 x2 x3 = outer 600 (st0 z0 z1 z2 z3 x0 x1 x2 x3) := by
  rw [inverse, pre_nonzero z0 z1 z2 z3 x0 x1 x2 x3 h]; rfl

theorem or_ne_zero (x0 x1 x2 x3 : Nat) (h : val4 x0 x1 x2 x3 ≠ 0) : ¬ (x0 ||| x1 ||| x2 ||| x3) = 0 := by
  intro hz
  simp only [Nat.or_eq_zero_iff] at hz
  obtain ⟨⟨⟨rfl, rfl⟩, rfl⟩, rfl⟩ := hz
  exact h val4_zero

/-- the constant of the two congruences: `R² mod q` -/
noncomputable def KK : ZMod Q := ((R * R % Q : Nat) : ZMod Q)

theorem inv_init (z0 z1 z2 z3 x0 x1 x2 x3 : Nat)
    (hx0 : x0 < W) (hx1 : x1 < W) (hx2 : x2 < W) (hx3 : x3 < W)
    (hx : val4 x0 x1 x2 x3 < Q) (hne : val4 x0 x1 x2 x3 ≠ 0) :
    Inv (val4 x0 x1 x2 x3) KK (st0 z0 z1 z2 z3 x0 x1 x2 x3) := by
  have hU : Uv (st0 z0 z1 z2 z3 x0 x1 x2 x3) = Q := val4_Q
  have hV : Vv (st0 z0 z1 z2 z3 x0 x1 x2 x3) = val4 x0 x1 x2 x3 := rfl
  have hR : Rv (st0 z0 z1 z2 z3 x0 x1 x2 x3) = 0 := val4_zero
  have hS : Sv (st0 z0 z1 z2 z3 x0 x1 x2 x3) = R * R % Q := rSquare_val
  refine ⟨⟨(by decide : (0 : Nat) < W), (by decide : (0 : Nat) < W), (by decide : (0 : Nat) < W),
    (by decide : (0 : Nat) < W), (by decide : (1997599621687373223 : Nat) < W),
    (by decide : (6052339484930628067 : Nat) < W), (by decide : (10108755138030829701 : Nat) < W),
    (by decide : (150537098327114917 : Nat) < W), (by decide : (4891460686036598785 : Nat) < W),
    (by decide : (2896914383306846353 : Nat) < W), (by decide : (13281191951274694749 : Nat) < W),
    (by decide : (3486998266802970665 : Nat) < W), hx0, hx1, hx2, hx3⟩, ?_⟩
  rw [hU, hV, hR, hS]
  have hq : Nat.Prime Q := Fact.out
  refine ⟨by decide, Nat.mod_lt _ (by decide), by decide, Nat.pos_of_ne_zero hne, ?_, Or.inl (by decide), rfl, ?_⟩
  · exact (Nat.Prime.coprime_iff_not_dvd hq).2 (Nat.not_dvd_of_pos_of_lt (Nat.pos_of_ne_zero hne) hx)
  · rw [Nat.cast_zero, mul_zero, ZMod.natCast_self, zero_mul]

/-! ### the destination cells are irrelevant -/

/-- overwrite the destination cells -/
def setZ (a b c d : Nat) (st : St) : St := { st with z0 := a, z1 := b, z2 := c, z3 := d }

theorem loopV_setZ (a b c d : Nat) : ∀ (f : Nat) (st : St),
    loopV f (setZ a b c d st) = (loopV f st).map (setZ a b c d) := by
  intro f
  induction f with
  | zero => intro st; rfl
  | succ f ih =>
    intro st
    obtain ⟨bg, bo, ca, r0, r1, r2, r3, s0, s1, s2, s3, u0, u1, u2, u3, v0, v1, v2, v3, z0, z1, z2, z3⟩ := st
    by_cases hc : Inverse_loop1_cond ca s0 s1 s2 s3 v0 v1 v2 v3 = true
    · simp only [loopV, setZ, hc, if_true]
      exact ih ⟨bg, bo, _, r0, r1, r2, r3, _, _, _, _, u0, u1, u2, u3, _, _, _, _, z0, z1, z2, z3⟩
    · simp only [loopV, setZ, hc, if_false, Option.map, Bool.false_eq_true]

theorem loopU_setZ (a b c d : Nat) : ∀ (f : Nat) (st : St),
    loopU f (setZ a b c d st) = (loopU f st).map (setZ a b c d) := by
  intro f
  induction f with
  | zero => intro st; rfl
  | succ f ih =>
    intro st
    obtain ⟨bg, bo, ca, r0, r1, r2, r3, s0, s1, s2, s3, u0, u1, u2, u3, v0, v1, v2, v3, z0, z1, z2, z3⟩ := st
    by_cases hc : Inverse_loop2_cond ca r0 r1 r2 r3 u0 u1 u2 u3 = true
    · simp only [loopU, setZ, hc, if_true]
      exact ih ⟨bg, bo, _, _, _, _, _, s0, s1, s2, s3, _, _, _, _, v0, v1, v2, v3, z0, z1, z2, z3⟩
    · simp only [loopU, setZ, hc, if_false, Option.map, Bool.false_eq_true]

theorem outer_none1 (f : Nat) (st : St) (h1 : loopV 300 st = none) : outer (f + 1) st = none := by
  rw [outer, h1]

theorem outer_none2 (f : Nat) (st st1 : St) (h1 : loopV 300 st = some st1) (h2 : loopU 300 st1 = none) :
    outer (f + 1) st = none := by
  rw [outer, h1]; dsimp only; rw [h2]

theorem outer_setZ (a b c d : Nat) : ∀ (f : Nat) (st : St), outer f (setZ a b c d st) = outer f st := by
  intro f
  induction f with
  | zero => intro st; rfl
  | succ f ih =>
    intro st
    rcases h1 : loopV 300 st with _ | st1
    · have h1' : loopV 300 (setZ a b c d st) = none := by rw [loopV_setZ, h1]; rfl
      rw [outer_none1 f _ h1, outer_none1 f _ h1']
    · have h1' : loopV 300 (setZ a b c d st) = some (setZ a b c d st1) := by rw [loopV_setZ, h1]; rfl
      rcases h2 : loopU 300 st1 with _ | st2
      · have h2' : loopU 300 (setZ a b c d st1) = none := by rw [loopU_setZ, h2]; rfl
        rw [outer_none2 f _ _ h1 h2, outer_none2 f _ _ h1' h2']
      · have h2' : loopU 300 (setZ a b c d st1) = some (setZ a b c d st2) := by rw [loopU_setZ, h2]; rfl
        obtain ⟨b', bo', c', r0', r1', r2', r3', s0', s1', s2', s3', u0', u1', u2', u3', v0', v1', v2', v3', heq⟩ :=
          seg1_tail st2.carry st2.r0 st2.r1 st2.r2 st2.r3 st2.s0 st2.s1 st2.s2 st2.s3
            st2.u0 st2.u1 st2.u2 st2.u3 st2.v0 st2.v1 st2.v2 st2.v3
        have h3 := heq st2.bigger st2.borrow st2.z0 st2.z1 st2.z2 st2.z3
        have h3' : Inverse_seg1 (setZ a b c d st2).bigger (setZ a b c d st2).borrow (setZ a b c d st2).carry
            (setZ a b c d st2).r0 (setZ a b c d st2).r1 (setZ a b c d st2).r2 (setZ a b c d st2).r3
            (setZ a b c d st2).s0 (setZ a b c d st2).s1 (setZ a b c d st2).s2 (setZ a b c d st2).s3
            (setZ a b c d st2).u0 (setZ a b c d st2).u1 (setZ a b c d st2).u2 (setZ a b c d st2).u3
            (setZ a b c d st2).v0 (setZ a b c d st2).v1 (setZ a b c d st2).v2 (setZ a b c d st2).v3
            (setZ a b c d st2).z0 (setZ a b c d st2).z1 (setZ a b c d st2).z2 (setZ a b c d st2).z3 = _ :=
          heq st2.bigger st2.borrow a b c d
        by_cases e1 : ((decide (u0' = 1)) && decide (((u3' ||| u2') ||| u1') = 0)) = true
        · rw [tail, if_pos e1] at h3 h3'
          rw [outer_exit f _ _ _ _ _ h1 h2 h3, outer_exit f _ _ _ _ _ h1' h2' h3']
        · by_cases e2 : ((decide (v0' = 1)) && decide (((v3' ||| v2') ||| v1') = 0)) = true
          · rw [tail, if_neg e1, if_pos e2] at h3 h3'
            rw [outer_exit f _ _ _ _ _ h1 h2 h3, outer_exit f _ _ _ _ _ h1' h2' h3']
          · rw [tail, if_neg e1, if_neg e2] at h3 h3'
            rw [outer_cont f _ _ _ _ _ _ _ _ _ _ _ _ _ _ _ _ _ _ _ _ _ _ _ _ _ _ h1 h2 h3,
              outer_cont f _ _ _ _ _ _ _ _ _ _ _ _ _ _ _ _ _ _ _ _ _ _ _ _ _ _ h1' h2' h3']
            exact ih ⟨b', bo', c', r0', r1', r2', r3', s0', s1', s2', s3', u0', u1', u2', u3', v0', v1', v2', v3',
              st2.z0, st2.z1, st2.z2, st2.z3⟩

/-- `z.Inverse(x)` does not depend on the previous contents of `z` -/
theorem inverse_z_irrel (z0 z1 z2 z3 w0 w1 w2 w3 x0 x1 x2 x3 : Nat) :
    inverse w0 w1 w2 w3 x0 x1 x2 x3 = inverse z0 z1 z2 z3 x0 x1 x2 x3 := by
  by_cases h : (x0 ||| x1 ||| x2 ||| x3) = 0
  · rw [inverse_zero_of _ _ _ _ _ _ _ _ h, inverse_zero_of _ _ _ _ _ _ _ _ h]
  · rw [inverse_nonzero_of _ _ _ _ _ _ _ _ h, inverse_nonzero_of _ _ _ _ _ _ _ _ h]
    exact outer_setZ w0 w1 w2 w3 600 (st0 z0 z1 z2 z3 x0 x1 x2 x3)



/-! ### the whole function -/

/-- `Inverse` on a canonical non-zero operand: the fuel suffices and the result is the canonical `r`
with `r·x ≡ R² (mod q)` -/
theorem inverse_correct (z0 z1 z2 z3 x0 x1 x2 x3 : Nat)
    (hx0 : x0 < W) (hx1 : x1 < W) (hx2 : x2 < W) (hx3 : x3 < W)
    (hx : val4 x0 x1 x2 x3 < Q) (hne : val4 x0 x1 x2 x3 ≠ 0) :
    ∃ r0 r1 r2 r3, inverse z0 z1 z2 z3 x0 x1 x2 x3 = some (r0, r1, r2, r3) ∧
      r0 < W ∧ r1 < W ∧ r2 < W ∧ r3 < W ∧ val4 r0 r1 r2 r3 < Q ∧
      (val4 r0 r1 r2 r3 * val4 x0 x1 x2 x3) % Q = (R * R) % Q := by
  have hm : mu (Uv (st0 z0 z1 z2 z3 x0 x1 x2 x3)) (Vv (st0 z0 z1 z2 z3 x0 x1 x2 x3)) < 2 ^ 600 := by
    show mu (val4 4891460686036598785 2896914383306846353 13281191951274694749 3486998266802970665)
      (val4 x0 x1 x2 x3) < 2 ^ 600
    rw [val4_Q]; exact mu_init _ hx
  obtain ⟨⟨r0, r1, r2, r3⟩, hr, g0, g1, g2, g3, hlt, hc⟩ :=
    outer_ok (val4 x0 x1 x2 x3) KK 600 _ (inv_init z0 z1 z2 z3 x0 x1 x2 x3 hx0 hx1 hx2 hx3 hx hne) hm
  refine ⟨r0, r1, r2, r3, (inverse_nonzero_of _ _ _ _ _ _ _ _ (or_ne_zero _ _ _ _ hne)).trans hr,
    g0, g1, g2, g3, hlt, ?_⟩
  have h1 : ((val4 r0 r1 r2 r3 * val4 x0 x1 x2 x3 : Nat) : ZMod Q) = ((R * R % Q : Nat) : ZMod Q) := by
    rw [Nat.cast_mul, mul_comm]; exact hc
  have h2 := (ZMod.natCast_eq_natCast_iff' _ _ _).1 h1
  rwa [Nat.mod_mod] at h2

theorem cast_ne_zero (X : Nat) (hX : X < Q) (hne : X ≠ 0) : (X : ZMod Q) ≠ 0 := by
  intro h
  have := (ZMod.natCast_eq_zero_iff X Q).1 h
  exact Nat.not_dvd_of_pos_of_lt (Nat.pos_of_ne_zero hne) hX this

/-- field reading of `r·x ≡ R²`: as residues `r = R²·x⁻¹`; as represented elements `toF r = (toF x)⁻¹` -/
theorem inverse_field_of (r X : Nat) (hX : X < Q) (hne : X ≠ 0) (h : (r * X) % Q = (R * R) % Q) :
    (r : ZMod Q) = (R : ZMod Q) ^ 2 * (X : ZMod Q)⁻¹ ∧ toF r = (toF X)⁻¹ := by
  have h1 : ((r * X : Nat) : ZMod Q) = ((R * R : Nat) : ZMod Q) := (ZMod.natCast_eq_natCast_iff' _ _ _).2 h
  push_cast at h1
  have hX0 := cast_ne_zero X hX hne
  have hR := R_ne_zero
  constructor
  · field_simp
    linear_combination h1
  · unfold toF
    field_simp
    linear_combination h1

end I3.InvLoop
