/-
  I3.Lemmas.GrainRun — compositionality of the Grain word generator `I3.Grain.gen`.

  Evaluating the whole bit-serial generator inside ONE kernel `decide` costs ≈ 40 MB and ≈ 0.5 s per
  254-bit word (13.8 GB for width 5), because the kernel's reduction caches live as long as the
  declaration being checked.  The lemmas below let the per-width modules I3.Spec.GrainW<t>* evaluate
  the generator in short chunks (one small theorem each, starting from a pinned LFSR state) and glue
  the chunks together:
    * `gen_append`    — the output list is a pure accumulator;
    * `gen_fuel_mono` — a run that produced all requested words is independent of extra fuel;
    * `gen_split`     — a completed run for `n1` words followed by a run for `n2` words is the run
                        for `n1 + n2` words;
    * `Run`, `Run.trans`, `Run.fuel`, `params_eq` — the packaged form used by the generated modules.
  Core Lean only; nothing from /repo.
-/
import I3.Exec.Grain
namespace I3.Grain

/-- one iteration of `gen` (a pair of LFSR clocks), `need ≠ 0`: `none` if the register became zero
    (unreachable), else the new `(s, acc, nb)` and the finished-and-kept word, if any. -/
def step (m nbits : Nat) (reject : Bool) (s acc nb : Nat) : Option (Nat × Nat × Nat × Option Nat) :=
  match clk s with
  | 0 => none
  | s1p+1 =>
    match clk (s1p+1) with
    | 0 => none
    | s2p+1 =>
      match tap s with
      | 0 => some (s2p+1, acc, nb, none)
      | _+1 =>
        if nb + 1 = nbits then
          if reject then
            if acc*2 + tap (s1p+1) < m then some (s2p+1, 0, 0, some (acc*2 + tap (s1p+1)))
            else some (s2p+1, 0, 0, none)
          else some (s2p+1, 0, 0, some ((acc*2 + tap (s1p+1)) % m))
        else some (s2p+1, acc*2 + tap (s1p+1), nb+1, none)

theorem gen_zero_fuel (m nbits reject s acc nb need out) :
    gen m nbits reject 0 s acc nb need out = (s, out) := by
  simp [gen]

theorem gen_zero_need (m nbits reject f s acc nb out) :
    gen m nbits reject f s acc nb 0 out = (s, out) := by
  cases f <;> simp [gen]

theorem gen_succ (m nbits reject f s acc nb need' out) :
    gen m nbits reject (f+1) s acc nb (need'+1) out =
      match step m nbits reject s acc nb with
      | none => (0, out)
      | some (s2, acc2, nb2, none) => gen m nbits reject f s2 acc2 nb2 (need'+1) out
      | some (s2, _, _, some w) => gen m nbits reject f s2 0 0 need' (w :: out) := by
  rcases h1 : clk s with _ | s1p
  · simp [gen, step, h1]
  rcases h2 : clk (s1p+1) with _ | s2p
  · simp [gen, step, h1, h2]
  rcases h3 : tap s with _ | b1
  · simp [gen, step, h1, h2, h3]
  by_cases h4 : nb + 1 = nbits
  · cases reject
    · simp [gen, step, h1, h2, h3, h4]
    · by_cases h5 : acc*2 + tap (s1p+1) < m
      · simp [gen, step, h1, h2, h3, h4, h5]
      · simp [gen, step, h1, h2, h3, h4, h5]
  · simp [gen, step, h1, h2, h3, h4]


/-- `out` is a pure accumulator. -/
theorem gen_append (m nbits reject) : ∀ f s acc nb need out,
    gen m nbits reject f s acc nb need out =
      ((gen m nbits reject f s acc nb need []).1, (gen m nbits reject f s acc nb need []).2 ++ out)
  | 0, s, acc, nb, need, out => by simp [gen_zero_fuel]
  | f+1, s, acc, nb, 0, out => by simp [gen_zero_need]
  | f+1, s, acc, nb, need'+1, out => by
    rw [gen_succ, gen_succ (out := [])]
    rcases hs : step m nbits reject s acc nb with _ | ⟨s2, acc2, nb2, _ | w⟩
    · simp
    · simp only; exact gen_append m nbits reject f s2 acc2 nb2 (need'+1) out
    · simp only
      rw [gen_append m nbits reject f s2 0 0 need' (w :: out),
        gen_append m nbits reject f s2 0 0 need' [w]]
      simp

/-- Once a run has produced all the requested words, more fuel does not change it. -/
theorem gen_fuel_mono (m nbits reject) : ∀ f s acc nb need out s' out',
    gen m nbits reject f s acc nb need out = (s', out') → out'.length = out.length + need →
    ∀ f', f ≤ f' → gen m nbits reject f' s acc nb need out = (s', out')
  | 0, s, acc, nb, need, out, s', out', h, hl, f', _ => by
    rw [gen_zero_fuel] at h
    obtain ⟨rfl, rfl⟩ := Prod.mk.inj h
    have : need = 0 := by omega
    subst this
    rw [gen_zero_need]
  | f+1, s, acc, nb, 0, out, s', out', h, hl, f', _ => by
    rw [gen_zero_need] at h ⊢; exact h
  | f+1, s, acc, nb, need'+1, out, s', out', h, hl, f', hf => by
    obtain ⟨f'', rfl⟩ : ∃ f'', f' = f'' + 1 := ⟨f' - 1, by omega⟩
    rw [gen_succ] at h ⊢
    rcases hs : step m nbits reject s acc nb with _ | ⟨s2, acc2, nb2, _ | w⟩
    · rw [hs] at h; simp only at h
      obtain ⟨rfl, rfl⟩ := Prod.mk.inj h
      omega
    · rw [hs] at h; simp only at h ⊢
      exact gen_fuel_mono m nbits reject f s2 acc2 nb2 (need'+1) out s' out' h hl f'' (by omega)
    · rw [hs] at h; simp only at h ⊢
      exact gen_fuel_mono m nbits reject f s2 0 0 need' (w :: out) s' out' h
        (by simp only [List.length_cons]; omega) f'' (by omega)

/-- A completed run for `n1` words followed by a run for `n2` more words. -/
theorem gen_split (m nbits reject) : ∀ f s acc nb n1 out s1 out1,
    gen m nbits reject f s acc nb n1 out = (s1, out1) → out1.length = out.length + n1 →
    (n1 = 0 → acc = 0 ∧ nb = 0) →
    ∀ g n2, ∃ g', g ≤ g' ∧
      gen m nbits reject (f + g) s acc nb (n1 + n2) out = gen m nbits reject g' s1 0 0 n2 out1
  | 0, s, acc, nb, n1, out, s1, out1, h, hl, h0, g, n2 => by
    rw [gen_zero_fuel] at h
    obtain ⟨rfl, rfl⟩ := Prod.mk.inj h
    have : n1 = 0 := by omega
    subst this
    obtain ⟨rfl, rfl⟩ := h0 rfl
    exact ⟨g, Nat.le_refl _, by simp⟩
  | f+1, s, acc, nb, 0, out, s1, out1, h, hl, h0, g, n2 => by
    rw [gen_zero_need] at h
    obtain ⟨rfl, rfl⟩ := Prod.mk.inj h
    obtain ⟨rfl, rfl⟩ := h0 rfl
    exact ⟨f + 1 + g, by omega, by simp⟩
  | f+1, s, acc, nb, n1'+1, out, s1, out1, h, hl, h0, g, n2 => by
    have e1 : f + 1 + g = (f + g) + 1 := by omega
    have e2 : n1' + 1 + n2 = (n1' + n2) + 1 := by omega
    rw [e1, e2, gen_succ]
    rw [gen_succ] at h
    rcases hs : step m nbits reject s acc nb with _ | ⟨s2, acc2, nb2, _ | w⟩
    · rw [hs] at h; simp only at h
      obtain ⟨rfl, rfl⟩ := Prod.mk.inj h
      omega
    · rw [hs] at h; simp only at h ⊢
      have := gen_split m nbits reject f s2 acc2 nb2 (n1'+1) out s1 out1 h hl (by omega) g n2
      rw [e2] at this
      exact this
    · rw [hs] at h; simp only at h ⊢
      exact gen_split m nbits reject f s2 0 0 n1' (w :: out) s1 out1 h
        (by simp only [List.length_cons]; omega) (fun _ => ⟨rfl, rfl⟩) g n2

/-- `Run f s n s' ws`: from LFSR state `s` (at a word boundary), with fuel `f`, `gen` produces
    exactly `n` words `ws` (reversed) and ends in state `s'`. -/
def Run (m nbits : Nat) (reject : Bool) (f s n s' : Nat) (ws : List Nat) : Prop :=
  gen m nbits reject f s 0 0 n [] = (s', ws) ∧ ws.length = n

theorem Run.nil (m nbits reject s) : Run m nbits reject 0 s 0 s [] := ⟨by simp [gen_zero_fuel], rfl⟩

theorem Run.trans {m nbits reject f1 f2 s n1 n2 s1 s2 w1 w2}
    (h1 : Run m nbits reject f1 s n1 s1 w1) (h2 : Run m nbits reject f2 s1 n2 s2 w2) :
    Run m nbits reject (f1 + f2) s (n1 + n2) s2 (w2 ++ w1) := by
  obtain ⟨g', hg, e⟩ := gen_split m nbits reject f1 s 0 0 n1 [] s1 w1 h1.1 (by simpa using h1.2)
    (fun _ => ⟨rfl, rfl⟩) f2 n2
  refine ⟨?_, by simp [h1.2, h2.2, Nat.add_comm]⟩
  rw [e, gen_append]
  have := gen_fuel_mono m nbits reject f2 s1 0 0 n2 [] s2 w2 h2.1 (by simpa using h2.2) g' hg
  rw [this]

theorem Run.fuel {m nbits reject f s n s' ws} (h : Run m nbits reject f s n s' ws) (F : Nat)
    (hF : f ≤ F) : gen m nbits reject F s 0 0 n [] = (s', ws) :=
  gen_fuel_mono m nbits reject f s 0 0 n [] s' ws h.1 (by simpa using h.2) F hF

theorem params_eq (m nbits t rf rp s0 s1 s2 : Nat) (rcRev xyRev : List Nat)
    (h0 : warm 160 (initState nbits t rf rp) = s0)
    (h1 : gen m nbits true (fuelFor ((rf + rp) * t) nbits) s0 0 0 ((rf + rp) * t) [] = (s1, rcRev))
    (h2 : gen m nbits false (fuelFor (2 * t) nbits) s1 0 0 (2 * t) [] = (s2, xyRev)) :
    params m nbits t rf rp =
      { t := t, rf := rf, rp := rp, rc := rcRev.reverse,
        xs := xyRev.reverse.take t, ys := xyRev.reverse.drop t } := by
  simp only [params, h0, h1, h2]

end I3.Grain
