/-
  I3.Lemmas.GoBridgeMimc7 — bridge between the definitions GENERATED from /repo/mimc7/mimc7.go and
  /repo/utils/utils.go by the source translator T6 (`I3.Gen.Go.mimc7_*`, `I3.Gen.Go.utils_*`) and the
  hand-written model `I3.Model.Mimc7`, for EVERY input.  With these equations the property theorems
  of C08 / C07 (proved about the model) are restated about the generated code in `I3.Props.C08Gen`
  and `I3.Props.C07GenMimc7`.

  Generic facts about the loop combinators (`forRange`, `forRangeRet`), the equations for the `utils`
  functions and all auxiliary lemmas live in the namespace `I3.GoBridge.Mimc7` (so that they cannot
  clash with the bridge files of the other packages); the equations for the `mimc7` package are
  `I3.GoBridge.mimc7_*`.  Where the Go code panics (`nRounds ≤ 0`) the total translation and the
  model differ; what holds there is stated explicitly (`mimc7_getConstants_nonpos`,
  `mimc7_MIMC7HashGeneric_nonpos`, `mimc7_HashGeneric_nonpos`).  Core Lean only.
-/
import I3.Gen.GoMimc7
import I3.Lemmas.Mimc7
import I3.Lemmas.Conv
import I3.Props.C08
namespace I3.GoBridge.Mimc7
open I3 I3.Go

/-! ## 1. `forRange` / `forRangeRet` as structural recursion -/

section loops
variable {σ ρ α : Type}

/-- The Go loop `for i := lo; …; i++ { s = f i s }` run for `n` iterations, by structural
    recursion on `n`. -/
def loop (f : Int → σ → σ) : Nat → Int → σ → σ
  | 0, _, s => s
  | n + 1, i, s => loop f n (i + 1) (f i s)

/-- the same loop when the body may `return`. -/
def loopRet (f : Int → σ → Option ρ × σ) : Nat → Int → σ → Option ρ × σ
  | 0, _, s => (none, s)
  | n + 1, i, s =>
    match f i s with
    | (some r, s') => (some r, s')
    | (none, s') => loopRet f n (i + 1) s'

theorem foldl_range_loop (f : Int → σ → σ) (n : Nat) (lo : Int) (s : σ) :
    (List.range n).foldl (fun s (k : Nat) => f (lo + (k : Int)) s) s = loop f n lo s := by
  induction n generalizing lo s with
  | zero => rfl
  | succ n ih =>
    rw [List.range_succ_eq_map, List.foldl_cons, List.foldl_map, loop, ← ih]
    simp only [Int.natCast_zero, Int.add_zero, Int.natCast_succ, Int.add_assoc, Int.add_comm 1]

/-- GENERAL LEMMA: `forRange lo hi f s` (a fold over `List.range (hi - lo)`) is the structural
    recursion `loop` started at `lo` and run `hi - lo` times (`0` times when `hi ≤ lo`). -/
theorem forRange_eq_loop (lo hi : Int) (f : Int → σ → σ) (s : σ) :
    forRange lo hi f s = loop f (hi - lo).toNat lo s := foldl_range_loop f _ lo s

theorem loop_last (f : Int → σ → σ) (n : Nat) (lo : Int) (s : σ) :
    loop f (n + 1) lo s = f (lo + (n : Int)) (loop f n lo s) := by
  induction n generalizing lo s with
  | zero => simp only [loop, Int.natCast_zero, Int.add_zero]
  | succ n ih =>
    rw [loop, ih, loop]
    simp only [Int.natCast_succ, Int.add_assoc, Int.add_comm 1]

theorem loop_congr (f g : Int → σ → σ) (n : Nat) (lo : Int) (s : σ)
    (h : ∀ i, lo ≤ i → i < lo + (n : Int) → ∀ s, f i s = g i s) : loop f n lo s = loop g n lo s := by
  induction n generalizing lo s with
  | zero => rfl
  | succ n ih =>
    rw [loop, loop, h lo (Int.le_refl _) (by omega)]
    exact ih _ _ (fun i h1 h2 s => h i (by omega) (by omega) s)

/-- no iteration when `hi ≤ lo`. -/
theorem forRange_of_le {lo hi : Int} (h : hi ≤ lo) (f : Int → σ → σ) (s : σ) :
    forRange lo hi f s = s := by
  have : (hi - lo).toNat = 0 := by omega
  rw [forRange_eq_loop, this, loop]

/-- peel the first iteration. -/
theorem forRange_first {lo hi : Int} (h : lo < hi) (f : Int → σ → σ) (s : σ) :
    forRange lo hi f s = forRange (lo + 1) hi f (f lo s) := by
  have : (hi - lo).toNat = (hi - (lo + 1)).toNat + 1 := by omega
  rw [forRange_eq_loop, forRange_eq_loop, this, loop]

/-- peel the last iteration. -/
theorem forRange_last {lo hi : Int} (h : lo ≤ hi) (f : Int → σ → σ) (s : σ) :
    forRange lo (hi + 1) f s = f hi (forRange lo hi f s) := by
  have h1 : (hi + 1 - lo).toNat = (hi - lo).toNat + 1 := by omega
  have h2 : lo + (((hi - lo).toNat : Nat) : Int) = hi := by omega
  rw [forRange_eq_loop, forRange_eq_loop, h1, loop_last, h2]

/-- only the values of the body on `lo ≤ i < hi` matter. -/
theorem forRange_congr {lo hi : Int} (f g : Int → σ → σ) (s : σ)
    (h : ∀ i, lo ≤ i → i < hi → ∀ s, f i s = g i s) : forRange lo hi f s = forRange lo hi g s := by
  rw [forRange_eq_loop, forRange_eq_loop]
  exact loop_congr f g _ lo s (fun i h1 h2 s => h i h1 (by omega) s)

theorem loop_list (l : List α) (lo : Int) (f : Int → σ → σ) (g : σ → α → σ)
    (h : ∀ (k : Nat) (hk : k < l.length) (s : σ), f (lo + (k : Int)) s = g s l[k]) (s : σ) :
    loop f l.length lo s = l.foldl g s := by
  induction l generalizing lo s with
  | nil => rfl
  | cons a t ih =>
    rw [List.length_cons, loop, List.foldl_cons]
    have h0 := h 0 (by simp) s
    simp only [Int.natCast_zero, Int.add_zero, List.getElem_cons_zero] at h0
    rw [h0]
    apply ih
    intro k hk s
    have := h (k + 1) (by simp; omega) s
    simp only [List.getElem_cons_succ, Int.natCast_succ] at this
    rw [← this]
    congr 1
    omega

/-- A loop whose `k`-th iteration consumes the `k`-th element of a list is the `foldl` over that
    list (the index may be shifted by `lo`). -/
theorem forRange_list (l : List α) (lo hi : Int) (hhi : hi = lo + (l.length : Int))
    (f : Int → σ → σ) (g : σ → α → σ)
    (h : ∀ (k : Nat) (hk : k < l.length) (s : σ), f (lo + (k : Int)) s = g s l[k]) (s : σ) :
    forRange lo hi f s = l.foldl g s := by
  have : (hi - lo).toNat = l.length := by omega
  rw [forRange_eq_loop, this]
  exact loop_list l lo f g h s

/-- the standard Go idiom `for i := 0; i < len(l); i++ { s = g(s, l[i]) }`. -/
theorem forRange_idx [Inhabited α] (l : List α) (g : σ → α → σ) (s : σ) :
    forRange 0 (len l) (fun i s => g s (idx l i)) s = l.foldl g s := by
  apply forRange_list l 0 (len l) (by simp [len]) _ g
  intro k hk s
  simp only [idx, Int.zero_add, Int.toNat_natCast, List.getD_eq_getElem?_getD,
    List.getElem?_eq_getElem hk, Option.getD_some]

/-- a loop that appends one value per iteration. -/
theorem forRange_append (n : Nat) (g : Int → α) (acc : List α) :
    forRange 0 (n : Int) (fun i acc => acc ++ [g i]) acc =
      acc ++ (List.range n).map (fun (k : Nat) => g (k : Int)) := by
  induction n with
  | zero => rw [forRange_of_le (by simp)]; simp
  | succ n ih =>
    rw [Int.natCast_succ, forRange_last (by omega), ih, List.range_succ, List.map_append,
      List.append_assoc]
    rfl

theorem foldl_range_loopRet (f : Int → σ → Option ρ × σ) (n : Nat) (lo : Int) (s : σ) :
    (List.range n).foldl
      (fun (acc : Option ρ × σ) (k : Nat) => match acc.1 with
        | some _ => acc
        | none => f (lo + (k : Int)) acc.2) (none, s) = loopRet f n lo s := by
  have stuck : ∀ (m : Nat) (lo : Int) (r : ρ) (s : σ), (List.range m).foldl
      (fun (acc : Option ρ × σ) (k : Nat) => match acc.1 with
        | some _ => acc
        | none => f (lo + (k : Int)) acc.2) (some r, s) = (some r, s) := by
    intro m lo r s
    induction m with
    | zero => rfl
    | succ m ih => rw [List.range_succ, List.foldl_append, ih]; rfl
  induction n generalizing lo s with
  | zero => rfl
  | succ n ih =>
    rw [List.range_succ_eq_map, List.foldl_cons, List.foldl_map, loopRet]
    simp only [Int.natCast_zero, Int.add_zero, Int.natCast_succ]
    have e : ∀ k : Nat, lo + ((k : Int) + 1) = lo + 1 + (k : Int) := by intro k; omega
    simp only [e]
    rcases hf : f lo s with ⟨_ | r, s'⟩
    · exact ih (lo + 1) s'
    · exact stuck n (lo + 1) r s'

/-- GENERAL LEMMA, returning variant. -/
theorem forRangeRet_eq_loopRet (lo hi : Int) (f : Int → σ → Option ρ × σ) (s : σ) :
    forRangeRet lo hi f s = loopRet f (hi - lo).toNat lo s := foldl_range_loopRet f _ lo s

/-- a body that never returns: the plain loop. -/
theorem forRangeRet_none (lo hi : Int) (f : Int → σ → Option ρ × σ) (g : Int → σ → σ)
    (h : ∀ i s, f i s = (none, g i s)) (s : σ) :
    forRangeRet lo hi f s = (none, forRange lo hi g s) := by
  rw [forRangeRet_eq_loopRet, forRange_eq_loop]
  generalize (hi - lo).toNat = n
  induction n generalizing lo s with
  | zero => rfl
  | succ n ih => rw [loopRet, loop, h]; exact ih _ _

/-- a state-less search loop over a list: `for _, a := range l { if !p(a) { return false } }`. -/
theorem forRangeRet_all [Inhabited α] (l : List α) (p : α → Bool) (f : Int → Unit → Option Bool × Unit)
    (h : ∀ i, f i () = if !(p (idx l i)) then (some false, ()) else (none, ())) :
    forRangeRet 0 (len l) f () = (if l.all p then none else some false, ()) := by
  have key : ∀ (t : List α) (lo : Int), (∀ (k : Nat) (hk : k < t.length), idx l (lo + (k : Int)) = t[k]) →
      loopRet f t.length lo () = (if t.all p then none else some false, ()) := by
    intro t
    induction t with
    | nil => intro lo _; rfl
    | cons a t ih =>
      intro lo ht
      have h0 := ht 0 (by simp)
      simp only [Int.natCast_zero, Int.add_zero, List.getElem_cons_zero] at h0
      rw [List.length_cons, loopRet, h, h0, List.all_cons]
      cases hp : p a
      · rfl
      · simp only [Bool.not_true, Bool.false_eq_true, if_false, Bool.true_and]
        apply ih
        intro k hk
        have := ht (k + 1) (by simp; omega)
        simp only [List.getElem_cons_succ, Int.natCast_succ] at this
        rw [← this]
        congr 1
        omega
  have hl : (len l - 0).toNat = l.length := by simp [len]
  rw [forRangeRet_eq_loopRet, hl]
  apply key
  intro k hk
  simp only [idx, Int.zero_add, Int.toNat_natCast, List.getD_eq_getElem?_getD,
    List.getElem?_eq_getElem hk, Option.getD_some]

end loops

/-! ## 2. the `utils` package -/

open I3.Gen.Go

theorem ff_modulus_eq : Gen.ff_modulus = q := by decide

theorem constants_Q_eq : Go.Ext.constants_Q = (q : Int) := by
  unfold Go.Ext.constants_Q
  rw [Props.C07.constants_q_eq]

theorem constants_Zero_eq : Go.Ext.constants_Zero = 0 := rfl

theorem cmp_eq_neg_one (a b : Int) : (big.cmp a b == (-1 : Int)) = decide (a < b) := by
  unfold big.cmp
  by_cases h : a < b
  · simp [h]
  · by_cases h2 : a = b <;> simp [h, h2]

/-- `utils.CheckBigIntInField a` is `0 ≤ a < q`, for every integer. -/
theorem utils_CheckBigIntInField_eq (a : Int) :
    utils_CheckBigIntInField a = Model.Mimc7.inField a := by
  unfold utils_CheckBigIntInField Model.Mimc7.inField
  rw [bne, cmp_eq_neg_one, cmp_eq_neg_one, constants_Q_eq, constants_Zero_eq, Bool.and_comm]
  congr 1
  by_cases h : a < 0 <;> simp [h] <;> omega

theorem utils_CheckBigIntArrayInField_eq (arr : List Int) :
    utils_CheckBigIntArrayInField arr = arr.all Model.Mimc7.inField := by
  unfold utils_CheckBigIntArrayInField
  rw [forRangeRet_all arr utils_CheckBigIntInField _ (fun i => rfl)]
  rw [funext utils_CheckBigIntInField_eq]
  cases arr.all Model.Mimc7.inField <;> rfl

/-- the loop of `utils.SwapEndianness` after `j` iterations. -/
theorem swap_loop (xs : List UInt8) (j : Nat) (hj : j ≤ xs.length) :
    forRange 0 (j : Int) (fun i ys => set ys (((len xs) - (1 : Int)) - i) (idx xs i))
        (List.replicate xs.length (0 : UInt8)) =
      List.replicate (xs.length - j) (0 : UInt8) ++ (xs.take j).reverse := by
  induction j with
  | zero => rw [forRange_of_le (by simp)]; simp
  | succ j ih =>
    rw [Int.natCast_succ, forRange_last (by omega), ih (by omega)]
    have e : xs.length - j = (xs.length - (j + 1)) + 1 := by omega
    have e2 : (len xs - 1 - (j : Int)).toNat = xs.length - (j + 1) := by simp only [len]; omega
    have e3 : idx xs (j : Int) = xs[j] := by
      simp only [idx, Int.toNat_natCast, List.getD_eq_getElem?_getD,
        List.getElem?_eq_getElem (show j < xs.length by omega), Option.getD_some]
    simp only [Go.set, e2, e3]
    rw [e, List.replicate_succ', List.append_assoc,
      List.set_append_right _ _ (by rw [List.length_replicate]; omega), List.length_replicate,
      Nat.sub_self]
    have e4 : List.take (j + 1) xs = List.take j xs ++ [xs[j]] := by
      rw [List.take_add_one, List.getElem?_eq_getElem (show j < xs.length by omega)]; rfl
    rw [e4, List.reverse_append]
    rfl

/-- `utils.SwapEndianness` reverses its argument (any length). -/
theorem utils_SwapEndianness_eq (xs : List UInt8) : utils_SwapEndianness xs = xs.reverse := by
  unfold utils_SwapEndianness
  have h := swap_loop xs xs.length (Nat.le_refl _)
  simp only [Nat.sub_self, List.replicate_zero, List.nil_append, List.take_length] at h
  have hd : (default : UInt8) = 0 := rfl
  simpa [make, len, hd] using h

/-- `utils.SetBigIntFromLEBytes(v, buf)` sets (and returns) the little-endian value of `buf`. -/
theorem utils_SetBigIntFromLEBytes_eq (v : Int) (buf : List UInt8) :
    utils_SetBigIntFromLEBytes v buf = (((leToNat buf : Nat) : Int), ((leToNat buf : Nat) : Int)) := by
  unfold utils_SetBigIntFromLEBytes
  simp only [utils_SwapEndianness_eq, big.setBytes, Lemmas.Conv.beToNat_reverse]

/-! ## 3. `mimc7.getConstants` -/

open I3.Spec.Mimc7 (digest cst)

/-- `keccak256.Hash([]byte(seed))` as an integer is the first link of the chain. -/
theorem gc_init (seed : Bytes) :
    big.setBytes (Go.Ext.keccak256 [seed]) = ((beToNat (digest seed 0) : Nat) : Int) := by
  simp only [big.setBytes, Go.Ext.keccak256, List.flatten_cons, List.flatten_nil, List.append_nil,
    digest]

/-- one link: `SetBytes(keccak256.Hash(c.FillBytes(make([]byte, 32))))`. -/
theorem gc_step (seed : Bytes) (j : Nat) :
    big.setBytes (Go.Ext.keccak256
        [big.fillBytes ((beToNat (digest seed j) : Nat) : Int) (make (32 : Int) : List UInt8)]) =
      ((beToNat (digest seed (j + 1)) : Nat) : Int) := by
  have h32 : (make (32 : Int) : List UInt8).length = 32 := rfl
  simp only [big.setBytes, Go.Ext.keccak256, big.fillBytes, List.flatten_cons, List.flatten_nil,
    List.append_nil, Int.natAbs_natCast, h32, Props.C08.digest_fillBytes, digest]

/-- the constant stored in round `j + 1`: `SetBigInt(c mod Q)`. -/
theorem gc_cst (seed : Bytes) (j : Nat) :
    fe.setBigInt Gen.ff_modulus
        (big.mod ((beToNat (digest seed (j + 1)) : Nat) : Int) Go.Ext.constants_Q) =
      cst seed (j + 1) := by
  simp only [fe.setBigInt, big.mod, ff_modulus_eq, constants_Q_eq, ← Int.natCast_emod,
    Lemmas.Mimc7.imod_natCast, Nat.mod_mod, Lemmas.Mimc7.cst_succ, digest]

/-- the loop of `getConstants` after `j` iterations, for any body `f` with the shape of the
    generated one (`m` = number of entries not yet written). -/
theorem gc_loop (seed : Bytes) (f : Int → List Nat × Int → List Nat × Int)
    (hf : ∀ (i : Int) (cts : List Nat) (c : Int), f i (cts, c) =
      (Go.set cts i (fe.setBigInt Gen.ff_modulus (big.mod (big.setBytes (Go.Ext.keccak256
          [big.fillBytes c (make (32 : Int) : List UInt8)])) Go.Ext.constants_Q)),
        big.setBytes (Go.Ext.keccak256 [big.fillBytes c (make (32 : Int) : List UInt8)])))
    (j m : Nat) :
    forRange 1 (1 + (j : Int)) f
        (0 :: List.replicate (j + m) 0, ((beToNat (digest seed 0) : Nat) : Int)) =
      ((List.range (j + 1)).map (cst seed) ++ List.replicate m 0,
        ((beToNat (digest seed j) : Nat) : Int)) := by
  induction j generalizing m with
  | zero =>
    rw [forRange_of_le (by simp)]
    simp [Lemmas.Mimc7.cst_zero]
  | succ j ih =>
    have e1 : j + 1 + m = j + (m + 1) := by omega
    have e2 : (1 + (j : Int)).toNat = j + 1 := by omega
    rw [Int.natCast_succ, ← Int.add_assoc, forRange_last (by omega), e1, ih (m + 1), hf, gc_step,
      gc_cst]
    simp only [Go.set, e2]
    rw [List.set_append_right _ _ (by simp), List.range_succ (n := j + 1), List.map_append,
      List.append_assoc]
    simp [List.replicate_succ]

/-! ## 4. the round loop -/

open I3.Model.Mimc7 (pow7 rounds chain)

theorem chain_length (m : Nat) (c : Bytes) : (chain m c).length = m := by
  induction m generalizing c with
  | zero => rfl
  | succ m ih => rw [chain]; simp only [List.length_cons, ih]

/-- The round loop of `MIMC7Hash` / `MIMC7HashGeneric` (any body `f` with the shape of the generated
    one, `x` and `k` already reduced, a table `c0 :: rest` of `n` constants): followed by the final
    key addition it is the model's `rounds`. -/
theorem rounds_loop (x k c0 : Nat) (rest : List Nat) (n : Int) (hn : n = 1 + (rest.length : Int))
    (f : Int → Nat → Nat)
    (hf : ∀ (i : Int) (r : Nat), f i r =
      pow7 (if (i == (0 : Int)) then (x + k) % q else ((r + k) % q + idx (c0 :: rest) i) % q))
    (r : Nat) :
    fe.add Gen.ff_modulus (forRange 0 n f r) k = rounds x k (c0 :: rest) := by
  rw [forRange_first (by omega), forRange_list rest (0 + 1) n (by omega) f
    (fun r c => pow7 (((r + k) % q + c) % q))]
  · rw [hf]
    simp only [fe.add, ff_modulus_eq, rounds]
    rfl
  · intro j hj r
    have e1 : ((0 : Int) + 1 + (j : Int) == 0) = false := by
      rw [beq_eq_false_iff_ne]; omega
    have e2 : ((0 : Int) + 1 + (j : Int)).toNat = j + 1 := by omega
    rw [hf, e1]
    simp only [idx, e2, List.getD_eq_getElem?_getD, List.getElem?_cons_succ,
      List.getElem?_eq_getElem hj, Option.getD_some, Bool.false_eq_true, if_false]

end I3.GoBridge.Mimc7

namespace I3.GoBridge
open I3 I3.Go I3.Gen.Go I3.GoBridge.Mimc7

/-- `getConstants(seed, n)` for `n ≥ 1`: the `n` round constants `c_0 … c_{n-1}` of the definition. -/
theorem mimc7_getConstants_eq_spec (seed : String) (n : Int) (hn : 1 ≤ n) :
    mimc7_getConstants seed n = (List.range n.toNat).map (Spec.Mimc7.cst (strBytes seed)) := by
  obtain ⟨j, rfl⟩ : ∃ j : Nat, n = 1 + (j : Int) := ⟨(n - 1).toNat, by omega⟩
  have e1 : (1 + (j : Int)).toNat = j + 1 := by omega
  have hinit : Go.set (make (1 + (j : Int)) : List Nat) (0 : Int) (0 : Nat) =
      0 :: List.replicate (j + 0) 0 := by
    simp only [Go.set, make, e1, List.replicate_succ, Nat.add_zero]
    rfl
  simp only [mimc7_getConstants]
  rw [hinit, gc_init, gc_loop (strBytes seed) _ (fun _ _ _ => rfl) j 0, e1]
  simp only [List.replicate_zero, List.append_nil]

/-- `getConstants(seed, n)` for `n ≥ 1` is the model's table. -/
theorem mimc7_getConstants_eq (seed : String) (n : Int) (hn : 1 ≤ n) :
    mimc7_getConstants seed n = Model.Mimc7.getConstants (strBytes seed) n.toNat := by
  rw [mimc7_getConstants_eq_spec seed n hn, Lemmas.Mimc7.getConstants_eq _ _ (by omega)]

/-- For `n ≤ 0` the Go code panics (`make` with a negative length, resp. `cts[0]` on an empty
    slice).  The total translation yields the empty table there (`set` on `[]` is a no-op), whereas
    the model, whose round count is a `Nat`, yields `[0]` at `0` (`Mimc7.model_getConstants_zero`):
    the two differ exactly where Go panics. -/
theorem mimc7_getConstants_nonpos (seed : String) (n : Int) (hn : n ≤ 0) :
    mimc7_getConstants seed n = [] := by
  have e : n.toNat = 0 := by omega
  simp only [mimc7_getConstants]
  rw [forRange_of_le (by omega)]
  simp only [Go.set, make, e, List.replicate_zero, List.set_nil]

namespace Mimc7
/-- the model's table for `nRounds = 0`. -/
theorem model_getConstants_zero (seed : Bytes) : Model.Mimc7.getConstants seed 0 = [0] := rfl
end Mimc7

theorem mimc7_getConstants_length (seed : String) (n : Int) :
    (mimc7_getConstants seed n).length = n.toNat := by
  by_cases hn : 1 ≤ n
  · rw [mimc7_getConstants_eq_spec seed n hn, List.length_map, List.length_range]
  · rw [mimc7_getConstants_nonpos seed n (by omega)]
    have : n.toNat = 0 := by omega
    rw [this]; rfl

/-! ### the package-level `constants` -/

namespace Mimc7
theorem mimcSeed_eq : Inst.mimcSeed = strBytes "mimc" := rfl

theorem SEED_eq : Gen.mimc7_SEED = "mimc" := rfl
end Mimc7

theorem mimc7_constants_nRounds : mimc7_constants.2.2.1 = 91 := rfl

theorem mimc7_constants_nRounds_gen : mimc7_constants.2.2.1 = (Gen.mimc7_nRounds : Int) := rfl

theorem mimc7_constants_cts_eq : mimc7_constants.2.2.2 = mimc7_getConstants "mimc" 91 := rfl

/-- `constants.cts` is the model's package-level table. -/
theorem mimc7_constants_cts : mimc7_constants.2.2.2 = Inst.mimcCts := by
  rw [mimc7_constants_cts_eq, mimc7_getConstants_eq "mimc" 91 (by decide)]
  rfl

/-- `constants.seedHash = int(Keccak-256("mimc"))`. -/
theorem mimc7_constants_seedHash :
    mimc7_constants.1 = ((beToNat (Keccak.keccak256 (strBytes Gen.mimc7_SEED)) : Nat) : Int) := by
  have : mimc7_constants.1 = big.setBytes (Go.Ext.keccak256 [strBytes "mimc"]) := rfl
  rw [this, gc_init]
  rfl

/-- `constants.iv = int(Keccak-256("mimc_iv")) mod q`. -/
theorem mimc7_constants_iv :
    mimc7_constants.2.1 =
      ((beToNat (Keccak.keccak256 (strBytes (Gen.mimc7_SEED ++ "_iv"))) % q : Nat) : Int) := by
  have : mimc7_constants.2.1 =
      big.mod (big.setBytes (Go.Ext.keccak256 [strBytes "mimc_iv"])) Go.Ext.constants_Q := rfl
  have hs : Gen.mimc7_SEED ++ "_iv" = "mimc_iv" := by decide
  rw [this, gc_init, big.mod, constants_Q_eq, ← Int.natCast_emod, hs, Spec.Mimc7.digest]

/-! ## 5. single-block MiMC7 -/

namespace Mimc7
theorem cast_congr {a b : Nat} (h : a = b) : (a : Int) = (b : Int) := by rw [h]
end Mimc7

/-- `MIMC7HashGeneric(x, k, n)` for every pair of integers and every `n ≥ 1`. -/
theorem mimc7_MIMC7HashGeneric_eq (x k n : Int) (hn : 1 ≤ n) :
    mimc7_MIMC7HashGeneric x k n =
      ((Model.Mimc7.mimc7HashGeneric Inst.mimcSeed x k n.toNat : Nat) : Int) := by
  simp only [mimc7_MIMC7HashGeneric]
  rw [mimc7_getConstants_eq "mimc" n hn]
  have hc : Model.Mimc7.getConstants (strBytes "mimc") n.toNat =
      0 :: Model.Mimc7.chain (n.toNat - 1) (Keccak.keccak256 Inst.mimcSeed) := rfl
  rw [hc]
  refine cast_congr (rounds_loop (imod x q) (imod k q) 0 _ n ?_ _ ?_ _)
  · rw [chain_length]; omega
  · intro i r; rfl

/-- `MIMC7Hash(x, k)` (package-level table, 91 rounds) for every pair of integers. -/
theorem mimc7_MIMC7Hash_eq (x k : Int) :
    mimc7_MIMC7Hash x k = ((Model.Mimc7.mimc7Hash Inst.mimcCts x k : Nat) : Int) := by
  simp only [mimc7_MIMC7Hash]
  rw [mimc7_constants_cts, mimc7_constants_nRounds]
  have hc : Inst.mimcCts = 0 :: Model.Mimc7.chain 90 (Keccak.keccak256 Inst.mimcSeed) := rfl
  rw [hc]
  refine cast_congr (rounds_loop (imod x q) (imod k q) 0 _ 91 ?_ _ ?_ _)
  · rw [chain_length]; rfl
  · intro i r; rfl

/-- For `n ≤ 0` (where the Go code panics in `getConstants`) the total translation runs no round and
    returns `k mod q`; the model, which has `nRounds : Nat`, runs one round there. -/
theorem mimc7_MIMC7HashGeneric_nonpos (x k n : Int) (hn : n ≤ 0) :
    mimc7_MIMC7HashGeneric x k n = ((imod k q : Nat) : Int) := by
  simp only [mimc7_MIMC7HashGeneric]
  rw [forRange_of_le hn]
  simp only [fe.toBigIntRegular, fe.add, fe.setBigInt, ff_modulus_eq]
  have : (default : Nat) = 0 := rfl
  rw [this, Nat.zero_add, Nat.mod_eq_of_lt (Lemmas.Mimc7.imod_lt k Lemmas.Mimc7.q_pos)]

/-! ## 6. the multi-element entry points -/

namespace Mimc7
/-- The Go return convention `(*big.Int, error)` of an outcome of the model: `.ok r ↦ (r, nil)`,
    `.error _ ↦ (nil, errors.New("inputs values not inside Finite Field"))` (a `nil` `*big.Int` is
    the default value `0` in the value-semantic translation). -/
def toGo : Except Model.Mimc7.Err Int → Int × Option String
  | .ok r => (r, none)
  | .error _ => (default, some "inputs values not inside Finite Field")

theorem toGo_ok (r : Int) : toGo (.ok r) = (r, none) := rfl
theorem toGo_error (e : Model.Mimc7.Err) :
    toGo (.error e) = (0, some "inputs values not inside Finite Field") := rfl

theorem toGo_injective {a b : Except Model.Mimc7.Err Int} (h : toGo a = toGo b) : a = b := by
  rcases a with ⟨⟨⟩⟩ | a <;> rcases b with ⟨⟨⟩⟩ | b <;> simp [toGo] at h ⊢
  exact h

theorem toGo_eq_ok_iff (o : Except Model.Mimc7.Err Int) (r : Int) :
    toGo o = (r, none) ↔ o = .ok r := by
  rcases o with e | a <;> simp [toGo]

theorem toGo_eq_error_iff (o : Except Model.Mimc7.Err Int) :
    (toGo o).2 = some "inputs values not inside Finite Field" ↔ o = .error .notInField := by
  rcases o with ⟨⟨⟩⟩ | a <;> simp [toGo]
end Mimc7

/-- `Hash(arr, key)` for every list of integers and every key (including `nil`). -/
theorem mimc7_Hash_eq (arr : List Int) (key : Option Int) :
    mimc7_Hash arr key = toGo (Model.Mimc7.hash Inst.mimcCts arr key) := by
  simp only [mimc7_Hash, Model.Mimc7.hash, utils_CheckBigIntArrayInField_eq]
  rw [forRange_idx arr (fun r m => big.mod (r + m + mimc7_MIMC7Hash m r) Go.Ext.constants_Q)]
  have hk : (if key.isNone = true then (0 : Int) else deref key) = key.getD 0 := by
    cases key <;> rfl
  rw [hk]
  simp only [mimc7_MIMC7Hash_eq, big.mod, constants_Q_eq]
  cases arr.all Model.Mimc7.inField <;> rfl

namespace Mimc7
/-- without a key the result is never negative (it is `0` on `[]`, canonical otherwise). -/
theorem hash_none_nonneg (cts : List Nat) (l : List Int) (r : Int)
    (h : Model.Mimc7.hash cts l none = .ok r) : 0 ≤ r := by
  by_cases hl : l = []
  · subst hl
    rw [Props.C08.hash_nil] at h
    cases h
    exact Int.le_refl _
  · exact (Props.C08.hash_canonical cts l none r hl h).1
end Mimc7

/-- the hash selector `I3.Inst.hMimc7` (used by the EdDSA properties) in terms of the generated
    `Hash(l, nil)` … -/
theorem mimc7_hMimc7_eq (l : List Int) :
    Inst.hMimc7 l =
      if (mimc7_Hash l none).2.isSome then none else some (mimc7_Hash l none).1.toNat := by
  rw [mimc7_Hash_eq, Inst.hMimc7]
  rcases Model.Mimc7.hash Inst.mimcCts l none with e | r <;> rfl

/-- … and the other way round (nothing is lost by `toNat`: see `hash_none_nonneg`). -/
theorem mimc7_Hash_none_eq (l : List Int) :
    mimc7_Hash l none =
      match Inst.hMimc7 l with
      | some h => ((h : Int), none)
      | none => (0, some "inputs values not inside Finite Field") := by
  rw [mimc7_Hash_eq, Inst.hMimc7]
  rcases h : Model.Mimc7.hash Inst.mimcCts l none with e | r
  · rfl
  · simp only [toGo, Int.toNat_of_nonneg (hash_none_nonneg _ _ _ h)]

/-- `HashGeneric(iv, arr, n)` for every iv, every list of integers and every `n ≥ 1`. -/
theorem mimc7_HashGeneric_eq (iv : Int) (arr : List Int) (n : Int) (hn : 1 ≤ n) :
    mimc7_HashGeneric iv arr n = toGo (Model.Mimc7.hashGeneric Inst.mimcSeed iv arr n.toNat) := by
  have hd : (default : Option String).isSome = false := rfl
  simp only [mimc7_HashGeneric, Model.Mimc7.hashGeneric, utils_CheckBigIntArrayInField_eq, hd,
    Bool.false_eq_true, if_false]
  rw [forRangeRet_none 0 (len arr) _ (fun i r => mimc7_MIMC7HashGeneric r (idx arr i) n)
    (fun i s => rfl), forRange_idx arr (fun r m => mimc7_MIMC7HashGeneric r m n)]
  simp only [mimc7_MIMC7HashGeneric_eq _ _ n hn]
  cases arr.all Model.Mimc7.inField <;> rfl

/-- `HashGeneric` for `n ≤ 0`, where Go panics as soon as `arr` is non-empty and accepted (in
    `getConstants`): the total translation folds `r ← m_i mod q`.  On `arr = []` and on rejected input
    this agrees with the model (`mimc7_HashGeneric_nil`, `mimc7_HashGeneric_reject`). -/
theorem mimc7_HashGeneric_nonpos (iv : Int) (arr : List Int) (n : Int) (hn : n ≤ 0) :
    mimc7_HashGeneric iv arr n =
      if arr.all Model.Mimc7.inField then
        (arr.foldl (fun (_ : Int) (m : Int) => ((imod m q : Nat) : Int)) iv, none)
      else (0, some "inputs values not inside Finite Field") := by
  have hd : (default : Option String).isSome = false := rfl
  simp only [mimc7_HashGeneric, utils_CheckBigIntArrayInField_eq, hd, Bool.false_eq_true, if_false]
  rw [forRangeRet_none 0 (len arr) _ (fun i r => mimc7_MIMC7HashGeneric r (idx arr i) n)
    (fun i s => rfl), forRange_idx arr (fun r m => mimc7_MIMC7HashGeneric r m n)]
  simp only [mimc7_MIMC7HashGeneric_nonpos _ _ n hn]
  cases arr.all Model.Mimc7.inField <;> rfl

/-- empty input, any round count: the iv is returned (as in the model). -/
theorem mimc7_HashGeneric_nil (iv n : Int) :
    mimc7_HashGeneric iv [] n = toGo (Model.Mimc7.hashGeneric Inst.mimcSeed iv [] n.toNat) := by
  by_cases hn : 1 ≤ n
  · exact mimc7_HashGeneric_eq iv [] n hn
  · rw [mimc7_HashGeneric_nonpos iv [] n (by omega)]; rfl

/-- rejected input, any round count (as in the model). -/
theorem mimc7_HashGeneric_reject (iv : Int) (arr : List Int) (n : Int)
    (h : arr.all Model.Mimc7.inField = false) :
    mimc7_HashGeneric iv arr n = toGo (Model.Mimc7.hashGeneric Inst.mimcSeed iv arr n.toNat) := by
  by_cases hn : 1 ≤ n
  · exact mimc7_HashGeneric_eq iv arr n hn
  · rw [mimc7_HashGeneric_nonpos iv arr n (by omega), Model.Mimc7.hashGeneric, h]; rfl

/-! ## 7. `HashBytes` -/

namespace Mimc7
theorem slice_mid (b : List UInt8) (i : Nat) :
    slice b ((31 : Int) * (i : Int)) ((31 : Int) * ((i : Int) + 1)) = (b.drop (31 * i)).take 31 := by
  have e1 : ((31 : Int) * (i : Int)).toNat = 31 * i := by omega
  have e2 : ((31 : Int) * ((i : Int) + 1)).toNat = 31 * i + 31 := by omega
  simp only [slice, e1, e2, List.drop_take, Nat.add_sub_cancel_left]

theorem idiv_len (b : List UInt8) : idiv (len b) 31 = ((b.length / 31 : Nat) : Int) := by
  simp only [idiv, len]
  rw [Int.tdiv_eq_ediv_of_nonneg (by omega)]; omega

theorem imodT_len (b : List UInt8) : imodT (len b) 31 = ((b.length % 31 : Nat) : Int) := by
  simp only [imodT, len]
  rw [Int.tmod_eq_emod_of_nonneg (by omega)]; omega

theorem slice_last (b : List UInt8) :
    slice b (idiv (len b) 31 * 31) (len b) = (b.drop (31 * (b.length / 31))).take 31 := by
  have e1 : (idiv (len b) 31 * 31).toNat = 31 * (b.length / 31) := by
    rw [idiv_len]; omega
  have e2 : (len b).toNat = b.length := by simp only [len]; omega
  simp only [slice, e1, e2, List.take_length]
  rw [List.take_of_length_le]
  rw [List.length_drop]
  omega

/-- the list of field elements built by `HashBytes` (`⌊|b|/31⌋` full chunks, then the remainder if
    there is one): the little-endian values of the model's 31-byte chunks. -/
theorem hashBytes_elems (b : List UInt8) :
    (if (imodT (len b) 31 != 0) = true then
      forRange 0 (idiv (len b) 31)
          (fun i bElems => bElems ++ [((leToNat (slice b (31 * i) (31 * (i + 1))) : Nat) : Int)])
          (make 0) ++
        [((leToNat (slice b (idiv (len b) 31 * 31) (len b)) : Nat) : Int)]
    else
      forRange 0 (idiv (len b) 31)
        (fun i bElems => bElems ++ [((leToNat (slice b (31 * i) (31 * (i + 1))) : Nat) : Int)])
        (make 0)) =
      (Model.Mimc7.chunks31 b).map (fun c => ((leToNat c : Nat) : Int)) := by
  have hm : (make (0 : Int) : List Int) = [] := rfl
  rw [slice_last, imodT_len, idiv_len,
    forRange_append (b.length / 31)
      (fun i => ((leToNat (slice b (31 * i) (31 * (i + 1))) : Nat) : Int)), hm, List.nil_append,
    Lemmas.Mimc7.chunks31_eq_spec, Spec.Mimc7.chunks, List.map_map]
  simp only [slice_mid]
  by_cases h : b.length % 31 = 0
  · have e : (b.length + 30) / 31 = b.length / 31 := by omega
    simp only [h, e, Int.natCast_zero, bne_self_eq_false, Bool.false_eq_true, if_false]
    rfl
  · have e : (b.length + 30) / 31 = b.length / 31 + 1 := by omega
    have h' : ((((b.length % 31 : Nat) : Int)) != 0) = true := by
      rw [bne_iff_ne]; omega
    rw [if_pos h', e, List.range_succ, List.map_append]
    rfl
end Mimc7

/-- `HashBytes(b)` for every byte string. -/
theorem mimc7_HashBytes_eq (b : List UInt8) :
    mimc7_HashBytes b = toGo (Model.Mimc7.hashBytes Inst.mimcCts b) := by
  simp only [mimc7_HashBytes, utils_SetBigIntFromLEBytes_eq]
  rw [hashBytes_elems, mimc7_Hash_eq, Model.Mimc7.hashBytes]
  rcases Model.Mimc7.hash Inst.mimcCts _ none with e | r <;> rfl

end I3.GoBridge
