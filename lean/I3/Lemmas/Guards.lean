/-
  I3.Lemmas.Guards — helper lemmas for property C07: length / range invariants of the Poseidon
  permutation model, the guard normal form of `hashWithStateEx`, and facts about `chunks31`.
  Core Lean only.
-/
import I3.Lemmas.Bytes
import I3.Model.Poseidon
import I3.Model.Mimc7
namespace I3.Lemmas.Guards
open I3 I3.Model.Poseidon

/-! ### generic -/

/-- invariant of a fold over `List.range n`. -/
theorem foldl_range_inv {α : Type} (P : α → Prop) (f : α → Nat → α) (n : Nat)
    (h : ∀ a i, i < n → P a → P (f a i)) (a : α) (ha : P a) : P ((List.range n).foldl f a) := by
  induction n with
  | zero => simpa using ha
  | succ n ih =>
    rw [List.range_succ, List.foldl_append]
    simp only [List.foldl_cons, List.foldl_nil]
    exact h _ n (Nat.lt_succ_self n) (ih (fun a i hi => h a i (Nat.lt_succ_of_lt hi)))

theorem foldl_addmod_lt {m : Nat} (hm : 0 < m) (l : List Nat) (a : Nat) (ha : a < m) :
    l.foldl (fun a b => (a + b) % m) a < m := by
  induction l generalizing a with
  | nil => simpa using ha
  | cons x xs ih => exact ih _ (Nat.mod_lt _ hm)

/-! ### Poseidon: lengths -/

theorem mix_length (m : Nat) (mat : List (List Nat)) (state : List Nat) :
    (mix m mat state).length = state.length := by
  simp [mix]

theorem ark_length (m : Nat) (state C : List Nat) (it : Nat) (h : state.length + it ≤ C.length) :
    (ark m state C it).length = state.length := by
  simp only [ark, List.length_zipWith, List.length_drop]; omega

theorem sboxAll_length (m e : Nat) (state : List Nat) : (sboxAll m e state).length = state.length := by
  simp [sboxAll]

theorem partialRound_length (m e t : Nat) (C S state : List Nat) (i : Nat) (ht : state.length = t)
    (hS : (t * 2 - 1) * i + t + (t - 1) ≤ S.length) :
    (partialRound m e t C S state i).length = t := by
  cases state with
  | nil => simpa [partialRound] using ht
  | cons s0 rest =>
    simp only [partialRound, List.length_cons, List.length_zipWith, List.length_drop]
    simp only [List.length_cons] at ht
    omega

/-- one full round (used three times before and three times after the partial rounds). -/
theorem fullRound_length (m e : Nat) (mat : List (List Nat)) (C st : List Nat) (it : Nat)
    (h : st.length + it ≤ C.length) :
    (mix m mat (ark m (sboxAll m e st) C it)).length = st.length := by
  rw [mix_length, ark_length _ _ _ _ (by rw [sboxAll_length]; exact h), sboxAll_length]

theorem tablesOk_C {tab : Tables} {t rp : Nat} (h : tablesOk tab t rp = true) :
    8 * t + rp ≤ tab.C.length := by
  simp only [tablesOk, Bool.and_eq_true, decide_eq_true_eq] at h
  exact h.1.1.1.1.1

theorem tablesOk_S {tab : Tables} {t rp : Nat} (h : tablesOk tab t rp = true) :
    (2 * t - 1) * rp ≤ tab.S.length := by
  simp only [tablesOk, Bool.and_eq_true, decide_eq_true_eq] at h
  exact h.1.1.1.1.2

/-- `permute` keeps the width, as soon as the constant tables are large enough (`tablesOk`). -/
theorem permute_length (m e : Nat) (tab : Tables) (t rp : Nat) (state : List Nat)
    (hok : tablesOk tab t rp = true) (hst : state.length = t) :
    (permute m e tab t rp state).length = t := by
  have hC := tablesOk_C hok
  have hS := tablesOk_S hok
  unfold permute
  simp only
  rw [mix_length, sboxAll_length]
  -- last three full rounds
  refine foldl_range_inv (α := List Nat) (fun st => st.length = t) _ _ ?_ _ ?_
  · intro a i hi ha
    have : i * t ≤ 2 * t := Nat.mul_le_mul_right _ (by omega)
    rw [fullRound_length _ _ _ _ _ _ (by omega), ha]
  -- partial rounds
  refine foldl_range_inv (α := List Nat) (fun st => st.length = t) _ _ ?_ _ ?_
  · intro a i hi ha
    apply partialRound_length _ _ _ _ _ _ _ ha
    have h1 : (2 * t - 1) * (i + 1) ≤ (2 * t - 1) * rp := Nat.mul_le_mul_left _ hi
    rw [Nat.mul_succ] at h1
    rw [Nat.mul_comm t 2]
    generalize (2 * t - 1) * i = B at *
    generalize (2 * t - 1) * rp = R at *
    omega
  -- the round with the pre-sparse matrix
  rw [mix_length]
  have h3 : ((List.range 3).foldl
      (fun st i => mix m tab.M (ark m (sboxAll m e st) tab.C ((i + 1) * t)))
      (ark m state tab.C 0)).length = t := by
    refine foldl_range_inv (α := List Nat) (fun st => st.length = t) _ _ ?_ _ ?_
    · intro a i hi ha
      have : (i + 1) * t ≤ 3 * t := Nat.mul_le_mul_right _ (by omega)
      rw [fullRound_length _ _ _ _ _ _ (by omega), ha]
    · rw [ark_length _ _ _ _ (by omega), hst]
  rw [ark_length _ _ _ _ (by rw [sboxAll_length, h3]; omega), sboxAll_length, h3]

/-! ### Poseidon: canonical outputs -/

theorem mix_lt {m : Nat} (hm : 0 < m) (mat : List (List Nat)) (state : List Nat) :
    ∀ x ∈ mix m mat state, x < m := by
  intro x hx
  simp only [mix, List.mem_map] at hx
  obtain ⟨i, -, rfl⟩ := hx
  exact foldl_addmod_lt hm _ 0 hm

theorem permute_lt {m : Nat} (hm : 0 < m) (e : Nat) (tab : Tables) (t rp : Nat) (state : List Nat) :
    ∀ x ∈ permute m e tab t rp state, x < m := by
  unfold permute
  exact mix_lt hm _ _

/-! ### Poseidon: guards -/

theorem all_inField_iff (m : Nat) (inp : List Int) :
    inp.all (inField m) = true ↔ ∀ x ∈ inp, 0 ≤ x ∧ x < (m : Int) := by
  simp [inField]

theorem inField_iff (m : Nat) (v : Int) : inField m v = true ↔ 0 ≤ v ∧ v < (m : Int) := by
  simp [inField]

/-- the tables are present and well-sized for every admissible width. -/
def TablesPresent (tables : Nat → Option Tables) (nRoundsP : List Nat) : Prop :=
  ∀ t, 2 ≤ t → t ≤ nRoundsP.length + 1 →
    ∃ tab rp, tables t = some tab ∧ nRoundsP[t - 2]? = some rp ∧ tablesOk tab t rp = true

/-- Normal form of `hashWithStateEx` once the first three guards have been passed. -/
theorem hashWithStateEx_passed (m e : Nat) (tables : Nat → Option Tables) (nRoundsP : List Nat)
    (inp : List Int) (st nOuts : Int)
    (htab : TablesPresent tables nRoundsP)
    (h1 : 1 ≤ inp.length) (h2 : inp.length ≤ nRoundsP.length)
    (h3 : ∀ x ∈ inp, 0 ≤ x ∧ x < (m : Int))
    (h4 : 1 ≤ nOuts) (h5 : nOuts ≤ (inp.length : Int) + 1) :
    ∃ tab rp, tables (inp.length + 1) = some tab ∧ nRoundsP[inp.length + 1 - 2]? = some rp ∧
      tablesOk tab (inp.length + 1) rp = true ∧
      hashWithStateEx m e tables nRoundsP inp st nOuts =
        if inField m st = true then
          .ok ((permute m e tab (inp.length + 1) rp (st.toNat :: inp.map Int.toNat)).take nOuts.toNat)
        else .error .stateNotInField := by
  obtain ⟨tab, rp, ht, hr, hok⟩ := htab (inp.length + 1) (by omega) (by omega)
  refine ⟨tab, rp, ht, hr, hok, ?_⟩
  have c1 : ¬ (inp.length = 0 ∨ inp.length > nRoundsP.length) := by omega
  have c2 : inp.all (inField m) = true := (all_inField_iff m inp).2 h3
  have c3 : ¬ (nOuts < 1 ∨ nOuts > ((inp.length + 1 : Nat) : Int)) := by omega
  unfold hashWithStateEx
  simp only [c1, c2, c3, if_false, Bool.not_true, Bool.false_eq_true, ht, hr, hok]
  cases inField m st <;> simp

/-! ### MiMC7 -/

open I3.Model.Mimc7 in
theorem mimc_all_inField_iff (arr : List Int) :
    arr.all Model.Mimc7.inField = true ↔ ∀ x ∈ arr, 0 ≤ x ∧ x < (q : Int) := by
  simp [Model.Mimc7.inField]

theorem chunks31_length_le (b : Bytes) : ∀ c ∈ Model.Mimc7.chunks31 b, c.length ≤ 31 := by
  induction b using Model.Mimc7.chunks31.induct with
  | case1 b h => intro c hc; rw [Model.Mimc7.chunks31] at hc; simp [h] at hc
  | case2 b h ih =>
    intro c hc
    rw [Model.Mimc7.chunks31] at hc
    simp only [h, dite_false, List.mem_cons] at hc
    rcases hc with rfl | hc
    · simp only [List.length_take]; omega
    · exact ih c hc

theorem pow_256_31_lt_q : 256 ^ 31 < q := by decide

theorem leToNat_chunk_lt_q (c : Bytes) (h : c.length ≤ 31) : leToNat c < q := by
  have h1 := Lemmas.Bytes.leToNat_lt c
  have h2 : 256 ^ c.length ≤ 256 ^ 31 := Nat.pow_le_pow_right (by decide) h
  have := pow_256_31_lt_q
  omega

end I3.Lemmas.Guards
