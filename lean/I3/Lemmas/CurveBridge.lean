/-
  I3.Lemmas.CurveBridge — bridge between the executable model of babyjub.go
  (`I3.Model.BabyJub` at the regenerated constants `I3.Inst.bjConsts`) and the abstract
  BabyJubJub group `I3.Spec.BJJ.curve.Point`.

  * the regenerated constants are the ones of the specification;
  * `Model.BabyJub.addProj` is `curve.addProj` under the cast `ℕ → ZMod q` (`addProj_rep`);
  * `Model.BabyJub.affine` / `projective` convert between representatives and canonical coordinates;
  * `Model.BabyJub.mul` computes `s • P` for every natural scalar `s` (`mul_rep`).
-/
import I3.Spec.BabyJub
import I3.Model.Instances
import I3.Exec.Edwards

set_option maxRecDepth 100000

namespace I3.Lemmas.CurveBridge

open I3 I3.Spec I3.Spec.BJJ I3.Model.BabyJub

/-- the constants regenerated from the Go source -/
abbrev k : Consts := I3.Inst.bjConsts

/-! ### the regenerated constants are the specification constants -/

theorem k_q : k.q = I3.q := by decide +kernel
theorem k_a : k.a = 168700 := by decide +kernel
theorem k_d : k.d = 168696 := by decide +kernel
theorem k_a' : k.a = I3.ja := by decide +kernel
theorem k_d' : k.d = I3.jd := by decide +kernel
theorem k_order : k.order = 8 * I3.l := by decide +kernel
theorem k_subOrder : k.subOrder = I3.l := by decide +kernel
theorem k_b8 : k.b8 = ((I3.B8x : ℤ), (I3.B8y : ℤ)) := by decide +kernel
theorem one_mod_q : 1 % k.q = 1 := by decide +kernel
theorem one_mod_q' : 1 % I3.q = 1 := by decide +kernel

/-! ### projective addition -/

/-- the model's projective addition is the specification's evaluator `addN`, verbatim -/
theorem addProj_eq_addN (p1 p2 : PPoint) : addProj k p1 p2 = addN p1 p2 := rfl

theorem addProj_lt (p1 p2 : PPoint) :
    (addProj k p1 p2).1 < I3.q ∧ (addProj k p1 p2).2.1 < I3.q ∧ (addProj k p1 p2).2.2 < I3.q :=
  addN_lt p1 p2

/-- `addProj` of the model is `curve.addProj` under the cast `ℕ → ZMod q`. -/
theorem castP_addProj (p1 p2 : PPoint) :
    castP (addProj k p1 p2) = curve.addProj (castP p1) (castP p2) :=
  castP_addN p1 p2

/-- `addProj` adds represented points (no exceptional cases: the law is complete). -/
theorem addProj_rep {p1 p2 : PPoint} {P Q : curve.Point} (h1 : Rep p1 P) (h2 : Rep p2 Q) :
    Rep (addProj k p1 p2) (P + Q) :=
  h1.add h2

/-! ### affine ↔ projective -/

/-- `affine` of a representative of `P` gives the canonical coordinates of `P`. -/
theorem affine_rep {p : PPoint} {P : curve.Point} (h : Rep p P) : affine k p = coords P := by
  obtain ⟨x, y, z⟩ := p
  obtain ⟨hz, hx, hy⟩ := h
  have hz0 : z ≠ 0 := by
    rintro rfl
    simp at hz
  simp only at hz hx hy
  simp only [affine, if_neg hz0, k_q, coords]
  refine Prod.ext ?_ ?_
  · simp only
    rw [← ZMod.val_natCast, Nat.cast_mul, cast_invMod, ← div_eq_mul_inv, hx]
  · simp only
    rw [← ZMod.val_natCast, Nat.cast_mul, cast_invMod, ← div_eq_mul_inv, hy]

theorem cast_imod (x : ℤ) : ((imod x I3.q : ℕ) : F) = (x : F) := by
  have hq : ((I3.q : ℕ) : ℤ) ≠ 0 := by
    have := q_pos; omega
  have h : ((imod x I3.q : ℕ) : ℤ) = x % (I3.q : ℤ) :=
    Int.toNat_of_nonneg (Int.emod_nonneg _ hq)
  rw [← Int.cast_natCast, h, ZMod.intCast_mod]

/-- `projective` of arbitrary integer coordinates congruent to those of `P` represents `P`. -/
theorem projective_rep {x y : ℤ} {P : curve.Point} (hx : (x : F) = P.x) (hy : (y : F) = P.y) :
    Rep (projective k (x, y)) P := by
  simp only [projective, k_q, one_mod_q']
  exact rep_of_cast ((cast_imod x).trans hx) ((cast_imod y).trans hy)

theorem cast_coords_x (P : curve.Point) : (((coords P).1 : ℤ) : F) = P.x := by
  simp [coords]

theorem cast_coords_y (P : curve.Point) : (((coords P).2 : ℤ) : F) = P.y := by
  simp [coords]

/-- `projective` of the canonical coordinates of `P` represents `P`. -/
theorem projective_coords_rep (P : curve.Point) : Rep (projective k (coords P)) P :=
  projective_rep (cast_coords_x P) (cast_coords_y P)

theorem projective_coords (P : curve.Point) : projective k (coords P) = (P.x.val, P.y.val, 1) := by
  have hx := ZMod.val_lt P.x
  have hy := ZMod.val_lt P.y
  simp only [projective, k_q, one_mod_q', coords, imod]
  rw [← Int.natCast_mod, ← Int.natCast_mod, Int.toNat_natCast, Int.toNat_natCast,
    Nat.mod_eq_of_lt hx, Nat.mod_eq_of_lt hy]

/-! ### canonical coordinates -/

theorem coords_nonneg (P : curve.Point) : 0 ≤ (coords P).1 ∧ 0 ≤ (coords P).2 :=
  ⟨Int.natCast_nonneg _, Int.natCast_nonneg _⟩

theorem coords_lt (P : curve.Point) : (coords P).1 < (I3.q : ℤ) ∧ (coords P).2 < (I3.q : ℤ) :=
  ⟨Int.ofNat_lt.2 (ZMod.val_lt P.x), Int.ofNat_lt.2 (ZMod.val_lt P.y)⟩

/-- the model's `InCurve` test on arbitrary integers is the curve equation in `ZMod q`. -/
theorem inCurve_iff (x y : ℤ) : inCurve k (x, y) = true ↔ curve.OnCurve (x : F) (y : F) := by
  simp only [inCurve, beq_iff_eq, k_q, k_a', k_d']
  rw [← ZMod.intCast_eq_intCast_iff']
  unfold EdCurve.OnCurve
  rw [curve_a, curve_d]
  simp only [Int.cast_add, Int.cast_mul, ZMod.intCast_mod, Int.cast_one, Int.cast_natCast]
  constructor <;> intro h <;> linear_combination h

theorem inCurve_coords (P : curve.Point) : inCurve k (coords P) = true := by
  have := (inCurve_iff (coords P).1 (coords P).2).2
    (by rw [cast_coords_x, cast_coords_y]; exact P.on)
  exact this

/-- every integer pair accepted by `InCurve` is congruent to a curve point -/
theorem exists_point_of_inCurve {x y : ℤ} (h : inCurve k (x, y) = true) :
    ∃ P : curve.Point, (x : F) = P.x ∧ (y : F) = P.y :=
  ⟨⟨(x : F), (y : F), (inCurve_iff x y).1 h⟩, rfl, rfl⟩

/-! ### scalar multiplication -/

theorem intBit_nat (s i : ℕ) : intBit (s : ℤ) i = s / 2 ^ i % 2 := by
  simp [intBit, bitAt, Nat.shiftRight_eq_div_pow]

theorem intBitLen_nat (s : ℕ) : intBitLen (s : ℤ) = bitLen s := by
  simp [intBitLen]

theorem lt_two_pow_bitLen (s : ℕ) : s < 2 ^ bitLen s := by
  unfold bitLen
  split_ifs with h
  · subst h; simp
  · exact Nat.lt_log2_self

/-- loop invariant of `Point.Mul`: before bit `i`, `res` represents `(s mod 2^i) • P` and `exp`
represents `2^i • P`; all `Z` coordinates stay nonzero because the addition law is complete. -/
theorem mulLoop_rep (s : ℕ) (P : curve.Point) : ∀ (n i : ℕ) (res e : PPoint),
    Rep res ((s % 2 ^ i) • P) → Rep e ((2 ^ i) • P) →
      Rep (mulLoop k (s : ℤ) n i res e) ((s % 2 ^ (i + n)) • P)
  | 0, i, res, e, hR, _ => by simpa [mulLoop] using hR
  | n + 1, i, res, e, hR, hE => by
    have hE2 : Rep (addProj k e e) ((2 ^ (i + 1)) • P) := by
      rw [pow_succ, mul_nsmul, two_nsmul]; exact hE.add hE
    have hR' : Rep (if intBit (s : ℤ) i = 1 then addProj k res e else res)
        ((s % 2 ^ (i + 1)) • P) := by
      rw [Nat.mod_pow_succ, add_nsmul, intBit_nat]
      rcases Nat.mod_two_eq_zero_or_one (s / 2 ^ i) with hb | hb
      · rw [hb, if_neg (by decide)]; simpa using hR
      · rw [hb, if_pos rfl, mul_one]; exact hR.add hE
    have := mulLoop_rep s P n (i + 1) _ _ hR' hE2
    rw [show i + 1 + n = i + (n + 1) by omega] at this
    exact this

/-- `Point.Mul` computes `s • P` for every natural scalar `s` (of any size) and every integer
representative `(x, y)` of a curve point `P`; the result is in canonical coordinates. -/
theorem mul_rep (s : ℕ) {x y : ℤ} {P : curve.Point} (hx : (x : F) = P.x) (hy : (y : F) = P.y) :
    mul k (s : ℤ) (x, y) = coords (s • P) := by
  unfold mul
  apply affine_rep
  rw [intBitLen_nat, one_mod_q]
  have := mulLoop_rep s P (bitLen s) 0 (0, 1, 1) (projective k (x, y))
    (by rw [pow_zero, Nat.mod_one, zero_nsmul]; exact rep_zero)
    (by rw [pow_zero, one_nsmul]; exact projective_rep hx hy)
  rwa [zero_add, Nat.mod_eq_of_lt (lt_two_pow_bitLen s)] at this

theorem mul_coords (s : ℕ) (P : curve.Point) : mul k (s : ℤ) (coords P) = coords (s • P) :=
  mul_rep s (cast_coords_x P) (cast_coords_y P)

/-- the affine addition as performed by the Go `Point.Add`-style callers:
`Projective`, `PointProjective.Add`, `Affine`. -/
theorem add_rep {x1 y1 x2 y2 : ℤ} {P Q : curve.Point}
    (hx1 : (x1 : F) = P.x) (hy1 : (y1 : F) = P.y) (hx2 : (x2 : F) = Q.x) (hy2 : (y2 : F) = Q.y) :
    affine k (addProj k (projective k (x1, y1)) (projective k (x2, y2))) = coords (P + Q) :=
  affine_rep (addProj_rep (projective_rep hx1 hy1) (projective_rep hx2 hy2))

theorem add_coords (P Q : curve.Point) :
    affine k (addProj k (projective k (coords P)) (projective k (coords Q))) = coords (P + Q) :=
  affine_rep (addProj_rep (projective_coords_rep P) (projective_coords_rep Q))

/-- non-negative integer scalars -/
theorem mul_coords_int {s : ℤ} (hs : 0 ≤ s) (P : curve.Point) :
    mul k s (coords P) = coords (s.toNat • P) := by
  have := mul_coords s.toNat P
  rwa [Int.toNat_of_nonneg hs] at this

/-! ### the affine reference oracle `I3.Ed` (used by the driver for correspondence runs) -/

theorem ed_onCurve_iff (x y : ℕ) : Ed.onCurve (x, y) = true ↔ curve.OnCurve (x : F) (y : F) := by
  simp only [Ed.onCurve, beq_iff_eq, ← cast_eq_iff]
  unfold EdCurve.OnCurve
  rw [curve_a, curve_d]
  simp only [Nat.cast_add, Nat.cast_mul, ZMod.natCast_mod, Nat.cast_one]
  constructor <;> intro h <;> linear_combination h

/-- `I3.Ed.add` is the affine group law on (arbitrary natural representatives of) curve points,
returning canonical coordinates. -/
theorem ed_add_rep {x1 y1 x2 y2 : ℕ} {P Q : curve.Point}
    (hx1 : (x1 : F) = P.x) (hy1 : (y1 : F) = P.y) (hx2 : (x2 : F) = Q.x) (hy2 : (y2 : F) = Q.y) :
    Ed.add (x1, y1) (x2, y2) = ((P + Q).x.val, (P + Q).y.val) := by
  have ht : ∀ t : ℕ, ((1 + I3.q - t % I3.q : ℕ) : F) = 1 - (t : F) := by
    intro t
    have : t % I3.q ≤ 1 + I3.q := by
      have := Nat.mod_lt t q_pos; omega
    rw [Nat.cast_sub this, Nat.cast_add, ZMod.natCast_self, ZMod.natCast_mod]
    simp
  simp only [Ed.add]
  refine Prod.ext ?_ ?_
  · simp only
    rw [← ZMod.val_natCast, Nat.cast_mul, cast_invMod, EdCurve.add_x, ← hx1, ← hy1, ← hx2, ← hy2,
      div_eq_mul_inv]
    simp only [Nat.cast_add, Nat.cast_mul, ZMod.natCast_mod, Nat.cast_one, curve_d]
  · simp only
    rw [← ZMod.val_natCast, Nat.cast_mul, cast_invMod, EdCurve.add_y, ← hx1, ← hy1, ← hx2, ← hy2,
      div_eq_mul_inv]
    simp only [ht, Nat.cast_add, Nat.cast_mul, ZMod.natCast_mod, curve_d, curve_a, cast_q_sub_mod]
    ring_nf

theorem ed_add_coords (P Q : curve.Point) :
    Ed.add (P.x.val, P.y.val) (Q.x.val, Q.y.val) = ((P + Q).x.val, (P + Q).y.val) :=
  ed_add_rep (ZMod.natCast_zmod_val _) (ZMod.natCast_zmod_val _) (ZMod.natCast_zmod_val _)
    (ZMod.natCast_zmod_val _)

/-- `I3.Ed.smul` is scalar multiplication in the group. -/
theorem ed_smul_rep {x y : ℕ} {P : curve.Point} (hx : (x : F) = P.x) (hy : (y : F) = P.y)
    (n : ℕ) : Ed.smul n (x, y) = ((n • P).x.val, (n • P).y.val) := by
  induction n using Nat.strong_induction_on with
  | _ n ih =>
    rw [Ed.smul]
    split_ifs with h0 h1
    · subst h0
      have h1 : (1 : F).val = 1 := by
        have : ((1 : ℕ) : F).val = 1 % I3.q := ZMod.val_natCast _ _
        rw [Nat.mod_eq_of_lt one_lt_q, Nat.cast_one] at this
        exact this
      simp [Ed.zero, h1]
    · simp only
      rw [ih (n / 2) (by omega), ed_add_coords,
        ed_add_rep (ZMod.natCast_zmod_val _) (ZMod.natCast_zmod_val _) hx hy]
      have e : (n / 2) • P + (n / 2) • P + P = n • P := by
        conv_rhs => rw [show n = n / 2 + n / 2 + 1 by omega, add_nsmul, add_nsmul, one_nsmul]
      rw [e]
    · simp only
      rw [ih (n / 2) (by omega), ed_add_coords]
      have e : (n / 2) • P + (n / 2) • P = n • P := by
        conv_rhs => rw [show n = n / 2 + n / 2 by omega, add_nsmul]
      rw [e]

/-- the model's `Point.Mul` agrees with the reference oracle on every curve point and scalar -/
theorem mul_eq_ed_smul (s : ℕ) (P : curve.Point) :
    mul k (s : ℤ) (coords P) =
      (((Ed.smul s (P.x.val, P.y.val)).1 : ℤ), ((Ed.smul s (P.x.val, P.y.val)).2 : ℤ)) := by
  rw [mul_coords, ed_smul_rep (ZMod.natCast_zmod_val _) (ZMod.natCast_zmod_val _)]
  rfl

end I3.Lemmas.CurveBridge
