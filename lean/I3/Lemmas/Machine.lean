/-
  I3.Lemmas.Machine — the abstract heap machine behind C16 (purity over call histories) and
  C17 (concurrency over interleavings).  Core Lean only; independent of the Go code.

  MODEL
  * Objects are identities (`Obj := Nat`); the heap maps every identity to a value of an arbitrary
    type `Val`.  The shared state also contains the allocator (a counter: identities `≥ next` do
    not exist yet, so a fresh object is distinct from every existing one) and the pool (the list
    of currently free scratch objects).
  * One library call is a deterministic program `Prog Val α` over the atomic actions
    read / write / alloc / poolGet / poolPut, ending in `ret a`.  The continuation of a read
    receives the value read, so control flow may depend on everything the call has read.
  * MODELLING ASSUMPTION (parametricity in fresh identities).  A program names the caller-visible
    objects (arguments, destinations, package-level objects) by identity (`Ref.obj o`) but names
    the objects it acquires itself — by `alloc` or `poolGet` — by the ORDER of acquisition
    (`Ref.loc i` = the i-th object acquired by this call); the machine keeps the environment
    `env : List Obj` that maps these local names to identities.  Hence a program cannot observe
    WHICH identity the allocator or the pool handed out (Go code that does not print or compare
    addresses of its own temporaries has this form).  Nothing is assumed about which identity is
    handed out beyond freshness / exclusive holding: `alloc` returns `next`, `poolGet` returns the
    head of the free list or allocates; every theorem quantifies over arbitrary allocator and
    pool states, so the particular choice is immaterial.
  * The content of an object obtained from the pool is whatever the previous holder left there.
  * A call comes with its argument objects `args` and its documented destinations `dst` (a list:
    receiver and/or out-parameters, e.g. both operands of a butterfly).  Its result is a VALUE of
    an arbitrary type (an error is a value); a Go function that returns a pointer to a fresh
    object is modelled as returning that object's content.

  DISCIPLINE (`Disc`, `Disciplined`): a syntactic check over the program tree with a ghost
  context that records, for every local name, whether it is `fresh` (allocated by this call),
  `heldU`/`heldW` (taken from the pool, not yet / already written by this call) or `released`
  (put back), and which destinations the call has already written.  Every write goes to a fresh
  object, a held pool object, or a documented destination that is not a package-level object;
  every read is of an argument, a package-level object, a destination this call has already
  written (or that is also an argument), a fresh object, or a held pool object this call has
  already written (so stale pool contents never flow into results); `poolPut` only of a held
  object, which is unusable afterwards; no held object at `ret`.
  Correspondence with the origin classes of the write-site extraction: `fresh` = `Ref.loc i` with
  status `fresh`; `pool` = `Ref.loc i` with status `heldU/heldW`; `recv`/`param` = `Ref.obj o`
  with `o ∈ dst`; `global` = `Ref.obj g` with `G g` (rejected by `canWrite`; `init` functions run
  before the initial state `s0` and are not calls of the machine).

  RESULTS (used by I3.Props.C16Machine / C17Machine)
  * `step_owns`, `step_effect`, `step_agree`: one disciplined step preserves ownership of the
    call's live locals, changes the shared state only inside what the call owns or may write,
    and is simulated in lock step by the same step from any state that agrees on what the call
    may read.  `run_frame`, `run_agree`: the same for whole calls; `runOps_frame`: for histories.
  * `Inv`, `inv_step`, `inv_reachable`: the interleaving invariant (disjoint ownership across
    threads + every thread agrees with a private copy in which it ran alone) holds in every
    configuration reachable under any schedule; `Inv.no_race` is race freedom.
  The interleaving semantics is sequentially consistent; race freedom under SC is what the Go
  memory model requires for SC behaviour (DRF-SC), so no weaker memory model is considered.
-/
namespace I3.Machine

/-! ## Programs and states -/

abbrev Obj := Nat

/-- How a program names an object: a caller-visible identity, or "the i-th object I acquired". -/
inductive Ref where
  | obj (o : Obj)
  | loc (i : Nat)
  deriving DecidableEq, Repr

/-- One library call: a deterministic tree of atomic actions. -/
inductive Prog (Val α : Type) where
  | ret (a : α)
  | read (r : Ref) (k : Val → Prog Val α)
  | write (r : Ref) (v : Val) (k : Prog Val α)
  | alloc (init : Val) (k : Prog Val α)
  | poolGet (k : Prog Val α)
  | poolPut (i : Nat) (k : Prog Val α)

structure State (Val : Type) where
  heap : Obj → Val
  /-- allocator: identities `≥ next` are not allocated yet -/
  next : Nat
  /-- free scratch objects -/
  pool : List Obj

variable {Val α Res : Type}

def upd (h : Obj → Val) (o : Obj) (v : Val) : Obj → Val := fun x => if x = o then v else h x

def resolve (env : List Obj) : Ref → Obj
  | .obj o => o
  | .loc i => env.getD i 0

def Prog.isRet : Prog Val α → Bool
  | .ret _ => true
  | _ => false

/-- One atomic action of a call with local environment `env` on the shared state. -/
def step : Prog Val α → List Obj → State Val → Prog Val α × List Obj × State Val
  | .ret a, env, s => (.ret a, env, s)
  | .read r k, env, s => (k (s.heap (resolve env r)), env, s)
  | .write r v k, env, s => (k, env, { s with heap := upd s.heap (resolve env r) v })
  | .alloc v k, env, s =>
      (k, env ++ [s.next], { s with heap := upd s.heap s.next v, next := s.next + 1 })
  | .poolGet k, env, s =>
      match s.pool with
      | o :: rest => (k, env ++ [o], { s with pool := rest })
      | [] => (k, env ++ [s.next], { s with next := s.next + 1 })
  | .poolPut i k, env, s => (k, env, { s with pool := env.getD i 0 :: s.pool })

/-- A whole call, run without interruption: final state and returned value. -/
def run : Prog Val α → List Obj → State Val → State Val × α
  | .ret a, _, s => (s, a)
  | .read r k, env, s => run (k (s.heap (resolve env r))) env s
  | .write r v k, env, s => run k env { s with heap := upd s.heap (resolve env r) v }
  | .alloc v k, env, s =>
      run k (env ++ [s.next]) { s with heap := upd s.heap s.next v, next := s.next + 1 }
  | .poolGet k, env, s =>
      match s.pool with
      | o :: rest => run k (env ++ [o]) { s with pool := rest }
      | [] => run k (env ++ [s.next]) { s with next := s.next + 1 }
  | .poolPut i k, env, s => run k env { s with pool := env.getD i 0 :: s.pool }

/-- `run` is the iteration of `step`. -/
theorem run_step (p : Prog Val α) (env : List Obj) (s : State Val) :
    run p env s = run (step p env s).1 (step p env s).2.1 (step p env s).2.2 := by
  cases p with
  | poolGet k => cases h : s.pool <;> simp [run, step, h]
  | _ => simp [run, step]

/-! ## The discipline -/

inductive Status where
  | fresh | heldU | heldW | released
  deriving DecidableEq, Repr

def Status.live : Status → Bool
  | .released => false
  | _ => true
def Status.readable : Status → Bool
  | .fresh => true
  | .heldW => true
  | _ => false
def Status.held : Status → Bool
  | .heldU => true
  | .heldW => true
  | _ => false
def Status.written : Status → Status
  | .heldU => .heldW
  | s => s

/-- Ghost context of a call in progress. -/
structure Ctx where
  /-- status of each local name -/
  loc : List Status
  /-- the destinations this call has already written -/
  dstW : List Obj

def Ctx.at (c : Ctx) (i : Nat) : Status := c.loc.getD i .released

section discipline
variable (G : Obj → Prop) (args : List Obj) (dst : List Obj)

def canRead (c : Ctx) : Ref → Prop
  | .obj o => o ∈ args ∨ G o ∨ (o ∈ dst ∧ o ∈ c.dstW)
  | .loc i => (c.at i).readable = true

def canWrite (c : Ctx) : Ref → Prop
  | .obj o => o ∈ dst ∧ ¬ G o
  | .loc i => (c.at i).live = true

def afterWrite (c : Ctx) : Ref → Ctx
  | .obj o => { c with dstW := o :: c.dstW }
  | .loc i => { c with loc := c.loc.set i (c.at i).written }

/-- The ghost context after the next action of `p`. -/
def ctxStep (c : Ctx) : Prog Val α → Ctx
  | .ret _ => c
  | .read _ _ => c
  | .write r _ _ => afterWrite c r
  | .alloc _ _ => { c with loc := c.loc ++ [.fresh] }
  | .poolGet _ => { c with loc := c.loc ++ [.heldU] }
  | .poolPut i _ => { c with loc := c.loc.set i .released }

/-- `Disc G args dst p c`: from ghost context `c`, every path of `p` respects the discipline. -/
def Disc : Prog Val α → Ctx → Prop
  | .ret _, c => ∀ i, (c.at i).held = false
  | .read r k, c => canRead G args dst c r ∧ ∀ v, Disc (k v) c
  | .write r _ k, c => canWrite G dst c r ∧ Disc k (afterWrite c r)
  | .alloc _ k, c => Disc k { c with loc := c.loc ++ [.fresh] }
  | .poolGet k, c => Disc k { c with loc := c.loc ++ [.heldU] }
  | .poolPut i k, c => (c.at i).held = true ∧ Disc k { c with loc := c.loc.set i .released }

/-- A call with arguments `args` and destinations `dst` respects the discipline. -/
def Disciplined (p : Prog Val α) : Prop := Disc G args dst p ⟨[], []⟩

end discipline

/-! ## Operations and sequential histories -/

/-- One call: its argument objects, its documented destinations, its code. -/
structure Op (Val Res : Type) where
  args : List Obj
  dst : List Obj
  prog : Prog Val Res

def Op.Ok (G : Obj → Prop) (op : Op Val Res) : Prop := Disciplined G op.args op.dst op.prog

/-- The caller-visible objects of a call. -/
def Op.foot (op : Op Val Res) (o : Obj) : Prop := o ∈ op.args ∨ o ∈ op.dst

def runOp (op : Op Val Res) (s : State Val) : State Val × Res := run op.prog [] s

/-- A finite call history, run sequentially: final state and the list of results. -/
def runOps : List (Op Val Res) → State Val → State Val × List Res
  | [], s => (s, [])
  | op :: ops, s => ((runOps ops (runOp op s).1).1, (runOp op s).2 :: (runOps ops (runOp op s).1).2)

/-- State well-formedness w.r.t. a set `pub` of caller-visible objects: they all exist, and the
    pool objects exist, are pairwise distinct and are not caller-visible. -/
structure WF (pub : Obj → Prop) (s : State Val) : Prop where
  pub_lt : ∀ o, pub o → o < s.next
  pool_lt : ∀ o, o ∈ s.pool → o < s.next
  pool_priv : ∀ o, o ∈ s.pool → ¬ pub o
  pool_nodup : s.pool.Nodup

theorem WF.mono {pub pub' : Obj → Prop} {s : State Val} (h : WF pub s)
    (hsub : ∀ o, pub' o → pub o) : WF pub' s :=
  ⟨fun o ho => h.pub_lt o (hsub o ho), h.pool_lt, fun o ho hp => h.pool_priv o ho (hsub o hp),
   h.pool_nodup⟩

/-! ## List helpers -/

theorem getD_push {β} (l : List β) (x d : β) (j : Nat) :
    (l ++ [x]).getD j d = if j < l.length then l.getD j d else if j = l.length then x else d := by
  simp only [List.getD_eq_getElem?_getD, List.getElem?_append]
  split
  · rfl
  · split
    · subst_vars; simp
    · rcases h : j - l.length with _ | n
      · omega
      · simp

theorem getD_set {β} (l : List β) (i j : Nat) (x d : β) :
    (l.set i x).getD j d = if j = i ∧ j < l.length then x else l.getD j d := by
  simp only [List.getD_eq_getElem?_getD, List.getElem?_set]
  grind

theorem live_lt {loc : List Status} {i : Nat} (h : (loc.getD i .released).live = true) :
    i < loc.length := by
  apply Classical.byContradiction
  intro hn
  have : loc.getD i .released = .released := by
    simp only [List.getD_eq_getElem?_getD]; rw [List.getElem?_eq_none (by omega)]; rfl
  rw [this] at h; simp [Status.live] at h

theorem Status.live_of_readable {st : Status} (h : st.readable = true) : st.live = true := by
  cases st <;> simp_all [Status.live, Status.readable]
theorem Status.live_of_held {st : Status} (h : st.held = true) : st.live = true := by
  cases st <;> simp_all [Status.live, Status.held]
@[simp] theorem Status.live_written (st : Status) : st.written.live = st.live := by
  cases st <;> rfl

/-! ## Ownership invariant of one call in progress -/

/-- The objects currently owned by a call: those named by a live (fresh or held) local. -/
def LiveSet (loc : List Status) (env : List Obj) (o : Obj) : Prop :=
  ∃ i, (loc.getD i .released).live = true ∧ env.getD i 0 = o

/-- Every live local names an existing, non-caller-visible object that is not in the free list,
    and distinct live locals name distinct objects. -/
structure Owns (pub : Obj → Prop) (loc : List Status) (env : List Obj) (s : State Val) : Prop where
  len : env.length = loc.length
  lt : ∀ i, (loc.getD i .released).live = true → env.getD i 0 < s.next
  priv : ∀ i, (loc.getD i .released).live = true → ¬ pub (env.getD i 0)
  notPool : ∀ i, (loc.getD i .released).live = true → env.getD i 0 ∉ s.pool
  inj : ∀ i j, (loc.getD i .released).live = true → (loc.getD j .released).live = true →
    env.getD i 0 = env.getD j 0 → i = j

theorem Owns.nil (pub : Obj → Prop) (s : State Val) : Owns pub [] [] s :=
  ⟨rfl, by simp [Status.live], by simp [Status.live], by simp [Status.live],
   by simp [Status.live]⟩

section steps
variable {G : Obj → Prop} {args : List Obj} {dst : List Obj} {pub : Obj → Prop}

/-- A disciplined step preserves state well-formedness, ownership and the discipline. -/
theorem step_owns {p : Prog Val α} {c : Ctx} {env : List Obj} {s : State Val}
    (hd : Disc G args dst p c) (hwf : WF pub s) (ho : Owns pub c.loc env s) :
    WF pub (step p env s).2.2 ∧ Owns pub (ctxStep c p).loc (step p env s).2.1 (step p env s).2.2 ∧
      Disc G args dst (step p env s).1 (ctxStep c p) := by
  obtain ⟨hlen, hlt, hpriv, hnp, hinj⟩ := ho
  obtain ⟨wpub, wlt, wpriv, wnd⟩ := hwf
  cases p with
  | ret a => exact ⟨⟨wpub, wlt, wpriv, wnd⟩, ⟨hlen, hlt, hpriv, hnp, hinj⟩, hd⟩
  | read r k => exact ⟨⟨wpub, wlt, wpriv, wnd⟩, ⟨hlen, hlt, hpriv, hnp, hinj⟩, hd.2 _⟩
  | write r v k =>
    refine ⟨⟨wpub, wlt, wpriv, wnd⟩, ?_, hd.2⟩
    cases r with
    | obj o => exact ⟨hlen, hlt, hpriv, hnp, hinj⟩
    | loc i =>
      have key : ∀ j, ((c.loc.set i (c.at i).written).getD j .released).live
          = (c.loc.getD j .released).live := by
        intro j; rw [getD_set]; split
        · next h => rw [h.1, Status.live_written]; rfl
        · rfl
      simp only [ctxStep, afterWrite, step]
      exact ⟨by simp [hlen], fun j h => hlt j (key j ▸ h), fun j h => hpriv j (key j ▸ h),
        fun j h => hnp j (key j ▸ h), fun j l h1 h2 => hinj j l (key j ▸ h1) (key l ▸ h2)⟩
  | alloc v k =>
    simp only [ctxStep, step]
    refine ⟨⟨fun o h => Nat.lt_succ_of_lt (wpub o h), fun o h => Nat.lt_succ_of_lt (wlt o h),
      wpriv, wnd⟩, ?_, hd⟩
    have hl : ∀ j, ((c.loc ++ [Status.fresh]).getD j .released).live = true →
        (j < c.loc.length ∧ (c.loc.getD j .released).live = true) ∨ j = c.loc.length := by
      intro j; rw [getD_push]; grind [Status.live]
    have hfr : ¬ pub s.next := fun h => Nat.lt_irrefl _ (wpub _ h)
    have hfp : s.next ∉ s.pool := fun h => Nat.lt_irrefl _ (wlt _ h)
    refine ⟨by simp [hlen], ?_, ?_, ?_, ?_⟩
    · intro j h; rw [getD_push]; rcases hl j h with h | h <;> grind
    · intro j h; rw [getD_push]; rcases hl j h with h | h <;> grind
    · intro j h; rw [getD_push]; rcases hl j h with h | h <;> grind
    · intro j l h1 h2; rw [getD_push, getD_push]
      rcases hl j h1 with h1 | h1 <;> rcases hl l h2 with h2 | h2 <;> grind
  | poolGet k =>
    simp only [ctxStep, step]
    have hl : ∀ j, ((c.loc ++ [Status.heldU]).getD j .released).live = true →
        (j < c.loc.length ∧ (c.loc.getD j .released).live = true) ∨ j = c.loc.length := by
      intro j; rw [getD_push]; grind [Status.live]
    cases hp : s.pool with
    | nil =>
      simp only []
      have hfr : ¬ pub s.next := fun h => Nat.lt_irrefl _ (wpub _ h)
      refine ⟨⟨fun o h => Nat.lt_succ_of_lt (wpub o h), by simp, by simp, by simp⟩, ?_, hd⟩
      refine ⟨by simp [hlen], ?_, ?_, ?_, ?_⟩
      · intro j h; rw [getD_push]; rcases hl j h with h | h <;> grind
      · intro j h; rw [getD_push]; rcases hl j h with h | h <;> grind
      · intro j h; simp
      · intro j l h1 h2; rw [getD_push, getD_push]
        rcases hl j h1 with h1 | h1 <;> rcases hl l h2 with h2 | h2 <;> grind
    | cons o rest =>
      simp only []
      rw [hp] at wlt wpriv wnd hnp
      have hol : o < s.next := wlt o (by simp)
      have hop : ¬ pub o := wpriv o (by simp)
      have hor : o ∉ rest := (List.nodup_cons.1 wnd).1
      refine ⟨⟨wpub, fun x h => wlt x (by simp [h]), fun x h => wpriv x (by simp [h]),
        (List.nodup_cons.1 wnd).2⟩, ?_, hd⟩
      refine ⟨by simp [hlen], ?_, ?_, ?_, ?_⟩
      · intro j h; rw [getD_push]; rcases hl j h with h | h <;> grind
      · intro j h; rw [getD_push]; rcases hl j h with h | h <;> grind
      · intro j h; rw [getD_push]; rcases hl j h with h | h
        · have := hnp j h.2; grind
        · grind
      · intro j l h1 h2; rw [getD_push, getD_push]
        rcases hl j h1 with h1 | h1 <;> rcases hl l h2 with h2 | h2
        · grind
        · have := hnp j h1.2; grind
        · have := hnp l h2.2; grind
        · grind
  | poolPut i k =>
    simp only [ctxStep, step]
    have hi : (c.loc.getD i .released).live = true := Status.live_of_held hd.1
    have hl : ∀ j, ((c.loc.set i Status.released).getD j .released).live = true →
        j ≠ i ∧ (c.loc.getD j .released).live = true := by
      intro j; rw [getD_set]; grind [Status.live]
    refine ⟨⟨wpub, ?_, ?_, ?_⟩, ?_, hd.2⟩
    · intro o h; rcases List.mem_cons.1 h with h | h
      · exact h ▸ hlt i hi
      · exact wlt o h
    · intro o h; rcases List.mem_cons.1 h with h | h
      · exact h ▸ hpriv i hi
      · exact wpriv o h
    · exact List.nodup_cons.2 ⟨hnp i hi, wnd⟩
    · refine ⟨by simp [hlen], fun j h => hlt j (hl j h).2, fun j h => hpriv j (hl j h).2, ?_,
        fun j l h1 h2 => hinj j l (hl j h1).2 (hl l h2).2⟩
      intro j h hm
      rcases List.mem_cons.1 hm with hm | hm
      · exact (hl j h).1 (hinj j i (hl j h).2 hi hm)
      · exact hnp j (hl j h).2 hm

end steps

/-! ## Effect of one step on the shared state (what every OTHER party may rely on) -/

/-- `Effect G dst L L' s s'`: a step of a call owning `L` before and `L'` after took `s` to `s'`.
    It changed the heap at most at its own objects, its destination (never a package-level
    object) and objects that did not exist before; it added only own objects to the free list;
    and whatever it newly owns came from the free list or did not exist before. -/
structure Effect (G : Obj → Prop) (dst : List Obj) (L L' : Obj → Prop) (s s' : State Val) :
    Prop where
  next_le : s.next ≤ s'.next
  heap : ∀ o, o < s.next → ¬ L o → ¬ (o ∈ dst ∧ ¬ G o) → s'.heap o = s.heap o
  pool : ∀ o, o ∈ s'.pool → o ∈ s.pool ∨ L o
  live : ∀ o, L' o → L o ∨ o ∈ s.pool ∨ s.next ≤ o

section steps
variable {G : Obj → Prop} {args : List Obj} {dst : List Obj} {pub : Obj → Prop}

theorem step_poolGet (k : Prog Val α) (env : List Obj) (s : State Val) :
    ∃ o s', step (.poolGet k) env s = (k, env ++ [o], s') ∧ s'.heap = s.heap ∧
      s.next ≤ s'.next ∧ (∀ x, x ∈ s'.pool → x ∈ s.pool) ∧ (o ∈ s.pool ∨ o = s.next) := by
  cases hp : s.pool with
  | nil =>
    exact ⟨s.next, { s with next := s.next + 1 }, by simp [step, hp], rfl, Nat.le_succ _,
      by simp [hp], .inr rfl⟩
  | cons o rest =>
    exact ⟨o, { s with pool := rest }, by simp [step, hp], rfl, Nat.le_refl _,
      by simp +contextual, .inl (by simp)⟩

theorem step_effect {p : Prog Val α} {c : Ctx} {env : List Obj} {s : State Val}
    (hd : Disc G args dst p c) (hlen : env.length = c.loc.length) :
    Effect G dst (LiveSet c.loc env) (LiveSet (ctxStep c p).loc (step p env s).2.1) s
      (step p env s).2.2 := by
  cases p with
  | ret a => exact ⟨Nat.le_refl _, fun _ _ _ _ => rfl, fun _ h => .inl h, fun _ h => .inl h⟩
  | read r k => exact ⟨Nat.le_refl _, fun _ _ _ _ => rfl, fun _ h => .inl h, fun _ h => .inl h⟩
  | write r v k =>
    cases r with
    | obj o =>
      refine ⟨Nat.le_refl _, ?_, fun _ h => .inl h, fun _ h => .inl h⟩
      intro x _ _ hx
      have : x ≠ o := fun h => hx (h ▸ hd.1)
      simp [step, resolve, upd, this]
    | loc i =>
      refine ⟨Nat.le_refl _, ?_, fun _ h => .inl h, ?_⟩
      · intro x _ hx _
        have : x ≠ env.getD i 0 := fun h => hx ⟨i, hd.1, h.symm⟩
        simp only [step, resolve, upd]; rw [if_neg this]
      · rintro x ⟨j, hj, rfl⟩
        refine .inl ⟨j, ?_, rfl⟩
        simp only [ctxStep, afterWrite] at hj
        rw [getD_set] at hj
        split at hj
        · next h => rw [h.1]; exact hd.1
        · exact hj
  | alloc v k =>
    refine ⟨Nat.le_succ _, ?_, fun _ h => .inl h, ?_⟩
    · intro x hx _ _
      have : x ≠ s.next := Nat.ne_of_lt hx
      simp [step, upd, this]
    · rintro x ⟨j, hj, rfl⟩
      simp only [ctxStep, step] at hj ⊢
      rw [getD_push] at hj ⊢
      by_cases h : j < c.loc.length
      · by_cases h' : j < env.length
        · simp only [h, h', if_true] at hj ⊢; exact .inl ⟨j, hj, rfl⟩
        · grind
      · grind [Status.live]
  | poolGet k =>
    obtain ⟨o, s', hs, hh, hn, hpl, ho⟩ := step_poolGet k env s
    rw [hs]
    refine ⟨hn, fun _ _ _ _ => by rw [hh], fun x h => .inl (hpl x h), ?_⟩
    rintro x ⟨j, hj, rfl⟩
    simp only [ctxStep] at hj ⊢
    rw [getD_push] at hj ⊢
    by_cases h : j < c.loc.length
    · by_cases h' : j < env.length
      · simp only [h, h', if_true] at hj ⊢; exact .inl ⟨j, hj, rfl⟩
      · grind
    · grind [Status.live]
  | poolPut i k =>
    refine ⟨Nat.le_refl _, fun _ _ _ _ => rfl, ?_, ?_⟩
    · intro x hx
      rcases List.mem_cons.1 hx with hx | hx
      · exact .inr ⟨i, Status.live_of_held hd.1, hx.symm⟩
      · exact .inl hx
    · rintro x ⟨j, hj, rfl⟩
      simp only [ctxStep] at hj
      rw [getD_set] at hj
      refine .inl ⟨j, ?_, rfl⟩
      split at hj
      · simp [Status.live] at hj
      · exact hj

end steps

/-! ## Two runs of the same call from states that agree on what the call may read -/

/-- The two (state, environment) pairs give the same value to every readable local, to every
    object of the agreement set `A`, and to the destination once it has been written. -/
structure Agree (A : Obj → Prop) (dst : List Obj) (c : Ctx)
    (env : List Obj) (s : State Val) (env' : List Obj) (s' : State Val) : Prop where
  loc : ∀ i, (c.at i).readable = true → s.heap (env.getD i 0) = s'.heap (env'.getD i 0)
  pub : ∀ o, A o → s.heap o = s'.heap o
  dst : ∀ d, d ∈ dst → d ∈ c.dstW → s.heap d = s'.heap d

section steps
variable {G : Obj → Prop} {args : List Obj} {dst : List Obj} {pub : Obj → Prop}
  {A : Obj → Prop}

/-- Lock-step simulation: a disciplined step taken from two agreeing configurations continues
    with the same residual program in agreeing configurations. -/
theorem step_agree {p : Prog Val α} {c : Ctx} {env env' : List Obj} {s s' : State Val}
    (hA : ∀ o, o ∈ args ∨ G o → A o) (hAp : ∀ o, A o → pub o) (hdp : ∀ d, d ∈ dst → pub d)
    (hd : Disc G args dst p c)
    (hwf : WF pub s) (ho : Owns pub c.loc env s) (hwf' : WF pub s') (ho' : Owns pub c.loc env' s')
    (ha : Agree A dst c env s env' s') :
    (step p env s).1 = (step p env' s').1 ∧
      Agree A dst (ctxStep c p) (step p env s).2.1 (step p env s).2.2
        (step p env' s').2.1 (step p env' s').2.2 := by
  obtain ⟨aloc, apub, adst⟩ := ha
  cases p with
  | ret a => exact ⟨rfl, aloc, apub, adst⟩
  | read r k =>
    refine ⟨?_, aloc, apub, adst⟩
    simp only [step]
    congr 1
    cases r with
    | obj o =>
      rcases hd.1 with h | h | h
      · exact apub o (hA o (.inl h))
      · exact apub o (hA o (.inr h))
      · exact adst o h.1 h.2
    | loc i => exact aloc i hd.1
  | write r v k =>
    refine ⟨rfl, ?_⟩
    cases r with
    | obj o =>
      have hpo : pub o := hdp o hd.1.1
      refine ⟨?_, ?_, ?_⟩
      · intro i hi
        have hl := Status.live_of_readable hi
        have h1 : env.getD i 0 ≠ o := fun h => ho.priv i hl (h ▸ hpo)
        have h2 : env'.getD i 0 ≠ o := fun h => ho'.priv i hl (h ▸ hpo)
        simp only [step, resolve, upd, if_neg h1, if_neg h2]
        exact aloc i hi
      · intro x hx
        simp only [step, resolve, upd]
        split
        · rfl
        · exact apub x hx
      · intro d hd' hw
        simp only [step, resolve, upd]
        by_cases hdo : d = o
        · simp [hdo]
        · rw [if_neg hdo, if_neg hdo]
          exact adst d hd' ((List.mem_cons.1 hw).resolve_left hdo)
    | loc i =>
      have hi : (c.loc.getD i .released).live = true := hd.1
      refine ⟨?_, ?_, ?_⟩
      · intro j hj
        simp only [step, resolve, upd]
        by_cases hji : j = i
        · subst hji; simp
        · have hjr : (c.at j).readable = true := by
            simp only [ctxStep, afterWrite, Ctx.at] at hj
            rw [getD_set, if_neg (fun h => hji h.1)] at hj
            exact hj
          have hl := Status.live_of_readable hjr
          have h1 : env.getD j 0 ≠ env.getD i 0 := fun h => hji (ho.inj j i hl hi h)
          have h2 : env'.getD j 0 ≠ env'.getD i 0 := fun h => hji (ho'.inj j i hl hi h)
          rw [if_neg h1, if_neg h2]
          exact aloc j hjr
      · intro x hx
        have h1 : x ≠ env.getD i 0 := fun h => ho.priv i hi (h ▸ hAp x hx)
        have h2 : x ≠ env'.getD i 0 := fun h => ho'.priv i hi (h ▸ hAp x hx)
        simp only [step, resolve, upd, if_neg h1, if_neg h2]
        exact apub x hx
      · intro d hd' hw
        have h1 : d ≠ env.getD i 0 := fun h => ho.priv i hi (h ▸ hdp d hd')
        have h2 : d ≠ env'.getD i 0 := fun h => ho'.priv i hi (h ▸ hdp d hd')
        simp only [step, resolve, upd, if_neg h1, if_neg h2]
        exact adst d hd' hw
  | alloc v k =>
    refine ⟨rfl, ?_, ?_, ?_⟩
    · intro j hj
      simp only [ctxStep, Ctx.at] at hj
      simp only [step, upd]
      rw [getD_push] at hj
      rw [getD_push, getD_push, ho.len, ho'.len]
      by_cases h : j < c.loc.length
      · simp only [h, if_true] at hj ⊢
        have hl := Status.live_of_readable hj
        rw [if_neg (Nat.ne_of_lt (ho.lt j hl)), if_neg (Nat.ne_of_lt (ho'.lt j hl))]
        exact aloc j hj
      · by_cases h2 : j = c.loc.length
        · simp [h2]
        · simp [h, h2, Status.readable] at hj
    · intro x hx
      have h1 : x ≠ s.next := Nat.ne_of_lt (hwf.pub_lt x (hAp x hx))
      have h2 : x ≠ s'.next := Nat.ne_of_lt (hwf'.pub_lt x (hAp x hx))
      simp only [step, upd, if_neg h1, if_neg h2]
      exact apub x hx
    · intro d hd' hw
      have h1 : d ≠ s.next := Nat.ne_of_lt (hwf.pub_lt d (hdp d hd'))
      have h2 : d ≠ s'.next := Nat.ne_of_lt (hwf'.pub_lt d (hdp d hd'))
      simp only [step, upd, if_neg h1, if_neg h2]
      exact adst d hd' hw
  | poolGet k =>
    obtain ⟨o, t, hs, hh, -, -, -⟩ := step_poolGet k env s
    obtain ⟨o', t', hs', hh', -, -, -⟩ := step_poolGet k env' s'
    rw [hs, hs']
    refine ⟨rfl, ?_, fun x hx => by simp only [hh, hh']; exact apub x hx,
      fun d hd' hw => by simp only [hh, hh']; exact adst d hd' hw⟩
    intro j hj
    simp only [ctxStep, Ctx.at] at hj
    simp only [hh, hh']
    rw [getD_push] at hj
    rw [getD_push, getD_push, ho.len, ho'.len]
    by_cases h : j < c.loc.length
    · simp only [h, if_true] at hj ⊢
      exact aloc j hj
    · by_cases h2 : j = c.loc.length
      · simp [h2, Status.readable] at hj
      · simp [h, h2, Status.readable] at hj
  | poolPut i k =>
    refine ⟨rfl, ?_, apub, adst⟩
    intro j hj
    simp only [ctxStep, Ctx.at] at hj
    rw [getD_set] at hj
    split at hj
    · simp [Status.readable] at hj
    · exact aloc j hj

end steps

/-! ## Whole calls -/

/-- Induction along the execution of a call. -/
theorem run_ind {motive : Prog Val α → List Obj → State Val → Prop}
    (hret : ∀ a env s, motive (.ret a) env s)
    (hstep : ∀ p env s, p.isRet = false →
      motive (step p env s).1 (step p env s).2.1 (step p env s).2.2 → motive p env s) :
    ∀ p env s, motive p env s := by
  intro p
  induction p with
  | ret a => exact hret a
  | read r k ih => exact fun env s => hstep _ env s rfl (ih _ _ _)
  | write r v k ih => exact fun env s => hstep _ env s rfl (ih _ _)
  | alloc v k ih => exact fun env s => hstep _ env s rfl (ih _ _)
  | poolGet k ih =>
    intro env s
    apply hstep _ env s rfl
    obtain ⟨o, s', hs, -⟩ := step_poolGet k env s
    rw [hs]; exact ih _ _
  | poolPut i k ih => exact fun env s => hstep _ env s rfl (ih _ _)

section calls
variable {G : Obj → Prop} {args : List Obj} {dst : List Obj} {pub : Obj → Prop}
  {A : Obj → Prop}

/-- FRAME for one call: well-formedness is preserved and every caller-visible object other than
    the (non-package-level) destination keeps its value. -/
theorem run_frame (p : Prog Val α) (env : List Obj) (s : State Val) :
    ∀ c, Disc G args dst p c → WF pub s → Owns pub c.loc env s →
      WF pub (run p env s).1 ∧
      ∀ o, pub o → ¬ (o ∈ dst ∧ ¬ G o) → (run p env s).1.heap o = s.heap o := by
  refine run_ind (motive := fun p env s => ∀ c, Disc G args dst p c → WF pub s →
      Owns pub c.loc env s → WF pub (run p env s).1 ∧
      ∀ o, pub o → ¬ (o ∈ dst ∧ ¬ G o) → (run p env s).1.heap o = s.heap o) ?_ ?_ p env s
  · intro a env s c _ hwf _
    exact ⟨hwf, fun _ _ _ => rfl⟩
  · intro p env s _ ih c hd hwf ho
    obtain ⟨hwf1, ho1, hd1⟩ := step_owns hd hwf ho
    have eff := step_effect (env := env) (s := s) hd ho.len
    obtain ⟨hw, hf⟩ := ih _ hd1 hwf1 ho1
    rw [run_step]
    refine ⟨hw, fun o hpo hnd => ?_⟩
    rw [hf o hpo hnd]
    refine eff.heap o (hwf.pub_lt o hpo) ?_ hnd
    rintro ⟨i, hi, rfl⟩
    exact ho.priv i hi hpo

/-- FOOTPRINT for one call: run from two configurations that agree on what the call may read,
    it returns the same value, and the final states still agree on the agreement set. -/
theorem run_agree (hA : ∀ o, o ∈ args ∨ G o → A o) (hAp : ∀ o, A o → pub o)
    (hdp : ∀ d, d ∈ dst → pub d) (p : Prog Val α) (env : List Obj) (s : State Val) :
    ∀ c env' s', Disc G args dst p c → WF pub s → Owns pub c.loc env s → WF pub s' →
      Owns pub c.loc env' s' → Agree A dst c env s env' s' →
      (run p env s).2 = (run p env' s').2 ∧
      ∀ o, A o → (run p env s).1.heap o = (run p env' s').1.heap o := by
  refine run_ind (motive := fun p env s => ∀ c env' s', Disc G args dst p c → WF pub s →
      Owns pub c.loc env s → WF pub s' → Owns pub c.loc env' s' → Agree A dst c env s env' s' →
      (run p env s).2 = (run p env' s').2 ∧
      ∀ o, A o → (run p env s).1.heap o = (run p env' s').1.heap o) ?_ ?_ p env s
  · intro a env s c env' s' _ _ _ _ _ ha
    exact ⟨rfl, ha.pub⟩
  · intro p env s _ ih c env' s' hd hwf ho hwf' ho' ha
    obtain ⟨hwf1, ho1, hd1⟩ := step_owns hd hwf ho
    obtain ⟨hwf1', ho1', -⟩ := step_owns hd hwf' ho'
    obtain ⟨hp, ha1⟩ := step_agree hA hAp hdp hd hwf ho hwf' ho' ha
    rw [run_step p env s, run_step p env' s', ← hp]
    exact ih _ _ _ hd1 hwf1 ho1 hwf1' ho1' ha1

end calls

/-! ## Histories -/

/-- The objects a list of calls makes caller-visible, together with the package-level ones. -/
def Visible (G : Obj → Prop) (ops : List (Op Val Res)) (o : Obj) : Prop :=
  G o ∨ ∃ op, op ∈ ops ∧ op.foot o

/-- Hypotheses on a call history w.r.t. a set `pub` of caller-visible objects: the package-level
    objects and all arguments/destinations are caller-visible, and every call is disciplined. -/
structure HistOk (G pub : Obj → Prop) (ops : List (Op Val Res)) : Prop where
  glob : ∀ g, G g → pub g
  vis : ∀ op, op ∈ ops → ∀ o, op.foot o → pub o
  ok : ∀ op, op ∈ ops → op.Ok G

theorem HistOk.sub {G pub : Obj → Prop} {ops ops' : List (Op Val Res)} (h : HistOk G pub ops)
    (hs : ∀ op, op ∈ ops' → op ∈ ops) : HistOk G pub ops' :=
  ⟨h.glob, fun op ho => h.vis op (hs op ho), fun op ho => h.ok op (hs op ho)⟩

theorem histOk_visible {G : Obj → Prop} {ops : List (Op Val Res)} (h : ∀ op, op ∈ ops → op.Ok G) :
    HistOk G (Visible G ops) ops :=
  ⟨fun _ hg => .inl hg, fun op ho _ hf => .inr ⟨op, ho, hf⟩, h⟩

theorem runOps_append (xs ys : List (Op Val Res)) (s : State Val) :
    runOps (xs ++ ys) s =
      ((runOps ys (runOps xs s).1).1, (runOps xs s).2 ++ (runOps ys (runOps xs s).1).2) := by
  induction xs generalizing s with
  | nil => rfl
  | cons x xs ih => simp [runOps, ih]

theorem runOps_length (ops : List (Op Val Res)) (s : State Val) :
    (runOps ops s).2.length = ops.length := by
  induction ops generalizing s with
  | nil => rfl
  | cons x xs ih => simp [runOps, ih]

section histories
variable {G pub : Obj → Prop}

theorem runOp_frame {op : Op Val Res} (hok : op.Ok G) {s : State Val} (hwf : WF pub s) :
    WF pub (runOp op s).1 ∧
      ∀ o, pub o → ¬ (o ∈ op.dst ∧ ¬ G o) → (runOp op s).1.heap o = s.heap o :=
  run_frame op.prog [] s ⟨[], []⟩ hok hwf (Owns.nil pub s)

/-- FRAME for a history. -/
theorem runOps_frame {ops : List (Op Val Res)} (hok : ∀ op, op ∈ ops → op.Ok G) {s : State Val}
    (hwf : WF pub s) :
    WF pub (runOps ops s).1 ∧
      ∀ o, pub o → (∀ op, op ∈ ops → ¬ (o ∈ op.dst ∧ ¬ G o)) →
        (runOps ops s).1.heap o = s.heap o := by
  induction ops generalizing s with
  | nil => exact ⟨hwf, fun _ _ _ => rfl⟩
  | cons x xs ih =>
    obtain ⟨hw1, hf1⟩ := runOp_frame (hok x (by simp)) hwf
    obtain ⟨hw2, hf2⟩ := ih (fun op h => hok op (by simp [h])) hw1
    refine ⟨hw2, fun o hp hn => ?_⟩
    show (runOps xs (runOp x s).1).1.heap o = s.heap o
    rw [hf2 o hp (fun op h => hn op (by simp [h])), hf1 o hp (hn x (by simp))]

/-- FOOTPRINT for one call, from the empty local environment; the two states may be well-formed
    w.r.t. different sets of caller-visible objects. -/
theorem runOp_agree {pub' : Obj → Prop} {op : Op Val Res} (hok : op.Ok G)
    (hg : ∀ g, G g → pub g) (hv : ∀ o, op.foot o → pub o)
    (hg' : ∀ g, G g → pub' g) (hv' : ∀ o, op.foot o → pub' o)
    {s s' : State Val} (hwf : WF pub s) (hwf' : WF pub' s')
    (hag : ∀ o, o ∈ op.args ∨ G o → s.heap o = s'.heap o) :
    (runOp op s).2 = (runOp op s').2 := by
  let P : Obj → Prop := fun o => pub o ∧ pub' o
  have h := run_agree (G := G) (args := op.args) (dst := op.dst) (pub := P)
    (A := fun o => o ∈ op.args ∨ G o) (fun _ h => h)
    (fun o h => h.elim (fun h => ⟨hv o (.inl h), hv' o (.inl h)⟩) (fun h => ⟨hg o h, hg' o h⟩))
    (fun d h => ⟨hv d (.inr h), hv' d (.inr h)⟩) op.prog [] s ⟨[], []⟩ [] s' hok
    (hwf.mono fun _ h => h.1) (Owns.nil P s) (hwf'.mono fun _ h => h.2) (Owns.nil P s')
    ⟨fun i h => by simp [Ctx.at, Status.readable] at h, hag, fun d _ h => by simp at h⟩
  exact h.1

end histories

/-! ## Threads and interleavings

Any number of threads (indexed by `Nat`; all but those with a non-empty call list are idle), each
with its own list of calls, share one `State` (heap, allocator, pool).  A scheduler — an arbitrary
`List Nat` of thread indices — picks the thread that performs its next ATOMIC step: one action
(`read`/`write` of one object; `alloc`; `poolGet`; `poolPut`), the start of its next call, or the
return of the current call.  MODELLING ASSUMPTION: `alloc`, `poolGet`, `poolPut` are atomic (the Go
allocator and `sync.Pool` are goroutine-safe and never hand the same live object to two
goroutines); reads/writes of a single object are the unit of interleaving, and a data race is a
reachable configuration in which two threads are both about to access the same object, at least
one of them writing (the standard "conflicting accesses simultaneously enabled" definition, which
correctly treats the hand-over of a pool object from one thread to another as synchronised). -/

def Prog.retVal? : Prog Val α → Option α
  | .ret a => some a
  | _ => none

theorem Prog.eq_ret {p : Prog Val α} {a : α} (h : p.retVal? = some a) : p = .ret a := by
  cases p <;> simp_all [Prog.retVal?]

/-- The object the next action accesses, and whether it writes it. -/
def Prog.access (env : List Obj) : Prog Val α → Option (Obj × Bool)
  | .read r _ => some (resolve env r, false)
  | .write r _ _ => some (resolve env r, true)
  | _ => none

structure Thread (Val Res : Type) where
  /-- call in progress: its descriptor, residual program and local environment -/
  cur : Option (Op Val Res × Prog Val Res × List Obj)
  /-- calls not yet started -/
  todo : List (Op Val Res)
  /-- results returned so far -/
  done : List Res

def Thread.env (th : Thread Val Res) : List Obj :=
  match th.cur with
  | some (_, _, env) => env
  | none => []

def Thread.dst (th : Thread Val Res) : List Obj :=
  match th.cur with
  | some (op, _, _) => op.dst
  | none => []

def Thread.access (th : Thread Val Res) : Option (Obj × Bool) :=
  match th.cur with
  | some (_, p, env) => p.access env
  | none => none

def Thread.finished (th : Thread Val Res) : Prop := th.cur = none ∧ th.todo = []

structure Config (Val Res : Type) where
  shared : State Val
  threads : Nat → Thread Val Res

def setT {β : Type} (f : Nat → β) (t : Nat) (x : β) : Nat → β := fun u => if u = t then x else f u

def Config.init (ops : Nat → List (Op Val Res)) (s0 : State Val) : Config Val Res :=
  ⟨s0, fun t => ⟨none, ops t, []⟩⟩

/-- Thread `t` performs its next atomic step (nothing if it has finished). -/
def stepThread (t : Nat) (cfg : Config Val Res) : Config Val Res :=
  match (cfg.threads t).cur with
  | none =>
    match (cfg.threads t).todo with
    | [] => cfg
    | op :: rest =>
      ⟨cfg.shared, setT cfg.threads t ⟨some (op, op.prog, []), rest, (cfg.threads t).done⟩⟩
  | some (op, p, env) =>
    match p.retVal? with
    | some a =>
      ⟨cfg.shared, setT cfg.threads t ⟨none, (cfg.threads t).todo, (cfg.threads t).done ++ [a]⟩⟩
    | none =>
      ⟨(step p env cfg.shared).2.2,
       setT cfg.threads t ⟨some (op, (step p env cfg.shared).1, (step p env cfg.shared).2.1),
         (cfg.threads t).todo, (cfg.threads t).done⟩⟩

/-- Run a schedule. -/
def exec (sched : List Nat) (cfg : Config Val Res) : Config Val Res :=
  sched.foldl (fun c t => stepThread t c) cfg

/-- Two different threads are about to access the same object, at least one of them writing. -/
def Race (cfg : Config Val Res) : Prop :=
  ∃ t u o w w', t ≠ u ∧ (cfg.threads t).access = some (o, w) ∧
    (cfg.threads u).access = some (o, w') ∧ (w = true ∨ w' = true)

/-- Hypotheses on the threads: per thread, the hypotheses of a sequential history; across
    threads, a destination of a call of one thread is neither an argument nor a destination of a
    call of another thread (independent inputs, or shared inputs that are only read). -/
structure ThreadsOk (G pub : Obj → Prop) (ops : Nat → List (Op Val Res)) : Prop where
  hist : ∀ t, HistOk G pub (ops t)
  indep : ∀ t u, t ≠ u → ∀ a, a ∈ ops t → ∀ b, b ∈ ops u → ∀ d, d ∈ a.dst → ¬ b.foot d

/-! ## The interleaving invariant -/

/-- Ghost data of a thread: the discipline context of its call in progress, and a PRIVATE copy
    (environment and state) in which the thread has executed exactly its own steps alone. -/
structure Ghost (Val : Type) where
  c : Ctx
  env' : List Obj
  σ : State Val

/-- The results still to come when the thread is continued alone from its private copy. -/
def Thread.rest (th : Thread Val Res) (env' : List Obj) (σ : State Val) : List Res :=
  match th.cur with
  | none => (runOps th.todo σ).2
  | some (_, p, _) => (run p env' σ).2 :: (runOps th.todo (run p env' σ).1).2

/-- The final state reached when the thread is continued alone from its private copy. -/
def Thread.restState (th : Thread Val Res) (env' : List Obj) (σ : State Val) : State Val :=
  match th.cur with
  | none => (runOps th.todo σ).1
  | some (_, p, _) => (runOps th.todo (run p env' σ).1).1

/-- Per-thread invariant: the thread owns its live locals in the shared state and in its private
    copy, the two agree on everything the thread may read, and results so far followed by the
    results of continuing alone are the results of running the thread's calls alone from `s0`. -/
structure ThreadInv (G pub : Obj → Prop) (opsT : List (Op Val Res)) (s0 sh : State Val)
    (th : Thread Val Res) (g : Ghost Val) : Prop where
  todo_sub : ∀ op, op ∈ th.todo → op ∈ opsT
  wfσ : WF pub g.σ
  res : th.done ++ th.rest g.env' g.σ = (runOps opsT s0).2
  fin : th.restState g.env' g.σ = (runOps opsT s0).1
  own : Owns pub g.c.loc th.env sh
  own' : Owns pub g.c.loc g.env' g.σ
  agree : Agree (Visible G opsT) th.dst g.c th.env sh g.env' g.σ
  cur : ∀ op p env, th.cur = some (op, p, env) → op ∈ opsT ∧ Disc G op.args op.dst p g.c

/-- Global invariant: shared state well-formed, globals untouched, every thread invariant, and
    the sets of objects owned by different threads are disjoint. -/
structure Inv (G pub : Obj → Prop) (ops : Nat → List (Op Val Res)) (s0 : State Val)
    (cfg : Config Val Res) (gh : Nat → Ghost Val) : Prop where
  wf : WF pub cfg.shared
  glob : ∀ g, G g → cfg.shared.heap g = s0.heap g
  thr : ∀ t, ThreadInv G pub (ops t) s0 cfg.shared (cfg.threads t) (gh t)
  disj : ∀ t u, t ≠ u → ∀ o, LiveSet (gh t).c.loc (cfg.threads t).env o →
    ¬ LiveSet (gh u).c.loc (cfg.threads u).env o

theorem LiveSet_nil (env : List Obj) (o : Obj) : ¬ LiveSet [] env o := by
  rintro ⟨i, h, -⟩; simp [Status.live] at h

theorem Agree.nil {A : Obj → Prop} {s s' : State Val} (dst : List Obj)
    (h : ∀ o, A o → s.heap o = s'.heap o) : Agree A dst ⟨[], []⟩ [] s [] s' :=
  ⟨fun i hi => by simp [Ctx.at, Status.readable] at hi, h, fun d _ hw => by simp at hw⟩

section interleaving
variable {G pub : Obj → Prop} {ops : Nat → List (Op Val Res)} {s0 : State Val}

theorem inv_init (hwf : WF pub s0) : Inv G pub ops s0 (Config.init ops s0)
    (fun _ => ⟨⟨[], []⟩, [], s0⟩) where
  wf := hwf
  glob := fun _ _ => rfl
  thr := fun t =>
    { todo_sub := fun _ h => h
      wfσ := hwf
      res := by simp [Config.init, Thread.rest]
      fin := by simp [Config.init, Thread.restState]
      own := Owns.nil pub s0
      own' := Owns.nil pub s0
      agree := Agree.nil _ (fun _ _ => rfl)
      cur := by intro op p env h; simp [Config.init] at h }
  disj := fun _ _ _ o h => (LiveSet_nil _ o h).elim

/-- A step of ANOTHER party with effect `Effect G dstT L L'` preserves a thread's invariant. -/
theorem ThreadInv.other {opsT : List (Op Val Res)} {sh sh' : State Val} {th : Thread Val Res}
    {g : Ghost Val} {dstT : List Obj} {L L' : Obj → Prop}
    (hti : ThreadInv G pub opsT s0 sh th g) (hwf : WF pub sh)
    (hvis : ∀ o, Visible G opsT o → pub o) (eff : Effect G dstT L L' sh sh')
    (hLpriv : ∀ o, L o → ¬ pub o) (hdisj : ∀ o, L o → ¬ LiveSet g.c.loc th.env o)
    (hdpub : ∀ d, d ∈ dstT → pub d)
    (hdind : ∀ d, d ∈ dstT → ¬ G d → ¬ Visible G opsT d) :
    ThreadInv G pub opsT s0 sh' th g := by
  have hpubU : ∀ o, Visible G opsT o → sh'.heap o = sh.heap o := fun o ho =>
    eff.heap o (hwf.pub_lt o (hvis o ho)) (fun hl => hLpriv o hl (hvis o ho))
      (fun h => hdind o h.1 h.2 ho)
  have hdv : ∀ d, d ∈ th.dst → Visible G opsT d := by
    intro d hd
    unfold Thread.dst at hd
    split at hd
    · next op p env hc => exact .inr ⟨op, (hti.cur op p env hc).1, .inr hd⟩
    · simp at hd
  refine { hti with own := ?_, agree := ?_ }
  · exact ⟨hti.own.len, fun i h => Nat.lt_of_lt_of_le (hti.own.lt i h) eff.next_le, hti.own.priv,
      fun i h hm => (eff.pool _ hm).elim (hti.own.notPool i h) (fun hl => hdisj _ hl ⟨i, h, rfl⟩),
      hti.own.inj⟩
  · refine ⟨fun i hi => ?_, fun o ho => ?_, fun d hd hw => ?_⟩
    · have hl := Status.live_of_readable hi
      rw [← hti.agree.loc i hi]
      exact eff.heap _ (hti.own.lt i hl) (fun h => hdisj _ h ⟨i, hl, rfl⟩)
        (fun h => hti.own.priv i hl (hdpub _ h.1))
    · rw [hpubU o ho]; exact hti.agree.pub o ho
    · rw [hpubU d (hdv d hd)]; exact hti.agree.dst d hd hw

@[simp] theorem setT_same {β : Type} (f : Nat → β) (t : Nat) (x : β) : setT f t x t = x := by
  simp [setT]
theorem setT_other {β : Type} (f : Nat → β) {t u : Nat} (x : β) (h : u ≠ t) :
    setT f t x u = f u := by simp [setT, h]

/-- Re-establishing the global invariant after thread `t` moved. -/
theorem Inv.update {cfg : Config Val Res} {gh : Nat → Ghost Val}
    (t : Nat) (sh' : State Val) (th' : Thread Val Res) (g' : Ghost Val)
    (hwf : WF pub sh') (hglob : ∀ g, G g → sh'.heap g = s0.heap g)
    (ht : ThreadInv G pub (ops t) s0 sh' th' g')
    (hothers : ∀ u, u ≠ t → ThreadInv G pub (ops u) s0 sh' (cfg.threads u) (gh u))
    (hdisjT : ∀ u, u ≠ t → ∀ o, LiveSet g'.c.loc th'.env o →
      ¬ LiveSet (gh u).c.loc (cfg.threads u).env o)
    (hdisj : ∀ u v, u ≠ t → v ≠ t → u ≠ v → ∀ o, LiveSet (gh u).c.loc (cfg.threads u).env o →
      ¬ LiveSet (gh v).c.loc (cfg.threads v).env o) :
    Inv G pub ops s0 ⟨sh', setT cfg.threads t th'⟩ (setT gh t g') where
  wf := hwf
  glob := hglob
  thr := by
    intro u
    by_cases hu : u = t
    · subst hu; simpa using ht
    · simpa [setT_other _ _ hu] using hothers u hu
  disj := by
    intro u v huv o
    by_cases hu : u = t
    · subst hu
      have hv : v ≠ u := fun h => huv h.symm
      simpa [setT_other _ _ hv] using hdisjT v hv o
    · by_cases hv : v = t
      · subst hv
        simp only [setT_same, setT_other _ _ hu]
        exact fun h1 h2 => hdisjT u hu o h2 h1
      · simpa [setT_other _ _ hu, setT_other _ _ hv] using hdisj u v hu hv huv o

end interleaving

section interleaving
variable {G pub : Obj → Prop} {ops : Nat → List (Op Val Res)} {s0 : State Val}

theorem ThreadsOk.vis_pub (hok : ThreadsOk G pub ops) (u : Nat) (o : Obj)
    (h : Visible G (ops u) o) : pub o :=
  h.elim ((hok.hist u).glob o) (fun ⟨op, ho, hf⟩ => (hok.hist u).vis op ho o hf)

/-- The invariant is preserved by every atomic step of every thread. -/
theorem inv_step (hok : ThreadsOk G pub ops) {cfg : Config Val Res} {gh : Nat → Ghost Val}
    (hinv : Inv G pub ops s0 cfg gh) (t : Nat) :
    ∃ gh', Inv G pub ops s0 (stepThread t cfg) gh' := by
  have hT := hinv.thr t
  rcases hc : (cfg.threads t).cur with _ | ⟨op, p, env⟩
  · -- between two calls
    rcases htd : (cfg.threads t).todo with _ | ⟨op, rest⟩
    · exact ⟨gh, by simpa [stepThread, hc, htd] using hinv⟩
    · -- start of the next call
      refine ⟨setT gh t ⟨⟨[], []⟩, [], (gh t).σ⟩, ?_⟩
      simp only [stepThread, hc, htd]
      refine Inv.update t cfg.shared _ _ hinv.wf hinv.glob ?_ (fun u _ => hinv.thr u)
        (fun u _ o h => (LiveSet_nil _ o h).elim) (fun u v _ _ huv => hinv.disj u v huv)
      have hop : op ∈ ops t := hT.todo_sub op (by simp [htd])
      refine
        { todo_sub := fun q hq => hT.todo_sub q (by simp [htd, hq])
          wfσ := hT.wfσ
          res := ?_
          fin := ?_
          own := Owns.nil pub _
          own' := Owns.nil pub _
          agree := Agree.nil _ hT.agree.pub
          cur := ?_ }
      · have := hT.res
        simpa [Thread.rest, hc, htd, runOps, runOp] using this
      · have := hT.fin
        simpa [Thread.restState, hc, htd, runOps, runOp] using this
      · intro op' p' env' h
        simp only [Option.some.injEq, Prod.mk.injEq] at h
        obtain ⟨rfl, rfl, rfl⟩ := h
        exact ⟨hop, (hok.hist t).ok _ hop⟩
  · rcases hr : p.retVal? with _ | a
    · -- one action of the call in progress
      obtain ⟨hop, hd⟩ := hT.cur op p env hc
      have henv : (cfg.threads t).env = env := by simp [Thread.env, hc]
      have hdst : (cfg.threads t).dst = op.dst := by simp [Thread.dst, hc]
      have ho := hT.own; rw [henv] at ho
      have hag := hT.agree; rw [henv, hdst] at hag
      have hdp : ∀ d, d ∈ op.dst → pub d := fun d h => (hok.hist t).vis op hop d (.inr h)
      obtain ⟨wf1, own1, disc1⟩ := step_owns hd hinv.wf ho
      obtain ⟨wfσ1, own1', -⟩ := step_owns hd hT.wfσ hT.own'
      obtain ⟨hp, ag1⟩ := step_agree (A := Visible G (ops t))
        (fun o h => h.elim (fun h => .inr ⟨op, hop, .inl h⟩) .inl) (hok.vis_pub t) hdp hd
        hinv.wf ho hT.wfσ hT.own' hag
      have eff := step_effect (env := env) (s := cfg.shared) hd ho.len
      have hLpriv : ∀ o, LiveSet (gh t).c.loc env o → ¬ pub o := by
        rintro o ⟨i, hi, rfl⟩; exact ho.priv i hi
      refine ⟨setT gh t ⟨ctxStep (gh t).c p, (step p (gh t).env' (gh t).σ).2.1,
        (step p (gh t).env' (gh t).σ).2.2⟩, ?_⟩
      simp only [stepThread, hc, hr]
      refine Inv.update t _ _ _ wf1 ?_ ?_ ?_ ?_ (fun u v _ _ huv => hinv.disj u v huv)
      · intro g hg
        rw [← hinv.glob g hg]
        exact eff.heap g (hinv.wf.pub_lt g ((hok.hist t).glob g hg))
          (fun h => hLpriv g h ((hok.hist t).glob g hg)) (fun h => h.2 hg)
      · refine
          { todo_sub := hT.todo_sub
            wfσ := wfσ1
            res := ?_
            fin := ?_
            own := own1
            own' := own1'
            agree := ag1
            cur := ?_ }
        · have := hT.res
          simp only [Thread.rest, hc] at this ⊢
          rw [run_step p] at this
          rw [hp]; exact this
        · have := hT.fin
          simp only [Thread.restState, hc] at this ⊢
          rw [run_step p] at this
          rw [hp]; exact this
        · intro op' p' env' h
          simp only [Option.some.injEq, Prod.mk.injEq] at h
          obtain ⟨rfl, rfl, rfl⟩ := h
          exact ⟨hop, disc1⟩
      · intro u hu
        refine (hinv.thr u).other hinv.wf (hok.vis_pub u) eff hLpriv ?_ hdp ?_
        · intro o hl
          have := hinv.disj t u (fun h => hu h.symm) o
          rw [henv] at this
          exact this hl
        · rintro d hd' hng (hg | ⟨b, hb, hf⟩)
          · exact hng hg
          · exact hok.indep t u (fun h => hu h.symm) op hop b hb d hd' hf
      · rintro u hu o hl' ⟨j, hj, rfl⟩
        have hu' := (hinv.thr u).own
        rcases eff.live _ hl' with h | h | h
        · have := hinv.disj t u (fun h => hu h.symm) ((cfg.threads u).env.getD j 0)
          rw [henv] at this
          exact this h ⟨j, hj, rfl⟩
        · exact hu'.notPool j hj h
        · exact Nat.lt_irrefl _ (Nat.lt_of_lt_of_le (hu'.lt j hj) h)
    · -- return of the call in progress
      have hpa := Prog.eq_ret hr
      subst hpa
      refine ⟨setT gh t ⟨⟨[], []⟩, [], (gh t).σ⟩, ?_⟩
      simp only [stepThread, hc, Prog.retVal?]
      refine Inv.update t cfg.shared _ _ hinv.wf hinv.glob ?_ (fun u _ => hinv.thr u)
        (fun u _ o h => (LiveSet_nil _ o h).elim) (fun u v _ _ huv => hinv.disj u v huv)
      refine
        { todo_sub := hT.todo_sub
          wfσ := hT.wfσ
          res := ?_
          fin := ?_
          own := Owns.nil pub _
          own' := Owns.nil pub _
          agree := Agree.nil _ hT.agree.pub
          cur := by intro op' p' env' h; simp at h }
      · have := hT.res
        simpa [Thread.rest, hc, run] using this
      · have := hT.fin
        simpa [Thread.restState, hc, run] using this

/-- The invariant holds in every configuration reachable under any schedule. -/
theorem inv_exec (hok : ThreadsOk G pub ops) (sched : List Nat) :
    ∀ {cfg : Config Val Res} {gh : Nat → Ghost Val}, Inv G pub ops s0 cfg gh →
      ∃ gh', Inv G pub ops s0 (exec sched cfg) gh' := by
  induction sched with
  | nil => exact fun h => ⟨_, h⟩
  | cons t sched ih =>
    intro cfg gh h
    obtain ⟨gh1, h1⟩ := inv_step hok h t
    exact ih h1

theorem inv_reachable (hok : ThreadsOk G pub ops) (hwf : WF pub s0) (sched : List Nat) :
    ∃ gh, Inv G pub ops s0 (exec sched (Config.init ops s0)) gh :=
  inv_exec hok sched (inv_init hwf)

end interleaving

/-! ## Consequences of the invariant -/
section consequences
variable {G pub : Obj → Prop} {ops : Nat → List (Op Val Res)} {s0 : State Val}

/-- What a thread's next access can be: an object it owns, or a caller-visible object of its
    own calls — and if it writes a caller-visible object, that is a non-global destination. -/
theorem ThreadInv.access_cases {opsT : List (Op Val Res)} {sh : State Val} {th : Thread Val Res}
    {g : Ghost Val} (hti : ThreadInv G pub opsT s0 sh th g) {o : Obj} {w : Bool}
    (h : th.access = some (o, w)) :
    LiveSet g.c.loc th.env o ∨
      (Visible G opsT o ∧ (w = true → ¬ G o ∧ ∃ op, op ∈ opsT ∧ o ∈ op.dst)) := by
  unfold Thread.access at h
  split at h
  · next op p env hc =>
    obtain ⟨hop, hd⟩ := hti.cur op p env hc
    have henv : th.env = env := by simp [Thread.env, hc]
    rw [henv]
    cases p with
    | read r k =>
      simp only [Prog.access, Option.some.injEq, Prod.mk.injEq] at h
      obtain ⟨rfl, rfl⟩ := h
      cases r with
      | obj x =>
        refine .inr ⟨?_, by simp⟩
        rcases hd.1 with h | h | h
        · exact .inr ⟨op, hop, .inl h⟩
        · exact .inl h
        · exact .inr ⟨op, hop, .inr h.1⟩
      | loc i => exact .inl ⟨i, Status.live_of_readable hd.1, rfl⟩
    | write r v k =>
      simp only [Prog.access, Option.some.injEq, Prod.mk.injEq] at h
      obtain ⟨rfl, rfl⟩ := h
      cases r with
      | obj x => exact .inr ⟨.inr ⟨op, hop, .inr hd.1.1⟩, fun _ => ⟨hd.1.2, op, hop, hd.1.1⟩⟩
      | loc i => exact .inl ⟨i, hd.1, rfl⟩
    | ret a => simp [Prog.access] at h
    | alloc v k => simp [Prog.access] at h
    | poolGet k => simp [Prog.access] at h
    | poolPut i k => simp [Prog.access] at h
  · simp at h

theorem Inv.no_conflict (hok : ThreadsOk G pub ops) {cfg : Config Val Res} {gh : Nat → Ghost Val}
    (hinv : Inv G pub ops s0 cfg gh) {t u : Nat} (htu : t ≠ u) {o : Obj} {w' : Bool}
    (ht : (cfg.threads t).access = some (o, true)) (hu : (cfg.threads u).access = some (o, w')) :
    False := by
  rcases (hinv.thr t).access_cases ht with hlt | ⟨hvt, hwt⟩
  · rcases (hinv.thr u).access_cases hu with hlu | ⟨hvu, -⟩
    · exact hinv.disj t u htu o hlt hlu
    · obtain ⟨i, hi, rfl⟩ := hlt
      exact (hinv.thr t).own.priv i hi (hok.vis_pub u _ hvu)
  · obtain ⟨hng, a, ha, had⟩ := hwt rfl
    rcases (hinv.thr u).access_cases hu with hlu | ⟨hvu, -⟩
    · obtain ⟨i, hi, rfl⟩ := hlu
      exact (hinv.thr u).own.priv i hi (hok.vis_pub t _ hvt)
    · rcases hvu with hg | ⟨b, hb, hf⟩
      · exact hng hg
      · exact hok.indep t u htu a ha b hb o had hf

theorem Inv.no_race (hok : ThreadsOk G pub ops) {cfg : Config Val Res} {gh : Nat → Ghost Val}
    (hinv : Inv G pub ops s0 cfg gh) : ¬ Race cfg := by
  rintro ⟨t, u, o, w, w', htu, ht, hu, hw | hw⟩
  · subst hw; exact hinv.no_conflict hok htu ht hu
  · subst hw; exact hinv.no_conflict hok (fun h => htu h.symm) hu ht

end consequences

end I3.Machine
