/-
  I3.Lemmas.Limbs — arithmetic of the translated BN254 limb kernels (I3.Gen.FFLimbs).
  Two kinds of lemma:
   * structural (`…_eq`, by `rfl`): the generated definition is the composition of smaller
     generated/hand-named pieces (carry chain, CIOS round, final conditional subtraction);
   * arithmetic (by `omega` over the closed forms of the word primitives).
-/
import I3.Gen.FFLimbs
import Mathlib.Tactic.SplitIfs
import Mathlib.Tactic.Ring
namespace I3.Limbs
open I3.Word I3.Gen.FF

def Q : Nat := 21888242871839275222246405745257275088548364400416034343698204186575808495617
def R : Nat := W ^ 4
def val4 (a b c d : Nat) : Nat := a + b * W + c * W ^ 2 + d * W ^ 3

/-- the borrow-out written arithmetically in `sub64` is the comparison. -/
theorem sub64_borrow (a b c : Nat) (ha : a < W) (hb : b < W) (hc : c ≤ 1) :
    (sub64 a b c).2 = if a < b + c then 1 else 0 := by
  simp only [sub64, W] at *
  split <;> omega

theorem sub64_diff (a b c : Nat) (ha : a < W) (hb : b < W) (hc : c ≤ 1) :
    ((sub64 a b c).1 : Int) = ((a : Int) - b - c) % (W : Int) := by
  simp only [sub64, W] at *
  omega

/-- the limb-wise comparison chain of the generated code is `q ≤ value`. -/
theorem lex_ge_iff (z0 z1 z2 z3 : Nat) (h0 : z0 < W) (h1 : z1 < W) (h2 : z2 < W) (h3 : z3 < W) :
    (!((decide (z3 < 3486998266802970665) || ((decide (z3 = 3486998266802970665) && ((decide (z2 < 13281191951274694749) || ((decide (z2 = 13281191951274694749) && ((decide (z1 < 2896914383306846353) || ((decide (z1 = 2896914383306846353) && (decide (z0 < 4891460686036598785))))))))))))))) = true
      ↔ Q ≤ val4 z0 z1 z2 z3 := by
  simp only [Bool.not_eq_true', Bool.or_eq_false_iff, Bool.and_eq_false_iff, decide_eq_false_iff_not, val4, Q, W] at *
  omega

/-- final conditional subtraction: canonical representative of anything below 2q. -/
theorem reduce_ok (z0 z1 z2 z3 : Nat)
    (h0 : z0 < W) (h1 : z1 < W) (h2 : z2 < W) (h3 : z3 < W) (h : val4 z0 z1 z2 z3 < 2 * Q) :
    ∃ r0 r1 r2 r3, reduceGeneric z0 z1 z2 z3 = (r0, r1, r2, r3) ∧
      r0 < W ∧ r1 < W ∧ r2 < W ∧ r3 < W ∧ val4 r0 r1 r2 r3 = val4 z0 z1 z2 z3 % Q := by
  unfold reduceGeneric
  by_cases hq : Q ≤ val4 z0 z1 z2 z3
  · rw [if_pos ((lex_ge_iff _ _ _ _ h0 h1 h2 h3).2 hq)]
    simp only [sub64, val4, Q, W] at *
    refine ⟨_, _, _, _, rfl, ?_, ?_, ?_, ?_, ?_⟩ <;> omega
  · rw [if_neg (fun hc => hq ((lex_ge_iff _ _ _ _ h0 h1 h2 h3).1 hc))]
    simp only [val4, Q, W] at *
    refine ⟨_, _, _, _, rfl, ?_, ?_, ?_, ?_, ?_⟩ <;> omega

/-! ### add / double -/

/-- structure of the generated addition: carry chain, then the final conditional subtraction. -/
theorem add_eq (z0 z1 z2 z3 x0 x1 x2 x3 y0 y1 y2 y3 : Nat) :
    addGeneric z0 z1 z2 z3 x0 x1 x2 x3 y0 y1 y2 y3 =
      reduceGeneric (add64 x0 y0 0).1 (add64 x1 y1 (add64 x0 y0 0).2).1
        (add64 x2 y2 (add64 x1 y1 (add64 x0 y0 0).2).2).1
        (add64 x3 y3 (add64 x2 y2 (add64 x1 y1 (add64 x0 y0 0).2).2).2).1 := rfl

theorem add_ok (z0 z1 z2 z3 x0 x1 x2 x3 y0 y1 y2 y3 : Nat)
    (hx0 : x0 < W) (hx1 : x1 < W) (hx2 : x2 < W) (hx3 : x3 < W)
    (hy0 : y0 < W) (hy1 : y1 < W) (hy2 : y2 < W) (hy3 : y3 < W)
    (hx : val4 x0 x1 x2 x3 < Q) (hy : val4 y0 y1 y2 y3 < Q) :
    ∃ r0 r1 r2 r3, addGeneric z0 z1 z2 z3 x0 x1 x2 x3 y0 y1 y2 y3 = (r0, r1, r2, r3) ∧
      r0 < W ∧ r1 < W ∧ r2 < W ∧ r3 < W ∧
      val4 r0 r1 r2 r3 = (val4 x0 x1 x2 x3 + val4 y0 y1 y2 y3) % Q := by
  rw [add_eq]
  have key : ∃ s0 s1 s2 s3, (add64 x0 y0 0).1 = s0 ∧ (add64 x1 y1 (add64 x0 y0 0).2).1 = s1 ∧
      (add64 x2 y2 (add64 x1 y1 (add64 x0 y0 0).2).2).1 = s2 ∧
      (add64 x3 y3 (add64 x2 y2 (add64 x1 y1 (add64 x0 y0 0).2).2).2).1 = s3 ∧
      s0 < W ∧ s1 < W ∧ s2 < W ∧ s3 < W ∧
      val4 s0 s1 s2 s3 = val4 x0 x1 x2 x3 + val4 y0 y1 y2 y3 := by
    refine ⟨_, _, _, _, rfl, rfl, rfl, rfl, ?_, ?_, ?_, ?_, ?_⟩ <;>
      (simp only [add64, val4, Q, W] at *; omega)
  obtain ⟨s0, s1, s2, s3, e0, e1, e2, e3, h0, h1, h2, h3, hv⟩ := key
  rw [e0, e1, e2, e3]
  obtain ⟨r0, r1, r2, r3, he, g0, g1, g2, g3, hr⟩ := reduce_ok s0 s1 s2 s3 h0 h1 h2 h3 (by omega)
  exact ⟨r0, r1, r2, r3, he, g0, g1, g2, g3, by rw [hr, hv]⟩

theorem double_eq (z0 z1 z2 z3 x0 x1 x2 x3 : Nat) :
    doubleGeneric z0 z1 z2 z3 x0 x1 x2 x3 = addGeneric z0 z1 z2 z3 x0 x1 x2 x3 x0 x1 x2 x3 := rfl

theorem double_ok (z0 z1 z2 z3 x0 x1 x2 x3 : Nat)
    (hx0 : x0 < W) (hx1 : x1 < W) (hx2 : x2 < W) (hx3 : x3 < W) (hx : val4 x0 x1 x2 x3 < Q) :
    ∃ r0 r1 r2 r3, doubleGeneric z0 z1 z2 z3 x0 x1 x2 x3 = (r0, r1, r2, r3) ∧
      r0 < W ∧ r1 < W ∧ r2 < W ∧ r3 < W ∧
      val4 r0 r1 r2 r3 = (2 * val4 x0 x1 x2 x3) % Q := by
  rw [double_eq, two_mul]
  exact add_ok _ _ _ _ _ _ _ _ _ _ _ _ hx0 hx1 hx2 hx3 hx0 hx1 hx2 hx3 hx hx

/-! ### sub / neg -/

theorem sub_ok (z0 z1 z2 z3 x0 x1 x2 x3 y0 y1 y2 y3 : Nat)
    (hx0 : x0 < W) (hx1 : x1 < W) (hx2 : x2 < W) (hx3 : x3 < W)
    (hy0 : y0 < W) (hy1 : y1 < W) (hy2 : y2 < W) (hy3 : y3 < W)
    (hx : val4 x0 x1 x2 x3 < Q) (hy : val4 y0 y1 y2 y3 < Q) :
    ∃ r0 r1 r2 r3, subGeneric z0 z1 z2 z3 x0 x1 x2 x3 y0 y1 y2 y3 = (r0, r1, r2, r3) ∧
      r0 < W ∧ r1 < W ∧ r2 < W ∧ r3 < W ∧
      val4 r0 r1 r2 r3 = (val4 x0 x1 x2 x3 + (Q - val4 y0 y1 y2 y3)) % Q := by
  simp only [subGeneric, add64, sub64, val4, Q, W] at *
  split_ifs with hb
  · simp only [decide_eq_true_eq] at hb
    refine ⟨_, _, _, _, rfl, ?_, ?_, ?_, ?_, ?_⟩ <;> omega
  · simp only [decide_eq_true_eq] at hb
    refine ⟨_, _, _, _, rfl, ?_, ?_, ?_, ?_, ?_⟩ <;> omega

theorem neg_ok (z0 z1 z2 z3 x0 x1 x2 x3 : Nat)
    (hx0 : x0 < W) (hx1 : x1 < W) (hx2 : x2 < W) (hx3 : x3 < W) (hx : val4 x0 x1 x2 x3 < Q) :
    ∃ r0 r1 r2 r3, negGeneric z0 z1 z2 z3 x0 x1 x2 x3 = (r0, r1, r2, r3) ∧
      r0 < W ∧ r1 < W ∧ r2 < W ∧ r3 < W ∧
      val4 r0 r1 r2 r3 = (Q - val4 x0 x1 x2 x3) % Q := by
  simp only [negGeneric]
  by_cases hz : x0 = 0 ∧ x1 = 0 ∧ x2 = 0 ∧ x3 = 0
  · obtain ⟨rfl, rfl, rfl, rfl⟩ := hz
    simp [val4, Q]
  · have hor : ¬ ((x0 ||| x1 ||| x2 ||| x3) = 0) := by
      intro h
      simp only [Nat.or_eq_zero_iff] at h
      exact hz ⟨h.1.1.1, h.1.1.2, h.1.2, h.2⟩
    rw [if_neg (by simpa using hor)]
    simp only [sub64, val4, Q, W] at *
    refine ⟨_, _, _, _, rfl, ?_, ?_, ?_, ?_, ?_⟩ <;> omega

end I3.Limbs
