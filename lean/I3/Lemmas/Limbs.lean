/-
  I3.Lemmas.Limbs — arithmetic of the translated BN254 limb kernels (I3.Gen.FFLimbs, package `ff`).

  Method.  The word primitives are abstracted by relational specifications (`add64_spec`, `sub64_spec`,
  `madd*_spec`: "∃ outputs, call = outputs ∧ linear relation"), the generated straight-line code is
  executed symbolically on the named outputs by `limb_eval` (I3.Lemmas.LimbTac), and the arithmetic is
  done by `omega` in small stand-alone lemmas over the named values (`add_chain`, `sub_chain`,
  `round_lin`, …) — omega is fast on a handful of linear facts and hopeless on the inlined let-chains.
  Aliasing variants (`_zx`, `_zy`, `_xy`, `_zxy`) are equal to the base kernels by `rfl`.
-/
import I3.Gen.FFLimbs
import I3.Lemmas.LimbTac
import Mathlib.Tactic.Ring
import Mathlib.Tactic.LinearCombination
namespace I3.Limbs
open I3.Word I3.Gen.FF

def Q : Nat := 21888242871839275222246405745257275088548364400416034343698204186575808495617
def R : Nat := W ^ 4
def val4 (a b c d : Nat) : Nat := a + b * W + c * W ^ 2 + d * W ^ 3

theorem val4_lt (a b c d : Nat) (ha : a < W) (hb : b < W) (hc : c < W) (hd : d < W) :
    val4 a b c d < R := by
  simp only [val4, R, W] at *; omega

/-- a four-limb carry chain adds -/
theorem add_chain (x0 x1 x2 x3 y0 y1 y2 y3 s0 s1 s2 s3 k0 k1 k2 k3 c : Nat)
    (f0 : s0 + k0 * W = x0 + y0 + c) (f1 : s1 + k1 * W = x1 + y1 + k0)
    (f2 : s2 + k2 * W = x2 + y2 + k1) (f3 : s3 + k3 * W = x3 + y3 + k2) :
    val4 s0 s1 s2 s3 + k3 * R = val4 x0 x1 x2 x3 + val4 y0 y1 y2 y3 + c := by
  simp only [val4, R, W] at *; omega

/-- a four-limb borrow chain subtracts -/
theorem sub_chain (x0 x1 x2 x3 y0 y1 y2 y3 d0 d1 d2 d3 k0 k1 k2 k3 c : Nat)
    (f0 : d0 + y0 + c = x0 + k0 * W) (f1 : d1 + y1 + k0 = x1 + k1 * W)
    (f2 : d2 + y2 + k1 = x2 + k2 * W) (f3 : d3 + y3 + k2 = x3 + k3 * W) :
    val4 d0 d1 d2 d3 + val4 y0 y1 y2 y3 + c = val4 x0 x1 x2 x3 + k3 * R := by
  simp only [val4, R, W] at *; omega

theorem val4_Q : val4 4891460686036598785 2896914383306846353 13281191951274694749 3486998266802970665 = Q := by
  decide


theorem lex_ge_iff (z0 z1 z2 z3 : Nat) (h0 : z0 < W) (h1 : z1 < W) (h2 : z2 < W) (h3 : z3 < W) :
    (!((decide (z3 < 3486998266802970665) || ((decide (z3 = 3486998266802970665) && ((decide (z2 < 13281191951274694749) || ((decide (z2 = 13281191951274694749) && ((decide (z1 < 2896914383306846353) || ((decide (z1 = 2896914383306846353) && (decide (z0 < 4891460686036598785))))))))))))))) = true
      ↔ Q ≤ val4 z0 z1 z2 z3 := by
  simp only [Bool.not_eq_true', Bool.or_eq_false_iff, Bool.and_eq_false_iff, decide_eq_false_iff_not, val4, Q, W] at *
  omega

/-- the conditional subtraction `if q ≤ z then z - q else z`, as a relation between limbs -/
theorem reduce_ok (z0 z1 z2 z3 : Nat)
    (h0 : z0 < W) (h1 : z1 < W) (h2 : z2 < W) (h3 : z3 < W) (h : val4 z0 z1 z2 z3 < 2 * Q) :
    ∃ r0 r1 r2 r3, reduceGeneric z0 z1 z2 z3 = (r0, r1, r2, r3) ∧
      r0 < W ∧ r1 < W ∧ r2 < W ∧ r3 < W ∧ val4 r0 r1 r2 r3 = val4 z0 z1 z2 z3 % Q := by
  by_cases hq : Q ≤ val4 z0 z1 z2 z3
  · have hc := (lex_ge_iff z0 z1 z2 z3 h0 h1 h2 h3).2 hq
    obtain ⟨d0, k0, e0, hd0, hk0, f0⟩ := sub64_spec z0 4891460686036598785 0 h0 (by decide) (by decide)
    obtain ⟨d1, k1, e1, hd1, hk1, f1⟩ := sub64_spec z1 2896914383306846353 k0 h1 (by decide) hk0
    obtain ⟨d2, k2, e2, hd2, hk2, f2⟩ := sub64_spec z2 13281191951274694749 k1 h2 (by decide) hk1
    obtain ⟨d3, k3, e3, hd3, hk3, f3⟩ := sub64_spec z3 3486998266802970665 k2 h3 (by decide) hk2
    refine ⟨d0, d1, d2, d3, by limb_eval [reduceGeneric], hd0, hd1, hd2, hd3, ?_⟩
    simp only [val4, Q, W] at *
    omega
  · have hc := fun hc => hq ((lex_ge_iff z0 z1 z2 z3 h0 h1 h2 h3).1 hc)
    refine ⟨z0, z1, z2, z3, by limb_eval [reduceGeneric], h0, h1, h2, h3, ?_⟩
    simp only [val4, Q, W] at *
    omega

/-- the limb-wise comparison `q ≤ z` exactly as the translator prints it -/
def geQ (z0 z1 z2 z3 : Nat) : Bool :=
  (!((decide (z3 < 3486998266802970665) || ((decide (z3 = 3486998266802970665) && ((decide (z2 < 13281191951274694749) || ((decide (z2 = 13281191951274694749) && ((decide (z1 < 2896914383306846353) || ((decide (z1 = 2896914383306846353) && (decide (z0 < 4891460686036598785)))))))))))))))

/-- closes `f … = reduceGeneric s0 s1 s2 s3` when `f` ends with the inlined final subtraction applied
to `s0 … s3` (the values of all earlier steps being given by equations in the context) -/
macro "limb_reduce_eq" "[" ids:ident,* "]" s0:term:max s1:term:max s2:term:max s3:term:max : tactic =>
  `(tactic| (
    by_cases hc : geQ $s0 $s1 $s2 $s3 = true
    · unfold geQ at hc
      rcases hd0 : sub64 $s0 4891460686036598785 0 with ⟨d0, k0⟩
      rcases hd1 : sub64 $s1 2896914383306846353 k0 with ⟨d1, k1⟩
      rcases hd2 : sub64 $s2 13281191951274694749 k1 with ⟨d2, k2⟩
      rcases hd3 : sub64 $s3 3486998266802970665 k2 with ⟨d3, k3⟩
      limb_eval [reduceGeneric, $ids,*]
    · unfold geQ at hc
      limb_eval [reduceGeneric, $ids,*]))

theorem add_ok (z0 z1 z2 z3 x0 x1 x2 x3 y0 y1 y2 y3 : Nat)
    (hx0 : x0 < W) (hx1 : x1 < W) (hx2 : x2 < W) (hx3 : x3 < W)
    (hy0 : y0 < W) (hy1 : y1 < W) (hy2 : y2 < W) (hy3 : y3 < W)
    (hx : val4 x0 x1 x2 x3 < Q) (hy : val4 y0 y1 y2 y3 < Q) :
    ∃ r0 r1 r2 r3, addGeneric z0 z1 z2 z3 x0 x1 x2 x3 y0 y1 y2 y3 = (r0, r1, r2, r3) ∧
      r0 < W ∧ r1 < W ∧ r2 < W ∧ r3 < W ∧
      val4 r0 r1 r2 r3 = (val4 x0 x1 x2 x3 + val4 y0 y1 y2 y3) % Q := by
  obtain ⟨s0, k0, e0, hs0, hk0, f0⟩ := add64_spec x0 y0 0 hx0 hy0 (by decide)
  obtain ⟨s1, k1, e1, hs1, hk1, f1⟩ := add64_spec x1 y1 k0 hx1 hy1 hk0
  obtain ⟨s2, k2, e2, hs2, hk2, f2⟩ := add64_spec x2 y2 k1 hx2 hy2 hk1
  obtain ⟨s3, k3, e3, hs3, hk3, f3⟩ := add64_spec x3 y3 k2 hx3 hy3 hk2
  have hE : addGeneric z0 z1 z2 z3 x0 x1 x2 x3 y0 y1 y2 y3 = reduceGeneric s0 s1 s2 s3 := by
    limb_reduce_eq [addGeneric] s0 s1 s2 s3
  have hv : val4 s0 s1 s2 s3 = val4 x0 x1 x2 x3 + val4 y0 y1 y2 y3 := by
    simp only [val4, Q, W] at *; omega
  obtain ⟨r0, r1, r2, r3, he, g0, g1, g2, g3, hr⟩ :=
    reduce_ok s0 s1 s2 s3 hs0 hs1 hs2 hs3 (by omega)
  exact ⟨r0, r1, r2, r3, hE.trans he, g0, g1, g2, g3, by rw [hr, hv]⟩

theorem double_eq (z0 z1 z2 z3 x0 x1 x2 x3 : Nat) :
    doubleGeneric z0 z1 z2 z3 x0 x1 x2 x3 = addGeneric z0 z1 z2 z3 x0 x1 x2 x3 x0 x1 x2 x3 := rfl

theorem double_ok (z0 z1 z2 z3 x0 x1 x2 x3 : Nat)
    (hx0 : x0 < W) (hx1 : x1 < W) (hx2 : x2 < W) (hx3 : x3 < W) (hx : val4 x0 x1 x2 x3 < Q) :
    ∃ r0 r1 r2 r3, doubleGeneric z0 z1 z2 z3 x0 x1 x2 x3 = (r0, r1, r2, r3) ∧
      r0 < W ∧ r1 < W ∧ r2 < W ∧ r3 < W ∧
      val4 r0 r1 r2 r3 = (2 * val4 x0 x1 x2 x3) % Q := by
  rw [double_eq, two_mul]
  exact add_ok z0 z1 z2 z3 x0 x1 x2 x3 x0 x1 x2 x3 hx0 hx1 hx2 hx3 hx0 hx1 hx2 hx3 hx hx

theorem sub_ok (z0 z1 z2 z3 x0 x1 x2 x3 y0 y1 y2 y3 : Nat)
    (hx0 : x0 < W) (hx1 : x1 < W) (hx2 : x2 < W) (hx3 : x3 < W)
    (hy0 : y0 < W) (hy1 : y1 < W) (hy2 : y2 < W) (hy3 : y3 < W)
    (hx : val4 x0 x1 x2 x3 < Q) (hy : val4 y0 y1 y2 y3 < Q) :
    ∃ r0 r1 r2 r3, subGeneric z0 z1 z2 z3 x0 x1 x2 x3 y0 y1 y2 y3 = (r0, r1, r2, r3) ∧
      r0 < W ∧ r1 < W ∧ r2 < W ∧ r3 < W ∧
      val4 r0 r1 r2 r3 = (val4 x0 x1 x2 x3 + (Q - val4 y0 y1 y2 y3)) % Q := by
  obtain ⟨d0, k0, e0, hd0, hk0, f0⟩ := sub64_spec x0 y0 0 hx0 hy0 (by decide)
  obtain ⟨d1, k1, e1, hd1, hk1, f1⟩ := sub64_spec x1 y1 k0 hx1 hy1 hk0
  obtain ⟨d2, k2, e2, hd2, hk2, f2⟩ := sub64_spec x2 y2 k1 hx2 hy2 hk1
  obtain ⟨d3, k3, e3, hd3, hk3, f3⟩ := sub64_spec x3 y3 k2 hx3 hy3 hk2
  have hD := val4_lt d0 d1 d2 d3 hd0 hd1 hd2 hd3
  have key := sub_chain x0 x1 x2 x3 y0 y1 y2 y3 d0 d1 d2 d3 k0 k1 k2 k3 0 f0 f1 f2 f3
  by_cases hb : k3 = 0
  · refine ⟨d0, d1, d2, d3, by limb_eval [subGeneric], hd0, hd1, hd2, hd3, ?_⟩
    generalize val4 d0 d1 d2 d3 = D at *
    generalize val4 x0 x1 x2 x3 = X at *
    generalize val4 y0 y1 y2 y3 = Y at *
    simp only [Q, R, W] at *; omega
  · obtain ⟨s0, c0, a0, hs0, hc0, g0⟩ := add64_spec d0 4891460686036598785 0 hd0 (by decide) (by decide)
    obtain ⟨s1, c1, a1, hs1, hc1, g1⟩ := add64_spec d1 2896914383306846353 c0 hd1 (by decide) hc0
    obtain ⟨s2, c2, a2, hs2, hc2, g2⟩ := add64_spec d2 13281191951274694749 c1 hd2 (by decide) hc1
    obtain ⟨s3, c3, a3, hs3, hc3, g3⟩ := add64_spec d3 3486998266802970665 c2 hd3 (by decide) hc2
    refine ⟨s0, s1, s2, s3, by limb_eval [subGeneric], hs0, hs1, hs2, hs3, ?_⟩
    have hS := val4_lt s0 s1 s2 s3 hs0 hs1 hs2 hs3
    have key2 := add_chain d0 d1 d2 d3 _ _ _ _ s0 s1 s2 s3 c0 c1 c2 c3 0 g0 g1 g2 g3
    rw [val4_Q] at key2
    generalize val4 s0 s1 s2 s3 = S at *
    generalize val4 d0 d1 d2 d3 = D at *
    generalize val4 x0 x1 x2 x3 = X at *
    generalize val4 y0 y1 y2 y3 = Y at *
    simp only [Q, R, W] at *; omega
theorem neg_ok (z0 z1 z2 z3 x0 x1 x2 x3 : Nat)
    (hx0 : x0 < W) (hx1 : x1 < W) (hx2 : x2 < W) (hx3 : x3 < W) (hx : val4 x0 x1 x2 x3 < Q) :
    ∃ r0 r1 r2 r3, negGeneric z0 z1 z2 z3 x0 x1 x2 x3 = (r0, r1, r2, r3) ∧
      r0 < W ∧ r1 < W ∧ r2 < W ∧ r3 < W ∧
      val4 r0 r1 r2 r3 = (Q - val4 x0 x1 x2 x3) % Q := by
  by_cases hz : (x0 ||| x1 ||| x2 ||| x3) = 0
  · refine ⟨0, 0, 0, 0, by limb_eval [negGeneric], by decide, by decide, by decide, by decide, ?_⟩
    simp only [Nat.or_eq_zero_iff] at hz
    obtain ⟨⟨⟨rfl, rfl⟩, rfl⟩, rfl⟩ := hz
    decide
  · have hnz : 0 < val4 x0 x1 x2 x3 := by
      rcases Nat.eq_zero_or_pos (val4 x0 x1 x2 x3) with h | h
      · exfalso; apply hz
        have : x0 = 0 ∧ x1 = 0 ∧ x2 = 0 ∧ x3 = 0 := by
          simp only [val4, W] at h; omega
        obtain ⟨rfl, rfl, rfl, rfl⟩ := this; rfl
      · exact h
    obtain ⟨d0, k0, e0, hd0, hk0, f0⟩ := sub64_spec 4891460686036598785 x0 0 (by decide) hx0 (by decide)
    obtain ⟨d1, k1, e1, hd1, hk1, f1⟩ := sub64_spec 2896914383306846353 x1 k0 (by decide) hx1 hk0
    obtain ⟨d2, k2, e2, hd2, hk2, f2⟩ := sub64_spec 13281191951274694749 x2 k1 (by decide) hx2 hk1
    obtain ⟨d3, k3, e3, hd3, hk3, f3⟩ := sub64_spec 3486998266802970665 x3 k2 (by decide) hx3 hk2
    refine ⟨d0, d1, d2, d3, by limb_eval [negGeneric], hd0, hd1, hd2, hd3, ?_⟩
    have hD := val4_lt d0 d1 d2 d3 hd0 hd1 hd2 hd3
    have key := sub_chain _ _ _ _ x0 x1 x2 x3 d0 d1 d2 d3 k0 k1 k2 k3 0 f0 f1 f2 f3
    rw [val4_Q] at key
    generalize val4 d0 d1 d2 d3 = D at *
    generalize val4 x0 x1 x2 x3 = X at *
    simp only [Q, R, W] at *; omega

theorem shr_or (a b : Nat) (ha : a < W) :
    (a >>> 1) ||| ((b <<< 63) % W) = a / 2 + (b % 2) * 9223372036854775808 := by
  have h1 : a >>> 1 = a / 2 := by rw [Nat.shiftRight_eq_div_pow]
  have h2 : (b <<< 63) % W = (b % 2) * 9223372036854775808 := by
    rw [Nat.shiftLeft_eq]; simp only [W]; omega
  rw [h1, h2]
  have ha2 : a / 2 < 2 ^ 63 := by simp only [W] at ha; omega
  rcases Nat.mod_two_eq_zero_or_one b with hb | hb <;> rw [hb]
  · simp
  · have := Nat.two_pow_add_eq_or_of_lt ha2 1
    rw [Nat.mul_one] at this
    rw [Nat.one_mul, Nat.or_comm, show (9223372036854775808 : Nat) = 2 ^ 63 from rfl, ← this, Nat.add_comm]

theorem shr_one (a : Nat) : a >>> 1 = a / 2 := by rw [Nat.shiftRight_eq_div_pow]

/-- arithmetic of the limb-wise right shift by one bit -/
theorem shr_chain (a0 a1 a2 a3 : Nat) :
    2 * val4 (a0 / 2 + (a1 % 2) * 9223372036854775808) (a1 / 2 + (a2 % 2) * 9223372036854775808)
      (a2 / 2 + (a3 % 2) * 9223372036854775808) (a3 / 2) + a0 % 2 = val4 a0 a1 a2 a3 := by
  simp only [val4, W]; omega

theorem shr_limb_lt (a b : Nat) (ha : a < W) : a / 2 + b % 2 * 9223372036854775808 < W := by
  simp only [W] at *; omega

theorem halve_arith_odd (Z S H c b : Nat) (hz : Z < Q) (hodd : Z % 2 = 1)
    (key : S + c * R = Z + Q + 0) (hS : S < R) (hsh : 2 * H + b = S) (hb : S % 2 = b) :
    H < Q ∧ 2 * H % Q = Z := by
  have hc : c = 0 := by simp only [Q, R, W] at *; omega
  subst hc
  have h2 : 2 * H = Z + Q := by simp only [Q] at *; omega
  refine ⟨by omega, ?_⟩
  rw [h2, Nat.add_mod_right, Nat.mod_eq_of_lt hz]

theorem halve_arith_even (Z H b : Nat) (hz : Z < Q) (hev : Z % 2 = 0)
    (hsh : 2 * H + b = Z) (hb : Z % 2 = b) : H < Q ∧ 2 * H % Q = Z := by
  simp only [Q] at *; omega

theorem halve_ok (z0 z1 z2 z3 : Nat)
    (hz0 : z0 < W) (hz1 : z1 < W) (hz2 : z2 < W) (hz3 : z3 < W) (hz : val4 z0 z1 z2 z3 < Q) :
    ∃ r0 r1 r2 r3, Halve z0 z1 z2 z3 = (r0, r1, r2, r3) ∧
      r0 < W ∧ r1 < W ∧ r2 < W ∧ r3 < W ∧ val4 r0 r1 r2 r3 < Q ∧
      (2 * val4 r0 r1 r2 r3) % Q = val4 z0 z1 z2 z3 := by
  have hodd : val4 z0 z1 z2 z3 % 2 = z0 % 2 := by simp only [val4, W]; omega
  by_cases hb : (z0 &&& 1) = 1
  · obtain ⟨s0, c0, a0, hs0, hc0, g0⟩ := add64_spec z0 4891460686036598785 0 hz0 (by decide) (by decide)
    obtain ⟨s1, c1, a1, hs1, hc1, g1⟩ := add64_spec z1 2896914383306846353 c0 hz1 (by decide) hc0
    obtain ⟨s2, c2, a2, hs2, hc2, g2⟩ := add64_spec z2 13281191951274694749 c1 hz2 (by decide) hc1
    obtain ⟨s3, c3, a3, hs3, hc3, g3⟩ := add64_spec z3 3486998266802970665 c2 hz3 (by decide) hc2
    refine ⟨_, _, _, _, by limb_eval [Halve], ?_⟩
    rw [shr_or s0 s1 hs0, shr_or s1 s2 hs1, shr_or s2 s3 hs2, shr_one]
    have key := add_chain z0 z1 z2 z3 _ _ _ _ s0 s1 s2 s3 c0 c1 c2 c3 0 g0 g1 g2 g3
    rw [val4_Q] at key
    have hs0' : val4 s0 s1 s2 s3 % 2 = s0 % 2 := by simp only [val4, W]; omega
    rw [Nat.and_one_is_mod] at hb
    have hfin := halve_arith_odd _ _ _ _ _ hz (hodd.trans hb) key
      (val4_lt s0 s1 s2 s3 hs0 hs1 hs2 hs3) (shr_chain s0 s1 s2 s3) hs0'
    exact ⟨shr_limb_lt s0 s1 hs0, shr_limb_lt s1 s2 hs1, shr_limb_lt s2 s3 hs2,
      by simp only [W] at *; omega, hfin.1, hfin.2⟩
  · refine ⟨_, _, _, _, by limb_eval [Halve], ?_⟩
    rw [shr_or z0 z1 hz0, shr_or z1 z2 hz1, shr_or z2 z3 hz2, shr_one]
    rw [Nat.and_one_is_mod] at hb
    have hfin := halve_arith_even _ _ _ hz (by omega) (shr_chain z0 z1 z2 z3) hodd
    exact ⟨shr_limb_lt z0 z1 hz0, shr_limb_lt z1 z2 hz1, shr_limb_lt z2 z3 hz2,
      by simp only [W] at *; omega, hfin.1, hfin.2⟩

/-! ### Montgomery multiplication (CIOS) -/

theorem madd0_spec (a b c : Nat) (ha : a < W) (hb : b < W) (hc : c < W) :
    madd0 a b c < W ∧ ∃ lo, lo < W ∧ lo + madd0 a b c * W = a * b + c := by
  have e1 : mul64 a b = (a * b / W, a * b % W) := rfl
  have e2 : add64 (a * b % W) c 0 = ((a * b % W + c + 0) % W, (a * b % W + c + 0) / W) := rfl
  have e3 : add64 (a * b / W) 0 ((a * b % W + c + 0) / W) =
      ((a * b / W + 0 + (a * b % W + c + 0) / W) % W, (a * b / W + 0 + (a * b % W + c + 0) / W) / W) := rfl
  have hE : madd0 a b c = (a * b / W + 0 + (a * b % W + c + 0) / W) % W := by limb_eval [madd0]
  rw [hE]
  have hp := mul_le_words a b ha hb
  generalize a * b = p at *
  refine ⟨?_, (p + c) % W, ?_, ?_⟩ <;> (simp only [W] at *; omega)

theorem madd1_spec (a b c : Nat) (ha : a < W) (hb : b < W) (hc : c < W) :
    ∃ hi lo, madd1 a b c = (hi, lo) ∧ hi < W ∧ lo < W ∧ lo + hi * W = a * b + c := by
  have e1 : mul64 a b = (a * b / W, a * b % W) := rfl
  have e2 : add64 (a * b % W) c 0 = ((a * b % W + c + 0) % W, (a * b % W + c + 0) / W) := rfl
  have e3 : add64 (a * b / W) 0 ((a * b % W + c + 0) / W) =
      ((a * b / W + 0 + (a * b % W + c + 0) / W) % W, (a * b / W + 0 + (a * b % W + c + 0) / W) / W) := rfl
  refine ⟨_, _, by limb_eval [madd1], ?_⟩
  have hp := mul_le_words a b ha hb
  generalize a * b = p at *
  refine ⟨?_, ?_, ?_⟩ <;> (simp only [W] at *; omega)

theorem madd2_spec (a b c d : Nat) (ha : a < W) (hb : b < W) (hc : c < W) (hd : d < W) :
    ∃ hi lo, madd2 a b c d = (hi, lo) ∧ hi < W ∧ lo < W ∧ lo + hi * W = a * b + c + d := by
  have e1 : mul64 a b = (a * b / W, a * b % W) := rfl
  have e2 : add64 c d 0 = ((c + d + 0) % W, (c + d + 0) / W) := rfl
  have e3 : add64 (a * b / W) 0 ((c + d + 0) / W) =
      ((a * b / W + 0 + (c + d + 0) / W) % W, (a * b / W + 0 + (c + d + 0) / W) / W) := rfl
  have e4 : add64 (a * b % W) ((c + d + 0) % W) 0 =
      ((a * b % W + (c + d + 0) % W + 0) % W, (a * b % W + (c + d + 0) % W + 0) / W) := rfl
  have e5 : add64 ((a * b / W + 0 + (c + d + 0) / W) % W) 0 ((a * b % W + (c + d + 0) % W + 0) / W) =
      (((a * b / W + 0 + (c + d + 0) / W) % W + 0 + (a * b % W + (c + d + 0) % W + 0) / W) % W,
       ((a * b / W + 0 + (c + d + 0) / W) % W + 0 + (a * b % W + (c + d + 0) % W + 0) / W) / W) := rfl
  refine ⟨_, _, by limb_eval [madd2], ?_⟩
  have hp := mul_le_words a b ha hb
  generalize a * b = p at *
  refine ⟨?_, ?_, ?_⟩ <;> (simp only [W] at *; omega)

theorem madd3_spec (a b c d e : Nat) (ha : a < W) (hb : b < W) (hc : c < W) (hd : d < W) (_he : e < W) :
    ∃ hi lo h, madd3 a b c d e = (hi, lo) ∧ hi < W ∧ lo < W ∧ h < W ∧ lo + h * W = a * b + c + d ∧
      hi = (h + e) % W := by
  have e1 : mul64 a b = (a * b / W, a * b % W) := rfl
  have e2 : add64 c d 0 = ((c + d + 0) % W, (c + d + 0) / W) := rfl
  have e3 : add64 (a * b / W) 0 ((c + d + 0) / W) =
      ((a * b / W + 0 + (c + d + 0) / W) % W, (a * b / W + 0 + (c + d + 0) / W) / W) := rfl
  have e4 : add64 (a * b % W) ((c + d + 0) % W) 0 =
      ((a * b % W + (c + d + 0) % W + 0) % W, (a * b % W + (c + d + 0) % W + 0) / W) := rfl
  have e5 : add64 ((a * b / W + 0 + (c + d + 0) / W) % W) e ((a * b % W + (c + d + 0) % W + 0) / W) =
      (((a * b / W + 0 + (c + d + 0) / W) % W + e + (a * b % W + (c + d + 0) % W + 0) / W) % W,
       ((a * b / W + 0 + (c + d + 0) / W) % W + e + (a * b % W + (c + d + 0) % W + 0) / W) / W) := rfl
  refine ⟨_, _, (a * b + c + d) / W, by limb_eval [madd3], ?_⟩
  have hp := mul_le_words a b ha hb
  generalize a * b = p at *
  refine ⟨?_, ?_, ?_, ?_, ?_⟩ <;> (simp only [W] at *; omega)

/-- the Montgomery factor `m = c·(−q⁻¹) mod 2^64` cancels the lowest word -/
theorem mont_low_zero (c l k m : Nat) (hm : m = (c * 14042775128853446655) % W) (hl : l < W)
    (A : l + k * W = m * 4891460686036598785 + c) : l = 0 := by
  simp only [W] at *; omega

theorem round_lin (p0 p1 p2 p3 t0 t1 t2 t3 m c0 c1 c2 a0 a1 b2 u0 a2 a3 b3 u1 a4 a5 h u2 : Nat)
    (A1 : c0 + c1 * W = p0 + t0)
    (A2 : 0 + c2 * W = m * 4891460686036598785 + c0)
    (A3 : a0 + a1 * W = p1 + c1 + t1)
    (A4 : u0 + b2 * W = m * 2896914383306846353 + c2 + a0)
    (A5 : a2 + a3 * W = p2 + a1 + t2)
    (A6 : u1 + b3 * W = m * 13281191951274694749 + b2 + a2)
    (A7 : a4 + a5 * W = p3 + a3 + t3)
    (A8 : u2 + h * W = m * 3486998266802970665 + a4 + b3) :
    val4 u0 u1 u2 (h + a5) * W = val4 t0 t1 t2 t3 + val4 p0 p1 p2 p3 + m * Q := by
  simp only [val4, Q, W] at *
  omega

theorem round_bound (U T P m Y : Nat) (h : U * W = T + P + m * Q) (hT : T < 2 * Q)
    (hP : P ≤ (W - 1) * Y) (hY : Y < Q) (hm : m < W) : U < 2 * Q := by
  have h1 : (W - 1) * Y ≤ (W - 1) * Q := Nat.mul_le_mul_left _ (by omega)
  generalize (W - 1) * Y = Z at *
  simp only [Q, W] at *
  omega

theorem val4_top_lt (a b c d : Nat) (h : val4 a b c d < 2 * Q) : d < W := by
  simp only [val4, Q, W] at *; omega

theorem val4_smul (v y0 y1 y2 y3 : Nat) :
    val4 (v * y0) (v * y1) (v * y2) (v * y3) = v * val4 y0 y1 y2 y3 := by
  simp only [val4]; ring

/-- the reduction half of a CIOS round, given the multiplication half `c0 … a5` -/
theorem round_core (v y0 y1 y2 y3 t0 t1 t2 t3 c0 c1 a0 a1 a2 a3 a4 a5 : Nat)
    (hv : v < W) (hY : val4 y0 y1 y2 y3 < Q) (hT : val4 t0 t1 t2 t3 < 2 * Q)
    (hc0 : c0 < W) (ha0 : a0 < W) (ha2 : a2 < W) (ha4 : a4 < W) (ha5 : a5 < W)
    (A1 : c0 + c1 * W = v * y0 + t0) (A3 : a0 + a1 * W = v * y1 + c1 + t1)
    (A5 : a2 + a3 * W = v * y2 + a1 + t2) (A7 : a4 + a5 * W = v * y3 + a3 + t3) :
    ∃ b2 u0 b3 u1 u3 u2,
      madd2 ((c0 * 14042775128853446655) % W) 2896914383306846353
        (madd0 ((c0 * 14042775128853446655) % W) 4891460686036598785 c0) a0 = (b2, u0) ∧
      madd2 ((c0 * 14042775128853446655) % W) 13281191951274694749 b2 a2 = (b3, u1) ∧
      madd3 ((c0 * 14042775128853446655) % W) 3486998266802970665 a4 b3 a5 = (u3, u2) ∧
      u0 < W ∧ u1 < W ∧ u2 < W ∧ u3 < W ∧ val4 u0 u1 u2 u3 < 2 * Q ∧
      val4 u0 u1 u2 u3 * W =
        val4 t0 t1 t2 t3 + v * val4 y0 y1 y2 y3 + ((c0 * 14042775128853446655) % W) * Q := by
  have hm : (c0 * 14042775128853446655) % W < W := Nat.mod_lt _ (by decide)
  generalize hmd : (c0 * 14042775128853446655) % W = m at *
  obtain ⟨hc2, l0, hl0, A2⟩ := madd0_spec m 4891460686036598785 c0 hm (by decide) hc0
  generalize madd0 m 4891460686036598785 c0 = c2 at *
  obtain ⟨b2, u0, e4, hb2, hu0, A4⟩ := madd2_spec m 2896914383306846353 c2 a0 hm (by decide) hc2 ha0
  obtain ⟨b3, u1, e6, hb3, hu1, A6⟩ := madd2_spec m 13281191951274694749 b2 a2 hm (by decide) hb2 ha2
  obtain ⟨u3, u2, h, e8, hu3, hu2, hh, A8, A9⟩ :=
    madd3_spec m 3486998266802970665 a4 b3 a5 hm (by decide) ha4 hb3 ha5
  refine ⟨b2, u0, b3, u1, u3, u2, e4, e6, e8, hu0, hu1, hu2, hu3, ?_⟩
  have hl : l0 = 0 := mont_low_zero c0 l0 c2 m hmd.symm hl0 A2
  subst hl
  have key := round_lin (v * y0) (v * y1) (v * y2) (v * y3) t0 t1 t2 t3 m c0 c1 c2 a0 a1 b2 u0 a2 a3 b3 u1
    a4 a5 h u2 A1 A2 A3 A4 A5 A6 A7 A8
  rw [val4_smul] at key
  have hb := round_bound _ _ _ m _ key hT (Nat.mul_le_mul_right _ (by omega)) hY hm
  have htop := val4_top_lt _ _ _ _ hb
  have hu3' : u3 = h + a5 := by rw [A9]; exact Nat.mod_eq_of_lt htop
  rw [hu3']
  exact ⟨hb, key⟩

/-- CIOS round `i ≥ 1` of the generated multiplication -/
theorem round_spec (v y0 y1 y2 y3 t0 t1 t2 t3 : Nat)
    (hv : v < W) (hy0 : y0 < W) (hy1 : y1 < W) (hy2 : y2 < W) (hy3 : y3 < W)
    (ht0 : t0 < W) (ht1 : t1 < W) (ht2 : t2 < W) (ht3 : t3 < W)
    (hY : val4 y0 y1 y2 y3 < Q) (hT : val4 t0 t1 t2 t3 < 2 * Q) :
    ∃ c1 c0 a1 a0 b2 u0 a3 a2 b3 u1 a5 a4 u3 u2,
      madd1 v y0 t0 = (c1, c0) ∧
      madd2 v y1 c1 t1 = (a1, a0) ∧
      madd2 ((c0 * 14042775128853446655) % W) 2896914383306846353
        (madd0 ((c0 * 14042775128853446655) % W) 4891460686036598785 c0) a0 = (b2, u0) ∧
      madd2 v y2 a1 t2 = (a3, a2) ∧
      madd2 ((c0 * 14042775128853446655) % W) 13281191951274694749 b2 a2 = (b3, u1) ∧
      madd2 v y3 a3 t3 = (a5, a4) ∧
      madd3 ((c0 * 14042775128853446655) % W) 3486998266802970665 a4 b3 a5 = (u3, u2) ∧
      u0 < W ∧ u1 < W ∧ u2 < W ∧ u3 < W ∧ val4 u0 u1 u2 u3 < 2 * Q ∧
      ∃ m, m < W ∧ val4 u0 u1 u2 u3 * W = val4 t0 t1 t2 t3 + v * val4 y0 y1 y2 y3 + m * Q := by
  obtain ⟨c1, c0, e1, hc1, hc0, A1⟩ := madd1_spec v y0 t0 hv hy0 ht0
  obtain ⟨a1, a0, e3, ha1, ha0, A3⟩ := madd2_spec v y1 c1 t1 hv hy1 hc1 ht1
  obtain ⟨a3, a2, e5, ha3, ha2, A5⟩ := madd2_spec v y2 a1 t2 hv hy2 ha1 ht2
  obtain ⟨a5, a4, e7, ha5, ha4, A7⟩ := madd2_spec v y3 a3 t3 hv hy3 ha3 ht3
  obtain ⟨b2, u0, b3, u1, u3, u2, e4, e6, e8, hu0, hu1, hu2, hu3, hb, key⟩ :=
    round_core v y0 y1 y2 y3 t0 t1 t2 t3 c0 c1 a0 a1 a2 a3 a4 a5 hv hY hT hc0 ha0 ha2 ha4 ha5 A1 A3 A5 A7
  exact ⟨c1, c0, a1, a0, b2, u0, a3, a2, b3, u1, a5, a4, u3, u2, e1, e3, e4, e5, e6, e7, e8,
    hu0, hu1, hu2, hu3, hb, _, Nat.mod_lt _ (by decide), key⟩

theorem val4_zero : val4 0 0 0 0 = 0 := by decide

/-- CIOS round 0 (`t = 0`: `bits.Mul64` and `madd1` instead of `madd1` and `madd2`) -/
theorem round0_spec (v y0 y1 y2 y3 : Nat)
    (hv : v < W) (hy0 : y0 < W) (hy1 : y1 < W) (hy2 : y2 < W) (hy3 : y3 < W)
    (hY : val4 y0 y1 y2 y3 < Q) :
    ∃ c1 c0 a1 a0 b2 u0 a3 a2 b3 u1 a5 a4 u3 u2,
      mul64 v y0 = (c1, c0) ∧
      madd1 v y1 c1 = (a1, a0) ∧
      madd2 ((c0 * 14042775128853446655) % W) 2896914383306846353
        (madd0 ((c0 * 14042775128853446655) % W) 4891460686036598785 c0) a0 = (b2, u0) ∧
      madd1 v y2 a1 = (a3, a2) ∧
      madd2 ((c0 * 14042775128853446655) % W) 13281191951274694749 b2 a2 = (b3, u1) ∧
      madd1 v y3 a3 = (a5, a4) ∧
      madd3 ((c0 * 14042775128853446655) % W) 3486998266802970665 a4 b3 a5 = (u3, u2) ∧
      u0 < W ∧ u1 < W ∧ u2 < W ∧ u3 < W ∧ val4 u0 u1 u2 u3 < 2 * Q ∧
      ∃ m, m < W ∧ val4 u0 u1 u2 u3 * W = v * val4 y0 y1 y2 y3 + m * Q := by
  have hp := mul_le_words v y0 hv hy0
  have hc1 : v * y0 / W < W := by generalize v * y0 = p at *; simp only [W] at *; omega
  have hc0 : v * y0 % W < W := Nat.mod_lt _ (by decide)
  have A1 : v * y0 % W + v * y0 / W * W = v * y0 + 0 := by rw [Nat.add_zero]; exact Nat.mod_add_div' _ _
  obtain ⟨a1, a0, e3, ha1, ha0, A3⟩ := madd1_spec v y1 (v * y0 / W) hv hy1 hc1
  obtain ⟨a3, a2, e5, ha3, ha2, A5⟩ := madd1_spec v y2 a1 hv hy2 ha1
  obtain ⟨a5, a4, e7, ha5, ha4, A7⟩ := madd1_spec v y3 a3 hv hy3 ha3
  obtain ⟨b2, u0, b3, u1, u3, u2, e4, e6, e8, hu0, hu1, hu2, hu3, hb, key⟩ :=
    round_core v y0 y1 y2 y3 0 0 0 0 (v * y0 % W) (v * y0 / W) a0 a1 a2 a3 a4 a5 hv hY
      (by rw [val4_zero]; decide) hc0 ha0 ha2 ha4 ha5 A1 A3 A5 A7
  rw [val4_zero, Nat.zero_add] at key
  exact ⟨_, _, a1, a0, b2, u0, a3, a2, b3, u1, a5, a4, u3, u2, rfl, e3, e4, e5, e6, e7, e8,
    hu0, hu1, hu2, hu3, hb, _, Nat.mod_lt _ (by decide), key⟩

/-- four chained round equations give the Montgomery product -/
theorem mont_chain (X0 X1 X2 X3 Y T1 T2 T3 T4 m0 m1 m2 m3 : Nat)
    (E0 : T1 * W = X0 * Y + m0 * Q) (E1 : T2 * W = T1 + X1 * Y + m1 * Q)
    (E2 : T3 * W = T2 + X2 * Y + m2 * Q) (E3 : T4 * W = T3 + X3 * Y + m3 * Q) :
    T4 * R = val4 X0 X1 X2 X3 * Y + val4 m0 m1 m2 m3 * Q := by
  simp only [val4, R]
  linear_combination (W ^ 3) * E3 + (W ^ 2) * E2 + W * E1 + E0

theorem mod_of_mont (T X M r : Nat) (h : T * R = X + M * Q) (hr : r = T % Q) :
    (r * R) % Q = X % Q := by
  rw [hr, Nat.mod_mul_mod, h, Nat.add_mul_mod_self_right]

/-- Montgomery multiplication: `x` may be any four words, `y` canonical -/
theorem mul_ok' (z0 z1 z2 z3 x0 x1 x2 x3 y0 y1 y2 y3 : Nat)
    (hx0 : x0 < W) (hx1 : x1 < W) (hx2 : x2 < W) (hx3 : x3 < W)
    (hy0 : y0 < W) (hy1 : y1 < W) (hy2 : y2 < W) (hy3 : y3 < W)
    (hy : val4 y0 y1 y2 y3 < Q) :
    ∃ r0 r1 r2 r3, mulGeneric z0 z1 z2 z3 x0 x1 x2 x3 y0 y1 y2 y3 = (r0, r1, r2, r3) ∧
      r0 < W ∧ r1 < W ∧ r2 < W ∧ r3 < W ∧ val4 r0 r1 r2 r3 < Q ∧
      (val4 r0 r1 r2 r3 * R) % Q = (val4 x0 x1 x2 x3 * val4 y0 y1 y2 y3) % Q := by
  obtain ⟨c1, c0, a1, a0, b2, t0, a3, a2, b3, t1, a5, a4, t3, t2, e01, e02, e03, e04, e05, e06, e07,
    ht0, ht1, ht2, ht3, hT1, m0, hm0, E0⟩ := round0_spec x0 y0 y1 y2 y3 hx0 hy0 hy1 hy2 hy3 hy
  obtain ⟨c1', c0', a1', a0', b2', t0', a3', a2', b3', t1', a5', a4', t3', t2', e11, e12, e13, e14, e15,
    e16, e17, ht0', ht1', ht2', ht3', hT2, m1, hm1, E1⟩ :=
    round_spec x1 y0 y1 y2 y3 t0 t1 t2 t3 hx1 hy0 hy1 hy2 hy3 ht0 ht1 ht2 ht3 hy hT1
  obtain ⟨c1'', c0'', a1'', a0'', b2'', t0'', a3'', a2'', b3'', t1'', a5'', a4'', t3'', t2'', e21, e22, e23,
    e24, e25, e26, e27, ht0'', ht1'', ht2'', ht3'', hT3, m2, hm2, E2⟩ :=
    round_spec x2 y0 y1 y2 y3 t0' t1' t2' t3' hx2 hy0 hy1 hy2 hy3 ht0' ht1' ht2' ht3' hy hT2
  obtain ⟨d1, d0, f1, f0, g2, w0, f3, f2, g3, w1, f5, f4, w3, w2, e31, e32, e33,
    e34, e35, e36, e37, hw0, hw1, hw2, hw3, hT4, m3, hm3, E3⟩ :=
    round_spec x3 y0 y1 y2 y3 t0'' t1'' t2'' t3'' hx3 hy0 hy1 hy2 hy3 ht0'' ht1'' ht2'' ht3'' hy hT3
  have hE : mulGeneric z0 z1 z2 z3 x0 x1 x2 x3 y0 y1 y2 y3 = reduceGeneric w0 w1 w2 w3 := by
    limb_reduce_eq [mulGeneric] w0 w1 w2 w3
  obtain ⟨r0, r1, r2, r3, he, g0, g1, g2', g3', hr⟩ := reduce_ok w0 w1 w2 w3 hw0 hw1 hw2 hw3 hT4
  refine ⟨r0, r1, r2, r3, hE.trans he, g0, g1, g2', g3', ?_, ?_⟩
  · rw [hr]; exact Nat.mod_lt _ (by decide)
  · exact mod_of_mont _ _ _ _ (mont_chain x0 x1 x2 x3 _ _ _ _ _ m0 m1 m2 m3 E0 E1 E2 E3) hr

theorem mul_ok (z0 z1 z2 z3 x0 x1 x2 x3 y0 y1 y2 y3 : Nat)
    (hx0 : x0 < W) (hx1 : x1 < W) (hx2 : x2 < W) (hx3 : x3 < W)
    (hy0 : y0 < W) (hy1 : y1 < W) (hy2 : y2 < W) (hy3 : y3 < W)
    (_hx : val4 x0 x1 x2 x3 < Q) (hy : val4 y0 y1 y2 y3 < Q) :
    ∃ r0 r1 r2 r3, mulGeneric z0 z1 z2 z3 x0 x1 x2 x3 y0 y1 y2 y3 = (r0, r1, r2, r3) ∧
      r0 < W ∧ r1 < W ∧ r2 < W ∧ r3 < W ∧ val4 r0 r1 r2 r3 < Q ∧
      (val4 r0 r1 r2 r3 * R) % Q = (val4 x0 x1 x2 x3 * val4 y0 y1 y2 y3) % Q :=
  mul_ok' z0 z1 z2 z3 x0 x1 x2 x3 y0 y1 y2 y3 hx0 hx1 hx2 hx3 hy0 hy1 hy2 hy3 hy

/-! ### leaving the Montgomery domain -/

theorem fm_lin (z0 z1 z2 z3 m c c1 u0 c2 u1 c3 u2 : Nat)
    (A2 : 0 + c * W = m * 4891460686036598785 + z0)
    (A4 : u0 + c1 * W = m * 2896914383306846353 + z1 + c)
    (A6 : u1 + c2 * W = m * 13281191951274694749 + z2 + c1)
    (A8 : u2 + c3 * W = m * 3486998266802970665 + z3 + c2) :
    val4 u0 u1 u2 c3 * W = val4 z0 z1 z2 z3 + m * Q := by
  simp only [val4, Q, W] at *
  omega

/-- one round of the Montgomery reduction in `fromMont` -/
theorem fm_round_spec (z0 z1 z2 z3 : Nat) (hz0 : z0 < W) (hz1 : z1 < W) (hz2 : z2 < W) (hz3 : z3 < W) :
    ∃ c1 u0 c2 u1 c3 u2,
      madd2 ((z0 * 14042775128853446655) % W) 2896914383306846353 z1
        (madd0 ((z0 * 14042775128853446655) % W) 4891460686036598785 z0) = (c1, u0) ∧
      madd2 ((z0 * 14042775128853446655) % W) 13281191951274694749 z2 c1 = (c2, u1) ∧
      madd2 ((z0 * 14042775128853446655) % W) 3486998266802970665 z3 c2 = (c3, u2) ∧
      u0 < W ∧ u1 < W ∧ u2 < W ∧ c3 < W ∧
      ∃ m, m < W ∧ val4 u0 u1 u2 c3 * W = val4 z0 z1 z2 z3 + m * Q := by
  have hm : (z0 * 14042775128853446655) % W < W := Nat.mod_lt _ (by decide)
  generalize hmd : (z0 * 14042775128853446655) % W = m at *
  obtain ⟨hc, l0, hl0, A2⟩ := madd0_spec m 4891460686036598785 z0 hm (by decide) hz0
  generalize madd0 m 4891460686036598785 z0 = c at *
  obtain ⟨c1, u0, e4, hc1, hu0, A4⟩ := madd2_spec m 2896914383306846353 z1 c hm (by decide) hz1 hc
  obtain ⟨c2, u1, e6, hc2, hu1, A6⟩ := madd2_spec m 13281191951274694749 z2 c1 hm (by decide) hz2 hc1
  obtain ⟨c3, u2, e8, hc3, hu2, A8⟩ := madd2_spec m 3486998266802970665 z3 c2 hm (by decide) hz3 hc2
  have hl : l0 = 0 := mont_low_zero z0 l0 c m hmd.symm hl0 A2
  subst hl
  exact ⟨c1, u0, c2, u1, c3, u2, e4, e6, e8, hu0, hu1, hu2, hc3, m, hm,
    fm_lin z0 z1 z2 z3 m c c1 u0 c2 u1 c3 u2 A2 A4 A6 A8⟩

theorem fm_chain (Z Z1 Z2 Z3 Z4 m0 m1 m2 m3 : Nat)
    (E0 : Z1 * W = Z + m0 * Q) (E1 : Z2 * W = Z1 + m1 * Q)
    (E2 : Z3 * W = Z2 + m2 * Q) (E3 : Z4 * W = Z3 + m3 * Q) :
    Z4 * R = Z + val4 m0 m1 m2 m3 * Q := by
  simp only [val4, R]
  linear_combination (W ^ 3) * E3 + (W ^ 2) * E2 + W * E1 + E0

theorem fm_bound (Z4 Z M : Nat) (h : Z4 * R = Z + M * Q) (hZ : Z < R) (hM : M < R) : Z4 < 2 * Q := by
  simp only [Q, R, W] at *; omega

/-- `fromMont` divides by `R` modulo `q`; the operand may be any four words -/
theorem fromMont_ok (z0 z1 z2 z3 : Nat) (hz0 : z0 < W) (hz1 : z1 < W) (hz2 : z2 < W) (hz3 : z3 < W) :
    ∃ r0 r1 r2 r3, fromMontGeneric z0 z1 z2 z3 = (r0, r1, r2, r3) ∧
      r0 < W ∧ r1 < W ∧ r2 < W ∧ r3 < W ∧ val4 r0 r1 r2 r3 < Q ∧
      (val4 r0 r1 r2 r3 * R) % Q = val4 z0 z1 z2 z3 % Q := by
  obtain ⟨c1, t0, c2, t1, t3, t2, e01, e02, e03, ht0, ht1, ht2, ht3, m0, hm0, E0⟩ :=
    fm_round_spec z0 z1 z2 z3 hz0 hz1 hz2 hz3
  obtain ⟨c1', t0', c2', t1', t3', t2', e11, e12, e13, ht0', ht1', ht2', ht3', m1, hm1, E1⟩ :=
    fm_round_spec t0 t1 t2 t3 ht0 ht1 ht2 ht3
  obtain ⟨c1'', t0'', c2'', t1'', t3'', t2'', e21, e22, e23, ht0'', ht1'', ht2'', ht3'', m2, hm2, E2⟩ :=
    fm_round_spec t0' t1' t2' t3' ht0' ht1' ht2' ht3'
  obtain ⟨d1, w0, d2, w1, w3, w2, e31, e32, e33, hw0, hw1, hw2, hw3, m3, hm3, E3⟩ :=
    fm_round_spec t0'' t1'' t2'' t3'' ht0'' ht1'' ht2'' ht3''
  have hE : fromMontGeneric z0 z1 z2 z3 = reduceGeneric w0 w1 w2 w3 := by
    limb_reduce_eq [fromMontGeneric] w0 w1 w2 w3
  have hch := fm_chain _ _ _ _ _ m0 m1 m2 m3 E0 E1 E2 E3
  have hb := fm_bound _ _ _ hch (val4_lt z0 z1 z2 z3 hz0 hz1 hz2 hz3) (val4_lt m0 m1 m2 m3 hm0 hm1 hm2 hm3)
  obtain ⟨r0, r1, r2, r3, he, g0, g1, g2, g3, hr⟩ := reduce_ok w0 w1 w2 w3 hw0 hw1 hw2 hw3 hb
  refine ⟨r0, r1, r2, r3, hE.trans he, g0, g1, g2, g3, ?_, ?_⟩
  · rw [hr]; exact Nat.mod_lt _ (by decide)
  · exact mod_of_mont _ _ _ _ hch hr

/-! ### aliasing: every variant is the base kernel on the shared cells -/

theorem add_zx (a0 a1 a2 a3 z0 z1 z2 z3 y0 y1 y2 y3 : Nat) :
    addGeneric_zx z0 z1 z2 z3 y0 y1 y2 y3 = addGeneric a0 a1 a2 a3 z0 z1 z2 z3 y0 y1 y2 y3 := rfl
theorem add_zy (a0 a1 a2 a3 z0 z1 z2 z3 x0 x1 x2 x3 : Nat) :
    addGeneric_zy z0 z1 z2 z3 x0 x1 x2 x3 = addGeneric a0 a1 a2 a3 x0 x1 x2 x3 z0 z1 z2 z3 := rfl
theorem add_xy (z0 z1 z2 z3 x0 x1 x2 x3 : Nat) :
    addGeneric_xy z0 z1 z2 z3 x0 x1 x2 x3 = addGeneric z0 z1 z2 z3 x0 x1 x2 x3 x0 x1 x2 x3 := rfl
theorem add_zxy (a0 a1 a2 a3 z0 z1 z2 z3 : Nat) :
    addGeneric_zxy z0 z1 z2 z3 = addGeneric a0 a1 a2 a3 z0 z1 z2 z3 z0 z1 z2 z3 := rfl
theorem double_zx (a0 a1 a2 a3 z0 z1 z2 z3 : Nat) :
    doubleGeneric_zx z0 z1 z2 z3 = doubleGeneric a0 a1 a2 a3 z0 z1 z2 z3 := rfl
theorem sub_zx (a0 a1 a2 a3 z0 z1 z2 z3 y0 y1 y2 y3 : Nat) :
    subGeneric_zx z0 z1 z2 z3 y0 y1 y2 y3 = subGeneric a0 a1 a2 a3 z0 z1 z2 z3 y0 y1 y2 y3 := rfl
theorem sub_zy (a0 a1 a2 a3 z0 z1 z2 z3 x0 x1 x2 x3 : Nat) :
    subGeneric_zy z0 z1 z2 z3 x0 x1 x2 x3 = subGeneric a0 a1 a2 a3 x0 x1 x2 x3 z0 z1 z2 z3 := rfl
theorem sub_xy (z0 z1 z2 z3 x0 x1 x2 x3 : Nat) :
    subGeneric_xy z0 z1 z2 z3 x0 x1 x2 x3 = subGeneric z0 z1 z2 z3 x0 x1 x2 x3 x0 x1 x2 x3 := rfl
theorem sub_zxy (a0 a1 a2 a3 z0 z1 z2 z3 : Nat) :
    subGeneric_zxy z0 z1 z2 z3 = subGeneric a0 a1 a2 a3 z0 z1 z2 z3 z0 z1 z2 z3 := rfl
theorem neg_zx (a0 a1 a2 a3 z0 z1 z2 z3 : Nat) :
    negGeneric_zx z0 z1 z2 z3 = negGeneric a0 a1 a2 a3 z0 z1 z2 z3 := rfl
theorem mul_zx (a0 a1 a2 a3 z0 z1 z2 z3 y0 y1 y2 y3 : Nat) :
    mulGeneric_zx z0 z1 z2 z3 y0 y1 y2 y3 = mulGeneric a0 a1 a2 a3 z0 z1 z2 z3 y0 y1 y2 y3 := rfl
theorem mul_zy (a0 a1 a2 a3 z0 z1 z2 z3 x0 x1 x2 x3 : Nat) :
    mulGeneric_zy z0 z1 z2 z3 x0 x1 x2 x3 = mulGeneric a0 a1 a2 a3 x0 x1 x2 x3 z0 z1 z2 z3 := rfl
theorem mul_xy (z0 z1 z2 z3 x0 x1 x2 x3 : Nat) :
    mulGeneric_xy z0 z1 z2 z3 x0 x1 x2 x3 = mulGeneric z0 z1 z2 z3 x0 x1 x2 x3 x0 x1 x2 x3 := rfl
theorem mul_zxy (a0 a1 a2 a3 z0 z1 z2 z3 : Nat) :
    mulGeneric_zxy z0 z1 z2 z3 = mulGeneric a0 a1 a2 a3 z0 z1 z2 z3 z0 z1 z2 z3 := rfl

/-! ### constants of the Montgomery representation -/

def Rinv : Nat := 9915499612839321149637521777990102151350674507940716049588462388200839649614

theorem R_Rinv : (R * Rinv) % Q = 1 := by decide

/-- `R` is invertible modulo `q` -/
theorem cancel_R (a b : Nat) (h : (a * R) % Q = (b * R) % Q) : a % Q = b % Q := by
  have h1 : (a * R * Rinv) % Q = (b * R * Rinv) % Q := by
    rw [Nat.mul_mod (a * R), h, ← Nat.mul_mod]
  have h2 : ∀ c, (c * R * Rinv) % Q = c % Q := fun c => by
    rw [Nat.mul_assoc, Nat.mul_mod, R_Rinv, Nat.mul_one, Nat.mod_mod]
  rwa [h2, h2] at h1

theorem rSquare_val : val4 1997599621687373223 6052339484930628067 10108755138030829701 150537098327114917
    = (R * R) % Q := by decide

theorem val4_word (v : Nat) : val4 v 0 0 0 = v := by simp [val4]

theorem setUint64_eq (v : Nat) : setUint64 v = mulGeneric 0 0 0 0 v 0 0 0
    1997599621687373223 6052339484930628067 10108755138030829701 150537098327114917 := rfl

/-- `SetUint64 v` is the Montgomery form of `v` -/
theorem setUint64_ok (v : Nat) (hv : v < W) :
    ∃ r0 r1 r2 r3, setUint64 v = (r0, r1, r2, r3) ∧ r0 < W ∧ r1 < W ∧ r2 < W ∧ r3 < W ∧
      val4 r0 r1 r2 r3 = (v * R) % Q := by
  obtain ⟨r0, r1, r2, r3, he, g0, g1, g2, g3, hlt, hr⟩ :=
    mul_ok' 0 0 0 0 v 0 0 0 1997599621687373223 6052339484930628067 10108755138030829701 150537098327114917
      hv (by decide) (by decide) (by decide) (by decide) (by decide) (by decide) (by decide)
      (by rw [rSquare_val]; exact Nat.mod_lt _ (by decide))
  refine ⟨r0, r1, r2, r3, (setUint64_eq v).trans he, g0, g1, g2, g3, ?_⟩
  rw [val4_word, rSquare_val, Nat.mul_mod_mod, ← Nat.mul_assoc] at hr
  have := cancel_R _ _ hr
  rwa [Nat.mod_eq_of_lt hlt] at this

/-! ### multiplication by a word constant, butterfly -/

theorem mulByConstant_ok (z0 z1 z2 z3 c : Nat)
    (hz0 : z0 < W) (hz1 : z1 < W) (hz2 : z2 < W) (hz3 : z3 < W) (hz : val4 z0 z1 z2 z3 < Q) (hc : c < W) :
    ∃ r0 r1 r2 r3, mulByConstant z0 z1 z2 z3 c = (r0, r1, r2, r3) ∧
      r0 < W ∧ r1 < W ∧ r2 < W ∧ r3 < W ∧ val4 r0 r1 r2 r3 = (c * val4 z0 z1 z2 z3) % Q := by
  by_cases h0 : c = 0
  · exact ⟨0, 0, 0, 0, by limb_eval [mulByConstant], by decide, by decide, by decide, by decide, by
      rw [h0, Nat.zero_mul]; decide⟩
  by_cases h1 : c = 1
  · exact ⟨z0, z1, z2, z3, by limb_eval [mulByConstant], hz0, hz1, hz2, hz3, by
      rw [h1, Nat.one_mul, Nat.mod_eq_of_lt hz]⟩
  -- the doubling used by the branches 2, 3, 5
  obtain ⟨d0, d1, d2, d3, ed, hd0, hd1, hd2, hd3, hd⟩ := double_ok 0 0 0 0 z0 z1 z2 z3 hz0 hz1 hz2 hz3 hz
  rw [← double_zx 0 0 0 0] at ed
  have hdlt : val4 d0 d1 d2 d3 < Q := by rw [hd]; exact Nat.mod_lt _ (by decide)
  by_cases h2 : c = 2
  · exact ⟨d0, d1, d2, d3, by limb_eval [mulByConstant], hd0, hd1, hd2, hd3, by rw [h2]; exact hd⟩
  by_cases h3 : c = 3
  · obtain ⟨r0, r1, r2, r3, er, g0, g1, g2, g3, hr⟩ :=
      add_ok 0 0 0 0 d0 d1 d2 d3 z0 z1 z2 z3 hd0 hd1 hd2 hd3 hz0 hz1 hz2 hz3 hdlt hz
    rw [← add_zx 0 0 0 0] at er
    refine ⟨r0, r1, r2, r3, by limb_eval [mulByConstant], g0, g1, g2, g3, ?_⟩
    rw [hr, hd, h3]; generalize val4 z0 z1 z2 z3 = Z; simp only [Q]; omega
  by_cases h5 : c = 5
  · obtain ⟨f0, f1, f2, f3, ef, hf0, hf1, hf2, hf3, hf⟩ := double_ok 0 0 0 0 d0 d1 d2 d3 hd0 hd1 hd2 hd3 hdlt
    rw [← double_zx 0 0 0 0] at ef
    have hflt : val4 f0 f1 f2 f3 < Q := by rw [hf]; exact Nat.mod_lt _ (by decide)
    obtain ⟨r0, r1, r2, r3, er, g0, g1, g2, g3, hr⟩ :=
      add_ok 0 0 0 0 f0 f1 f2 f3 z0 z1 z2 z3 hf0 hf1 hf2 hf3 hz0 hz1 hz2 hz3 hflt hz
    rw [← add_zx 0 0 0 0] at er
    refine ⟨r0, r1, r2, r3, by limb_eval [mulByConstant], g0, g1, g2, g3, ?_⟩
    rw [hr, hf, hd, h5]; generalize val4 z0 z1 z2 z3 = Z; simp only [Q]; omega
  · -- generic branch: Montgomery product with `SetUint64 c`
    obtain ⟨s0, s1, s2, s3, es, hs0, hs1, hs2, hs3, hs⟩ := setUint64_ok c hc
    have hslt : val4 s0 s1 s2 s3 < Q := by rw [hs]; exact Nat.mod_lt _ (by decide)
    obtain ⟨r0, r1, r2, r3, er, g0, g1, g2, g3, hlt, hr⟩ :=
      mul_ok' 0 0 0 0 z0 z1 z2 z3 s0 s1 s2 s3 hz0 hz1 hz2 hz3 hs0 hs1 hs2 hs3 hslt
    rw [← mul_zx 0 0 0 0] at er
    refine ⟨r0, r1, r2, r3, by limb_eval [mulByConstant], g0, g1, g2, g3, ?_⟩
    rw [hs, Nat.mul_mod_mod, ← Nat.mul_assoc] at hr
    have := cancel_R _ _ hr
    rw [Nat.mod_eq_of_lt hlt] at this
    rw [this, Nat.mul_comm]

theorem butterfly_ok (a0 a1 a2 a3 b0 b1 b2 b3 : Nat)
    (ha0 : a0 < W) (ha1 : a1 < W) (ha2 : a2 < W) (ha3 : a3 < W)
    (hb0 : b0 < W) (hb1 : b1 < W) (hb2 : b2 < W) (hb3 : b3 < W)
    (ha : val4 a0 a1 a2 a3 < Q) (hb : val4 b0 b1 b2 b3 < Q) :
    ∃ r0 r1 r2 r3 s0 s1 s2 s3,
      butterflyGeneric a0 a1 a2 a3 b0 b1 b2 b3 = (r0, r1, r2, r3, s0, s1, s2, s3) ∧
      r0 < W ∧ r1 < W ∧ r2 < W ∧ r3 < W ∧ s0 < W ∧ s1 < W ∧ s2 < W ∧ s3 < W ∧
      val4 r0 r1 r2 r3 = (val4 a0 a1 a2 a3 + val4 b0 b1 b2 b3) % Q ∧
      val4 s0 s1 s2 s3 = (val4 a0 a1 a2 a3 + (Q - val4 b0 b1 b2 b3)) % Q := by
  -- the source computes both results from copies of the operands: `b.Sub(&t, &u); a.Add(&t, &u)`
  obtain ⟨r0, r1, r2, r3, er, g0, g1, g2, g3, hr⟩ :=
    add_ok a0 a1 a2 a3 a0 a1 a2 a3 b0 b1 b2 b3 ha0 ha1 ha2 ha3 hb0 hb1 hb2 hb3 ha hb
  obtain ⟨s0, s1, s2, s3, es, k0, k1, k2, k3, hs⟩ :=
    sub_ok b0 b1 b2 b3 a0 a1 a2 a3 b0 b1 b2 b3 ha0 ha1 ha2 ha3 hb0 hb1 hb2 hb3 ha hb
  exact ⟨r0, r1, r2, r3, s0, s1, s2, s3, by limb_eval [butterflyGeneric],
    g0, g1, g2, g3, k0, k1, k2, k3, hr, hs⟩

/-- `Butterfly(a, a)` on the portable path: both arguments the same element; the sum, stored last, survives. -/
theorem butterfly_ab_ok (a0 a1 a2 a3 : Nat)
    (ha0 : a0 < W) (ha1 : a1 < W) (ha2 : a2 < W) (ha3 : a3 < W) (ha : val4 a0 a1 a2 a3 < Q) :
    ∃ r0 r1 r2 r3, butterflyGeneric_ab a0 a1 a2 a3 = (r0, r1, r2, r3) ∧
      r0 < W ∧ r1 < W ∧ r2 < W ∧ r3 < W ∧
      val4 r0 r1 r2 r3 = (val4 a0 a1 a2 a3 + val4 a0 a1 a2 a3) % Q := by
  obtain ⟨s0, s1, s2, s3, es, -⟩ :=
    sub_ok a0 a1 a2 a3 a0 a1 a2 a3 a0 a1 a2 a3 ha0 ha1 ha2 ha3 ha0 ha1 ha2 ha3 ha ha
  obtain ⟨r0, r1, r2, r3, er, g0, g1, g2, g3, hr⟩ :=
    add_ok s0 s1 s2 s3 a0 a1 a2 a3 a0 a1 a2 a3 ha0 ha1 ha2 ha3 ha0 ha1 ha2 ha3 ha ha
  exact ⟨r0, r1, r2, r3, by limb_eval [butterflyGeneric_ab], g0, g1, g2, g3, hr⟩

end I3.Limbs
