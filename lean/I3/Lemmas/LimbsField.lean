/-
  I3.Lemmas.LimbsField — the bridge from the limb theorems (naturals modulo the literal modulus) to the
  prime fields `ZMod q` (BN254 scalar field, `Q = I3.q`) and `ZMod p` (Goldilocks, `P = I3.gp`):
  a Montgomery residue `v` represents `toF v = v · R⁻¹`.
-/
import I3.Lemmas.Limbs
import I3.Lemmas.LimbsG
import I3.Spec.Primes
import Mathlib.Data.ZMod.Basic
import Mathlib.Tactic.FieldSimp
import Mathlib.Tactic.Ring
import Mathlib.Tactic.LinearCombination

namespace I3.Limbs
open I3.Word

theorem Q_eq : Q = I3.q := rfl
instance : Fact (Nat.Prime Q) := ⟨Q_eq ▸ I3.q_prime⟩

/-- the field element represented by the Montgomery residue `v`: `v · R⁻¹` -/
noncomputable def toF (v : Nat) : ZMod Q := (v : ZMod Q) * ((R : ZMod Q))⁻¹

theorem R_ne_zero : ((R : Nat) : ZMod Q) ≠ 0 := by
  intro h
  have h1 : ((R * Rinv : Nat) : ZMod Q) = ((1 : Nat) : ZMod Q) :=
    (ZMod.natCast_eq_natCast_iff' _ _ _).2 (by rw [R_Rinv]; rfl)
  rw [Nat.cast_mul, h, zero_mul, Nat.cast_one] at h1
  exact zero_ne_one h1

theorem two_ne_zero : (2 : ZMod Q) ≠ 0 := by
  intro h
  have h1 : ((2 : Nat) : ZMod Q) = ((0 : Nat) : ZMod Q) := by simpa using h
  have := (ZMod.natCast_eq_natCast_iff' _ _ _).1 h1
  revert this; decide

theorem toF_mod (a : Nat) : toF (a % Q) = toF a := by
  unfold toF; rw [ZMod.natCast_mod]

theorem toF_add (r X Y : Nat) (h : r = (X + Y) % Q) : toF r = toF X + toF Y := by
  rw [h, toF_mod]; unfold toF; push_cast; ring

theorem toF_sub (r X Y : Nat) (hY : Y < Q) (h : r = (X + (Q - Y)) % Q) : toF r = toF X - toF Y := by
  rw [h, toF_mod]; unfold toF
  rw [Nat.cast_add, Nat.cast_sub (Nat.le_of_lt hY), ZMod.natCast_self]; ring

theorem toF_neg (r X : Nat) (hX : X < Q) (h : r = (Q - X) % Q) : toF r = - toF X := by
  rw [h, toF_mod]; unfold toF
  rw [Nat.cast_sub (Nat.le_of_lt hX), ZMod.natCast_self]; ring

theorem toF_smul (r c X : Nat) (h : r = (c * X) % Q) : toF r = (c : ZMod Q) * toF X := by
  rw [h, toF_mod]; unfold toF; push_cast; ring

theorem toF_halve (r X : Nat) (h : (2 * r) % Q = X) : toF r = toF X / 2 := by
  rw [← h, toF_mod]; unfold toF; push_cast
  field_simp [two_ne_zero]

theorem toF_mul (r X Y : Nat) (h : (r * R) % Q = (X * Y) % Q) : toF r = toF X * toF Y := by
  have h1 : ((r * R : Nat) : ZMod Q) = ((X * Y : Nat) : ZMod Q) :=
    (ZMod.natCast_eq_natCast_iff' _ _ _).2 h
  push_cast at h1
  unfold toF
  have hR := R_ne_zero
  field_simp
  linear_combination h1

/-- leaving the Montgomery domain yields the represented integer -/
theorem cast_fromMont (r Z : Nat) (h : (r * R) % Q = Z % Q) : (r : ZMod Q) = toF Z := by
  have h1 : ((r * R : Nat) : ZMod Q) = ((Z : Nat) : ZMod Q) :=
    (ZMod.natCast_eq_natCast_iff' _ _ _).2 h
  push_cast at h1
  unfold toF
  have hR := R_ne_zero
  field_simp
  exact h1

theorem toF_toMont (s v : Nat) (h : s = (v * R) % Q) : toF s = (v : ZMod Q) := by
  rw [h, toF_mod]; unfold toF; push_cast
  have hR := R_ne_zero
  field_simp

end I3.Limbs

namespace I3.LimbsG
open I3.Word

theorem P_eq : P = I3.gp := rfl
instance : Fact (Nat.Prime P) := ⟨P_eq ▸ I3.gp_prime⟩

/-- the field element represented by the Montgomery residue `v`: `v · R⁻¹` -/
noncomputable def toF (v : Nat) : ZMod P := (v : ZMod P) * ((R : ZMod P))⁻¹

theorem R_ne_zero : ((R : Nat) : ZMod P) ≠ 0 := by
  intro h
  have h1 : ((R * Rinv : Nat) : ZMod P) = ((1 : Nat) : ZMod P) :=
    (ZMod.natCast_eq_natCast_iff' _ _ _).2 (by rw [R_Rinv]; rfl)
  rw [Nat.cast_mul, h, zero_mul, Nat.cast_one] at h1
  exact zero_ne_one h1

theorem two_ne_zero : (2 : ZMod P) ≠ 0 := by
  intro h
  have h1 : ((2 : Nat) : ZMod P) = ((0 : Nat) : ZMod P) := by simpa using h
  have := (ZMod.natCast_eq_natCast_iff' _ _ _).1 h1
  revert this; decide

theorem toF_mod (a : Nat) : toF (a % P) = toF a := by
  unfold toF; rw [ZMod.natCast_mod]

theorem toF_add (r X Y : Nat) (h : r = (X + Y) % P) : toF r = toF X + toF Y := by
  rw [h, toF_mod]; unfold toF; push_cast; ring

theorem toF_sub (r X Y : Nat) (hY : Y < P) (h : r = (X + (P - Y)) % P) : toF r = toF X - toF Y := by
  rw [h, toF_mod]; unfold toF
  rw [Nat.cast_add, Nat.cast_sub (Nat.le_of_lt hY), ZMod.natCast_self]; ring

theorem toF_neg (r X : Nat) (hX : X < P) (h : r = (P - X) % P) : toF r = - toF X := by
  rw [h, toF_mod]; unfold toF
  rw [Nat.cast_sub (Nat.le_of_lt hX), ZMod.natCast_self]; ring

theorem toF_smul (r c X : Nat) (h : r = (c * X) % P) : toF r = (c : ZMod P) * toF X := by
  rw [h, toF_mod]; unfold toF; push_cast; ring

theorem toF_halve (r X : Nat) (h : (2 * r) % P = X) : toF r = toF X / 2 := by
  rw [← h, toF_mod]; unfold toF; push_cast
  field_simp [two_ne_zero]

theorem toF_mul (r X Y : Nat) (h : (r * R) % P = (X * Y) % P) : toF r = toF X * toF Y := by
  have h1 : ((r * R : Nat) : ZMod P) = ((X * Y : Nat) : ZMod P) :=
    (ZMod.natCast_eq_natCast_iff' _ _ _).2 h
  push_cast at h1
  unfold toF
  have hR := R_ne_zero
  field_simp
  linear_combination h1

/-- leaving the Montgomery domain yields the represented integer -/
theorem cast_fromMont (r Z : Nat) (h : (r * R) % P = Z % P) : (r : ZMod P) = toF Z := by
  have h1 : ((r * R : Nat) : ZMod P) = ((Z : Nat) : ZMod P) :=
    (ZMod.natCast_eq_natCast_iff' _ _ _).2 h
  push_cast at h1
  unfold toF
  have hR := R_ne_zero
  field_simp
  exact h1

theorem toF_toMont (s v : Nat) (h : s = (v * R) % P) : toF s = (v : ZMod P) := by
  rw [h, toF_mod]; unfold toF; push_cast
  have hR := R_ne_zero
  field_simp

end I3.LimbsG
