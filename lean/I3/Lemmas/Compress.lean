/-
  I3.Lemmas.Compress — helpers for the properties C13 (membership), C06 (point compression) and
  C12 (key derivation): definitions used in the statements (`SqrtSpec`, `xsq`, `clamp`), the
  straight-line part of `PointFromSignAndY`, the sign fix-up, and the byte-level facts about
  `pruneBuffer`.
-/
import I3.Lemmas.CurveBridge
import I3.Lemmas.Bytes
import I3.Props.C15

set_option maxRecDepth 100000

namespace I3.Lemmas.Compress

open I3 I3.Spec I3.Spec.BJJ I3.Model.BabyJub I3.Lemmas.CurveBridge I3.Lemmas.Bytes

/-! ### definitions used in the property statements -/

/-- specification of a modular square root function on canonical residues: a returned value is a
canonical root, and `none` is returned exactly for the non-residues.  Which of the two roots is
returned is left open (`big.Int.ModSqrt` and `ff.Element.Sqrt` may differ there). -/
def SqrtSpec (sqrtFn : ℕ → Option ℕ) : Prop :=
  ∀ x, x < I3.q →
    (∀ r, sqrtFn x = some r → r < I3.q ∧ r * r % I3.q = x) ∧
      (sqrtFn x = none ↔ ¬ IsSquare ((x : ℕ) : ZMod I3.q))

/-- the value of `x²` determined by `y` on BabyJubJub: `(1 - y²) / (a - d y²)` -/
def xsq (y : ZMod I3.q) : ZMod I3.q := (1 - y ^ 2) / (168700 - 168696 * y ^ 2)

/-- RFC 8032 style clamping of a 256-bit scalar: clear bits 0–2 and bit 255, set bit 254 -/
def clamp (n : ℕ) : ℕ := (n % 2 ^ 254 / 8) * 8 + 2 ^ 254

/-! ### numeric facts -/

theorem q_odd : I3.q % 2 = 1 := by decide +kernel
theorem q_lt_254 : I3.q < 2 ^ 254 := by decide +kernel
theorem k_q_half : k.q / 2 = (I3.q - 1) / 2 := by decide +kernel
theorem gen_q : Gen.constants_q = I3.q := k_q

theorem cast_ja : ((I3.ja : ℕ) : F) = (168700 : ZMod I3.q) := by
  show ((168700 : ℕ) : ZMod I3.q) = 168700
  exact Nat.cast_ofNat

theorem cast_jd : ((I3.jd : ℕ) : F) = (168696 : ZMod I3.q) := by
  show ((168696 : ℕ) : ZMod I3.q) = 168696
  exact Nat.cast_ofNat

theorem xsq_eq (y : F) : xsq y = (1 - y ^ 2) / (curve.a - curve.d * y ^ 2) := by
  rw [xsq, curve_a, curve_d, cast_ja, cast_jd]

/-- `x² = (1 - y²)/(a - d y²)` is the curve equation -/
theorem onCurve_iff_xsq (x y : F) : curve.OnCurve x y ↔ x ^ 2 = xsq y := by
  rw [xsq_eq, eq_div_iff (den_ne_zero y)]
  unfold EdCurve.OnCurve
  constructor <;> intro h <;> linear_combination h

theorem xsq_point (P : curve.Point) : xsq P.y = P.x ^ 2 :=
  ((onCurve_iff_xsq P.x P.y).1 P.on).symm

theorem xsq_eq_zero_iff (y : F) : xsq y = 0 ↔ y ^ 2 = 1 := by
  rw [xsq_eq, div_eq_zero_iff]
  constructor
  · rintro (h | h)
    · rw [sub_eq_zero] at h; exact h.symm
    · exact absurd h (den_ne_zero y)
  · intro h; left; rw [h, sub_self]

/-! ### canonical representatives -/

theorem val_natCast_of_lt {n : ℕ} (h : n < I3.q) : ((n : ℕ) : F).val = n := by
  rw [ZMod.val_natCast, Nat.mod_eq_of_lt h]

theorem imod_lt (v : ℤ) : imod v I3.q < I3.q := by
  have hq : ((I3.q : ℕ) : ℤ) ≠ 0 := by have := q_pos; omega
  have h1 := Int.emod_nonneg v hq
  have h2 := Int.emod_lt_of_pos v (by have := q_pos; omega : (0 : ℤ) < (I3.q : ℤ))
  unfold imod; omega

theorem imod_eq_val (v : ℤ) : imod v I3.q = ((v : ℤ) : F).val := by
  rw [← cast_imod v, val_natCast_of_lt (imod_lt v)]

/-- canonical integers congruent to the coordinates of `P` are the canonical coordinates of `P` -/
theorem coords_of_cast {x y : ℤ} {P : curve.Point} (hx : 0 ≤ x ∧ x < I3.q) (hy : 0 ≤ y ∧ y < I3.q)
    (h1 : (x : F) = P.x) (h2 : (y : F) = P.y) : coords P = (x, y) := by
  simp only [coords, Prod.mk.injEq]
  rw [← h1, ← h2, ZMod.val_intCast, ZMod.val_intCast, Int.emod_eq_of_lt hx.1 hx.2,
    Int.emod_eq_of_lt hy.1 hy.2]
  exact ⟨rfl, rfl⟩

/-! ### the sign of a coordinate -/

theorem pointCoordSign_nat (r : ℕ) : pointCoordSign k (r : ℤ) = decide ((I3.q - 1) / 2 < r) := by
  unfold pointCoordSign
  rw [k_q_half]
  simp only [gt_iff_lt, Nat.cast_lt]

theorem pointCoordSign_val (x : F) : pointCoordSign k ((x.val : ℕ) : ℤ) = sgn x :=
  pointCoordSign_nat _

theorem pointCoordSign_coords (P : curve.Point) : pointCoordSign k (coords P).1 = sgn P.x :=
  pointCoordSign_val P.x

theorem sgn_natCast {n : ℕ} (h : n < I3.q) : sgn ((n : ℕ) : F) = pointCoordSign k (n : ℤ) := by
  rw [pointCoordSign_nat, sgn, val_natCast_of_lt h]

theorem sgn_zero : sgn (0 : F) = false := by
  simp [sgn]

/-- a square root is determined by its sign -/
theorem eq_of_sq_eq_of_sgn {a b : F} (h : a ^ 2 = b ^ 2) (hs : sgn a = sgn b) : a = b := by
  rcases sq_eq_sq_iff_eq_or_eq_neg.1 h with hx | hx
  · exact hx
  · by_cases h0 : b = 0
    · rw [hx, h0, neg_zero]
    · exfalso
      rw [hx] at hs
      unfold sgn at hs
      rw [ZMod.neg_val, if_neg h0, decide_eq_decide] at hs
      have hlt := ZMod.val_lt b
      have hpos : 0 < b.val := (ZMod.val_pos).2 h0
      have hodd := q_odd
      omega

/-- the sign fix-up of `PointFromSignAndY`: from either root `r` of a value, unless the sign bit
is set and the root is zero, the canonical root with the requested sign is produced. -/
theorem fixup (sign : Bool) (r : ℕ) (hr : r < I3.q) (h0 : ¬ (sign = true ∧ r = 0)) :
    let X := imod (if (sign != pointCoordSign k (r : ℤ)) = true then -(r : ℤ) else (r : ℤ)) I3.q
    X < I3.q ∧ pointCoordSign k (X : ℤ) = sign ∧ ((X : ℕ) : F) ^ 2 = ((r : ℕ) : F) ^ 2 := by
  intro X
  refine ⟨imod_lt _, ?_, ?_⟩
  · show pointCoordSign k ((imod _ I3.q : ℕ) : ℤ) = sign
    have hodd := q_odd
    by_cases hs : (sign != pointCoordSign k (r : ℤ)) = true
    · rw [if_pos hs]
      have hr0 : r ≠ 0 := by
        rintro rfl
        have : pointCoordSign k ((0 : ℕ) : ℤ) = false := by rw [pointCoordSign_nat]; simp
        rw [this] at hs
        cases sign
        · simp at hs
        · exact h0 ⟨rfl, rfl⟩
      have hi : imod (-(r : ℤ)) I3.q = I3.q - r := by
        unfold imod
        have : (-(r : ℤ)) % (I3.q : ℤ) = (I3.q : ℤ) - r := by
          rw [Int.emod_eq_iff (by have := q_pos; omega)]
          refine ⟨by omega, by omega, ⟨1, by ring⟩⟩
        rw [this]; omega
      rw [hi, pointCoordSign_nat]
      rw [pointCoordSign_nat] at hs
      cases sign <;> simp only [bne_iff_ne, ne_eq, decide_eq_true_eq, decide_eq_false_iff_not,
        Bool.false_eq, Bool.true_eq] at hs ⊢ <;> omega
    · rw [if_neg hs]
      have hi : imod (r : ℤ) I3.q = r := by
        unfold imod
        rw [← Int.natCast_mod, Int.toNat_natCast, Nat.mod_eq_of_lt hr]
      rw [hi]
      exact (by simpa using hs : sign = pointCoordSign k (r : ℤ)).symm
  · show ((imod _ I3.q : ℕ) : F) ^ 2 = _
    rw [cast_imod]
    split_ifs
    · push_cast; ring
    · push_cast; ring

/-! ### the straight-line part of `PointFromSignAndY` -/

/-- for a canonical `y`, `PointFromSignAndY` never reports `y ≥ q` or a division by zero, and the
value handed to the square root is the canonical representative of `(1 - y²)/(a - d y²)`. -/
theorem pointFromSignAndY_eq (sqrtFn : ℕ → Option ℕ) (sign : Bool) (y : ℕ) (hy : y < I3.q) :
    pointFromSignAndY k sqrtFn sign (y : ℤ) =
      match sqrtFn (xsq ((y : ℕ) : F)).val with
      | none => .error .notSquare
      | some r =>
        if (sign && r == 0) = true then .error .signOfZero
        else .ok (((imod (if (sign != pointCoordSign k (r : ℤ)) = true then -(r : ℤ) else (r : ℤ))
          I3.q : ℕ) : ℤ), (y : ℤ)) := by
  unfold pointFromSignAndY
  simp only [k_q, k_a', k_d']
  have h1 : ¬ ((y : ℤ) ≥ ((I3.q : ℕ) : ℤ)) := by omega
  rw [if_neg h1]
  have hxb : (((I3.ja : ℕ) : ℤ) - ((I3.jd : ℕ) : ℤ) * ((y : ℤ) * (y : ℤ) % ((I3.q : ℕ) : ℤ)) %
      ((I3.q : ℕ) : ℤ) : ℤ) = (curve.a - curve.d * ((y : ℕ) : F) ^ 2 : F) := by
    rw [curve_a, curve_d]
    simp only [Int.cast_sub, Int.cast_mul, ZMod.intCast_mod, Int.cast_natCast]
    ring
  have h2 : ¬ (((I3.ja : ℕ) : ℤ) - ((I3.jd : ℕ) : ℤ) * ((y : ℤ) * (y : ℤ) % ((I3.q : ℕ) : ℤ)) %
      ((I3.q : ℕ) : ℤ) = 0) := by
    intro h
    apply den_ne_zero ((y : ℕ) : F)
    rw [← hxb, h, Int.cast_zero]
  rw [if_neg h2]
  have hx : imod ((1 - (y : ℤ) * (y : ℤ) % ((I3.q : ℕ) : ℤ)) *
      ((invMod (imod (((I3.ja : ℕ) : ℤ) - ((I3.jd : ℕ) : ℤ) *
        ((y : ℤ) * (y : ℤ) % ((I3.q : ℕ) : ℤ)) % ((I3.q : ℕ) : ℤ)) I3.q) I3.q : ℕ) : ℤ)) I3.q =
      (xsq ((y : ℕ) : F)).val := by
    rw [imod_eq_val]
    congr 1
    rw [Int.cast_mul, Int.cast_natCast, cast_invMod, cast_imod, hxb, xsq_eq, div_eq_mul_inv]
    simp only [Int.cast_sub, Int.cast_mul, ZMod.intCast_mod, Int.cast_natCast, Int.cast_one]
    ring
  rw [hx]
  rfl

/-! ### `pruneBuffer` -/

section
theorem andF8_toNat : ∀ x : UInt8, (x &&& 0xF8).toNat = x.toNat / 8 * 8 :=
  forall_uint8 (by decide)

theorem and7F_or40_toNat : ∀ x : UInt8, ((x &&& 0x7F) ||| 0x40).toNat = x.toNat % 64 + 64 :=
  forall_uint8 (by decide)
end

/-- a 32-byte string splits into first byte, 30 middle bytes, last byte -/
theorem split32 (b : Bytes) (hb : b.length = 32) :
    b = [b.getD 0 0] ++ (b.drop 1).take 30 ++ [b.getD 31 0] ∧ ((b.drop 1).take 30).length = 30 := by
  match b, hb with
  | a :: t, hb =>
    have ht : t.length = 31 := by simpa using hb
    have := take_append_getD t 30 0 ht
    refine ⟨?_, by simp [ht]⟩
    simp only [List.getD_cons_zero, List.drop_succ_cons, List.drop_zero, List.getD_cons_succ,
      List.cons_append, List.nil_append, this]

/-- **`pruneBuffer` clamps**: on 32 bytes, the little-endian value of the pruned buffer is the
clamped little-endian value of the buffer. -/
theorem leToNat_prune (b : Bytes) (hb : b.length = 32) :
    leToNat (Model.EdDSA.prune b) = clamp (leToNat b) := by
  obtain ⟨hsplit, hmid⟩ := split32 b hb
  unfold Model.EdDSA.prune clamp
  generalize b.getD 0 0 = b0 at *
  generalize b.getD 31 0 = b31 at *
  generalize (b.drop 1).take 30 = mid at *
  rw [hsplit]
  simp only [List.append_assoc, leToNat_append, List.length_cons, List.length_nil, hmid, leToNat,
    andF8_toNat, and7F_or40_toNat]
  have h0 := b0.toNat_lt
  have h31 := b31.toNat_lt
  have hm := leToNat_lt mid
  rw [hmid] at hm
  generalize leToNat mid = M at *
  generalize b0.toNat = x at *
  generalize b31.toNat = z at *
  norm_num only at hm ⊢
  omega

theorem clamp_range (n : ℕ) : 2 ^ 254 ≤ clamp n ∧ clamp n < 2 ^ 255 ∧ clamp n % 8 = 0 := by
  unfold clamp
  have := Nat.mod_lt n (show 0 < 2 ^ 254 by norm_num)
  norm_num only at this ⊢
  omega

end I3.Lemmas.Compress
