/-
  I3.Lemmas.GoSafe — panic-freedom of the CHECKED VARIANTS `<name>_ok` that the source translator T6 emits next to
  every translated function (`I3/Gen/GoChk*.lean`): `f_ok args = true` iff the call `f(args)` reaches a `return`
  without an index out of range, a slice-bound violation, a negative `make`, a division by zero, a nil
  dereference, a too small `FillBytes` / `hex.Decode` destination or an explicit `panic` — here or in a callee.

  This file holds
    * §1–3 the general lemmas: `req_eq_true_iff`, `req_of` (a requirement that holds disappears), the loop rules
      `forRangeRet_inv` (the body neither returns nor fails while an invariant holds), `forRangeRet_safe` (the
      body may `return`), `forRangeRet_first` / `forRangeRet_first_fails`, `inRange` / `sliceOk` facts, the
      lengths of the lists produced by `make` / `set` / `copyInto` / `slice`;
    * §4–12 the `_ok = true` lemmas (or the exact frontier `_ok = true ↔ …` where a Go ARRAY parameter is a list
      here, or where Go really panics) of the helper functions: utils, the Poseidon round pieces, MiMC7, the
      curve arithmetic, the point / signature codecs, the EdDSA key derivation, Poseidon over Goldilocks, the
      external hashers — on which I3.Props.C07Safe / C03Safe / C15Safe / C02Safe build — together with the
      lengths of the intermediate lists of the ORDINARY generated functions that the requirements refer to.

  Proof technique.  A checked variant is opened with `unfold` (or, when a callee is expensive for the kernel,
  at function level with `go_delta` followed by `generalize` of the callees and `as_aux_lemma`, so that the kernel
  only ever sees VARIABLES in the discriminants of the generated `match`es — see the notes at the top of
  I3.Lemmas.GoBridgeEdDSA / GoBridgeCodec), `dsimp only` turns the generated `let (a, b) := …` into projections,
  requirements are discharged one by one (`req_eq_true_iff` / `req_of`), loops by an invariant
  (`generalize hr : Go.forRangeRet _ _ _ _ = r` picks the outermost loop, `forRangeRet_inv P hr …` yields
  `r.1 = none ∧ P r.2`).  Pitfalls met here: `unfold f` / `unfold f at h` goes through the equation lemma of `f`,
  whose right-hand side is NOT syntactically the body — with an expensive callee in a `match` discriminant the
  kernel then evaluates it (use `go_delta`); a closing `exact h` up to `(none, x).2 ≡ x` may unfold `x` instead
  (closed loop bounds: minutes) — `dsimp only` first; `generalize` of a loop among several loops with closed
  bounds needs `with_reducible`.
-/
import I3.Gen.GoChkBabyjub
import I3.Gen.GoChkGolden
import I3.Gen.GoChkKeccak
import I3.Lemmas.GoBridgeCodec
import I3.Lemmas.GoBridgeGolden

set_option maxRecDepth 100000

namespace I3.GoSafe
open I3 I3.Go I3.Gen.Go
open I3.GoBridge.Mimc7 (loopRet forRangeRet_eq_loopRet)
open I3.GoBridge I3.GoBridge.Codec
open I3.Go.Ext (bytesToChars)

/-- unfold the generated definition `f` at function level in the goal -/
macro "go_delta " f:ident : tactic =>
  `(tactic| (have hf := @rfl _ $f; conv at hf => rhs; delta $f
             rw [hf]; clear hf; beta_reduce))

/-! ## 1. requirements -/

/-- a requirement in a function body: the condition holds and the continuation is panic-free -/
theorem req_eq_true_iff (c k : Bool) : Go.req c k = true ↔ c = true ∧ k = true := by
  cases c <;> simp [Go.req, HasFail.fail]

/-- a requirement that holds disappears (any result type: function body or loop body) -/
theorem req_of {α} [HasFail α] {c : Bool} (h : c = true) (k : α) : Go.req c k = k := by
  subst h; rfl

theorem req_true {α} [HasFail α] (k : α) : Go.req true k = k := rfl

/-- a requirement under the right operand of `&&` / `||` is conditional on the left operand -/
theorem req_or_of {α} [HasFail α] {g c : Bool} (h : c = true) (k : α) : Go.req (g || c) k = k := by
  subst h; rw [Bool.or_true]; rfl

theorem req_or_or_of {α} [HasFail α] {g g' c : Bool} (h : c = true) (k : α) :
    Go.req (g || (g' || c)) k = k := by
  subst h; rw [Bool.or_true, Bool.or_true]; rfl

/-- a requirement that fails in a function body -/
theorem req_false_bool {c : Bool} (h : c = false) (k : Bool) : Go.req c k = false := by
  subst h; rfl

/-- a requirement that fails in a loop body: "return false" -/
theorem req_false_loop {σ} [Inhabited σ] {c : Bool} (h : c = false) (k : Option Bool × σ) :
    Go.req c k = (some false, default) := by
  subst h; rfl

/-! ## 2. indices, slices, lengths -/

section lists
variable {α : Type}

theorem len_eq (l : List α) : Go.len l = (l.length : Int) := rfl
theorem len_nonneg (l : List α) : decide ((0 : Int) ≤ Go.len l) = true := by
  simp [Go.len]

theorem inRange_iff (l : List α) (i : Int) : Go.inRange l i = true ↔ 0 ≤ i ∧ i < (l.length : Int) := by
  simp [Go.inRange]
theorem inRange_of {l : List α} {i : Int} (h0 : 0 ≤ i) (h1 : i < (l.length : Int)) : Go.inRange l i = true :=
  (inRange_iff l i).2 ⟨h0, h1⟩
theorem inRange_set (l : List α) (i j : Int) (v : α) : Go.inRange (Go.set l i v) j = Go.inRange l j := by
  simp [Go.inRange, Go.set]
theorem inRange_nil (i : Int) : Go.inRange ([] : List α) i = false := by
  simp [Go.inRange]

theorem sliceOk_iff (l : List α) (lo hi : Int) :
    Go.sliceOk l lo hi = true ↔ 0 ≤ lo ∧ lo ≤ hi ∧ hi ≤ (l.length : Int) := by
  simp [Go.sliceOk]
theorem sliceOk_of {l : List α} {lo hi : Int} (h0 : 0 ≤ lo) (h1 : lo ≤ hi) (h2 : hi ≤ (l.length : Int)) :
    Go.sliceOk l lo hi = true := (sliceOk_iff l lo hi).2 ⟨h0, h1, h2⟩
/-- `x[:]` / `copy(x[:], …)` -/
theorem sliceOk_full (l : List α) : Go.sliceOk l 0 (Go.len l) = true :=
  sliceOk_of (Int.le_refl _) (by simp [Go.len]) (Int.le_refl _)
/-- `x[k:]` for `k ≤ len(x)` -/
theorem sliceOk_from {l : List α} {k : Int} (h0 : 0 ≤ k) (h1 : k ≤ (l.length : Int)) :
    Go.sliceOk l k (Go.len l) = true := sliceOk_of h0 h1 (Int.le_refl _)

theorem length_set (l : List α) (i : Int) (v : α) : (Go.set l i v).length = l.length := by
  simp [Go.set]
theorem length_make [Inhabited α] (n : Int) : (Go.make n : List α).length = n.toNat := by
  simp [Go.make]
/-- `copy` never changes the length of the destination -/
theorem length_copyInto (dst : List α) (lo hi : Int) (src : List α) :
    (Go.copyInto dst lo hi src).length = dst.length := by
  unfold Go.copyInto
  simp only [List.length_append, List.length_take, List.length_drop]
  omega
theorem length_slice (l : List α) (lo hi : Int) :
    (Go.slice l lo hi).length = min hi.toNat l.length - lo.toNat := by
  simp [Go.slice]

end lists

/-! ## 3. loops -/

section loops
variable {ρ σ : Type}

theorem loopRet_inv (P : σ → Prop) (f : Int → σ → Option ρ × σ) (n : Nat) (lo : Int) (s : σ) (hs : P s)
    (hstep : ∀ i s, lo ≤ i → i < lo + (n : Int) → P s → (f i s).1 = none ∧ P (f i s).2) :
    (loopRet f n lo s).1 = none ∧ P (loopRet f n lo s).2 := by
  induction n generalizing lo s with
  | zero => exact ⟨rfl, hs⟩
  | succ n ih =>
    rw [loopRet]
    obtain ⟨h1, h2⟩ := hstep lo s (Int.le_refl _) (by omega) hs
    rcases hf : f lo s with ⟨_ | r, s'⟩
    · rw [hf] at h2
      exact ih (lo + 1) s' h2 (fun i s hi1 hi2 => hstep i s (by omega) (by omega))
    · rw [hf] at h1; cases h1

/-- LOOP RULE: while the invariant `P` holds the body neither returns nor fails and re-establishes `P`; then the
    loop falls through (`.1 = none`) with `P` on the final state. -/
theorem forRangeRet_inv (P : σ → Prop) {lo hi : Int} {f : Int → σ → Option ρ × σ} {s : σ}
    {r : Option ρ × σ} (hr : Go.forRangeRet lo hi f s = r) (hs : P s)
    (hstep : ∀ i s, lo ≤ i → i < hi → P s → (f i s).1 = none ∧ P (f i s).2) :
    r.1 = none ∧ P r.2 := by
  subst hr
  rw [forRangeRet_eq_loopRet]
  exact loopRet_inv P f _ lo s hs (fun i s h1 h2 => hstep i s h1 (by omega))

theorem loopRet_safe (P : σ → Prop) (f : Int → σ → Option Bool × σ) (n : Nat) (lo : Int) (s : σ) (hs : P s)
    (hstep : ∀ i s, lo ≤ i → i < lo + (n : Int) → P s →
      (f i s).1 = some true ∨ ((f i s).1 = none ∧ P (f i s).2)) :
    (loopRet f n lo s).1 = some true ∨ ((loopRet f n lo s).1 = none ∧ P (loopRet f n lo s).2) := by
  induction n generalizing lo s with
  | zero => exact Or.inr ⟨rfl, hs⟩
  | succ n ih =>
    rw [loopRet]
    have h := hstep lo s (Int.le_refl _) (by omega) hs
    rcases hf : f lo s with ⟨_ | r, s'⟩
    · rw [hf] at h
      rcases h with h | ⟨_, h2⟩
      · cases h
      · exact ih (lo + 1) s' h2 (fun i s hi1 hi2 => hstep i s (by omega) (by omega))
    · rw [hf] at h
      rcases h with h | ⟨h, _⟩
      · exact Or.inl h
      · cases h

/-- LOOP RULE for a body that may `return` (a checked variant then yields `some true`): the loop never yields
    `some false`. -/
theorem forRangeRet_safe (P : σ → Prop) {lo hi : Int} {f : Int → σ → Option Bool × σ} {s : σ}
    {r : Option Bool × σ} (hr : Go.forRangeRet lo hi f s = r) (hs : P s)
    (hstep : ∀ i s, lo ≤ i → i < hi → P s → (f i s).1 = some true ∨ ((f i s).1 = none ∧ P (f i s).2)) :
    r.1 = some true ∨ (r.1 = none ∧ P r.2) := by
  subst hr
  rw [forRangeRet_eq_loopRet]
  exact loopRet_safe P f _ lo s hs (fun i s h1 h2 => hstep i s h1 (by omega))

/-- a loop that is not entered -/
theorem forRangeRet_of_le {lo hi : Int} (h : hi ≤ lo) (f : Int → σ → Option ρ × σ) (s : σ) :
    Go.forRangeRet lo hi f s = (none, s) := by
  rw [forRangeRet_eq_loopRet, Int.toNat_eq_zero.2 (by omega)]; rfl

/-- the first iteration of a loop that is entered -/
theorem forRangeRet_first {lo hi : Int} (h : lo < hi) (f : Int → σ → Option ρ × σ) (s : σ) :
    Go.forRangeRet lo hi f s =
      match f lo s with
      | (some r, s') => (some r, s')
      | (none, s') => Go.forRangeRet (lo + 1) hi f s' := by
  have e : (hi - lo).toNat = (hi - (lo + 1)).toNat + 1 := by omega
  rw [forRangeRet_eq_loopRet, e, loopRet]
  rcases f lo s with ⟨_ | r, s'⟩
  · simp only; rw [forRangeRet_eq_loopRet]
  · rfl

/-- a loop whose first iteration fails -/
theorem forRangeRet_first_fails {lo hi : Int} {f : Int → σ → Option Bool × σ} {s : σ} {r : Option Bool × σ}
    (hr : Go.forRangeRet lo hi f s = r) (h : lo < hi) (hf : (f lo s).1 = some false) : r.1 = some false := by
  subst hr
  rw [forRangeRet_first h]
  rcases hfs : f lo s with ⟨_ | r, s'⟩
  · rw [hfs] at hf; cases hf
  · rw [hfs] at hf; exact hf

end loops

/-! ## 4. utils -/

theorem utils_SwapEndianness_ok_true (xs : List UInt8) : utils_SwapEndianness_ok xs = true := by
  unfold utils_SwapEndianness_ok
  dsimp only
  refine (req_eq_true_iff _ _).2 ⟨len_nonneg xs, ?_⟩
  generalize hr : Go.forRangeRet _ _ _ _ = r
  obtain ⟨h1, -⟩ := forRangeRet_inv (fun ys : List UInt8 => ys.length = xs.length) hr
    (by simp [Go.make, Go.len]) (by
      intro i ys hi1 hi2 hP
      have h : Go.inRange ys (Go.len xs - 1 - i) = true := by
        rw [inRange_iff, hP]; simp only [Go.len] at hi2 ⊢; omega
      rw [req_of h]
      exact ⟨rfl, by rw [length_set, hP]⟩)
  obtain ⟨ret, st⟩ := r
  cases h1
  rfl

theorem utils_SwapEndianness_length (xs : List UInt8) : (utils_SwapEndianness xs).length = xs.length := by
  rw [GoBridge.utils_SwapEndianness_eq, List.length_reverse]

theorem utils_BigIntLEBytes_ok_true (v : Int) : utils_BigIntLEBytes_ok v = true := by
  unfold utils_BigIntLEBytes_ok
  dsimp only
  rw [req_of (utils_SwapEndianness_ok_true _), req_of (sliceOk_full _)]

theorem utils_BigIntLEBytes_length (v : Int) : (utils_BigIntLEBytes v).length = 32 := by
  unfold utils_BigIntLEBytes
  dsimp only
  rw [length_copyInto, List.length_replicate]

theorem utils_SetBigIntFromLEBytes_ok_true (v : Int) (b : List UInt8) :
    utils_SetBigIntFromLEBytes_ok v b = true := by
  unfold utils_SetBigIntFromLEBytes_ok
  dsimp only
  rw [req_of (utils_SwapEndianness_ok_true _)]

theorem utils_Hex_MarshalText_ok_true (b : List UInt8) : utils_Hex_MarshalText_ok b = true := rfl
theorem utils_Hex_String_ok_true (b : List UInt8) : utils_Hex_String_ok b = true := rfl
theorem utils_HexEncode_ok_true (b : List UInt8) : utils_HexEncode_ok b = true := rfl
theorem utils_HexDecode_ok_true (h : String) : utils_HexDecode_ok h = true := rfl
theorem utils_CheckBigIntInField_ok_true (a : Int) : utils_CheckBigIntInField_ok a = true := rfl

theorem utils_CheckBigIntArrayInField_ok_true (arr : List Int) :
    utils_CheckBigIntArrayInField_ok arr = true := by
  unfold utils_CheckBigIntArrayInField_ok
  dsimp only
  generalize hr : Go.forRangeRet _ _ _ _ = r
  have h := forRangeRet_safe (fun _ : Unit => True) hr trivial (by
      intro i s _ _ _
      rw [req_of (utils_CheckBigIntInField_ok_true _)]
      split
      · exact Or.inl rfl
      · exact Or.inr ⟨rfl, trivial⟩)
  obtain ⟨ret, st⟩ := r
  rcases h with h | ⟨h, -⟩ <;> cases h <;> rfl

theorem utils_BigIntArrayToElementArray_ok_true (bi : List Int) :
    utils_BigIntArrayToElementArray_ok bi = true := by
  unfold utils_BigIntArrayToElementArray_ok
  dsimp only
  refine (req_eq_true_iff _ _).2 ⟨len_nonneg bi, ?_⟩
  generalize hr : Go.forRangeRet _ _ _ _ = r
  obtain ⟨h1, -⟩ := forRangeRet_inv (fun o : List Nat => o.length = bi.length) hr
    (by simp [Go.make, Go.len]) (by
      intro i o hi1 hi2 hP
      rw [len_eq] at hi2
      rw [req_of (inRange_of hi1 hi2), req_of (inRange_of hi1 (by rw [hP]; exact hi2))]
      exact ⟨rfl, by rw [length_set, hP]⟩)
  obtain ⟨ret, st⟩ := r
  cases h1
  rfl

theorem utils_ElementArrayToBigIntArray_ok_true (e : List Nat) :
    utils_ElementArrayToBigIntArray_ok e = true := by
  unfold utils_ElementArrayToBigIntArray_ok
  dsimp only
  refine (req_eq_true_iff _ _).2 ⟨len_nonneg e, ?_⟩
  generalize hr : Go.forRangeRet _ _ _ _ = r
  obtain ⟨h1, -⟩ := forRangeRet_inv (fun o : List Int => o.length = e.length) hr
    (by simp [Go.make, Go.len]) (by
      intro i o hi1 hi2 hP
      rw [len_eq] at hi2
      rw [req_of (inRange_of hi1 hi2), req_of (inRange_of hi1 (by rw [hP]; exact hi2))]
      exact ⟨rfl, by rw [length_set, hP]⟩)
  obtain ⟨ret, st⟩ := r
  cases h1
  rfl

theorem utils_BigIntArrayToElementArray_length (bi : List Int) :
    (utils_BigIntArrayToElementArray bi).length = bi.length := by
  rw [GoBridge.PoseidonAux.utils_BigIntArrayToElementArray_eq, List.length_map]

/-- the destination of `hex.Decode` fits as soon as `len(h)/2 == len(dst)` -/
theorem hexDecodeFits_of (dst h : List UInt8) (hl : (Go.idiv (Go.len h) 2 != Go.len dst) = false) :
    Go.Ext.hexDecodeFits dst h = true := by
  rw [idiv_len_ne] at hl
  have hl' : h.length / 2 = dst.length := by simpa using hl
  have := hexDecodeChars_length_le (bytesToChars h)
  rw [bytesToChars_length] at this
  unfold Go.Ext.hexDecodeFits
  rw [decide_eq_true_eq]
  omega

theorem hasPrefix_0x_length (h : List UInt8) (hp : Go.Ext.bytesHasPrefix h (Go.strBytes "0x") = true) :
    2 ≤ h.length := by
  rw [strBytes_0x] at hp
  unfold Go.Ext.bytesHasPrefix at hp
  rw [List.isPrefixOf_iff_prefix] at hp
  have := hp.length_le
  simpa using this

/-- **`utils.HexDecodeInto(dst, h)`** never panics: the length test precedes `hex.Decode`. -/
theorem utils_HexDecodeInto_ok_true (dst h : List UInt8) : utils_HexDecodeInto_ok dst h = true := by
  unfold utils_HexDecodeInto_ok
  dsimp only
  have h2 : ((2 : Int) != 0) = true := by decide
  split
  · next hp =>
    have := hasPrefix_0x_length h hp
    rw [req_of (sliceOk_from (by decide) (by omega)), req_of h2]
    split
    · rfl
    · next hl =>
      rw [req_of (hexDecodeFits_of _ _ (by simpa using hl))]
      split <;> [rfl; (split <;> rfl)]
  · rw [req_of h2]
    split
    · rfl
    · next hl =>
      rw [req_of (hexDecodeFits_of _ _ (by simpa using hl))]
      split <;> [rfl; (split <;> rfl)]

theorem utils_HexDecodeInto_length (dst h : List UInt8) : (utils_HexDecodeInto dst h).2.length = dst.length := by
  rw [utils_HexDecodeInto_eq, hexIntoDst_length]

/-! ## 5. Poseidon round pieces -/

theorem poseidon_exp5_ok_true (a : Nat) : poseidon_exp5_ok a = true := rfl
theorem poseidon_zero_ok_true : poseidon_zero_ok = true := rfl

theorem poseidon_exp5state_ok_true (state : List Nat) : poseidon_exp5state_ok state = true := by
  unfold poseidon_exp5state_ok
  dsimp only
  generalize hr : Go.forRangeRet _ _ _ _ = r
  obtain ⟨h1, -⟩ := forRangeRet_inv (fun s : List Nat => s.length = state.length) hr rfl (by
      intro i s hi1 hi2 hP
      rw [len_eq, ← hP] at hi2
      rw [req_of (inRange_of hi1 hi2), req_of (poseidon_exp5_ok_true _), req_of (inRange_of hi1 hi2)]
      exact ⟨rfl, by rw [length_set, hP]⟩)
  obtain ⟨ret, st⟩ := r
  cases h1
  rfl

theorem poseidon_exp5state_length (state : List Nat) : (poseidon_exp5state state).length = state.length := by
  rw [poseidon_exp5state_eq]; unfold Model.Poseidon.sboxAll; rw [List.length_map]

/-- `ark(state, c, it)` does not panic when the constants `c[it .. it+len(state))` exist -/
theorem poseidon_ark_ok_of (state c : List Nat) (it : Int) (h0 : 0 ≤ it)
    (h1 : it + (state.length : Int) ≤ (c.length : Int)) : poseidon_ark_ok state c it = true := by
  unfold poseidon_ark_ok
  dsimp only
  generalize hr : Go.forRangeRet _ _ _ _ = r
  obtain ⟨h1, -⟩ := forRangeRet_inv (fun s : List Nat => s.length = state.length) hr rfl (by
      intro i s hi1 hi2 hP
      rw [len_eq] at hi2
      have hs : Go.inRange s i = true := inRange_of hi1 (by rw [hP]; exact hi2)
      rw [req_of hs, req_of (inRange_of (by omega) (by omega)), req_of hs, inRange_set, req_of hs]
      exact ⟨rfl, by rw [length_set, hP]⟩)
  obtain ⟨ret, st⟩ := r
  cases h1
  rfl

theorem poseidon_ark_length (state c : List Nat) (it : Int) : (poseidon_ark state c it).length = state.length := by
  rw [poseidon_ark_mapIdx, List.length_mapIdx]

theorem inRange_row {m : List (List Nat)} {n : Nat} (hrow : ∀ r ∈ m, n ≤ r.length) {j i : Int}
    (hj0 : 0 ≤ j) (hj : j < (m.length : Int)) (hi0 : 0 ≤ i) (hi : i < (n : Int)) :
    Go.inRange (Go.idx m j) i = true := by
  refine inRange_of hi0 ?_
  have hjn : j.toNat < m.length := by omega
  have : Go.idx m j = m[j.toNat] := by
    unfold Go.idx
    rw [List.getD_eq_getElem?_getD, List.getElem?_eq_getElem hjn]; rfl
  rw [this]
  have := hrow m[j.toNat] (List.getElem_mem hjn)
  omega

/-- `mix(state, t, m)` does not panic when `t = len(state)` and `m` has at least `t` rows of at least `t` entries -/
theorem poseidon_mix_ok_of (state : List Nat) (t : Int) (m : List (List Nat)) (ht : t = (state.length : Int))
    (hm : state.length ≤ m.length) (hrow : ∀ r ∈ m, state.length ≤ r.length) :
    poseidon_mix_ok state t m = true := by
  unfold poseidon_mix_ok
  dsimp only
  rw [req_of poseidon_zero_ok_true, req_of (by rw [ht]; simp)]
  generalize hr : Go.forRangeRet _ _ _ _ = r
  obtain ⟨h1, h2⟩ := forRangeRet_inv (fun s : List Nat => s.length = state.length) hr
    (by rw [length_make, ht]; simp) (by
      intro i s hi1 hi2 hP
      rw [req_of poseidon_zero_ok_true, req_of (inRange_of hi1 (by omega))]
      exact ⟨rfl, by rw [length_set, hP]⟩)
  obtain ⟨ret, st⟩ := r
  cases h1
  dsimp only at h2 ⊢
  generalize hr2 : Go.forRangeRet _ _ _ _ = r2
  obtain ⟨h3, -⟩ := forRangeRet_inv (fun x : Nat × List Nat => x.2.length = state.length) hr2 h2 (by
      intro i x hi1 hi2 hP
      rw [len_eq] at hi2
      have hx : Go.inRange x.2 i = true := inRange_of hi1 (by omega)
      rw [req_of hx, inRange_set, req_of hx]
      generalize hr3 : Go.forRangeRet _ _ _ _ = r3
      obtain ⟨h4, h5⟩ := forRangeRet_inv (fun y : Nat × List Nat => y.2.length = state.length) hr3
        (by dsimp only; rw [length_set, hP]) (by
          intro j y hj1 hj2 hQ
          rw [len_eq] at hj2
          have hy : Go.inRange y.2 i = true := inRange_of hi1 (by omega)
          rw [req_of (inRange_of hj1 (by omega)), req_of (inRange_row hrow hj1 (by omega) hi1 hi2),
            req_of (inRange_of hj1 hj2), req_of hy, req_of hy, inRange_set, req_of hy]
          exact ⟨rfl, by dsimp only; rw [length_set, hQ]⟩)
      obtain ⟨ret3, a, b⟩ := r3
      cases h4
      exact ⟨rfl, h5⟩)
  obtain ⟨ret2, st2⟩ := r2
  cases h3
  rfl

theorem poseidon_mix_length (state : List Nat) (t : Int) (m : List (List Nat)) (ht : t = (state.length : Int)) :
    (poseidon_mix state t m).length = state.length := by
  rw [poseidon_mix_eq state t m ht]
  unfold Model.Poseidon.mix
  simp

/-! ## 6. MiMC7 -/

theorem constants_Q_ne_zero : (Go.Ext.constants_Q != 0) = true := by decide

/-- a Keccak-256 digest read as a big-endian integer fits into 32 bytes -/
theorem keccak_setBytes_fits (data : List Bytes) (buf : List UInt8) (hb : buf.length = 32) :
    Go.big.fillOk (Go.big.setBytes (Go.Ext.keccak256 data)) buf = true := by
  unfold Go.big.fillOk Go.big.setBytes Go.Ext.keccak256
  rw [decide_eq_true_eq, Int.natAbs_natCast, hb]
  have := Lemmas.Conv.beToNat_lt (Keccak.keccak256 data.flatten)
  rw [Props.C20.keccak_digest_length] at this
  exact this

/-- `getConstants(seed, nRounds)` panics exactly for `nRounds ≤ 0` (`make` with a negative length, resp. `cts[0]`
    on an empty slice). -/
theorem mimc7_getConstants_ok_iff (seed : String) (n : Int) : mimc7_getConstants_ok seed n = true ↔ 1 ≤ n := by
  unfold mimc7_getConstants_ok
  dsimp only
  constructor
  · intro h
    obtain ⟨h1, h2⟩ := (req_eq_true_iff _ _).1 h
    obtain ⟨h3, -⟩ := (req_eq_true_iff _ _).1 h2
    rw [inRange_iff, length_make] at h3
    omega
  · intro hn
    have hmk : (Go.make n : List Nat).length = n.toNat := length_make n
    rw [req_of (by rw [decide_eq_true_eq]; omega), req_of (inRange_of (Int.le_refl _) (by rw [hmk]; omega))]
    generalize hr : Go.forRangeRet _ _ _ _ = r
    obtain ⟨h1, -⟩ := forRangeRet_inv
      (fun x : List Nat × Int => x.1.length = n.toNat ∧ ∃ d, x.2 = Go.big.setBytes (Go.Ext.keccak256 d)) hr
      ⟨by dsimp only; rw [length_set, hmk], _, rfl⟩ (by
        rintro i x hi1 hi2 ⟨hP, d, hd⟩
        have h32 : (Go.make (32 : Int) : List UInt8).length = 32 := rfl
        rw [req_of (by decide), req_of (by rw [hd]; exact keccak_setBytes_fits d _ h32),
          req_of constants_Q_ne_zero, req_of (inRange_of (by omega) (by omega))]
        exact ⟨rfl, by dsimp only; rw [length_set, hP], _, rfl⟩)
    obtain ⟨ret, st⟩ := r
    cases h1
    rfl

theorem mimc7_getConstants_ok_nonpos (seed : String) (n : Int) (hn : n ≤ 0) :
    mimc7_getConstants_ok seed n = false := by
  cases h : mimc7_getConstants_ok seed n
  · rfl
  · have := (mimc7_getConstants_ok_iff seed n).1 h; omega

/-- the body shared by `MIMC7HashGeneric` and `MIMC7Hash`: round `i` reads `cts[i]` for `i ≥ 1` -/
theorem mimc7_rounds_ok (cts : List Nat) (n : Int) (hc : cts.length = n.toNat) (xIn k r0 : Nat) :
    (match
      (Go.forRangeRet (ρ := Bool) (σ := Nat) 0 n
        (fun i r =>
          if (i == (0 : Int)) = true then
            (none, Go.fe.mul Gen.ff_modulus (Go.fe.mul Gen.ff_modulus
              (Go.fe.square Gen.ff_modulus (Go.fe.square Gen.ff_modulus (Go.fe.add Gen.ff_modulus xIn k)))
              (Go.fe.square Gen.ff_modulus (Go.fe.add Gen.ff_modulus xIn k))) (Go.fe.add Gen.ff_modulus xIn k))
          else
            Go.req (Go.inRange cts i)
              (none, Go.fe.mul Gen.ff_modulus (Go.fe.mul Gen.ff_modulus
                (Go.fe.square Gen.ff_modulus (Go.fe.square Gen.ff_modulus
                  (Go.fe.add Gen.ff_modulus (Go.fe.add Gen.ff_modulus r k) (Go.idx cts i))))
                (Go.fe.square Gen.ff_modulus
                  (Go.fe.add Gen.ff_modulus (Go.fe.add Gen.ff_modulus r k) (Go.idx cts i))))
                (Go.fe.add Gen.ff_modulus (Go.fe.add Gen.ff_modulus r k) (Go.idx cts i))))
        r0).1 with
      | some rv => rv
      | none => true) = true := by
  generalize hr : Go.forRangeRet _ _ _ _ = r
  obtain ⟨h1, -⟩ := forRangeRet_inv (fun _ : Nat => True) hr trivial (by
      intro i r hi1 hi2 _
      split
      · exact ⟨rfl, trivial⟩
      · rw [req_of (inRange_of hi1 (by omega))]
        exact ⟨rfl, trivial⟩)
  obtain ⟨ret, st⟩ := r
  cases h1
  rfl

/-- `MIMC7HashGeneric(x, k, nRounds)` panics exactly for `nRounds ≤ 0` (in `getConstants`). -/
theorem mimc7_MIMC7HashGeneric_ok_iff (x k n : Int) : mimc7_MIMC7HashGeneric_ok x k n = true ↔ 1 ≤ n := by
  unfold mimc7_MIMC7HashGeneric_ok
  dsimp only
  rw [req_eq_true_iff, mimc7_getConstants_ok_iff]
  constructor
  · exact fun h => h.1
  · intro hn
    exact ⟨hn, mimc7_rounds_ok _ n (mimc7_getConstants_length "mimc" n) _ _ _⟩

/-- `MIMC7Hash(x, k)` (91 rounds, the package-level constants) never panics. -/
theorem mimc7_MIMC7Hash_ok_true (x k : Int) : mimc7_MIMC7Hash_ok x k = true := by
  have hlen : mimc7_constants.2.2.2.length = (91 : Int).toNat := by
    rw [mimc7_constants_cts_eq, mimc7_getConstants_length]
  go_delta mimc7_MIMC7Hash_ok
  rw [mimc7_constants_nRounds]
  generalize mimc7_constants.2.2.2 = cts at hlen ⊢
  as_aux_lemma =>
    dsimp only
    exact mimc7_rounds_ok cts 91 hlen _ _ _

/-! ## 7. pieces of the Poseidon / MiMC7 entry points (used by I3.Props.C07Safe) -/

section pieces
open I3.GoBridge.PoseidonAux

theorem mul_bound {i k t : Int} (h0 : 0 ≤ i) (h1 : i ≤ k) (ht : 0 ≤ t) : 0 ≤ i * t ∧ i * t ≤ k * t :=
  ⟨Int.mul_nonneg h0 ht, Int.mul_le_mul_of_nonneg_right h1 ht⟩

theorem sparse_bound {w i rp : Int} (hw : 0 ≤ w) (hi0 : 0 ≤ i) (hi : i < rp) :
    0 ≤ w * i ∧ w * i + w ≤ w * rp := by
  refine ⟨Int.mul_nonneg hw hi0, ?_⟩
  have := Int.mul_le_mul_of_nonneg_left (show i + 1 ≤ rp by omega) hw
  rw [Int.mul_add, Int.mul_one] at this
  exact this

theorem NROUNDSP_length : poseidon_NROUNDSP.length = 16 := rfl
theorem poseidon_c_lengths : Go.Ext.poseidon_c.1.length = 16 ∧ Go.Ext.poseidon_c.2.1.length = 16 ∧
    Go.Ext.poseidon_c.2.2.1.length = 16 ∧ Go.Ext.poseidon_c.2.2.2.length = 16 := by
  unfold Go.Ext.poseidon_c
  simp only [List.length_map]
  exact ⟨rfl, rfl, rfl, rfl⟩

/-- one full round `exp5state; ark; mix` on a state of `T` lanes: the three calls are panic-free and the result
    has `T` lanes again -/
theorem fullRound_ok (T : Nat) (C : List Nat) (M : List (List Nat)) (s : List Nat) (it : Int)
    (hs : s.length = T) (h0 : 0 ≤ it) (hit : it + (T : Int) ≤ (C.length : Int))
    (hM : T ≤ M.length) (hMr : ∀ x ∈ M, T ≤ x.length) :
    poseidon_exp5state_ok s = true ∧ poseidon_ark_ok (poseidon_exp5state s) C it = true ∧
    poseidon_mix_ok (poseidon_ark (poseidon_exp5state s) C it) (T : Int) M = true ∧
    (poseidon_mix (poseidon_ark (poseidon_exp5state s) C it) (T : Int) M).length = T := by
  have h1 : (poseidon_exp5state s).length = T := by rw [poseidon_exp5state_length, hs]
  have h2 : (poseidon_ark (poseidon_exp5state s) C it).length = T := by rw [poseidon_ark_length, h1]
  refine ⟨poseidon_exp5state_ok_true s, poseidon_ark_ok_of _ _ _ h0 (by rw [h1]; exact hit),
    poseidon_mix_ok_of _ _ _ (by rw [h2]) (by rw [h2]; exact hM) (by rw [h2]; exact hMr), ?_⟩
  rw [poseidon_mix_length _ _ _ (by rw [h2]), h2]

/-- without an error `HashWithStateEx` returns exactly `nOuts` values -/
theorem poseidon_HashWithStateEx_length (inp : List Int) (st n : Int)
    (h : (poseidon_HashWithStateEx inp st n).2 = none) :
    ((poseidon_HashWithStateEx inp st n).1.length : Int) = n := by
  obtain ⟨r, hr⟩ := (poseidon_HashWithStateEx_noerr_iff inp st n).1 h
  rw [(poseidon_HashWithStateEx_ok_iff inp st n r).1 hr]
  dsimp only
  rw [List.length_map]
  exact Props.C07.poseidon_ok_length _ _ _ _ _ _ _ Props.C07.inst_tablesPresent r hr

/-- the loop of `mimc7.Hash` (both branches): every requirement of the body holds -/
theorem mimc7_hashLoop_ok (arr : List Int) (r0 : Int) :
    (match
      (Go.forRangeRet (ρ := Bool) (σ := Int) 0 (Go.len arr)
        (fun i r =>
          Go.req (Go.inRange arr i)
            (Go.req (Go.inRange arr i)
              (Go.req (mimc7_MIMC7Hash_ok (Go.idx arr i) r)
                (Go.req (Go.Ext.constants_Q != 0)
                  (none, Go.big.mod (r + Go.idx arr i + mimc7_MIMC7Hash (Go.idx arr i) r) Go.Ext.constants_Q)))))
        r0).1 with
      | some rv => rv
      | none => true) = true := by
  generalize hr : Go.forRangeRet _ _ _ _ = r
  obtain ⟨h1, -⟩ := forRangeRet_inv (fun _ : Int => True) hr trivial (by
      intro i r hi1 hi2 _
      have ha : Go.inRange arr i = true := inRange_of hi1 hi2
      rw [req_of ha, req_of ha, req_of (mimc7_MIMC7Hash_ok_true _ _), req_of constants_Q_ne_zero]
      exact ⟨rfl, trivial⟩)
  obtain ⟨ret, st⟩ := r
  cases h1
  rfl

end pieces

/-! ## 8. Baby Jubjub arithmetic -/

theorem babyjub_NewPoint_ok_true : babyjub_NewPoint_ok = true := rfl
theorem babyjub_NewPointProjective_ok_true : babyjub_NewPointProjective_ok = true := rfl
theorem babyjub_Point_Projective_ok_true (p : Int × Int) : babyjub_Point_Projective_ok p = true := rfl
theorem babyjub_Point_Set_ok_true (p c : Int × Int) : babyjub_Point_Set_ok p c = true := rfl
theorem babyjub_PublicKey_Point_ok_true (pk : Int × Int) : babyjub_PublicKey_Point_ok pk = true := rfl
theorem babyjub_PointCoordSign_ok_true (c : Int) : babyjub_PointCoordSign_ok c = true := rfl

/-- `p.Add(q, o)` on projective points: field operations only -/
theorem babyjub_PointProjective_Add_ok_true (p q o : Nat × Nat × Nat) :
    babyjub_PointProjective_Add_ok p q o = true := rfl

/-- `p.Affine()`: the `z = 0` case returns before the inversion (which maps 0 to 0 anyway) -/
theorem babyjub_PointProjective_Affine_ok_true (p : Nat × Nat × Nat) :
    babyjub_PointProjective_Affine_ok p = true := by
  unfold babyjub_PointProjective_Affine_ok
  dsimp only
  split <;> rfl

/-- `p.Mul(s, q)`: every scalar (negative, larger than the order), every pair of integers `q` -/
theorem babyjub_Point_Mul_ok_true (p : Int × Int) (s : Int) (q : Int × Int) :
    babyjub_Point_Mul_ok p s q = true := by
  go_delta babyjub_Point_Mul_ok
  generalize hA : babyjub_PointProjective_Add = A
  generalize hF : babyjub_PointProjective_Affine = F
  as_aux_lemma =>
    dsimp only
    rw [req_of (babyjub_Point_Projective_ok_true q)]
    generalize hr : Go.forRangeRet _ _ _ _ = r
    obtain ⟨h1, -⟩ := forRangeRet_inv (fun _ : (Nat × Nat × Nat) × (Nat × Nat × Nat) => True) hr trivial (by
        intro i x hi0 _ _
        rw [req_of (decide_eq_true hi0)]
        split
        · rw [req_of (babyjub_PointProjective_Add_ok_true _ _ _), req_of (babyjub_PointProjective_Add_ok_true _ _ _)]
          exact ⟨rfl, trivial⟩
        · rw [req_of (babyjub_PointProjective_Add_ok_true _ _ _)]
          exact ⟨rfl, trivial⟩)
    obtain ⟨ret, st⟩ := r
    cases h1
    dsimp only
    rw [req_of (babyjub_PointProjective_Affine_ok_true _)]

/-! ## 9. point and signature codecs -/

/-- `PackSignY(sign, y)`: `BigIntLEBytes` always yields 32 bytes, so `leBuf[31]` exists -/
theorem babyjub_PackSignY_ok_true (sign : Bool) (y : Int) : babyjub_PackSignY_ok sign y = true := by
  unfold babyjub_PackSignY_ok
  dsimp only
  rw [req_of (utils_BigIntLEBytes_ok_true y)]
  have h31 : Go.inRange (utils_BigIntLEBytes y) 31 = true :=
    inRange_of (by decide) (by rw [utils_BigIntLEBytes_length]; decide)
  split
  · rw [req_of h31, req_of h31]
  · rfl

/-- `UnpackSignY(leBuf)` reads `leBuf[31]`: the parameter is a Go ARRAY `[32]byte` -/
theorem babyjub_UnpackSignY_ok_iff (b : List UInt8) : babyjub_UnpackSignY_ok b = true ↔ 32 ≤ b.length := by
  unfold babyjub_UnpackSignY_ok
  dsimp only
  rw [req_eq_true_iff, inRange_iff]
  constructor
  · intro h; omega
  · intro hb
    have h31 : Go.inRange b 31 = true := inRange_of (by decide) (by omega)
    refine ⟨⟨by decide, by omega⟩, ?_⟩
    split
    · rw [req_of h31, req_of h31, req_of (utils_SetBigIntFromLEBytes_ok_true _ _)]
    · rw [req_of (utils_SetBigIntFromLEBytes_ok_true _ _)]

theorem babyjub_Point_Compress_ok_true (p : Int × Int) : babyjub_Point_Compress_ok p = true := by
  unfold babyjub_Point_Compress_ok
  dsimp only
  rw [req_of (babyjub_PointCoordSign_ok_true _), req_of (babyjub_PackSignY_ok_true _ _)]

/-- `PointFromSignAndY(sign, y)`: every `y` (negative, ≥ q: rejected), both signs; the only divisions are `Mod Q` -/
theorem babyjub_PointFromSignAndY_ok_true (sign : Bool) (y : Int) : babyjub_PointFromSignAndY_ok sign y = true := by
  go_delta babyjub_PointFromSignAndY_ok
  generalize hS : Go.Ext.modSqrt = sq
  generalize hI : Go.big.modInverse = inv
  as_aux_lemma =>
    dsimp only
    have hQ := constants_Q_ne_zero
    split
    · rfl
    · rw [req_of hQ, req_of hQ]
      split
      · rfl
      · rw [req_of hQ]
        split
        · rfl
        · split
          · rfl
          · rw [req_or_of (babyjub_PointCoordSign_ok_true _), req_or_or_of (babyjub_PointCoordSign_ok_true _)]
            split
            · rw [req_of hQ]
            · rw [req_of hQ]

/-- `p.Decompress(leBuf)`: the parameter is a Go ARRAY `[32]byte` (exactly: `leBuf[31]` must exist) -/
theorem babyjub_Point_Decompress_ok_iff (p : Int × Int) (b : List UInt8) :
    babyjub_Point_Decompress_ok p b = true ↔ 32 ≤ b.length := by
  rw [← babyjub_UnpackSignY_ok_iff]
  go_delta babyjub_Point_Decompress_ok
  generalize hU : babyjub_UnpackSignY = U
  generalize hF : babyjub_PointFromSignAndY = F
  rw [req_eq_true_iff]
  as_aux_lemma =>
    dsimp only
    constructor
    · exact fun h => h.1
    · intro h
      refine ⟨h, ?_⟩
      rw [req_of (babyjub_PointFromSignAndY_ok_true _ _)]
      split <;> rfl

theorem babyjub_Point_Decompress_ok_of (p : Int × Int) (b : List UInt8) (hb : 32 ≤ b.length) :
    babyjub_Point_Decompress_ok p b = true := (babyjub_Point_Decompress_ok_iff p b).2 hb

/-- `pkComp.Decompress()`: the receiver is a Go ARRAY `[32]byte` -/
theorem babyjub_PublicKeyComp_Decompress_ok_of (b : List UInt8) (hb : 32 ≤ b.length) :
    babyjub_PublicKeyComp_Decompress_ok b = true := by
  go_delta babyjub_PublicKeyComp_Decompress_ok
  generalize hD : babyjub_Point_Decompress = D
  as_aux_lemma =>
    dsimp only
    rw [req_of babyjub_NewPoint_ok_true, req_of (babyjub_Point_Decompress_ok_of _ b hb)]
    split <;> rfl

theorem babyjub_PublicKey_Compress_ok_true (pk : Int × Int) : babyjub_PublicKey_Compress_ok pk = true := by
  unfold babyjub_PublicKey_Compress_ok
  rw [req_of (babyjub_Point_Compress_ok_true pk)]

theorem babyjub_PublicKey_MarshalText_ok_true (pk : Int × Int) : babyjub_PublicKey_MarshalText_ok pk = true := by
  unfold babyjub_PublicKey_MarshalText_ok
  dsimp only
  rw [req_of (babyjub_PublicKey_Compress_ok_true pk), req_of (utils_Hex_MarshalText_ok_true _)]

theorem babyjub_PublicKey_String_ok_true (pk : Int × Int) : babyjub_PublicKey_String_ok pk = true := by
  unfold babyjub_PublicKey_String_ok
  dsimp only
  rw [req_of (babyjub_PublicKey_Compress_ok_true pk), req_of (utils_Hex_String_ok_true _)]

theorem babyjub_PublicKey_Value_ok_true (pk : Int × Int) : babyjub_PublicKey_Value_ok pk = true := by
  unfold babyjub_PublicKey_Value_ok
  dsimp only
  rw [req_of (babyjub_PublicKey_Compress_ok_true pk)]

/-- `pk.UnmarshalText(h)`: every text; the local `[32]byte` keeps its length through `HexDecodeInto` -/
theorem babyjub_PublicKey_UnmarshalText_ok_true (pk : Int × Int) (h : List UInt8) :
    babyjub_PublicKey_UnmarshalText_ok pk h = true := by
  have hl := utils_HexDecodeInto_length
  go_delta babyjub_PublicKey_UnmarshalText_ok
  generalize hD : babyjub_PublicKeyComp_Decompress = D
  generalize utils_HexDecodeInto = HD at hl ⊢
  as_aux_lemma =>
    dsimp only
    rw [req_of (utils_HexDecodeInto_ok_true _ _)]
    split
    · rfl
    · rw [req_of (babyjub_PublicKeyComp_Decompress_ok_of _ (by rw [hl, List.length_replicate]))]
      split <;> rfl

theorem babyjub_PublicKeyComp_MarshalText_ok_true (b : List UInt8) :
    babyjub_PublicKeyComp_MarshalText_ok b = true := rfl
theorem babyjub_PublicKeyComp_String_ok_true (b : List UInt8) : babyjub_PublicKeyComp_String_ok b = true := rfl
theorem babyjub_PublicKeyComp_Value_ok_true (b : List UInt8) : babyjub_PublicKeyComp_Value_ok b = true := rfl
theorem babyjub_SignatureComp_MarshalText_ok_true (b : List UInt8) :
    babyjub_SignatureComp_MarshalText_ok b = true := rfl
theorem babyjub_SignatureComp_String_ok_true (b : List UInt8) : babyjub_SignatureComp_String_ok b = true := rfl
theorem babyjub_SignatureComp_Value_ok_true (b : List UInt8) : babyjub_SignatureComp_Value_ok b = true := rfl

/-- `pkComp.UnmarshalText(h)`: every text (and every receiver length) -/
theorem babyjub_PublicKeyComp_UnmarshalText_ok_true (recv h : List UInt8) :
    babyjub_PublicKeyComp_UnmarshalText_ok recv h = true := by
  unfold babyjub_PublicKeyComp_UnmarshalText_ok
  rw [req_of (utils_HexDecodeInto_ok_true _ _)]

theorem babyjub_SignatureComp_UnmarshalText_ok_true (recv h : List UInt8) :
    babyjub_SignatureComp_UnmarshalText_ok recv h = true := by
  unfold babyjub_SignatureComp_UnmarshalText_ok
  rw [req_of (utils_HexDecodeInto_ok_true _ _)]

/-- `pkComp.Scan(src)` / `sComp.Scan(src)`: every dynamic value -/
theorem babyjub_PublicKeyComp_Scan_ok_true (recv : List UInt8) (src : Go.Any) :
    babyjub_PublicKeyComp_Scan_ok recv src = true := by
  unfold babyjub_PublicKeyComp_Scan_ok
  dsimp only
  split
  · rfl
  · split
    · rfl
    · rw [req_of (sliceOk_full _)]

theorem babyjub_SignatureComp_Scan_ok_true (recv : List UInt8) (src : Go.Any) :
    babyjub_SignatureComp_Scan_ok recv src = true := by
  unfold babyjub_SignatureComp_Scan_ok
  dsimp only
  split
  · rfl
  · split
    · rfl
    · rw [req_of (sliceOk_full _)]

/-- `pk.Scan(src)`: every dynamic value; a 32-byte `[]byte` is copied into a local `[32]byte` -/
theorem babyjub_PublicKey_Scan_ok_true (pk : Int × Int) (src : Go.Any) :
    babyjub_PublicKey_Scan_ok pk src = true := by
  go_delta babyjub_PublicKey_Scan_ok
  generalize hD : babyjub_PublicKeyComp_Decompress = D
  as_aux_lemma =>
    dsimp only
    split
    · rfl
    · split
      · rfl
      · rw [req_of (sliceOk_full _),
          req_of (babyjub_PublicKeyComp_Decompress_ok_of _ (by rw [length_copyInto, List.length_replicate]))]
        split <;> rfl

theorem babyjub_Signature_Compress_ok_true (s : (Int × Int) × Int) : babyjub_Signature_Compress_ok s = true := by
  unfold babyjub_Signature_Compress_ok
  dsimp only
  rw [req_of (babyjub_Point_Compress_ok_true _), req_of (utils_BigIntLEBytes_ok_true _),
    req_of (sliceOk_of (by decide) (by decide) (by rw [List.length_replicate]; decide)),
    req_of (sliceOk_from (by decide) (by rw [length_copyInto, List.length_replicate]; decide))]

theorem babyjub_Signature_Value_ok_true (s : (Int × Int) × Int) : babyjub_Signature_Value_ok s = true := by
  unfold babyjub_Signature_Value_ok
  dsimp only
  rw [req_of (babyjub_Signature_Compress_ok_true s)]

/-- `s.Decompress(buf)`: the parameter is a Go ARRAY `[64]byte`; exactly: `buf[:32]` and `buf[32:]` must exist -/
theorem babyjub_Signature_Decompress_ok_iff (s : (Int × Int) × Int) (b : List UInt8) :
    babyjub_Signature_Decompress_ok s b = true ↔ 32 ≤ b.length := by
  go_delta babyjub_Signature_Decompress_ok
  generalize hD : babyjub_Point_Decompress = D
  as_aux_lemma =>
    dsimp only
    constructor
    · intro h
      have := ((req_eq_true_iff _ _).1 h).1
      rw [sliceOk_iff] at this
      omega
    · intro hb
      rw [req_of (sliceOk_of (by decide) (by decide) (by omega)), req_of (sliceOk_full _),
        req_of babyjub_NewPoint_ok_true,
        req_of (babyjub_Point_Decompress_ok_of _ _ (by rw [length_copyInto, List.length_replicate]))]
      split
      · rfl
      · rw [req_of (sliceOk_from (by decide) (by omega)), req_of (utils_SetBigIntFromLEBytes_ok_true _ _)]

theorem babyjub_SignatureComp_Decompress_ok_iff (b : List UInt8) :
    babyjub_SignatureComp_Decompress_ok b = true ↔ 32 ≤ b.length := by
  rw [← babyjub_Signature_Decompress_ok_iff default b]
  go_delta babyjub_SignatureComp_Decompress_ok
  generalize hD : babyjub_Signature_Decompress = D
  rw [req_eq_true_iff]
  as_aux_lemma =>
    constructor
    · exact fun h => h.1
    · exact fun h => ⟨h, rfl⟩

/-- `s.Scan(src)`: every dynamic value; a 64-byte `[]byte` is copied into a local `[64]byte` -/
theorem babyjub_Signature_Scan_ok_true (s : (Int × Int) × Int) (src : Go.Any) :
    babyjub_Signature_Scan_ok s src = true := by
  go_delta babyjub_Signature_Scan_ok
  generalize hD : babyjub_Signature_Decompress = D
  as_aux_lemma =>
    dsimp only
    split
    · rfl
    · split
      · rfl
      · rw [req_of (sliceOk_full _), req_of ((babyjub_Signature_Decompress_ok_iff _ _).2
          (by rw [length_copyInto, List.length_replicate]; decide))]

/-- `DecompressSig(compressedSig)`: every text -/
theorem babyjub_DecompressSig_ok_true (h : List UInt8) : babyjub_DecompressSig_ok h = true := by
  have hl : ∀ d h : List UInt8, (babyjub_SignatureComp_UnmarshalText d h).2.length = d.length :=
    fun d h => utils_HexDecodeInto_length d h
  go_delta babyjub_DecompressSig_ok
  generalize hD : babyjub_SignatureComp_Decompress = D
  generalize babyjub_SignatureComp_UnmarshalText = U at hl ⊢
  as_aux_lemma =>
    dsimp only
    rw [req_of (babyjub_SignatureComp_UnmarshalText_ok_true _ _)]
    split
    · rfl
    · rw [req_of ((babyjub_SignatureComp_Decompress_ok_iff _).2 (by rw [hl, List.length_replicate]; decide))]
      split <;> rfl

/-! ## 10. EdDSA key derivation -/

theorem blake512_length (m : List UInt8) : (Go.Ext.blake512 m).length = 64 := GoBridge.blake_length m

theorem babyjub_SubOrder_ne_zero : (Go.Ext.babyjub_SubOrder != 0) = true := by
  rw [babyjub_SubOrder_eq]; decide

/-- `pruneBuffer(buf)`, `buf` a Go `*[32]byte`: exactly, `buf[0]` and `buf[31]` must exist -/
theorem babyjub_pruneBuffer_ok_iff (b : List UInt8) : babyjub_pruneBuffer_ok b = true ↔ 32 ≤ b.length := by
  unfold babyjub_pruneBuffer_ok
  dsimp only
  simp only [inRange_set]
  constructor
  · intro h
    have h1 := ((req_eq_true_iff _ _).1 h).2
    have h2 := ((req_eq_true_iff _ _).1 h1).2
    have h3 := ((req_eq_true_iff _ _).1 h2).1
    rw [inRange_iff] at h3
    omega
  · intro hb
    have h0 : Go.inRange b 0 = true := inRange_of (by decide) (by omega)
    have h31 : Go.inRange b 31 = true := inRange_of (by decide) (by omega)
    simp only [req_of h0, req_of h31]

/-- `SkToBigInt(k)`: the key is only hashed; the BLAKE-512 digest has 64 bytes, the local buffer 32 -/
theorem babyjub_SkToBigInt_ok_true (k : List UInt8) : babyjub_SkToBigInt_ok k = true := by
  have hB := blake512_length
  have hP := fun b => (babyjub_pruneBuffer_length b).2
  go_delta babyjub_SkToBigInt_ok
  generalize Go.Ext.blake512 = B at hB ⊢
  generalize babyjub_pruneBuffer = Pr at hP ⊢
  as_aux_lemma =>
    dsimp only
    rw [req_of (sliceOk_of (by decide) (by decide) (by rw [hB]; decide)), req_of (sliceOk_full _),
      req_of ((babyjub_pruneBuffer_ok_iff _).2 (by rw [length_copyInto, List.length_replicate])),
      req_of (utils_SetBigIntFromLEBytes_ok_true _ _)]

theorem babyjub_NewPrivKeyScalar_ok_true (s : Int) : babyjub_NewPrivKeyScalar_ok s = true := rfl
theorem babyjub_PrivKeyScalar_BigInt_ok_true (s : Int) : babyjub_PrivKeyScalar_BigInt_ok s = true := rfl

theorem babyjub_PrivateKey_Scalar_ok_true (k : List UInt8) : babyjub_PrivateKey_Scalar_ok k = true := by
  go_delta babyjub_PrivateKey_Scalar_ok
  generalize babyjub_SkToBigInt = Sk
  rw [req_of (babyjub_SkToBigInt_ok_true k), req_of (babyjub_NewPrivKeyScalar_ok_true _)]

theorem babyjub_PrivKeyScalar_Public_ok_true (s : Int) : babyjub_PrivKeyScalar_Public_ok s = true := by
  go_delta babyjub_PrivKeyScalar_Public_ok
  generalize babyjub_Point_Mul = Mul
  rw [req_of babyjub_NewPoint_ok_true, req_of (babyjub_Point_Mul_ok_true _ _ _)]

theorem babyjub_PrivateKey_Public_ok_true (k : List UInt8) : babyjub_PrivateKey_Public_ok k = true := by
  go_delta babyjub_PrivateKey_Public_ok
  generalize babyjub_PrivateKey_Scalar = Sc
  rw [req_of (babyjub_PrivateKey_Scalar_ok_true k), req_of (babyjub_PrivKeyScalar_Public_ok_true _)]

section golden
open I3.GoBridge.Loops

/-! ## 11. Poseidon over Goldilocks -/

theorem goldenposeidon_exp7_ok_true (a : Nat) : goldenposeidon_exp7_ok a = true := rfl
theorem goldenposeidon_zero_ok_true : goldenposeidon_zero_ok = true := rfl

theorem goldenposeidon_exp7state_ok_true (state : List Nat) : goldenposeidon_exp7state_ok state = true := by
  unfold goldenposeidon_exp7state_ok
  dsimp only
  generalize hr : Go.forRangeRet _ _ _ _ = r
  obtain ⟨h1, -⟩ := forRangeRet_inv (fun s : List Nat => s.length = state.length) hr rfl (by
      intro i s hi1 hi2 hP
      rw [len_eq, ← hP] at hi2
      rw [req_of (inRange_of hi1 hi2), req_of (goldenposeidon_exp7_ok_true _), req_of (inRange_of hi1 hi2)]
      exact ⟨rfl, by rw [length_set, hP]⟩)
  obtain ⟨ret, st⟩ := r
  cases h1
  rfl

theorem goldenposeidon_exp7state_length (state : List Nat) :
    (goldenposeidon_exp7state state).length = state.length := by
  rw [goldenposeidon_exp7state_eq, Lemmas.Guards.sboxAll_length]

theorem golden_C_length : 118 ≤ Go.Ext.golden_C.length := GoldenAux.goldenC_len
theorem golden_S_length : 506 ≤ Go.Ext.golden_S.length := GoldenAux.goldenS_len
theorem golden_M_rows : 12 ≤ Go.Ext.golden_M.length ∧ ∀ r ∈ Go.Ext.golden_M, 12 ≤ r.length := by
  have h := GoldenAux.goldenTab_ok
  unfold Model.Poseidon.tablesOk at h
  simp only [Bool.and_eq_true, decide_eq_true_eq, List.all_eq_true, ge_iff_le] at h
  exact ⟨h.1.1.1.2, h.1.1.2⟩
theorem golden_P_rows : 12 ≤ Go.Ext.golden_P.length ∧ ∀ r ∈ Go.Ext.golden_P, 12 ≤ r.length := by
  have h := GoldenAux.goldenTab_ok
  unfold Model.Poseidon.tablesOk at h
  simp only [Bool.and_eq_true, decide_eq_true_eq, List.all_eq_true, ge_iff_le] at h
  exact ⟨h.1.2, h.2⟩

/-- `ark(state, it)` does not panic when the constants `C[it .. it+len(state))` exist -/
theorem goldenposeidon_ark_ok_of (state : List Nat) (it : Int) (h0 : 0 ≤ it)
    (h1 : it + (state.length : Int) ≤ 118) : goldenposeidon_ark_ok state it = true := by
  have hC := golden_C_length
  unfold goldenposeidon_ark_ok
  generalize Go.Ext.golden_C = C at hC ⊢
  dsimp only
  generalize hr : Go.forRangeRet _ _ _ _ = r
  obtain ⟨h1, -⟩ := forRangeRet_inv (fun s : List Nat => s.length = state.length) hr rfl (by
      intro i s hi1 hi2 hP
      rw [len_eq] at hi2
      have hs : Go.inRange s i = true := inRange_of hi1 (by rw [hP]; exact hi2)
      rw [req_of hs, req_of (inRange_of (by omega) (by omega)), req_of hs, inRange_set, req_of hs]
      exact ⟨rfl, by rw [length_set, hP]⟩)
  obtain ⟨ret, st⟩ := r
  cases h1
  rfl

theorem goldenposeidon_ark_length (state : List Nat) (it : Int) :
    (goldenposeidon_ark state it).length = state.length := by
  have h0 : goldenposeidon_ark state it =
      Go.forRange 0 (Go.len state) (fun i s => Go.set s i
        ((fun i x => Go.fe.add Gen.ffg_modulus x (Go.idx Go.Ext.golden_C (it + i))) i (Go.idx s i))) state := rfl
  rw [h0.trans (forRange_mapIdx (fun i x => Go.fe.add Gen.ffg_modulus x (Go.idx Go.Ext.golden_C (it + i))) state),
    List.length_mapIdx]

/-- `mix(state, opt)` does not panic on a state of 12 lanes (both matrices are 12 × 12) -/
theorem goldenposeidon_mix_ok_of (state : List Nat) (opt : Bool) (hs : state.length = 12) :
    goldenposeidon_mix_ok state opt = true := by
  obtain ⟨hM, hMr⟩ := golden_M_rows
  obtain ⟨hP, hPr⟩ := golden_P_rows
  unfold goldenposeidon_mix_ok
  generalize Go.Ext.golden_M = M at hM hMr ⊢
  generalize Go.Ext.golden_P = P at hP hPr ⊢
  dsimp only
  rw [req_of goldenposeidon_zero_ok_true, req_of (by decide)]
  generalize hr : Go.forRangeRet _ _ _ _ = r
  obtain ⟨h1, h2⟩ := forRangeRet_inv (fun s : List Nat => s.length = 12) hr
    (by rw [length_make]; rfl) (by
      intro i s hi1 hi2 hQ
      rw [req_of goldenposeidon_zero_ok_true, req_of (inRange_of hi1 (by omega))]
      exact ⟨rfl, by rw [length_set, hQ]⟩)
  obtain ⟨ret, st⟩ := r
  cases h1
  dsimp only at h2 ⊢
  generalize hr2 : Go.forRangeRet _ _ _ _ = r2
  obtain ⟨h3, -⟩ := forRangeRet_inv (fun x : Nat × List Nat => x.2.length = 12) hr2 h2 (by
      intro i x hi1 hi2 hQ
      have hx : Go.inRange x.2 i = true := inRange_of hi1 (by omega)
      rw [req_of hx, inRange_set, req_of hx]
      generalize hr3 : Go.forRangeRet _ _ _ _ = r3
      obtain ⟨h4, h5⟩ := forRangeRet_inv (fun y : Nat × List Nat => y.2.length = 12) hr3
        (by dsimp only; rw [length_set, hQ]) (by
          intro j y hj1 hj2 hR
          have hy : Go.inRange y.2 i = true := inRange_of hi1 (by omega)
          have hsj : Go.inRange state j = true := inRange_of hj1 (by omega)
          split
          · rw [req_of (inRange_of hj1 (by omega)),
              req_of (inRange_row (n := 12) hPr hj1 (by omega) hi1 (by omega)),
              req_of hsj, req_of hy, req_of hy, inRange_set, req_of hy]
            exact ⟨rfl, by dsimp only; rw [length_set, hR]⟩
          · rw [req_of (inRange_of hj1 (by omega)),
              req_of (inRange_row (n := 12) hMr hj1 (by omega) hi1 (by omega)),
              req_of hsj, req_of hy, req_of hy, inRange_set, req_of hy]
            exact ⟨rfl, by dsimp only; rw [length_set, hR]⟩)
      obtain ⟨ret3, a, b⟩ := r3
      cases h4
      exact ⟨rfl, h5⟩)
  obtain ⟨ret2, st2⟩ := r2
  cases h3
  rfl

theorem goldenposeidon_mix_length (state : List Nat) (opt : Bool) (hs : state.length = 12) :
    (goldenposeidon_mix state opt).length = 12 := by
  rw [goldenposeidon_mix_eq state opt hs, Lemmas.Guards.mix_length, hs]

/-- one full round `exp7state; ark; mix` on 12 lanes -/
theorem golden_fullRound_ok (s : List Nat) (it : Int) (opt : Bool) (hs : s.length = 12) (h0 : 0 ≤ it)
    (hit : it + 12 ≤ 118) :
    goldenposeidon_exp7state_ok s = true ∧ goldenposeidon_ark_ok (goldenposeidon_exp7state s) it = true ∧
    goldenposeidon_mix_ok (goldenposeidon_ark (goldenposeidon_exp7state s) it) opt = true ∧
    (goldenposeidon_mix (goldenposeidon_ark (goldenposeidon_exp7state s) it) opt).length = 12 := by
  have h1 : (goldenposeidon_exp7state s).length = 12 := by rw [goldenposeidon_exp7state_length, hs]
  have h2 : (goldenposeidon_ark (goldenposeidon_exp7state s) it).length = 12 := by
    rw [goldenposeidon_ark_length, h1]
  exact ⟨goldenposeidon_exp7state_ok_true s, goldenposeidon_ark_ok_of _ _ h0 (by rw [h1]; exact hit),
    goldenposeidon_mix_ok_of _ _ h2, goldenposeidon_mix_length _ _ h2⟩

/-- `goldenposeidon.Hash(inp, cap)`: `inp` a Go array `[8]uint64`, `cap` a Go array `[4]uint64` -/
theorem goldenposeidon_Hash_ok_of (inp cap : List Nat) (hi : 8 ≤ inp.length) (hc : 4 ≤ cap.length) :
    goldenposeidon_Hash_ok inp cap = true := by
  have hC := golden_C_length
  have hS := golden_S_length
  unfold goldenposeidon_Hash_ok
  generalize Go.Ext.golden_C = C at hC ⊢
  generalize Go.Ext.golden_S = S at hS ⊢
  dsimp only
  rw [req_of (by decide)]
  -- the three initialisation loops
  with_reducible generalize hr1 : Go.forRangeRet _ _ _ _ = r1
  obtain ⟨h1, hl1⟩ := forRangeRet_inv (fun s : List Nat => s.length = 12) hr1 (by rw [length_make]; rfl) (by
      intro i s hi1 hi2 hQ
      rw [req_of (inRange_of hi1 (by omega)), req_of (inRange_of hi1 (by omega))]
      exact ⟨rfl, by rw [length_set, hQ]⟩)
  obtain ⟨ret1, s1⟩ := r1
  cases h1
  dsimp only at hl1 ⊢
  clear hr1
  with_reducible generalize hr2 : Go.forRangeRet _ _ _ _ = r2
  obtain ⟨h1, hl2⟩ := forRangeRet_inv (fun s : List Nat => s.length = 12) hr2 hl1 (by
      intro i s hi1 hi2 hQ
      rw [req_of (inRange_of hi1 (by omega)), req_of (inRange_of (by omega) (by omega))]
      exact ⟨rfl, by rw [length_set, hQ]⟩)
  obtain ⟨ret2, s2⟩ := r2
  cases h1
  dsimp only at hl2 ⊢
  clear hr2 hl1 s1
  with_reducible generalize hr3 : Go.forRangeRet _ _ _ _ = r3
  obtain ⟨h1, hl3⟩ := forRangeRet_inv (fun s : List Nat => s.length = 12) hr3 hl2 (by
      intro i s hi1 hi2 hQ
      have hs : Go.inRange s i = true := inRange_of hi1 (by omega)
      rw [req_of hs, req_of (inRange_of hi1 (by omega)), req_of hs, inRange_set, req_of hs]
      exact ⟨rfl, by rw [length_set, hQ]⟩)
  obtain ⟨ret3, s3⟩ := r3
  cases h1
  dsimp only at hl3 ⊢
  clear hr3 hl2 s2
  -- the first four full rounds
  with_reducible generalize hr4 : Go.forRangeRet _ _ _ _ = r4
  obtain ⟨h1, hl4⟩ := forRangeRet_inv (fun s : List Nat => s.length = 12) hr4 hl3 (by
      intro i s hi1 hi2 hQ
      obtain ⟨k1, k2, k3, k4⟩ := golden_fullRound_ok s ((i + 1) * 12) (i == 3) hQ (by omega) (by omega)
      rw [req_of k1, req_of k2, req_of k3]
      refine ⟨rfl, ?_⟩
      dsimp only
      exact k4)
  obtain ⟨ret4, s4⟩ := r4
  cases h1
  dsimp only at hl4 ⊢
  clear hr4 hl3 s3
  -- the 22 partial rounds
  with_reducible generalize hr5 : Go.forRangeRet _ _ _ _ = r5
  obtain ⟨h1, hl5⟩ := forRangeRet_inv (fun s : List Nat => s.length = 12) hr5 hl4 (by
      intro i s hi1 hi2 hQ
      have hs0 : Go.inRange s 0 = true := inRange_of (Int.le_refl _) (by omega)
      simp only [inRange_set, req_of hs0, req_of (goldenposeidon_exp7_ok_true _), req_of goldenposeidon_zero_ok_true]
      rw [req_of (inRange_of (by omega) (by omega)), req_of (inRange_of (by omega) (by omega))]
      generalize hy : Go.set (Go.set s 0 _) 0 _ = y
      have hly : y.length = 12 := by rw [← hy, length_set, length_set, hQ]
      with_reducible generalize hr6 : Go.forRangeRet _ _ _ _ = r6
      obtain ⟨h6, hl6⟩ := forRangeRet_inv (fun z : List Nat × Nat × Nat => z.1.length = 12) hr6 hly (by
          intro j z hj1 hj2 hR
          have hzj : Go.inRange z.1 j = true := inRange_of (by omega) (by omega)
          have hz0 : Go.inRange z.1 0 = true := inRange_of (Int.le_refl _) (by omega)
          simp only [req_of hzj, req_of hz0]
          rw [req_of (inRange_of (by omega) (by omega)), req_of (inRange_of (by omega) (by omega))]
          exact ⟨rfl, by dsimp only; rw [length_set, hR]⟩)
      obtain ⟨ret6, a6, b6, c6⟩ := r6
      cases h6
      dsimp only at hl6 ⊢
      rw [req_of (inRange_of (Int.le_refl _) (by omega))]
      exact ⟨rfl, by rw [length_set, hl6]⟩)
  obtain ⟨ret5, s5⟩ := r5
  cases h1
  dsimp only at hl5 ⊢
  clear hr5 hl4 s4
  -- the last four full rounds (the last one without round constants)
  with_reducible generalize hr7 : Go.forRangeRet _ _ _ _ = r7
  obtain ⟨h1, hl7⟩ := forRangeRet_inv (fun s : List Nat => s.length = 12) hr7 hl5 (by
      intro i s hi1 hi2 hQ
      have he : (goldenposeidon_exp7state s).length = 12 := by rw [goldenposeidon_exp7state_length, hQ]
      rw [req_of (goldenposeidon_exp7state_ok_true s)]
      split
      · next hlt =>
        have hlt' : i < 3 := by simpa using hlt
        obtain ⟨-, k2, k3, k4⟩ := golden_fullRound_ok s ((5 + i) * 12 + 22) false hQ (by omega) (by omega)
        rw [req_of k2, req_of k3]
        refine ⟨rfl, ?_⟩
        dsimp only
        exact k4
      · rw [req_of (goldenposeidon_mix_ok_of _ _ he)]
        refine ⟨rfl, ?_⟩
        dsimp only
        exact goldenposeidon_mix_length _ _ he)
  obtain ⟨ret7, s7⟩ := r7
  cases h1
  dsimp only at hl7 ⊢
  rw [req_of (inRange_of (by decide) (by omega)), req_of (inRange_of (by decide) (by omega)),
    req_of (inRange_of (by decide) (by omega)), req_of (inRange_of (by decide) (by omega))]

end golden

/-! ## 12. the external hashers -/

/-- `keccak256.Hash(data...)`: every list of byte strings (`hash.Write` never fails) -/
theorem keccak256_Hash_ok_true (data : List (List UInt8)) : keccak256_Hash_ok data = true := by
  go_delta keccak256_Hash_ok
  generalize Go.Ext.Hasher.write = W
  as_aux_lemma =>
    dsimp only
    generalize hr : Go.forRangeRet _ _ _ _ = r
    obtain ⟨h1, -⟩ := forRangeRet_inv (fun _ : Go.Ext.Hasher => True) hr trivial (by
        intro i s _ _ _
        exact ⟨rfl, trivial⟩)
    obtain ⟨ret, st⟩ := r
    cases h1
    rfl

/-- `babyjub.Blake512(m)`: every byte string (the `panic(err)` branch is dead: `hash.Write` returns `nil`) -/
theorem babyjub_Blake512_ok_true (m : List UInt8) : babyjub_Blake512_ok m = true := rfl

end I3.GoSafe
