/-
  I3.Lemmas.Sponge — structural lemmas about the Keccak sponge of `I3.Exec.Keccak`:
  `absorbAll` can be resumed from its own result, the streaming buffer stays below the rate, and
  a sequence of `Sponge.write`s is one `write` of the concatenation.
  The permutation (`keccakF`, `absorbBlock`) stays opaque.  Core-only.
-/
import I3.Exec.Keccak
namespace I3.Lemmas.Sponge
open I3 I3.Keccak

/-- unfolding on a short input -/
theorem absorbAll_short (a : Lanes) (bs : Bytes) (h : bs.length < rate) : absorbAll a bs = (a, bs) := by
  rw [absorbAll]; simp; omega

/-- unfolding on a long input -/
theorem absorbAll_long (a : Lanes) (bs : Bytes) (h : rate ≤ bs.length) :
    absorbAll a bs = absorbAll (absorbBlock a (bs.take rate)) (bs.drop rate) := by
  rw [absorbAll]; simp [h]

/-- the unabsorbed tail is always shorter than the rate (sponge buffer invariant). -/
theorem absorbAll_tail_lt (a : Lanes) (bs : Bytes) : (absorbAll a bs).2.length < rate := by
  fun_induction absorbAll a bs with
  | case1 a bs h ih => exact ih
  | case2 a bs h => simpa using h

/-- `absorbAll` of a concatenation = resume `absorbAll` from the state reached after the prefix. -/
theorem absorbAll_append (a : Lanes) (xs ys : Bytes) :
    absorbAll a (xs ++ ys) = absorbAll (absorbAll a xs).1 ((absorbAll a xs).2 ++ ys) := by
  fun_induction absorbAll a xs with
  | case1 a xs h ih =>
    have h' : rate ≤ (xs ++ ys).length := by simp; omega
    rw [absorbAll_long a (xs ++ ys) h', List.take_append_of_le_length h,
        List.drop_append_of_le_length h, ih]
  | case2 a xs h => rfl

/-- the total length is preserved: absorbed blocks + tail -/
theorem absorbAll_tail_mod (a : Lanes) (bs : Bytes) : (absorbAll a bs).2.length = bs.length % rate := by
  fun_induction absorbAll a bs with
  | case1 a bs h ih =>
    rw [ih, List.length_drop]
    have : 0 < rate := by decide
    rw [← Nat.mod_eq_sub_mod h]
  | case2 a bs h => simp at h ⊢; rw [Nat.mod_eq_of_lt h]

/-- buffer invariant of the streaming sponge -/
def Inv (s : Sponge) : Prop := s.buf.length < rate

theorem inv_init : Inv Sponge.init := by simp [Inv, Sponge.init, rate]

theorem inv_write (s : Sponge) (d : Bytes) : Inv (s.write d) := by
  simp only [Inv, Sponge.write]
  exact absorbAll_tail_lt _ _

theorem write_write (s : Sponge) (d1 d2 : Bytes) : (s.write d1).write d2 = s.write (d1 ++ d2) := by
  simp only [Sponge.write]
  rw [← List.append_assoc, absorbAll_append s.a (s.buf ++ d1) d2]

theorem write_nil (s : Sponge) (h : Inv s) : s.write [] = s := by
  simp only [Sponge.write, List.append_nil]
  rw [absorbAll_short _ _ h]

theorem foldl_write (slices : List Bytes) (s : Sponge) (d : Bytes) :
    slices.foldl Sponge.write (s.write d) = s.write (d ++ slices.flatten) := by
  induction slices generalizing d with
  | nil => simp
  | cons x xs ih => rw [List.foldl_cons, write_write, ih, List.flatten_cons, List.append_assoc]

theorem foldl_write_init (slices : List Bytes) :
    slices.foldl Sponge.write Sponge.init = Sponge.init.write slices.flatten := by
  have := foldl_write slices Sponge.init []
  rw [write_nil _ inv_init] at this
  simpa using this

theorem inv_foldl (slices : List Bytes) : Inv (slices.foldl Sponge.write Sponge.init) := by
  rw [foldl_write_init]; exact inv_write _ _

theorem wordLE_length (w : UInt64) : (wordLE w).length = 8 := by simp [wordLE]

theorem squeeze32_length (a : Lanes) : (squeeze32 a).length = 32 := by
  simp [squeeze32, wordLE_length]

end I3.Lemmas.Sponge
