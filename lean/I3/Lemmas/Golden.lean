/-
  I3.Lemmas.Golden — helper lemmas for property C10 (Goldilocks Poseidon): generic facts about
  `Model.Golden.hash` (residues, canonical outputs, length, transfer of a permutation equation) and the
  width of the textbook permutation `Hades.permute`.  Core Lean only.
-/
import I3.Lemmas.Guards
import I3.Model.Golden
import I3.Exec.Hades
import I3.Exec.PoseidonCheck
namespace I3.Lemmas.Golden
open I3 I3.Model.Poseidon

/-- the textbook permutation returns a vector with as many lanes as the MDS matrix has rows. -/
theorem hades_permute_length (m a t rf rp : Nat) (rc : List Nat) (mat : List (List Nat)) (s : List Nat)
    (h : 0 < rf + rp) : (Hades.permute m a t rf rp rc mat s).length = mat.length := by
  obtain ⟨n, hn⟩ : ∃ n, rf + rp = n + 1 := ⟨rf + rp - 1, by omega⟩
  unfold Hades.permute
  rw [hn, List.range_succ, List.foldl_append]
  simp [Hades.round, Hades.matVec]

/-- the Go `mix` (newState[i] = Σ_j mat[j][i]·state[j]) is the textbook matrix–vector product with the
    TRANSPOSE of the stored matrix. -/
theorem mix_eq_matVec_transpose (m : Nat) (mat : List (List Nat)) (s : List Nat) :
    mix m mat s = Hades.matVec m (PoseidonCheck.transpose s.length mat) s := by
  simp [mix, Hades.matVec, PoseidonCheck.transpose, Hades.dot, List.zipWith_map_left]

/-- the state the permutation is applied to: inputs followed by capacity, every word reduced mod p. -/
theorem initState_length (inp cap : List Nat) :
    ((inp ++ cap).map (· % gp)).length = inp.length + cap.length := by
  simp

/-- `Hash` only sees the residues of its arguments. -/
theorem hash_mod (tab : Tables) (e n rp capLen : Nat) (inp cap : List Nat) :
    Model.Golden.hash tab e n rp capLen inp cap =
      Model.Golden.hash tab e n rp capLen (inp.map (· % gp)) (cap.map (· % gp)) := by
  simp only [Model.Golden.hash, List.map_append, List.map_map]
  have : ((fun x => x % gp) ∘ fun x => x % gp) = fun x => x % gp := by
    funext x; simp [Function.comp]
  rw [this]

/-- every output word is a canonical residue (each lane of the last `mix` is reduced). -/
theorem hash_lt (tab : Tables) (e n rp capLen : Nat) (inp cap : List Nat) :
    ∀ x ∈ Model.Golden.hash tab e n rp capLen inp cap, x < gp := by
  intro x hx
  simp only [Model.Golden.hash] at hx
  exact Guards.permute_lt (by decide) e tab n rp _ x (List.mem_of_mem_take hx)

/-- transfer of a permutation equation (on all states of width `n`) to the hash. -/
theorem hash_of_permute_eq (tab : Tables) (e n rp capLen : Nat) (R : List Nat → List Nat)
    (h : ∀ st : List Nat, st.length = n → permute gp e tab n rp st = R st)
    (inp cap : List Nat) (hl : inp.length + cap.length = n) :
    Model.Golden.hash tab e n rp capLen inp cap = (R ((inp ++ cap).map (· % gp))).take capLen := by
  simp only [Model.Golden.hash]
  rw [h _ (by rw [initState_length, hl])]

end I3.Lemmas.Golden
