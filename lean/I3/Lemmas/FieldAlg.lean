/-
  I3.Lemmas.FieldAlg — algebraic helper lemmas about the value-level field model `I3.Model.FF`
  (square-and-multiply, Fermat inverse, batch inversion, Euler criterion, Tonelli–Shanks).
  Everything is stated for an arbitrary configuration `c : Model.FF.Cfg` satisfying the
  well-formedness predicate `Cfg.WF`; the instantiation at the regenerated constants lives in
  `I3.Props.C18Inst`.
-/
import I3.Exec.Field
import I3.Model.FF
import Mathlib.NumberTheory.LegendreSymbol.Basic
import Mathlib.FieldTheory.Finite.Basic
import Mathlib.Data.ZMod.Basic
import Mathlib.Tactic.Ring
import Mathlib.Tactic.LinearCombination
import Mathlib.Tactic.FieldSimp

namespace I3

/-! ### `powMod` is modular exponentiation -/

theorem powMod_eq (b e m : ℕ) : powMod b e m = b ^ e % m := by
  induction e using Nat.strong_induction_on with
  | _ e ih =>
    rw [powMod]
    split_ifs with h0 h1
    · subst h0; simp
    · rw [ih (e / 2) (by omega)]
      have he : e = e / 2 + e / 2 + 1 := by omega
      conv_rhs => rw [he, pow_succ, pow_add]
      simp [Nat.mul_mod]
    · rw [ih (e / 2) (by omega)]
      have he : e = e / 2 + e / 2 := by omega
      conv_rhs => rw [he, pow_add]
      simp [Nat.mul_mod]

/-- Fuel-based, structurally recursive twin of `powMod` (kernel-evaluable). -/
def powModF (m : ℕ) : ℕ → ℕ → ℕ → ℕ
  | 0, _, _ => 1 % m
  | f + 1, b, e =>
    if e = 0 then 1 % m
    else
      let r := powModF m f b (e / 2)
      if e % 2 = 1 then r * r % m * b % m else r * r % m

theorem powModF_eq (m : ℕ) : ∀ f b e, e < 2 ^ f → powModF m f b e = b ^ e % m
  | 0, b, e, h => by
    have h0 : e = 0 := by simpa using h
    subst h0; simp [powModF]
  | f + 1, b, e, h => by
    have hlt : e / 2 < 2 ^ f := by rw [pow_succ] at h; omega
    simp only [powModF, powModF_eq m f b _ hlt]
    split_ifs with h0 h1
    · subst h0; simp
    · have he : e = e / 2 + e / 2 + 1 := by omega
      conv_rhs => rw [he, pow_succ, pow_add]
      simp [Nat.mul_mod]
    · have he : e = e / 2 + e / 2 := by omega
      conv_rhs => rw [he, pow_add]
      simp [Nat.mul_mod]

theorem powMod_eq_powModF (m f b e : ℕ) (h : e < 2 ^ f) : powMod b e m = powModF m f b e := by
  rw [powMod_eq, powModF_eq m f b e h]

/-! ### bit length and bits -/

theorem bitLen_pos {e : ℕ} (he : e ≠ 0) : 0 < bitLen e := by
  simp [bitLen, he]

theorem shiftRight_bitLen_sub_one {e : ℕ} (he : e ≠ 0) : e >>> (bitLen e - 1) = 1 := by
  have h1 : bitLen e - 1 = Nat.log2 e := by simp [bitLen, he]
  rw [h1, Nat.shiftRight_eq_div_pow]
  have hlo : 2 ^ Nat.log2 e ≤ e := Nat.log2_self_le he
  have hhi : e < 2 ^ (Nat.log2 e + 1) := Nat.lt_log2_self
  rw [pow_succ] at hhi
  have hpos : 0 < 2 ^ Nat.log2 e := Nat.pow_pos (by norm_num)
  apply Nat.div_eq_of_lt_le
  · simpa using hlo
  · simpa [Nat.mul_comm] using hhi

theorem shiftRight_step (e i : ℕ) : e >>> i = 2 * (e >>> (i + 1)) + bitAt e i := by
  unfold bitAt
  rw [Nat.shiftRight_succ]
  omega

namespace Model.FF

/-! ### `exp` is modular exponentiation -/

theorem exp_eq (c : Cfg) (x e : ℕ) : exp c x e = x ^ e % c.m := by
  unfold exp
  split_ifs with h0
  · subst h0; simp
  · have key : ∀ k, k ≤ bitLen e - 1 →
        (List.range k).foldl (fun z j =>
          let i := bitLen e - 2 - j
          let z := z * z % c.m
          if bitAt e i = 1 then z * x % c.m else z) (x % c.m)
          = x ^ (e >>> (bitLen e - 1 - k)) % c.m := by
      intro k
      induction k with
      | zero => intro _; simp [shiftRight_bitLen_sub_one h0]
      | succ k ih =>
        intro hk
        rw [List.range_succ, List.foldl_append, ih (by omega)]
        simp only [List.foldl_cons, List.foldl_nil]
        have h1 : bitLen e - 1 - k = (bitLen e - 2 - k) + 1 := by omega
        have h2 : bitLen e - 1 - (k + 1) = bitLen e - 2 - k := by omega
        rw [h1, h2, shiftRight_step e (bitLen e - 2 - k)]
        generalize e >>> (bitLen e - 2 - k + 1) = u
        have hb : bitAt e (bitLen e - 2 - k) = 0 ∨ bitAt e (bitLen e - 2 - k) = 1 := by
          unfold bitAt; omega
        rcases hb with hb | hb
        · rw [hb]; simp [two_mul, pow_add, Nat.mul_mod]
        · rw [hb]; simp [two_mul, pow_add, pow_succ, Nat.mul_mod]
    have := key (bitLen e - 1) le_rfl
    simpa using this

/-! ### well-formedness of a configuration -/

/-- Well-formedness of a field configuration: everything the generated constants must satisfy
for the algorithms below to be correct.  All conjuncts except primality are closed numeric facts
that the kernel evaluates on the regenerated constants. -/
structure Cfg.WF (c : Cfg) : Prop where
  prime : Nat.Prime c.m
  odd : c.m % 2 = 1
  limbs_pos : 0 < c.limbs
  fits : c.m < 2 ^ (64 * c.limbs)
  two_adic : ∃ s, s % 2 = 1 ∧ c.m - 1 = 2 ^ c.r * s ∧ c.sqrtExp = (s - 1) / 2
  r_pos : 1 ≤ c.r
  leg : c.legExp = (c.m - 1) / 2
  /-- `g` generates the 2-Sylow subgroup: `g^(2^(r-1)) = -1`. -/
  g_order : powMod (c.fromMont c.gMont) (2 ^ (c.r - 1)) c.m = c.m - 1
  lex : c.lexHalf = (c.m + 1) / 2

section casts
variable {m : ℕ}

theorem natCast_inj_of_lt {a b : ℕ} (ha : a < m) (hb : b < m)
    (h : (a : ZMod m) = (b : ZMod m)) : a = b := by
  have := (ZMod.natCast_eq_natCast_iff' a b m).1 h
  rwa [Nat.mod_eq_of_lt ha, Nat.mod_eq_of_lt hb] at this

theorem natCast_eq_zero_of_lt {a : ℕ} (ha : a < m) : (a : ZMod m) = 0 ↔ a = 0 := by
  constructor
  · intro h
    have hm : 0 < m := by omega
    exact natCast_inj_of_lt ha hm (by simpa using h)
  · rintro rfl; simp

theorem natCast_eq_one_of_lt {a : ℕ} (hm : 1 < m) (ha : a < m) : (a : ZMod m) = 1 ↔ a = 1 := by
  constructor
  · intro h
    exact natCast_inj_of_lt ha hm (by simpa using h)
  · rintro rfl; simp

end casts

namespace Cfg.WF
variable {c : Cfg} (h : c.WF)
include h

theorem three_le : 3 ≤ c.m := by
  have h2 := h.prime.two_le
  have := h.odd
  omega

theorem one_lt : 1 < c.m := by have := h.three_le; omega

theorem pos : 0 < c.m := by have := h.three_le; omega

theorem one_mod : 1 % c.m = 1 := Nat.mod_eq_of_lt h.one_lt

theorem fact : Fact c.m.Prime := ⟨h.prime⟩

theorem half : c.m / 2 = (c.m - 1) / 2 := by have := h.odd; omega

theorem half_pos : 0 < c.m / 2 := by have := h.three_le; omega

theorem natCast_pred : ((c.m - 1 : ℕ) : ZMod c.m) = -1 := by
  have : ((c.m - 1 : ℕ) : ZMod c.m) + 1 = 0 := by
    have h1 : c.m - 1 + 1 = c.m := by have := h.pos; omega
    rw [← Nat.cast_one (R := ZMod c.m), ← Nat.cast_add, h1]; simp
  exact eq_neg_of_add_eq_zero_left this

end Cfg.WF

/-! ### exponentiation, inverse, division -/

theorem exp_lt {c : Cfg} (hm : 0 < c.m) (x e : ℕ) : exp c x e < c.m := by
  rw [exp_eq]; exact Nat.mod_lt _ hm

theorem exp_cast (c : Cfg) (x e : ℕ) : ((exp c x e : ℕ) : ZMod c.m) = (x : ZMod c.m) ^ e := by
  rw [exp_eq, ZMod.natCast_mod, Nat.cast_pow]

theorem inverse_eq (c : Cfg) (x : ℕ) : inverse c x = x ^ (c.m - 2) % c.m := by
  unfold inverse invMod; rw [powMod_eq]

theorem inverse_lt {c : Cfg} (hm : 0 < c.m) (x : ℕ) : inverse c x < c.m := by
  rw [inverse_eq]; exact Nat.mod_lt _ hm

theorem inverse_cast {c : Cfg} (h : c.WF) (x : ℕ) :
    ((inverse c x : ℕ) : ZMod c.m) = (x : ZMod c.m)⁻¹ := by
  have := h.fact
  rw [inverse_eq, ZMod.natCast_mod, Nat.cast_pow]
  have h3 := h.three_le
  by_cases hx : (x : ZMod c.m) = 0
  · rw [hx, inv_zero, zero_pow (by omega)]
  · apply eq_inv_of_mul_eq_one_left
    rw [← pow_succ]
    have : c.m - 2 + 1 = c.m - 1 := by omega
    rw [this]
    exact ZMod.pow_card_sub_one_eq_one hx

theorem inverse_zero' {c : Cfg} (h : c.WF) : inverse c 0 = 0 := by
  have h3 := h.three_le
  rw [inverse_eq, zero_pow (by omega)]; simp

theorem halve_spec {c : Cfg} (h : c.WF) {x : ℕ} (hx : x < c.m) :
    halve c x < c.m ∧ (2 * halve c x) % c.m = x := by
  have ho := h.odd
  unfold halve
  split_ifs with hp
  · refine ⟨by omega, ?_⟩
    have : 2 * (x / 2) = x := by omega
    rw [this, Nat.mod_eq_of_lt hx]
  · refine ⟨by omega, ?_⟩
    have : 2 * ((x + c.m) / 2) = x + c.m := by omega
    rw [this, Nat.add_mod_right, Nat.mod_eq_of_lt hx]

/-! ### Legendre symbol (Euler's criterion) -/

theorem legendre_lv_cast {c : Cfg} (h : c.WF) (x : ℕ) :
    ((exp c x c.legExp : ℕ) : ZMod c.m) = (x : ZMod c.m) ^ (c.m / 2) := by
  rw [exp_cast, h.leg, h.half]

theorem pow_half_eq_zero_iff {c : Cfg} (h : c.WF) (a : ZMod c.m) :
    a ^ (c.m / 2) = 0 ↔ a = 0 := by
  have := h.fact
  constructor
  · exact fun h0 => pow_eq_zero_iff (h.half_pos.ne') |>.1 h0
  · rintro rfl; exact zero_pow h.half_pos.ne'

theorem two_ne_zero' {c : Cfg} (h : c.WF) : (2 : ZMod c.m) ≠ 0 := by
  intro h2
  have h2' : ((2 : ℕ) : ZMod c.m) = 0 := by exact_mod_cast h2
  rw [ZMod.natCast_eq_zero_iff] at h2'
  have := Nat.le_of_dvd (by norm_num) h2'
  have := h.three_le
  omega

theorem neg_one_ne_one {c : Cfg} (h : c.WF) : (-1 : ZMod c.m) ≠ 1 := by
  intro h1
  apply two_ne_zero' h
  linear_combination (-1 : ZMod c.m) * h1

theorem legendre_values (c : Cfg) (x : ℕ) : legendre c x ∈ ({0, 1, -1} : Set ℤ) := by
  unfold legendre
  simp only
  split_ifs <;> simp

open Classical in
/-- The model's Legendre symbol, expressed in `ZMod c.m`. -/
theorem legendre_eq {c : Cfg} (h : c.WF) (x : ℕ) :
    legendre c x = if (x : ZMod c.m) = 0 then 0
      else if (x : ZMod c.m) ^ (c.m / 2) = 1 then 1 else -1 := by
  have hlt := exp_lt h.pos x c.legExp
  have hc := legendre_lv_cast h x
  unfold legendre
  simp only
  rw [h.one_mod]
  by_cases h0 : exp c x c.legExp = 0
  · have : (x : ZMod c.m) = 0 := by
      rw [← pow_half_eq_zero_iff h, ← hc, h0]; simp
    rw [if_pos h0, if_pos this]
  · have hx0 : (x : ZMod c.m) ≠ 0 := by
      intro hx
      apply h0
      rw [← natCast_eq_zero_of_lt hlt, hc, hx]
      exact zero_pow h.half_pos.ne'
    rw [if_neg h0, if_neg hx0]
    by_cases h1 : exp c x c.legExp = 1
    · rw [if_pos h1, if_pos (by rw [← hc, h1]; simp)]
    · rw [if_neg h1, if_neg]
      rw [← hc, natCast_eq_one_of_lt h.one_lt hlt]
      exact h1

theorem legendre_eq_zero_iff {c : Cfg} (h : c.WF) (x : ℕ) :
    legendre c x = 0 ↔ (x : ZMod c.m) = 0 := by
  rw [legendre_eq h]
  split_ifs <;> simp_all

theorem legendre_eq_one_iff {c : Cfg} (h : c.WF) (x : ℕ) :
    legendre c x = 1 ↔ (x : ZMod c.m) ≠ 0 ∧ IsSquare (x : ZMod c.m) := by
  have := h.fact
  rw [legendre_eq h]
  by_cases hx : (x : ZMod c.m) = 0
  · simp [hx]
  · rw [if_neg hx, ZMod.euler_criterion c.m hx]
    split_ifs with h1 <;> simp [hx, h1]

theorem legendre_eq_neg_one_iff {c : Cfg} (h : c.WF) (x : ℕ) :
    legendre c x = -1 ↔ ¬ IsSquare (x : ZMod c.m) := by
  have := h.fact
  rw [legendre_eq h]
  by_cases hx : (x : ZMod c.m) = 0
  · simp [hx]
  · rw [if_neg hx, ZMod.euler_criterion c.m hx]
    split_ifs with h1 <;> simp [h1]

/-! ### Tonelli–Shanks -/

theorem sqPow_cast (m : ℕ) : ∀ n t, ((sqPow m n t : ℕ) : ZMod m) = (t : ZMod m) ^ (2 ^ n)
  | 0, t => by simp [sqPow]
  | n + 1, t => by
    rw [sqPow, sqPow_cast m n, ZMod.natCast_mod, Nat.cast_mul, ← pow_two, ← pow_mul, ← pow_succ']

theorem sqPow_lt {m : ℕ} : ∀ n t, t < m → sqPow m n t < m
  | 0, _, h => h
  | n + 1, t, h => sqPow_lt n _ (Nat.mod_lt _ (by omega))

/-- `ordLog` returns the exact exponent `j` of the 2-power order of `t` (plus the start counter),
whenever the fuel is at least `j`. -/
theorem ordLog_spec {m : ℕ} (hm : 1 < m) : ∀ f t k j, t < m → j ≤ f →
    (t : ZMod m) ^ (2 ^ j) = 1 → (∀ i, i < j → (t : ZMod m) ^ (2 ^ i) ≠ 1) →
    ordLog m f t k = k + j
  | 0, t, k, j, _, hj, _, _ => by
    obtain rfl : j = 0 := by omega
    simp [ordLog]
  | f + 1, t, k, j, ht, hj, h1, hmin => by
    have hone : 1 % m = 1 := Nat.mod_eq_of_lt hm
    rw [ordLog, hone]
    split_ifs with ht1
    · subst ht1
      rcases Nat.eq_zero_or_pos j with rfl | hpos
      · simp
      · exact absurd (by simp) (hmin 0 hpos)
    · have htc : (t : ZMod m) ≠ 1 := fun hc => ht1 ((natCast_eq_one_of_lt hm ht).1 hc)
      obtain ⟨j', rfl⟩ : ∃ j', j = j' + 1 := by
        rcases j with _ | j'
        · simp at h1; exact absurd h1 htc
        · exact ⟨j', rfl⟩
      rw [ordLog_spec hm f (t * t % m) (k + 1) j' (Nat.mod_lt _ (by omega)) (by omega) ?_ ?_]
      · omega
      · rw [ZMod.natCast_mod, Nat.cast_mul, ← pow_two, ← pow_mul, ← pow_succ']; exact h1
      · intro i hi
        rw [ZMod.natCast_mod, Nat.cast_mul, ← pow_two, ← pow_mul, ← pow_succ']
        exact hmin (i + 1) (by omega)

theorem exists_least_two_pow {m : ℕ} (b : ZMod m) (n : ℕ) (hb : b ^ (2 ^ n) = 1) :
    ∃ j, j ≤ n ∧ b ^ (2 ^ j) = 1 ∧ ∀ i, i < j → b ^ (2 ^ i) ≠ 1 := by
  classical
  have hex : ∃ j, b ^ (2 ^ j) = 1 := ⟨n, hb⟩
  exact ⟨Nat.find hex, Nat.find_min' hex hb, Nat.find_spec hex,
    fun i hi => Nat.find_min hex hi⟩

/-- The Tonelli–Shanks loop invariant for the state `(y, b, g, r)` while extracting a root of `x`
modulo `m`: `y² = x·b`, the order of `b` divides `2^(r-1)`, and `g` has order exactly `2^r`. -/
structure TSInv (m x y b g r : ℕ) : Prop where
  y_lt : y < m
  b_lt : b < m
  g_lt : g < m
  r_pos : 1 ≤ r
  sq : (y : ZMod m) ^ 2 = (x : ZMod m) * (b : ZMod m)
  b_ord : (b : ZMod m) ^ (2 ^ (r - 1)) = 1
  g_ord : (g : ZMod m) ^ (2 ^ (r - 1)) = -1

/-- Under the invariant, the inner loop `ordLog` (fuel `r+1`) returns the exact exponent `mm` of
the order `2^mm` of `b`, and `mm < r`. -/
theorem ordLog_exact {m x y b g r : ℕ} (hm : 1 < m) (inv : TSInv m x y b g r) :
    ordLog m (r + 1) b 0 < r ∧ (b : ZMod m) ^ (2 ^ ordLog m (r + 1) b 0) = 1 ∧
      ∀ i, i < ordLog m (r + 1) b 0 → (b : ZMod m) ^ (2 ^ i) ≠ 1 := by
  obtain ⟨j, hj, h1, hmin⟩ := exists_least_two_pow (b : ZMod m) (r - 1) inv.b_ord
  have := ordLog_spec hm (r + 1) b 0 j inv.b_lt (by omega) h1 hmin
  rw [this, zero_add]
  have := inv.r_pos
  exact ⟨by omega, h1, hmin⟩

/-- One iteration of the outer loop preserves the invariant, with `r` replaced by the strictly
smaller `mm`. -/
theorem tsInv_step {m x y b g r : ℕ} [Fact m.Prime] (hm : 1 < m)
    (inv : TSInv m x y b g r) (hmm : ordLog m (r + 1) b 0 ≠ 0) :
    TSInv m x (y * sqPow m (r - ordLog m (r + 1) b 0 - 1) g % m)
      (b * (sqPow m (r - ordLog m (r + 1) b 0 - 1) g * sqPow m (r - ordLog m (r + 1) b 0 - 1) g % m) % m)
      (sqPow m (r - ordLog m (r + 1) b 0 - 1) g * sqPow m (r - ordLog m (r + 1) b 0 - 1) g % m)
      (ordLog m (r + 1) b 0) := by
  obtain ⟨hlt, h1, hmin⟩ := ordLog_exact hm inv
  generalize ordLog m (r + 1) b 0 = mm at *
  have hm0 : 0 < m := by omega
  have ht : ((sqPow m (r - mm - 1) g : ℕ) : ZMod m) = (g : ZMod m) ^ (2 ^ (r - mm - 1)) :=
    sqPow_cast m _ g
  generalize sqPow m (r - mm - 1) g = t at *
  have hg' : ((t : ZMod m) * t) ^ (2 ^ (mm - 1)) = -1 := by
    rw [ht, ← pow_two, ← pow_mul, ← pow_mul, ← pow_succ', ← pow_add, ← inv.g_ord]
    congr 2
    omega
  have hu : (b : ZMod m) ^ (2 ^ (mm - 1)) = -1 := by
    have hne : (b : ZMod m) ^ (2 ^ (mm - 1)) ≠ 1 := hmin (mm - 1) (by omega)
    have hsq : (b : ZMod m) ^ (2 ^ (mm - 1)) * (b : ZMod m) ^ (2 ^ (mm - 1)) = 1 := by
      rw [← pow_add, ← two_mul, ← pow_succ']
      have : mm - 1 + 1 = mm := by omega
      rw [this, h1]
    rcases mul_self_eq_one_iff.1 hsq with h | h
    · exact absurd h hne
    · exact h
  refine ⟨Nat.mod_lt _ hm0, Nat.mod_lt _ hm0, Nat.mod_lt _ hm0, by omega, ?_, ?_, ?_⟩
  · simp only [ZMod.natCast_mod, Nat.cast_mul]
    linear_combination ((t : ZMod m)) ^ 2 * inv.sq
  · simp only [ZMod.natCast_mod, Nat.cast_mul]
    rw [mul_pow, hu, hg']; ring
  · simp only [ZMod.natCast_mod, Nat.cast_mul]
    exact hg'

/-- With fuel at least `r + 1` the loop terminates with a square root of `x`. -/
theorem tsLoop_correct {m x : ℕ} [Fact m.Prime] (hm : 1 < m) : ∀ f y b g r, r + 1 ≤ f →
    TSInv m x y b g r →
    ∃ y', tsLoop m f y b g r = some y' ∧ y' < m ∧ (y' : ZMod m) ^ 2 = (x : ZMod m)
  | 0, _, _, _, _, hf, _ => by omega
  | f + 1, y, b, g, r, hf, inv => by
    rw [tsLoop]
    simp only
    obtain ⟨hlt, h1, _⟩ := ordLog_exact hm inv
    split_ifs with h0
    · refine ⟨y, rfl, inv.y_lt, ?_⟩
      rw [h0, pow_zero, pow_one] at h1
      rw [inv.sq, h1, mul_one]
    · exact tsLoop_correct hm f _ _ _ _ (by omega) (tsInv_step hm inv h0)

theorem fromMont_lt {c : Cfg} (hm : 0 < c.m) (v : ℕ) : c.fromMont v < c.m := Nat.mod_lt _ hm

/-- The residue test value `t = b^(2^(r-1))` computed by `sqrt` is Euler's `x^((m-1)/2)`. -/
theorem sqrt_t_cast {c : Cfg} (h : c.WF) (x : ℕ) :
    ((sqPow c.m (c.r - 1) (exp c x c.sqrtExp * (x * exp c x c.sqrtExp % c.m) % c.m) : ℕ) : ZMod c.m)
      = (x : ZMod c.m) ^ (c.m / 2) := by
  obtain ⟨s, hs, hm1, he⟩ := h.two_adic
  rw [sqPow_cast, ZMod.natCast_mod, Nat.cast_mul, ZMod.natCast_mod, Nat.cast_mul, exp_cast, he]
  have h1 : (x : ZMod c.m) ^ ((s - 1) / 2) * ((x : ZMod c.m) * (x : ZMod c.m) ^ ((s - 1) / 2))
      = (x : ZMod c.m) ^ s := by
    rw [← pow_succ', ← pow_add]
    congr 1
    omega
  rw [h1, ← pow_mul]
  congr 1
  have h2 : 2 ^ c.r = 2 * 2 ^ (c.r - 1) := by
    rw [← pow_succ']
    congr 1
    have := h.r_pos
    omega
  have h3 : c.m - 1 = 2 * (s * 2 ^ (c.r - 1)) := by rw [hm1, h2]; ring
  generalize s * 2 ^ (c.r - 1) = K at *
  have := h.pos
  omega

/-- Initial Tonelli–Shanks invariant established by `sqrt` when `x` is a non-zero square. -/
theorem sqrt_init_inv {c : Cfg} (h : c.WF) (x : ℕ)
    (ht : (x : ZMod c.m) ^ (c.m / 2) = 1) :
    TSInv c.m x (x * exp c x c.sqrtExp % c.m)
      (exp c x c.sqrtExp * (x * exp c x c.sqrtExp % c.m) % c.m) (c.fromMont c.gMont) c.r := by
  refine ⟨Nat.mod_lt _ h.pos, Nat.mod_lt _ h.pos, fromMont_lt h.pos _, h.r_pos, ?_, ?_, ?_⟩
  · simp only [ZMod.natCast_mod, Nat.cast_mul]
    ring
  · rw [← sqPow_cast, sqrt_t_cast h x, ht]
  · have := h.g_order
    rw [powMod_eq] at this
    have h2 : (((c.fromMont c.gMont) ^ 2 ^ (c.r - 1) % c.m : ℕ) : ZMod c.m)
        = ((c.m - 1 : ℕ) : ZMod c.m) := by rw [this]
    rw [ZMod.natCast_mod, Nat.cast_pow, h.natCast_pred] at h2
    exact h2

/-- Trichotomy for `sqrt`: zero, non-zero square (a root is returned), non-square (`none`). -/
theorem sqrt_cases {c : Cfg} (h : c.WF) {x : ℕ} (hx : x < c.m) :
    (x = 0 ∧ sqrt c x = some 0) ∨
    ((x : ZMod c.m) ≠ 0 ∧ IsSquare (x : ZMod c.m) ∧
      ∃ y, sqrt c x = some y ∧ y < c.m ∧ (y : ZMod c.m) ^ 2 = (x : ZMod c.m)) ∨
    (¬ IsSquare (x : ZMod c.m) ∧ sqrt c x = none) := by
  have := h.fact
  have htc := sqrt_t_cast h x
  have ht_lt : sqPow c.m (c.r - 1) (exp c x c.sqrtExp * (x * exp c x c.sqrtExp % c.m) % c.m) < c.m :=
    sqPow_lt _ _ (Nat.mod_lt _ h.pos)
  unfold sqrt
  simp only
  rw [h.one_mod]
  by_cases hx0 : (x : ZMod c.m) = 0
  · left
    have hxz : x = 0 := (natCast_eq_zero_of_lt hx).1 hx0
    refine ⟨hxz, ?_⟩
    rw [hx0, zero_pow h.half_pos.ne', natCast_eq_zero_of_lt ht_lt] at htc
    rw [if_pos htc]
  · right
    rcases ZMod.pow_div_two_eq_neg_one_or_one c.m hx0 with h1 | h1
    · left
      refine ⟨hx0, (ZMod.euler_criterion c.m hx0).2 h1, ?_⟩
      have inv := sqrt_init_inv h x h1
      rw [h1, natCast_eq_one_of_lt h.one_lt ht_lt] at htc
      rw [htc, if_neg (by norm_num), if_neg (by simp)]
      exact tsLoop_correct h.one_lt (c.r + 1) _ _ _ _ le_rfl inv
    · right
      have hns : ¬ IsSquare (x : ZMod c.m) := by
        rw [ZMod.euler_criterion c.m hx0, h1]
        exact neg_one_ne_one h
      refine ⟨hns, ?_⟩
      have ht0 : sqPow c.m (c.r - 1)
          (exp c x c.sqrtExp * (x * exp c x c.sqrtExp % c.m) % c.m) ≠ 0 := by
        intro h0
        rw [h0, h1] at htc
        simp at htc
      have ht1 : sqPow c.m (c.r - 1)
          (exp c x c.sqrtExp * (x * exp c x c.sqrtExp % c.m) % c.m) ≠ 1 := by
        intro h0
        rw [h0, h1] at htc
        exact neg_one_ne_one h (by simpa using htc.symm)
      rw [if_neg ht0, if_pos ht1]

/-! ### Montgomery batch inversion -/

/-- forward pass step of `batchInvert` -/
def biStep1 (c : Cfg) (st : List ℕ × ℕ) (x : ℕ) : List ℕ × ℕ :=
  if x = 0 then (0 :: st.1, st.2) else (st.2 :: st.1, st.2 * x % c.m)

/-- backward pass step of `batchInvert` -/
def biStep2 (c : Cfg) (st : List ℕ × ℕ) (xp : ℕ × ℕ) : List ℕ × ℕ :=
  if xp.1 = 0 then (0 :: st.1, st.2) else ((xp.2 * st.2 % c.m) :: st.1, st.2 * xp.1 % c.m)

theorem batchInvert_unfold (c : Cfg) (a : List ℕ) :
    batchInvert c a =
      ((List.zip a.reverse (a.foldl (biStep1 c) ([], 1 % c.m)).1).foldl (biStep2 c)
        ([], inverse c (a.foldl (biStep1 c) ([], 1 % c.m)).2)).1 := rfl

theorem batch_fold {c : Cfg} (h : c.WF) : ∀ (l : List ℕ), (∀ x ∈ l, x < c.m) →
    (l.foldl (biStep1 c) ([], 1 % c.m)).2 < c.m ∧
    ((l.foldl (biStep1 c) ([], 1 % c.m)).2 : ZMod c.m) ≠ 0 ∧
    ∀ res inv0, inv0 < c.m →
      (inv0 : ZMod c.m) = (((l.foldl (biStep1 c) ([], 1 % c.m)).2 : ℕ) : ZMod c.m)⁻¹ →
      ((List.zip l.reverse (l.foldl (biStep1 c) ([], 1 % c.m)).1).foldl (biStep2 c) (res, inv0)).1
        = l.map (inverse c) ++ res := by
  have := h.fact
  intro l
  induction l using List.reverseRecOn with
  | nil =>
    intro _
    rw [h.one_mod]
    refine ⟨h.one_lt, by simp, ?_⟩
    intro res inv0 _ _
    simp
  | append_singleton l x ih =>
    intro hl
    have hxl : x < c.m := hl x (by simp)
    obtain ⟨hacc_lt, hacc_ne, ih⟩ := ih (fun y hy => hl y (by simp [hy]))
    rw [List.foldl_append, List.foldl_cons, List.foldl_nil]
    generalize l.foldl (biStep1 c) ([], 1 % c.m) = st at *
    obtain ⟨pr, acc⟩ := st
    simp only at hacc_lt hacc_ne ih
    by_cases hx0 : x = 0
    · subst hx0
      simp only [biStep1, if_true]
      refine ⟨hacc_lt, hacc_ne, ?_⟩
      intro res inv0 hinv_lt hinv
      rw [List.reverse_append, List.reverse_singleton, List.singleton_append, List.zip_cons_cons,
        List.foldl_cons]
      simp only [biStep2, if_true]
      rw [ih (0 :: res) inv0 hinv_lt hinv]
      simp [inverse_zero' h]
    · have hxc : (x : ZMod c.m) ≠ 0 := fun hc => hx0 ((natCast_eq_zero_of_lt hxl).1 hc)
      simp only [biStep1, if_neg hx0]
      refine ⟨Nat.mod_lt _ h.pos, ?_, ?_⟩
      · rw [ZMod.natCast_mod, Nat.cast_mul]
        exact mul_ne_zero hacc_ne hxc
      · intro res inv0 hinv_lt hinv
        rw [ZMod.natCast_mod, Nat.cast_mul] at hinv
        rw [List.reverse_append, List.reverse_singleton, List.singleton_append, List.zip_cons_cons,
          List.foldl_cons]
        simp only [biStep2, if_neg hx0]
        rw [ih _ (inv0 * x % c.m) (Nat.mod_lt _ h.pos) ?_]
        · have hv : acc * inv0 % c.m = inverse c x := by
            apply natCast_inj_of_lt (Nat.mod_lt _ h.pos) (inverse_lt h.pos x)
            rw [ZMod.natCast_mod, Nat.cast_mul, inverse_cast h, hinv]
            field_simp
          simp [hv]
        · rw [ZMod.natCast_mod, Nat.cast_mul, hinv]
          field_simp

theorem batchInvert_eq_map {c : Cfg} (h : c.WF) (a : List ℕ) (ha : ∀ x ∈ a, x < c.m) :
    batchInvert c a = a.map (inverse c) := by
  obtain ⟨_, _, hf⟩ := batch_fold h a ha
  rw [batchInvert_unfold, hf [] _ (inverse_lt h.pos _) (inverse_cast h _)]
  simp

end Model.FF

end I3
