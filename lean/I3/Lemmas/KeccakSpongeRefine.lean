/-
  I3.Lemmas.KeccakSpongeRefine — the TRANSLATED sponge of golang.org/x/crypto/sha3 (I3.Gen.KeccakSponge: `Write`, `Sum`,
  `Read`, `padAndPermute`, `permute`) refines the specification's streaming sponge `Keccak.Sponge` (I3.Exec.Keccak), for
  every input.
    1. words: the little-endian word of bytewise XORed lists is the XOR of the words (`leW8_xor`); the specification's
       `leWord` (a fold over eight bytes) is `leW8` (`spec_leWord_cons`).
    2. bytes: `xorb B p` = the 200 state bytes `B` with `p` XORed in from position 0; `goXORBytesAt`, `goSet` pointwise.
    3. one block: the word view of `xorb B blk` is the XOR phase of `Keccak.absorbBlock`.
    4. the refinement relation `R`, the loop of `Write` by induction against `absorbAll`, `padAndPermute` against
       `padLast`, one `Read` iteration against `squeeze32`.
  Core-only (no Mathlib).
-/
import I3.Lemmas.KeccakSpongeBridge
import I3.Lemmas.Sponge

namespace I3.Lemmas.KeccakSpongeRefine
open I3 I3.Gen.KeccakGo I3.Lemmas.KeccakBridge I3.Lemmas.KeccakSpongeBridge

/-! ### 1. words -/

theorem i64_cases (i : Nat) (hi : i < 64) : i = 0 ∨ i = 1 ∨ i = 2 ∨ i = 3 ∨ i = 4 ∨ i = 5 ∨ i = 6 ∨ i = 7 ∨ i = 8 ∨ i = 9 ∨ i = 10 ∨ i = 11 ∨ i = 12 ∨ i = 13 ∨ i = 14 ∨ i = 15 ∨ i = 16 ∨ i = 17 ∨ i = 18 ∨ i = 19 ∨ i = 20 ∨ i = 21 ∨ i = 22 ∨ i = 23 ∨ i = 24 ∨ i = 25 ∨ i = 26 ∨ i = 27 ∨ i = 28 ∨ i = 29 ∨ i = 30 ∨ i = 31 ∨ i = 32 ∨ i = 33 ∨ i = 34 ∨ i = 35 ∨ i = 36 ∨ i = 37 ∨ i = 38 ∨ i = 39 ∨ i = 40 ∨ i = 41 ∨ i = 42 ∨ i = 43 ∨ i = 44 ∨ i = 45 ∨ i = 46 ∨ i = 47 ∨ i = 48 ∨ i = 49 ∨ i = 50 ∨ i = 51 ∨ i = 52 ∨ i = 53 ∨ i = 54 ∨ i = 55 ∨ i = 56 ∨ i = 57 ∨ i = 58 ∨ i = 59 ∨ i = 60 ∨ i = 61 ∨ i = 62 ∨ i = 63 := by omega

theorem leW8_xor (a0 a1 a2 a3 a4 a5 a6 a7 b0 b1 b2 b3 b4 b5 b6 b7 : UInt8) :
    leW8 (a0 ^^^ b0) (a1 ^^^ b1) (a2 ^^^ b2) (a3 ^^^ b3) (a4 ^^^ b4) (a5 ^^^ b5) (a6 ^^^ b6) (a7 ^^^ b7) =
      leW8 a0 a1 a2 a3 a4 a5 a6 a7 ^^^ leW8 b0 b1 b2 b3 b4 b5 b6 b7 := by
  unfold leW8
  apply UInt64.eq_of_toBitVec_eq
  apply BitVec.eq_of_getLsbD_eq
  intro i hi
  simp only [UInt64.toBitVec_or, UInt64.toBitVec_xor, UInt64.toBitVec_shiftLeft, UInt8.toBitVec_toUInt64, UInt8.toBitVec_xor]
  rcases i64_cases i hi with h | h | h | h | h | h | h | h | h | h | h | h | h | h | h | h | h | h | h | h | h | h | h | h | h | h | h | h | h | h | h | h | h | h | h | h | h | h | h | h | h | h | h | h | h | h | h | h | h | h | h | h | h | h | h | h | h | h | h | h | h | h | h | h <;> subst h <;> simp

/-- the specification's `leWord` (a fold over the first eight bytes) on a list with at least eight bytes. -/
theorem spec_leWord_cons (b0 b1 b2 b3 b4 b5 b6 b7 : UInt8) (r : List UInt8) :
    Keccak.leWord (b0 :: b1 :: b2 :: b3 :: b4 :: b5 :: b6 :: b7 :: r) = leW8 b0 b1 b2 b3 b4 b5 b6 b7 := by
  unfold leW8 Keccak.leWord
  simp only [List.take_succ_cons, List.take_zero, List.foldr_cons, List.foldr_nil]
  apply UInt64.eq_of_toBitVec_eq
  apply BitVec.eq_of_getLsbD_eq
  intro i hi
  simp only [UInt64.toBitVec_or, UInt64.toBitVec_shiftLeft, UInt8.toBitVec_toUInt64]
  rcases i64_cases i hi with h | h | h | h | h | h | h | h | h | h | h | h | h | h | h | h | h | h | h | h | h | h | h | h | h | h | h | h | h | h | h | h | h | h | h | h | h | h | h | h | h | h | h | h | h | h | h | h | h | h | h | h | h | h | h | h | h | h | h | h | h | h | h | h <;> subst h <;> simp

/-! ### 2. bytes -/

/-- the state bytes `B` with `p` XORed in from position 0. -/
def xorb (B p : List UInt8) : List UInt8 := (List.range B.length).map fun i => B.getD i 0 ^^^ p.getD i 0

theorem xorb_length (B p : List UInt8) : (xorb B p).length = B.length := by simp [xorb]

theorem xorb_getD (B p : List UInt8) (i : Nat) (h : i < B.length) :
    (xorb B p).getD i 0 = B.getD i 0 ^^^ p.getD i 0 := by
  simp [xorb, List.getD_eq_getElem?_getD, h]

theorem ext_getD {l1 l2 : List UInt8} (hl : l1.length = l2.length)
    (h : ∀ i, i < l1.length → l1.getD i 0 = l2.getD i 0) : l1 = l2 := by
  apply List.ext_getElem hl
  intro i h1 h2
  have := h i h1
  simpa [List.getD_eq_getElem?_getD, h1, h2] using this

theorem getD_ge (l : List UInt8) (i : Nat) (h : l.length ≤ i) : l.getD i 0 = 0 := by
  simp [List.getD_eq_getElem?_getD, h]

theorem getD_append_lt (l1 l2 : List UInt8) (i : Nat) (h : i < l1.length) : (l1 ++ l2).getD i 0 = l1.getD i 0 := by
  simp [List.getD_eq_getElem?_getD, List.getElem?_append_left h]

theorem getD_append_ge (l1 l2 : List UInt8) (i : Nat) (h : l1.length ≤ i) :
    (l1 ++ l2).getD i 0 = l2.getD (i - l1.length) 0 := by
  simp [List.getD_eq_getElem?_getD, List.getElem?_append_right h]

theorem getD_take (l : List UInt8) (m i : Nat) : (l.take m).getD i 0 = if i < m then l.getD i 0 else 0 := by
  simp only [List.getD_eq_getElem?_getD, List.getElem?_take]
  split <;> simp

theorem getD_drop (l : List UInt8) (m i : Nat) : (l.drop m).getD i 0 = l.getD (m + i) 0 := by
  simp [List.getD_eq_getElem?_getD, List.getElem?_drop]

theorem getD_zipWith (l1 l2 : List UInt8) (i : Nat) (h : l1.length = l2.length) :
    (List.zipWith (· ^^^ ·) l1 l2).getD i 0 = l1.getD i 0 ^^^ l2.getD i 0 := by
  by_cases hi : i < l1.length
  · have h2 : i < l2.length := by omega
    simp [List.getD_eq_getElem?_getD, List.getElem?_zipWith, hi, h2]
  · have a1 : (List.zipWith (· ^^^ ·) l1 l2).length ≤ i := by simp; omega
    rw [getD_ge _ _ a1, getD_ge l1 _ (by omega), getD_ge l2 _ (by omega)]; simp

theorem getD_set (l : List UInt8) (j i : Nat) (v : UInt8) (hj : j < l.length) :
    (l.set j v).getD i 0 = if i = j then v else l.getD i 0 := by
  simp only [List.getD_eq_getElem?_getD, List.getElem?_set]
  by_cases h : j = i
  · subst h; simp [hj]
  · have h' : ¬ i = j := fun e => h e.symm
    simp [h, h']

/-- `subtle.XORBytes(a[lo:hi], a[lo:hi], y)`, byte by byte. -/
theorem xorAt_length (a : List UInt8) (lo hi : Nat) (y : List UInt8) (h : lo + min (hi - lo) y.length ≤ a.length) :
    (goXORBytesAt a lo hi y).1.length = a.length := by
  simp [goXORBytesAt]; omega

theorem xorAt_getD (a : List UInt8) (lo hi : Nat) (y : List UInt8) (i : Nat)
    (h : lo + min (hi - lo) y.length ≤ a.length) :
    (goXORBytesAt a lo hi y).1.getD i 0 =
      if lo ≤ i ∧ i < lo + min (hi - lo) y.length then a.getD i 0 ^^^ y.getD (i - lo) 0 else a.getD i 0 := by
  unfold goXORBytesAt
  simp only []
  generalize hm : min (hi - lo) y.length = m at h ⊢
  have hmy : m ≤ y.length := by omega
  have l1 : (a.take lo).length = lo := by simp; omega
  have l2 : (List.zipWith (· ^^^ ·) ((a.drop lo).take m) (y.take m)).length = m := by simp; omega
  by_cases c1 : i < lo
  · rw [List.append_assoc, getD_append_lt _ _ _ (by omega), getD_take]
    simp [c1]; intro; omega
  · by_cases c2 : i < lo + m
    · rw [getD_append_lt _ _ _ (by simp; omega), getD_append_ge _ _ _ (by omega), l1,
        getD_zipWith _ _ _ (by simp; omega), getD_take, getD_take, getD_drop]
      have : i - lo < m := by omega
      have e : lo + (i - lo) = i := by omega
      simp [this, e, c2]; intro; omega
    · rw [getD_append_ge _ _ _ (by simp; omega)]
      simp only [List.length_append, l1, l2, getD_drop]
      have e : lo + m + (i - (lo + m)) = i := by omega
      simp [e, c2]

theorem xorb_nil (B : List UInt8) : xorb B [] = B := by
  apply ext_getD (xorb_length _ _)
  intro i hi
  rw [xorb_length] at hi
  rw [xorb_getD _ _ _ hi]; simp

/-- one `XORBytes` of `Write`: the bytes taken from `p` are appended to what has been XORed in so far. -/
theorem xorAt_xorb (B buf p : List UInt8) (hB : B.length = 200) (hn : buf.length ≤ 136) :
    goXORBytesAt (xorb B buf) buf.length 136 p =
      (xorb B (buf ++ p.take (min (136 - buf.length) p.length)), ((min (136 - buf.length) p.length : Nat) : Int)) := by
  have hl : buf.length + min (136 - buf.length) p.length ≤ (xorb B buf).length := by rw [xorb_length]; omega
  apply Prod.ext
  · apply ext_getD
    · rw [xorAt_length _ _ _ _ hl, xorb_length, xorb_length]
    · intro i hi
      rw [xorAt_length _ _ _ _ hl, xorb_length] at hi
      rw [xorAt_getD _ _ _ _ _ hl, xorb_getD _ _ _ hi, xorb_getD _ _ _ hi]
      generalize min (136 - buf.length) p.length = m
      by_cases c1 : i < buf.length
      · rw [getD_append_lt _ _ _ c1]
        simp; intro; omega
      · rw [getD_append_ge _ _ _ (by omega), getD_take, getD_ge buf i (by omega)]
        by_cases c2 : i < buf.length + m
        · have c3 : i - buf.length < m := by omega
          have c4 : buf.length ≤ i := by omega
          simp [c2, c3, c4]
        · have c3 : ¬ i - buf.length < m := by omega
          simp [c2, c3]
  · rfl

/-! ### padding -/

theorem getD_singleton (x : UInt8) (j : Nat) : [x].getD j 0 = if j = 0 then x else 0 := by
  cases j <;> simp

theorem getD_replicate0 (k j : Nat) : (List.replicate k (0 : UInt8)).getD j 0 = 0 := by
  simp only [List.getD_eq_getElem?_getD, List.getElem?_replicate]
  split <;> rfl

theorem padLast_getD (buf : List UInt8) (hn : buf.length < 136) (i : Nat) :
    (Keccak.padLast buf).getD i 0 =
      if i < buf.length then buf.getD i 0 else (if i = buf.length then 1 else 0) ^^^ (if i = 135 then 128 else 0) := by
  by_cases c1 : i < buf.length
  · have e : ∃ t, Keccak.padLast buf = buf ++ t := by
      unfold Keccak.padLast; simp only []; split
      · exact ⟨_, rfl⟩
      · exact ⟨_, by simp only [List.append_assoc]; rfl⟩
    obtain ⟨t, e⟩ := e
    rw [e, getD_append_lt _ _ _ c1]; simp [c1]
  · by_cases c0 : buf.length = 135
    · have e : Keccak.padLast buf = buf ++ [0x81] := by simp [Keccak.padLast, Keccak.rate, c0]
      rw [e, getD_append_ge _ _ _ (by omega), getD_singleton]
      by_cases c2 : i = 135
      · subst c2; simp [c0]; decide
      · have h3 : ¬ i - buf.length = 0 := by omega
        have h4 : ¬ i = buf.length := by omega
        simp [c1, c2, h3, h4]
    · have e : Keccak.padLast buf = buf ++ ([0x01] ++ (List.replicate (134 - buf.length) 0 ++ [0x80])) := by
        simp [Keccak.padLast, Keccak.rate, c0]
      rw [e, getD_append_ge _ _ _ (by omega)]
      by_cases c2 : i = buf.length
      · subst c2; simp [c0]
      · rw [getD_append_ge _ _ _ (by simp; omega)]
        by_cases c3 : i < 135
        · rw [getD_append_lt _ _ _ (by simp; omega), getD_replicate0]
          have h5 : ¬ i = 135 := by omega
          simp [c1, c2, h5]
        · rw [getD_append_ge _ _ _ (by simp; omega), getD_singleton]
          simp only [List.length_replicate, List.length_singleton]
          by_cases c4 : i = 135
          · subst c4
            have h5 : 135 - buf.length - 1 - (134 - buf.length) = 0 := by omega
            have h6 : ¬ 135 = buf.length := by omega
            simp [c1, h5, h6]
          · have h5 : ¬ i - buf.length - 1 - (134 - buf.length) = 0 := by omega
            simp [c1, c2, c4, h5]

/-- the two byte stores of `padAndPermute` = XORing in the padding `padLast buf` of the specification. -/
theorem pad_xorb (B buf : List UInt8) (hB : B.length = 200) (hn : buf.length < 136) :
    goSet (goSet (xorb B buf) buf.length ((xorb B buf).getD buf.length 0 ^^^ 1)) 135
        ((goSet (xorb B buf) buf.length ((xorb B buf).getD buf.length 0 ^^^ 1)).getD 135 0 ^^^ 128) =
      xorb B (Keccak.padLast buf) := by
  unfold goSet
  have h1 : buf.length < (xorb B buf).length := by rw [xorb_length]; omega
  have h2 : 135 < ((xorb B buf).set buf.length ((xorb B buf).getD buf.length 0 ^^^ 1)).length := by
    rw [List.length_set, xorb_length]; omega
  apply ext_getD
  · simp [xorb_length]
  · intro i hi
    rw [List.length_set, List.length_set, xorb_length] at hi
    rw [getD_set _ _ _ _ h2, getD_set _ _ _ _ h1, getD_set _ _ _ _ h1, xorb_getD B buf i hi, xorb_getD B buf buf.length (by omega),
      xorb_getD B buf 135 (by omega), xorb_getD B (Keccak.padLast buf) i hi, padLast_getD _ hn, getD_ge buf buf.length (Nat.le_refl _)]
    by_cases c1 : i = 135
    · subst c1
      by_cases c2 : 135 = buf.length
      · have : ¬ 135 < buf.length := by omega
        simp [c2, UInt8.xor_assoc]
      · have : ¬ 135 < buf.length := by omega
        rw [getD_ge buf 135 (by omega)]
        simp [c2, this]
    · by_cases c2 : i = buf.length
      · subst c2; simp [c1]
      · by_cases c3 : i < buf.length
        · simp [c1, c2, c3]
        · rw [getD_ge buf i (by omega)]; simp [c1, c2, c3]

/-! ### 3. one block: word view of the XORed bytes -/

theorem leWord_xorb (B p : List UInt8) (k : Nat) (hk : 8 * k + 8 ≤ B.length) (_hp : p.length ≤ B.length) :
    leWord (xorb B p) k = leWord B k ^^^ leWord p k := by
  rw [leWord_eq, leWord_eq, leWord_eq, ← leW8_xor]
  rw [xorb_getD _ _ _ (by omega), xorb_getD _ _ _ (by omega), xorb_getD _ _ _ (by omega), xorb_getD _ _ _ (by omega),
    xorb_getD _ _ _ (by omega), xorb_getD _ _ _ (by omega), xorb_getD _ _ _ (by omega), xorb_getD _ _ _ (by omega)]

theorem leWord_short (p : List UInt8) (k : Nat) (h : p.length ≤ 8 * k) : leWord p k = 0 := by
  rw [leWord_eq, getD_ge _ _ (by omega), getD_ge _ _ (by omega), getD_ge _ _ (by omega), getD_ge _ _ (by omega),
    getD_ge _ _ (by omega), getD_ge _ _ (by omega), getD_ge _ _ (by omega), getD_ge _ _ (by omega)]
  decide

/-- the word read through the pointer cast = the specification's `leWord` of the block from byte `8k` on. -/
theorem leWord_spec (p : List UInt8) (k : Nat) (h : 8 * k + 8 ≤ p.length) :
    leWord p k = Keccak.leWord (p.drop (8 * k)) := by
  rw [leWord_eq]
  have e : ∀ j, p.getD (8 * k + j) 0 = (p.drop (8 * k)).getD j 0 := fun j => (getD_drop p (8 * k) j).symm
  have e0 : p.getD (8 * k) 0 = (p.drop (8 * k)).getD 0 0 := e 0
  rw [e0, e 1, e 2, e 3, e 4, e 5, e 6, e 7]
  have hl : 8 ≤ (p.drop (8 * k)).length := by simp; omega
  generalize p.drop (8 * k) = l at hl
  match l, hl with
  | b0 :: b1 :: b2 :: b3 :: b4 :: b5 :: b6 :: b7 :: r, _ => rw [spec_leWord_cons]; rfl

theorem leWord_bytesOfWords0 (s : A) : leWord (bytesOfWords s) 0 = s.a0 := congrArg A.a0 (wordsOfBytes_bytesOfWords s)
theorem leWord_bytesOfWords1 (s : A) : leWord (bytesOfWords s) 1 = s.a1 := congrArg A.a1 (wordsOfBytes_bytesOfWords s)
theorem leWord_bytesOfWords2 (s : A) : leWord (bytesOfWords s) 2 = s.a2 := congrArg A.a2 (wordsOfBytes_bytesOfWords s)
theorem leWord_bytesOfWords3 (s : A) : leWord (bytesOfWords s) 3 = s.a3 := congrArg A.a3 (wordsOfBytes_bytesOfWords s)
theorem leWord_bytesOfWords4 (s : A) : leWord (bytesOfWords s) 4 = s.a4 := congrArg A.a4 (wordsOfBytes_bytesOfWords s)
theorem leWord_bytesOfWords5 (s : A) : leWord (bytesOfWords s) 5 = s.a5 := congrArg A.a5 (wordsOfBytes_bytesOfWords s)
theorem leWord_bytesOfWords6 (s : A) : leWord (bytesOfWords s) 6 = s.a6 := congrArg A.a6 (wordsOfBytes_bytesOfWords s)
theorem leWord_bytesOfWords7 (s : A) : leWord (bytesOfWords s) 7 = s.a7 := congrArg A.a7 (wordsOfBytes_bytesOfWords s)
theorem leWord_bytesOfWords8 (s : A) : leWord (bytesOfWords s) 8 = s.a8 := congrArg A.a8 (wordsOfBytes_bytesOfWords s)
theorem leWord_bytesOfWords9 (s : A) : leWord (bytesOfWords s) 9 = s.a9 := congrArg A.a9 (wordsOfBytes_bytesOfWords s)
theorem leWord_bytesOfWords10 (s : A) : leWord (bytesOfWords s) 10 = s.a10 := congrArg A.a10 (wordsOfBytes_bytesOfWords s)
theorem leWord_bytesOfWords11 (s : A) : leWord (bytesOfWords s) 11 = s.a11 := congrArg A.a11 (wordsOfBytes_bytesOfWords s)
theorem leWord_bytesOfWords12 (s : A) : leWord (bytesOfWords s) 12 = s.a12 := congrArg A.a12 (wordsOfBytes_bytesOfWords s)
theorem leWord_bytesOfWords13 (s : A) : leWord (bytesOfWords s) 13 = s.a13 := congrArg A.a13 (wordsOfBytes_bytesOfWords s)
theorem leWord_bytesOfWords14 (s : A) : leWord (bytesOfWords s) 14 = s.a14 := congrArg A.a14 (wordsOfBytes_bytesOfWords s)
theorem leWord_bytesOfWords15 (s : A) : leWord (bytesOfWords s) 15 = s.a15 := congrArg A.a15 (wordsOfBytes_bytesOfWords s)
theorem leWord_bytesOfWords16 (s : A) : leWord (bytesOfWords s) 16 = s.a16 := congrArg A.a16 (wordsOfBytes_bytesOfWords s)
theorem leWord_bytesOfWords17 (s : A) : leWord (bytesOfWords s) 17 = s.a17 := congrArg A.a17 (wordsOfBytes_bytesOfWords s)
theorem leWord_bytesOfWords18 (s : A) : leWord (bytesOfWords s) 18 = s.a18 := congrArg A.a18 (wordsOfBytes_bytesOfWords s)
theorem leWord_bytesOfWords19 (s : A) : leWord (bytesOfWords s) 19 = s.a19 := congrArg A.a19 (wordsOfBytes_bytesOfWords s)
theorem leWord_bytesOfWords20 (s : A) : leWord (bytesOfWords s) 20 = s.a20 := congrArg A.a20 (wordsOfBytes_bytesOfWords s)
theorem leWord_bytesOfWords21 (s : A) : leWord (bytesOfWords s) 21 = s.a21 := congrArg A.a21 (wordsOfBytes_bytesOfWords s)
theorem leWord_bytesOfWords22 (s : A) : leWord (bytesOfWords s) 22 = s.a22 := congrArg A.a22 (wordsOfBytes_bytesOfWords s)
theorem leWord_bytesOfWords23 (s : A) : leWord (bytesOfWords s) 23 = s.a23 := congrArg A.a23 (wordsOfBytes_bytesOfWords s)
theorem leWord_bytesOfWords24 (s : A) : leWord (bytesOfWords s) 24 = s.a24 := congrArg A.a24 (wordsOfBytes_bytesOfWords s)

/-- the XOR phase of `Keccak.absorbBlock`. -/
def xorPhase (a : Keccak.Lanes) (blk : Bytes) : Keccak.Lanes :=
  (List.range 17).foldl (fun a i => a.setIfInBounds i (Keccak.g a i ^^^ Keccak.leWord (blk.drop (8*i)))) a

theorem absorbBlock_eq (a : Keccak.Lanes) (blk : Bytes) : Keccak.absorbBlock a blk = Keccak.keccakF (xorPhase a blk) := rfl

theorem xorPhase_lanes (A : A) (blk : Bytes) :
    xorPhase (lanes A) blk = #[A.a0 ^^^ Keccak.leWord (blk.drop (8*0)), A.a1 ^^^ Keccak.leWord (blk.drop (8*1)), A.a2 ^^^ Keccak.leWord (blk.drop (8*2)), A.a3 ^^^ Keccak.leWord (blk.drop (8*3)), A.a4 ^^^ Keccak.leWord (blk.drop (8*4)), A.a5 ^^^ Keccak.leWord (blk.drop (8*5)), A.a6 ^^^ Keccak.leWord (blk.drop (8*6)), A.a7 ^^^ Keccak.leWord (blk.drop (8*7)), A.a8 ^^^ Keccak.leWord (blk.drop (8*8)), A.a9 ^^^ Keccak.leWord (blk.drop (8*9)), A.a10 ^^^ Keccak.leWord (blk.drop (8*10)), A.a11 ^^^ Keccak.leWord (blk.drop (8*11)), A.a12 ^^^ Keccak.leWord (blk.drop (8*12)), A.a13 ^^^ Keccak.leWord (blk.drop (8*13)), A.a14 ^^^ Keccak.leWord (blk.drop (8*14)), A.a15 ^^^ Keccak.leWord (blk.drop (8*15)), A.a16 ^^^ Keccak.leWord (blk.drop (8*16)), A.a17, A.a18, A.a19, A.a20, A.a21, A.a22, A.a23, A.a24] := by kernel_rfl

theorem lanes_words (X : List UInt8) : lanes (wordsOfBytes X) = #[leWord X 0, leWord X 1, leWord X 2, leWord X 3, leWord X 4, leWord X 5, leWord X 6, leWord X 7, leWord X 8, leWord X 9, leWord X 10, leWord X 11, leWord X 12, leWord X 13, leWord X 14, leWord X 15, leWord X 16, leWord X 17, leWord X 18, leWord X 19, leWord X 20, leWord X 21, leWord X 22, leWord X 23, leWord X 24] := rfl

/-- **XORing a 136-byte block into the state bytes = the XOR phase of the specification's `absorbBlock`** on the word view. -/
theorem xorb_block (A : A) (blk : Bytes) (h : blk.length = 136) :
    lanes (wordsOfBytes (xorb (bytesOfWords A) blk)) = xorPhase (lanes A) blk := by
  have hB : (bytesOfWords A).length = 200 := bytesOfWords_length A
  rw [xorPhase_lanes, lanes_words]
  rw [leWord_xorb _ blk 0 (by omega) (by omega), leWord_bytesOfWords0, leWord_spec blk 0 (by omega)]
  rw [leWord_xorb _ blk 1 (by omega) (by omega), leWord_bytesOfWords1, leWord_spec blk 1 (by omega)]
  rw [leWord_xorb _ blk 2 (by omega) (by omega), leWord_bytesOfWords2, leWord_spec blk 2 (by omega)]
  rw [leWord_xorb _ blk 3 (by omega) (by omega), leWord_bytesOfWords3, leWord_spec blk 3 (by omega)]
  rw [leWord_xorb _ blk 4 (by omega) (by omega), leWord_bytesOfWords4, leWord_spec blk 4 (by omega)]
  rw [leWord_xorb _ blk 5 (by omega) (by omega), leWord_bytesOfWords5, leWord_spec blk 5 (by omega)]
  rw [leWord_xorb _ blk 6 (by omega) (by omega), leWord_bytesOfWords6, leWord_spec blk 6 (by omega)]
  rw [leWord_xorb _ blk 7 (by omega) (by omega), leWord_bytesOfWords7, leWord_spec blk 7 (by omega)]
  rw [leWord_xorb _ blk 8 (by omega) (by omega), leWord_bytesOfWords8, leWord_spec blk 8 (by omega)]
  rw [leWord_xorb _ blk 9 (by omega) (by omega), leWord_bytesOfWords9, leWord_spec blk 9 (by omega)]
  rw [leWord_xorb _ blk 10 (by omega) (by omega), leWord_bytesOfWords10, leWord_spec blk 10 (by omega)]
  rw [leWord_xorb _ blk 11 (by omega) (by omega), leWord_bytesOfWords11, leWord_spec blk 11 (by omega)]
  rw [leWord_xorb _ blk 12 (by omega) (by omega), leWord_bytesOfWords12, leWord_spec blk 12 (by omega)]
  rw [leWord_xorb _ blk 13 (by omega) (by omega), leWord_bytesOfWords13, leWord_spec blk 13 (by omega)]
  rw [leWord_xorb _ blk 14 (by omega) (by omega), leWord_bytesOfWords14, leWord_spec blk 14 (by omega)]
  rw [leWord_xorb _ blk 15 (by omega) (by omega), leWord_bytesOfWords15, leWord_spec blk 15 (by omega)]
  rw [leWord_xorb _ blk 16 (by omega) (by omega), leWord_bytesOfWords16, leWord_spec blk 16 (by omega)]
  rw [leWord_xorb _ blk 17 (by omega) (by omega), leWord_bytesOfWords17, leWord_short blk 17 (by omega), UInt64.xor_zero]
  rw [leWord_xorb _ blk 18 (by omega) (by omega), leWord_bytesOfWords18, leWord_short blk 18 (by omega), UInt64.xor_zero]
  rw [leWord_xorb _ blk 19 (by omega) (by omega), leWord_bytesOfWords19, leWord_short blk 19 (by omega), UInt64.xor_zero]
  rw [leWord_xorb _ blk 20 (by omega) (by omega), leWord_bytesOfWords20, leWord_short blk 20 (by omega), UInt64.xor_zero]
  rw [leWord_xorb _ blk 21 (by omega) (by omega), leWord_bytesOfWords21, leWord_short blk 21 (by omega), UInt64.xor_zero]
  rw [leWord_xorb _ blk 22 (by omega) (by omega), leWord_bytesOfWords22, leWord_short blk 22 (by omega), UInt64.xor_zero]
  rw [leWord_xorb _ blk 23 (by omega) (by omega), leWord_bytesOfWords23, leWord_short blk 23 (by omega), UInt64.xor_zero]
  rw [leWord_xorb _ blk 24 (by omega) (by omega), leWord_bytesOfWords24, leWord_short blk 24 (by omega), UInt64.xor_zero]

open I3.Lemmas.Sponge

/-! ### 4. the refinement relation -/

/-- **refinement relation** between the translated `*state` while absorbing and the specification's streaming sponge:
    the parameters are those of `NewLegacyKeccak256`; `d.n` counts the buffered bytes; the 200 state bytes are the
    little-endian bytes of the specification's lanes with the buffered bytes already XORed in (the Go code XORs input
    into the state as it arrives, the specification buffers it until a block is complete). -/
structure R (d : State) (s : Keccak.Sponge) : Prop where
  rate : d.rate = 136
  dsbyte : d.dsbyte = 1
  outputLen : d.outputLen = 32
  absorbing : d.state = spongeAbsorbing
  n : d.n = (s.buf.length : Int)
  lt : s.buf.length < 136
  a : ∃ A : A, s.a = lanes A ∧ d.a = xorb (bytesOfWords A) s.buf

theorem write_eq (s : Keccak.Sponge) (p : Bytes) :
    s.write p = { a := (Keccak.absorbAll s.a (s.buf ++ p)).1, buf := (Keccak.absorbAll s.a (s.buf ++ p)).2 } := rfl

theorem R_init : R NewLegacyKeccak256 Keccak.Sponge.init := by
  refine ⟨rfl, rfl, rfl, rfl, rfl, by decide, ofLanes Keccak.zeroLanes, by kernel_rfl, ?_⟩
  rw [show Keccak.Sponge.init.buf = [] from rfl, xorb_nil]
  kernel_rfl

theorem body_unfold (a : List UInt8) (n rate : Int) (ds : UInt8) (ol st : Int) (p : List UInt8) :
    state_Write_for1_body { a := a, n := n, rate := rate, dsbyte := ds, outputLen := ol, state := st } p =
      (if n + (goXORBytesAt a n.toNat rate.toNat p).2 = rate then
          state_permute { a := (goXORBytesAt a n.toNat rate.toNat p).1, n := n + (goXORBytesAt a n.toNat rate.toNat p).2,
                          rate := rate, dsbyte := ds, outputLen := ol, state := st }
        else { a := (goXORBytesAt a n.toNat rate.toNat p).1, n := n + (goXORBytesAt a n.toNat rate.toNat p).2,
               rate := rate, dsbyte := ds, outputLen := ol, state := st },
       goFrom p (goXORBytesAt a n.toNat rate.toNat p).2.toNat) := by
  unfold state_Write_for1_body
  dsimp only

theorem take_app (buf p : List UInt8) (h : buf.length ≤ 136) :
    (buf ++ p).take 136 = buf ++ p.take (136 - buf.length) := by
  rw [List.take_append, List.take_of_length_le h]

theorem drop_app (buf p : List UInt8) (h : buf.length ≤ 136) :
    (buf ++ p).drop 136 = p.drop (136 - buf.length) := by
  rw [List.drop_append, List.drop_of_length_le h, List.nil_append]

/-- the translated state that `R` relates to the sponge `(lanes A, buf)`. -/
def stOf (A : A) (buf : List UInt8) : State :=
  { a := xorb (bytesOfWords A) buf, n := (buf.length : Int), rate := 136, dsbyte := 1, outputLen := 32, state := 0 }

theorem R_stOf {d : State} {s : Keccak.Sponge} (h : R d s) : ∃ A, d = stOf A s.buf ∧ s = { a := lanes A, buf := s.buf } := by
  obtain ⟨hr, hds, ho, hab, hn, hlt, A, ha, hda⟩ := h
  obtain ⟨a, n, rate, ds, ol, st⟩ := d
  obtain ⟨sa, buf⟩ := s
  simp only at hr hds ho hab hn hlt ha hda
  refine ⟨A, ?_, ?_⟩
  · rw [hr, hds, ho, hab, hn, hda]; rfl
  · rw [ha]

/-- one iteration of the loop of `Write` on a non-empty `p`, state given by its fields. -/
theorem body_refines_stOf (A : A) (buf p : List UInt8) (hlt : buf.length < 136) (hp : p ≠ []) :
    ∃ s', R (state_Write_for1_body (stOf A buf) p).1 s' ∧
      Keccak.absorbAll s'.a (s'.buf ++ (state_Write_for1_body (stOf A buf) p).2) = Keccak.absorbAll (lanes A) (buf ++ p) ∧
      (state_Write_for1_body (stOf A buf) p).2.length < p.length := by
  unfold stOf
  have hpl : 0 < p.length := List.length_pos_iff.mpr hp
  rw [body_unfold]
  have e1 : ((buf.length : Nat) : Int).toNat = buf.length := Int.toNat_natCast _
  have e2 : (136 : Int).toNat = 136 := rfl
  rw [e1, e2, xorAt_xorb _ _ _ (bytesOfWords_length A) (by omega)]
  simp only []
  generalize hm : min (136 - buf.length) p.length = m
  have e3 : ((m : Nat) : Int).toNat = m := Int.toNat_natCast _
  rw [e3]
  dsimp only [goFrom]
  by_cases c : buf.length + m = 136
  · have c' : (buf.length : Int) + (m : Int) = 136 := by omega
    rw [if_pos c', permute_fields]
    have hm' : m = 136 - buf.length := by omega
    refine ⟨{ a := Keccak.absorbBlock (lanes A) (buf ++ p.take m), buf := [] }, ?_, ?_, ?_⟩
    · refine ⟨rfl, rfl, rfl, rfl, rfl, Nat.zero_lt_succ _, keccakF1600 (wordsOfBytes (xorb (bytesOfWords A) (buf ++ p.take m))), ?_, ?_⟩
      · show Keccak.absorbBlock (lanes A) (buf ++ p.take m) = _
        rw [keccakF1600_eq, xorb_block _ _ (by simp; omega), absorbBlock_eq]
      · show bytesOfWords _ = xorb _ []
        rw [xorb_nil]
    · show Keccak.absorbAll (Keccak.absorbBlock (lanes A) (buf ++ p.take m)) ([] ++ p.drop m) = _
      rw [absorbAll_long (lanes A) (buf ++ p) (by simp [Keccak.rate]; omega)]
      show _ = Keccak.absorbAll (Keccak.absorbBlock (lanes A) ((buf ++ p).take 136)) ((buf ++ p).drop 136)
      rw [take_app _ _ (by omega), drop_app _ _ (by omega), ← hm']
      rfl
    · show (p.drop m).length < p.length
      rw [List.length_drop]; omega
  · have c' : ¬ (buf.length : Int) + (m : Int) = 136 := by omega
    rw [if_neg c']
    have hm' : m = p.length := by omega
    subst hm'
    refine ⟨{ a := lanes A, buf := buf ++ p }, ?_, ?_, ?_⟩
    · refine ⟨rfl, rfl, rfl, rfl, ?_, ?_, A, rfl, ?_⟩
      · show (buf.length : Int) + (p.length : Int) = ((buf ++ p).length : Int)
        rw [List.length_append]; omega
      · show (buf ++ p).length < 136
        rw [List.length_append]; omega
      · rw [List.take_length]
    · rw [List.drop_length, List.append_nil]
    · rw [List.drop_length]; exact hpl

/-- one iteration of the loop of `Write` on a non-empty `p`. -/
theorem body_refines (d : State) (s : Keccak.Sponge) (p : List UInt8) (h : R d s) (hp : p ≠ []) :
    ∃ s', R (state_Write_for1_body d p).1 s' ∧
      Keccak.absorbAll s'.a (s'.buf ++ (state_Write_for1_body d p).2) = Keccak.absorbAll s.a (s.buf ++ p) ∧
      (state_Write_for1_body d p).2.length < p.length := by
  obtain ⟨A, hd, hs⟩ := R_stOf h
  have hlt := h.lt
  rw [hd, hs]
  exact body_refines_stOf A s.buf p hlt hp

theorem R_inv {d : State} {s : Keccak.Sponge} (h : R d s) : I3.Lemmas.Sponge.Inv s := by
  have := h.lt; simp only [I3.Lemmas.Sponge.Inv, Keccak.rate]; exact this

/-- the loop of `Write` with enough fuel (fuel ≥ len(p)) refines `Sponge.write`. -/
theorem loop_refines : ∀ (k : Nat) (p : List UInt8) (d : State) (s : Keccak.Sponge), p.length ≤ k → R d s →
    R (state_Write_for1 k d p).1 (s.write p) ∧ (state_Write_for1 k d p).2 = [] := by
  intro k
  induction k with
  | zero =>
    intro p d s hk h
    have : p = [] := List.length_eq_zero_iff.mp (by omega)
    subst this
    rw [write_nil _ (R_inv h)]
    exact ⟨h, rfl⟩
  | succ k ih =>
    intro p d s hk h
    by_cases hp : p = []
    · subst hp
      rw [write_nil _ (R_inv h)]
      exact ⟨h, rfl⟩
    · have hpl : 0 < p.length := List.length_pos_iff.mpr hp
      have hc : goLen p > (0 : Int) := by unfold goLen; omega
      have e : state_Write_for1 (k + 1) d p =
          state_Write_for1 k (state_Write_for1_body d p).1 (state_Write_for1_body d p).2 := by
        rw [state_Write_for1]; rw [if_pos hc]
      rw [e]
      obtain ⟨s', hR, hw, hl⟩ := body_refines d s p h hp
      have := ih (state_Write_for1_body d p).2 (state_Write_for1_body d p).1 s' (by omega) hR
      rw [write_eq s', hw, ← write_eq s p] at this
      exact this

/-- **`Write` refines `Sponge.write`** for every byte slice. -/
theorem write_refines' (d : State) (s : Keccak.Sponge) (p : List UInt8) (h : R d s) :
    R (state_Write d p).1 (s.write p) :=
  (loop_refines p.length p d s (Nat.le_refl _) h).1

/-- the fuel `len(p)` of the generated loop is enough: on exit the condition `len(p) > 0` is false; more fuel changes nothing. -/
theorem write_fuel_exact (d : State) (s : Keccak.Sponge) (p : List UInt8) (h : R d s) :
    (state_Write_for1 p.length d p).2 = [] :=
  (loop_refines p.length p d s (Nat.le_refl _) h).2


/-! ### `Sum`: `padAndPermute` against `padLast`, one `Read` iteration against `squeeze32` -/

theorem padLast_length (buf : List UInt8) (h : buf.length < 136) : (Keccak.padLast buf).length = 136 := by
  by_cases c0 : buf.length = 135
  · simp [Keccak.padLast, Keccak.rate, c0]
  · simp [Keccak.padLast, Keccak.rate, c0]; omega

/-- what `Read` returns in the caller's 32-byte buffer, started on a state that has just been permuted. -/
def readOut (b : List UInt8) : List UInt8 :=
  (state_Read_for1 32 { a := b, n := 0, rate := 136, dsbyte := 1, outputLen := 32, state := 1 } [] (goMake 32)).2.1 ++
  (state_Read_for1 32 { a := b, n := 0, rate := 136, dsbyte := 1, outputLen := 32, state := 1 } [] (goMake 32)).2.2

/-- `Sum` on a state with the parameters of `NewLegacyKeccak256`, absorbing: clone, the two byte stores, `permute`, `Read`. -/
theorem sum_unfold (a : List UInt8) (n : Int) (in_ : List UInt8) :
    state_Sum { a := a, n := n, rate := 136, dsbyte := 1, outputLen := 32, state := 0 } in_ =
      in_ ++ readOut (bytesOfWords (keccakF1600 (wordsOfBytes
        (goSet (goSet a n.toNat (a.getD n.toNat 0 ^^^ 1)) 135 ((goSet a n.toNat (a.getD n.toNat 0 ^^^ 1)).getD 135 0 ^^^ 128))))) := by
  kernel_rfl

theorem wordLE_eq (w : UInt64) : Keccak.wordLE w = leBytes w := by
  have e : List.range 8 = [0, 1, 2, 3, 4, 5, 6, 7] := rfl
  unfold Keccak.wordLE leBytes
  rw [e]
  simp

/-- **one iteration of the loop of `Read` = `squeeze32`**; the fuel 32 of the generated loop is exact (the second
    iteration finds `len(out) = 0`). -/
theorem readOut_words (W : A) : readOut (bytesOfWords W) = Keccak.squeeze32 (lanes W) := by
  have e : readOut (bytesOfWords W) = leBytes W.a0 ++ leBytes W.a1 ++ leBytes W.a2 ++ leBytes W.a3 := by kernel_rfl
  refine e.trans ?_
  unfold Keccak.squeeze32
  rewrite [wordLE_eq, wordLE_eq, wordLE_eq, wordLE_eq]
  kernel_rfl

theorem read_fuel_exact (W : A) :
    (state_Read_for1 32 { a := bytesOfWords W, n := 0, rate := 136, dsbyte := 1, outputLen := 32, state := 1 } [] (goMake 32)).2.2 = [] ∧
    ∀ k, state_Read_for1 (1 + k) { a := bytesOfWords W, n := 0, rate := 136, dsbyte := 1, outputLen := 32, state := 1 } [] (goMake 32) =
      state_Read_for1 1 { a := bytesOfWords W, n := 0, rate := 136, dsbyte := 1, outputLen := 32, state := 1 } [] (goMake 32) := by
  refine ⟨by kernel_rfl, ?_⟩
  intro k
  cases k with
  | zero => kernel_rfl
  | succ k => rewrite [show 1 + (k + 1) = (k + 1) + 1 by omega]; kernel_rfl

/-- **`Sum` refines `Sponge.sum`**: the digest is appended to the argument. -/
theorem sum_refines' (d : State) (s : Keccak.Sponge) (in_ : List UInt8) (h : R d s) : state_Sum d in_ = in_ ++ s.sum := by
  obtain ⟨A, hd, hs⟩ := R_stOf h
  have hlt := h.lt
  rw [hd, hs]
  unfold stOf
  rewrite [sum_unfold, Int.toNat_natCast, pad_xorb _ _ (bytesOfWords_length A) hlt, readOut_words, keccakF1600_eq,
    xorb_block _ _ (padLast_length _ hlt), ← absorbBlock_eq]
  rfl

end I3.Lemmas.KeccakSpongeRefine
