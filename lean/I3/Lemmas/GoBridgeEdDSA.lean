/-
  I3.Lemmas.GoBridgeEdDSA — bridge between the definitions GENERATED from /repo/babyjub/eddsa.go by
  the source translator T6 (`I3.Gen.Go.babyjub_pruneBuffer`, `babyjub_SkToBigInt`,
  `babyjub_PrivateKey_*`, `babyjub_PrivKeyScalar_*`, `babyjub_PublicKey_*`, `babyjub_PublicKeyComp_*`,
  `babyjub_Signature_*`, `babyjub_SignatureComp_*`) and the hand-written model `I3.Model.EdDSA`
  instantiated at the regenerated constants `K = I3.Inst.bjConsts`, the BLAKE-512 model `I3.Inst.blake`,
  the field hashes `I3.Inst.hPoseidon` / `I3.Inst.hMimc7` and the square root `I3.Inst.sqrtQ`.

  Every lemma `<generated name>_eq` holds for EVERY input.  The only hypotheses anywhere are the lengths
  of two Go ARRAY parameters (`[32]byte`: the length is the Go type, not a restriction), exactly where
  the total list semantics of the translation and the model differ on other lengths, with the concrete
  inputs: `pruneBuffer` (equal iff 32 bytes: `babyjub_pruneBuffer_eq_iff`) and `PublicKeyComp.Decompress`
  (33 bytes: the `example` after `babyjub_PublicKeyComp_Decompress_eq`).  The private key of `SkToBigInt`
  / `Scalar` / `Public` / `Sign*` needs no length hypothesis (it is only hashed), nor does the buffer of
  `Signature.Decompress` / `SignatureComp.Decompress`; `Sign*` / `Verify*` hold for arbitrary integers
  (messages, coordinates, `S`: negative, unreduced, off the curve).

  Result conventions (`error` = `Option String`, nil pointer = zero value):
    * `hashToGo`        : model hash `some h ↦ (h, nil)`, `none ↦ (nil, "inputs values not inside Finite Field")`
                          — the only error `poseidon.Hash` / `mimc7.Hash(·, nil)` can return on 5 inputs;
    * `signToGo`        : `.ok sig ↦ (sig, nil)`, `.error .hash ↦ (nil, that message)` (no other error);
    * `verifyToGo fm`   : `.ok () ↦ nil`, `.sOutOfRange ↦ "ErrSOutOfRange"`, `.verifyFailed ↦ fm`
                          (`"ErrVerifyPoseidonFailed"` / `"ErrVerifyMimc7Failed"`), `.hash ↦` the hash message;
    * `sigRecvOfExcept` : result, error and RECEIVER of `s.Decompress(buf)`.

  The last section transports the property theorems of I3.Props.C02 / C03 / C14 to any generated triple
  (hash, signer, verifier) satisfying the bridge equations (`IsEdDSA`), instantiated at Poseidon and
  MiMC7; I3.Props.C02Gen / C03Gen / C14Gen quote them with the generated names.

  Proof technique.  A generated definition is unfolded at FUNCTION level (`go_delta f`: the kernel
  compares the constant `f` with its λ-body, never an application of `f` with a `match … with` whose
  discriminant is an open term — see the note at `babyjub_Point_Decompress_eq`), then the callees are
  rewritten with the bridge lemmas of I3.Lemmas.GoBridgeBabyjub / GoBridgePoseidon / GoBridgeMimc7
  (`simp -iota only`: pure congruence rewriting), so that every `let (a, b) := callee …` meets a literal
  pair; the `match`es are then reduced inside an auxiliary lemma (`as_aux_lemma`) in which every expensive
  subterm (`Inst.blake …`, `mul K`, `Inst.hPoseidon`, …) has been generalized to a VARIABLE — a
  `generalize` alone does not survive in the proof term, and the kernel would evaluate BLAKE / Poseidon /
  the scalar multiplication on open terms while comparing two `match` applications.
-/
import I3.Lemmas.GoBridgeBabyjub
import I3.Lemmas.GoBridgePoseidon
import I3.Lemmas.GoBridgeMimc7
import I3.Lemmas.EdDSA
import I3.Props.C02
import I3.Props.C03
import I3.Props.C14
import I3.Props.C15
import I3.Props.C20

set_option maxRecDepth 100000

namespace I3.GoBridge
open I3 I3.Gen.Go
open I3.Model.BabyJub I3.Model.EdDSA

/-- unfold the generated definition `f` at function level in the goal -/
local macro "go_delta " f:ident : tactic =>
  `(tactic| (have hf := @rfl _ $f; conv at hf => rhs; delta $f
             rw [hf]; clear hf; beta_reduce))

/-! ## Go arrays as lists -/

/-- `copy(dst[:], src)` into a fresh `[n]T` from `n` elements: the elements -/
theorem copyInto_replicate_full {α} (d : α) (n : Nat) (src : List α) (h : src.length = n) :
    Go.copyInto (List.replicate n d) 0 (Go.len (List.replicate n d)) src = src := by
  unfold Go.copyInto Go.len
  simp [h]

/-- the same with a source that may be shorter or longer: truncated / zero-padded to `n` -/
theorem copyInto_replicate_any {α} (d : α) (n : Nat) (src : List α) :
    Go.copyInto (List.replicate n d) 0 (Go.len (List.replicate n d)) src =
      src.take n ++ List.replicate (n - src.length) d := by
  unfold Go.copyInto Go.len
  simp only [Int.toNat_zero, List.length_replicate, Int.toNat_natCast, Nat.min_self, Nat.sub_zero,
    List.take_zero, List.nil_append, Nat.zero_add, List.drop_replicate]
  by_cases h : src.length ≤ n
  · rw [Nat.min_eq_right h, List.take_of_length_le (Nat.le_refl _), List.take_of_length_le h]
  · rw [Nat.min_eq_left (by omega), Nat.sub_self, Nat.sub_eq_zero_of_le (by omega)]

/-- `x[:32]` -/
theorem slice_0_32 {α} (l : List α) : Go.slice l 0 32 = l.take 32 := rfl

/-- `x[32:]` -/
theorem slice_32_len {α} (l : List α) : Go.slice l 32 (Go.len l) = l.drop 32 := by
  unfold Go.slice Go.len
  rw [Int.toNat_natCast, List.take_length]
  rfl

theorem blake512_eq (m : Bytes) : Go.Ext.blake512 m = Inst.blake m := rfl

/-- the BLAKE-512 digest has 64 bytes -/
theorem blake_length (m : Bytes) : (Inst.blake m).length = 64 := Props.C20.blake_digest_length m

/-! ## `pruneBuffer` -/

/-- what the generated `pruneBuffer` computes on a list of ANY length (total list semantics: an
assignment to a missing cell is dropped) -/
def pruneAny (b : Bytes) : Bytes :=
  (b.set 0 (b.getD 0 0 &&& 0xF8)).set 31 ((b.getD 31 0 &&& 0x7F) ||| 0x40)

theorem babyjub_pruneBuffer_unfold (b : Bytes) :
    babyjub_pruneBuffer b =
      (((b.set 0 (b.getD 0 0 &&& 248)).set 31
          ((b.set 0 (b.getD 0 0 &&& 248)).getD 31 0 &&& 127)).set 31
        (((b.set 0 (b.getD 0 0 &&& 248)).set 31
          ((b.set 0 (b.getD 0 0 &&& 248)).getD 31 0 &&& 127)).getD 31 0 ||| 64),
       ((b.set 0 (b.getD 0 0 &&& 248)).set 31
          ((b.set 0 (b.getD 0 0 &&& 248)).getD 31 0 &&& 127)).set 31
        (((b.set 0 (b.getD 0 0 &&& 248)).set 31
          ((b.set 0 (b.getD 0 0 &&& 248)).getD 31 0 &&& 127)).getD 31 0 ||| 64)) := rfl

/-- `pruneBuffer(buf)`: returned pointer and final `*buf`, for a list of ANY length -/
theorem babyjub_pruneBuffer_any (b : Bytes) : babyjub_pruneBuffer b = (pruneAny b, pruneAny b) := by
  rw [babyjub_pruneBuffer_unfold]
  have h : ((b.set 0 (b.getD 0 0 &&& 248)).set 31
        ((b.set 0 (b.getD 0 0 &&& 248)).getD 31 0 &&& 127)).set 31
      (((b.set 0 (b.getD 0 0 &&& 248)).set 31
        ((b.set 0 (b.getD 0 0 &&& 248)).getD 31 0 &&& 127)).getD 31 0 ||| 64) = pruneAny b := by
    unfold pruneAny
    generalize (b.getD 0 0 &&& 248) = v0
    rw [List.set_set]
    by_cases hl : 31 < b.length
    · congr 1
      simp [List.getD_eq_getElem?_getD, hl]
    · have h1 : ∀ (l : Bytes) v, l.length = b.length → l.set 31 v = l :=
        fun l v h => List.set_eq_of_length_le (by omega)
      rw [h1 _ _ (by simp), h1 _ _ (by simp)]
  rw [h]

theorem pruneAny_length (b : Bytes) : (pruneAny b).length = b.length := by
  simp [pruneAny]

theorem prune_length_any (b : Bytes) : (prune b).length = min 30 (b.length - 1) + 2 := by
  simp [prune]

/-- on at least 32 bytes: the model on the first 32 bytes, the rest untouched -/
theorem pruneAny_of_le (b : Bytes) (hb : 32 ≤ b.length) : pruneAny b = prune b ++ b.drop 32 := by
  unfold pruneAny prune
  match b, hb with
  | x :: t, hb =>
    have ht : 31 ≤ t.length := by simpa using hb
    simp only [List.set_cons_zero, List.set_cons_succ, List.getD_cons_zero, List.getD_cons_succ,
      List.drop_succ_cons, List.drop_zero, List.cons_append, List.nil_append, List.append_assoc]
    rw [List.set_eq_take_append_cons_drop, if_pos (by omega)]

/-- **`pruneBuffer` on a `[32]byte`** (the Go parameter type): returned pointer and final `*buf` are
the model's `prune` -/
theorem babyjub_pruneBuffer_eq (b : Bytes) (hb : b.length = 32) :
    babyjub_pruneBuffer b = (prune b, prune b) := by
  rw [babyjub_pruneBuffer_any, pruneAny_of_le b (by omega), List.drop_of_length_le (by omega),
    List.append_nil]

/-- on MORE than 32 bytes the generated code leaves the tail in place (the model drops it) -/
theorem babyjub_pruneBuffer_of_le (b : Bytes) (hb : 32 ≤ b.length) :
    babyjub_pruneBuffer b = (prune b ++ b.drop 32, prune b ++ b.drop 32) := by
  rw [babyjub_pruneBuffer_any, pruneAny_of_le b hb]

/-- the generated code never changes the length; the model always returns
`min 30 (len - 1) + 2` bytes -/
theorem babyjub_pruneBuffer_length (b : Bytes) :
    (babyjub_pruneBuffer b).1.length = b.length ∧ (babyjub_pruneBuffer b).2.length = b.length := by
  rw [babyjub_pruneBuffer_any]
  exact ⟨pruneAny_length b, pruneAny_length b⟩

/-- **exactly where they agree**: the generated `pruneBuffer` equals the model iff the buffer has
32 bytes (on fewer bytes Go would not compile / would panic: the translation drops the write to the
missing cell while the model pads; on more bytes the model truncates) -/
theorem babyjub_pruneBuffer_eq_iff (b : Bytes) :
    babyjub_pruneBuffer b = (prune b, prune b) ↔ b.length = 32 := by
  refine ⟨fun h => ?_, babyjub_pruneBuffer_eq b⟩
  have h1 := (babyjub_pruneBuffer_length b).1
  rw [h, prune_length_any] at h1
  omega

example : (babyjub_pruneBuffer []).1 = [] ∧ prune [] = [0, 0x40] := by decide
example : (babyjub_pruneBuffer (List.replicate 33 0xff)).1 =
      0xf8 :: List.replicate 30 0xff ++ [0x7f, 0xff] ∧
    prune (List.replicate 33 0xff) = 0xf8 :: List.replicate 30 0xff ++ [0x7f] := by decide

/-! ## key derivation -/

theorem rsh_natCast (n k : Nat) : Go.big.rsh (n : Int) k = ((n / 2 ^ k : Nat) : Int) := by
  unfold Go.big.rsh
  rw [Int.shiftRight_eq_div_pow]
  norm_cast

/-- **`SkToBigInt(k)`** for a key of ANY length: the model's scalar (clamped first half of the
BLAKE-512 digest, shifted right by 3) -/
theorem babyjub_SkToBigInt_eq (k : Bytes) :
    babyjub_SkToBigInt k = ((skToBigInt Inst.blake k : Nat) : Int) := by
  go_delta babyjub_SkToBigInt
  have hlen : ((Inst.blake k).take 32).length = 32 := by rw [List.length_take, blake_length]; rfl
  simp only [blake512_eq, slice_0_32,
    copyInto_replicate_full (default : UInt8) 32 _ hlen, babyjub_pruneBuffer_eq _ hlen,
    utils_SetBigIntFromLEBytes_eq, rsh_natCast]
  rfl

theorem babyjub_NewPrivKeyScalar_eq (s : Int) : babyjub_NewPrivKeyScalar s = s := rfl

theorem babyjub_PrivKeyScalar_BigInt_eq (s : Int) : babyjub_PrivKeyScalar_BigInt s = s := rfl

/-- **`k.Scalar()`**: the model's scalar -/
theorem babyjub_PrivateKey_Scalar_eq (k : Bytes) :
    babyjub_PrivateKey_Scalar k = ((skToBigInt Inst.blake k : Nat) : Int) := by
  go_delta babyjub_PrivateKey_Scalar
  simp only [babyjub_NewPrivKeyScalar_eq, babyjub_SkToBigInt_eq]

/-- **`s.Public()`** for EVERY integer scalar: the model's double-and-add on `B8` -/
theorem babyjub_PrivKeyScalar_Public_eq (s : Int) :
    babyjub_PrivKeyScalar_Public s = mul K s K.b8 := by
  go_delta babyjub_PrivKeyScalar_Public
  simp only [babyjub_Point_Mul_eq, babyjub_B8_eq]

/-- **`k.Public()`** for a key of ANY length: the model's public key -/
theorem babyjub_PrivateKey_Public_eq (k : Bytes) :
    babyjub_PrivateKey_Public k = publicKey K Inst.blake k := by
  go_delta babyjub_PrivateKey_Public
  rw [babyjub_PrivateKey_Scalar_eq, babyjub_PrivKeyScalar_Public_eq]
  rfl

theorem babyjub_PublicKey_Point_eq (pk : Int × Int) : babyjub_PublicKey_Point pk = pk := rfl

/-- **`pk.Compress()`** for every pair of integers -/
theorem babyjub_PublicKey_Compress_eq (pk : Int × Int) :
    babyjub_PublicKey_Compress pk = compress K pk := babyjub_Point_Compress_eq pk

/-- **`pkComp.Decompress()`** on a `[32]byte` (the Go receiver type) -/
theorem babyjub_PublicKeyComp_Decompress_eq (b : Bytes) (hb : b.length = 32) :
    babyjub_PublicKeyComp_Decompress b = ofExcept (decompress K Inst.sqrtQ b) := by
  go_delta babyjub_PublicKeyComp_Decompress
  rw [babyjub_Point_Decompress_eq _ b hb]
  generalize decompress K Inst.sqrtQ b = r
  cases r <;> rfl

/-- the length hypothesis cannot be dropped: on 33 bytes the translated `UnpackSignY` reads the
33rd byte (`y ≥ 2^256`), the model does not -/
example : babyjub_PublicKeyComp_Decompress (List.replicate 33 1) = ((0, 0), some "p.y >= Q") ∧
    ofExcept (decompress K Inst.sqrtQ (List.replicate 33 1)) =
      ((0, 0), some "x is not a square mod q") := by decide +kernel

/-! ## signature codec -/

/-- a Go `Signature{R8, S}` as the model's record -/
def toSig (s : (Int × Int) × Int) : Sig := ⟨s.1, s.2⟩
/-- … and back -/
def ofSig (s : Sig) : (Int × Int) × Int := (s.r8, s.s)

theorem toSig_ofSig (s : Sig) : toSig (ofSig s) = s := rfl
theorem ofSig_toSig (s : (Int × Int) × Int) : ofSig (toSig s) = s := rfl

/-- `copy(buf[:32], a); copy(buf[32:], b)` into a fresh `[64]byte`, two 32-byte sources -/
theorem copyInto_two_halves (a b : Bytes) (ha : a.length = 32) (hb : b.length = 32) :
    Go.copyInto (Go.copyInto (List.replicate 64 (default : UInt8)) 0 32 a) 32
      (Go.len (Go.copyInto (List.replicate 64 (default : UInt8)) 0 32 a)) b = a ++ b := by
  have h1 : Go.copyInto (List.replicate 64 (default : UInt8)) 0 32 a =
      a ++ List.replicate 32 default := by
    unfold Go.copyInto
    simp [ha]
  rw [h1]
  unfold Go.copyInto Go.len
  simp [ha, hb]
  rw [List.take_of_length_le (by omega), List.drop_of_length_le (by simp [ha]), List.append_nil]

/-- **`s.Compress()`** for every signature (any integers): the model's 64 bytes -/
theorem babyjub_Signature_Compress_eq (s : (Int × Int) × Int) :
    babyjub_Signature_Compress s = sigCompress K (toSig s) := by
  go_delta babyjub_Signature_Compress
  simp only [babyjub_Point_Compress_eq, utils_BigIntLEBytes_eq]
  exact copyInto_two_halves _ _ (Props.C15.compress_length K s.1)
    (Lemmas.Bytes.natToLE_length 32 _)

/-- the Go result `(*Signature, error)` plus the receiver `*s` after `s.Decompress(buf)`, as a
function of the model's outcome and the receiver before the call.  On success the receiver is the
result.  On error the returned pointer is nil (zero value) and — `s.R8` being assigned BEFORE the
error check — the receiver's `R8` is the nil pointer returned by `Point.Decompress` (zero value
`(0, 0)` here) while its `S` is untouched. -/
def sigRecvOfExcept (recv : (Int × Int) × Int) :
    Except Model.EdDSA.Err Sig → ((Int × Int) × Int) × Option String × ((Int × Int) × Int)
  | .ok sig => (ofSig sig, none, ofSig sig)
  | .error (.point e) => (default, some (errMsg e), ((default : Int × Int), recv.2))
  | .error _ => (default, some "", recv)

theorem leToNat_replicate_zero (k : Nat) : leToNat (List.replicate k 0) = 0 := by
  induction k with
  | zero => rfl
  | succ k ih => rw [List.replicate_succ, leToNat, ih]; rfl

theorem leToNat_append_zeros (x : Bytes) (k : Nat) :
    leToNat (x ++ List.replicate k 0) = leToNat x := by
  rw [Lemmas.Bytes.leToNat_append, leToNat_replicate_zero, Nat.mul_zero, Nat.add_zero]

/-- zero-padding a short buffer to 32 bytes does not change what the model's `unpackSignY` reads -/
theorem unpackSignY_pad (b : Bytes) (hb : b.length < 32) :
    unpackSignY (b ++ List.replicate (32 - b.length) 0) = unpackSignY b := by
  unfold unpackSignY
  have h1 : (b ++ List.replicate (32 - b.length) 0).getD 31 0 = 0 := by
    rw [List.getD_eq_getElem?_getD, List.getElem?_append_right (by omega), List.getElem?_replicate]
    split_ifs <;> rfl
  have h2 : b.getD 31 0 = 0 := by
    rw [List.getD_eq_getElem?_getD, List.getElem?_eq_none (by omega)]; rfl
  have h3 : (b ++ List.replicate (32 - b.length) 0).take 31 =
      b ++ List.replicate (31 - b.length) 0 := by
    rw [List.take_append, List.take_of_length_le (by omega), List.take_replicate]
    congr 2; omega
  simp only [h1, h2, h3]
  have h4 : b.take 31 = b := List.take_of_length_le (by omega)
  have h5 : ([(0 : UInt8) &&& 0x7F] : Bytes) = List.replicate 1 0 := by decide
  rw [h4, h5, leToNat_append_zeros, leToNat_append_zeros, leToNat_append_zeros]

/-- the `[32]byte` that `Signature.Decompress` hands to `Point.Decompress`: the first 32 bytes of the
buffer (zero-padded when the list is shorter, which the model's decoder does not notice) -/
theorem decompress_copy_take (b : Bytes) :
    (Go.copyInto (List.replicate 32 (default : UInt8)) 0
        (Go.len (List.replicate 32 (default : UInt8))) (b.take 32)).length = 32 ∧
      decompress K Inst.sqrtQ (Go.copyInto (List.replicate 32 (default : UInt8)) 0
        (Go.len (List.replicate 32 (default : UInt8))) (b.take 32)) =
      decompress K Inst.sqrtQ (b.take 32) := by
  rw [copyInto_replicate_any, List.take_take, Nat.min_self]
  by_cases h : 32 ≤ b.length
  · have hl : (b.take 32).length = 32 := by rw [List.length_take]; omega
    rw [hl, Nat.sub_self, List.replicate_zero, List.append_nil]
    exact ⟨hl, rfl⟩
  · have hl : (b.take 32).length < 32 := by rw [List.length_take]; omega
    refine ⟨by rw [List.length_append, List.length_replicate]; omega, ?_⟩
    rw [decompress_def, decompress_def]
    exact congrArg (fun u : Bool × Nat => pointFromSignAndY K Inst.sqrtQ u.1 (u.2 : Int))
      (unpackSignY_pad _ hl)

/-- **`s.Decompress(buf)`** for every previous receiver content and EVERY buffer (the Go parameter
is a `[64]byte`; no length hypothesis is needed): result, error and receiver after the call -/
theorem babyjub_Signature_Decompress_eq (recv : (Int × Int) × Int) (b : Bytes) :
    babyjub_Signature_Decompress recv b = sigRecvOfExcept recv (sigDecompress K Inst.sqrtQ b) := by
  go_delta babyjub_Signature_Decompress
  obtain ⟨hlen, hdec⟩ := decompress_copy_take b
  -- `-iota`: the `match` on the result of `Point.Decompress` must not be reduced (by structure eta)
  -- before its discriminant is a variable: the kernel would evaluate `decompress` on the open `b`
  simp -iota only [slice_0_32, slice_32_len, babyjub_Point_Decompress_eq _ _ hlen, hdec,
    utils_SetBigIntFromLEBytes_eq]
  unfold sigDecompress
  generalize decompress K Inst.sqrtQ (b.take 32) = r
  generalize ((leToNat (b.drop 32) : Nat) : Int) = sv
  cases r <;> rfl

/-- the Go result `(*Signature, error)` of `sComp.Decompress()` -/
def sigOfExcept : Except Model.EdDSA.Err Sig → ((Int × Int) × Int) × Option String
  | .ok sig => (ofSig sig, none)
  | .error (.point e) => (default, some (errMsg e))
  | .error _ => (default, some "")

/-- **`sComp.Decompress()`** for EVERY buffer (the Go receiver is a `[64]byte`) -/
theorem babyjub_SignatureComp_Decompress_eq (b : Bytes) :
    babyjub_SignatureComp_Decompress b = sigOfExcept (sigDecompress K Inst.sqrtQ b) := by
  go_delta babyjub_SignatureComp_Decompress
  rw [babyjub_Signature_Decompress_eq _ b]
  generalize sigDecompress K Inst.sqrtQ b = r
  rcases r with (_ | _ | _ | e | _ | _ | _ | _ | _) | sig <;> rfl

/-! ## the two field hashes on five elements -/

/-- the Go result `(*big.Int, error)` of `poseidon.Hash` / `mimc7.Hash(·, nil)` on the five-element
vector of EdDSA, as a function of the model hash: the only error either of them can return there is
"inputs values not inside Finite Field" (with a nil value) -/
def hashToGo : Option Nat → Int × Option String
  | some h => ((h : Int), none)
  | none => (0, some "inputs values not inside Finite Field")

/-- `poseidon.Hash` on 1 … 16 inputs (any integers) -/
theorem poseidon_Hash_eq_hashToGo (l : List Int) (h1 : 1 ≤ l.length) (h16 : l.length ≤ 16) :
    poseidon_Hash l = hashToGo (Inst.hPoseidon l) := by
  cases hh : Inst.hPoseidon l with
  | some h => exact (poseidon_Hash_some_iff l h).1 hh
  | none =>
    have hb := poseidon_Hash_eq l
    by_cases hall : ∀ x ∈ l, 0 ≤ x ∧ x < (Gen.constants_q : Int)
    · exfalso
      obtain ⟨r, hr⟩ := (Props.C07.poseidonEx_ok_iff l 0 1).2
        ⟨h1, h16, hall, le_refl _, by decide, le_refl _, by omega⟩
      obtain ⟨x, rfl⟩ := poseidonEx_one_ok l 0 r hr
      simp [Inst.hPoseidon, hr] at hh
    · have he : Inst.poseidonEx l 0 1 = .error .notInField := by
        apply Props.C07.poseidon_notInField _ _ _ _ _ _ _ h1 (by
          have : Gen.poseidon_NROUNDSP.length = 16 := by decide
          omega)
        simp only [not_forall] at hall
        obtain ⟨x, hx, hbad⟩ := hall
        exact ⟨x, hx, by omega⟩
      rw [he] at hb
      exact (Option.some.inj hb).symm

theorem poseidon_Hash_five (a b c d e : Int) :
    poseidon_Hash [a, b, c, d, e] = hashToGo (Inst.hPoseidon [a, b, c, d, e]) :=
  poseidon_Hash_eq_hashToGo _ (by simp) (by simp)

/-- `mimc7.Hash(l, nil)` on any number of inputs (any integers) -/
theorem mimc7_Hash_eq_hashToGo (l : List Int) :
    mimc7_Hash l none = hashToGo (Inst.hMimc7 l) := by
  rw [mimc7_Hash_none_eq]
  cases Inst.hMimc7 l <;> rfl

/-! ## the model unfolded once (all parameters are VARIABLES here: the kernel checks these `rfl`s on
stuck terms; unfolding `sign` / `verify` with `simp` inside a goal about `Inst.hPoseidon …` makes it
evaluate the hash on open terms) -/

/-- the model's `sign`: one `match` on the hash -/
theorem sign_unfold (blake : Bytes → Bytes) (H : List Int → Option Nat) (key : Bytes) (msg : Int) :
    sign K blake H key msg =
      match H [(mul K ((leToNat (blake ((blake key).drop 32 ++ bigIntLEBytes msg)) : Nat) %
            (K.subOrder : Int)) K.b8).1,
          (mul K ((leToNat (blake ((blake key).drop 32 ++ bigIntLEBytes msg)) : Nat) %
            (K.subOrder : Int)) K.b8).2,
          (publicKey K blake key).1, (publicKey K blake key).2, msg] with
      | none => .error .hash
      | some hm => .ok ⟨mul K ((leToNat (blake ((blake key).drop 32 ++ bigIntLEBytes msg)) : Nat) %
            (K.subOrder : Int)) K.b8,
          (((leToNat (blake ((blake key).drop 32 ++ bigIntLEBytes msg)) : Nat) % (K.subOrder : Int)) +
            (hm : Int) * ((skToBigInt blake key * 8 : Nat) : Int)) % (K.subOrder : Int)⟩ := by
  rw [← Int.natCast_mod]
  rfl

/-- the model's `verify`: the range check, one `match` on the hash, one comparison -/
theorem verify_unfold (H : List Int → Option Nat) (pk : APoint) (msg : Int) (r8 : APoint) (S : Int) :
    verify K H pk msg ⟨r8, S⟩ =
      if S < 0 ∨ S ≥ (K.subOrder : Int) then .error .sOutOfRange
      else match H [r8.1, r8.2, pk.1, pk.2, msg] with
        | none => .error .hash
        | some hm =>
          if ((mul K S K.b8).1 == (affine K (addProj K (projective K r8)
                (projective K (mul K (8 * (hm : Int)) pk)))).1 &&
              (mul K S K.b8).2 == (affine K (addProj K (projective K r8)
                (projective K (mul K (8 * (hm : Int)) pk)))).2) then .ok ()
          else .error .verifyFailed := rfl

/-! ## signing -/

/-- the Go result `(*Signature, error)` of `SignPoseidon` / `SignMimc7`: `.ok sig ↦ (sig, nil)`;
the only error the model can return is `.hash` (`I3.Props.C02.sign_error`), and Go then returns nil
together with the error of the hash, "inputs values not inside Finite Field" -/
def signToGo : Except Model.EdDSA.Err Sig → ((Int × Int) × Int) × Option String
  | .ok sig => (ofSig sig, none)
  | .error _ => (default, some "inputs values not inside Finite Field")

theorem mod_subOrder (x : Int) :
    Go.big.mod x Go.Ext.babyjub_SubOrder = x % (K.subOrder : Int) := by
  rw [babyjub_SubOrder_eq]; rfl

theorem lsh_three_natCast (s : Nat) : Go.big.lsh (s : Int) 3 = ((s * 8 : Nat) : Int) := by
  unfold Go.big.lsh; norm_cast

/-- **`k.SignPoseidon(msg)`** for a key of ANY length and EVERY integer message -/
theorem babyjub_PrivateKey_SignPoseidon_eq (k : Bytes) (msg : Int) :
    babyjub_PrivateKey_SignPoseidon k msg =
      signToGo (sign K Inst.blake Inst.hPoseidon k msg) := by
  go_delta babyjub_PrivateKey_SignPoseidon
  have hle : (bigIntLEBytes msg).length = 32 := Lemmas.Bytes.natToLE_length 32 _
  -- pass 1 (`-iota`, rewriting only): every destructured call becomes a literal pair
  simp -iota only [blake512_eq, utils_BigIntLEBytes_eq,
    copyInto_replicate_full (default : UInt8) 32 _ hle, slice_32_len, utils_SetBigIntFromLEBytes_eq,
    babyjub_Point_Mul_eq, babyjub_B8_eq, babyjub_PublicKey_Point_eq, babyjub_PrivateKey_Public_eq,
    babyjub_PrivKeyScalar_BigInt_eq, babyjub_PrivateKey_Scalar_eq, lsh_three_natCast, mod_subOrder,
    poseidon_Hash_five]
  rw [sign_unfold]
  -- pass 2: the `match`es are reduced in an auxiliary lemma where all the expensive subterms are
  -- VARIABLES (a `generalize` alone is β-reduced away in the final proof term)
  generalize ((leToNat (Inst.blake ((Inst.blake k).drop 32 ++ bigIntLEBytes msg)) : Nat) : Int) = a
  generalize publicKey K Inst.blake k = A
  generalize ((skToBigInt Inst.blake k * 8 : Nat) : Int) = s8
  generalize mul K = mulK
  generalize Inst.hPoseidon = H
  generalize (K.subOrder : Int) = l
  generalize K.b8 = b8
  as_aux_lemma =>
    simp only []
    generalize H _ = o
    cases o <;> rfl

/-- **`k.SignMimc7(msg)`** for a key of ANY length and EVERY integer message -/
theorem babyjub_PrivateKey_SignMimc7_eq (k : Bytes) (msg : Int) :
    babyjub_PrivateKey_SignMimc7 k msg =
      signToGo (sign K Inst.blake Inst.hMimc7 k msg) := by
  go_delta babyjub_PrivateKey_SignMimc7
  have hle : (bigIntLEBytes msg).length = 32 := Lemmas.Bytes.natToLE_length 32 _
  simp -iota only [blake512_eq, utils_BigIntLEBytes_eq,
    copyInto_replicate_full (default : UInt8) 32 _ hle, slice_32_len, utils_SetBigIntFromLEBytes_eq,
    babyjub_Point_Mul_eq, babyjub_B8_eq, babyjub_PublicKey_Point_eq, babyjub_PrivateKey_Public_eq,
    babyjub_PrivKeyScalar_BigInt_eq, babyjub_PrivateKey_Scalar_eq, lsh_three_natCast, mod_subOrder,
    mimc7_Hash_eq_hashToGo]
  rw [sign_unfold]
  generalize ((leToNat (Inst.blake ((Inst.blake k).drop 32 ++ bigIntLEBytes msg)) : Nat) : Int) = a
  generalize publicKey K Inst.blake k = A
  generalize ((skToBigInt Inst.blake k * 8 : Nat) : Int) = s8
  generalize mul K = mulK
  generalize Inst.hMimc7 = H
  generalize (K.subOrder : Int) = l
  generalize K.b8 = b8
  as_aux_lemma =>
    simp only []
    generalize H _ = o
    cases o <;> rfl

/-! ## verification -/

/-- the Go `error` returned by `VerifyPoseidon` / `VerifyMimc7` (`failMsg` = the hash-specific
`ErrVerify…Failed`): the model's `verify` returns `.ok ()` or one of the three errors `.sOutOfRange`,
`.hash`, `.verifyFailed` (`verify_cases`) -/
def verifyToGo (failMsg : String) : Except Model.EdDSA.Err Unit → Option String
  | .ok _ => none
  | .error .sOutOfRange => some "ErrSOutOfRange"
  | .error .verifyFailed => some failMsg
  | .error _ => some "inputs values not inside Finite Field"

theorem sign_lt_zero (a : Int) : decide (Go.big.sign a < 0) = decide (a < 0) := by
  unfold Go.big.sign
  split_ifs <;> simp_all

/-- **`pk.VerifyPoseidon(msg, sig)`** for EVERY public key, message and signature (arbitrary
integers, on the curve or not) -/
theorem babyjub_PublicKey_VerifyPoseidon_eq (pk : Int × Int) (msg : Int) (sig : (Int × Int) × Int) :
    babyjub_PublicKey_VerifyPoseidon pk msg sig =
      verifyToGo "ErrVerifyPoseidonFailed" (verify K Inst.hPoseidon pk msg (toSig sig)) := by
  obtain ⟨r8, S⟩ := sig
  go_delta babyjub_PublicKey_VerifyPoseidon
  simp -iota only [sign_lt_zero, cmp_ge_zero, babyjub_SubOrder_eq, poseidon_Hash_five,
    babyjub_Point_Mul_eq, babyjub_B8_eq, babyjub_PublicKey_Point_eq, babyjub_Point_Projective_eq,
    babyjub_PointProjective_Add_eq, babyjub_PointProjective_Affine_eq, cmp_eq_zero, toSig]
  rw [verify_unfold]
  generalize mul K = mulK
  generalize affine K = aff
  generalize addProj K = addP
  generalize projective K = proj
  generalize Inst.hPoseidon = H
  generalize (K.subOrder : Int) = l
  generalize K.b8 = b8
  as_aux_lemma =>
    by_cases hr : S < 0 ∨ S ≥ l
    · have hb : (decide (S < 0) || decide (l ≤ S)) = true := by
        simpa only [Bool.or_eq_true, decide_eq_true_eq, ge_iff_le] using hr
      rw [if_pos hr, if_pos hb]; rfl
    · have hb : ¬ (decide (S < 0) || decide (l ≤ S)) = true := by
        simpa only [Bool.or_eq_true, decide_eq_true_eq, ge_iff_le] using hr
      rw [if_neg hr, if_neg hb]
      generalize H _ = o
      cases o with
      | none => rfl
      | some hm => rw [apply_ite (verifyToGo _)]; rfl

/-- **`pk.VerifyMimc7(msg, sig)`** for EVERY public key, message and signature -/
theorem babyjub_PublicKey_VerifyMimc7_eq (pk : Int × Int) (msg : Int) (sig : (Int × Int) × Int) :
    babyjub_PublicKey_VerifyMimc7 pk msg sig =
      verifyToGo "ErrVerifyMimc7Failed" (verify K Inst.hMimc7 pk msg (toSig sig)) := by
  obtain ⟨r8, S⟩ := sig
  go_delta babyjub_PublicKey_VerifyMimc7
  simp -iota only [sign_lt_zero, cmp_ge_zero, babyjub_SubOrder_eq, mimc7_Hash_eq_hashToGo,
    babyjub_Point_Mul_eq, babyjub_B8_eq, babyjub_PublicKey_Point_eq, babyjub_Point_Projective_eq,
    babyjub_PointProjective_Add_eq, babyjub_PointProjective_Affine_eq, cmp_eq_zero, toSig]
  rw [verify_unfold]
  generalize mul K = mulK
  generalize affine K = aff
  generalize addProj K = addP
  generalize projective K = proj
  generalize Inst.hMimc7 = H
  generalize (K.subOrder : Int) = l
  generalize K.b8 = b8
  as_aux_lemma =>
    by_cases hr : S < 0 ∨ S ≥ l
    · have hb : (decide (S < 0) || decide (l ≤ S)) = true := by
        simpa only [Bool.or_eq_true, decide_eq_true_eq, ge_iff_le] using hr
      rw [if_pos hr, if_pos hb]; rfl
    · have hb : ¬ (decide (S < 0) || decide (l ≤ S)) = true := by
        simpa only [Bool.or_eq_true, decide_eq_true_eq, ge_iff_le] using hr
      rw [if_neg hr, if_neg hb]
      generalize H _ = o
      cases o with
      | none => rfl
      | some hm => rw [apply_ite (verifyToGo _)]; rfl

/-! ## reading results back -/

/-- the message of the hash error -/
abbrev hashErrMsg : String := "inputs values not inside Finite Field"

theorem hashToGo_some_iff (o : Option Nat) (h : Nat) : hashToGo o = ((h : Int), none) ↔ o = some h := by
  cases o <;> simp [hashToGo]

theorem hashToGo_ok_iff (o : Option Nat) (v : Int) :
    hashToGo o = (v, none) ↔ ∃ h : Nat, o = some h ∧ v = (h : Int) := by
  cases o with
  | none => simp [hashToGo]
  | some x =>
    simp only [hashToGo, Prod.mk.injEq, and_true, Option.some.injEq, exists_eq_left']
    exact eq_comm

theorem hashToGo_noerr_iff (o : Option Nat) : (hashToGo o).2 = none ↔ ∃ h, o = some h := by
  cases o <;> simp [hashToGo]

theorem hashToGo_error_iff (o : Option Nat) : hashToGo o = (0, some hashErrMsg) ↔ o = none := by
  cases o <;> simp [hashToGo]

/-- the only error of the model's `sign` is the hash error -/
theorem sign_error_hash (blake : Bytes → Bytes) (H : List Int → Option Nat) (key : Bytes) (msg : Int)
    (e : Model.EdDSA.Err) (h : sign K blake H key msg = .error e) : e = .hash := by
  rw [sign_unfold] at h
  split at h
  · exact (Except.error.inj h).symm
  · cases h

theorem signToGo_ok_iff (r : Except Model.EdDSA.Err Sig) (sig : (Int × Int) × Int) :
    signToGo r = (sig, none) ↔ r = .ok (toSig sig) := by
  cases r with
  | error e => simp [signToGo]
  | ok s =>
    simp only [signToGo, Prod.mk.injEq, and_true, Except.ok.injEq]
    constructor
    · rintro rfl; rfl
    · rintro rfl; rfl

theorem signToGo_error_iff (r : Except Model.EdDSA.Err Sig) :
    signToGo r = (default, some hashErrMsg) ↔ ∃ e, r = .error e := by
  cases r <;> simp [signToGo]

theorem signToGo_noerr_iff (r : Except Model.EdDSA.Err Sig) :
    (signToGo r).2 = none ↔ ∃ sig, r = .ok sig := by
  cases r <;> simp [signToGo]

/-- `SignPoseidon` returns `(sig, nil)` iff the model signs with `sig` -/
theorem babyjub_PrivateKey_SignPoseidon_ok_iff (k : Bytes) (msg : Int) (sig : (Int × Int) × Int) :
    babyjub_PrivateKey_SignPoseidon k msg = (sig, none) ↔
      sign K Inst.blake Inst.hPoseidon k msg = .ok (toSig sig) := by
  rw [babyjub_PrivateKey_SignPoseidon_eq, signToGo_ok_iff]

/-- `SignPoseidon` returns `(nil, "inputs values not inside Finite Field")` iff the model reports the
hash error — the only error there is -/
theorem babyjub_PrivateKey_SignPoseidon_error_iff (k : Bytes) (msg : Int) :
    babyjub_PrivateKey_SignPoseidon k msg = (default, some hashErrMsg) ↔
      sign K Inst.blake Inst.hPoseidon k msg = .error .hash := by
  rw [babyjub_PrivateKey_SignPoseidon_eq, signToGo_error_iff]
  exact ⟨fun ⟨e, he⟩ => by rw [he, sign_error_hash _ _ _ _ e he], fun h => ⟨_, h⟩⟩

theorem babyjub_PrivateKey_SignMimc7_ok_iff (k : Bytes) (msg : Int) (sig : (Int × Int) × Int) :
    babyjub_PrivateKey_SignMimc7 k msg = (sig, none) ↔
      sign K Inst.blake Inst.hMimc7 k msg = .ok (toSig sig) := by
  rw [babyjub_PrivateKey_SignMimc7_eq, signToGo_ok_iff]

theorem babyjub_PrivateKey_SignMimc7_error_iff (k : Bytes) (msg : Int) :
    babyjub_PrivateKey_SignMimc7 k msg = (default, some hashErrMsg) ↔
      sign K Inst.blake Inst.hMimc7 k msg = .error .hash := by
  rw [babyjub_PrivateKey_SignMimc7_eq, signToGo_error_iff]
  exact ⟨fun ⟨e, he⟩ => by rw [he, sign_error_hash _ _ _ _ e he], fun h => ⟨_, h⟩⟩

/-- the four possible outcomes of the model's `verify` -/
theorem verify_cases (H : List Int → Option Nat) (pk : APoint) (msg : Int) (sig : Sig) :
    verify K H pk msg sig = .ok () ∨ verify K H pk msg sig = .error .sOutOfRange ∨
      verify K H pk msg sig = .error .hash ∨ verify K H pk msg sig = .error .verifyFailed := by
  obtain ⟨r8, S⟩ := sig
  rw [verify_unfold]
  split_ifs
  · exact Or.inr (Or.inl rfl)
  · split
    · exact Or.inr (Or.inr (Or.inl rfl))
    · split_ifs
      · exact Or.inl rfl
      · exact Or.inr (Or.inr (Or.inr rfl))

/-- each Go error of `Verify*` corresponds to exactly one outcome of the model -/
theorem verifyToGo_iff (fm : String) (h1 : fm ≠ "ErrSOutOfRange") (h2 : fm ≠ hashErrMsg)
    (r : Except Model.EdDSA.Err Unit)
    (hr : r = .ok () ∨ r = .error .sOutOfRange ∨ r = .error .hash ∨ r = .error .verifyFailed) :
    (verifyToGo fm r = none ↔ r = .ok ()) ∧
      (verifyToGo fm r = some "ErrSOutOfRange" ↔ r = .error .sOutOfRange) ∧
      (verifyToGo fm r = some hashErrMsg ↔ r = .error .hash) ∧
      (verifyToGo fm r = some fm ↔ r = .error .verifyFailed) := by
  have h3 : ("ErrSOutOfRange" : String) ≠ hashErrMsg := by decide
  rcases hr with rfl | rfl | rfl | rfl <;>
    simp [verifyToGo, h1, h2, h3, h1.symm, h2.symm, h3.symm]

theorem babyjub_PublicKey_VerifyPoseidon_iff (pk : Int × Int) (msg : Int) (sig : (Int × Int) × Int) :
    (babyjub_PublicKey_VerifyPoseidon pk msg sig = none ↔
        verify K Inst.hPoseidon pk msg (toSig sig) = .ok ()) ∧
      (babyjub_PublicKey_VerifyPoseidon pk msg sig = some "ErrSOutOfRange" ↔
        verify K Inst.hPoseidon pk msg (toSig sig) = .error .sOutOfRange) ∧
      (babyjub_PublicKey_VerifyPoseidon pk msg sig = some hashErrMsg ↔
        verify K Inst.hPoseidon pk msg (toSig sig) = .error .hash) ∧
      (babyjub_PublicKey_VerifyPoseidon pk msg sig = some "ErrVerifyPoseidonFailed" ↔
        verify K Inst.hPoseidon pk msg (toSig sig) = .error .verifyFailed) := by
  rw [babyjub_PublicKey_VerifyPoseidon_eq]
  exact verifyToGo_iff _ (by decide) (by decide) _ (verify_cases _ _ _ _)

theorem babyjub_PublicKey_VerifyMimc7_iff (pk : Int × Int) (msg : Int) (sig : (Int × Int) × Int) :
    (babyjub_PublicKey_VerifyMimc7 pk msg sig = none ↔
        verify K Inst.hMimc7 pk msg (toSig sig) = .ok ()) ∧
      (babyjub_PublicKey_VerifyMimc7 pk msg sig = some "ErrSOutOfRange" ↔
        verify K Inst.hMimc7 pk msg (toSig sig) = .error .sOutOfRange) ∧
      (babyjub_PublicKey_VerifyMimc7 pk msg sig = some hashErrMsg ↔
        verify K Inst.hMimc7 pk msg (toSig sig) = .error .hash) ∧
      (babyjub_PublicKey_VerifyMimc7 pk msg sig = some "ErrVerifyMimc7Failed" ↔
        verify K Inst.hMimc7 pk msg (toSig sig) = .error .verifyFailed) := by
  rw [babyjub_PublicKey_VerifyMimc7_eq]
  exact verifyToGo_iff _ (by decide) (by decide) _ (verify_cases _ _ _ _)

/-- `s.Decompress(buf)` / `sComp.Decompress()` succeed exactly when the model does, with the same
signature; the error is the `Point.Decompress` error of the first 32 bytes -/
theorem sigOfExcept_ok_iff (r : Except Model.EdDSA.Err Sig) (sig : (Int × Int) × Int) :
    sigOfExcept r = (sig, none) ↔ r = .ok (toSig sig) := by
  rcases r with (_ | _ | _ | e | _ | _ | _ | _ | _) | s <;> simp [sigOfExcept]
  constructor
  · rintro rfl; rfl
  · rintro rfl; rfl

/-- the model's `sigDecompress` fails only with a point error -/
theorem sigDecompress_error (sqrtFn : Nat → Option Nat) (b : Bytes) (e : Model.EdDSA.Err)
    (h : sigDecompress K sqrtFn b = .error e) : ∃ pe, e = .point pe := by
  unfold sigDecompress at h
  split at h
  · exact ⟨_, (Except.error.inj h).symm⟩
  · cases h

/-! ## the properties of the model, transported to ANY generated (hash, signer, verifier) triple that
satisfies the bridge equations — instantiated at Poseidon and at MiMC7 below, and quoted with the
generated names in I3.Props.C02Gen / C03Gen / C14Gen -/

open I3.Spec I3.Spec.BJJ I3.Lemmas.CurveBridge I3.Lemmas.EdDSA

theorem toSig_mk (r8 : ℤ × ℤ) (S : ℤ) : toSig (r8, S) = ⟨r8, S⟩ := rfl

/-- what the bridge lemmas establish about a generated triple: `H` the model hash, `gh` the generated
hash on a vector, `gs` / `gv` the generated signer / verifier, `fm` the Go name of the verification
failure.  (The functions are INDICES of a `Prop`: nothing has to be unfolded to use it.) -/
structure IsEdDSA (H : List ℤ → Option ℕ) (gh : List ℤ → ℤ × Option String)
    (gs : Bytes → ℤ → ((ℤ × ℤ) × ℤ) × Option String)
    (gv : ℤ × ℤ → ℤ → (ℤ × ℤ) × ℤ → Option String) (fm : String) : Prop where
  gh_eq : ∀ a b c d e : ℤ, gh [a, b, c, d, e] = hashToGo (H [a, b, c, d, e])
  gs_eq : ∀ k msg, gs k msg = signToGo (sign K Inst.blake H k msg)
  gv_eq : ∀ pk msg sig, gv pk msg sig = verifyToGo fm (verify K H pk msg (toSig sig))
  fm_ne_range : fm ≠ "ErrSOutOfRange"
  fm_ne_hash : fm ≠ hashErrMsg
  total : HashTotal H
  reject : ∀ v : List ℤ, (∃ x ∈ v, x < 0 ∨ (I3.q : ℤ) ≤ x) → H v = none

theorem isEdDSA_poseidon : IsEdDSA Inst.hPoseidon poseidon_Hash babyjub_PrivateKey_SignPoseidon
    babyjub_PublicKey_VerifyPoseidon "ErrVerifyPoseidonFailed" where
  gh_eq := poseidon_Hash_five
  gs_eq := babyjub_PrivateKey_SignPoseidon_eq
  gv_eq := babyjub_PublicKey_VerifyPoseidon_eq
  fm_ne_range := by decide
  fm_ne_hash := by decide
  total := hPoseidon_total
  reject := hPoseidon_none

theorem isEdDSA_mimc7 : IsEdDSA Inst.hMimc7 (fun v => mimc7_Hash v none) babyjub_PrivateKey_SignMimc7
    babyjub_PublicKey_VerifyMimc7 "ErrVerifyMimc7Failed" where
  gh_eq := fun _ _ _ _ _ => mimc7_Hash_eq_hashToGo _
  gs_eq := babyjub_PrivateKey_SignMimc7_eq
  gv_eq := babyjub_PublicKey_VerifyMimc7_eq
  fm_ne_range := by decide
  fm_ne_hash := by decide
  total := hMimc7_total
  reject := hMimc7_none

namespace IsEdDSA

variable {H : List ℤ → Option ℕ} {gh : List ℤ → ℤ × Option String}
  {gs : Bytes → ℤ → ((ℤ × ℤ) × ℤ) × Option String}
  {gv : ℤ × ℤ → ℤ → (ℤ × ℤ) × ℤ → Option String} {fm : String} (B : IsEdDSA H gh gs gv fm)
include B

/-! ### reading the generated results -/

theorem gv_iff (pk : ℤ × ℤ) (msg : ℤ) (sig : (ℤ × ℤ) × ℤ) :
    (gv pk msg sig = none ↔ verify K H pk msg (toSig sig) = .ok ()) ∧
      (gv pk msg sig = some "ErrSOutOfRange" ↔ verify K H pk msg (toSig sig) = .error .sOutOfRange) ∧
      (gv pk msg sig = some hashErrMsg ↔ verify K H pk msg (toSig sig) = .error .hash) ∧
      (gv pk msg sig = some fm ↔ verify K H pk msg (toSig sig) = .error .verifyFailed) := by
  rw [B.gv_eq]
  exact verifyToGo_iff _ B.fm_ne_range B.fm_ne_hash _ (verify_cases _ _ _ _)

theorem gs_ok_iff (k : Bytes) (msg : ℤ) (sig : (ℤ × ℤ) × ℤ) :
    gs k msg = (sig, none) ↔ sign K Inst.blake H k msg = .ok (toSig sig) := by
  rw [B.gs_eq, signToGo_ok_iff]

theorem gs_error_iff (k : Bytes) (msg : ℤ) :
    gs k msg = (default, some hashErrMsg) ↔ sign K Inst.blake H k msg = .error .hash := by
  rw [B.gs_eq, signToGo_error_iff]
  exact ⟨fun ⟨e, he⟩ => by rw [he, sign_error_hash _ _ _ _ e he], fun h => ⟨_, h⟩⟩

theorem gh_some_iff (a b c d e : ℤ) (hm : ℕ) :
    gh [a, b, c, d, e] = ((hm : ℤ), none) ↔ H [a, b, c, d, e] = some hm := by
  rw [B.gh_eq, hashToGo_some_iff]

theorem gh_none_iff (a b c d e : ℤ) :
    gh [a, b, c, d, e] = (0, some hashErrMsg) ↔ H [a, b, c, d, e] = none := by
  rw [B.gh_eq, hashToGo_error_iff]

/-- the generated hash returns either `(hm, nil)` with `hm ≥ 0` or `(nil, "inputs values not inside
Finite Field")` -/
theorem gh_cases (a b c d e : ℤ) :
    (∃ hm : ℕ, gh [a, b, c, d, e] = ((hm : ℤ), none)) ∨ gh [a, b, c, d, e] = (0, some hashErrMsg) := by
  rw [B.gh_eq]
  cases H [a, b, c, d, e] with
  | none => exact Or.inr rfl
  | some hm => exact Or.inl ⟨hm, rfl⟩

/-- on curve points in canonical coordinates and a message in the field the generated hash succeeds -/
theorem gh_defined (A R8 : curve.Point) {msg : ℤ} (h0 : 0 ≤ msg) (hq : msg < (I3.q : ℤ)) :
    ∃ hm : ℕ, gh [(coords R8).1, (coords R8).2, (coords A).1, (coords A).2, msg] =
      ((hm : ℤ), none) := by
  obtain ⟨hm, h⟩ := hash_defined B.total A R8 h0 hq
  exact ⟨hm, (B.gh_some_iff _ _ _ _ _ hm).2 h⟩

/-- as soon as one of the five inputs is outside `[0, q)` the generated hash returns its error -/
theorem gh_reject (a b c d e : ℤ) (h : ∃ x ∈ [a, b, c, d, e], x < 0 ∨ (I3.q : ℤ) ≤ x) :
    gh [a, b, c, d, e] = (0, some hashErrMsg) :=
  (B.gh_none_iff _ _ _ _ _).2 (B.reject _ h)

/-! ### C14: the range check on `S` -/

theorem verify_S_out_of_range (a r8 : ℤ × ℤ) (msg S : ℤ) (h : S < 0 ∨ (I3.l : ℤ) ≤ S) :
    gv a msg (r8, S) = some "ErrSOutOfRange" :=
  (B.gv_iff a msg (r8, S)).2.1.2 (Props.C14.verify_S_out_of_range H a r8 msg S h)

theorem verify_S_out_of_range_iff (a r8 : ℤ × ℤ) (msg S : ℤ) :
    gv a msg (r8, S) = some "ErrSOutOfRange" ↔ (S < 0 ∨ (I3.l : ℤ) ≤ S) :=
  (B.gv_iff a msg (r8, S)).2.1.trans (Props.C14.verify_S_out_of_range_iff H a r8 msg S)

theorem verify_ok_S_range (a r8 : ℤ × ℤ) (msg S : ℤ) (h : gv a msg (r8, S) = none) :
    0 ≤ S ∧ S < (I3.l : ℤ) :=
  Props.C14.verify_ok_S_range H a r8 msg S ((B.gv_iff a msg (r8, S)).1.1 h)

theorem verify_S_unique (a r8 : ℤ × ℤ) (msg S S' : ℤ) (h : gv a msg (r8, S) = none)
    (h' : gv a msg (r8, S') = none) : S = S' :=
  Props.C14.verify_S_unique H a r8 msg S S' ((B.gv_iff a msg (r8, S)).1.1 h)
    ((B.gv_iff a msg (r8, S')).1.1 h')

theorem verify_S_shift_rejected (a r8 : ℤ × ℤ) (msg S k : ℤ) (hS0 : 0 ≤ S) (hSl : S < (I3.l : ℤ))
    (hk : k ≠ 0) : gv a msg (r8, S + k * (I3.l : ℤ)) = some "ErrSOutOfRange" :=
  (B.gv_iff a msg (r8, S + k * (I3.l : ℤ))).2.1.2
    (Props.C14.verify_S_shift_rejected H a r8 msg S k hS0 hSl hk)

/-! ### C03: acceptance is the group equation -/

theorem verify_iff (A R8 : curve.Point) (msg S : ℤ) (hm : ℕ) (hS0 : 0 ≤ S) (hSl : S < (I3.l : ℤ))
    (hH : gh [(coords R8).1, (coords R8).2, (coords A).1, (coords A).2, msg] = ((hm : ℤ), none)) :
    gv (coords A) msg (coords R8, S) = none ↔ S.toNat • B8 = R8 + (8 * hm) • A :=
  (B.gv_iff _ msg (coords R8, S)).1.trans
    (Props.C03.verify_iff H A R8 msg S hm hS0 hSl ((B.gh_some_iff _ _ _ _ _ hm).1 hH))

theorem verify_reject (A R8 : curve.Point) (msg S : ℤ) (hm : ℕ) (hS0 : 0 ≤ S) (hSl : S < (I3.l : ℤ))
    (hH : gh [(coords R8).1, (coords R8).2, (coords A).1, (coords A).2, msg] = ((hm : ℤ), none))
    (hne : S.toNat • B8 ≠ R8 + (8 * hm) • A) : gv (coords A) msg (coords R8, S) = some fm :=
  (B.gv_iff _ msg (coords R8, S)).2.2.2.2
    (Props.C03.verify_reject H A R8 msg S hm hS0 hSl ((B.gh_some_iff _ _ _ _ _ hm).1 hH) hne)

theorem verify_hash_error (a r8 : ℤ × ℤ) (msg S : ℤ) (hS0 : 0 ≤ S) (hSl : S < (I3.l : ℤ))
    (hH : gh [r8.1, r8.2, a.1, a.2, msg] = (0, some hashErrMsg)) :
    gv a msg (r8, S) = some hashErrMsg :=
  (B.gv_iff a msg (r8, S)).2.2.1.2
    (Props.C03.verify_hash_error H a r8 msg S hS0 hSl ((B.gh_none_iff _ _ _ _ _).1 hH))

/-- the complete decision: `nil` iff `0 ≤ S < l`, the hash is defined and the equation holds -/
theorem verify_none_iff (A R8 : curve.Point) (msg S : ℤ) :
    gv (coords A) msg (coords R8, S) = none ↔
      0 ≤ S ∧ S < (I3.l : ℤ) ∧ ∃ hm : ℕ,
        gh [(coords R8).1, (coords R8).2, (coords A).1, (coords A).2, msg] = ((hm : ℤ), none) ∧
        S.toNat • B8 = R8 + (8 * hm) • A := by
  constructor
  · intro h
    have hv := (B.gv_iff _ msg (coords R8, S)).1.1 h
    obtain ⟨h0, hl, hm, hH, -⟩ := verify_ok_elim hv
    have hg := (B.gh_some_iff _ _ _ _ _ hm).2 hH
    exact ⟨h0, hl, hm, hg, (B.verify_iff A R8 msg S hm h0 hl hg).1 h⟩
  · rintro ⟨h0, hl, hm, hg, he⟩
    exact (B.verify_iff A R8 msg S hm h0 hl hg).2 he

/-- … and otherwise exactly one of the three errors, in this order -/
theorem verify_cases' (A R8 : curve.Point) (msg S : ℤ) :
    ((S < 0 ∨ (I3.l : ℤ) ≤ S) → gv (coords A) msg (coords R8, S) = some "ErrSOutOfRange") ∧
      (0 ≤ S → S < (I3.l : ℤ) →
        gh [(coords R8).1, (coords R8).2, (coords A).1, (coords A).2, msg] = (0, some hashErrMsg) →
        gv (coords A) msg (coords R8, S) = some hashErrMsg) ∧
      (0 ≤ S → S < (I3.l : ℤ) → ∀ hm : ℕ,
        gh [(coords R8).1, (coords R8).2, (coords A).1, (coords A).2, msg] = ((hm : ℤ), none) →
        S.toNat • B8 ≠ R8 + (8 * hm) • A → gv (coords A) msg (coords R8, S) = some fm) :=
  ⟨B.verify_S_out_of_range _ _ msg S, fun h0 hl hH => B.verify_hash_error _ _ msg S h0 hl hH,
    fun h0 hl hm hH hne => B.verify_reject A R8 msg S hm h0 hl hH hne⟩

theorem verify_iff_total (A R8 : curve.Point) (msg S : ℤ) (hm0 : 0 ≤ msg) (hmq : msg < (I3.q : ℤ))
    (hS0 : 0 ≤ S) (hSl : S < (I3.l : ℤ)) :
    ∃ hm : ℕ, gh [(coords R8).1, (coords R8).2, (coords A).1, (coords A).2, msg] = ((hm : ℤ), none) ∧
      (gv (coords A) msg (coords R8, S) = none ↔ S.toNat • B8 = R8 + (8 * hm) • A) ∧
      (S.toNat • B8 ≠ R8 + (8 * hm) • A → gv (coords A) msg (coords R8, S) = some fm) := by
  obtain ⟨hm, hH⟩ := B.gh_defined A R8 hm0 hmq
  exact ⟨hm, hH, B.verify_iff A R8 msg S hm hS0 hSl hH, B.verify_reject A R8 msg S hm hS0 hSl hH⟩

theorem verify_msg_out_of_field (a r8 : ℤ × ℤ) (msg S : ℤ) (hS0 : 0 ≤ S) (hSl : S < (I3.l : ℤ))
    (hmsg : msg < 0 ∨ (I3.q : ℤ) ≤ msg) : gv a msg (r8, S) = some hashErrMsg :=
  B.verify_hash_error a r8 msg S hS0 hSl (B.gh_reject _ _ _ _ _ ⟨msg, by simp, hmsg⟩)

theorem verify_coord_out_of_field (a r8 : ℤ × ℤ) (msg S : ℤ) (hS0 : 0 ≤ S) (hSl : S < (I3.l : ℤ))
    (hc : ∃ c ∈ [r8.1, r8.2, a.1, a.2], c < 0 ∨ (I3.q : ℤ) ≤ c) :
    gv a msg (r8, S) = some hashErrMsg := by
  obtain ⟨c, hc, hbad⟩ := hc
  refine B.verify_hash_error a r8 msg S hS0 hSl (B.gh_reject _ _ _ _ _ ⟨c, ?_, hbad⟩)
  simp only [List.mem_cons, List.not_mem_nil, or_false] at hc ⊢
  tauto

theorem verify_other_S_rejected (A R8 : curve.Point) (msg S S' : ℤ) (hS0' : 0 ≤ S')
    (hSl' : S' < (I3.l : ℤ)) (hne : S' ≠ S) (hok : gv (coords A) msg (coords R8, S) = none) :
    gv (coords A) msg (coords R8, S') = some fm := by
  have hv := (B.gv_iff _ msg (coords R8, S)).1.1 hok
  obtain ⟨h0, hl, -⟩ := verify_ok_elim hv
  exact (B.gv_iff _ msg (coords R8, S')).2.2.2.2
    (Props.C03.verify_other_S_rejected H A R8 msg S S' h0 hl hS0' hSl' hne hv)

theorem verify_other_R8_iff (A R8 R8' : curve.Point) (msg S : ℤ) (hm hm' : ℕ)
    (hH : gh [(coords R8).1, (coords R8).2, (coords A).1, (coords A).2, msg] = ((hm : ℤ), none))
    (hH' : gh [(coords R8').1, (coords R8').2, (coords A).1, (coords A).2, msg] = ((hm' : ℤ), none))
    (hok : gv (coords A) msg (coords R8, S) = none) :
    gv (coords A) msg (coords R8', S) = none ↔ R8' + (8 * hm') • A = R8 + (8 * hm) • A := by
  have hv := (B.gv_iff _ msg (coords R8, S)).1.1 hok
  obtain ⟨h0, hl, -⟩ := verify_ok_elim hv
  exact (B.gv_iff _ msg (coords R8', S)).1.trans
    (Props.C03.verify_other_R8_iff H A R8 R8' msg S hm hm' h0 hl
      ((B.gh_some_iff _ _ _ _ _ hm).1 hH) ((B.gh_some_iff _ _ _ _ _ hm').1 hH') hv)

theorem verify_altered_key_iff (A A' R8 : curve.Point) (msg S : ℤ) (hm hm' : ℕ)
    (hH : gh [(coords R8).1, (coords R8).2, (coords A).1, (coords A).2, msg] = ((hm : ℤ), none))
    (hH' : gh [(coords R8).1, (coords R8).2, (coords A').1, (coords A').2, msg] = ((hm' : ℤ), none))
    (hok : gv (coords A) msg (coords R8, S) = none) :
    gv (coords A') msg (coords R8, S) = none ↔ (8 * hm') • A' = (8 * hm) • A := by
  have hv := (B.gv_iff _ msg (coords R8, S)).1.1 hok
  obtain ⟨h0, hl, -⟩ := verify_ok_elim hv
  exact (B.gv_iff _ msg (coords R8, S)).1.trans
    (Props.C03.verify_altered_key_iff H A A' R8 msg S hm hm' h0 hl
      ((B.gh_some_iff _ _ _ _ _ hm).1 hH) ((B.gh_some_iff _ _ _ _ _ hm').1 hH') hv)

theorem verify_altered_msg_iff (A R8 : curve.Point) (msg msg' S : ℤ) (hm hm' : ℕ)
    (hH : gh [(coords R8).1, (coords R8).2, (coords A).1, (coords A).2, msg] = ((hm : ℤ), none))
    (hH' : gh [(coords R8).1, (coords R8).2, (coords A).1, (coords A).2, msg'] = ((hm' : ℤ), none))
    (hok : gv (coords A) msg (coords R8, S) = none) :
    gv (coords A) msg' (coords R8, S) = none ↔ (8 * hm') • A = (8 * hm) • A := by
  have hv := (B.gv_iff _ msg (coords R8, S)).1.1 hok
  obtain ⟨h0, hl, -⟩ := verify_ok_elim hv
  exact (B.gv_iff _ msg' (coords R8, S)).1.trans
    (Props.C03.verify_altered_msg_iff H A R8 msg msg' S hm hm' h0 hl
      ((B.gh_some_iff _ _ _ _ _ hm).1 hH) ((B.gh_some_iff _ _ _ _ _ hm').1 hH') hv)

theorem verify_altered_msg_iff_modEq (s : ℕ) (R8 : curve.Point) (msg msg' S : ℤ) (hm hm' : ℕ)
    (hA : s • B8 ≠ 0)
    (hH : gh [(coords R8).1, (coords R8).2, (coords (s • B8)).1, (coords (s • B8)).2, msg] =
      ((hm : ℤ), none))
    (hH' : gh [(coords R8).1, (coords R8).2, (coords (s • B8)).1, (coords (s • B8)).2, msg'] =
      ((hm' : ℤ), none))
    (hok : gv (coords (s • B8)) msg (coords R8, S) = none) :
    gv (coords (s • B8)) msg' (coords R8, S) = none ↔ hm' ≡ hm [MOD I3.l] := by
  rw [B.verify_altered_msg_iff (s • B8) R8 msg msg' S hm hm' hH hH' hok]
  exact eight_mul_nsmul_eq_iff s hA hm' hm

/-! ### C02: signing -/

/-- signing returns `(sig, nil)` or `(nil, "inputs values not inside Finite Field")` -/
theorem sign_cases (k : Bytes) (msg : ℤ) :
    (∃ sig, gs k msg = (sig, none)) ∨ gs k msg = (default, some hashErrMsg) := by
  rw [B.gs_eq]
  cases sign K Inst.blake H k msg with
  | error e => exact Or.inr rfl
  | ok sig => exact Or.inl ⟨_, rfl⟩

theorem sign_ok (k : Bytes) (msg : ℤ) (hm0 : 0 ≤ msg) (hmq : msg < (I3.q : ℤ)) :
    ∃ sig, gs k msg = (sig, none) := by
  obtain ⟨sig, h⟩ := Props.C02.sign_ok Inst.blake H B.total k msg hm0 hmq
  exact ⟨ofSig sig, (B.gs_ok_iff k msg _).2 h⟩

theorem sign_msg_out_of_field (k : Bytes) (msg : ℤ) (hmsg : msg < 0 ∨ (I3.q : ℤ) ≤ msg) :
    gs k msg = (default, some hashErrMsg) :=
  (B.gs_error_iff k msg).2 (sign_none _ _ k msg _ _ rfl rfl (B.reject _ ⟨msg, by simp, hmsg⟩))

theorem sign_spec (k : Bytes) (msg : ℤ) (hm0 : 0 ≤ msg) (hmq : msg < (I3.q : ℤ)) (r s : ℕ)
    (hr : r = leToNat (Inst.blake ((Inst.blake k).drop 32 ++ natToLE 32 msg.toNat)) % I3.l)
    (hs : (s : ℤ) = babyjub_SkToBigInt k) :
    ∃ hm : ℕ, gh [(coords (r • B8)).1, (coords (r • B8)).2, (coords (s • B8)).1, (coords (s • B8)).2,
        msg] = ((hm : ℤ), none) ∧
      gs k msg = ((coords (r • B8), ((r : ℤ) + (hm : ℤ) * (8 * (s : ℤ))) % (I3.l : ℤ)), none) ∧
      0 ≤ ((r : ℤ) + (hm : ℤ) * (8 * (s : ℤ))) % (I3.l : ℤ) ∧
      ((r : ℤ) + (hm : ℤ) * (8 * (s : ℤ))) % (I3.l : ℤ) < (I3.l : ℤ) ∧
      babyjub_Point_InCurve (coords (r • B8)) = true := by
  have hs' : s = skToBigInt Inst.blake k := by
    rw [babyjub_SkToBigInt_eq] at hs; exact_mod_cast hs
  obtain ⟨hm, hH, hsig, h0, hl, hc⟩ :=
    Props.C02.sign_spec Inst.blake H B.total k msg hm0 hmq r s hr hs'
  exact ⟨hm, (B.gh_some_iff _ _ _ _ _ hm).2 hH, (B.gs_ok_iff k msg _).2 hsig, h0, hl,
    by rw [babyjub_Point_InCurve_eq]; exact hc⟩

theorem sign_range (k : Bytes) (msg : ℤ) (sig : (ℤ × ℤ) × ℤ) (h : gs k msg = (sig, none)) :
    0 ≤ sig.2 ∧ sig.2 < (I3.l : ℤ) ∧ babyjub_Point_InCurve sig.1 = true ∧
      ∃ R8 : curve.Point, sig.1 = coords R8 ∧ I3.l • R8 = 0 := by
  have := Props.C02.sign_range Inst.blake H k msg (toSig sig) ((B.gs_ok_iff k msg sig).1 h)
  rw [babyjub_Point_InCurve_eq]
  exact this

theorem sign_verify (k : Bytes) (msg : ℤ) (sig : (ℤ × ℤ) × ℤ) (h : gs k msg = (sig, none)) :
    gv (babyjub_PrivateKey_Public k) msg sig = none := by
  rw [babyjub_PrivateKey_Public_eq]
  exact (B.gv_iff _ msg sig).1.2
    (Props.C02.sign_verify Inst.blake H k msg (toSig sig) ((B.gs_ok_iff k msg sig).1 h))

theorem sign_ok_verify (k : Bytes) (msg : ℤ) (hm0 : 0 ≤ msg) (hmq : msg < (I3.q : ℤ)) :
    ∃ sig, gs k msg = (sig, none) ∧ gv (babyjub_PrivateKey_Public k) msg sig = none := by
  obtain ⟨sig, h⟩ := B.sign_ok k msg hm0 hmq
  exact ⟨sig, h, B.sign_verify k msg sig h⟩

/-- signature and public key survive the generated codecs unchanged, and the decoded signature
verifies under the decoded key -/
theorem sign_verify_roundtrip (k : Bytes) (msg : ℤ) (sig : (ℤ × ℤ) × ℤ) (h : gs k msg = (sig, none)) :
    babyjub_SignatureComp_Decompress (babyjub_Signature_Compress sig) = (sig, none) ∧
      babyjub_PublicKeyComp_Decompress (babyjub_PublicKey_Compress (babyjub_PrivateKey_Public k)) =
        (babyjub_PrivateKey_Public k, none) ∧
      gv (babyjub_PrivateKey_Public k) msg sig = none := by
  have hm := (B.gs_ok_iff k msg sig).1 h
  obtain ⟨sig', pk', h1, h2, e1, e2, -⟩ :=
    Props.C02.sign_verify_roundtrip Inst.sqrtQ Props.C06.sqrtQ_spec Inst.blake H k msg (toSig sig) hm
  subst e1 e2
  refine ⟨?_, ?_, B.sign_verify k msg sig h⟩
  · rw [babyjub_Signature_Compress_eq,
      babyjub_SignatureComp_Decompress_eq, h1]
    rfl
  · have hl : (babyjub_PublicKey_Compress (babyjub_PrivateKey_Public k)).length = 32 := by
      rw [babyjub_PublicKey_Compress_eq]; exact Props.C15.compress_length _ _
    rw [babyjub_PublicKeyComp_Decompress_eq _ hl, babyjub_PublicKey_Compress_eq,
      babyjub_PrivateKey_Public_eq, h2]
    rfl

end IsEdDSA

end I3.GoBridge
