/-
  I3.Lemmas.GoBridgeEdDSA — bridge between the definitions GENERATED from /repo/babyjub/eddsa.go by
  the source translator T6 (`I3.Gen.Go.babyjub_pruneBuffer`, `babyjub_SkToBigInt`,
  `babyjub_PrivateKey_*`, `babyjub_PrivKeyScalar_*`, `babyjub_PublicKey_*`, `babyjub_PublicKeyComp_*`,
  `babyjub_Signature_*`, `babyjub_SignatureComp_*`) and the hand-written model `I3.Model.EdDSA`
  instantiated at the regenerated constants `K = I3.Inst.bjConsts`, the BLAKE-512 model `I3.Inst.blake`,
  the field hashes `I3.Inst.hPoseidon` / `I3.Inst.hMimc7` and the square root `I3.Inst.sqrtQ`.

  Every lemma `<generated name>_eq` holds for EVERY input.  The only hypotheses anywhere are lengths of
  Go ARRAY parameters (`[32]byte`, `[64]byte`: the length is the Go type, not a restriction), and only
  where the total list semantics of the translation could otherwise tell the two sides apart
  (`pruneBuffer`, the two `Decompress`); the private key of `SkToBigInt` / `Public` / `Sign*` needs no
  length hypothesis (it is only hashed).

  Proof technique.  A generated definition is unfolded at FUNCTION level (`go_delta f`: the kernel
  compares the constant `f` with its λ-body, never an application of `f` with a `match … with` whose
  discriminant is an open term — see the note at `babyjub_Point_Decompress_eq`), then the callees are
  rewritten with the bridge lemmas of I3.Lemmas.GoBridgeBabyjub / GoBridgePoseidon / GoBridgeMimc7, so that
  every `let (a, b) := callee …` meets a literal pair before it is reduced.
-/
import I3.Lemmas.GoBridgeBabyjub
import I3.Lemmas.GoBridgePoseidon
import I3.Lemmas.GoBridgeMimc7
import I3.Lemmas.EdDSA
import I3.Props.C15
import I3.Props.C20

set_option maxRecDepth 100000

namespace I3.GoBridge
open I3 I3.Gen.Go
open I3.Model.BabyJub I3.Model.EdDSA

/-- unfold the generated definition `f` at function level in the goal -/
local macro "go_delta " f:ident : tactic =>
  `(tactic| (have hf := @rfl _ $f; conv at hf => rhs; delta $f
             rw [hf]; clear hf; beta_reduce))

/-! ## Go arrays as lists -/

/-- `copy(dst[:], src)` into a fresh `[n]T` from `n` elements: the elements -/
theorem copyInto_replicate_full {α} (d : α) (n : Nat) (src : List α) (h : src.length = n) :
    Go.copyInto (List.replicate n d) 0 (Go.len (List.replicate n d)) src = src := by
  unfold Go.copyInto Go.len
  simp [h]

/-- the same with a source that may be shorter or longer: truncated / zero-padded to `n` -/
theorem copyInto_replicate_any {α} (d : α) (n : Nat) (src : List α) :
    Go.copyInto (List.replicate n d) 0 (Go.len (List.replicate n d)) src =
      src.take n ++ List.replicate (n - src.length) d := by
  unfold Go.copyInto Go.len
  simp only [Int.toNat_zero, List.length_replicate, Int.toNat_natCast, Nat.min_self, Nat.sub_zero,
    List.take_zero, List.nil_append, Nat.zero_add, List.drop_replicate]
  by_cases h : src.length ≤ n
  · rw [Nat.min_eq_right h, List.take_of_length_le (Nat.le_refl _), List.take_of_length_le h]
  · rw [Nat.min_eq_left (by omega), Nat.sub_self, Nat.sub_eq_zero_of_le (by omega)]

/-- `x[:32]` -/
theorem slice_0_32 {α} (l : List α) : Go.slice l 0 32 = l.take 32 := rfl

/-- `x[32:]` -/
theorem slice_32_len {α} (l : List α) : Go.slice l 32 (Go.len l) = l.drop 32 := by
  unfold Go.slice Go.len
  rw [Int.toNat_natCast, List.take_length]
  rfl

theorem blake512_eq (m : Bytes) : Go.Ext.blake512 m = Inst.blake m := rfl

/-- the BLAKE-512 digest has 64 bytes -/
theorem blake_length (m : Bytes) : (Inst.blake m).length = 64 := Props.C20.blake_digest_length m

/-! ## `pruneBuffer` -/

/-- what the generated `pruneBuffer` computes on a list of ANY length (total list semantics: an
assignment to a missing cell is dropped) -/
def pruneAny (b : Bytes) : Bytes :=
  (b.set 0 (b.getD 0 0 &&& 0xF8)).set 31 ((b.getD 31 0 &&& 0x7F) ||| 0x40)

theorem babyjub_pruneBuffer_unfold (b : Bytes) :
    babyjub_pruneBuffer b =
      (((b.set 0 (b.getD 0 0 &&& 248)).set 31
          ((b.set 0 (b.getD 0 0 &&& 248)).getD 31 0 &&& 127)).set 31
        (((b.set 0 (b.getD 0 0 &&& 248)).set 31
          ((b.set 0 (b.getD 0 0 &&& 248)).getD 31 0 &&& 127)).getD 31 0 ||| 64),
       ((b.set 0 (b.getD 0 0 &&& 248)).set 31
          ((b.set 0 (b.getD 0 0 &&& 248)).getD 31 0 &&& 127)).set 31
        (((b.set 0 (b.getD 0 0 &&& 248)).set 31
          ((b.set 0 (b.getD 0 0 &&& 248)).getD 31 0 &&& 127)).getD 31 0 ||| 64)) := rfl

/-- `pruneBuffer(buf)`: returned pointer and final `*buf`, for a list of ANY length -/
theorem babyjub_pruneBuffer_any (b : Bytes) : babyjub_pruneBuffer b = (pruneAny b, pruneAny b) := by
  rw [babyjub_pruneBuffer_unfold]
  have h : ((b.set 0 (b.getD 0 0 &&& 248)).set 31
        ((b.set 0 (b.getD 0 0 &&& 248)).getD 31 0 &&& 127)).set 31
      (((b.set 0 (b.getD 0 0 &&& 248)).set 31
        ((b.set 0 (b.getD 0 0 &&& 248)).getD 31 0 &&& 127)).getD 31 0 ||| 64) = pruneAny b := by
    unfold pruneAny
    generalize (b.getD 0 0 &&& 248) = v0
    rw [List.set_set]
    by_cases hl : 31 < b.length
    · congr 1
      simp [List.getD_eq_getElem?_getD, hl]
    · have h1 : ∀ (l : Bytes) v, l.length = b.length → l.set 31 v = l :=
        fun l v h => List.set_eq_of_length_le (by omega)
      rw [h1 _ _ (by simp), h1 _ _ (by simp)]
  rw [h]

theorem pruneAny_length (b : Bytes) : (pruneAny b).length = b.length := by
  simp [pruneAny]

theorem prune_length_any (b : Bytes) : (prune b).length = min 30 (b.length - 1) + 2 := by
  simp [prune]

/-- on at least 32 bytes: the model on the first 32 bytes, the rest untouched -/
theorem pruneAny_of_le (b : Bytes) (hb : 32 ≤ b.length) : pruneAny b = prune b ++ b.drop 32 := by
  unfold pruneAny prune
  match b, hb with
  | x :: t, hb =>
    have ht : 31 ≤ t.length := by simpa using hb
    simp only [List.set_cons_zero, List.set_cons_succ, List.getD_cons_zero, List.getD_cons_succ,
      List.drop_succ_cons, List.drop_zero, List.cons_append, List.nil_append, List.append_assoc]
    rw [List.set_eq_take_append_cons_drop, if_pos (by omega)]

/-- **`pruneBuffer` on a `[32]byte`** (the Go parameter type): returned pointer and final `*buf` are
the model's `prune` -/
theorem babyjub_pruneBuffer_eq (b : Bytes) (hb : b.length = 32) :
    babyjub_pruneBuffer b = (prune b, prune b) := by
  rw [babyjub_pruneBuffer_any, pruneAny_of_le b (by omega), List.drop_of_length_le (by omega),
    List.append_nil]

/-- on MORE than 32 bytes the generated code leaves the tail in place (the model drops it) -/
theorem babyjub_pruneBuffer_of_le (b : Bytes) (hb : 32 ≤ b.length) :
    babyjub_pruneBuffer b = (prune b ++ b.drop 32, prune b ++ b.drop 32) := by
  rw [babyjub_pruneBuffer_any, pruneAny_of_le b hb]

/-- the generated code never changes the length; the model always returns
`min 30 (len - 1) + 2` bytes -/
theorem babyjub_pruneBuffer_length (b : Bytes) :
    (babyjub_pruneBuffer b).1.length = b.length ∧ (babyjub_pruneBuffer b).2.length = b.length := by
  rw [babyjub_pruneBuffer_any]
  exact ⟨pruneAny_length b, pruneAny_length b⟩

/-- **exactly where they agree**: the generated `pruneBuffer` equals the model iff the buffer has
32 bytes (on fewer bytes Go would not compile / would panic: the translation drops the write to the
missing cell while the model pads; on more bytes the model truncates) -/
theorem babyjub_pruneBuffer_eq_iff (b : Bytes) :
    babyjub_pruneBuffer b = (prune b, prune b) ↔ b.length = 32 := by
  refine ⟨fun h => ?_, babyjub_pruneBuffer_eq b⟩
  have h1 := (babyjub_pruneBuffer_length b).1
  rw [h, prune_length_any] at h1
  omega

example : (babyjub_pruneBuffer []).1 = [] ∧ prune [] = [0, 0x40] := by decide
example : (babyjub_pruneBuffer (List.replicate 33 0xff)).1 =
      0xf8 :: List.replicate 30 0xff ++ [0x7f, 0xff] ∧
    prune (List.replicate 33 0xff) = 0xf8 :: List.replicate 30 0xff ++ [0x7f] := by decide

/-! ## key derivation -/

theorem rsh_natCast (n k : Nat) : Go.big.rsh (n : Int) k = ((n / 2 ^ k : Nat) : Int) := by
  unfold Go.big.rsh
  rw [Int.shiftRight_eq_div_pow]
  norm_cast

/-- **`SkToBigInt(k)`** for a key of ANY length: the model's scalar (clamped first half of the
BLAKE-512 digest, shifted right by 3) -/
theorem babyjub_SkToBigInt_eq (k : Bytes) :
    babyjub_SkToBigInt k = ((skToBigInt Inst.blake k : Nat) : Int) := by
  go_delta babyjub_SkToBigInt
  have hlen : ((Inst.blake k).take 32).length = 32 := by rw [List.length_take, blake_length]; rfl
  simp only [blake512_eq, slice_0_32,
    copyInto_replicate_full (default : UInt8) 32 _ hlen, babyjub_pruneBuffer_eq _ hlen,
    utils_SetBigIntFromLEBytes_eq, rsh_natCast]
  rfl

theorem babyjub_NewPrivKeyScalar_eq (s : Int) : babyjub_NewPrivKeyScalar s = s := rfl

theorem babyjub_PrivKeyScalar_BigInt_eq (s : Int) : babyjub_PrivKeyScalar_BigInt s = s := rfl

/-- **`k.Scalar()`**: the model's scalar -/
theorem babyjub_PrivateKey_Scalar_eq (k : Bytes) :
    babyjub_PrivateKey_Scalar k = ((skToBigInt Inst.blake k : Nat) : Int) := by
  go_delta babyjub_PrivateKey_Scalar
  simp only [babyjub_NewPrivKeyScalar_eq, babyjub_SkToBigInt_eq]

/-- **`s.Public()`** for EVERY integer scalar: the model's double-and-add on `B8` -/
theorem babyjub_PrivKeyScalar_Public_eq (s : Int) :
    babyjub_PrivKeyScalar_Public s = mul K s K.b8 := by
  go_delta babyjub_PrivKeyScalar_Public
  simp only [babyjub_Point_Mul_eq, babyjub_B8_eq]

/-- **`k.Public()`** for a key of ANY length: the model's public key -/
theorem babyjub_PrivateKey_Public_eq (k : Bytes) :
    babyjub_PrivateKey_Public k = publicKey K Inst.blake k := by
  go_delta babyjub_PrivateKey_Public
  rw [babyjub_PrivateKey_Scalar_eq, babyjub_PrivKeyScalar_Public_eq]
  rfl

theorem babyjub_PublicKey_Point_eq (pk : Int × Int) : babyjub_PublicKey_Point pk = pk := rfl

/-- **`pk.Compress()`** for every pair of integers -/
theorem babyjub_PublicKey_Compress_eq (pk : Int × Int) :
    babyjub_PublicKey_Compress pk = compress K pk := babyjub_Point_Compress_eq pk

/-- **`pkComp.Decompress()`** on a `[32]byte` (the Go receiver type) -/
theorem babyjub_PublicKeyComp_Decompress_eq (b : Bytes) (hb : b.length = 32) :
    babyjub_PublicKeyComp_Decompress b = ofExcept (decompress K Inst.sqrtQ b) := by
  go_delta babyjub_PublicKeyComp_Decompress
  rw [babyjub_Point_Decompress_eq _ b hb]
  generalize decompress K Inst.sqrtQ b = r
  cases r <;> rfl

/-! ## signature codec -/

/-- a Go `Signature{R8, S}` as the model's record -/
def toSig (s : (Int × Int) × Int) : Sig := ⟨s.1, s.2⟩
/-- … and back -/
def ofSig (s : Sig) : (Int × Int) × Int := (s.r8, s.s)

theorem toSig_ofSig (s : Sig) : toSig (ofSig s) = s := rfl
theorem ofSig_toSig (s : (Int × Int) × Int) : ofSig (toSig s) = s := rfl

/-- `copy(buf[:32], a); copy(buf[32:], b)` into a fresh `[64]byte`, two 32-byte sources -/
theorem copyInto_two_halves (a b : Bytes) (ha : a.length = 32) (hb : b.length = 32) :
    Go.copyInto (Go.copyInto (List.replicate 64 (default : UInt8)) 0 32 a) 32
      (Go.len (Go.copyInto (List.replicate 64 (default : UInt8)) 0 32 a)) b = a ++ b := by
  have h1 : Go.copyInto (List.replicate 64 (default : UInt8)) 0 32 a =
      a ++ List.replicate 32 default := by
    unfold Go.copyInto
    simp [ha]
  rw [h1]
  unfold Go.copyInto Go.len
  simp [ha, hb]
  rw [List.take_of_length_le (by omega), List.drop_of_length_le (by simp [ha]), List.append_nil]

/-- **`s.Compress()`** for every signature (any integers): the model's 64 bytes -/
theorem babyjub_Signature_Compress_eq (s : (Int × Int) × Int) :
    babyjub_Signature_Compress s = sigCompress K (toSig s) := by
  go_delta babyjub_Signature_Compress
  simp only [babyjub_Point_Compress_eq, utils_BigIntLEBytes_eq]
  exact copyInto_two_halves _ _ (Props.C15.compress_length K s.1)
    (Lemmas.Bytes.natToLE_length 32 _)

/-- the Go result `(*Signature, error)` plus the receiver `*s` after `s.Decompress(buf)`, as a
function of the model's outcome and the receiver before the call.  On success the receiver is the
result.  On error the returned pointer is nil (zero value) and — `s.R8` being assigned BEFORE the
error check — the receiver's `R8` is the nil pointer returned by `Point.Decompress` (zero value
`(0, 0)` here) while its `S` is untouched. -/
def sigRecvOfExcept (recv : (Int × Int) × Int) :
    Except Model.EdDSA.Err Sig → ((Int × Int) × Int) × Option String × ((Int × Int) × Int)
  | .ok sig => (ofSig sig, none, ofSig sig)
  | .error (.point e) => (default, some (errMsg e), ((default : Int × Int), recv.2))
  | .error _ => (default, some "", recv)

/-- **`s.Decompress(buf)`** for every previous receiver content and every buffer of at least 32
bytes (the Go parameter is a `[64]byte`): result, error and receiver after the call -/
theorem babyjub_Signature_Decompress_of_le (recv : (Int × Int) × Int) (b : Bytes)
    (hb : 32 ≤ b.length) :
    babyjub_Signature_Decompress recv b = sigRecvOfExcept recv (sigDecompress K Inst.sqrtQ b) := by
  go_delta babyjub_Signature_Decompress
  have hlen : (b.take 32).length = 32 := by rw [List.length_take]; omega
  -- `-iota`: the `match` on the result of `Point.Decompress` must not be reduced (by structure eta)
  -- before its discriminant is a variable: the kernel would evaluate `decompress` on the open `b`
  simp -iota only [slice_0_32, slice_32_len, copyInto_replicate_full (default : UInt8) 32 _ hlen,
    babyjub_Point_Decompress_eq _ _ hlen, utils_SetBigIntFromLEBytes_eq]
  unfold sigDecompress
  generalize decompress K Inst.sqrtQ (b.take 32) = r
  generalize ((leToNat (b.drop 32) : Nat) : Int) = sv
  cases r <;> rfl

/-- **`s.Decompress(buf)`** on a `[64]byte` -/
theorem babyjub_Signature_Decompress_eq (recv : (Int × Int) × Int) (b : Bytes)
    (hb : b.length = 64) :
    babyjub_Signature_Decompress recv b = sigRecvOfExcept recv (sigDecompress K Inst.sqrtQ b) :=
  babyjub_Signature_Decompress_of_le recv b (by omega)

/-- the Go result `(*Signature, error)` of `sComp.Decompress()` -/
def sigOfExcept : Except Model.EdDSA.Err Sig → ((Int × Int) × Int) × Option String
  | .ok sig => (ofSig sig, none)
  | .error (.point e) => (default, some (errMsg e))
  | .error _ => (default, some "")

/-- **`sComp.Decompress()`** on a `[64]byte` -/
theorem babyjub_SignatureComp_Decompress_eq (b : Bytes) (hb : b.length = 64) :
    babyjub_SignatureComp_Decompress b = sigOfExcept (sigDecompress K Inst.sqrtQ b) := by
  go_delta babyjub_SignatureComp_Decompress
  rw [babyjub_Signature_Decompress_eq _ b hb]
  generalize sigDecompress K Inst.sqrtQ b = r
  rcases r with (_ | _ | _ | e | _ | _ | _ | _ | _) | sig <;> rfl

/-! ## the two field hashes on five elements -/

/-- the Go result `(*big.Int, error)` of `poseidon.Hash` / `mimc7.Hash(·, nil)` on the five-element
vector of EdDSA, as a function of the model hash: the only error either of them can return there is
"inputs values not inside Finite Field" (with a nil value) -/
def hashToGo : Option Nat → Int × Option String
  | some h => ((h : Int), none)
  | none => (0, some "inputs values not inside Finite Field")

/-- `poseidon.Hash` on 1 … 16 inputs (any integers) -/
theorem poseidon_Hash_eq_hashToGo (l : List Int) (h1 : 1 ≤ l.length) (h16 : l.length ≤ 16) :
    poseidon_Hash l = hashToGo (Inst.hPoseidon l) := by
  cases hh : Inst.hPoseidon l with
  | some h => exact (poseidon_Hash_some_iff l h).1 hh
  | none =>
    have hb := poseidon_Hash_eq l
    by_cases hall : ∀ x ∈ l, 0 ≤ x ∧ x < (Gen.constants_q : Int)
    · exfalso
      obtain ⟨r, hr⟩ := (Props.C07.poseidonEx_ok_iff l 0 1).2
        ⟨h1, h16, hall, le_refl _, by decide, le_refl _, by omega⟩
      obtain ⟨x, rfl⟩ := poseidonEx_one_ok l 0 r hr
      simp [Inst.hPoseidon, hr] at hh
    · have he : Inst.poseidonEx l 0 1 = .error .notInField := by
        apply Props.C07.poseidon_notInField _ _ _ _ _ _ _ h1 (by
          have : Gen.poseidon_NROUNDSP.length = 16 := by decide
          omega)
        simp only [not_forall] at hall
        obtain ⟨x, hx, hbad⟩ := hall
        exact ⟨x, hx, by omega⟩
      rw [he] at hb
      exact (Option.some.inj hb).symm

theorem poseidon_Hash_five (a b c d e : Int) :
    poseidon_Hash [a, b, c, d, e] = hashToGo (Inst.hPoseidon [a, b, c, d, e]) :=
  poseidon_Hash_eq_hashToGo _ (by simp) (by simp)

/-- `mimc7.Hash(l, nil)` on any number of inputs (any integers) -/
theorem mimc7_Hash_eq_hashToGo (l : List Int) :
    mimc7_Hash l none = hashToGo (Inst.hMimc7 l) := by
  rw [mimc7_Hash_none_eq]
  cases Inst.hMimc7 l <;> rfl

/-! ## signing -/

/-- the Go result `(*Signature, error)` of `SignPoseidon` / `SignMimc7`: `.ok sig ↦ (sig, nil)`;
the only error the model can return is `.hash` (I3.Props.C02.sign_error), and Go returns nil together
with the error of the hash -/
def signToGo : Except Model.EdDSA.Err Sig → ((Int × Int) × Int) × Option String
  | .ok sig => (ofSig sig, none)
  | .error _ => (default, some "inputs values not inside Finite Field")

theorem mod_subOrder (x : Int) :
    Go.big.mod x Go.Ext.babyjub_SubOrder = x % (K.subOrder : Int) := by
  rw [babyjub_SubOrder_eq]; rfl

theorem mod_subOrder_natCast (n : Nat) :
    Go.big.mod (n : Int) Go.Ext.babyjub_SubOrder = ((n % K.subOrder : Nat) : Int) := by
  rw [mod_subOrder]; norm_cast

theorem lsh_three_natCast (s : Nat) : Go.big.lsh (s : Int) 3 = ((s * 8 : Nat) : Int) := by
  unfold Go.big.lsh; norm_cast

/-- **`k.SignPoseidon(msg)`** for a key of ANY length and EVERY integer message -/
theorem babyjub_PrivateKey_SignPoseidon_eq (k : Bytes) (msg : Int) :
    babyjub_PrivateKey_SignPoseidon k msg =
      signToGo (sign K Inst.blake Inst.hPoseidon k msg) := by
  go_delta babyjub_PrivateKey_SignPoseidon
  have hle : (bigIntLEBytes msg).length = 32 := Lemmas.Bytes.natToLE_length 32 _
  -- the hash stays an opaque function until its argument is a closed term of the context: the
  -- `match` on its result is reduced by structure eta, and the kernel must find it stuck at once
  generalize hph : poseidon_Hash = ph
  -- pass 1 (`-iota`): every destructured call becomes a literal pair; pass 2: the `match`es reduce
  simp -iota only [blake512_eq, utils_BigIntLEBytes_eq,
    copyInto_replicate_full (default : UInt8) 32 _ hle, slice_32_len, utils_SetBigIntFromLEBytes_eq,
    babyjub_Point_Mul_eq, babyjub_B8_eq, babyjub_PublicKey_Point_eq, babyjub_PrivateKey_Public_eq,
    babyjub_PrivKeyScalar_BigInt_eq, babyjub_PrivateKey_Scalar_eq, lsh_three_natCast, mod_subOrder]
  simp only []
  subst hph
  simp only [← Int.natCast_mod, poseidon_Hash_five, sign]
  generalize Inst.hPoseidon _ = o
  generalize ((leToNat (Inst.blake ((Inst.blake k).drop 32 ++ bigIntLEBytes msg)) % K.subOrder : Nat)
    : Int) = r
  generalize mul K r K.b8 = R8
  generalize ((skToBigInt Inst.blake k * 8 : Nat) : Int) = s8
  generalize (K.subOrder : Int) = l
  cases o <;> rfl

end I3.GoBridge
