/-
  I3.Lemmas.GoBridgeBabyjub — bridge between the definitions GENERATED from the Go source by the
  translator T6 (`I3.Gen.Go.utils_*` from /repo/utils/utils.go, `I3.Gen.Go.babyjub_*` from
  /repo/babyjub/babyjub.go) and the hand-written executable models (`I3.Model.BabyJub`,
  `I3.Model.Codec`, `I3.Model.Mimc7.inField`) instantiated at the regenerated constants
  `I3.Inst.bjConsts` and the square root `I3.Inst.sqrtQ`.

  Every lemma `<generated name>_eq` holds for EVERY input (the only hypothesis anywhere is
  `b.length = 32` where the Go parameter is a `[32]byte`).  With these lemmas the property theorems
  about the models (I3.Props.C04/C06/C13/C19) are restated about the generated code in
  I3.Props.C04Gen/C06Gen/C13Gen/C19Gen.
-/
import I3.Gen.GoBabyjub
import I3.Lemmas.Conv
import I3.Lemmas.Bytes
import I3.Lemmas.CurveBridge
import I3.Lemmas.Compress

set_option maxRecDepth 100000

namespace I3.GoBridge
open I3 I3.Gen.Go

/-! ## loops -/

/-- head recursion for a counted loop: `i` is the next index, `n` the number of iterations left -/
def loopFrom {σ} (f : Int → σ → σ) : Nat → Nat → σ → σ
  | 0, _, s => s
  | n+1, i, s => loopFrom f n (i + 1) (f (i : Int) s)

theorem forRange_eq_foldl {σ} (n : Nat) (f : Int → σ → σ) (s : σ) :
    Go.forRange 0 (n : Int) f s = (List.range n).foldl (fun s (k : Nat) => f (k : Int) s) s := by
  unfold Go.forRange
  simp only [Int.sub_zero, Int.toNat_natCast, Int.zero_add]

theorem forRange_zero {σ} (f : Int → σ → σ) (s : σ) : Go.forRange 0 0 f s = s := rfl

theorem forRange_succ {σ} (n : Nat) (f : Int → σ → σ) (s : σ) :
    Go.forRange 0 ((n + 1 : Nat) : Int) f s = f (n : Int) (Go.forRange 0 (n : Int) f s) := by
  rw [forRange_eq_foldl, forRange_eq_foldl, List.range_succ, List.foldl_append]
  rfl

/-- **the counted loop is structural recursion**: `for i := 0; i < n; i++ { s = f i s }` is
`Nat.fold` over the index -/
theorem forRange_eq_fold {σ} (n : Nat) (f : Int → σ → σ) (s : σ) :
    Go.forRange 0 (n : Int) f s = Nat.fold n (fun i _ s => f (i : Int) s) s := by
  induction n with
  | zero => rfl
  | succ n ih => rw [forRange_succ, Nat.fold_succ, ih]

theorem foldl_range'_eq_loopFrom {σ} (f : Int → σ → σ) (n i : Nat) (s : σ) :
    (List.range' i n).foldl (fun s (k : Nat) => f (k : Int) s) s = loopFrom f n i s := by
  induction n generalizing i s with
  | zero => rfl
  | succ n ih => rw [List.range'_succ, List.foldl_cons, ih]; rfl

/-- the same loop peeled from the front -/
theorem forRange_eq_loopFrom {σ} (n : Nat) (f : Int → σ → σ) (s : σ) :
    Go.forRange 0 (n : Int) f s = loopFrom f n 0 s := by
  rw [forRange_eq_foldl, List.range_eq_range', foldl_range'_eq_loopFrom]

theorem forRangeRet_zero {ρ σ} (f : Int → σ → Option ρ × σ) (s : σ) :
    Go.forRangeRet 0 0 f s = (none, s) := rfl

theorem forRangeRet_succ {ρ σ} (n : Nat) (f : Int → σ → Option ρ × σ) (s : σ) :
    Go.forRangeRet 0 ((n + 1 : Nat) : Int) f s =
      match (Go.forRangeRet 0 (n : Int) f s).1 with
      | some _ => Go.forRangeRet 0 (n : Int) f s
      | none => f (n : Int) (Go.forRangeRet 0 (n : Int) f s).2 := by
  unfold Go.forRangeRet
  simp only [Int.sub_zero, Int.toNat_natCast, Int.zero_add]
  rw [List.range_succ, List.foldl_append]
  rfl

/-! ## utils -/

/-- the loop of `SwapEndianness` after `k ≤ len` iterations -/
theorem swap_loop {α} [Inhabited α] (xs : List α) (d : α) (k : Nat) (hk : k ≤ xs.length) :
    Go.forRange 0 (k : Int) (fun i ys => Go.set ys (((Go.len xs) - 1) - i) (Go.idx xs i))
        (List.replicate xs.length d) =
      List.replicate (xs.length - k) d ++ (xs.take k).reverse := by
  induction k with
  | zero => simp [forRange_zero]
  | succ k ih =>
    rw [forRange_succ, ih (by omega)]
    have hk' : k < xs.length := hk
    have e1 : ((Go.len xs - 1) - (k : Int)).toNat = xs.length - (k + 1) := by
      unfold Go.len; omega
    have e2 : Go.idx xs (k : Int) = xs[k] := by
      unfold Go.idx; simp [List.getD_eq_getElem?_getD, hk']
    unfold Go.set
    rw [e1, e2, List.take_succ_eq_append_getElem hk', List.reverse_append]
    have e3 : xs.length - k = (xs.length - (k + 1)) + 1 := by omega
    rw [e3, List.replicate_succ', List.append_assoc, List.set_append_right _ _ (by simp)]
    simp

/-- `utils.SwapEndianness` reverses, for every byte string -/
theorem utils_SwapEndianness_eq (xs : List UInt8) : utils_SwapEndianness xs = xs.reverse := by
  unfold utils_SwapEndianness
  have := swap_loop xs (default : UInt8) xs.length (Nat.le_refl _)
  simp only [Nat.sub_self, List.replicate_zero, List.nil_append, List.take_length] at this
  exact this

theorem utils_SwapEndianness_eq_model (xs : List UInt8) :
    utils_SwapEndianness xs = Model.Codec.swapEndianness xs := utils_SwapEndianness_eq xs

theorem idx_natCast {α} [Inhabited α] (l : List α) (k : Nat) (hk : k < l.length) :
    Go.idx l (k : Int) = l[k] := by
  unfold Go.idx; simp [List.getD_eq_getElem?_getD, hk]

/-! ### `BigIntLEBytes` -/

/-- `big.Int.Bytes` reversed is the minimal little-endian encoding; truncated / zero-padded to
`len` bytes it is `natToLE len` -/
theorem natToLE_eq_pad (len n : Nat) :
    natToLE len n = (natToBEmin n).reverse.take len ++
      List.replicate (len - (natToBEmin n).reverse.length) 0 := by
  induction len generalizing n with
  | zero => simp [natToLE]
  | succ len ih =>
    rw [natToLE, natToBEmin]
    by_cases h : n = 0
    · subst h
      have := ih 0
      rw [natToBEmin] at this
      simp only [dite_true, List.reverse_nil, List.take_nil, List.length_nil, Nat.sub_zero,
        List.nil_append] at this ⊢
      rw [List.replicate_succ, ← this]
      rfl
    · rw [dif_neg h, List.reverse_append, ih (n / 256)]
      simp only [List.reverse_cons, List.reverse_nil, List.nil_append, List.take_succ_cons,
        List.cons_append, List.length_cons, Nat.add_sub_add_right]

/-- `utils.BigIntLEBytes`: the low 32 little-endian bytes of `|v|`, for every integer (also negative
ones and those that do not fit: `copy` truncates) -/
theorem utils_BigIntLEBytes_eq (v : Int) :
    utils_BigIntLEBytes v = Model.BabyJub.bigIntLEBytes v := by
  unfold utils_BigIntLEBytes Model.BabyJub.bigIntLEBytes
  rw [utils_SwapEndianness_eq, natToLE_eq_pad]
  unfold Go.copyInto Go.big.bytes Go.len
  generalize (natToBEmin v.natAbs).reverse = le
  simp only [List.length_replicate, Int.toNat_natCast, Int.toNat_zero, Nat.min_self, Nat.sub_zero,
    List.take_zero, List.nil_append, Nat.zero_add, List.drop_replicate]
  by_cases h : le.length ≤ 32
  · rw [Nat.min_eq_right h, List.take_of_length_le h, List.take_of_length_le (by omega)]; rfl
  · rw [Nat.min_eq_left (by omega), Nat.sub_self, Nat.sub_eq_zero_of_le (by omega)]
    rfl

/-! ### `SetBigIntFromLEBytes` -/

/-- `utils.SetBigIntFromLEBytes(v, b)`: returned value and final `*v` are the little-endian value of
`b`, for a slice of any length; the previous `*v` is irrelevant -/
theorem utils_SetBigIntFromLEBytes_eq (v : Int) (b : List UInt8) :
    utils_SetBigIntFromLEBytes v b = (((leToNat b : Nat) : Int), ((leToNat b : Nat) : Int)) := by
  simp only [utils_SetBigIntFromLEBytes, Go.big.setBytes, utils_SwapEndianness_eq,
    Lemmas.Conv.beToNat_reverse]

theorem utils_SetBigIntFromLEBytes_eq_model (v : Int) (b : List UInt8) :
    utils_SetBigIntFromLEBytes v b =
      (((Model.Codec.setBigIntFromLEBytes b : Nat) : Int),
        ((Model.Codec.setBigIntFromLEBytes b : Nat) : Int)) :=
  utils_SetBigIntFromLEBytes_eq v b

/-! ### range checks -/

theorem constants_Q_eq : Go.Ext.constants_Q = (I3.q : Int) := by decide +kernel
/-- the modulus compiled into `ff` is the `constants.Q` of the library -/
theorem ff_modulus_eq_constants_q : Gen.ff_modulus = Gen.constants_q := rfl
theorem ff_modulus_eq : Gen.ff_modulus = I3.q := by decide +kernel

/-! `big.Int.Cmp` against the three possible answers -/

theorem cmp_eq_neg_one (a b : Int) : (Go.big.cmp a b == -1) = decide (a < b) := by
  unfold Go.big.cmp
  split_ifs <;> simp_all
theorem cmp_eq_zero (a b : Int) : (Go.big.cmp a b == 0) = decide (a = b) := by
  unfold Go.big.cmp
  split_ifs <;> simp_all
  omega
theorem cmp_eq_one (a b : Int) : (Go.big.cmp a b == 1) = decide (b < a) := by
  unfold Go.big.cmp
  split_ifs <;> simp_all
  all_goals omega
theorem cmp_ne_neg_one (a b : Int) : (Go.big.cmp a b != -1) = decide (b ≤ a) := by
  unfold Go.big.cmp
  split_ifs <;> simp_all
theorem cmp_ge_zero (a b : Int) : decide (Go.big.cmp a b ≥ 0) = decide (b ≤ a) := by
  unfold Go.big.cmp
  split_ifs <;> simp_all

/-- `utils.CheckBigIntInField`: `0 ≤ a < q` -/
theorem utils_CheckBigIntInField_eq (a : Int) :
    utils_CheckBigIntInField a = Model.Mimc7.inField a := by
  unfold utils_CheckBigIntInField Model.Mimc7.inField
  rw [cmp_eq_neg_one, cmp_ne_neg_one, constants_Q_eq, Bool.and_comm]
  rfl

theorem checkArray_loop (arr : List Int) (f : Int → Unit → Option Bool × Unit)
    (hf : ∀ i u, f i u = if (!(utils_CheckBigIntInField (Go.idx arr i))) then (some false, ())
      else (none, ())) (k : Nat) (hk : k ≤ arr.length) :
    Go.forRangeRet 0 (k : Int) f () =
      (if (arr.take k).all Model.Mimc7.inField then none else some false, ()) := by
  induction k with
  | zero => simp [forRangeRet_zero]
  | succ k ih =>
    have hk' : k < arr.length := hk
    rw [forRangeRet_succ, ih (by omega), List.take_succ_eq_append_getElem hk', List.all_append]
    cases h : (arr.take k).all Model.Mimc7.inField
    · simp
    · simp only [hf, idx_natCast arr k hk', utils_CheckBigIntInField_eq]
      cases h2 : Model.Mimc7.inField arr[k] <;> simp [h2]

/-- `utils.CheckBigIntArrayInField`: every element is in `[0, q)` (the early `return false` is
`List.all`) -/
theorem utils_CheckBigIntArrayInField_eq (arr : List Int) :
    utils_CheckBigIntArrayInField arr = arr.all Model.Mimc7.inField := by
  unfold utils_CheckBigIntArrayInField Go.len
  rw [checkArray_loop arr _ (fun _ _ => rfl) arr.length (Nat.le_refl _), List.take_length]
  cases arr.all Model.Mimc7.inField <;> rfl

/-! ### element arrays -/

theorem fill_loop {α β} [Inhabited α] (l : List α) (g : α → β) (d : β) (f : Int → List β → List β)
    (hf : ∀ i o, f i o = Go.set o i (g (Go.idx l i))) (k : Nat) (hk : k ≤ l.length) :
    Go.forRange 0 (k : Int) f (List.replicate l.length d) =
      (l.take k).map g ++ List.replicate (l.length - k) d := by
  induction k with
  | zero => simp [forRange_zero]
  | succ k ih =>
    have hk' : k < l.length := hk
    rw [forRange_succ, ih (by omega), hf, idx_natCast l k hk', List.take_succ_eq_append_getElem hk']
    unfold Go.set
    have e3 : l.length - k = (l.length - (k + 1)) + 1 := by omega
    rw [e3, List.replicate_succ, Int.toNat_natCast,
      List.set_append_right _ _ (by simp [Nat.min_eq_left (Nat.le_of_lt hk')])]
    simp [Nat.min_eq_left (Nat.le_of_lt hk')]
    rw [List.take_succ_eq_append_getElem (by simpa using hk')]
    simp

theorem fill_loop_full {α β} [Inhabited α] (l : List α) (g : α → β) (d : β)
    (f : Int → List β → List β) (hf : ∀ i o, f i o = Go.set o i (g (Go.idx l i))) :
    Go.forRange 0 (l.length : Int) f (List.replicate l.length d) = l.map g := by
  rw [fill_loop l g d f hf l.length (Nat.le_refl _)]
  simp

/-- `utils.BigIntArrayToElementArray`: element-wise reduction modulo `q` (any integers) -/
theorem utils_BigIntArrayToElementArray_eq (bi : List Int) :
    utils_BigIntArrayToElementArray bi = bi.map (fun v => imod v I3.q) := by
  unfold utils_BigIntArrayToElementArray Go.make Go.len
  rw [Int.toNat_natCast]
  exact (fill_loop_full bi (fun v => imod v Gen.ff_modulus) _ _ (fun _ _ => rfl)).trans
    (by rw [ff_modulus_eq])

/-- `utils.ElementArrayToBigIntArray`: the represented values -/
theorem utils_ElementArrayToBigIntArray_eq (e : List Nat) :
    utils_ElementArrayToBigIntArray e = e.map (fun v : Nat => (v : Int)) := by
  unfold utils_ElementArrayToBigIntArray Go.make Go.len
  rw [Int.toNat_natCast]
  exact fill_loop_full e (fun v : Nat => (v : Int)) _ _ (fun _ _ => rfl)

open I3.Model.BabyJub

/-- the constants regenerated from the Go source -/
abbrev K : Consts := I3.Inst.bjConsts

/-! ## babyjub.go: points -/

theorem babyjub_NewPoint_eq : babyjub_NewPoint = ((0 : Int), (1 : Int)) := rfl

theorem babyjub_NewPointProjective_eq : babyjub_NewPointProjective = (0, 1 % K.q, 1 % K.q) := rfl

theorem babyjub_Point_Projective_eq (p : Int × Int) :
    babyjub_Point_Projective p = projective K p := rfl

theorem babyjub_Point_Set_eq (p c : Int × Int) : babyjub_Point_Set p c = (c, c) := rfl

theorem babyjub_PointProjective_Affine_eq (p : Nat × Nat × Nat) :
    babyjub_PointProjective_Affine p = affine K p := by
  obtain ⟨x, y, z⟩ := p
  by_cases h : z = 0
  · subst h; rfl
  · have hb : ¬ ((z == 0) = true) := by simpa using h
    show (if (z == 0) = true then _ else _) = (if z = 0 then _ else _)
    rw [if_neg h, if_neg hb]
    rfl

/-- `p.Add(q, o)`: returned value and final receiver are the model's add-2008-bbjlp sum of `q` and
`o`; the previous content of the receiver `p` is never read (also when `p` is `q` and/or `o`) -/
theorem babyjub_PointProjective_Add_eq (p q o : Nat × Nat × Nat) :
    babyjub_PointProjective_Add p q o = (addProj K q o, addProj K q o) := rfl

/-! ## `Point.Mul` -/

/-- one iteration of the loop of `Point.Mul` on the pair (accumulator, running double) -/
def mulBody (s : Int) (i : Int) (st : PPoint × PPoint) : PPoint × PPoint :=
  (if Go.big.bit s i == 1 then addProj K st.1 st.2 else st.1, addProj K st.2 st.2)

theorem babyjub_Point_Mul_unfold (p : Int × Int) (s : Int) (q : Int × Int) :
    babyjub_Point_Mul p s q =
      (babyjub_PointProjective_Affine (Go.forRange 0 (Go.big.bitLen s) (mulBody s)
          ((0, 1 % K.q, 1 % K.q), projective K q)).1,
       babyjub_PointProjective_Affine (Go.forRange 0 (Go.big.bitLen s) (mulBody s)
          ((0, 1 % K.q, 1 % K.q), projective K q)).1) := rfl

theorem bit_eq_intBit (s : Int) (i : Nat) : Go.big.bit s (i : Int) = intBit s i := rfl

theorem mul_loop (s : Int) : ∀ (n i : Nat) (res e : PPoint),
    (loopFrom (mulBody s) n i (res, e)).1 = mulLoop K s n i res e := by
  intro n
  induction n with
  | zero => intro i res e; rfl
  | succ n ih =>
    intro i res e
    have hb : mulBody s (i : Int) (res, e) =
        (if intBit s i = 1 then addProj K res e else res, addProj K e e) := by
      simp only [mulBody, bit_eq_intBit, beq_iff_eq]
    rw [loopFrom, mulLoop, hb]
    exact ih _ _ _

/-- `p.Mul(s, q)`: returned value and final receiver are the model's double-and-add, for EVERY
integer scalar (negative ones: `big.Int.Bit` is two's complement, `BitLen` of the absolute value —
the same definitions on both sides) and every previous content of the receiver `p` -/
theorem babyjub_Point_Mul_eq (p : Int × Int) (s : Int) (q : Int × Int) :
    babyjub_Point_Mul p s q = (mul K s q, mul K s q) := by
  rw [babyjub_Point_Mul_unfold, babyjub_PointProjective_Affine_eq]
  have : Go.big.bitLen s = ((intBitLen s : Nat) : Int) := rfl
  rw [this, forRange_eq_loopFrom, mul_loop]
  rfl

/-! ## membership -/

theorem babyjub_Point_InCurve_eq (p : Int × Int) : babyjub_Point_InCurve p = inCurve K p := by
  unfold babyjub_Point_InCurve inCurve
  simp only [cmp_eq_zero]
  rfl

theorem babyjub_SubOrder_eq : Go.Ext.babyjub_SubOrder = (K.subOrder : Int) := by decide +kernel
theorem babyjub_Order_eq : Go.Ext.babyjub_Order = (K.order : Int) := rfl
theorem babyjub_B8_eq : Go.Ext.babyjub_B8 = K.b8 := rfl

theorem babyjub_Point_InSubGroup_eq (p : Int × Int) :
    babyjub_Point_InSubGroup p = inSubGroup K p := by
  unfold babyjub_Point_InSubGroup inSubGroup
  rw [babyjub_Point_InCurve_eq]
  cases inCurve K p
  · simp only [Bool.not_false, if_true]
  · simp only [Bool.not_true, Bool.false_eq_true, if_false, babyjub_Point_Mul_eq,
      babyjub_SubOrder_eq, cmp_eq_zero]
    rfl

/-! ## compression -/

theorem rsh_Q_one : Go.big.rsh Go.Ext.constants_Q 1 = ((K.q / 2 : Nat) : Int) := by decide +kernel

theorem babyjub_PointCoordSign_eq (c : Int) : babyjub_PointCoordSign c = pointCoordSign K c := by
  unfold babyjub_PointCoordSign pointCoordSign
  rw [cmp_eq_one, rsh_Q_one]

/-! ### sign packing -/

theorem set_last {α} (l : List α) (n : Nat) (v : α) (h : l.length = n + 1) :
    l.set n v = l.take n ++ [v] := by
  rw [List.set_eq_take_append_cons_drop, if_pos (by omega), List.drop_of_length_le (by omega)]

theorem babyjub_PackSignY_eq (sign : Bool) (y : Int) :
    babyjub_PackSignY sign y = packSignY sign y := by
  unfold babyjub_PackSignY packSignY
  rw [utils_BigIntLEBytes_eq]
  have hl : (bigIntLEBytes y).length = 31 + 1 := Lemmas.Bytes.natToLE_length 32 _
  cases sign
  · rfl
  · simp only [if_true]
    exact set_last _ 31 _ hl

/-- `UnpackSignY` on a `[32]byte` (the Go parameter type: `b.length = 32` is the type's invariant,
not a restriction; on longer lists the model ignores the bytes after the 32nd, the translated code
does not — see the `example` below). -/
theorem babyjub_UnpackSignY_eq (b : List UInt8) (hb : b.length = 32) :
    babyjub_UnpackSignY b = ((unpackSignY b).1, ((unpackSignY b).2 : Int)) := by
  unfold babyjub_UnpackSignY unpackSignY
  have hidx : Go.idx b 31 = b.getD 31 0 := rfl
  simp only [hidx, utils_SetBigIntFromLEBytes_eq]
  cases hs : ((b.getD 31 0 &&& 128) != 0)
  · simp only [Bool.false_eq_true, if_false]
    rw [Lemmas.Bytes.and80_zero_and7F _ hs, Lemmas.Bytes.take_append_getD b 31 0 hb]
  · simp only [if_true]
    unfold Go.set
    rw [show (31 : Int).toNat = 31 from rfl, set_last b 31 _ hb]

/-- the length hypothesis cannot be dropped: 33 bytes -/
example : babyjub_UnpackSignY (List.replicate 32 0 ++ [1]) = (false, 2 ^ 256) ∧
    unpackSignY (List.replicate 32 0 ++ [1]) = (false, 0) := by decide +kernel

theorem babyjub_Point_Compress_eq (p : Int × Int) : babyjub_Point_Compress p = compress K p := by
  unfold babyjub_Point_Compress compress
  rw [babyjub_PointCoordSign_eq, babyjub_PackSignY_eq]

/-! ### `PointFromSignAndY`, `Decompress` -/

/-- the Go error message of each model error -/
def errMsg : Err → String
  | .yTooBig => "p.y >= Q"
  | .divZero => "division by 0"
  | .notSquare => "x is not a square mod q"
  | .signOfZero => "x is zero but sign bit is set"

/-- the Go result `(*Point, error)` (nil ↦ zero value) of a model result -/
def ofExcept : Except Err APoint → (Int × Int) × Option String
  | .ok p => (p, none)
  | .error e => (default, some (errMsg e))

/-- the part of `PointFromSignAndY` after the call of `ModSqrt` (`x` the argument, `o` the result) -/
def pfsyTail (sign : Bool) (y x : Int) (o : Option Int) : (Int × Int) × Option String :=
  if o.isNone then (default, some "x is not a square mod q")
  else if (sign && (Go.big.sign (o.getD x) == 0)) then
    (default, some "x is zero but sign bit is set")
  else
    let p : Int × Int :=
      if ((sign && !(babyjub_PointCoordSign (o.getD x))) ||
          ((!sign) && babyjub_PointCoordSign (o.getD x))) then
        ((o.getD x) * Go.Ext.constants_MinusOne, y)
      else (o.getD x, y)
    ((Go.big.mod p.1 Go.Ext.constants_Q, p.2), none)

/-- the argument of `ModSqrt` -/
def pfsyX (y : Int) : Int :=
  let y2 := Go.big.mod (y * y) Go.Ext.constants_Q
  let xb := Go.Ext.babyjub_A - Go.big.mod (Go.Ext.babyjub_D * y2) Go.Ext.constants_Q
  Go.big.mod ((1 - y2) * ((Go.big.modInverse xb Go.Ext.constants_Q).getD xb)) Go.Ext.constants_Q

theorem babyjub_PointFromSignAndY_unfold (sign : Bool) (y : Int) :
    babyjub_PointFromSignAndY sign y =
      if (decide ((Go.big.cmp y Go.Ext.constants_Q) ≥ (0 : Int))) then
        (default, some "p.y >= Q")
      else if ((Go.big.cmp (Go.Ext.babyjub_A - Go.big.mod (Go.Ext.babyjub_D *
          Go.big.mod (y * y) Go.Ext.constants_Q) Go.Ext.constants_Q) (0 : Int)) == (0 : Int)) then
        (default, some "division by 0")
      else pfsyTail sign y (pfsyX y) (Go.Ext.modSqrt (pfsyX y) Go.Ext.constants_Q) := by
  unfold babyjub_PointFromSignAndY pfsyTail pfsyX
  dsimp only
  split_ifs <;> rfl

theorem imod_emod (v : Int) (m : Nat) : imod (v % (m : Int)) m = imod v m := by
  unfold imod; rw [Int.emod_emod_of_dvd _ (Int.dvd_refl _)]

theorem big_mod_Q (v : Int) : Go.big.mod v Go.Ext.constants_Q = ((imod v K.q : Nat) : Int) :=
  (Lemmas.Conv.imod_cast v (by decide +kernel : 0 < K.q)).symm

theorem invMod_zero_q : invMod 0 K.q = 0 := by decide +kernel

/-- the value handed to `ModSqrt` is the model's (when `ModInverse` returns nil, i.e. `xb ≡ 0`,
Go keeps `xb`, the model uses `0⁻¹ = 0`; the products agree modulo `q`) -/
theorem imod_pfsyX (y : Int) :
    imod (pfsyX y) K.q =
      imod ((1 - (y * y) % (K.q : Int)) * ((invMod (imod ((K.a : Int) -
        ((K.d : Int) * ((y * y) % (K.q : Int))) % (K.q : Int)) K.q) K.q : Nat) : Int)) K.q := by
  unfold pfsyX Go.big.modInverse
  dsimp only
  have hQ : Go.Ext.constants_Q = (K.q : Int) := rfl
  have hA : Go.Ext.babyjub_A = (K.a : Int) := rfl
  have hD : Go.Ext.babyjub_D = (K.d : Int) := rfl
  rw [hQ, hA, hD]
  unfold Go.big.mod
  rw [imod_emod, Int.toNat_natCast]
  generalize (K.a : Int) - ((K.d : Int) * ((y * y) % (K.q : Int))) % (K.q : Int) = xb
  by_cases h : imod xb K.q = 0
  · rw [if_pos h, h, invMod_zero_q, Option.getD_none]
    have hdvd : (K.q : Int) ∣ xb := by
      have := Lemmas.Conv.imod_cast xb (by decide +kernel : 0 < K.q)
      rw [h] at this
      exact Int.dvd_of_emod_eq_zero this.symm
    unfold imod
    rw [Int.mul_emod, Int.emod_eq_zero_of_dvd hdvd]
    simp
  · rw [if_neg h, Option.getD_some]

theorem K_q_eq : K.q = Gen.constants_q := rfl

theorem modSqrt_Q (x : Int) :
    Go.Ext.modSqrt x Go.Ext.constants_Q = (Inst.sqrtQ (imod x K.q)).map (fun r : Nat => (r : Int)) := by
  have h : ∀ p : Int, p = Go.Ext.constants_Q → Go.Ext.modSqrt x p =
      (Inst.sqrtQ (imod x Gen.constants_q)).map (fun r : Nat => (r : Int)) := by
    intro p hp
    unfold Go.Ext.modSqrt
    rw [if_pos hp]
    cases Inst.sqrtQ (imod x Gen.constants_q) <;> rfl
  rw [h _ rfl, K_q_eq]

theorem modSqrt_Kq (x : Int) :
    Go.Ext.modSqrt x (K.q : Int) = (Inst.sqrtQ (imod x K.q)).map (fun r : Nat => (r : Int)) :=
  modSqrt_Q x

theorem pfsyTail_none (sign : Bool) (y x : Int) :
    pfsyTail sign y x none = ofExcept (.error .notSquare) := rfl

theorem pfsyTail_some (sign : Bool) (y x : Int) (r : Nat) :
    pfsyTail sign y x (some (r : Int)) =
      ofExcept (if sign && r == 0 then .error .signOfZero
        else .ok (((imod (if sign != pointCoordSign K (r : Int) then -(r : Int) else (r : Int)) K.q
          : Nat) : Int), y)) := by
  unfold pfsyTail
  simp only [Option.isNone_some, Bool.false_eq_true, if_false, Option.getD_some,
    babyjub_PointCoordSign_eq, big_mod_Q]
  have hs : (Go.big.sign (r : Int) == 0) = (r == 0) := by
    unfold Go.big.sign
    by_cases h : r = 0
    · subst h; rfl
    · have h1 : ¬ ((r : Int) < 0) := by omega
      have h2 : ¬ ((r : Int) = 0) := by omega
      rw [if_neg h1, if_neg h2]
      simp [h]
  rw [hs]
  have hm1 : (r : Int) * Go.Ext.constants_MinusOne = -(r : Int) := by
    show (r : Int) * (-1) = _
    omega
  rw [hm1]
  cases sign <;> cases pointCoordSign K (r : Int) <;> cases (r == 0) <;> rfl

/-- `PointFromSignAndY(sign, y)` for every sign and EVERY integer `y`: `.ok p ↦ (p, nil)`,
`.error e ↦ (nil, errors.New(errMsg e))` -/
theorem babyjub_PointFromSignAndY_eq (sign : Bool) (y : Int) :
    babyjub_PointFromSignAndY sign y = ofExcept (pointFromSignAndY K Inst.sqrtQ sign y) := by
  rw [babyjub_PointFromSignAndY_unfold]
  unfold pointFromSignAndY
  dsimp only
  rw [cmp_ge_zero, cmp_eq_zero]
  have hQ : Go.Ext.constants_Q = (K.q : Int) := rfl
  have hA : Go.Ext.babyjub_A = (K.a : Int) := rfl
  have hD : Go.Ext.babyjub_D = (K.d : Int) := rfl
  by_cases h1 : y ≥ (K.q : Int)
  · rw [if_pos (by rw [hQ]; simpa using h1), if_pos h1]; rfl
  · rw [if_neg (by rw [hQ]; simpa using h1), if_neg h1]
    unfold Go.big.mod
    rw [hQ, hA, hD]
    by_cases h2 : (K.a : Int) - ((K.d : Int) * ((y * y) % (K.q : Int))) % (K.q : Int) = 0
    · rw [if_pos (decide_eq_true h2), if_pos h2]; rfl
    · rw [if_neg (by rw [decide_eq_true_eq]; exact h2), if_neg h2, modSqrt_Kq, imod_pfsyX]
      cases Inst.sqrtQ _ with
      | none => exact pfsyTail_none _ _ _
      | some r => exact pfsyTail_some _ _ _ r

/-- the Go result `(*Point, error)` plus the receiver after the call -/
def ofExceptRecv (recv : Int × Int) : Except Err APoint → (Int × Int) × Option String × (Int × Int)
  | .ok p => (p, none, p)
  | .error e => (default, some (errMsg e), recv)

theorem decompress_def (sqrtFn : Nat → Option Nat) (b : Bytes) :
    decompress K sqrtFn b = pointFromSignAndY K sqrtFn (unpackSignY b).1 ((unpackSignY b).2 : Int) := rfl

/-- `Point.Decompress` on a `[32]byte` (`b.length = 32` is the Go parameter type): result, error and
receiver after the call (unchanged on error, the result on success). -/
theorem babyjub_Point_Decompress_eq (p : Int × Int) (b : List UInt8) (hb : b.length = 32) :
    babyjub_Point_Decompress p b = ofExceptRecv p (decompress K Inst.sqrtQ b) := by
  -- the definition is unfolded at FUNCTION level: the kernel must never compare
  -- `babyjub_Point_Decompress p b` with its `match babyjub_UnpackSignY b with …` body (it would
  -- evaluate the byte operations of `UnpackSignY` on the open term `b`)
  have hf := @rfl _ babyjub_Point_Decompress
  conv at hf => rhs; delta babyjub_Point_Decompress
  rw [hf]
  beta_reduce
  rw [babyjub_UnpackSignY_eq b hb, decompress_def]
  clear hf
  generalize (unpackSignY b).1 = sg
  generalize ((unpackSignY b).2 : Int) = y
  -- `sg`, `y` must stay VARIABLES in the kernel term (an integer comparison of `↑(n : ℕ)` with the
  -- 254-bit literal `Q` on an open `n` makes the kernel recurse `Q` times): auxiliary lemma
  as_aux_lemma =>
    simp only []
    rw [babyjub_PointFromSignAndY_eq]
    generalize pointFromSignAndY K Inst.sqrtQ sg y = r
    cases r <;> rfl

open I3.Spec I3.Spec.BJJ I3.Lemmas.CurveBridge I3.Lemmas.Compress

/-! ### reading results back -/

theorem errMsg_injective : Function.Injective errMsg := by
  intro a b h
  cases a <;> cases b <;> first | rfl | (exact absurd h (by decide))

theorem ofExcept_ok_iff (r : Except Err APoint) (p : Int × Int) :
    ofExcept r = (p, none) ↔ r = .ok p := by
  cases r with
  | error e => simp [ofExcept]
  | ok a => simp [ofExcept]

theorem ofExcept_error_iff (r : Except Err APoint) (e : Err) :
    (ofExcept r).2 = some (errMsg e) ↔ r = .error e := by
  cases r with
  | error e' =>
    simp only [ofExcept, Option.some.injEq, Except.error.injEq]
    exact ⟨fun h => errMsg_injective h, fun h => by rw [h]⟩
  | ok a => simp [ofExcept]

theorem ofExceptRecv_ok_iff (recv : Int × Int) (r : Except Err APoint) (p : Int × Int) :
    (ofExceptRecv recv r).2.1 = none ∧ (ofExceptRecv recv r).1 = p ↔ r = .ok p := by
  cases r with
  | error e => simp [ofExceptRecv]
  | ok a => simp [ofExceptRecv]

theorem ofExceptRecv_error_iff (recv : Int × Int) (r : Except Err APoint) (e : Err) :
    (ofExceptRecv recv r).2.1 = some (errMsg e) ↔ r = .error e := by
  cases r with
  | error e' =>
    simp only [ofExceptRecv, Option.some.injEq, Except.error.injEq]
    exact ⟨fun h => errMsg_injective h, fun h => by rw [h]⟩
  | ok a => simp [ofExceptRecv]

/-- `a - d y² ≠ 0` modulo `q` for EVERY integer `y` (negative, unreduced): the "division by 0"
branch of the model is dead for every input and every square-root routine -/
theorem pointFromSignAndY_ne_divZero (sqrtFn : ℕ → Option ℕ) (sign : Bool) (y : ℤ) :
    pointFromSignAndY K sqrtFn sign y ≠ .error .divZero := by
  unfold pointFromSignAndY
  simp only [k_q, k_a', k_d']
  split_ifs with h1 h2
  · simp
  · exfalso
    apply den_ne_zero ((y : ℤ) : F)
    have hxb : ((((I3.ja : ℕ) : ℤ) - ((I3.jd : ℕ) : ℤ) * (y * y % ((I3.q : ℕ) : ℤ)) %
        ((I3.q : ℕ) : ℤ) : ℤ) : F) = (curve.a - curve.d * ((y : ℤ) : F) ^ 2 : F) := by
      rw [curve_a, curve_d]
      simp only [Int.cast_sub, Int.cast_mul, ZMod.intCast_mod, Int.cast_natCast]
      ring
    rw [← hxb, h2, Int.cast_zero]
  · split
    · simp
    · split_ifs <;> simp

end I3.GoBridge
