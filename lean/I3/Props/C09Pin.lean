/-
  I3.Props.C09 (source pin) — the Go functions mirrored by the hand-written models of C09 still have the
  source text against which those models were validated, and no function was added to or removed
  from their packages.  Regenerated fingerprints: I3.Gen.fingerprints (tools/gen_pins).
-/
import I3.Gen.Fingerprints
import I3.Model.SourcePin
namespace I3.Props.C09
open I3.SourcePin

def modelled : List String := [
  "ffg.BatchInvert",
  "ffg.Butterfly",
  "ffg.Element.Add",
  "ffg.Element.Div",
  "ffg.Element.Double",
  "ffg.Element.Equal",
  "ffg.Element.Exp",
  "ffg.Element.FromMont",
  "ffg.Element.Halve",
  "ffg.Element.Inverse",
  "ffg.Element.IsZero",
  "ffg.Element.Mul",
  "ffg.Element.Neg",
  "ffg.Element.Set",
  "ffg.Element.SetOne",
  "ffg.Element.SetUint64",
  "ffg.Element.SetZero",
  "ffg.Element.Square",
  "ffg.Element.Sub",
  "ffg.Element.ToMont",
  "ffg.MulBy13",
  "ffg.MulBy3",
  "ffg.MulBy5",
  "ffg.NewElement",
  "ffg.NewElementFromUint64",
  "ffg.One",
  "ffg._addGeneric",
  "ffg._butterflyGeneric",
  "ffg._doubleGeneric",
  "ffg._fromMontGeneric",
  "ffg._mulGeneric",
  "ffg._negGeneric",
  "ffg._reduceGeneric",
  "ffg._subGeneric",
  "ffg.add",
  "ffg.double",
  "ffg.fromMont",
  "ffg.madd0",
  "ffg.mul",
  "ffg.mulByConstant",
  "ffg.neg",
  "ffg.reduce",
  "ffg.sub",
  "tree.<layout>@ffg",
  "tree.<layout>@root",
  "ffg.<decls>@arith.go",
  "ffg.<decls>@asm.go",
  "ffg.<decls>@asm_noadx.go",
  "ffg.<decls>@doc.go",
  "ffg.<decls>@element.go",
  "ffg.<decls>@element_ops_amd64.go",
  "ffg.<decls>@element_ops_noasm.go"
]

theorem source_pinned : modelled.all (same I3.Gen.fingerprints) = true := by decide +kernel

theorem function_set_pinned : (["ffg."] : List String).all (sameKeys I3.Gen.fingerprints) = true := by
  decide +kernel

theorem modelled_nonempty : 52 = modelled.length := by decide

end I3.Props.C09
