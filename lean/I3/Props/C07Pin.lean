/-
  I3.Props.C07 (source pin) — the Go functions mirrored by the hand-written models of C07 still have the
  source text against which those models were validated, and no function was added to or removed
  from their packages.  Regenerated fingerprints: I3.Gen.fingerprints (tools/gen_pins).
-/
import I3.Gen.Fingerprints
import I3.Model.SourcePin
namespace I3.Props.C07
open I3.SourcePin

def modelled : List String := [
  "mimc7.Hash",
  "mimc7.HashBytes",
  "mimc7.HashGeneric",
  "poseidon.Hash",
  "poseidon.HashEx",
  "poseidon.HashWithState",
  "poseidon.HashWithStateEx",
  "utils.CheckBigIntArrayInField",
  "utils.CheckBigIntInField",
  "mimc7.<decls>@mimc7.go",
  "poseidon.<decls>@constants.go",
  "poseidon.<decls>@poseidon.go",
  "utils.<decls>@utils.go"
]

theorem source_pinned : modelled.all (same I3.Gen.fingerprints) = true := by decide +kernel

theorem function_set_pinned : (["mimc7.", "poseidon.", "utils."] : List String).all (sameKeys I3.Gen.fingerprints) = true := by
  decide +kernel

theorem modelled_nonempty : 13 = modelled.length := by decide

end I3.Props.C07
