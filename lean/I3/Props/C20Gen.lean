/-
  I3.Props.C20Gen — C20 for the definitions REGENERATED from the Go source by translator T6:
  `keccak256.Hash(data...)` (I3.Gen.Go.keccak256_Hash: write every slice into the external sponge object,
  then `Sum(nil)`) and `babyjub.Blake512` (I3.Gen.Go.babyjub_Blake512).  They equal the one-shot references
  for every input, for every way of slicing it — which is also what justifies that the CALLERS of these two
  functions in the translated code (mimc7, eddsa) see them as the one-shot functions `I3.Go.Ext.keccak256`,
  `I3.Go.Ext.blake512`.
-/
import I3.Props.C20
import I3.Props.C20Blake
import I3.Gen.GoKeccak
import I3.Gen.GoBabyjub

namespace I3.Props.C20Gen
open I3 I3.Gen.Go

theorem map_getD_range {α} (l : List α) (d : α) : (List.range l.length).map (fun k => l.getD k d) = l := by
  apply List.ext_getElem
  · simp
  · intro i h1 h2
    simp at h1
    simp [List.getD, h1]

/-- a Go `for _, x := range l { s = f(x, s) }` loop, as translated, is a left fold over the slice. -/
theorem forRange_idx_foldl {α σ} [Inhabited α] (l : List α) (f : α → σ → σ) (s : σ) :
    I3.Go.forRange (0 : Int) (I3.Go.len l) (fun i s => f (I3.Go.idx l i) s) s = l.foldl (fun s x => f x s) s := by
  unfold I3.Go.forRange I3.Go.len I3.Go.idx
  have h : ((l.length : Int) - 0).toNat = l.length := by omega
  rw [h]
  have h2 : l.foldl (fun s x => f x s) s
      = ((List.range l.length).map (fun k => l.getD k default)).foldl (fun s x => f x s) s := by
    rw [map_getD_range]
  rw [h2, List.foldl_map]
  congr 1
  funext s k
  simp

/-- the generated `keccak256.Hash` is the streaming model of the Go wrapper … -/
theorem keccak_gen_eq_stream (slices : List Bytes) : keccak256_Hash slices = Keccak.hashSlices slices := by
  unfold keccak256_Hash Keccak.hashSlices
  have h := forRange_idx_foldl slices (fun d (h : I3.Go.Ext.Hasher) => I3.Go.Ext.Hasher.write h d) I3.Go.Ext.Hasher.newKeccak256
  simp only [] at h ⊢
  rw [h]
  have key : ∀ (l : List Bytes) (s : Keccak.Sponge),
      l.foldl (fun (h : I3.Go.Ext.Hasher) x => I3.Go.Ext.Hasher.write h x) (.keccak s) = .keccak (l.foldl Keccak.Sponge.write s) := by
    intro l
    induction l with
    | nil => intro s; rfl
    | cons x xs ih => intro s; simp only [List.foldl_cons, I3.Go.Ext.Hasher.write]; exact ih _
  show I3.Go.Ext.Hasher.sum (slices.foldl _ (.keccak Keccak.Sponge.init)) default = _
  rw [key]
  simp [I3.Go.Ext.Hasher.sum]
  rfl

/-- … hence Keccak-256 of the concatenation, for every list of slices (any number, any lengths, empty ones). -/
theorem keccak_gen_eq (slices : List Bytes) : keccak256_Hash slices = Keccak.keccak256 slices.flatten := by
  rw [keccak_gen_eq_stream]; exact I3.Props.C20.keccak_stream_eq slices

/-- the one-shot function that translated callers use is the generated wrapper. -/
theorem keccak_extern_justified (slices : List Bytes) : I3.Go.Ext.keccak256 slices = keccak256_Hash slices := by
  rw [keccak_gen_eq]; rfl

/-- slicing does not matter. -/
theorem keccak_gen_split_independent (s1 s2 : List Bytes) (h : s1.flatten = s2.flatten) :
    keccak256_Hash s1 = keccak256_Hash s2 := by
  rw [keccak_gen_eq, keccak_gen_eq, h]

theorem keccak_gen_digest_length (slices : List Bytes) : (keccak256_Hash slices).length = 32 := by
  rw [keccak_gen_eq]; exact I3.Props.C20.keccak_digest_length _

/-- the generated `babyjub.Blake512` is BLAKE-512 of the message (the `panic` branch is dead: `Write` never fails). -/
theorem blake_gen_eq (m : Bytes) : babyjub_Blake512 m = Blake.blake512 m := by
  have h : babyjub_Blake512 m = Model.BlakeStream.blake512Stream m := by
    unfold babyjub_Blake512 Model.BlakeStream.blake512Stream
    simp [I3.Go.Ext.Hasher.newBlake512, I3.Go.Ext.Hasher.write, I3.Go.Ext.Hasher.sum]
    rfl
  rw [h]; exact I3.Props.C20.blake_stream_eq_all m

theorem blake_extern_justified (m : Bytes) : I3.Go.Ext.blake512 m = babyjub_Blake512 m := by
  rw [blake_gen_eq]; rfl

theorem blake_gen_digest_length (m : Bytes) : (babyjub_Blake512 m).length = 64 := by
  rw [blake_gen_eq]; exact I3.Props.C20.blake_digest_length m

end I3.Props.C20Gen
