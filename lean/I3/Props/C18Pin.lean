/-
  I3.Props.C18 (source pin) — the Go functions mirrored by the hand-written models of C18 still have the
  source text against which those models were validated, and no function was added to or removed
  from their packages.  Regenerated fingerprints: I3.Gen.fingerprints (tools/gen_pins).
-/
import I3.Gen.Fingerprints
import I3.Model.SourcePin
namespace I3.Props.C18
open I3.SourcePin

def modelled : List String := [
  "ff.Element.Exp",
  "ff.Element.Legendre",
  "ff.Element.Sqrt",
  "ffg.Element.Exp",
  "ffg.Element.Legendre",
  "ffg.Element.Sqrt",
  "tree.<layout>@ff",
  "tree.<layout>@ffg",
  "tree.<layout>@root",
  "ff.<asm>@element_mul_adx_amd64.s",
  "ff.<asm>@element_mul_amd64.s",
  "ff.<asm>@element_ops_amd64.s",
  "ff.<decls>@arith.go",
  "ff.<decls>@asm.go",
  "ff.<decls>@asm_noadx.go",
  "ff.<decls>@doc.go",
  "ff.<decls>@element.go",
  "ff.<decls>@element_ops_amd64.go",
  "ff.<decls>@element_ops_noasm.go",
  "ffg.<decls>@arith.go",
  "ffg.<decls>@asm.go",
  "ffg.<decls>@asm_noadx.go",
  "ffg.<decls>@doc.go",
  "ffg.<decls>@element.go",
  "ffg.<decls>@element_ops_amd64.go",
  "ffg.<decls>@element_ops_noasm.go"
]

theorem source_pinned : modelled.all (same I3.Gen.fingerprints) = true := by decide +kernel

theorem function_set_pinned : (["ff.", "ffg."] : List String).all (sameKeys I3.Gen.fingerprints) = true := by
  decide +kernel

theorem modelled_nonempty : 26 = modelled.length := by decide

end I3.Props.C18
