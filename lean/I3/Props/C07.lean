/-
  I3.Props.C07 — hash entry points reject out-of-domain inputs instead of reducing them.
  Property theorems about I3.Model.Poseidon.hashWithStateEx and I3.Model.Mimc7.{hash,hashGeneric,
  hashBytes}; helper lemmas live in I3.Lemmas.Guards.  Each theorem is followed by an `example`
  on concrete values; the Poseidon ones use the production instance `I3.Inst.poseidonEx`
  (BN254 modulus, x^5, tables regenerated from /repo).
-/
import I3.Lemmas.Guards
import I3.Model.Instances
namespace I3.Props.C07
open I3 I3.Lemmas.Guards
open I3.Model.Poseidon (hashWithStateEx tablesOk Tables permute)

attribute [local instance] I3.Lemmas.Bytes.exceptDecEq

/-! ## Poseidon -/

section poseidon
variable (m e : Nat) (tables : Nat → Option Tables) (nRoundsP : List Nat)
  (inp : List Int) (st nOuts : Int)

/-- 2a. first guard: empty or too long. -/
theorem poseidon_badLen (h : inp.length = 0 ∨ nRoundsP.length < inp.length) :
    hashWithStateEx m e tables nRoundsP inp st nOuts = .error .badLen := by
  have c1 : inp.length = 0 ∨ inp.length > nRoundsP.length := h
  simp only [hashWithStateEx, c1, if_true]

/-- 2b. second guard: some element negative or `≥ m` (whatever its position). -/
theorem poseidon_notInField (h1 : 1 ≤ inp.length) (h2 : inp.length ≤ nRoundsP.length)
    (h : ∃ x ∈ inp, x < 0 ∨ (m : Int) ≤ x) :
    hashWithStateEx m e tables nRoundsP inp st nOuts = .error .notInField := by
  have c1 : ¬ (inp.length = 0 ∨ inp.length > nRoundsP.length) := by omega
  have c2 : ¬ inp.all (Model.Poseidon.inField m) = true := by
    rw [all_inField_iff]
    obtain ⟨x, hx, hbad⟩ := h
    intro hall
    have := hall x hx
    omega
  have c2' : inp.all (Model.Poseidon.inField m) = false := Bool.eq_false_iff.2 c2
  simp only [hashWithStateEx, c1, c2', if_false, Bool.not_false, if_true]

/-- 2c. third guard: requested output count outside `1 .. len+1`. -/
theorem poseidon_badNOuts (h1 : 1 ≤ inp.length) (h2 : inp.length ≤ nRoundsP.length)
    (h3 : ∀ x ∈ inp, 0 ≤ x ∧ x < (m : Int)) (h : nOuts < 1 ∨ (inp.length : Int) + 1 < nOuts) :
    hashWithStateEx m e tables nRoundsP inp st nOuts = .error .badNOuts := by
  have c1 : ¬ (inp.length = 0 ∨ inp.length > nRoundsP.length) := by omega
  have c2 : inp.all (Model.Poseidon.inField m) = true := (all_inField_iff m inp).2 h3
  have c3 : nOuts < 1 ∨ nOuts > ((inp.length + 1 : Nat) : Int) := by omega
  simp only [hashWithStateEx, c1, c2, c3, if_false, if_true, Bool.not_true, Bool.false_eq_true]

/-- 2d. fourth guard: initial state negative or `≥ m`. -/
theorem poseidon_stateNotInField
    (htab : ∀ t, 2 ≤ t → t ≤ nRoundsP.length + 1 →
      ∃ tab rp, tables t = some tab ∧ nRoundsP[t - 2]? = some rp ∧ tablesOk tab t rp = true)
    (h1 : 1 ≤ inp.length) (h2 : inp.length ≤ nRoundsP.length)
    (h3 : ∀ x ∈ inp, 0 ≤ x ∧ x < (m : Int)) (h4 : 1 ≤ nOuts) (h5 : nOuts ≤ (inp.length : Int) + 1)
    (h : st < 0 ∨ (m : Int) ≤ st) :
    hashWithStateEx m e tables nRoundsP inp st nOuts = .error .stateNotInField := by
  obtain ⟨tab, rp, -, -, -, heq⟩ := hashWithStateEx_passed m e tables nRoundsP inp st nOuts htab
    h1 h2 h3 h4 h5
  have : ¬ Model.Poseidon.inField m st = true := by rw [inField_iff]; omega
  rw [heq, if_neg this]

/-- 1. Acceptance is exactly the conjunction of the documented bounds. -/
theorem poseidon_ok_iff
    (htab : ∀ t, 2 ≤ t → t ≤ nRoundsP.length + 1 →
      ∃ tab rp, tables t = some tab ∧ nRoundsP[t - 2]? = some rp ∧ tablesOk tab t rp = true) :
    (∃ r, hashWithStateEx m e tables nRoundsP inp st nOuts = .ok r) ↔
      (1 ≤ inp.length ∧ inp.length ≤ nRoundsP.length ∧ (∀ x ∈ inp, 0 ≤ x ∧ x < (m : Int)) ∧
        0 ≤ st ∧ st < (m : Int) ∧ 1 ≤ nOuts ∧ nOuts ≤ (inp.length : Int) + 1) := by
  constructor
  · rintro ⟨r, hr⟩
    by_cases c1 : inp.length = 0 ∨ nRoundsP.length < inp.length
    · rw [poseidon_badLen m e tables nRoundsP inp st nOuts c1] at hr; cases hr
    by_cases c2 : ∀ x ∈ inp, 0 ≤ x ∧ x < (m : Int)
    · by_cases c3 : nOuts < 1 ∨ (inp.length : Int) + 1 < nOuts
      · rw [poseidon_badNOuts m e tables nRoundsP inp st nOuts (by omega) (by omega) c2 c3] at hr
        cases hr
      by_cases c4 : st < 0 ∨ (m : Int) ≤ st
      · rw [poseidon_stateNotInField m e tables nRoundsP inp st nOuts htab (by omega) (by omega) c2
          (by omega) (by omega) c4] at hr
        cases hr
      exact ⟨by omega, by omega, c2, by omega, by omega, by omega, by omega⟩
    · rw [poseidon_notInField m e tables nRoundsP inp st nOuts (by omega) (by omega)] at hr
      · cases hr
      · simp only [Classical.not_forall] at c2
        obtain ⟨x, hx, hbad⟩ := c2
        exact ⟨x, hx, by omega⟩
  · rintro ⟨h1, h2, h3, h4, h5, h6, h7⟩
    obtain ⟨tab, rp, -, -, -, heq⟩ := hashWithStateEx_passed m e tables nRoundsP inp st nOuts htab
      h1 h2 h3 h6 h7
    rw [heq, if_pos ((inField_iff m st).2 ⟨h4, h5⟩)]
    exact ⟨_, rfl⟩

/-- With the tables present the "table panic" outcome is unreachable: the only outcomes are the
    four guard errors and success. -/
theorem poseidon_no_tablePanic
    (htab : ∀ t, 2 ≤ t → t ≤ nRoundsP.length + 1 →
      ∃ tab rp, tables t = some tab ∧ nRoundsP[t - 2]? = some rp ∧ tablesOk tab t rp = true) :
    hashWithStateEx m e tables nRoundsP inp st nOuts ≠ .error .tablePanic := by
  by_cases c1 : inp.length = 0 ∨ nRoundsP.length < inp.length
  · rw [poseidon_badLen m e tables nRoundsP inp st nOuts c1]; simp
  by_cases c2 : ∀ x ∈ inp, 0 ≤ x ∧ x < (m : Int)
  · by_cases c3 : nOuts < 1 ∨ (inp.length : Int) + 1 < nOuts
    · rw [poseidon_badNOuts m e tables nRoundsP inp st nOuts (by omega) (by omega) c2 c3]; simp
    obtain ⟨tab, rp, -, -, -, heq⟩ := hashWithStateEx_passed m e tables nRoundsP inp st nOuts htab
      (by omega) (by omega) c2 (by omega) (by omega)
    rw [heq]
    split <;> simp
  · rw [poseidon_notInField m e tables nRoundsP inp st nOuts (by omega) (by omega)]
    · simp
    · simp only [Classical.not_forall] at c2
      obtain ⟨x, hx, hbad⟩ := c2
      exact ⟨x, hx, by omega⟩

/-- 3a. On success exactly `nOuts` values are returned (only `tablesOk` is needed). -/
theorem poseidon_ok_length
    (htab : ∀ t, 2 ≤ t → t ≤ nRoundsP.length + 1 →
      ∃ tab rp, tables t = some tab ∧ nRoundsP[t - 2]? = some rp ∧ tablesOk tab t rp = true)
    (r : List Nat) (hr : hashWithStateEx m e tables nRoundsP inp st nOuts = .ok r) :
    (r.length : Int) = nOuts := by
  obtain ⟨h1, h2, h3, h4, h5, h6, h7⟩ :=
    (poseidon_ok_iff m e tables nRoundsP inp st nOuts htab).1 ⟨r, hr⟩
  obtain ⟨tab, rp, -, -, hok, heq⟩ := hashWithStateEx_passed m e tables nRoundsP inp st nOuts htab
    h1 h2 h3 h6 h7
  rw [heq, if_pos ((inField_iff m st).2 ⟨h4, h5⟩)] at hr
  cases hr
  rw [List.length_take, permute_length m e tab _ rp _ hok (by simp)]
  omega

/-- 3b. On success every returned value is a canonical residue. -/
theorem poseidon_ok_canonical (hm : 0 < m)
    (r : List Nat) (hr : hashWithStateEx m e tables nRoundsP inp st nOuts = .ok r) :
    ∀ x ∈ r, x < m := by
  unfold hashWithStateEx at hr
  simp only at hr
  repeat' split at hr
  all_goals first | cases hr | skip
  intro x hx
  exact permute_lt hm _ _ _ _ _ x (List.mem_of_mem_take hx)

end poseidon

/-! ### the production instance -/

/-- `htab` holds for the tables regenerated from /repo: all 16 widths are present and well-sized. -/
theorem inst_tablesPresent :
    ∀ t, 2 ≤ t → t ≤ Gen.poseidon_NROUNDSP.length + 1 →
      ∃ tab rp, Inst.pTables t = some tab ∧ Gen.poseidon_NROUNDSP[t - 2]? = some rp ∧
        tablesOk tab t rp = true := by
  have key : ∀ t, t < 18 → 2 ≤ t →
      (match Inst.pTables t, Gen.poseidon_NROUNDSP[t - 2]? with
        | some tab, some rp => tablesOk tab t rp
        | _, _ => false) = true := by decide +kernel
  intro t h2 h17
  have hlen : Gen.poseidon_NROUNDSP.length = 16 := by decide
  have := key t (by omega) h2
  split at this
  · next tab rp h1 h2 => exact ⟨tab, rp, h1, h2, this⟩
  · cases this

/-- The acceptance frontier of the production `poseidon.HashWithStateEx`, without any hypothesis. -/
theorem poseidonEx_ok_iff (inp : List Int) (st nOuts : Int) :
    (∃ r, Inst.poseidonEx inp st nOuts = .ok r) ↔
      (1 ≤ inp.length ∧ inp.length ≤ 16 ∧ (∀ x ∈ inp, 0 ≤ x ∧ x < (Gen.constants_q : Int)) ∧
        0 ≤ st ∧ st < (Gen.constants_q : Int) ∧ 1 ≤ nOuts ∧ nOuts ≤ (inp.length : Int) + 1) := by
  have hlen : Gen.poseidon_NROUNDSP.length = 16 := by decide
  have := poseidon_ok_iff Gen.constants_q Gen.poseidon_sboxExp Inst.pTables Gen.poseidon_NROUNDSP
    inp st nOuts inst_tablesPresent
  rw [hlen] at this
  exact this

theorem constants_q_eq : Gen.constants_q = q := by decide

example : Inst.poseidonEx [1, 2] 0 1 =
    .ok [7853200120776062878684798364095072458815029376092732009249414926327459813530] := by
  decide +kernel
example : ∃ r, Inst.poseidonEx [1, 2] 0 1 = .ok r :=
  (poseidonEx_ok_iff _ _ _).2 (by decide)
example : ¬ ∃ r, Inst.poseidonEx [1, (q : Int)] 0 1 = .ok r := by
  rw [poseidonEx_ok_iff]; decide
example : Inst.poseidonEx [] 0 1 = .error .badLen := poseidon_badLen _ _ _ _ _ _ _ (by decide)
example : Inst.poseidonEx (List.replicate 17 0) 0 1 = .error .badLen :=
  poseidon_badLen _ _ _ _ _ _ _ (by decide)
example : Inst.poseidonEx [1, 2, -1] 0 1 = .error .notInField :=
  poseidon_notInField _ _ _ _ _ _ _ (by decide) (by decide) ⟨-1, by decide, by decide⟩
example : Inst.poseidonEx [1, (q : Int) + 1] 0 1 = .error .notInField :=
  poseidon_notInField _ _ _ _ _ _ _ (by decide) (by decide) ⟨(q : Int) + 1, by decide, by decide⟩
example : Inst.poseidonEx [1, 2] 0 4 = .error .badNOuts :=
  poseidon_badNOuts _ _ _ _ _ _ _ (by decide) (by decide) (by decide) (by decide)
example : Inst.poseidonEx [1, 2] 0 0 = .error .badNOuts :=
  poseidon_badNOuts _ _ _ _ _ _ _ (by decide) (by decide) (by decide) (by decide)
example : Inst.poseidonEx [1, 2] (q : Int) 1 = .error .stateNotInField :=
  poseidon_stateNotInField _ _ _ _ _ _ _ inst_tablesPresent (by decide) (by decide) (by decide)
    (by decide) (by decide) (by decide)
example : Inst.poseidonEx [1, 2] (-1) 3 = .error .stateNotInField := by decide +kernel
/-- order of the guards: a bad element wins over a bad `nOuts` and a bad state. -/
example : Inst.poseidonEx [1, -2] (-1) 9 = .error .notInField := by decide +kernel
example : ∀ r, Inst.poseidonEx [1, 2] 5 3 = .ok r → (r.length : Int) = 3 :=
  fun r hr => poseidon_ok_length _ _ _ _ _ _ _ inst_tablesPresent r hr
example : ∀ r, Inst.poseidonEx [1, 2] 5 3 = .ok r → ∀ x ∈ r, x < Gen.constants_q :=
  fun r hr => poseidon_ok_canonical _ _ _ _ _ _ _ (by decide) r hr

/-! ## MiMC7 -/

/-- 4a. `mimc7.Hash` accepts exactly the vectors of canonical field elements (the key is free). -/
theorem mimc7_hash_ok_iff (cts : List Nat) (arr : List Int) (key : Option Int) :
    (∃ r, Model.Mimc7.hash cts arr key = .ok r) ↔ ∀ x ∈ arr, 0 ≤ x ∧ x < (q : Int) := by
  rw [← mimc_all_inField_iff]
  unfold Model.Mimc7.hash
  cases h : arr.all Model.Mimc7.inField <;> simp

theorem mimc7_hash_reject (cts : List Nat) (arr : List Int) (key : Option Int)
    (h : ∃ x ∈ arr, x < 0 ∨ (q : Int) ≤ x) : Model.Mimc7.hash cts arr key = .error .notInField := by
  have : ¬ arr.all Model.Mimc7.inField = true := by
    rw [mimc_all_inField_iff]
    obtain ⟨x, hx, hbad⟩ := h
    intro hall
    have := hall x hx
    omega
  unfold Model.Mimc7.hash
  simp only [Bool.eq_false_iff.2 this, Bool.not_false, if_true]

/-- 4b. the same for `mimc7.HashGeneric`. -/
theorem mimc7_hashGeneric_ok_iff (seed : Bytes) (iv : Int) (arr : List Int) (nRounds : Nat) :
    (∃ r, Model.Mimc7.hashGeneric seed iv arr nRounds = .ok r) ↔
      ∀ x ∈ arr, 0 ≤ x ∧ x < (q : Int) := by
  rw [← mimc_all_inField_iff]
  unfold Model.Mimc7.hashGeneric
  cases h : arr.all Model.Mimc7.inField <;> simp

theorem mimc7_hashGeneric_reject (seed : Bytes) (iv : Int) (arr : List Int) (nRounds : Nat)
    (h : ∃ x ∈ arr, x < 0 ∨ (q : Int) ≤ x) :
    Model.Mimc7.hashGeneric seed iv arr nRounds = .error .notInField := by
  have : ¬ arr.all Model.Mimc7.inField = true := by
    rw [mimc_all_inField_iff]
    obtain ⟨x, hx, hbad⟩ := h
    intro hall
    have := hall x hx
    omega
  unfold Model.Mimc7.hashGeneric
  simp only [Bool.eq_false_iff.2 this, Bool.not_false, if_true]

/-- 4c. `mimc7.HashBytes` never fails: every 31-byte chunk is below `256^31 < q`. -/
theorem mimc7_hashBytes_ok (cts : List Nat) (b : Bytes) :
    ∃ r, Model.Mimc7.hashBytes cts b = .ok r := by
  unfold Model.Mimc7.hashBytes
  rw [mimc7_hash_ok_iff]
  intro x hx
  simp only [List.mem_map] at hx
  obtain ⟨c, hc, rfl⟩ := hx
  have := leToNat_chunk_lt_q c (chunks31_length_le b c hc)
  omega

example : ∃ r, Model.Mimc7.hash [0, 5, 7] [1, (q : Int) - 1] (some (-3)) = .ok r :=
  (mimc7_hash_ok_iff _ _ _).2 (by decide)
example : Model.Mimc7.hash [0, 5, 7] [1, 2] none =
    .ok 17102400744946264186493222332431915677491701498074335663068698269843508001789 := by
  decide +kernel
example : Model.Mimc7.hash [0, 5, 7] [1, (q : Int)] none = .error .notInField :=
  mimc7_hash_reject _ _ _ ⟨(q : Int), by decide, by decide⟩
example : Model.Mimc7.hash [0, 5, 7] [1, -1] none = .error .notInField :=
  mimc7_hash_reject _ _ _ ⟨-1, by decide, by decide⟩
example : ¬ ∃ r, Model.Mimc7.hashGeneric [1] 0 [(q : Int) + 1] 3 = .ok r := by
  rw [mimc7_hashGeneric_ok_iff]; decide
example : ∃ r, Model.Mimc7.hashGeneric [1] (-5) [0, (q : Int) - 1] 3 = .ok r :=
  (mimc7_hashGeneric_ok_iff _ _ _ _).2 (by decide)
example : Model.Mimc7.chunks31 (List.replicate 40 0xff) =
    [List.replicate 31 0xff, List.replicate 9 0xff] := by decide +kernel
example : ∃ r, Model.Mimc7.hashBytes [0, 5, 7] (List.replicate 40 0xff) = .ok r :=
  mimc7_hashBytes_ok _ _

/-! ## no aliasing -/

/-- 5. Two accepted vectors that are component-wise congruent modulo `m` are equal: acceptance
    never identifies `x` and `x + m`. -/
theorem no_alias_mod (m : Nat) (xs ys : List Int)
    (hx : ∀ x ∈ xs, 0 ≤ x ∧ x < (m : Int)) (hy : ∀ y ∈ ys, 0 ≤ y ∧ y < (m : Int))
    (hlen : xs.length = ys.length)
    (hcong : ∀ i (h1 : i < xs.length) (h2 : i < ys.length), xs[i] % (m : Int) = ys[i] % (m : Int)) :
    xs = ys := by
  apply List.ext_getElem hlen
  intro i h1 h2
  have hxi := hx xs[i] (List.getElem_mem h1)
  have hyi := hy ys[i] (List.getElem_mem h2)
  have := hcong i h1 h2
  rwa [Int.emod_eq_of_lt hxi.1 hxi.2, Int.emod_eq_of_lt hyi.1 hyi.2] at this

/-- Consequence for Poseidon: two accepted input vectors congruent mod `m` are the same vector. -/
theorem poseidon_no_alias (m e : Nat) (tables : Nat → Option Tables) (nRoundsP : List Nat)
    (htab : ∀ t, 2 ≤ t → t ≤ nRoundsP.length + 1 →
      ∃ tab rp, tables t = some tab ∧ nRoundsP[t - 2]? = some rp ∧ tablesOk tab t rp = true)
    (xs ys : List Int) (s1 s2 n1 n2 : Int)
    (h1 : ∃ r, hashWithStateEx m e tables nRoundsP xs s1 n1 = .ok r)
    (h2 : ∃ r, hashWithStateEx m e tables nRoundsP ys s2 n2 = .ok r)
    (hlen : xs.length = ys.length)
    (hcong : ∀ i (h1 : i < xs.length) (h2 : i < ys.length), xs[i] % (m : Int) = ys[i] % (m : Int)) :
    xs = ys :=
  no_alias_mod m xs ys ((poseidon_ok_iff m e tables nRoundsP xs s1 n1 htab).1 h1).2.2.1
    ((poseidon_ok_iff m e tables nRoundsP ys s2 n2 htab).1 h2).2.2.1 hlen hcong

/-- Consequence for MiMC7. -/
theorem mimc7_no_alias (cts : List Nat) (xs ys : List Int) (k1 k2 : Option Int)
    (h1 : ∃ r, Model.Mimc7.hash cts xs k1 = .ok r) (h2 : ∃ r, Model.Mimc7.hash cts ys k2 = .ok r)
    (hlen : xs.length = ys.length)
    (hcong : ∀ i (h1 : i < xs.length) (h2 : i < ys.length), xs[i] % (q : Int) = ys[i] % (q : Int)) :
    xs = ys :=
  no_alias_mod q xs ys ((mimc7_hash_ok_iff cts xs k1).1 h1) ((mimc7_hash_ok_iff cts ys k2).1 h2)
    hlen hcong

example : ([1, 2, 16] : List Int) = [1, 2, 16] :=
  no_alias_mod 17 [1, 2, 16] [1, 2, 16] (by decide) (by decide) rfl (fun _ _ _ => rfl)
/-- the range hypotheses matter: 1 and 18 are congruent mod 17 but distinct. -/
example : (1 : Int) % 17 = 18 % 17 ∧ (1 : Int) ≠ 18 := by decide

end I3.Props.C07
