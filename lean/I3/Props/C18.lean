/-
  I3.Props.C18 — Legendre symbol and square root (Tonelli–Shanks), plus the field helpers they
  rest on (Exp, Inverse, Div, BatchInvert, Halve, Cmp, LexicographicallyLargest, String), for the
  value-level model `I3.Model.FF` of /repo/ff and /repo/ffg.

  The theorems in this file are stated for an arbitrary configuration `c` satisfying the
  well-formedness predicate `Model.FF.Cfg.WF` (prime odd modulus, `m - 1 = 2^r·s` with `s` odd,
  `sqrtExp = (s-1)/2`, `legExp = (m-1)/2`, `g^(2^(r-1)) = -1`, …).  `I3.Props.C18Inst` proves `WF`
  for the two configurations built from the constants regenerated from the Go source and
  specialises the theorems to them.
-/
import I3.Lemmas.FieldAlg
import Mathlib.Tactic.NormNum.Prime

namespace I3.Props.C18
open I3 I3.Model.FF

variable {c : Cfg}

/-! ### Exp / Inverse / Div / BatchInvert / Halve -/

/-- `Exp` is exponentiation in `ZMod m` for every natural exponent, and the result is reduced. -/
theorem exp_correct (h : c.WF) (x e : ℕ) :
    ((exp c x e : ℕ) : ZMod c.m) = (x : ZMod c.m) ^ e ∧ exp c x e < c.m :=
  ⟨exp_cast c x e, exp_lt h.pos x e⟩

/-- exponent `0 ↦ 1` (also for `x = 0`). -/
theorem exp_zero (h : c.WF) (x : ℕ) : exp c x 0 = 1 := by
  rw [exp_eq, pow_zero, h.one_mod]

/-- `Inverse` is the field inverse (`0 ↦ 0`, matching Mathlib's `0⁻¹ = 0`), and is reduced. -/
theorem inverse_correct (h : c.WF) (x : ℕ) :
    ((inverse c x : ℕ) : ZMod c.m) = (x : ZMod c.m)⁻¹ ∧ inverse c x < c.m :=
  ⟨inverse_cast h x, inverse_lt h.pos x⟩

theorem inverse_zero (h : c.WF) : inverse c 0 = 0 := inverse_zero' h

/-- Nat-level reading: `x · x⁻¹ ≡ 1 (mod m)` for every reduced non-zero `x`. -/
theorem inverse_mul_cancel (h : c.WF) {x : ℕ} (hx : x < c.m) (hx0 : x ≠ 0) :
    x * inverse c x % c.m = 1 := by
  have := h.fact
  apply natCast_inj_of_lt (Nat.mod_lt _ h.pos) h.one_lt
  have hxc : (x : ZMod c.m) ≠ 0 := fun hc => hx0 ((natCast_eq_zero_of_lt hx).1 hc)
  rw [ZMod.natCast_mod, Nat.cast_mul, inverse_cast h, Nat.cast_one, mul_inv_cancel₀ hxc]

theorem div_correct (h : c.WF) (x y : ℕ) :
    ((div c x y : ℕ) : ZMod c.m) = (x : ZMod c.m) * (y : ZMod c.m)⁻¹ ∧ div c x y < c.m := by
  unfold div
  refine ⟨?_, Nat.mod_lt _ h.pos⟩
  rw [ZMod.natCast_mod, Nat.cast_mul, inverse_cast h]

/-- division by zero yields zero -/
theorem div_zero (h : c.WF) (x : ℕ) : div c x 0 = 0 := by
  unfold div
  rw [inverse_zero' h]
  simp

/-- Montgomery batch inversion equals element-wise inversion; zero entries are skipped and mapped
to zero, the empty list is mapped to the empty list. -/
theorem batchInvert_correct (h : c.WF) (a : List ℕ) (ha : ∀ x ∈ a, x < c.m) :
    batchInvert c a = a.map (inverse c) :=
  batchInvert_eq_map h a ha

theorem batchInvert_nil (h : c.WF) : batchInvert c [] = [] :=
  batchInvert_eq_map h [] (by simp)

theorem halve_correct (h : c.WF) {x : ℕ} (hx : x < c.m) :
    halve c x < c.m ∧ (2 * halve c x) % c.m = x :=
  halve_spec h hx

/-! ### Legendre symbol -/

theorem legendre_values (c : Cfg) (x : ℕ) : legendre c x ∈ ({0, 1, -1} : Set ℤ) :=
  Model.FF.legendre_values c x

theorem legendre_zero_iff (h : c.WF) (x : ℕ) :
    legendre c x = 0 ↔ (x : ZMod c.m) = 0 :=
  legendre_eq_zero_iff h x

theorem legendre_one_iff (h : c.WF) (x : ℕ) :
    legendre c x = 1 ↔ (x : ZMod c.m) ≠ 0 ∧ IsSquare (x : ZMod c.m) :=
  legendre_eq_one_iff h x

theorem legendre_neg_one_iff (h : c.WF) (x : ℕ) :
    legendre c x = -1 ↔ ¬ IsSquare (x : ZMod c.m) :=
  legendre_eq_neg_one_iff h x

/-- Nat-level reading for reduced inputs: the symbol is `0` exactly for `x = 0`. -/
theorem legendre_zero_iff_nat (h : c.WF) {x : ℕ} (hx : x < c.m) :
    legendre c x = 0 ↔ x = 0 := by
  rw [legendre_eq_zero_iff h, natCast_eq_zero_of_lt hx]

/-- Nat-level reading of "is a square modulo `m`". -/
theorem isSquare_iff_nat (h : c.WF) {x : ℕ} (hx : x < c.m) :
    IsSquare (x : ZMod c.m) ↔ ∃ y, y < c.m ∧ y * y % c.m = x := by
  have := h.fact
  have : NeZero c.m := ⟨h.pos.ne'⟩
  constructor
  · rintro ⟨r, hr⟩
    refine ⟨r.val, ZMod.val_lt r, ?_⟩
    apply natCast_inj_of_lt (Nat.mod_lt _ h.pos) hx
    rw [ZMod.natCast_mod, Nat.cast_mul, ZMod.natCast_val, ZMod.cast_id', id, hr]
  · rintro ⟨y, _, hy⟩
    refine ⟨(y : ZMod c.m), ?_⟩
    rw [← hy, ZMod.natCast_mod, Nat.cast_mul]

/-! ### Square root -/

/-- Whatever `Sqrt` returns is a reduced square root. -/
theorem sqrt_some (h : c.WF) {x : ℕ} (hx : x < c.m) (y : ℕ) :
    sqrt c x = some y → y < c.m ∧ (y * y) % c.m = x := by
  intro hs
  rcases sqrt_cases h hx with ⟨hx0, h0⟩ | ⟨_, _, y', hy', hlt, hsq⟩ | ⟨_, hn⟩
  · rw [h0] at hs
    obtain rfl : 0 = y := by simpa using hs
    exact ⟨h.pos, by simp [hx0]⟩
  · rw [hy'] at hs
    obtain rfl : y' = y := by simpa using hs
    refine ⟨hlt, ?_⟩
    apply natCast_inj_of_lt (Nat.mod_lt _ h.pos) hx
    rw [ZMod.natCast_mod, Nat.cast_mul, ← pow_two, hsq]
  · rw [hn] at hs
    cases hs

/-- `Sqrt` reports "no root" exactly for the non-squares: the fuel of the loops is sufficient. -/
theorem sqrt_none_iff (h : c.WF) {x : ℕ} (hx : x < c.m) :
    sqrt c x = none ↔ ¬ IsSquare (x : ZMod c.m) := by
  rcases sqrt_cases h hx with ⟨hx0, h0⟩ | ⟨_, hsq, y', hy', _, _⟩ | ⟨hns, hn⟩
  · subst hx0
    rw [h0]
    simp
  · rw [hy']
    simp [hsq]
  · simp [hn, hns]

/-- A root is returned for every square. -/
theorem sqrt_of_isSquare (h : c.WF) {x : ℕ} (hx : x < c.m) (hsq : IsSquare (x : ZMod c.m)) :
    ∃ y, sqrt c x = some y ∧ y < c.m ∧ (y * y) % c.m = x := by
  cases hs : sqrt c x with
  | none => exact absurd hsq ((sqrt_none_iff h hx).1 hs)
  | some y => exact ⟨y, rfl, sqrt_some h hx y hs⟩

theorem sqrt_zero (h : c.WF) : sqrt c 0 = some 0 := by
  rcases sqrt_cases h h.pos with ⟨_, h0⟩ | ⟨hne, _⟩ | ⟨hns, _⟩
  · exact h0
  · exact absurd (by simp) hne
  · exact absurd (by simp) hns

/-- `Sqrt` and `Legendre` agree: a root is returned iff the symbol is not `-1`. -/
theorem sqrt_isSome_iff_legendre (h : c.WF) {x : ℕ} (hx : x < c.m) :
    (sqrt c x).isSome = true ↔ legendre c x ≠ -1 := by
  rw [Ne, legendre_eq_neg_one_iff h, ← sqrt_none_iff h hx]
  cases sqrt c x <;> simp

/-! ### Tonelli–Shanks loop invariants -/

/-- The inner loop (`ordLog`, fuel `r + 1`) returns the exact exponent `mm` of the 2-power order
of `b`, and `mm < r`: the outer loop counter strictly decreases. -/
theorem ordLog_exact {m x y b g r : ℕ} (hm : 1 < m) (inv : TSInv m x y b g r) :
    ordLog m (r + 1) b 0 < r ∧ (b : ZMod m) ^ (2 ^ ordLog m (r + 1) b 0) = 1 ∧
      ∀ i, i < ordLog m (r + 1) b 0 → (b : ZMod m) ^ (2 ^ i) ≠ 1 :=
  Model.FF.ordLog_exact hm inv

/-- `Sqrt` enters the loop with the invariant `y² = x·b`, `b^(2^(r-1)) = 1`, `g^(2^(r-1)) = -1`
whenever `x` passes the residue test. -/
theorem ts_init (h : c.WF) (x : ℕ) (ht : (x : ZMod c.m) ^ (c.m / 2) = 1) :
    TSInv c.m x (x * exp c x c.sqrtExp % c.m)
      (exp c x c.sqrtExp * (x * exp c x c.sqrtExp % c.m) % c.m) (c.fromMont c.gMont) c.r :=
  sqrt_init_inv h x ht

/-- The hard-coded constant `g` (converted from Montgomery form) has multiplicative order exactly
`2^r`: it generates the 2-Sylow subgroup of `(ZMod m)ˣ`. -/
theorem g_orderOf (h : c.WF) :
    orderOf ((c.fromMont c.gMont : ℕ) : ZMod c.m) = 2 ^ c.r := by
  have hinv : ((c.fromMont c.gMont : ℕ) : ZMod c.m) ^ (2 ^ (c.r - 1)) = -1 := by
    have := h.g_order
    rw [powMod_eq] at this
    have h2 : (((c.fromMont c.gMont) ^ 2 ^ (c.r - 1) % c.m : ℕ) : ZMod c.m)
        = ((c.m - 1 : ℕ) : ZMod c.m) := by rw [this]
    rwa [ZMod.natCast_mod, Nat.cast_pow, h.natCast_pred] at h2
  have hr : c.r = (c.r - 1) + 1 := by have := h.r_pos; omega
  rw [hr]
  apply orderOf_eq_prime_pow
  · rw [hinv]; exact neg_one_ne_one h
  · rw [pow_succ, pow_mul, hinv]; norm_num

/-- One outer iteration: if `b ≠ 1` (`mm ≠ 0`) the new state `(y·t, b·t², t², mm)` with
`t = g^(2^(r-mm-1))` satisfies the invariant again, with `mm < r`. -/
theorem ts_step {m x y b g r : ℕ} (hp : m.Prime) (hm : 1 < m)
    (inv : TSInv m x y b g r) (hmm : ordLog m (r + 1) b 0 ≠ 0) :
    ordLog m (r + 1) b 0 < r ∧
    TSInv m x (y * sqPow m (r - ordLog m (r + 1) b 0 - 1) g % m)
      (b * (sqPow m (r - ordLog m (r + 1) b 0 - 1) g * sqPow m (r - ordLog m (r + 1) b 0 - 1) g % m) % m)
      (sqPow m (r - ordLog m (r + 1) b 0 - 1) g * sqPow m (r - ordLog m (r + 1) b 0 - 1) g % m)
      (ordLog m (r + 1) b 0) :=
  have : Fact m.Prime := ⟨hp⟩
  ⟨(Model.FF.ordLog_exact hm inv).1, tsInv_step hm inv hmm⟩

/-- If `b = 1` (`mm = 0`) the loop exits with `y² = x`. -/
theorem ts_exit {m x y b g r : ℕ} (hm : 1 < m)
    (inv : TSInv m x y b g r) (hmm : ordLog m (r + 1) b 0 = 0) :
    (y : ZMod m) ^ 2 = (x : ZMod m) := by
  obtain ⟨_, h1, _⟩ := Model.FF.ordLog_exact hm inv
  rw [hmm, pow_zero, pow_one] at h1
  rw [inv.sq, h1, mul_one]

/-- The fuelled loop terminates within `r + 1` outer iterations and returns a root. -/
theorem tsLoop_terminates {m x : ℕ} (hp : m.Prime) (hm : 1 < m) (f y b g r : ℕ) (hf : r + 1 ≤ f)
    (inv : TSInv m x y b g r) :
    ∃ y', Model.FF.tsLoop m f y b g r = some y' ∧ y' < m ∧ (y' : ZMod m) ^ 2 = (x : ZMod m) :=
  have : Fact m.Prime := ⟨hp⟩
  tsLoop_correct hm f y b g r hf inv

/-! ### Cmp / LexicographicallyLargest / String -/

theorem cmp_correct (x y : ℕ) :
    (Model.FF.cmp x y = -1 ↔ x < y) ∧ (Model.FF.cmp x y = 0 ↔ x = y) ∧
      (Model.FF.cmp x y = 1 ↔ y < x) := by
  unfold Model.FF.cmp
  refine ⟨?_, ?_, ?_⟩ <;> split_ifs <;> simp <;> omega

theorem lexLargest_correct (h : c.WF) (x : ℕ) :
    lexLargest c x = true ↔ x > (c.m - 1) / 2 := by
  unfold lexLargest
  rw [decide_eq_true_iff, h.lex]
  have := h.odd
  omega

theorem toStringInt_correct {x : ℕ} (hx : x < c.m) :
    toStringInt c x % (c.m : ℤ) = (x : ℤ) := by
  have hx' : (x : ℤ) % (c.m : ℤ) = x :=
    Int.emod_eq_of_lt (Int.natCast_nonneg x) (by exact_mod_cast hx)
  unfold toStringInt
  split_ifs
  · exact hx'
  · have : -(((c.m - x : ℕ)) : ℤ) = (x : ℤ) + (-1) * (c.m : ℤ) := by
      rw [Nat.cast_sub hx.le]; ring
    rw [this, Int.add_mul_emod_self_right, hx']
  · exact hx'

/-! ### Non-vacuity: the hypotheses are satisfiable (toy field `𝔽₁₇`, `17 - 1 = 2^4·1`, `g = 3`) -/

/-- A toy configuration: `m = 17`, one limb (`R = 2^64 ≡ 1`), `r = 4`, `s = 1`, `g = 3`. -/
def toyCfg : Cfg :=
  { m := 17, limbs := 1, sqrtExp := 0, legExp := 8, gMont := 3, r := 4, lexHalf := 9 }

theorem toy_wf : toyCfg.WF where
  prime := by show Nat.Prime 17; norm_num
  odd := by decide
  limbs_pos := by decide
  fits := by decide
  two_adic := ⟨1, by decide, by decide, by decide⟩
  r_pos := by decide
  leg := by decide
  g_order := by decide +kernel
  lex := by decide

example : (List.range 17).map (sqrt toyCfg) =
    [some 0, some 1, some 6, none, some 2, none, none, none, some 12, some 14, none, none, none,
      some 8, none, some 7, some 4] := by decide +kernel
example : (List.range 17).map (legendre toyCfg) =
    [0, 1, 1, -1, 1, -1, -1, -1, 1, 1, -1, -1, -1, 1, -1, 1, 1] := by decide +kernel
example : batchInvert toyCfg [3, 0, 5, 16, 0] = [6, 0, 7, 16, 0] := by decide +kernel
example : ∃ y, sqrt toyCfg 2 = some y ∧ y * y % 17 = 2 := ⟨6, by decide +kernel, by decide⟩

end I3.Props.C18
