/-
  I3.Props.C08 — MiMC7 equals the circomlib MiMC7 definition for every input and round count.

  The executable model `I3.Model.Mimc7` (mirror of /repo/mimc7/mimc7.go: a table of constants built
  by a Keccak chain, a fold over that table with every intermediate sum reduced, `x^7` by three
  squarings/multiplications) is proved equal to `I3.Spec.Mimc7`, the definition written directly
  from the property text (`c_0 = 0`, `c_i = Keccak-256^i(Keccak-256(seed)) mod q` over the 32-byte
  digest, `t = x + k` resp. `r + k + c_i`, `r = t^7`, result `r + k mod q`), for ALL integers `x`,
  `k` and every round count `n ≥ 1`.  The fixed-parameter entry points are the instance
  `seed = "mimc"`, `n = 91` (both constants regenerated from the Go source, `I3.Gen.Consts`).
  Helper lemmas: `I3.Lemmas.Mimc7`.  Core Lean only.
-/
import I3.Lemmas.Mimc7
import I3.Lemmas.Conv
import I3.Lemmas.Sponge
import I3.Model.Instances
import I3.Props.C07
namespace I3.Props.C08
open I3 I3.Model.Mimc7 I3.Lemmas.Mimc7 I3.Lemmas.Guards

attribute [local instance] I3.Lemmas.Bytes.exceptDecEq

/-- the seed of the fixed-parameter entry points, as bytes. -/
abbrev seed : Bytes := "mimc".toUTF8.toList

/-! ## 1. constants and the `x^7` S-box -/

theorem pow7_eq (t : Nat) : pow7 t = t ^ 7 % q := Lemmas.Mimc7.pow7_eq t

/-- the model's table is `c_0, …, c_{n-1}` of the definition. -/
theorem getConstants_eq (seed : Bytes) (n : Nat) (hn : 1 ≤ n) :
    getConstants seed n = (List.range n).map (Spec.Mimc7.cst seed) :=
  Lemmas.Mimc7.getConstants_eq seed n hn

theorem getConstants_length (seed : Bytes) (n : Nat) (hn : 1 ≤ n) :
    (getConstants seed n).length = n := Lemmas.Mimc7.getConstants_length seed n hn

/-- entry `i` of the table is `c_i`: `0` for `i = 0`, else the `i`-fold chain digest mod `q`. -/
theorem getConstants_getElem (seed : Bytes) (n i : Nat) (hn : 1 ≤ n) (hi : i < n) :
    (getConstants seed n)[i]'(by rw [getConstants_length seed n hn]; exact hi) =
      Spec.Mimc7.cst seed i := by
  simp only [Lemmas.Mimc7.getConstants_eq seed n hn, List.getElem_map, List.getElem_range]

theorem cst_lt (seed : Bytes) (i : Nat) : Spec.Mimc7.cst seed i < q := Lemmas.Mimc7.cst_lt seed i

/-- every link of the chain is a full 32-byte digest … -/
theorem digest_length (seed : Bytes) (i : Nat) : (Spec.Mimc7.digest seed i).length = 32 := by
  cases i <;> simp only [Spec.Mimc7.digest, Keccak.keccak256] <;>
    exact Lemmas.Sponge.squeeze32_length _

/-- … so passing it through an unbounded integer and re-encoding it on 32 bytes (what the Go loop
    does with `big.Int.SetBytes` / `FillBytes(make([]byte, 32))`) is lossless, also when the digest
    starts with zero bytes. -/
theorem digest_fillBytes (seed : Bytes) (i : Nat) :
    natToBE 32 (beToNat (Spec.Mimc7.digest seed i)) = Spec.Mimc7.digest seed i := by
  have := Lemmas.Conv.natToBE_beToNat (Spec.Mimc7.digest seed i)
  rwa [digest_length] at this

/-- the chain, one step: `c_{i+1} = int(Keccak-256(fill32(int(digest_i)))) mod q`. -/
theorem cst_succ (seed : Bytes) (i : Nat) :
    Spec.Mimc7.cst seed (i + 1) =
      beToNat (Keccak.keccak256 (natToBE 32 (beToNat (Spec.Mimc7.digest seed i)))) % q := by
  rw [digest_fillBytes, Lemmas.Mimc7.cst_succ]

/-! ## 2. single-block MiMC7 -/

/-- `MIMC7HashGeneric(x, k, n)` is the circomlib permutation on the residues of `x` and `k`, for
    every pair of integers (negative, canonical, `≥ q`) and every round count `n ≥ 1`. -/
theorem mimc7HashGeneric_eq (seed : Bytes) (x k : Int) (n : Nat) (hn : 1 ≤ n) :
    mimc7HashGeneric seed x k n = Spec.Mimc7.mimc7 seed (imod x q) (imod k q) n := by
  unfold mimc7HashGeneric
  exact rounds_eq seed _ _ n hn

/-- on naturals (in particular canonical values) no residue needs to be taken. -/
theorem mimc7HashGeneric_eq_nat (seed : Bytes) (x k n : Nat) (hn : 1 ≤ n) :
    mimc7HashGeneric seed (x : Int) (k : Int) n = Spec.Mimc7.mimc7 seed x k n := by
  rw [mimc7HashGeneric_eq seed _ _ n hn, imod_natCast, imod_natCast, mimc7_mod]

theorem nRounds_eq : Gen.mimc7_nRounds = 91 := by decide
theorem seed_eq : Inst.mimcSeed = seed := rfl

/-- the package-level table is the table of the generic entry point at `"mimc"`, 91 rounds. -/
theorem mimcCts_eq : Inst.mimcCts = getConstants seed 91 := by
  unfold Inst.mimcCts
  rw [nRounds_eq, seed_eq]

/-- `MIMC7Hash(x, k)`: the fixed-parameter entry point is the definition at 91 rounds. -/
theorem mimc7Hash_eq (x k : Int) :
    mimc7Hash Inst.mimcCts x k = Spec.Mimc7.mimc7 seed (imod x q) (imod k q) 91 := by
  unfold mimc7Hash
  rw [mimcCts_eq]
  exact rounds_eq seed _ _ 91 (by decide)

theorem mimc7Hash_eq_nat (x k : Nat) :
    mimc7Hash Inst.mimcCts (x : Int) (k : Int) = Spec.Mimc7.mimc7 seed x k 91 := by
  rw [mimc7Hash_eq, imod_natCast, imod_natCast, mimc7_mod]

theorem mimc7Hash_eq_generic (x k : Int) :
    mimc7Hash Inst.mimcCts x k = mimc7HashGeneric seed x k 91 := by
  rw [mimc7Hash_eq, mimc7HashGeneric_eq seed x k 91 (by decide)]

/-- results of single-block MiMC7 are canonical. -/
theorem mimc7_lt (seed : Bytes) (x k n : Nat) : Spec.Mimc7.mimc7 seed x k n < q :=
  Lemmas.Mimc7.mimc7_lt seed x k n

theorem mimc7HashGeneric_lt (seed : Bytes) (x k : Int) (n : Nat) :
    mimc7HashGeneric seed x k n < q := rounds_lt _ _ _

theorem mimc7Hash_lt (cts : List Nat) (x k : Int) : mimc7Hash cts x k < q := rounds_lt _ _ _

/-- the definition only depends on the residues of its inputs. -/
theorem mimc7_mod (seed : Bytes) (x k n : Nat) :
    Spec.Mimc7.mimc7 seed (x % q) (k % q) n = Spec.Mimc7.mimc7 seed x k n :=
  Lemmas.Mimc7.mimc7_mod seed x k n

/-! ## 3. the multi-element hash `r ← r + m_i + MiMC7(m_i, r) mod q` -/

/-- unfolding of `Hash(arr, key)` on accepted input (the key is not range-checked). -/
theorem hash_eq (cts : List Nat) (arr : List Int) (key : Option Int)
    (h : ∀ x ∈ arr, 0 ≤ x ∧ x < (q : Int)) :
    hash cts arr key =
      .ok (arr.foldl (fun r m => (r + m + (mimc7Hash cts m r : Int)) % (q : Int)) (key.getD 0)) := by
  unfold Model.Mimc7.hash
  rw [(mimc_all_inField_iff arr).2 h]
  rfl

/-- the same with the single-block hash replaced by the circomlib definition. -/
theorem hash_eq_spec (arr : List Int) (key : Option Int) (h : ∀ x ∈ arr, 0 ≤ x ∧ x < (q : Int)) :
    hash Inst.mimcCts arr key =
      .ok (arr.foldl (fun r m =>
        (r + m + (Spec.Mimc7.mimc7 seed (imod m q) (imod r q) 91 : Int)) % (q : Int))
        (key.getD 0)) := by
  rw [hash_eq _ _ _ h]
  simp only [mimc7Hash_eq]

/-- empty input: the key (0 when absent) is returned unchanged, whatever its value. -/
theorem hash_nil (cts : List Nat) (key : Option Int) : hash cts [] key = .ok (key.getD 0) := rfl

/-- non-empty input: the result is canonical. -/
theorem hash_canonical (cts : List Nat) (arr : List Int) (key : Option Int) (r : Int)
    (hne : arr ≠ []) (hr : hash cts arr key = .ok r) : 0 ≤ r ∧ r < (q : Int) := by
  have hall : ∀ x ∈ arr, 0 ≤ x ∧ x < (q : Int) := (Props.C07.mimc7_hash_ok_iff cts arr key).1 ⟨r, hr⟩
  rw [hash_eq _ _ _ hall] at hr
  cases hr
  have hq : (0 : Int) < (q : Int) := by have := q_pos; omega
  exact foldl_mem_of_ne_nil (fun r : Int => 0 ≤ r ∧ r < (q : Int)) _
    (fun a b => ⟨Int.emod_nonneg _ (by omega), Int.emod_lt_of_pos _ hq⟩) arr hne _

/-- On natural inputs (canonical elements, any natural key) `Hash` is the multi-element hash of
    the definition, with the 91-round `"mimc"` permutation. -/
theorem hash_spec (arr : List Nat) (key : Option Nat) (h : ∀ x ∈ arr, x < q) :
    hash Inst.mimcCts (arr.map (fun (n : Nat) => (n : Int))) (key.map (fun (n : Nat) => (n : Int))) =
      .ok ((Spec.Mimc7.multiHash seed 91 arr (key.getD 0) : Nat) : Int) := by
  rw [hash_eq]
  · have hk : (key.map (fun (n : Nat) => (n : Int))).getD 0 = (((key.getD 0 : Nat)) : Int) := by
      cases key <;> rfl
    rw [hk, Spec.Mimc7.multiHash]
    congr 1
    apply foldl_map_cast
    intro r m
    rw [mimc7Hash_eq_nat]
    norm_cast
  · intro x hx
    simp only [List.mem_map] at hx
    obtain ⟨n, hn, rfl⟩ := hx
    have := h n hn
    omega

/-! ## 4. the generic fold `r ← MiMC7(r, m_i)` -/

theorem hashGeneric_eq (seed : Bytes) (iv : Int) (arr : List Int) (n : Nat)
    (h : ∀ x ∈ arr, 0 ≤ x ∧ x < (q : Int)) :
    hashGeneric seed iv arr n =
      .ok (arr.foldl (fun r m => (mimc7HashGeneric seed r m n : Int)) iv) := by
  unfold hashGeneric
  rw [(mimc_all_inField_iff arr).2 h]
  rfl

theorem hashGeneric_eq_spec (seed : Bytes) (iv : Int) (arr : List Int) (n : Nat) (hn : 1 ≤ n)
    (h : ∀ x ∈ arr, 0 ≤ x ∧ x < (q : Int)) :
    hashGeneric seed iv arr n =
      .ok (arr.foldl (fun r m => (Spec.Mimc7.mimc7 seed (imod r q) (imod m q) n : Int)) iv) := by
  rw [hashGeneric_eq _ _ _ _ h]
  simp only [mimc7HashGeneric_eq _ _ _ n hn]

/-- empty input: the iv is returned unchanged. -/
theorem hashGeneric_nil (seed : Bytes) (iv : Int) (n : Nat) : hashGeneric seed iv [] n = .ok iv :=
  rfl

theorem hashGeneric_canonical (seed : Bytes) (iv : Int) (arr : List Int) (n : Nat) (r : Int)
    (hne : arr ≠ []) (hr : hashGeneric seed iv arr n = .ok r) : 0 ≤ r ∧ r < (q : Int) := by
  have hall : ∀ x ∈ arr, 0 ≤ x ∧ x < (q : Int) :=
    (Props.C07.mimc7_hashGeneric_ok_iff seed iv arr n).1 ⟨r, hr⟩
  rw [hashGeneric_eq _ _ _ _ hall] at hr
  cases hr
  exact foldl_mem_of_ne_nil (fun r : Int => 0 ≤ r ∧ r < (q : Int)) _
    (fun a b => by have := mimc7HashGeneric_lt seed a b n; omega) arr hne _

theorem hashGeneric_spec (seed : Bytes) (iv : Nat) (arr : List Nat) (n : Nat) (hn : 1 ≤ n)
    (h : ∀ x ∈ arr, x < q) :
    hashGeneric seed (iv : Int) (arr.map (fun (n : Nat) => (n : Int))) n =
      .ok ((Spec.Mimc7.genericFold seed n arr iv : Nat) : Int) := by
  rw [hashGeneric_eq]
  · rw [Spec.Mimc7.genericFold]
    congr 1
    apply foldl_map_cast
    intro r m
    rw [mimc7HashGeneric_eq_nat _ _ _ _ hn]
  · intro x hx
    simp only [List.mem_map] at hx
    obtain ⟨n, hn, rfl⟩ := hx
    have := h n hn
    omega

/-! ## 5. byte hashing -/

theorem chunks31_nil : chunks31 [] = [] := Lemmas.Mimc7.chunks31_nil

/-- the chunks are consecutive pieces of the message. -/
theorem chunks31_flatten (b : Bytes) : (chunks31 b).flatten = b := Lemmas.Mimc7.chunks31_flatten b

/-- there are `⌈|b|/31⌉` chunks. -/
theorem chunks31_length (b : Bytes) : (chunks31 b).length = (b.length + 30) / 31 :=
  Lemmas.Mimc7.chunks31_length b

/-- chunk `i` is the slice `b[31 i : 31 (i+1)]` — the model's recursion is the slice form. -/
theorem chunks31_eq_spec (b : Bytes) : chunks31 b = Spec.Mimc7.chunks b :=
  Lemmas.Mimc7.chunks31_eq_spec b

theorem chunks31_getElem (b : Bytes) (i : Nat) (h : i < (chunks31 b).length) :
    (chunks31 b)[i] = (b.drop (31 * i)).take 31 := Lemmas.Mimc7.chunks31_getElem b i h

/-- every chunk but the last has exactly 31 bytes; the last has between 1 and 31 bytes (exactly
    what remains of the message). -/
theorem chunks31_lengths (b : Bytes) (i : Nat) (h : i < (chunks31 b).length) :
    (i + 1 < (chunks31 b).length → (chunks31 b)[i].length = 31) ∧
    (i + 1 = (chunks31 b).length →
      (chunks31 b)[i].length = b.length - 31 * i ∧ 1 ≤ (chunks31 b)[i].length ∧
        (chunks31 b)[i].length ≤ 31) := by
  rw [chunks31_getElem b i h, List.length_take, List.length_drop]
  rw [chunks31_length] at h ⊢
  omega

theorem hashBytes_eq (cts : List Nat) (b : Bytes) :
    hashBytes cts b = hash cts ((chunks31 b).map (fun c => (leToNat c : Int))) none := rfl

/-- every chunk value is below `256^31 < q`, so the multi-element hash never rejects. -/
theorem chunk_lt (b : Bytes) : ∀ c ∈ chunks31 b, leToNat c < 256 ^ 31 ∧ 256 ^ 31 < q := by
  intro c hc
  have h1 := Lemmas.Bytes.leToNat_lt c
  have h2 : 256 ^ c.length ≤ 256 ^ 31 :=
    Nat.pow_le_pow_right (by decide) (chunks31_length_le b c hc)
  exact ⟨by omega, pow_256_31_lt_q⟩

theorem hashBytes_ok (cts : List Nat) (b : Bytes) : ∃ r, hashBytes cts b = .ok r :=
  Props.C07.mimc7_hashBytes_ok cts b

/-- `HashBytes` is the byte hashing of the definition (91 rounds, seed `"mimc"`, no key). -/
theorem hashBytes_spec (b : Bytes) :
    hashBytes Inst.mimcCts b = .ok ((Spec.Mimc7.hashBytes seed 91 b : Nat) : Int) := by
  have := hash_spec ((chunks31 b).map leToNat) none (by
    intro x hx
    simp only [List.mem_map] at hx
    obtain ⟨c, hc, rfl⟩ := hx
    have := chunk_lt b c hc
    omega)
  rw [List.map_map] at this
  rw [hashBytes_eq, Spec.Mimc7.hashBytes, ← chunks31_eq_spec]
  exact this

/-! ## 6. non-vacuity -/

/-- the first chain constant is circomlib's published `c_1` (two Keccak-256 evaluations in the
    kernel). -/
theorem getConstants_two : getConstants seed 2 =
    [0, 20888961410941983456478427210666206549300505294776164667214940546594746570981] := by
  decide +kernel

example : Spec.Mimc7.cst seed 1 =
    20888961410941983456478427210666206549300505294776164667214940546594746570981 := by
  have := getConstants_getElem seed 2 1 (by decide) (by decide)
  simp only [getConstants_two] at this
  exact this.symm

/-- two rounds, through the theorem: model value = definition value. -/
example : Spec.Mimc7.mimc7 seed 1 2 2 =
    17982845139823493230520796201980980048406511437048837391554889940426009384443 := by
  rw [← mimc7HashGeneric_eq_nat seed 1 2 2 (by decide), mimc7HashGeneric, getConstants_two]
  decide +kernel

/-- one round: `(1 + 2)^7 + 2`. -/
example : mimc7HashGeneric seed 1 2 1 = 2189 := by decide +kernel
example : Spec.Mimc7.mimc7 seed 1 2 1 = 2189 := by decide +kernel

/-- non-canonical integers are reduced first: `(-1, q + 2)` behaves as `(q - 1, 2)`. -/
example : mimc7HashGeneric seed (-1) ((q : Int) + 2) 2 = mimc7HashGeneric seed ((q : Int) - 1) 2 2 := by
  rw [mimc7HashGeneric_eq _ _ _ _ (by decide), mimc7HashGeneric_eq _ _ _ _ (by decide)]
  have h1 : imod (-1) q = imod ((q : Int) - 1) q := by decide +kernel
  have h2 : imod ((q : Int) + 2) q = imod 2 q := by decide +kernel
  rw [h1, h2]

/-- the folds on a toy table (no Keccak involved). -/
example : hash [0, 5, 7] [1, 2] none =
    .ok 17102400744946264186493222332431915677491701498074335663068698269843508001789 := by
  decide +kernel
example : hash [0, 5, 7] [] (some (-3)) = .ok (-3) := hash_nil _ _
example : hashGeneric seed (-3) [] 91 = .ok (-3) := hashGeneric_nil _ _ _
example : chunks31 (List.replicate 63 7) =
    [List.replicate 31 7, List.replicate 31 7, [7]] := by decide +kernel
example : (chunks31 (List.replicate 62 7)).length = 2 := by rw [chunks31_length]; rfl

/-! TEST (compiled evaluation, not a kernel proof — 91 Keccak permutations are too slow for the
    kernel): the published 91-round vector `MiMC7(1, 2)` and the multi-element hash of `[1, 2]`. -/
#guard mimc7HashGeneric seed 1 2 91 =
  10594780656576967754230020536574539122676596303354946869887184401991294982664
#guard mimc7Hash Inst.mimcCts 1 2 =
  10594780656576967754230020536574539122676596303354946869887184401991294982664
#guard Spec.Mimc7.mimc7 seed 1 2 91 =
  10594780656576967754230020536574539122676596303354946869887184401991294982664

end I3.Props.C08
