/-
  I3.Props.C05 (source pin) — the Go functions mirrored by the hand-written models of C05 still have the
  source text against which those models were validated, and no function was added to or removed
  from their packages.  Regenerated fingerprints: I3.Gen.fingerprints (tools/gen_pins).
-/
import I3.Gen.Fingerprints
import I3.Model.SourcePin
namespace I3.Props.C05
open I3.SourcePin

def modelled : List String := [
  "ff.BatchInvert",
  "ff.Butterfly@element_ops_amd64.go",
  "ff.Butterfly@element_ops_noasm.go",
  "ff.Element.Add",
  "ff.Element.Div",
  "ff.Element.Double",
  "ff.Element.Equal",
  "ff.Element.Exp",
  "ff.Element.FromMont",
  "ff.Element.Halve",
  "ff.Element.Inverse",
  "ff.Element.IsZero",
  "ff.Element.Mul",
  "ff.Element.Neg",
  "ff.Element.Set",
  "ff.Element.SetBigInt",
  "ff.Element.SetBytes",
  "ff.Element.SetInterface",
  "ff.Element.SetOne",
  "ff.Element.SetRandom",
  "ff.Element.SetString",
  "ff.Element.SetUint64",
  "ff.Element.SetZero",
  "ff.Element.Square",
  "ff.Element.Sub",
  "ff.Element.ToMont",
  "ff.MulBy13@element_ops_amd64.go",
  "ff.MulBy13@element_ops_noasm.go",
  "ff.MulBy3@element_ops_amd64.go",
  "ff.MulBy3@element_ops_noasm.go",
  "ff.MulBy5@element_ops_amd64.go",
  "ff.MulBy5@element_ops_noasm.go",
  "ff.NewElement",
  "ff.NewElementFromUint64",
  "ff.One",
  "ff._addGeneric",
  "ff._butterflyGeneric",
  "ff._doubleGeneric",
  "ff._fromMontGeneric",
  "ff._mulGeneric",
  "ff._negGeneric",
  "ff._reduceGeneric",
  "ff._subGeneric",
  "ff.add@element_ops_amd64.go",
  "ff.add@element_ops_noasm.go",
  "ff.double@element_ops_amd64.go",
  "ff.double@element_ops_noasm.go",
  "ff.fromMont@element_ops_amd64.go",
  "ff.fromMont@element_ops_noasm.go",
  "ff.madd0",
  "ff.madd1",
  "ff.madd2",
  "ff.madd3",
  "ff.mul@element_ops_amd64.go",
  "ff.mul@element_ops_noasm.go",
  "ff.mulByConstant",
  "ff.neg@element_ops_amd64.go",
  "ff.neg@element_ops_noasm.go",
  "ff.reduce@element_ops_amd64.go",
  "ff.reduce@element_ops_noasm.go",
  "ff.sub@element_ops_amd64.go",
  "ff.sub@element_ops_noasm.go",
  "tree.<layout>@ff",
  "tree.<layout>@root",
  "ff.<asm>@element_mul_adx_amd64.s",
  "ff.<asm>@element_mul_amd64.s",
  "ff.<asm>@element_ops_amd64.s",
  "ff.<decls>@arith.go",
  "ff.<decls>@asm.go",
  "ff.<decls>@asm_noadx.go",
  "ff.<decls>@doc.go",
  "ff.<decls>@element.go",
  "ff.<decls>@element_ops_amd64.go",
  "ff.<decls>@element_ops_noasm.go",
  "module.<deps>@go.mod",
  "module.<deps>@go.sum",
  "module.<deps>@vendor"
]

theorem source_pinned : modelled.all (same I3.Gen.fingerprints) = true := by decide +kernel

theorem function_set_pinned : (["ff."] : List String).all (sameKeys I3.Gen.fingerprints) = true := by
  decide +kernel

theorem modelled_nonempty : 77 = modelled.length := by decide

end I3.Props.C05
