/-
  I3.Props.C02 — EdDSA signing follows the circomlib definition and every signature it produces
  verifies.

  Property theorems about `I3.Model.EdDSA.{skToBigInt, publicKey, sign, verify}` (the models of
  `SkToBigInt`, `PrivateKey.Public`, `SignPoseidon` / `SignMimc7`, `VerifyPoseidon` / `VerifyMimc7`
  in /repo/babyjub/eddsa.go) at the regenerated BabyJubJub constants `K = I3.Inst.bjConsts`, against
  the abstract group `I3.Spec.BJJ.curve.Point`: `B8` is the base point of prime order `l`, `•` the
  scalar action of the SPEC group, `coords P` the canonical integer coordinates of a point.

  BLAKE-512 (`blake`) and the five-element field hash (`H : List ℤ → Option ℕ`, `none` = the Go hash
  returned an error) are PARAMETERS: the theorems hold for every `blake` whatsoever (no length
  hypothesis is needed, nor one on the key length) and every `H` that is total on the field
  (`HashTotal H`, defined in `I3.Lemmas.EdDSA`: a value on every vector of five canonical field
  elements); they are then instantiated at the production `Inst.blake`, `Inst.hPoseidon`,
  `Inst.hMimc7`.  Helper lemmas live in `I3.Lemmas.EdDSA`.
-/
import I3.Lemmas.EdDSA
import I3.Props.C06
import I3.Props.C15

namespace I3.Props.C02

open I3 I3.Spec I3.Spec.BJJ I3.Model.BabyJub I3.Model.EdDSA I3.Lemmas.EdDSA
open I3.Lemmas.Compress (SqrtSpec)

attribute [local instance] I3.Lemmas.Bytes.exceptDecEq

/-- the regenerated Go constants -/
abbrev K : Consts := I3.Inst.bjConsts

/-! ## 1. the public key -/

/-- `PrivateKey.Public()` is `s • B8` with `s = SkToBigInt(key)`: a curve point in canonical
coordinates, in the subgroup of order `l`. -/
theorem publicKey_spec (blake : Bytes → Bytes) (key : Bytes) :
    publicKey K blake key = coords (skToBigInt blake key • B8) ∧
      inCurve K (publicKey K blake key) = true ∧
      I3.l • (skToBigInt blake key • B8) = 0 :=
  ⟨publicKey_eq blake key, by rw [publicKey_eq]; exact I3.Lemmas.CurveBridge.inCurve_coords _,
    l_smul_nsmul_B8 _⟩

/-! ## 2. signing never fails in the domain and computes the circomlib signature -/

/-- **Signing never fails** for a message in the field (any key bytes, any `blake`, any total `H`). -/
theorem sign_ok (blake : Bytes → Bytes) (H : List ℤ → Option ℕ) (hT : HashTotal H) (key : Bytes)
    (msg : ℤ) (hm0 : 0 ≤ msg) (hmq : msg < (I3.q : ℤ)) :
    ∃ sig, sign K blake H key msg = .ok sig := by
  obtain ⟨hm, hH⟩ := hash_defined hT (skToBigInt blake key • B8)
    ((leToNat (blake ((blake key).drop 32 ++ bigIntLEBytes msg)) % I3.l) • B8) hm0 hmq
  exact ⟨_, sign_some blake H key msg _ _ hm rfl rfl hH⟩

/-- **The signature is the circomlib one**: with `s = SkToBigInt(key)`, `A = s • B8`,
`r = LE(blake(blake(key)[32:] ‖ LE32(msg))) mod l`, `R8 = r • B8` and
`hm = H [R8.x, R8.y, A.x, A.y, msg]`, the result is `(R8, (r + hm · 8 s) mod l)`;
`R8` is a curve point in canonical coordinates and `0 ≤ S < l`. -/
theorem sign_spec (blake : Bytes → Bytes) (H : List ℤ → Option ℕ) (hT : HashTotal H) (key : Bytes)
    (msg : ℤ) (hm0 : 0 ≤ msg) (hmq : msg < (I3.q : ℤ)) (r s : ℕ)
    (hr : r = leToNat (blake ((blake key).drop 32 ++ natToLE 32 msg.toNat)) % I3.l)
    (hs : s = skToBigInt blake key) :
    ∃ hm, H [(coords (r • B8)).1, (coords (r • B8)).2, (coords (s • B8)).1, (coords (s • B8)).2,
        msg] = some hm ∧
      sign K blake H key msg =
        .ok ⟨coords (r • B8), ((r : ℤ) + (hm : ℤ) * (8 * (s : ℤ))) % (I3.l : ℤ)⟩ ∧
      0 ≤ ((r : ℤ) + (hm : ℤ) * (8 * (s : ℤ))) % (I3.l : ℤ) ∧
      ((r : ℤ) + (hm : ℤ) * (8 * (s : ℤ))) % (I3.l : ℤ) < (I3.l : ℤ) ∧
      inCurve K (coords (r • B8)) = true := by
  have hr' : r = leToNat (blake ((blake key).drop 32 ++ bigIntLEBytes msg)) % I3.l := by
    rw [hr, bigIntLEBytes, natAbs_eq_toNat hm0]
  obtain ⟨hm, hH⟩ := hash_defined hT (s • B8) (r • B8) hm0 hmq
  have e : (8 * (s : ℤ)) = ((s * 8 : ℕ) : ℤ) := by push_cast; ring
  rw [e]
  exact ⟨hm, hH, sign_some blake H key msg r s hm hr' hs hH, (sigS_range r s hm).1,
    (sigS_range r s hm).2, I3.Lemmas.CurveBridge.inCurve_coords _⟩

/-- every signature returned by `sign` — for ANY `blake`, `H`, key and message — has `0 ≤ S < l`
and an `R8` that is a curve point (in the subgroup of order `l`) in canonical coordinates. -/
theorem sign_range (blake : Bytes → Bytes) (H : List ℤ → Option ℕ) (key : Bytes) (msg : ℤ)
    (sig : Sig) (h : sign K blake H key msg = .ok sig) :
    0 ≤ sig.s ∧ sig.s < (I3.l : ℤ) ∧ inCurve K sig.r8 = true ∧
      ∃ R8 : curve.Point, sig.r8 = coords R8 ∧ I3.l • R8 = 0 := by
  obtain ⟨hm, -, rfl⟩ := sign_ok_elim h _ _ rfl rfl
  exact ⟨(sigS_range _ _ hm).1, (sigS_range _ _ hm).2, I3.Lemmas.CurveBridge.inCurve_coords _,
    _, rfl, l_smul_nsmul_B8 _⟩

/-- signing is a function of `(key, msg)`: no randomness, no state -/
theorem sign_deterministic (blake : Bytes → Bytes) (H : List ℤ → Option ℕ) (key : Bytes) (msg : ℤ)
    (sig sig' : Sig) (h : sign K blake H key msg = .ok sig) (h' : sign K blake H key msg = .ok sig') :
    sig = sig' :=
  Except.ok.inj (h.symm.trans h')

/-- the only error `sign` can return is the hash error, and it does so exactly when `H` fails -/
theorem sign_error (blake : Bytes → Bytes) (H : List ℤ → Option ℕ) (key : Bytes) (msg : ℤ)
    (e : I3.Model.EdDSA.Err) (h : sign K blake H key msg = .error e) : e = .hash := by
  cases hH : H [(coords ((leToNat (blake ((blake key).drop 32 ++ bigIntLEBytes msg)) % I3.l) • B8)).1,
      (coords ((leToNat (blake ((blake key).drop 32 ++ bigIntLEBytes msg)) % I3.l) • B8)).2,
      (coords (skToBigInt blake key • B8)).1, (coords (skToBigInt blake key • B8)).2, msg] with
  | none =>
    rw [sign_none blake H key msg _ _ rfl rfl hH] at h
    exact (Except.error.inj h).symm
  | some hm =>
    rw [sign_some blake H key msg _ _ hm rfl rfl hH] at h
    cases h

/-! ## 3. completeness: what `sign` produces, `verify` accepts -/

/-- **Every signature produced by `sign` verifies under the signer's public key** — for ANY
`blake`, ANY `H` (total or not: if `sign` succeeded, `verify` evaluates `H` on the same vector),
any key bytes and any message.  Pure group theory:
`S • B8 = (r + 8 hm s) • B8 = r • B8 + (8 hm) • (s • B8)` since `l • B8 = 0`. -/
theorem sign_verify (blake : Bytes → Bytes) (H : List ℤ → Option ℕ) (key : Bytes) (msg : ℤ)
    (sig : Sig) (h : sign K blake H key msg = .ok sig) :
    verify K H (publicKey K blake key) msg sig = .ok () := by
  obtain ⟨hm, hH, rfl⟩ := sign_ok_elim h _ _ rfl rfl
  rw [publicKey_eq, verify_hash_some H _ _ msg _ hm (sigS_range _ _ hm).1 (sigS_range _ _ hm).2 hH,
    rhsPt_coords, sigS_nsmul, if_pos rfl]

/-- **sign-then-verify** in the domain: a signature exists and verifies -/
theorem sign_ok_verify (blake : Bytes → Bytes) (H : List ℤ → Option ℕ) (hT : HashTotal H)
    (key : Bytes) (msg : ℤ) (hm0 : 0 ≤ msg) (hmq : msg < (I3.q : ℤ)) :
    ∃ sig, sign K blake H key msg = .ok sig ∧
      verify K H (publicKey K blake key) msg sig = .ok () := by
  obtain ⟨sig, h⟩ := sign_ok blake H hT key msg hm0 hmq
  exact ⟨sig, h, sign_verify blake H key msg sig h⟩

/-! ## 4. … also after a trip through the 64-byte and 32-byte encodings -/

/-- the signature and the public key survive `Compress` / `Decompress` unchanged, so the decoded
signature verifies under the decoded key.  `sqrtFn` is any square-root routine satisfying
`SqrtSpec` (C06); the decoded values are forced to be `sig` and the public key themselves. -/
theorem sign_verify_roundtrip (sqrtFn : ℕ → Option ℕ) (hs : SqrtSpec sqrtFn)
    (blake : Bytes → Bytes) (H : List ℤ → Option ℕ) (key : Bytes) (msg : ℤ) (sig : Sig)
    (h : sign K blake H key msg = .ok sig) :
    ∃ sig' pk', sigDecompress K sqrtFn (sigCompress K sig) = .ok sig' ∧
      decompress K sqrtFn (compress K (publicKey K blake key)) = .ok pk' ∧
      sig' = sig ∧ pk' = publicKey K blake key ∧ verify K H pk' msg sig' = .ok () := by
  have hv := sign_verify blake H key msg sig h
  obtain ⟨h0, hl, -, R8, hR8, -⟩ := sign_range blake H key msg sig h
  have hpt : decompress K sqrtFn (compress K sig.r8) = .ok sig.r8 := by
    rw [hR8]; exact I3.Props.C06.decompress_compress sqrtFn hs R8
  have hpk : decompress K sqrtFn (compress K (publicKey K blake key)) =
      .ok (publicKey K blake key) := by
    rw [publicKey_eq]; exact I3.Props.C06.decompress_compress sqrtFn hs _
  have h256 : sig.s < 2 ^ 256 := lt_trans hl l_lt_two_pow_256
  exact ⟨sig, publicKey K blake key,
    I3.Props.C15.sigDecompress_sigCompress K sqrtFn sig hpt h0 h256, hpk, rfl, rfl, hv⟩

/-! ## 5. the production instances: BLAKE-512 with Poseidon, and with MiMC7 -/

theorem hPoseidon_total : HashTotal Inst.hPoseidon := I3.Lemmas.EdDSA.hPoseidon_total
theorem hMimc7_total : HashTotal Inst.hMimc7 := I3.Lemmas.EdDSA.hMimc7_total

/-- `SignPoseidon` then `VerifyPoseidon`: for every key and every message in the field -/
theorem sign_verify_poseidon (key : Bytes) (msg : ℤ) (hm0 : 0 ≤ msg) (hmq : msg < (I3.q : ℤ)) :
    ∃ sig, sign K Inst.blake Inst.hPoseidon key msg = .ok sig ∧
      verify K Inst.hPoseidon (publicKey K Inst.blake key) msg sig = .ok () :=
  sign_ok_verify Inst.blake Inst.hPoseidon hPoseidon_total key msg hm0 hmq

/-- `SignMimc7` then `VerifyMimc7`: for every key and every message in the field -/
theorem sign_verify_mimc7 (key : Bytes) (msg : ℤ) (hm0 : 0 ≤ msg) (hmq : msg < (I3.q : ℤ)) :
    ∃ sig, sign K Inst.blake Inst.hMimc7 key msg = .ok sig ∧
      verify K Inst.hMimc7 (publicKey K Inst.blake key) msg sig = .ok () :=
  sign_ok_verify Inst.blake Inst.hMimc7 hMimc7_total key msg hm0 hmq

/-- outside the field the message is refused by both signers with the hash error (never reduced) -/
theorem sign_msg_out_of_field (key : Bytes) (msg : ℤ) (hmsg : msg < 0 ∨ (I3.q : ℤ) ≤ msg) :
    sign K Inst.blake Inst.hPoseidon key msg = .error .hash ∧
      sign K Inst.blake Inst.hMimc7 key msg = .error .hash :=
  ⟨sign_none _ _ key msg _ _ rfl rfl (hPoseidon_none _ ⟨msg, by simp, hmsg⟩),
    sign_none _ _ key msg _ _ rfl rfl (hMimc7_none _ ⟨msg, by simp, hmsg⟩)⟩

/-- production round trip (Poseidon): sign, compress both, decompress both with the production
square root `Inst.sqrtQ`, verify. -/
theorem sign_verify_roundtrip_poseidon (key : Bytes) (msg : ℤ) (hm0 : 0 ≤ msg)
    (hmq : msg < (I3.q : ℤ)) :
    ∃ sig sig' pk', sign K Inst.blake Inst.hPoseidon key msg = .ok sig ∧
      sigDecompress K Inst.sqrtQ (sigCompress K sig) = .ok sig' ∧
      decompress K Inst.sqrtQ (compress K (publicKey K Inst.blake key)) = .ok pk' ∧
      verify K Inst.hPoseidon pk' msg sig' = .ok () := by
  obtain ⟨sig, h⟩ := sign_ok Inst.blake Inst.hPoseidon hPoseidon_total key msg hm0 hmq
  obtain ⟨sig', pk', h1, h2, -, -, h3⟩ :=
    sign_verify_roundtrip Inst.sqrtQ I3.Props.C06.sqrtQ_spec Inst.blake Inst.hPoseidon key msg sig h
  exact ⟨sig, sig', pk', h, h1, h2, h3⟩

/-- production round trip (MiMC7) -/
theorem sign_verify_roundtrip_mimc7 (key : Bytes) (msg : ℤ) (hm0 : 0 ≤ msg)
    (hmq : msg < (I3.q : ℤ)) :
    ∃ sig sig' pk', sign K Inst.blake Inst.hMimc7 key msg = .ok sig ∧
      sigDecompress K Inst.sqrtQ (sigCompress K sig) = .ok sig' ∧
      decompress K Inst.sqrtQ (compress K (publicKey K Inst.blake key)) = .ok pk' ∧
      verify K Inst.hMimc7 pk' msg sig' = .ok () := by
  obtain ⟨sig, h⟩ := sign_ok Inst.blake Inst.hMimc7 hMimc7_total key msg hm0 hmq
  obtain ⟨sig', pk', h1, h2, -, -, h3⟩ :=
    sign_verify_roundtrip Inst.sqrtQ I3.Props.C06.sqrtQ_spec Inst.blake Inst.hMimc7 key msg sig h
  exact ⟨sig, sig', pk', h, h1, h2, h3⟩

/-! ## 6. non-vacuity: the Go test vectors of /repo/babyjub/eddsa_test.go, evaluated by the kernel

key = 0001020304050607080900010203040506070809000102030405060708090001 (hex),
msg = LE(00 01 02 … 09) = 42649378395939397566720. -/

/-- `TestPublicKey` / `TestSignVerifyPoseidon`: `pk.X`, `pk.Y` -/
example : publicKey K Inst.blake
    [0, 1, 2, 3, 4, 5, 6, 7, 8, 9, 0, 1, 2, 3, 4, 5, 6, 7, 8, 9, 0, 1, 2, 3, 4, 5, 6, 7, 8, 9, 0, 1] =
    (13277427435165878497778222415993513565335242147425444199013288855685581939618,
     13622229784656158136036771217484571176836296686641868549125388198837476602820) := by
  decide +kernel

/-- `TestSignVerifyPoseidon`: `sig.R8.X`, `sig.R8.Y`, `sig.S` -/
example : (match sign K Inst.blake Inst.hPoseidon
      [0, 1, 2, 3, 4, 5, 6, 7, 8, 9, 0, 1, 2, 3, 4, 5, 6, 7, 8, 9, 0, 1, 2, 3, 4, 5, 6, 7, 8, 9, 0, 1]
      42649378395939397566720 with
    | .ok s => some (s.r8, s.s) | .error _ => none) =
    some ((11384336176656855268977457483345535180380036354188103142384839473266348197733,
           15383486972088797283337779941324724402501462225528836549661220478783371668959),
          1672775540645840396591609181675628451599263765380031905495115170613215233181) := by
  decide +kernel

/-- … and that signature verifies (kernel evaluation of the model, independent of `sign_verify`) -/
example : verify K Inst.hPoseidon
    (13277427435165878497778222415993513565335242147425444199013288855685581939618,
     13622229784656158136036771217484571176836296686641868549125388198837476602820)
    42649378395939397566720
    ⟨(11384336176656855268977457483345535180380036354188103142384839473266348197733,
      15383486972088797283337779941324724402501462225528836549661220478783371668959),
     1672775540645840396591609181675628451599263765380031905495115170613215233181⟩ = .ok () := by
  decide +kernel

/-- its 64-byte encoding is the one asserted by the Go test
(`dfedb431…bcbe02a2 9d043ece…e5c1b203`) -/
example : sigCompress K
    ⟨(11384336176656855268977457483345535180380036354188103142384839473266348197733,
      15383486972088797283337779941324724402501462225528836549661220478783371668959),
     1672775540645840396591609181675628451599263765380031905495115170613215233181⟩ =
    [0xdf, 0xed, 0xb4, 0x31, 0x5d, 0x3f, 0x2e, 0xb4, 0xde, 0x2d, 0x3c, 0x51, 0x0d, 0x7a, 0x98, 0x7d,
     0xca, 0xb6, 0x70, 0x89, 0xc8, 0xac, 0xe0, 0x63, 0x08, 0x82, 0x7b, 0xf5, 0xbc, 0xbe, 0x02, 0xa2,
     0x9d, 0x04, 0x3e, 0xce, 0x56, 0x2a, 0x8f, 0x82, 0xbf, 0xc0, 0xad, 0xb6, 0x40, 0xc0, 0x10, 0x7a,
     0x7d, 0x3a, 0x27, 0xc1, 0xc7, 0xc1, 0xa6, 0x17, 0x9a, 0x0d, 0xa7, 0x3d, 0xe5, 0xc1, 0xb2, 0x03] := by
  decide +kernel

/-- the general theorems instantiated on that key and message -/
example : ∃ sig, sign K Inst.blake Inst.hMimc7
      [0, 1, 2, 3, 4, 5, 6, 7, 8, 9, 0, 1, 2, 3, 4, 5, 6, 7, 8, 9, 0, 1, 2, 3, 4, 5, 6, 7, 8, 9, 0, 1]
      42649378395939397566720 = .ok sig ∧
    verify K Inst.hMimc7 (publicKey K Inst.blake
      [0, 1, 2, 3, 4, 5, 6, 7, 8, 9, 0, 1, 2, 3, 4, 5, 6, 7, 8, 9, 0, 1, 2, 3, 4, 5, 6, 7, 8, 9, 0, 1])
      42649378395939397566720 sig = .ok () :=
  sign_verify_mimc7 _ _ (by decide) (by decide)

/-- the empty key and the largest message `q - 1` are in the domain too -/
example : ∃ sig, sign K Inst.blake Inst.hPoseidon [] ((I3.q : ℤ) - 1) = .ok sig ∧
    verify K Inst.hPoseidon (publicKey K Inst.blake []) ((I3.q : ℤ) - 1) sig = .ok () :=
  sign_verify_poseidon _ _ (by decide) (by decide)

/-- `msg = q` is refused -/
example : sign K Inst.blake Inst.hPoseidon [] (I3.q : ℤ) = .error .hash :=
  (sign_msg_out_of_field [] _ (Or.inr (le_refl _))).1

end I3.Props.C02
