/-
  I3.Props.C09Limbs — C09 (Goldilocks arithmetic, p = 2^64 − 2^32 + 1), Go kernels of package `ffg`.

  Every theorem is about the definitions REGENERATED from /repo/ffg/element.go, /repo/ffg/arith.go by
  the limb translator (I3.Gen.FFGLimbs, namespace `I3.Gen.FFG`) with the `uint64` semantics of
  I3.Exec.Word.  An element is ONE word; canonical means `< P`; the modulus leaves no spare bit
  (`P < W = 2^64 < 2P`), so `add`/`double` have a carry-out branch and the Montgomery product an
  overflow word — both branches are covered, the theorems quantify over ALL canonical operands
  (all `2^128` pairs) and, for construction from an integer, over ALL `2^64` words.
  `R = 2^64` is the Montgomery radix, `toF v = v · R⁻¹ : ZMod P` (`P = I3.gp`, prime by I3.Spec.Primes).
  Helper lemmas: I3.Lemmas.LimbsG, I3.Lemmas.LimbsField, tactic I3.Lemmas.LimbTac.
  (`Halve` of package `ffg` is not a limb kernel — it multiplies by the inverse of 2 — and is not here.)
-/
import I3.Lemmas.LimbsField

namespace I3.Props.C09

open I3.Word I3.Gen.FFG I3.LimbsG

/-! ## 1. kernels on canonical words (`z` = arbitrary initial content of the destination) -/

/-- `_addGeneric`, including the carry-out branch (`x + y ≥ 2^64`). -/
theorem add_ok (z x y : Nat) (hx : x < P) (hy : y < P) : addGeneric z x y = (x + y) % P :=
  I3.LimbsG.add_ok z x y hx hy

/-- `_doubleGeneric`. -/
theorem double_ok (z x : Nat) (hx : x < P) : doubleGeneric z x = (2 * x) % P :=
  I3.LimbsG.double_ok z x hx

/-- `_subGeneric`. -/
theorem sub_ok (z x y : Nat) (hx : x < P) (hy : y < P) : subGeneric z x y = (x + (P - y)) % P :=
  I3.LimbsG.sub_ok z x y hx hy

/-- `_negGeneric` (`−0 = 0`). -/
theorem neg_ok (z x : Nat) (hx : x < P) : negGeneric z x = (P - x) % P :=
  I3.LimbsG.neg_ok z x hx

/-- `_reduceGeneric` canonicalises EVERY word (`2^64 < 2p`). -/
theorem reduce_ok (z : Nat) (hz : z < W) : reduceGeneric z = z % P :=
  I3.LimbsG.reduce_ok z hz

/-- `_mulGeneric` with its overflow word: canonical `r` with `r·R ≡ x·y (mod p)`. -/
theorem mul_ok (z x y : Nat) (hx : x < P) (hy : y < P) :
    mulGeneric z x y < P ∧ (mulGeneric z x y * R) % P = (x * y) % P :=
  I3.LimbsG.mul_ok z x y hx hy

/-- the same in closed form: `x·y·R⁻¹ mod p`. -/
theorem mul_closed (z x y : Nat) (hx : x < P) (hy : y < P) :
    mulGeneric z x y = (x * y * Rinv) % P :=
  I3.LimbsG.mul_closed z x y hx hy

/-- `Square` = `_mulGeneric` with both operand pointers equal. -/
theorem square_ok (z x : Nat) (hx : x < P) :
    mulGeneric_xy z x < P ∧ (mulGeneric_xy z x * R) % P = (x * x) % P :=
  I3.LimbsG.mul_ok z x x hx hx

/-- Montgomery product of ANY 64-bit word `v` (possibly `≥ p`) with a canonical element: the
intermediate `t = (v·y + m·p)/2^64` is still `< 2p`.  This is what `SetUint64` relies on. -/
theorem mul_word_ok (z v y : Nat) (hv : v < W) (hy : y < P) :
    mulGeneric z v y < P ∧ (mulGeneric z v y * R) % P = (v * y) % P :=
  I3.LimbsG.mul_word_ok z v y hv hy

/-- `_fromMontGeneric`: canonical `r` with `r·R ≡ z (mod p)`, for ANY word `z`. -/
theorem fromMont_ok (z : Nat) (hz : z < W) :
    fromMontGeneric z < P ∧ (fromMontGeneric z * R) % P = z % P :=
  I3.LimbsG.fromMont_ok z hz

/-- the `rSquare` literal of element.go is `R² mod p`. -/
theorem rSquare_ok : (18446744065119617025 : Nat) = (R * R) % P := I3.LimbsG.rSquare_val

/-- `SetUint64 v` / `NewElementFromUint64 v` is the Montgomery form of `v mod p`, for EVERY 64-bit `v`
(including `p ≤ v < 2^64`). -/
theorem setUint64_ok (v : Nat) (hv : v < W) : setUint64 v = (v * R) % P :=
  I3.LimbsG.setUint64_ok v hv

/-- constructing an element from any 64-bit integer and reading it back (`ToUint64Regular`) yields the
integer's residue modulo `p`. -/
theorem fromMont_setUint64 (v : Nat) (hv : v < W) : fromMontGeneric (setUint64 v) = v % P :=
  I3.LimbsG.fromMont_setUint64 v hv

/-- `mulByConstant` for EVERY word constant (branches 0, 1, 2, 3, 5 and the generic one). -/
theorem mulByConstant_ok (z c : Nat) (hz : z < P) (hc : c < W) : mulByConstant z c = (c * z) % P :=
  I3.LimbsG.mulByConstant_ok z c hz hc

theorem mulBy3_ok (z : Nat) (hz : z < P) : mulByConstant z 3 = (3 * z) % P :=
  I3.LimbsG.mulByConstant_ok z 3 hz (by decide)
theorem mulBy5_ok (z : Nat) (hz : z < P) : mulByConstant z 5 = (5 * z) % P :=
  I3.LimbsG.mulByConstant_ok z 5 hz (by decide)
theorem mulBy13_ok (z : Nat) (hz : z < P) : mulByConstant z 13 = (13 * z) % P :=
  I3.LimbsG.mulByConstant_ok z 13 hz (by decide)

/-- `_butterflyGeneric`: `(a, b) ↦ (a + b, a − b)`. -/
theorem butterfly_ok (a b : Nat) (ha : a < P) (hb : b < P) :
    butterflyGeneric a b = ((a + b) % P, (a + (P - b)) % P) :=
  I3.LimbsG.butterfly_ok a b ha hb

/-! ## 2. aliasing: the destination is the same object as an operand -/

theorem add_zx (a z y : Nat) : addGeneric_zx z y = addGeneric a z y := I3.LimbsG.add_zx a z y
theorem add_zy (a z x : Nat) : addGeneric_zy z x = addGeneric a x z := I3.LimbsG.add_zy a z x
theorem add_xy (z x : Nat) : addGeneric_xy z x = addGeneric z x x := I3.LimbsG.add_xy z x
theorem add_zxy (a z : Nat) : addGeneric_zxy z = addGeneric a z z := I3.LimbsG.add_zxy a z
theorem double_zx (a z : Nat) : doubleGeneric_zx z = doubleGeneric a z := I3.LimbsG.double_zx a z
theorem sub_zx (a z y : Nat) : subGeneric_zx z y = subGeneric a z y := I3.LimbsG.sub_zx a z y
theorem sub_zy (a z x : Nat) : subGeneric_zy z x = subGeneric a x z := I3.LimbsG.sub_zy a z x
theorem sub_xy (z x : Nat) : subGeneric_xy z x = subGeneric z x x := I3.LimbsG.sub_xy z x
theorem sub_zxy (a z : Nat) : subGeneric_zxy z = subGeneric a z z := I3.LimbsG.sub_zxy a z
theorem neg_zx (a z : Nat) : negGeneric_zx z = negGeneric a z := I3.LimbsG.neg_zx a z
theorem mul_zx (a z y : Nat) : mulGeneric_zx z y = mulGeneric a z y := I3.LimbsG.mul_zx a z y
theorem mul_zy (a z x : Nat) : mulGeneric_zy z x = mulGeneric a x z := I3.LimbsG.mul_zy a z x
theorem mul_xy (z x : Nat) : mulGeneric_xy z x = mulGeneric z x x := I3.LimbsG.mul_xy z x
theorem mul_zxy (a z : Nat) : mulGeneric_zxy z = mulGeneric a z z := I3.LimbsG.mul_zxy a z

/-! ### the correctness statements for the aliased calls -/

theorem add_zx_ok (z y : Nat) (hz : z < P) (hy : y < P) : addGeneric_zx z y = (z + y) % P := by
  rw [add_zx 0]; exact add_ok 0 z y hz hy
theorem add_zy_ok (z x : Nat) (hz : z < P) (hx : x < P) : addGeneric_zy z x = (x + z) % P := by
  rw [add_zy 0]; exact add_ok 0 x z hx hz
theorem add_xy_ok (z x : Nat) (hx : x < P) : addGeneric_xy z x = (x + x) % P := by
  rw [add_xy]; exact add_ok z x x hx hx
theorem add_zxy_ok (z : Nat) (hz : z < P) : addGeneric_zxy z = (z + z) % P := by
  rw [add_zxy 0]; exact add_ok 0 z z hz hz
theorem double_zx_ok (z : Nat) (hz : z < P) : doubleGeneric_zx z = (2 * z) % P := by
  rw [double_zx 0]; exact double_ok 0 z hz
theorem sub_zx_ok (z y : Nat) (hz : z < P) (hy : y < P) : subGeneric_zx z y = (z + (P - y)) % P := by
  rw [sub_zx 0]; exact sub_ok 0 z y hz hy
theorem sub_zy_ok (z x : Nat) (hz : z < P) (hx : x < P) : subGeneric_zy z x = (x + (P - z)) % P := by
  rw [sub_zy 0]; exact sub_ok 0 x z hx hz
theorem sub_xy_ok (z x : Nat) (hx : x < P) : subGeneric_xy z x = (x + (P - x)) % P := by
  rw [sub_xy]; exact sub_ok z x x hx hx
theorem sub_zxy_ok (z : Nat) (hz : z < P) : subGeneric_zxy z = (z + (P - z)) % P := by
  rw [sub_zxy 0]; exact sub_ok 0 z z hz hz
theorem neg_zx_ok (z : Nat) (hz : z < P) : negGeneric_zx z = (P - z) % P := by
  rw [neg_zx 0]; exact neg_ok 0 z hz
theorem mul_zx_ok (z y : Nat) (hz : z < P) (hy : y < P) :
    mulGeneric_zx z y < P ∧ (mulGeneric_zx z y * R) % P = (z * y) % P := by
  rw [mul_zx 0]; exact mul_ok 0 z y hz hy
theorem mul_zy_ok (z x : Nat) (hz : z < P) (hx : x < P) :
    mulGeneric_zy z x < P ∧ (mulGeneric_zy z x * R) % P = (x * z) % P := by
  rw [mul_zy 0]; exact mul_ok 0 x z hx hz
theorem mul_zxy_ok (z : Nat) (hz : z < P) :
    mulGeneric_zxy z < P ∧ (mulGeneric_zxy z * R) % P = (z * z) % P := by
  rw [mul_zxy 0]; exact mul_ok 0 z z hz hz

/-! ## 3. the same statements in the field `ZMod p` -/

theorem modulus_eq : P = I3.gp := I3.LimbsG.P_eq
theorem modulus_prime : Nat.Prime P := I3.LimbsG.P_eq ▸ I3.gp_prime

theorem add_field (z x y : Nat) (hx : x < P) (hy : y < P) :
    addGeneric z x y < P ∧ toF (addGeneric z x y) = toF x + toF y :=
  ⟨add_ok z x y hx hy ▸ Nat.mod_lt _ (by decide), toF_add _ _ _ (add_ok z x y hx hy)⟩

theorem sub_field (z x y : Nat) (hx : x < P) (hy : y < P) :
    subGeneric z x y < P ∧ toF (subGeneric z x y) = toF x - toF y :=
  ⟨sub_ok z x y hx hy ▸ Nat.mod_lt _ (by decide), toF_sub _ _ _ hy (sub_ok z x y hx hy)⟩

theorem neg_field (z x : Nat) (hx : x < P) :
    negGeneric z x < P ∧ toF (negGeneric z x) = - toF x :=
  ⟨neg_ok z x hx ▸ Nat.mod_lt _ (by decide), toF_neg _ _ hx (neg_ok z x hx)⟩

theorem double_field (z x : Nat) (hx : x < P) :
    doubleGeneric z x < P ∧ toF (doubleGeneric z x) = 2 * toF x :=
  ⟨double_ok z x hx ▸ Nat.mod_lt _ (by decide), by
    rw [toF_smul _ _ _ (double_ok z x hx)]; norm_num⟩

theorem mul_field (z x y : Nat) (hx : x < P) (hy : y < P) :
    mulGeneric z x y < P ∧ toF (mulGeneric z x y) = toF x * toF y :=
  ⟨(mul_ok z x y hx hy).1, toF_mul _ _ _ (mul_ok z x y hx hy).2⟩

theorem square_field (z x : Nat) (hx : x < P) :
    mulGeneric_xy z x < P ∧ toF (mulGeneric_xy z x) = toF x ^ 2 :=
  ⟨(square_ok z x hx).1, by rw [toF_mul _ _ _ (square_ok z x hx).2, sq]⟩

/-- `fromMont` returns the canonical integer of the represented field element. -/
theorem fromMont_field (z : Nat) (hz : z < W) :
    fromMontGeneric z < P ∧ ((fromMontGeneric z : Nat) : ZMod P) = toF z :=
  ⟨(fromMont_ok z hz).1, cast_fromMont _ _ (fromMont_ok z hz).2⟩

/-- `SetUint64 v` represents the field element `v` — for every 64-bit `v`. -/
theorem setUint64_field (v : Nat) (hv : v < W) :
    setUint64 v < P ∧ toF (setUint64 v) = (v : ZMod P) :=
  ⟨setUint64_ok v hv ▸ Nat.mod_lt _ (by decide), toF_toMont _ _ (setUint64_ok v hv)⟩

theorem mulByConstant_field (z c : Nat) (hz : z < P) (hc : c < W) :
    mulByConstant z c < P ∧ toF (mulByConstant z c) = (c : ZMod P) * toF z :=
  ⟨mulByConstant_ok z c hz hc ▸ Nat.mod_lt _ (by decide), toF_smul _ _ _ (mulByConstant_ok z c hz hc)⟩

theorem butterfly_field (a b : Nat) (ha : a < P) (hb : b < P) :
    (butterflyGeneric a b).1 < P ∧ (butterflyGeneric a b).2 < P ∧
    toF (butterflyGeneric a b).1 = toF a + toF b ∧ toF (butterflyGeneric a b).2 = toF a - toF b := by
  rw [butterfly_ok a b ha hb]
  exact ⟨Nat.mod_lt _ (by decide), Nat.mod_lt _ (by decide), toF_add _ _ _ rfl, toF_sub _ _ _ hb rfl⟩

/-! ## 4. non-vacuity: the kernels evaluated on boundary operands (kernel evaluation, `decide`) -/

/-- `p − 1` is canonical and the word leaves no spare bit -/
example : (18446744069414584320 : Nat) < P ∧ P < W ∧ W < 2 * P := by decide
/-- `(p − 1) + (p − 1) = p − 2`: the 64-bit sum overflows (carry-out branch) -/
example : addGeneric 7 18446744069414584320 18446744069414584320 = 18446744069414584319 := by decide
/-- `(p − 1) + 1 = 0`: sum exactly `p`, no carry, final subtraction -/
example : addGeneric 7 18446744069414584320 1 = 0 := by decide
/-- `2^63 + 2^63 = 2^64 mod p = 2^32 − 1`: sum exactly `2^64` -/
example : doubleGeneric 0 9223372036854775808 = 4294967295 := by decide
/-- `0 − 1 = p − 1`, `−0 = 0` -/
example : subGeneric 0 0 1 = 18446744069414584320 ∧ negGeneric 5 0 = 0 := by decide
/-- `(p − 1)·(p − 1)·R⁻¹`: Montgomery intermediate with maximal high word -/
example : mulGeneric 0 18446744069414584320 18446744069414584320 = 18446744065119617025 := by decide
/-- `SetUint64 (2^64 − 1)` (an integer `≥ p`) and back: `2^64 − 1 mod p = 2^32 − 2` -/
example : setUint64 18446744073709551615 = 18446744060824649730 ∧
    fromMontGeneric (setUint64 18446744073709551615) = 4294967294 := by decide
/-- `SetUint64 p = 0` -/
example : setUint64 18446744069414584321 = 0 := by decide
/-- `MulBy13 one` through the generic branch -/
example : mulByConstant 4294967295 13 = 55834574835 := by decide

end I3.Props.C09
