/-
  I3.Props.C11SafeIface — `Element.SetInterface` never panics on an accepted dynamic type (both fields), about the
  CHECKED variants that T6 regenerates case by case (`…SetInterface_case_<type>_ok`, I3/Gen/GoChkFFLimb.lean,
  GoChkFFGLimb.lean): every uint64, int, *big.Int, big.Int, []byte and Element value, every destination of the right
  length.  The `string` case panics exactly when `SetString` does (a string that is not a decimal integer) — that is
  the library's documented behaviour, outside C11's "decimal string" domain.  The default clause returns an error.

  Technique (see I3.Lemmas.GoBridgeCodec): the case is unfolded at function level, the setter and its checked variant
  are generalised to function variables, and the remaining steps live in an auxiliary lemma, so that the kernel never
  evaluates the real setters on open terms.
-/
import I3.Props.C11Safe

set_option maxRecDepth 100000

namespace I3.Props.C11SafeIface
open I3 I3.Gen.Go I3.GoSafe I3.Props.C11Safe

/-- `case_ok f g g_ok h`: the checked case `f` (which requires `g_ok z c` and then calls `g z c`) is `true`, given
    `h : g_ok z c = true` -/
local macro "case_ok " f:ident g:ident gok:ident h:term : tactic =>
  `(tactic| (have hok := $h; have hf := @rfl _ $f; conv at hf => rhs; delta $f
             rw [hf]; clear hf; generalize $gok = G at hok ⊢; generalize $g = F
             as_aux_lemma => (beta_reduce; rw [req_of hok])))

/-! ## /repo/ff -/

theorem ff_uint64_ok (z : List Nat) (v : Nat) : ffl_Element_SetInterface_case_uint64_ok z v = true := by
  case_ok ffl_Element_SetInterface_case_uint64_ok ffl_Element_SetUint64 ffl_Element_SetUint64_ok
    (ffl_Element_SetUint64_ok_true z v)

theorem ff_int_ok {z : List Nat} (hz : z.length = 4) (v : Int) : ffl_Element_SetInterface_case_int_ok z v = true := by
  case_ok ffl_Element_SetInterface_case_int_ok ffl_Element_SetString ffl_Element_SetString_ok
    (ffl_Element_SetString_ok_toString hz v)

theorem ff_string_ok_iff {z : List Nat} (hz : z.length = 4) (s : String) :
    ffl_Element_SetInterface_case_string_ok z s = true ↔ (Go.big.setString s 10).2 = true := by
  rw [← ffl_Element_SetString_ok_iff hz s]
  have hf := @rfl _ ffl_Element_SetInterface_case_string_ok
  conv at hf => rhs; delta ffl_Element_SetInterface_case_string_ok
  rw [hf]; clear hf
  generalize ffl_Element_SetString_ok = G
  generalize ffl_Element_SetString = F
  as_aux_lemma =>
    beta_reduce
    rw [req_eq_true_iff]
    exact ⟨fun h => h.1, fun h => ⟨h, rfl⟩⟩

theorem ff_bigIntPtr_ok {z : List Nat} (hz : z.length = 4) (v : Int) :
    ffl_Element_SetInterface_case_ptr_big_Int_ok z v = true := by
  case_ok ffl_Element_SetInterface_case_ptr_big_Int_ok ffl_Element_SetBigInt ffl_Element_SetBigInt_ok
    (ffl_Element_SetBigInt_ok_true hz v)

theorem ff_bigInt_ok {z : List Nat} (hz : z.length = 4) (v : Int) :
    ffl_Element_SetInterface_case_big_Int_ok z v = true := by
  case_ok ffl_Element_SetInterface_case_big_Int_ok ffl_Element_SetBigInt ffl_Element_SetBigInt_ok
    (ffl_Element_SetBigInt_ok_true hz v)

theorem ff_bytes_ok {z : List Nat} (hz : z.length = 4) (bs : List UInt8) :
    ffl_Element_SetInterface_case_slice_byte_ok z bs = true := by
  case_ok ffl_Element_SetInterface_case_slice_byte_ok ffl_Element_SetBytes ffl_Element_SetBytes_ok
    (ffl_Element_SetBytes_ok_true hz bs)

theorem ff_element_ok {z l : List Nat} (hz : z.length = 4) (hl : l.length = 4) :
    ffl_Element_SetInterface_case_ff_Element_ok z l = true ∧ ffl_Element_SetInterface_case_ptr_ff_Element_ok z l = true := by
  constructor
  · case_ok ffl_Element_SetInterface_case_ff_Element_ok ffl_Element_Set ffl_Element_Set_ok (ffl_Element_Set_ok_true hz hl)
  · case_ok ffl_Element_SetInterface_case_ptr_ff_Element_ok ffl_Element_Set ffl_Element_Set_ok (ffl_Element_Set_ok_true hz hl)

theorem ff_default_ok (z : List Nat) (ty : String) : ffl_Element_SetInterface_default_ok z ty = true := rfl

/-! ## /repo/ffg -/

theorem ffg_uint64_ok (z : List Nat) (v : Nat) : ffgl_Element_SetInterface_case_uint64_ok z v = true := by
  case_ok ffgl_Element_SetInterface_case_uint64_ok ffgl_Element_SetUint64 ffgl_Element_SetUint64_ok
    (ffgl_Element_SetUint64_ok_true z v)

theorem ffg_int_ok {z : List Nat} (hz : z.length = 1) (v : Int) : ffgl_Element_SetInterface_case_int_ok z v = true := by
  case_ok ffgl_Element_SetInterface_case_int_ok ffgl_Element_SetString ffgl_Element_SetString_ok
    (ffgl_Element_SetString_ok_toString hz v)

theorem ffg_bigIntPtr_ok {z : List Nat} (hz : z.length = 1) (v : Int) :
    ffgl_Element_SetInterface_case_ptr_big_Int_ok z v = true := by
  case_ok ffgl_Element_SetInterface_case_ptr_big_Int_ok ffgl_Element_SetBigInt ffgl_Element_SetBigInt_ok
    (ffgl_Element_SetBigInt_ok_true hz v)

theorem ffg_bigInt_ok {z : List Nat} (hz : z.length = 1) (v : Int) :
    ffgl_Element_SetInterface_case_big_Int_ok z v = true := by
  case_ok ffgl_Element_SetInterface_case_big_Int_ok ffgl_Element_SetBigInt ffgl_Element_SetBigInt_ok
    (ffgl_Element_SetBigInt_ok_true hz v)

theorem ffg_bytes_ok {z : List Nat} (hz : z.length = 1) (bs : List UInt8) :
    ffgl_Element_SetInterface_case_slice_byte_ok z bs = true := by
  case_ok ffgl_Element_SetInterface_case_slice_byte_ok ffgl_Element_SetBytes ffgl_Element_SetBytes_ok
    (ffgl_Element_SetBytes_ok_true hz bs)

theorem ffg_element_ok {z l : List Nat} (hz : z.length = 1) (hl : l.length = 1) :
    ffgl_Element_SetInterface_case_ffg_Element_ok z l = true ∧ ffgl_Element_SetInterface_case_ptr_ffg_Element_ok z l = true := by
  constructor
  · case_ok ffgl_Element_SetInterface_case_ffg_Element_ok ffgl_Element_Set ffgl_Element_Set_ok (ffgl_Element_Set_ok_true hz hl)
  · case_ok ffgl_Element_SetInterface_case_ptr_ffg_Element_ok ffgl_Element_Set ffgl_Element_Set_ok (ffgl_Element_Set_ok_true hz hl)

theorem ffg_default_ok (z : List Nat) (ty : String) : ffgl_Element_SetInterface_default_ok z ty = true := rfl

end I3.Props.C11SafeIface
