/-
  I3.Props.C20Blake — the streaming state machine of github.com/dchest/blake512 (as modelled in
  `I3.Model.BlakeStream`) computes the one-shot reference `I3.Blake.blake512` on every message.
-/
import I3.Model.BlakeStream
namespace I3.Props.C20
open I3 I3.Blake I3.Model.BlakeStream

/-! ### reference side -/

theorem wordBE_length (w : UInt64) : (wordBE w).length = 8 := by simp [wordBE]

theorem digestBytes_length (h : Array UInt64) : (digestBytes h).length = 64 := by
  simp [digestBytes, List.range, List.range.loop, wordBE_length]

theorem blake_digest_length (m : Bytes) : (Blake.blake512 m).length = 64 := by
  simp [blake512, digestBytes_length]

theorem blocks_append (L : Nat) (n1 n2 : Nat) (h : Array UInt64) (xs ys : Bytes) (i : Nat)
    (hx : xs.length = 128 * n1) :
    blocks L h (n1 + n2) (xs ++ ys) i = blocks L (blocks L h n1 xs i) n2 ys (i + n1) := by
  induction n1 generalizing h xs i with
  | zero =>
    have : xs = [] := by simpa using hx
    subst this; simp [blocks]
  | succ n ih =>
    have e : n + 1 + n2 = (n + n2) + 1 := by omega
    have hl : 128 ≤ xs.length := by omega
    rw [e, blocks, blocks, List.take_append_of_le_length hl, List.drop_append_of_le_length hl,
        ih _ _ _ (by simp; omega)]
    congr 1; omega

/-- the bytes appended by `pad`. -/
def padSuffix (L : Nat) : Bytes :=
  let r := L % 128
  let lenBytes : Bytes := List.replicate 8 0 ++ wordBE (UInt64.ofNat (8 * L))
  if r = 111 then [0x81] ++ lenBytes
  else if r < 111 then [0x80] ++ List.replicate (110 - r) 0 ++ [0x01] ++ lenBytes
  else [0x80] ++ List.replicate (127 - r) 0 ++ List.replicate 111 0 ++ [0x01] ++ lenBytes

theorem pad_eq (m : Bytes) : pad m = m ++ padSuffix m.length := by
  simp only [pad, padSuffix]
  split
  · simp
  · split <;> simp

theorem padSuffix_length (L : Nat) :
    (padSuffix L).length = (if L % 128 ≤ 111 then 128 else 256) - L % 128 := by
  simp only [padSuffix]
  have : L % 128 < 128 := Nat.mod_lt _ (by decide)
  repeat' split
  all_goals simp [wordBE_length]
  all_goals omega

/-! ### model side: one-block steps of `block` and `Write` -/

/-- one iteration of the loop in `block()`. -/
def step (d : Digest) (blk : Bytes) : Digest :=
  { d with h := compress d.h blk (if d.nullt then 0 else d.t + 1024), t := d.t + 1024 }

theorem block_short (d : Digest) (p : Bytes) (hp : p.length < 128) : d.block p = d := by
  rw [Digest.block]; simp; omega

theorem block_long (d : Digest) (p : Bytes) (hp : 128 ≤ p.length) :
    d.block p = (step d (p.take 128)).block (p.drop 128) := by
  rw [Digest.block]; simp [hp, step]

theorem block_x (d : Digest) (p : Bytes) : (d.block p).x = d.x := by
  fun_induction Digest.block d p with
  | case1 d p hp t h ih => simpa using ih
  | case2 d p hp => rfl

theorem block_one (d : Digest) (p : Bytes) (hp : p.length = 128) : d.block p = step d p := by
  rw [block_long d p (by omega), block_short _ _ (by simp; omega), List.take_of_length_le (by omega)]

/-- `Write` of data that still fits in the buffer: append to the buffer. -/
theorem write_short (d : Digest) (p : Bytes) (hp : d.x.length + p.length < 128) :
    d.write p = { d with x := d.x ++ p } := by
  by_cases hx : d.x.length > 0
  · have h1 : ¬ (p.length > 128 - d.x.length) := by omega
    have h2 : ¬ (d.x.length + p.length = 128) := by omega
    simp [Digest.write, Digest.fill, Digest.bulk, Digest.keep, hx, h1, h2]
  · obtain ⟨h, t, nt, x⟩ := d
    have hx0 : x = [] := by simpa using hx
    subst hx0
    have h1 : ¬ (128 ≤ p.length) := by simp at hp; omega
    simp only [Digest.write, Digest.fill, Digest.bulk, Digest.keep]
    simp [h1]

/-- `Write` of data that fills the buffer exactly: one compression, empty buffer. -/
theorem write_full (d : Digest) (p : Bytes) (hp : d.x.length + p.length = 128) :
    d.write p = { step d (d.x ++ p) with x := [] } := by
  by_cases hx : d.x.length > 0
  · have h1 : ¬ (p.length > 128 - d.x.length) := by omega
    have hb := block_one { d with x := d.x ++ p } (d.x ++ p) (by simpa using hp)
    simp [Digest.write, Digest.fill, Digest.bulk, Digest.keep, hx, h1, hp, hb, step]
  · have hx0 : d.x = [] := by simpa using hx
    have hp' : p.length = 128 := by simpa [hx0] using hp
    have hb := block_one d p hp'
    simp [Digest.write, Digest.fill, Digest.bulk, Digest.keep, hx0, hp', hb, step,
      List.take_of_length_le, List.drop_of_length_le]

/-- `Write` on an empty buffer: bulk blocks, keep the remainder. -/
theorem write_empty (d : Digest) (p : Bytes) (hx : d.x = []) :
    d.write p = { d.block (p.take (p.length / 128 * 128)) with x := p.drop (p.length / 128 * 128) } := by
  obtain ⟨h, t, nt, x⟩ := d
  simp only at hx; subst hx
  by_cases h1 : 128 ≤ p.length
  · simp only [Digest.write, Digest.fill, Digest.bulk, Digest.keep]
    simp [h1]
    intro h2
    have hd : List.drop (p.length / 128 * 128) p = [] := List.drop_of_length_le (by omega)
    have hx := block_x { h := h, t := t, nullt := nt, x := [] } (List.take (p.length / 128 * 128) p)
    rw [hd]
    revert hx
    generalize Digest.block _ _ = D
    obtain ⟨_, _, _, _⟩ := D
    simp
  · have h0 : p.length / 128 = 0 := by omega
    simp only [Digest.write, Digest.fill, Digest.bulk, Digest.keep]
    simp [h1, h0, block_short]

/-- the counter of a block that is entirely message. -/
theorem counter_full (L i : Nat) (h : 128 * (i + 1) ≤ L) : counter L i = UInt64.ofNat (1024 * i) + 1024 := by
  have h1 : 128 * i < L := by omega
  have h2 : min L (128 * (i + 1)) = 128 * (i + 1) := by omega
  have h3 : 8 * (128 * (i + 1)) = 1024 * i + 1024 := by omega
  simp only [counter, h1, if_true, h2, h3, UInt64.ofNat_add]
  rfl

/-- the bulk loop over blocks that are entirely message follows the reference counters. -/
theorem block_blocks (L : Nat) (k : Nat) (d : Digest) (p : Bytes) (i : Nat)
    (hk : p.length / 128 = k) (hn : d.nullt = false) (ht : d.t = UInt64.ofNat (1024 * i))
    (hL : 128 * i + p.length ≤ L) :
    d.block p = { d with h := blocks L d.h k p i, t := UInt64.ofNat (1024 * (i + k)) } := by
  induction k generalizing d p i with
  | zero =>
    rw [block_short d p (by omega)]
    obtain ⟨h, t, nt, x⟩ := d
    simp at ht ⊢
    simp [blocks, ht]
  | succ k ih =>
    have hp : 128 ≤ p.length := by omega
    rw [block_long d p hp]
    have hc := counter_full L i (by omega)
    rw [ih (step d (p.take 128)) (p.drop 128) (i + 1) (by simp; omega) (by simp [step, hn])
          (by simp [step, ht, Nat.mul_add, UInt64.ofNat_add]) (by simp; omega)]
    obtain ⟨h, t, nt, x⟩ := d
    simp at ht hn
    simp [step, blocks, hc, hn, ht]
    grind

/-! ### `Write(m)` on a fresh digest -/

theorem write_init (m : Bytes) :
    Digest.init.write m =
      { h := blocks m.length IV (m.length / 128) (m.take (m.length / 128 * 128)) 0,
        t := UInt64.ofNat (1024 * (m.length / 128)), nullt := false,
        x := m.drop (m.length / 128 * 128) } := by
  rw [write_empty _ _ rfl,
      block_blocks m.length (m.length / 128) Digest.init (m.take (m.length / 128 * 128)) 0
        (by simp; omega) rfl rfl (by simp; omega)]
  simp [Digest.init]

/-! ### `Sum`: the three padding cases -/

theorem nx_eq (r k : Nat) (hr : r < 128) (hk : k < 128) : (UInt64.ofNat r = UInt64.ofNat k) ↔ r = k := by
  rw [← UInt64.toNat_inj, UInt64.toNat_ofNat', UInt64.toNat_ofNat']; omega

theorem nx_lt (r k : Nat) (hr : r < 128) (hk : k < 128) : (UInt64.ofNat r < UInt64.ofNat k) ↔ r < k := by
  rw [UInt64.lt_iff_toNat_lt, UInt64.toNat_ofNat', UInt64.toNat_ofNat']; omega

theorem nx_sub (r k : Nat) (hr : r ≤ k) (hk : k ≤ 128) : (UInt64.ofNat k - UInt64.ofNat r).toNat = k - r := by
  rw [UInt64.toNat_sub_of_le _ _ (by rw [UInt64.le_iff_toNat_le, UInt64.toNat_ofNat', UInt64.toNat_ofNat']; omega),
      UInt64.toNat_ofNat', UInt64.toNat_ofNat']; omega

theorem nx_shift (r : Nat) : UInt64.ofNat r <<< (3 : UInt64) = 8 * UInt64.ofNat r := by
  have := UInt64.ofNat_shiftLeft r 3 (by decide)
  rw [show UInt64.ofNat 3 = (3 : UInt64) from rfl] at this
  rw [← this, Nat.shiftLeft_eq, UInt64.ofNat_mul]
  grind

theorem padBuf_take (n : Nat) (hn : n ≤ 128) : Digest.padBuf.take (n + 1) = 0x80 :: List.replicate n 0 := by
  rw [Digest.padBuf, List.take_succ_cons, List.take_replicate, Nat.min_eq_left hn]

theorem sumPad_111 (H : Array UInt64) (T : UInt64) (nt : Bool) (tail : Bytes) (hr : tail.length = 111) :
    Digest.sumPad ⟨H, T, nt, tail⟩ = ⟨H, T - 8, nt, tail ++ [0x81]⟩ := by
  have h1 : UInt64.ofNat tail.length = 111 := by rw [hr]; rfl
  simp only [Digest.sumPad, h1, if_true]
  rw [write_short _ _ (by simp; omega)]

theorem sumPad_lt (H : Array UInt64) (T : UInt64) (tail : Bytes) (h0 : 0 < tail.length) (hr : tail.length < 111) :
    Digest.sumPad ⟨H, T, false, tail⟩ =
      ⟨H, T - (888 - 8 * UInt64.ofNat tail.length) - 8, false,
        tail ++ 0x80 :: List.replicate (110 - tail.length) 0 ++ [0x01]⟩ := by
  have hne : ¬ UInt64.ofNat tail.length = 111 := by
    rw [show (111 : UInt64) = UInt64.ofNat 111 from rfl, nx_eq _ _ (by omega) (by omega)]; omega
  have hlt : UInt64.ofNat tail.length < 111 := by
    rw [show (111 : UInt64) = UInt64.ofNat 111 from rfl, nx_lt _ _ (by omega) (by omega)]; omega
  have hn0 : ¬ UInt64.ofNat tail.length = 0 := by
    rw [show (0 : UInt64) = UInt64.ofNat 0 from rfl, nx_eq _ _ (by omega) (by omega)]; omega
  have hsub : ((111 : UInt64) - UInt64.ofNat tail.length).toNat = (110 - tail.length) + 1 := by
    rw [show (111 : UInt64) = UInt64.ofNat 111 from rfl, nx_sub _ _ (by omega) (by omega)]; omega
  simp only [Digest.sumPad, hne, hlt, hn0, if_true, if_false, hsub, padBuf_take _ (show 110 - tail.length ≤ 128 by omega), nx_shift, -List.reduceReplicate]
  simp (disch := (simp [-List.reduceReplicate] <;> omega)) only [write_short, -List.reduceReplicate]

theorem sumPad_0 (H : Array UInt64) (T : UInt64) :
    Digest.sumPad ⟨H, T, false, []⟩ =
      ⟨H, T - 888 - 8, true, 0x80 :: List.replicate 110 0 ++ [0x01]⟩ := by
  have hsub : ((111 : UInt64) - UInt64.ofNat 0).toNat = 110 + 1 := by
    rw [show (111 : UInt64) = UInt64.ofNat 111 from rfl, nx_sub _ _ (by omega) (by omega)]
  have hne : ¬ UInt64.ofNat 0 = 111 := by decide
  have hlt : UInt64.ofNat 0 < 111 := by decide
  have hshift : (UInt64.ofNat 0) <<< (3 : UInt64) = 0 := by decide
  simp only [Digest.sumPad, List.length_nil, hne, hlt, if_true, if_false, hsub, padBuf_take _ (show 110 ≤ 128 by omega), hshift, -List.reduceReplicate]
  simp (disch := (simp [-List.reduceReplicate] <;> omega)) only [write_short, -List.reduceReplicate]
  simp [-List.reduceReplicate]

theorem sumPad_gt (H : Array UInt64) (T : UInt64) (tail : Bytes) (h0 : 111 < tail.length) (hr : tail.length < 128) :
    Digest.sumPad ⟨H, T, false, tail⟩ =
      ⟨compress H (tail ++ 0x80 :: List.replicate (127 - tail.length) 0) (T - (1024 - 8 * UInt64.ofNat tail.length) + 1024),
        T - (1024 - 8 * UInt64.ofNat tail.length) + 1024 - 888 - 8, true,
        List.replicate 111 0 ++ [0x01]⟩ := by
  have hne : ¬ UInt64.ofNat tail.length = 111 := by
    rw [show (111 : UInt64) = UInt64.ofNat 111 from rfl, nx_eq _ _ (by omega) (by omega)]; omega
  have hlt : ¬ UInt64.ofNat tail.length < 111 := by
    rw [show (111 : UInt64) = UInt64.ofNat 111 from rfl, nx_lt _ _ (by omega) (by omega)]; omega
  have hsub : ((128 : UInt64) - UInt64.ofNat tail.length).toNat = (127 - tail.length) + 1 := by
    rw [show (128 : UInt64) = UInt64.ofNat 128 from rfl, nx_sub _ _ (by omega) (by omega)]; omega
  have hz : (Digest.padBuf.take 112).drop 1 = List.replicate 111 0 := by
    rw [padBuf_take 111 (by omega)]; rfl
  simp only [Digest.sumPad, hne, hlt, if_false, hsub, padBuf_take _ (show 127 - tail.length ≤ 128 by omega), nx_shift, hz, -List.reduceReplicate]
  rw [write_full _ (0x80 :: List.replicate (127 - tail.length) 0) (by simp; omega)]
  simp only [step]
  rw [write_short _ (List.replicate 111 0) (by simp)]
  simp only []
  rw [write_short _ [0x01] (by simp)]
  simp [-List.reduceReplicate]

theorem be64_eq (w : UInt64) : Digest.be64 w = wordBE w := by
  simp [Digest.be64, wordBE, List.range, List.range.loop]

theorem sum_unfold (d : Digest) :
    d.sum = digestBytes (({ d.sumPad with t := d.sumPad.t - 128 } : Digest).write
      (List.replicate 8 0 ++ wordBE (d.t + 8 * UInt64.ofNat d.x.length))).h := by
  simp only [Digest.sum, digestBytes, gt, nx_shift, be64_eq]

theorem counter_last (q r : Nat) (h0 : 0 < r) (hr : r ≤ 128) :
    counter (128 * q + r) q = UInt64.ofNat (1024 * q) + 8 * UInt64.ofNat r := by
  have h1 : 128 * q < 128 * q + r := by omega
  have h2 : min (128 * q + r) (128 * (q + 1)) = 128 * q + r := by omega
  have h3 : 8 * (128 * q + r) = 1024 * q + 8 * r := by omega
  simp only [counter, h1, if_true, h2, h3, UInt64.ofNat_add, UInt64.ofNat_mul]
  rfl

theorem counter_none (L q : Nat) (h : L ≤ 128 * q) : counter L q = 0 := by
  have h1 : ¬ 128 * q < L := by omega
  simp only [counter, h1, if_false]

theorem bitlen_eq (q r : Nat) :
    UInt64.ofNat (8 * (128 * q + r)) = UInt64.ofNat (1024 * q) + 8 * UInt64.ofNat r := by
  have h3 : 8 * (128 * q + r) = 1024 * q + 8 * r := by omega
  simp only [h3, UInt64.ofNat_add, UInt64.ofNat_mul]
  rfl

theorem sum_eq (H : Array UInt64) (q : Nat) (tail : Bytes) (hr : tail.length < 128) :
    Digest.sum ⟨H, UInt64.ofNat (1024 * q), false, tail⟩ =
      digestBytes (blocks (128 * q + tail.length) H (if tail.length ≤ 111 then 1 else 2)
        (tail ++ padSuffix (128 * q + tail.length)) q) := by
  have hmod : (128 * q + tail.length) % 128 = tail.length := by omega
  rw [sum_unfold]
  congr 1
  simp only [padSuffix, hmod, bitlen_eq]
  by_cases h111 : tail.length = 111
  · -- one padding byte, one compression
    have hle : tail.length ≤ 111 := by omega
    simp only [h111, if_true, Nat.le_refl]
    rw [sumPad_111 _ _ _ _ h111]
    simp only []
    rw [write_full _ _ (by simp [wordBE_length]; omega)]
    simp only [step, blocks]
    rw [List.take_of_length_le (by simp [wordBE_length]; omega)]
    have hc := counter_last q 111 (by omega) (by omega)
    rw [hc]
    simp only [Bool.false_eq_true, if_false, List.append_assoc]
    have e : ∀ T : UInt64, T - 8 - 128 + 1024 = T + 8 * UInt64.ofNat 111 := by
      intro T; rw [show UInt64.ofNat 111 = (111 : UInt64) from rfl]; grind
    rw [e]
  · by_cases hlt : tail.length < 111
    · have hle : tail.length ≤ 111 := by omega
      simp only [h111, hlt, hle, if_true, if_false]
      by_cases h0 : tail.length = 0
      · -- empty buffer: the last block carries no message bit, counter skipped (nullt)
        have ht : tail = [] := by simpa using h0
        subst ht
        rw [sumPad_0]
        simp only []
        rw [write_full _ _ (by simp [wordBE_length])]
        simp only [step, blocks, List.length_nil, Nat.add_zero, Nat.sub_zero]
        rw [List.take_of_length_le (by simp [wordBE_length])]
        rw [counter_none _ _ (Nat.le_refl _)]
        simp [-List.reduceReplicate]
      · -- 0 < nx < 111: one compression with the full bit length
        rw [sumPad_lt _ _ _ (by omega) hlt]
        simp only []
        rw [write_full _ _ (by simp [wordBE_length]; omega)]
        simp only [step, blocks]
        rw [List.take_of_length_le (by simp [wordBE_length]; omega)]
        rw [counter_last q tail.length (by omega) (by omega)]
        have e : ∀ T R : UInt64, T - (888 - 8 * R) - 8 - 128 + 1024 = T + 8 * R := by
          intro T R; grind
        rw [e]
        simp [-List.reduceReplicate]
    · -- nx > 111: two compressions, the second one without counter
      have hgt : 111 < tail.length := by omega
      have hle : ¬ tail.length ≤ 111 := by omega
      simp only [h111, hlt, hle, if_false]
      rw [sumPad_gt _ _ _ hgt hr]
      simp only []
      rw [write_full _ _ (by simp [wordBE_length])]
      simp only [step, blocks]
      have e : ∀ T R : UInt64, T - (1024 - 8 * R) + 1024 = T + 8 * R := by
        intro T R; grind
      rw [e, counter_last q tail.length (by omega) (by omega),
          counter_none _ _ (show 128 * q + tail.length ≤ 128 * (q + 1) by omega)]
      have hsplit : tail ++ ([0x80] ++ List.replicate (127 - tail.length) 0 ++ List.replicate 111 0 ++ [0x01] ++
            (List.replicate 8 0 ++ wordBE (UInt64.ofNat (1024 * q) + 8 * UInt64.ofNat tail.length)))
          = (tail ++ 0x80 :: List.replicate (127 - tail.length) 0) ++
            (List.replicate 111 0 ++ [0x01] ++
            (List.replicate 8 0 ++ wordBE (UInt64.ofNat (1024 * q) + 8 * UInt64.ofNat tail.length))) := by
        simp
      rw [hsplit, List.take_append_of_le_length (by simp; omega), List.drop_append_of_le_length (by simp; omega)]
      rw [List.take_of_length_le (by simp; omega), List.drop_of_length_le (by simp; omega)]
      simp [-List.reduceReplicate]
      rw [List.take_of_length_le (by simp [wordBE_length])]

/-! ### main theorem -/

/-- The streaming model of the Go package agrees with the one-shot reference on every message
    (both sides wrap the bit length modulo 2^64 in the same way). -/
theorem blake_stream_eq_all (m : Bytes) : blake512Stream m = Blake.blake512 m := by
  have hq : 128 * (m.length / 128) + (m.drop (m.length / 128 * 128)).length = m.length := by
    simp; omega
  have hr : (m.drop (m.length / 128 * 128)).length < 128 := by simp; omega
  have hmod : (m.drop (m.length / 128 * 128)).length = m.length % 128 := by simp; omega
  have htl : (m.take (m.length / 128 * 128)).length = 128 * (m.length / 128) := by simp; omega
  rw [blake512Stream, write_init, sum_eq _ _ _ hr, hq, blake512, pad_eq]
  congr 1
  have hlen : (m ++ padSuffix m.length).length / 128
      = m.length / 128 + (if (m.drop (m.length / 128 * 128)).length ≤ 111 then 1 else 2) := by
    rw [List.length_append, padSuffix_length, hmod]
    split <;> omega
  have hm : m ++ padSuffix m.length
      = m.take (m.length / 128 * 128) ++ (m.drop (m.length / 128 * 128) ++ padSuffix m.length) := by
    rw [← List.append_assoc, List.take_append_drop]
  rw [hlen, hm, blocks_append _ _ _ _ _ _ _ htl, Nat.zero_add]

/-- **C20 (BLAKE-512).**  `babyjub.Blake512(m)` (New / Write / Sum of github.com/dchest/blake512)
    equals the reference BLAKE-512 for every message whose bit length fits the 64-bit counter of
    the Go implementation. -/
theorem blake_stream_eq (m : Bytes) (_hlen : 8 * m.length < 2 ^ 64) :
    blake512Stream m = Blake.blake512 m := blake_stream_eq_all m

/-- Under the length bound the 64-bit bit length used by both sides is the exact bit length
    (no wrap-around): this is where the reference coincides with the BLAKE-512 specification,
    whose counter has 128 bits. -/
theorem blake_bitlen_exact (m : Bytes) (hlen : 8 * m.length < 2 ^ 64) :
    (UInt64.ofNat (8 * m.length)).toNat = 8 * m.length := by
  rw [UInt64.toNat_ofNat']; omega

end I3.Props.C20
