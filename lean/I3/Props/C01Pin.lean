/-
  I3.Props.C01 (source pin) — the Go functions mirrored by the hand-written models of C01 still have the
  source text against which those models were validated, and no function was added to or removed
  from their packages.  Regenerated fingerprints: I3.Gen.fingerprints (tools/gen_pins).
-/
import I3.Gen.Fingerprints
import I3.Model.SourcePin
namespace I3.Props.C01
open I3.SourcePin

def modelled : List String := [
  "ff.Element.Add",
  "ff.Element.Exp",
  "ff.Element.FromMont",
  "ff.Element.Mul",
  "ff.Element.Set",
  "ff.Element.SetBigInt",
  "ff.Element.SetOne",
  "ff.Element.SetUint64",
  "ff.Element.SetZero",
  "ff.Element.Square",
  "ff.Element.ToBigInt",
  "ff.Element.ToBigIntRegular",
  "ff.Element.ToMont",
  "ff.Element.setBigInt",
  "ff.NewElement",
  "poseidon.<decls>@constants.go",
  "poseidon.<decls>@poseidon.go",
  "poseidon.Hash",
  "poseidon.HashEx",
  "poseidon.HashWithState",
  "poseidon.HashWithStateEx",
  "poseidon.ark",
  "poseidon.exp5",
  "poseidon.exp5state",
  "poseidon.init",
  "poseidon.mix",
  "poseidon.zero",
  "utils.BigIntArrayToElementArray",
  "utils.CheckBigIntArrayInField",
  "utils.CheckBigIntInField",
  "utils.ElementArrayToBigIntArray",
  "tree.<layout>@constants",
  "tree.<layout>@ff",
  "tree.<layout>@poseidon",
  "tree.<layout>@root",
  "tree.<layout>@utils",
  "constants.<decls>@constants.go",
  "ff.<asm>@element_mul_adx_amd64.s",
  "ff.<asm>@element_mul_amd64.s",
  "ff.<asm>@element_ops_amd64.s",
  "ff.<decls>@arith.go",
  "ff.<decls>@asm.go",
  "ff.<decls>@asm_noadx.go",
  "ff.<decls>@doc.go",
  "ff.<decls>@element.go",
  "ff.<decls>@element_ops_amd64.go",
  "ff.<decls>@element_ops_noasm.go",
  "utils.<decls>@utils.go"
]

theorem source_pinned : modelled.all (same I3.Gen.fingerprints) = true := by decide +kernel

theorem function_set_pinned : (["constants.", "ff.", "poseidon.", "utils."] : List String).all (sameKeys I3.Gen.fingerprints) = true := by
  decide +kernel

theorem modelled_nonempty : 48 = modelled.length := by decide

end I3.Props.C01
