/-
  I3.Props.C18Gen — C18 (Exp, Div, BatchInvert, Legendre symbol, Tonelli–Shanks square root) for the
  GENERATED code: the definitions `I3.Gen.Go.ff_*` / `I3.Gen.Go.ffg_*` that the source translator T6
  regenerates from /repo/ff/element.go and /repo/ffg/element.go on every run.

  Conventions of the translation (I3.Exec.Go): a field element is the canonical residue it
  represents (a natural number `< m`), a `*big.Int` is an integer; a Go method that writes its
  receiver `z` returns the pair (declared result, final receiver) and takes the old receiver as its
  first argument; `Sqrt` returns `nil` for non-residues, hence `Option ℕ`, and — because it contains
  loops without a syntactic bound, which are run with fuel — an extra Boolean `terminated`:
  `ff_Element_Sqrt z x : (Option ℕ × ℕ) × Bool`.

  Every theorem is obtained from the bridge lemmas of I3.Lemmas.GoBridgeFF (generated function =
  model function) and the theorems of I3.Props.C18 / I3.Props.C18Inst about the model.  The moduli
  are the primes `I3.q` (BN254 scalar field, /repo/ff) and `I3.gp` (Goldilocks, /repo/ffg).
-/
import I3.Lemmas.GoBridgeFF

set_option maxRecDepth 100000

namespace I3.Props.C18Gen
open I3 I3.Gen.Go I3.Model.FF I3.GoBridge I3.GoBridge.FF I3.Props.C18

/-! ### helpers shared by both fields -/

/-- the model's inverse, read in `ZMod` -/
private theorem inverse_eq_val {c : Cfg} (h : c.WF) (x : ℕ) :
    inverse c x = ((x : ZMod c.m)⁻¹).val := by
  rw [← inverse_cast h x, ZMod.val_natCast, Nat.mod_eq_of_lt (inverse_lt h.pos x)]

private theorem batch_entries {c : Cfg} (h : c.WF) {res a : List ℕ}
    (hres : res = a.map (fun (x : ℕ) => ((x : ZMod c.m)⁻¹).val)) (ha : ∀ x ∈ a, x < c.m) :
    res.length = a.length ∧
    ∀ (i : ℕ) (hi : i < a.length) (hi' : i < res.length),
      res[i] < c.m ∧ (a[i] = 0 → res[i] = 0) ∧ (a[i] ≠ 0 → a[i] * res[i] % c.m = 1) := by
  subst hres
  refine ⟨by simp, ?_⟩
  intro i hi hi'
  have hlt : a[i] < c.m := ha _ (List.getElem_mem hi)
  rw [List.getElem_map, ← inverse_eq_val h]
  refine ⟨inverse_lt h.pos _, ?_, ?_⟩
  · intro h0; rw [h0]; exact inverse_zero' h
  · intro h0; exact inverse_mul_cancel h hlt h0

private theorem sqrt_trichotomy {c : Cfg} (h : c.WF) {x : ℕ} (hx : x < c.m) (z : ℕ)
    {S : (Option ℕ × ℕ) × Bool} (hS : S = (sqrtRet (sqrt c x) z, true)) :
    (IsSquare (x : ZMod c.m) ∧ ∃ y, S = ((some y, y), true) ∧ y < c.m ∧ y * y % c.m = x) ∨
    (¬ IsSquare (x : ZMod c.m) ∧ S = ((none, z), true)) := by
  subst hS
  by_cases hsq : IsSquare (x : ZMod c.m)
  · left
    obtain ⟨y, hs, hlt, hyy⟩ := sqrt_of_isSquare h hx hsq
    exact ⟨hsq, y, by rw [hs]; rfl, hlt, hyy⟩
  · right
    exact ⟨hsq, by rw [(sqrt_none_iff h hx).2 hsq]; rfl⟩

/-! ## /repo/ff — BN254 scalar field, modulus `I3.q` -/

/-! ### Exp -/

/-- `z.Exp(x, e)` for a non-negative `*big.Int` exponent: result and receiver are `x^e` in
`ZMod q`, reduced. -/
theorem ff_Exp_correct (z : ℕ) {x : ℕ} (hx : x < I3.q) (e : ℤ) (he : 0 ≤ e) :
    (ff_Element_Exp z x e).1 = (ff_Element_Exp z x e).2 ∧
    (((ff_Element_Exp z x e).1 : ℕ) : ZMod I3.q) = (x : ZMod I3.q) ^ e.toNat ∧
    (ff_Element_Exp z x e).1 < I3.q := by
  rw [ff_Element_Exp_eq_toNat z x e he (Or.inl (by rw [ff_modulus_q]; exact hx))]
  exact ⟨rfl, ff_exp_correct x _⟩

/-- the same for every natural exponent, as a closed formula on naturals -/
theorem ff_Exp_nat (z : ℕ) {x : ℕ} (hx : x < I3.q) (e : ℕ) :
    ff_Element_Exp z x (e : ℤ) = (x ^ e % I3.q, x ^ e % I3.q) := by
  rw [ff_Element_Exp_eq z x e (Or.inl (by rw [ff_modulus_q]; exact hx)), exp_eq, ff_m]

/-- exponent `0 ↦ 1` (also for `x = 0`) -/
theorem ff_Exp_zero (z x : ℕ) : ff_Element_Exp z x 0 = (1, 1) := by
  have := ff_Element_Exp_eq z x 0 (Or.inr (by decide))
  rw [exp_zero ff_wf] at this
  exact this

/-! ### Div -/

/-- `z.Div(x, y)`: result and receiver are `x · y⁻¹` in `ZMod q` (with `0⁻¹ = 0`), reduced. -/
theorem ff_Div_correct (z x y : ℕ) :
    (ff_Element_Div z x y).1 = (ff_Element_Div z x y).2 ∧
    (((ff_Element_Div z x y).1 : ℕ) : ZMod I3.q) = (x : ZMod I3.q) * (y : ZMod I3.q)⁻¹ ∧
    (ff_Element_Div z x y).1 < I3.q := by
  rw [ff_Element_Div_eq]
  exact ⟨rfl, ff_div_correct x y⟩

/-- division by zero yields zero -/
theorem ff_Div_zero (z x : ℕ) : ff_Element_Div z x 0 = (0, 0) := by
  rw [ff_Element_Div_eq, ff_div_zero]

/-! ### BatchInvert -/

/-- `BatchInvert(a)` inverts every entry in `ZMod q`; zero entries are mapped to zero. -/
theorem ff_BatchInvert_correct (a : List ℕ) (ha : ∀ x ∈ a, x < I3.q) :
    ff_BatchInvert a = a.map (fun (x : ℕ) => ((x : ZMod I3.q)⁻¹).val) := by
  rw [ff_BatchInvert_eq, ff_batchInvert_correct a ha]
  exact List.map_congr_left (fun x _ => inverse_eq_val ff_wf x)

/-- entry-wise reading: the result has the length of the input, every entry is reduced, entries
at positions holding `0` are `0`, every other entry is the inverse. -/
theorem ff_BatchInvert_entries (a : List ℕ) (ha : ∀ x ∈ a, x < I3.q) :
    (ff_BatchInvert a).length = a.length ∧
    ∀ (i : ℕ) (hi : i < a.length) (hi' : i < (ff_BatchInvert a).length),
      (ff_BatchInvert a)[i] < I3.q ∧ (a[i] = 0 → (ff_BatchInvert a)[i] = 0) ∧
      (a[i] ≠ 0 → a[i] * (ff_BatchInvert a)[i] % I3.q = 1) :=
  batch_entries ff_wf (ff_BatchInvert_correct a ha) ha

theorem ff_BatchInvert_nil : ff_BatchInvert [] = [] := rfl

/-! ### Legendre -/

theorem ff_Legendre_values (x : ℕ) : ff_Element_Legendre x ∈ ({0, 1, -1} : Set ℤ) := by
  rw [ff_Element_Legendre_eq]; exact ff_legendre_values x

theorem ff_Legendre_zero_iff (x : ℕ) : ff_Element_Legendre x = 0 ↔ (x : ZMod I3.q) = 0 := by
  rw [ff_Element_Legendre_eq]; exact ff_legendre_zero_iff x

/-- Euler's criterion: the symbol is `1` exactly for the non-zero squares -/
theorem ff_Legendre_one_iff (x : ℕ) :
    ff_Element_Legendre x = 1 ↔ (x : ZMod I3.q) ≠ 0 ∧ IsSquare (x : ZMod I3.q) := by
  rw [ff_Element_Legendre_eq]; exact ff_legendre_one_iff x

/-- and `-1` exactly for the non-squares -/
theorem ff_Legendre_neg_one_iff (x : ℕ) :
    ff_Element_Legendre x = -1 ↔ ¬ IsSquare (x : ZMod I3.q) := by
  rw [ff_Element_Legendre_eq]; exact ff_legendre_neg_one_iff x

/-! ### Sqrt -/

/-- the loops of `Sqrt` terminate within the fuel, for every operand -/
theorem ff_Sqrt_terminates (z x : ℕ) : (ff_Element_Sqrt z x).2 = true := by
  rw [ff_Element_Sqrt_eq]

/-- `z.Sqrt(x)` for a canonical operand: if `x` is a square in `ZMod q`, the result is `some y`
with `y < q`, `y·y ≡ x`, and the receiver is set to `y`; otherwise the result is `nil` and the
receiver is unchanged.  In both cases the loops terminate. -/
theorem ff_Sqrt_correct (z : ℕ) {x : ℕ} (hx : x < I3.q) :
    (IsSquare (x : ZMod I3.q) ∧
      ∃ y, ff_Element_Sqrt z x = ((some y, y), true) ∧ y < I3.q ∧ y * y % I3.q = x) ∨
    (¬ IsSquare (x : ZMod I3.q) ∧ ff_Element_Sqrt z x = ((none, z), true)) :=
  sqrt_trichotomy ff_wf hx z (ff_Element_Sqrt_eq z x)

/-- a root is returned exactly for the squares … -/
theorem ff_Sqrt_some_iff (z : ℕ) {x : ℕ} (hx : x < I3.q) :
    (∃ y, ff_Element_Sqrt z x = ((some y, y), true) ∧ y < I3.q ∧ y * y % I3.q = x) ↔
      IsSquare (x : ZMod I3.q) := by
  rcases ff_Sqrt_correct z hx with ⟨hsq, h⟩ | ⟨hns, h⟩
  · exact ⟨fun _ => hsq, fun _ => h⟩
  · refine ⟨?_, fun hsq => absurd hsq hns⟩
    rintro ⟨y, hy, _⟩
    rw [h] at hy
    cases hy

/-- … and `nil` (receiver unchanged) exactly for the non-squares -/
theorem ff_Sqrt_none_iff (z : ℕ) {x : ℕ} (hx : x < I3.q) :
    ff_Element_Sqrt z x = ((none, z), true) ↔ ¬ IsSquare (x : ZMod I3.q) := by
  rcases ff_Sqrt_correct z hx with ⟨hsq, y, h, _⟩ | ⟨hns, h⟩
  · refine ⟨fun hn => ?_, fun hns => absurd hsq hns⟩
    rw [h] at hn
    cases hn
  · exact ⟨fun _ => hns, fun _ => h⟩

/-- whatever is returned is a reduced square root, and it is also stored in the receiver -/
theorem ff_Sqrt_some (z : ℕ) {x : ℕ} (hx : x < I3.q) (y : ℕ)
    (h : (ff_Element_Sqrt z x).1.1 = some y) :
    (ff_Element_Sqrt z x).1.2 = y ∧ y < I3.q ∧ y * y % I3.q = x := by
  rcases ff_Sqrt_correct z hx with ⟨_, y', h', hlt, hyy⟩ | ⟨_, h'⟩
  · rw [h'] at h ⊢
    obtain rfl : y' = y := Option.some.inj h
    exact ⟨rfl, hlt, hyy⟩
  · rw [h'] at h
    cases h

theorem ff_Sqrt_zero (z : ℕ) : ff_Element_Sqrt z 0 = ((some 0, 0), true) := by
  rw [ff_Element_Sqrt_eq, ff_sqrt_zero]; rfl

/-- `Sqrt` and `Legendre` agree: a root is returned iff the symbol is not `-1` -/
theorem ff_Sqrt_isSome_iff_Legendre (z : ℕ) {x : ℕ} (hx : x < I3.q) :
    (ff_Element_Sqrt z x).1.1.isSome = true ↔ ff_Element_Legendre x ≠ -1 := by
  rw [Ne, ff_Legendre_neg_one_iff, not_not]
  rcases ff_Sqrt_correct z hx with ⟨hsq, y, h, _⟩ | ⟨hns, h⟩ <;> rw [h] <;> simp [*]

/-! ## /repo/ffg — Goldilocks field, modulus `I3.gp` -/

/-! ### Exp -/

/-- `z.Exp(x, e)` for a non-negative `*big.Int` exponent: result and receiver are `x^e` in
`ZMod gp`, reduced. -/
theorem ffg_Exp_correct (z : ℕ) {x : ℕ} (hx : x < I3.gp) (e : ℤ) (he : 0 ≤ e) :
    (ffg_Element_Exp z x e).1 = (ffg_Element_Exp z x e).2 ∧
    (((ffg_Element_Exp z x e).1 : ℕ) : ZMod I3.gp) = (x : ZMod I3.gp) ^ e.toNat ∧
    (ffg_Element_Exp z x e).1 < I3.gp := by
  rw [ffg_Element_Exp_eq_toNat z x e he (Or.inl (by rw [ffg_modulus_gp]; exact hx))]
  exact ⟨rfl, ffg_exp_correct x _⟩

/-- the same for every natural exponent, as a closed formula on naturals -/
theorem ffg_Exp_nat (z : ℕ) {x : ℕ} (hx : x < I3.gp) (e : ℕ) :
    ffg_Element_Exp z x (e : ℤ) = (x ^ e % I3.gp, x ^ e % I3.gp) := by
  rw [ffg_Element_Exp_eq z x e (Or.inl (by rw [ffg_modulus_gp]; exact hx)), exp_eq, ffg_m]

/-- exponent `0 ↦ 1` (also for `x = 0`) -/
theorem ffg_Exp_zero (z x : ℕ) : ffg_Element_Exp z x 0 = (1, 1) := by
  have := ffg_Element_Exp_eq z x 0 (Or.inr (by decide))
  rw [exp_zero ffg_wf] at this
  exact this

/-! ### Div -/

/-- `z.Div(x, y)`: result and receiver are `x · y⁻¹` in `ZMod gp` (with `0⁻¹ = 0`), reduced. -/
theorem ffg_Div_correct (z x y : ℕ) :
    (ffg_Element_Div z x y).1 = (ffg_Element_Div z x y).2 ∧
    (((ffg_Element_Div z x y).1 : ℕ) : ZMod I3.gp) = (x : ZMod I3.gp) * (y : ZMod I3.gp)⁻¹ ∧
    (ffg_Element_Div z x y).1 < I3.gp := by
  rw [ffg_Element_Div_eq]
  exact ⟨rfl, ffg_div_correct x y⟩

/-- division by zero yields zero -/
theorem ffg_Div_zero (z x : ℕ) : ffg_Element_Div z x 0 = (0, 0) := by
  rw [ffg_Element_Div_eq, ffg_div_zero]

/-! ### BatchInvert -/

/-- `BatchInvert(a)` inverts every entry in `ZMod gp`; zero entries are mapped to zero. -/
theorem ffg_BatchInvert_correct (a : List ℕ) (ha : ∀ x ∈ a, x < I3.gp) :
    ffg_BatchInvert a = a.map (fun (x : ℕ) => ((x : ZMod I3.gp)⁻¹).val) := by
  rw [ffg_BatchInvert_eq, ffg_batchInvert_correct a ha]
  exact List.map_congr_left (fun x _ => inverse_eq_val ffg_wf x)

/-- entry-wise reading: the result has the length of the input, every entry is reduced, entries
at positions holding `0` are `0`, every other entry is the inverse. -/
theorem ffg_BatchInvert_entries (a : List ℕ) (ha : ∀ x ∈ a, x < I3.gp) :
    (ffg_BatchInvert a).length = a.length ∧
    ∀ (i : ℕ) (hi : i < a.length) (hi' : i < (ffg_BatchInvert a).length),
      (ffg_BatchInvert a)[i] < I3.gp ∧ (a[i] = 0 → (ffg_BatchInvert a)[i] = 0) ∧
      (a[i] ≠ 0 → a[i] * (ffg_BatchInvert a)[i] % I3.gp = 1) :=
  batch_entries ffg_wf (ffg_BatchInvert_correct a ha) ha

theorem ffg_BatchInvert_nil : ffg_BatchInvert [] = [] := rfl

/-! ### Legendre -/

theorem ffg_Legendre_values (x : ℕ) : ffg_Element_Legendre x ∈ ({0, 1, -1} : Set ℤ) := by
  rw [ffg_Element_Legendre_eq]; exact ffg_legendre_values x

theorem ffg_Legendre_zero_iff (x : ℕ) : ffg_Element_Legendre x = 0 ↔ (x : ZMod I3.gp) = 0 := by
  rw [ffg_Element_Legendre_eq]; exact ffg_legendre_zero_iff x

/-- Euler's criterion: the symbol is `1` exactly for the non-zero squares -/
theorem ffg_Legendre_one_iff (x : ℕ) :
    ffg_Element_Legendre x = 1 ↔ (x : ZMod I3.gp) ≠ 0 ∧ IsSquare (x : ZMod I3.gp) := by
  rw [ffg_Element_Legendre_eq]; exact ffg_legendre_one_iff x

/-- and `-1` exactly for the non-squares -/
theorem ffg_Legendre_neg_one_iff (x : ℕ) :
    ffg_Element_Legendre x = -1 ↔ ¬ IsSquare (x : ZMod I3.gp) := by
  rw [ffg_Element_Legendre_eq]; exact ffg_legendre_neg_one_iff x

/-! ### Sqrt -/

/-- the loops of `Sqrt` terminate within the fuel, for every operand -/
theorem ffg_Sqrt_terminates (z x : ℕ) : (ffg_Element_Sqrt z x).2 = true := by
  rw [ffg_Element_Sqrt_eq]

/-- `z.Sqrt(x)` for a canonical operand: if `x` is a square in `ZMod gp`, the result is `some y`
with `y < gp`, `y·y ≡ x`, and the receiver is set to `y`; otherwise the result is `nil` and the
receiver is unchanged.  In both cases the loops terminate. -/
theorem ffg_Sqrt_correct (z : ℕ) {x : ℕ} (hx : x < I3.gp) :
    (IsSquare (x : ZMod I3.gp) ∧
      ∃ y, ffg_Element_Sqrt z x = ((some y, y), true) ∧ y < I3.gp ∧ y * y % I3.gp = x) ∨
    (¬ IsSquare (x : ZMod I3.gp) ∧ ffg_Element_Sqrt z x = ((none, z), true)) :=
  sqrt_trichotomy ffg_wf hx z (ffg_Element_Sqrt_eq z x)

/-- a root is returned exactly for the squares … -/
theorem ffg_Sqrt_some_iff (z : ℕ) {x : ℕ} (hx : x < I3.gp) :
    (∃ y, ffg_Element_Sqrt z x = ((some y, y), true) ∧ y < I3.gp ∧ y * y % I3.gp = x) ↔
      IsSquare (x : ZMod I3.gp) := by
  rcases ffg_Sqrt_correct z hx with ⟨hsq, h⟩ | ⟨hns, h⟩
  · exact ⟨fun _ => hsq, fun _ => h⟩
  · refine ⟨?_, fun hsq => absurd hsq hns⟩
    rintro ⟨y, hy, _⟩
    rw [h] at hy
    cases hy

/-- … and `nil` (receiver unchanged) exactly for the non-squares -/
theorem ffg_Sqrt_none_iff (z : ℕ) {x : ℕ} (hx : x < I3.gp) :
    ffg_Element_Sqrt z x = ((none, z), true) ↔ ¬ IsSquare (x : ZMod I3.gp) := by
  rcases ffg_Sqrt_correct z hx with ⟨hsq, y, h, _⟩ | ⟨hns, h⟩
  · refine ⟨fun hn => ?_, fun hns => absurd hsq hns⟩
    rw [h] at hn
    cases hn
  · exact ⟨fun _ => hns, fun _ => h⟩

/-- whatever is returned is a reduced square root, and it is also stored in the receiver -/
theorem ffg_Sqrt_some (z : ℕ) {x : ℕ} (hx : x < I3.gp) (y : ℕ)
    (h : (ffg_Element_Sqrt z x).1.1 = some y) :
    (ffg_Element_Sqrt z x).1.2 = y ∧ y < I3.gp ∧ y * y % I3.gp = x := by
  rcases ffg_Sqrt_correct z hx with ⟨_, y', h', hlt, hyy⟩ | ⟨_, h'⟩
  · rw [h'] at h ⊢
    obtain rfl : y' = y := Option.some.inj h
    exact ⟨rfl, hlt, hyy⟩
  · rw [h'] at h
    cases h

theorem ffg_Sqrt_zero (z : ℕ) : ffg_Element_Sqrt z 0 = ((some 0, 0), true) := by
  rw [ffg_Element_Sqrt_eq, ffg_sqrt_zero]; rfl

/-- `Sqrt` and `Legendre` agree: a root is returned iff the symbol is not `-1` -/
theorem ffg_Sqrt_isSome_iff_Legendre (z : ℕ) {x : ℕ} (hx : x < I3.gp) :
    (ffg_Element_Sqrt z x).1.1.isSome = true ↔ ffg_Element_Legendre x ≠ -1 := by
  rw [Ne, ffg_Legendre_neg_one_iff, not_not]
  rcases ffg_Sqrt_correct z hx with ⟨hsq, y, h, _⟩ | ⟨hns, h⟩ <;> rw [h] <;> simp [*]

/-! ### Non-vacuity: the generated functions evaluated by the kernel at concrete operands -/

-- small squares / non-squares; the receiver (first argument) is overwritten or kept
example : ff_Element_Sqrt 7 4 = ((some (I3.q - 2), I3.q - 2), true) := by decide +kernel
example : ff_Element_Sqrt 7 5 = ((none, 7), true) := by decide +kernel
example : ffg_Element_Sqrt 5 4 = ((some 2, 2), true) := by decide +kernel
example : ffg_Element_Sqrt 5 7 = ((none, 5), true) := by decide +kernel
-- deepest loop: `g²` has order `2^(r-1)`; `g` itself is a non-residue
example : ff_Element_Sqrt 0 (ffG * ffG % I3.q) = ((some ffG, ffG), true) := by decide +kernel
example : ff_Element_Sqrt 9 ffG = ((none, 9), true) := by decide +kernel
example : ffg_Element_Sqrt 0 (ffgG * ffgG % I3.gp) = ((some ffgG, ffgG), true) := by decide +kernel
example : ffg_Element_Sqrt 9 ffgG = ((none, 9), true) := by decide +kernel
-- Legendre, Exp, Div, BatchInvert
example : ff_Element_Legendre 4 = 1 ∧ ff_Element_Legendre 5 = -1 ∧ ff_Element_Legendre 0 = 0 := by
  decide +kernel
example : ffg_Element_Legendre 4 = 1 ∧ ffg_Element_Legendre 7 = -1 ∧ ffg_Element_Legendre 0 = 0 := by
  decide +kernel
example : ffg_Element_Exp 0 3 5 = (243, 243) ∧ ffg_Element_Exp 0 0 0 = (1, 1) := by decide +kernel
example : ffg_Element_Div 0 6 3 = (2, 2) ∧ ffg_Element_Div 0 6 0 = (0, 0) := by decide +kernel
example : ffg_BatchInvert [2, 0, 4] = [9223372034707292161, 0, 13835058052060938241] := by
  decide +kernel
-- the general theorem applied to a concrete element
example : ∃ y, ff_Element_Sqrt 0 4 = ((some y, y), true) ∧ y < I3.q ∧ y * y % I3.q = 4 :=
  (ff_Sqrt_some_iff 0 (by decide +kernel)).2 ⟨2, by norm_num⟩

end I3.Props.C18Gen
