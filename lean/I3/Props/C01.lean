/-
  I3.Props.C01 — property C01: `poseidon.HashWithStateEx` (the optimised Hades loop of
  /repo/poseidon/poseidon.go with the tables of /repo/poseidon/constants.go) equals, for EVERY input and
  all 16 widths t = 2..17, the TEXTBOOK Poseidon permutation (`I3.Hades.poseidonBN254`: x^5, 8 full rounds,
  circomlib partial-round schedule) with the REFERENCE parameters (`I3.Grain.bn254Params`: round constants
  from the Grain LFSR, Cauchy MDS matrix).

  Ingredients:
    * I3.Lemmas.PoseidonRefine.checkAll_sound — the relation checker is sound (any modulus, any width);
    * I3.Props.C01W<t>.tables_ok_<t> (t = 2..17) — the kernel evaluates the checker to `true` on the tables
      regenerated from /repo against the reference generator (I3.Spec.GrainW<t>.grain_<t>);
    * I3.Props.C07 / I3.Lemmas.Guards — the guard structure of `hashWithStateEx`.
-/
import I3.Props.C01W2
import I3.Props.C01W3
import I3.Props.C01W4
import I3.Props.C01W5
import I3.Props.C01W6
import I3.Props.C01W7
import I3.Props.C01W8
import I3.Props.C01W9
import I3.Props.C01W10
import I3.Props.C01W11
import I3.Props.C01W12
import I3.Props.C01W13
import I3.Props.C01W14
import I3.Props.C01W15
import I3.Props.C01W16
import I3.Props.C01W17
import I3.Props.C07
namespace I3.Props.C01
open I3 I3.Lemmas.Guards
open I3.Model.Poseidon (hashWithStateEx tablesOk Tables permute)

/-- The round schedule, S-box exponent and modulus used by the Go code are the reference ones. -/
theorem schedule :
    Gen.poseidon_NROUNDSP = Grain.nRoundsP ∧ Gen.poseidon_NROUNDSF = 8 ∧ Gen.poseidon_sboxExp = 5 ∧
      Gen.constants_q = q := by
  decide

/-- Every admissible width: the production tables are present, the Go schedule entry is the one used,
    and the optimised permutation is the reference permutation on every state of that width. -/
theorem all_widths (t : Nat) (h2 : 2 ≤ t) (h17 : t ≤ 17) :
    ∃ tab rp, Inst.pTables t = some tab ∧ Gen.poseidon_NROUNDSP[t - 2]? = some rp ∧
      ∀ st : List Nat, st.length = t →
        permute Gen.constants_q Gen.poseidon_sboxExp tab t rp st =
          Hades.poseidonBN254 (Grain.bn254Params t) st := by
  have ht : t = 2 ∨ t = 3 ∨ t = 4 ∨ t = 5 ∨ t = 6 ∨ t = 7 ∨ t = 8 ∨ t = 9 ∨ t = 10 ∨ t = 11 ∨ t = 12 ∨ t = 13 ∨ t = 14 ∨ t = 15 ∨ t = 16 ∨ t = 17 := by omega
  rcases ht with rfl | rfl | rfl | rfl | rfl | rfl | rfl | rfl | rfl | rfl | rfl | rfl | rfl | rfl | rfl | rfl
  · exact ⟨⟨Gen.PT2.C, Gen.PT2.S, Gen.PT2.M, Gen.PT2.P⟩, 56, rfl, rfl, width_2⟩
  · exact ⟨⟨Gen.PT3.C, Gen.PT3.S, Gen.PT3.M, Gen.PT3.P⟩, 57, rfl, rfl, width_3⟩
  · exact ⟨⟨Gen.PT4.C, Gen.PT4.S, Gen.PT4.M, Gen.PT4.P⟩, 56, rfl, rfl, width_4⟩
  · exact ⟨⟨Gen.PT5.C, Gen.PT5.S, Gen.PT5.M, Gen.PT5.P⟩, 60, rfl, rfl, width_5⟩
  · exact ⟨⟨Gen.PT6.C, Gen.PT6.S, Gen.PT6.M, Gen.PT6.P⟩, 60, rfl, rfl, width_6⟩
  · exact ⟨⟨Gen.PT7.C, Gen.PT7.S, Gen.PT7.M, Gen.PT7.P⟩, 63, rfl, rfl, width_7⟩
  · exact ⟨⟨Gen.PT8.C, Gen.PT8.S, Gen.PT8.M, Gen.PT8.P⟩, 64, rfl, rfl, width_8⟩
  · exact ⟨⟨Gen.PT9.C, Gen.PT9.S, Gen.PT9.M, Gen.PT9.P⟩, 63, rfl, rfl, width_9⟩
  · exact ⟨⟨Gen.PT10.C, Gen.PT10.S, Gen.PT10.M, Gen.PT10.P⟩, 60, rfl, rfl, width_10⟩
  · exact ⟨⟨Gen.PT11.C, Gen.PT11.S, Gen.PT11.M, Gen.PT11.P⟩, 66, rfl, rfl, width_11⟩
  · exact ⟨⟨Gen.PT12.C, Gen.PT12.S, Gen.PT12.M, Gen.PT12.P⟩, 60, rfl, rfl, width_12⟩
  · exact ⟨⟨Gen.PT13.C, Gen.PT13.S, Gen.PT13.M, Gen.PT13.P⟩, 65, rfl, rfl, width_13⟩
  · exact ⟨⟨Gen.PT14.C, Gen.PT14.S, Gen.PT14.M, Gen.PT14.P⟩, 70, rfl, rfl, width_14⟩
  · exact ⟨⟨Gen.PT15.C, Gen.PT15.S, Gen.PT15.M, Gen.PT15.P⟩, 60, rfl, rfl, width_15⟩
  · exact ⟨⟨Gen.PT16.C, Gen.PT16.S, Gen.PT16.M, Gen.PT16.P⟩, 64, rfl, rfl, width_16⟩
  · exact ⟨⟨Gen.PT17.C, Gen.PT17.S, Gen.PT17.M, Gen.PT17.P⟩, 68, rfl, rfl, width_17⟩

/-- **C01 (headline)**.  Whenever the production `poseidon.HashWithStateEx(inp, st, nOuts)` succeeds, its
    result is the first `nOuts` lanes of the textbook Poseidon permutation with the reference (Grain)
    constants applied to the state `[st, inp…]` — for every input vector, capacity value and `nOuts`. -/
theorem poseidon_eq_reference (inp : List Int) (st : Int) (nOuts : Int) (r : List Nat)
    (h : Inst.poseidonEx inp st nOuts = .ok r) :
    r = (Hades.poseidonBN254 (Grain.bn254Params (inp.length + 1))
          (st.toNat :: inp.map Int.toNat)).take nOuts.toNat := by
  obtain ⟨h1, h2, h3, h4, h5, h6, h7⟩ := (C07.poseidonEx_ok_iff inp st nOuts).1 ⟨r, h⟩
  obtain ⟨tab, rp, htab, hrp, hw⟩ := all_widths (inp.length + 1) (by omega) (by omega)
  have hlen : Gen.poseidon_NROUNDSP.length = 16 := by decide
  obtain ⟨tab', rp', ht', hr', -, heq⟩ := hashWithStateEx_passed Gen.constants_q Gen.poseidon_sboxExp
    Inst.pTables Gen.poseidon_NROUNDSP inp st nOuts C07.inst_tablesPresent h1 (by omega) h3 h6 h7
  rw [htab] at ht'
  rw [hrp] at hr'
  cases ht'
  cases hr'
  unfold Inst.poseidonEx at h
  rw [heq, if_pos ((inField_iff _ st).2 ⟨h4, h5⟩)] at h
  cases h
  rw [hw _ (by simp)]

/-- Totality form: on every admissible input the production function returns exactly the reference
    value (acceptance frontier from C07 + `poseidon_eq_reference`). -/
theorem poseidon_spec (inp : List Int) (st : Int) (nOuts : Int)
    (h1 : 1 ≤ inp.length) (h2 : inp.length ≤ 16) (h3 : ∀ x ∈ inp, 0 ≤ x ∧ x < (q : Int))
    (h4 : 0 ≤ st) (h5 : st < (q : Int)) (h6 : 1 ≤ nOuts) (h7 : nOuts ≤ (inp.length : Int) + 1) :
    Inst.poseidonEx inp st nOuts =
      .ok ((Hades.poseidonBN254 (Grain.bn254Params (inp.length + 1))
        (st.toNat :: inp.map Int.toNat)).take nOuts.toNat) := by
  have hq : Gen.constants_q = q := by decide
  obtain ⟨r, hr⟩ := (C07.poseidonEx_ok_iff inp st nOuts).2
    ⟨h1, h2, by rw [hq]; exact h3, h4, by rw [hq]; exact h5, h6, h7⟩
  rw [hr, poseidon_eq_reference inp st nOuts r hr]

/-- The plain hash `poseidon.Hash(inp)` (`initState = 0`, one output) is lane 0 of the reference
    permutation applied to `[0, inp…]`. -/
theorem hash_eq_reference (inp : List Int) (h : Nat) (hh : Inst.hPoseidon inp = some h) :
    (Hades.poseidonBN254 (Grain.bn254Params (inp.length + 1)) (0 :: inp.map Int.toNat)).head? =
      some h := by
  unfold Inst.hPoseidon at hh
  split at hh
  · next x heq =>
    cases hh
    have := poseidon_eq_reference inp 0 1 _ heq
    have e1 : (1 : Int).toNat = 1 := rfl
    have e0 : (0 : Int).toNat = 0 := rfl
    rw [e1, e0] at this
    generalize Hades.poseidonBN254 (Grain.bn254Params (inp.length + 1)) (0 :: inp.map Int.toNat) = l
      at this ⊢
    cases l with
    | nil => simp at this
    | cons a l => simp at this; simp [this]
  · cases hh

/-- Every output of a successful call is a canonical residue `< q`. -/
theorem poseidon_output_lt_q (inp : List Int) (st : Int) (nOuts : Int) (r : List Nat)
    (h : Inst.poseidonEx inp st nOuts = .ok r) : ∀ x ∈ r, x < q := by
  have hq : Gen.constants_q = q := by decide
  intro x hx
  have := C07.poseidon_ok_canonical Gen.constants_q Gen.poseidon_sboxExp Inst.pTables
    Gen.poseidon_NROUNDSP inp st nOuts (by decide) r h x hx
  rwa [hq] at this

/-! ### non-vacuity -/

/-- circomlib test vector `poseidon([1, 2])`, computed by the MODEL OF THE GO CODE in the kernel. -/
theorem vector_1_2 : Inst.poseidonEx [1, 2] 0 1 =
    .ok [7853200120776062878684798364095072458815029376092732009249414926327459813530] := by
  decide +kernel

/-- … hence the REFERENCE permutation with Grain constants yields the same vector (no evaluation of
    the reference is needed: this is `poseidon_eq_reference`). -/
example : (Hades.poseidonBN254 (Grain.bn254Params 3) [0, 1, 2]).take 1 =
    [7853200120776062878684798364095072458815029376092732009249414926327459813530] :=
  (poseidon_eq_reference [1, 2] 0 1 _ vector_1_2).symm

example : Inst.hPoseidon [1, 2] =
    some 7853200120776062878684798364095072458815029376092732009249414926327459813530 := by
  decide +kernel

example : (Hades.poseidonBN254 (Grain.bn254Params 3) [0, 1, 2]).head? =
    some 7853200120776062878684798364095072458815029376092732009249414926327459813530 :=
  hash_eq_reference [1, 2] _ (by decide +kernel)

end I3.Props.C01
