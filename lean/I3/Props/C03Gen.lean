/-
  I3.Props.C03Gen — EdDSA verification accepts exactly the solutions of the verification equation:
  the headline theorems of I3.Props.C03 restated about the definitions GENERATED from
  /repo/babyjub/eddsa.go by the source translator T6 (`babyjub_PublicKey_VerifyPoseidon`,
  `babyjub_PublicKey_VerifyMimc7`) and the generated hashes `poseidon_Hash`, `mimc7_Hash · nil`.  They
  are obtained from the C03 theorems through the bridge lemmas of I3.Lemmas.GoBridgeEdDSA
  (`generated = model` for EVERY public key, message and signature; transported once for any triple
  satisfying the bridge equations: `GoBridge.IsEdDSA`).

  Conventions of the translation: `pk.VerifyPoseidon(msg, sig)` is
  `babyjub_PublicKey_VerifyPoseidon pk msg sig : Option String` with `pk : ℤ × ℤ`, `msg : ℤ`,
  `sig = (R8, S) : (ℤ × ℤ) × ℤ`; the result `none` is a nil error, `some "ErrSOutOfRange"`,
  `some "ErrVerifyPoseidonFailed"` / `some "ErrVerifyMimc7Failed"` are the package-level error
  variables of that name, `some "inputs values not inside Finite Field"` is the error created by the
  hash.  `poseidon.Hash(v)` is `poseidon_Hash v : ℤ × Option String`, `mimc7.Hash(v, nil)` is
  `mimc7_Hash v none`.  `coords P` are the canonical integer coordinates of a point of the abstract
  group `I3.Spec.BJJ.curve.Point` (what a Go `Point` holds), `B8` the base point of prime order `l`.

  The theorems quantify over ALL curve points `A`, `R8` (the whole group of order `8 l`), every
  integer message and every integer `S`.
-/
import I3.Props.C03
import I3.Lemmas.GoBridgeEdDSA

set_option maxRecDepth 100000

namespace I3.Props.C03Gen

open I3 I3.Spec I3.Spec.BJJ I3.Gen.Go I3.GoBridge

/-! ## 1. acceptance is the equation `S • B8 = R8 + (8 hm) • A` -/

/-- **`VerifyPoseidon` returns nil exactly when** `0 ≤ S < l`, the hash of
`[R8.x, R8.y, A.x, A.y, msg]` is defined (value `hm`, nil error) and `S • B8 = R8 + (8 hm) • A` in the
group. -/
theorem verifyPoseidon_none_iff (A R8 : curve.Point) (msg S : ℤ) :
    babyjub_PublicKey_VerifyPoseidon (coords A) msg (coords R8, S) = none ↔
      0 ≤ S ∧ S < (I3.l : ℤ) ∧ ∃ hm : ℕ,
        poseidon_Hash [(coords R8).1, (coords R8).2, (coords A).1, (coords A).2, msg] =
          ((hm : ℤ), none) ∧
        S.toNat • B8 = R8 + (8 * hm) • A :=
  isEdDSA_poseidon.verify_none_iff A R8 msg S

/-- **`VerifyMimc7` returns nil exactly when** `0 ≤ S < l`, the hash is defined and the equation
holds. -/
theorem verifyMimc7_none_iff (A R8 : curve.Point) (msg S : ℤ) :
    babyjub_PublicKey_VerifyMimc7 (coords A) msg (coords R8, S) = none ↔
      0 ≤ S ∧ S < (I3.l : ℤ) ∧ ∃ hm : ℕ,
        mimc7_Hash [(coords R8).1, (coords R8).2, (coords A).1, (coords A).2, msg] none =
          ((hm : ℤ), none) ∧
        S.toNat • B8 = R8 + (8 * hm) • A :=
  isEdDSA_mimc7.verify_none_iff A R8 msg S

/-- **… and otherwise exactly the stated error** (Poseidon), in the order of the Go code: `S` out of
range gives `ErrSOutOfRange` whatever the rest; in range, an error of the hash is returned as it is;
in range with hash value `hm`, a non-solution gives `ErrVerifyPoseidonFailed`. -/
theorem verifyPoseidon_errors (A R8 : curve.Point) (msg S : ℤ) :
    ((S < 0 ∨ (I3.l : ℤ) ≤ S) →
        babyjub_PublicKey_VerifyPoseidon (coords A) msg (coords R8, S) = some "ErrSOutOfRange") ∧
      (0 ≤ S → S < (I3.l : ℤ) →
        poseidon_Hash [(coords R8).1, (coords R8).2, (coords A).1, (coords A).2, msg] =
          (0, some "inputs values not inside Finite Field") →
        babyjub_PublicKey_VerifyPoseidon (coords A) msg (coords R8, S) =
          some "inputs values not inside Finite Field") ∧
      (0 ≤ S → S < (I3.l : ℤ) → ∀ hm : ℕ,
        poseidon_Hash [(coords R8).1, (coords R8).2, (coords A).1, (coords A).2, msg] =
          ((hm : ℤ), none) →
        S.toNat • B8 ≠ R8 + (8 * hm) • A →
        babyjub_PublicKey_VerifyPoseidon (coords A) msg (coords R8, S) =
          some "ErrVerifyPoseidonFailed") :=
  isEdDSA_poseidon.verify_cases' A R8 msg S

theorem verifyMimc7_errors (A R8 : curve.Point) (msg S : ℤ) :
    ((S < 0 ∨ (I3.l : ℤ) ≤ S) →
        babyjub_PublicKey_VerifyMimc7 (coords A) msg (coords R8, S) = some "ErrSOutOfRange") ∧
      (0 ≤ S → S < (I3.l : ℤ) →
        mimc7_Hash [(coords R8).1, (coords R8).2, (coords A).1, (coords A).2, msg] none =
          (0, some "inputs values not inside Finite Field") →
        babyjub_PublicKey_VerifyMimc7 (coords A) msg (coords R8, S) =
          some "inputs values not inside Finite Field") ∧
      (0 ≤ S → S < (I3.l : ℤ) → ∀ hm : ℕ,
        mimc7_Hash [(coords R8).1, (coords R8).2, (coords A).1, (coords A).2, msg] none =
          ((hm : ℤ), none) →
        S.toNat • B8 ≠ R8 + (8 * hm) • A →
        babyjub_PublicKey_VerifyMimc7 (coords A) msg (coords R8, S) =
          some "ErrVerifyMimc7Failed") :=
  isEdDSA_mimc7.verify_cases' A R8 msg S

/-- the two generated hashes return either `(hm, nil)` with `hm ≥ 0` or
`(nil, "inputs values not inside Finite Field")` on five inputs — the case distinction of the two
theorems above is exhaustive -/
theorem hash_cases (a b c d e : ℤ) :
    ((∃ hm : ℕ, poseidon_Hash [a, b, c, d, e] = ((hm : ℤ), none)) ∨
        poseidon_Hash [a, b, c, d, e] = (0, some "inputs values not inside Finite Field")) ∧
      ((∃ hm : ℕ, mimc7_Hash [a, b, c, d, e] none = ((hm : ℤ), none)) ∨
        mimc7_Hash [a, b, c, d, e] none = (0, some "inputs values not inside Finite Field")) :=
  ⟨isEdDSA_poseidon.gh_cases a b c d e, isEdDSA_mimc7.gh_cases a b c d e⟩

/-- **Verification accepts exactly the solutions of the equation** (form of `C03.verify_iff`) -/
theorem verifyPoseidon_iff_eq (A R8 : curve.Point) (msg S : ℤ) (hm : ℕ) (hS0 : 0 ≤ S)
    (hSl : S < (I3.l : ℤ))
    (hH : poseidon_Hash [(coords R8).1, (coords R8).2, (coords A).1, (coords A).2, msg] =
      ((hm : ℤ), none)) :
    babyjub_PublicKey_VerifyPoseidon (coords A) msg (coords R8, S) = none ↔
      S.toNat • B8 = R8 + (8 * hm) • A :=
  isEdDSA_poseidon.verify_iff A R8 msg S hm hS0 hSl hH

theorem verifyMimc7_iff_eq (A R8 : curve.Point) (msg S : ℤ) (hm : ℕ) (hS0 : 0 ≤ S)
    (hSl : S < (I3.l : ℤ))
    (hH : mimc7_Hash [(coords R8).1, (coords R8).2, (coords A).1, (coords A).2, msg] none =
      ((hm : ℤ), none)) :
    babyjub_PublicKey_VerifyMimc7 (coords A) msg (coords R8, S) = none ↔
      S.toNat • B8 = R8 + (8 * hm) • A :=
  isEdDSA_mimc7.verify_iff A R8 msg S hm hS0 hSl hH

/-- when the hash reports an error the result is that error, for ANY integer pairs `a`, `r8` (no
curve hypothesis) and `S` in range -/
theorem verify_hash_error (a r8 : ℤ × ℤ) (msg S : ℤ) (hS0 : 0 ≤ S) (hSl : S < (I3.l : ℤ)) :
    (poseidon_Hash [r8.1, r8.2, a.1, a.2, msg] = (0, some "inputs values not inside Finite Field") →
        babyjub_PublicKey_VerifyPoseidon a msg (r8, S) =
          some "inputs values not inside Finite Field") ∧
      (mimc7_Hash [r8.1, r8.2, a.1, a.2, msg] none =
          (0, some "inputs values not inside Finite Field") →
        babyjub_PublicKey_VerifyMimc7 a msg (r8, S) =
          some "inputs values not inside Finite Field") :=
  ⟨isEdDSA_poseidon.verify_hash_error a r8 msg S hS0 hSl,
    isEdDSA_mimc7.verify_hash_error a r8 msg S hS0 hSl⟩

/-! ## 2. with a message in the field the hash step cannot fail -/

/-- `VerifyPoseidon` on curve points, a message in the field and `S` in range: decided by the
equation alone -/
theorem verifyPoseidon_iff (A R8 : curve.Point) (msg S : ℤ) (hm0 : 0 ≤ msg)
    (hmq : msg < (I3.q : ℤ)) (hS0 : 0 ≤ S) (hSl : S < (I3.l : ℤ)) :
    ∃ hm : ℕ, poseidon_Hash [(coords R8).1, (coords R8).2, (coords A).1, (coords A).2, msg] =
        ((hm : ℤ), none) ∧
      (babyjub_PublicKey_VerifyPoseidon (coords A) msg (coords R8, S) = none ↔
        S.toNat • B8 = R8 + (8 * hm) • A) ∧
      (S.toNat • B8 ≠ R8 + (8 * hm) • A →
        babyjub_PublicKey_VerifyPoseidon (coords A) msg (coords R8, S) =
          some "ErrVerifyPoseidonFailed") :=
  isEdDSA_poseidon.verify_iff_total A R8 msg S hm0 hmq hS0 hSl

/-- `VerifyMimc7` on curve points, a message in the field and `S` in range -/
theorem verifyMimc7_iff (A R8 : curve.Point) (msg S : ℤ) (hm0 : 0 ≤ msg)
    (hmq : msg < (I3.q : ℤ)) (hS0 : 0 ≤ S) (hSl : S < (I3.l : ℤ)) :
    ∃ hm : ℕ, mimc7_Hash [(coords R8).1, (coords R8).2, (coords A).1, (coords A).2, msg] none =
        ((hm : ℤ), none) ∧
      (babyjub_PublicKey_VerifyMimc7 (coords A) msg (coords R8, S) = none ↔
        S.toNat • B8 = R8 + (8 * hm) • A) ∧
      (S.toNat • B8 ≠ R8 + (8 * hm) • A →
        babyjub_PublicKey_VerifyMimc7 (coords A) msg (coords R8, S) =
          some "ErrVerifyMimc7Failed") :=
  isEdDSA_mimc7.verify_iff_total A R8 msg S hm0 hmq hS0 hSl

/-- a message outside the field is reported with the hash error by both verifiers, whatever the
points (any integer pairs) -/
theorem verify_msg_out_of_field (a r8 : ℤ × ℤ) (msg S : ℤ) (hS0 : 0 ≤ S) (hSl : S < (I3.l : ℤ))
    (hmsg : msg < 0 ∨ (I3.q : ℤ) ≤ msg) :
    babyjub_PublicKey_VerifyPoseidon a msg (r8, S) = some "inputs values not inside Finite Field" ∧
      babyjub_PublicKey_VerifyMimc7 a msg (r8, S) = some "inputs values not inside Finite Field" :=
  ⟨isEdDSA_poseidon.verify_msg_out_of_field a r8 msg S hS0 hSl hmsg,
    isEdDSA_mimc7.verify_msg_out_of_field a r8 msg S hS0 hSl hmsg⟩

/-- a point coordinate outside `[0, q)` (a non-canonical representative) is likewise reported with
the hash error: verification never reduces coordinates silently -/
theorem verify_coord_out_of_field (a r8 : ℤ × ℤ) (msg S : ℤ) (hS0 : 0 ≤ S) (hSl : S < (I3.l : ℤ))
    (hc : ∃ c ∈ [r8.1, r8.2, a.1, a.2], c < 0 ∨ (I3.q : ℤ) ≤ c) :
    babyjub_PublicKey_VerifyPoseidon a msg (r8, S) = some "inputs values not inside Finite Field" ∧
      babyjub_PublicKey_VerifyMimc7 a msg (r8, S) = some "inputs values not inside Finite Field" :=
  ⟨isEdDSA_poseidon.verify_coord_out_of_field a r8 msg S hS0 hSl hc,
    isEdDSA_mimc7.verify_coord_out_of_field a r8 msg S hS0 hSl hc⟩

/-! ## 3. consequences: single-component alterations of a valid signature -/

/-- **altered `S`**: if `(A, msg, R8, S)` verifies, every other `S'` in `[0, l)` is rejected with
`ErrVerify…Failed` (and every `S'` outside with `ErrSOutOfRange`: C14Gen) -/
theorem verify_other_S_rejected (A R8 : curve.Point) (msg S S' : ℤ) (hS0' : 0 ≤ S')
    (hSl' : S' < (I3.l : ℤ)) (hne : S' ≠ S) :
    (babyjub_PublicKey_VerifyPoseidon (coords A) msg (coords R8, S) = none →
        babyjub_PublicKey_VerifyPoseidon (coords A) msg (coords R8, S') =
          some "ErrVerifyPoseidonFailed") ∧
      (babyjub_PublicKey_VerifyMimc7 (coords A) msg (coords R8, S) = none →
        babyjub_PublicKey_VerifyMimc7 (coords A) msg (coords R8, S') =
          some "ErrVerifyMimc7Failed") :=
  ⟨isEdDSA_poseidon.verify_other_S_rejected A R8 msg S S' hS0' hSl' hne,
    isEdDSA_mimc7.verify_other_S_rejected A R8 msg S S' hS0' hSl' hne⟩

/-- **altered `R8`** (Poseidon): with the new hash value `hm'` the altered signature verifies iff
`R8' + (8 hm') • A = R8 + (8 hm) • A` -/
theorem verifyPoseidon_other_R8_iff (A R8 R8' : curve.Point) (msg S : ℤ) (hm hm' : ℕ)
    (hH : poseidon_Hash [(coords R8).1, (coords R8).2, (coords A).1, (coords A).2, msg] =
      ((hm : ℤ), none))
    (hH' : poseidon_Hash [(coords R8').1, (coords R8').2, (coords A).1, (coords A).2, msg] =
      ((hm' : ℤ), none))
    (hok : babyjub_PublicKey_VerifyPoseidon (coords A) msg (coords R8, S) = none) :
    babyjub_PublicKey_VerifyPoseidon (coords A) msg (coords R8', S) = none ↔
      R8' + (8 * hm') • A = R8 + (8 * hm) • A :=
  isEdDSA_poseidon.verify_other_R8_iff A R8 R8' msg S hm hm' hH hH' hok

theorem verifyMimc7_other_R8_iff (A R8 R8' : curve.Point) (msg S : ℤ) (hm hm' : ℕ)
    (hH : mimc7_Hash [(coords R8).1, (coords R8).2, (coords A).1, (coords A).2, msg] none =
      ((hm : ℤ), none))
    (hH' : mimc7_Hash [(coords R8').1, (coords R8').2, (coords A).1, (coords A).2, msg] none =
      ((hm' : ℤ), none))
    (hok : babyjub_PublicKey_VerifyMimc7 (coords A) msg (coords R8, S) = none) :
    babyjub_PublicKey_VerifyMimc7 (coords A) msg (coords R8', S) = none ↔
      R8' + (8 * hm') • A = R8 + (8 * hm) • A :=
  isEdDSA_mimc7.verify_other_R8_iff A R8 R8' msg S hm hm' hH hH' hok

/-- **altered public key** (Poseidon): accepted iff `(8 hm') • A' = (8 hm) • A` -/
theorem verifyPoseidon_altered_key_iff (A A' R8 : curve.Point) (msg S : ℤ) (hm hm' : ℕ)
    (hH : poseidon_Hash [(coords R8).1, (coords R8).2, (coords A).1, (coords A).2, msg] =
      ((hm : ℤ), none))
    (hH' : poseidon_Hash [(coords R8).1, (coords R8).2, (coords A').1, (coords A').2, msg] =
      ((hm' : ℤ), none))
    (hok : babyjub_PublicKey_VerifyPoseidon (coords A) msg (coords R8, S) = none) :
    babyjub_PublicKey_VerifyPoseidon (coords A') msg (coords R8, S) = none ↔
      (8 * hm') • A' = (8 * hm) • A :=
  isEdDSA_poseidon.verify_altered_key_iff A A' R8 msg S hm hm' hH hH' hok

theorem verifyMimc7_altered_key_iff (A A' R8 : curve.Point) (msg S : ℤ) (hm hm' : ℕ)
    (hH : mimc7_Hash [(coords R8).1, (coords R8).2, (coords A).1, (coords A).2, msg] none =
      ((hm : ℤ), none))
    (hH' : mimc7_Hash [(coords R8).1, (coords R8).2, (coords A').1, (coords A').2, msg] none =
      ((hm' : ℤ), none))
    (hok : babyjub_PublicKey_VerifyMimc7 (coords A) msg (coords R8, S) = none) :
    babyjub_PublicKey_VerifyMimc7 (coords A') msg (coords R8, S) = none ↔
      (8 * hm') • A' = (8 * hm) • A :=
  isEdDSA_mimc7.verify_altered_key_iff A A' R8 msg S hm hm' hH hH' hok

/-- **altered message** (Poseidon), for a genuine public key `A = s • B8 ≠ 0`: the altered message
is accepted iff the hash values collide modulo `l` -/
theorem verifyPoseidon_altered_msg_iff_modEq (s : ℕ) (R8 : curve.Point) (msg msg' S : ℤ)
    (hm hm' : ℕ) (hA : s • B8 ≠ 0)
    (hH : poseidon_Hash [(coords R8).1, (coords R8).2, (coords (s • B8)).1, (coords (s • B8)).2,
      msg] = ((hm : ℤ), none))
    (hH' : poseidon_Hash [(coords R8).1, (coords R8).2, (coords (s • B8)).1, (coords (s • B8)).2,
      msg'] = ((hm' : ℤ), none))
    (hok : babyjub_PublicKey_VerifyPoseidon (coords (s • B8)) msg (coords R8, S) = none) :
    babyjub_PublicKey_VerifyPoseidon (coords (s • B8)) msg' (coords R8, S) = none ↔
      hm' ≡ hm [MOD I3.l] :=
  isEdDSA_poseidon.verify_altered_msg_iff_modEq s R8 msg msg' S hm hm' hA hH hH' hok

theorem verifyMimc7_altered_msg_iff_modEq (s : ℕ) (R8 : curve.Point) (msg msg' S : ℤ)
    (hm hm' : ℕ) (hA : s • B8 ≠ 0)
    (hH : mimc7_Hash [(coords R8).1, (coords R8).2, (coords (s • B8)).1, (coords (s • B8)).2,
      msg] none = ((hm : ℤ), none))
    (hH' : mimc7_Hash [(coords R8).1, (coords R8).2, (coords (s • B8)).1, (coords (s • B8)).2,
      msg'] none = ((hm' : ℤ), none))
    (hok : babyjub_PublicKey_VerifyMimc7 (coords (s • B8)) msg (coords R8, S) = none) :
    babyjub_PublicKey_VerifyMimc7 (coords (s • B8)) msg' (coords R8, S) = none ↔
      hm' ≡ hm [MOD I3.l] :=
  isEdDSA_mimc7.verify_altered_msg_iff_modEq s R8 msg msg' S hm hm' hA hH hH' hok

/-! ## 4. non-vacuity -/

/-- the hypotheses of `verifyMimc7_iff` are satisfiable, e.g. `A = B8`, `R8 = 2 • B8`,
`msg = q - 1`, `S = l - 1` -/
example : ∃ hm : ℕ, mimc7_Hash [(coords (2 • B8)).1, (coords (2 • B8)).2, (coords B8).1, (coords B8).2,
      (I3.q : ℤ) - 1] none = ((hm : ℤ), none) ∧
    (babyjub_PublicKey_VerifyMimc7 (coords B8) ((I3.q : ℤ) - 1) (coords (2 • B8), (I3.l : ℤ) - 1) =
        none ↔ ((I3.l : ℤ) - 1).toNat • B8 = 2 • B8 + (8 * hm) • B8) ∧
    (((I3.l : ℤ) - 1).toNat • B8 ≠ 2 • B8 + (8 * hm) • B8 →
      babyjub_PublicKey_VerifyMimc7 (coords B8) ((I3.q : ℤ) - 1) (coords (2 • B8), (I3.l : ℤ) - 1) =
        some "ErrVerifyMimc7Failed") :=
  verifyMimc7_iff B8 (2 • B8) _ _ (by decide) (by decide) (by decide) (by decide)

/-- a message `≥ q` gives the hash error with both generated verifiers -/
example : babyjub_PublicKey_VerifyPoseidon (coords B8) (I3.q : ℤ) (coords B8, 1) =
    some "inputs values not inside Finite Field" :=
  (verify_msg_out_of_field _ _ _ 1 (by decide) (by decide) (Or.inr (le_refl _))).1

/-- a non-canonical coordinate `x + q` gives the hash error -/
example : babyjub_PublicKey_VerifyMimc7 ((coords B8).1 + (I3.q : ℤ), (coords B8).2) 1 (coords B8, 1) =
    some "inputs values not inside Finite Field" :=
  (verify_coord_out_of_field _ _ 1 1 (by decide) (by decide)
    ⟨(coords B8).1 + (I3.q : ℤ), by simp, Or.inr (by
      have := (I3.Lemmas.CurveBridge.coords_nonneg B8).1; omega)⟩).2

/-- the Go test vector of `TestSignVerifyPoseidon` (key 000102…0001, msg = LE bytes 00..09) is accepted
by the GENERATED verifier (kernel evaluation, ≈ 20 s: two scalar multiplications and one Poseidon
hash of the translated code) -/
example : babyjub_PublicKey_VerifyPoseidon
    (13277427435165878497778222415993513565335242147425444199013288855685581939618,
     13622229784656158136036771217484571176836296686641868549125388198837476602820)
    42649378395939397566720
    ((11384336176656855268977457483345535180380036354188103142384839473266348197733,
      15383486972088797283337779941324724402501462225528836549661220478783371668959),
     1672775540645840396591609181675628451599263765380031905495115170613215233181) = none := by
  decide +kernel

/-- kernel evaluation of the GENERATED verifier on garbage: the range check, then the hash guard
(the integers `(0, 0)` are not a curve point, the message is negative) -/
example : babyjub_PublicKey_VerifyPoseidon (0, 0) (-1) ((0, 0), -1) = some "ErrSOutOfRange" ∧
    babyjub_PublicKey_VerifyPoseidon (0, 0) (-1) ((0, 0), 5) =
      some "inputs values not inside Finite Field" ∧
    babyjub_PublicKey_VerifyMimc7 (0, 0) (-1) ((0, 0), 5) =
      some "inputs values not inside Finite Field" := by
  decide +kernel

end I3.Props.C03Gen
