/-
  I3.Props.C10Init — the Goldilocks-Poseidon tables as `goldenposeidon.init()` BUILDS them (translated by T6 and
  evaluated by the kernel) are the tables every C10 theorem is about; see I3.Props.C04Init for the explanation.
-/
import I3.Gen.GoGolden
import I3.Gen.GoChkGolden

set_option maxRecDepth 100000
namespace I3.Props.C10Init
open I3 I3.Gen.Go

/-- `goldenposeidon.init()` assigns (C, M, P, S): the tables every C10 theorem is about -/
theorem goldenposeidon_init_eq :
    goldenposeidon_init = (I3.Go.Ext.golden_C, I3.Go.Ext.golden_M, I3.Go.Ext.golden_P, I3.Go.Ext.golden_S) := by
  have h : goldenposeidon_init.1 = I3.Go.Ext.golden_C ∧ goldenposeidon_init.2.1 = I3.Go.Ext.golden_M ∧
      goldenposeidon_init.2.2.1 = I3.Go.Ext.golden_P ∧ goldenposeidon_init.2.2.2 = I3.Go.Ext.golden_S := by
    decide +kernel
  obtain ⟨h1, h2, h3, h4⟩ := h
  ext1
  · exact h1
  · ext1
    · exact h2
    · ext1 <;> assumption

theorem goldenposeidon_init_ok_true : goldenposeidon_init_ok = true := by decide +kernel

end I3.Props.C10Init
