/-
  I3.Props.C18Inst — C18 at the two concrete fields.

  `ff_wf` / `ffg_wf` prove the well-formedness predicate `Model.FF.Cfg.WF` for the configurations
  `I3.Inst.ffCfg` (BN254 scalar field, /repo/ff) and `I3.Inst.ffgCfg` (Goldilocks, /repo/ffg) that
  are assembled from the constants regenerated from the Go source (`I3.Gen.Consts`): the modulus is
  the prime `I3.q` resp. `I3.gp` (primality: `I3.Spec.Primes`), `m - 1 = 2^r·s` with `s` odd,
  `sqrtExp = (s-1)/2`, `legendreExp = (m-1)/2`, the hard-coded Tonelli–Shanks constant `g`
  (given in Montgomery form) satisfies `g^(2^(r-1)) = -1`, and the `LexicographicallyLargest`
  constant is `(m+1)/2`.  All numeric conjuncts are checked by kernel evaluation, so a change of
  any of these constants in the Go source makes this file fail.

  The remaining theorems specialise `I3.Props.C18` to the two fields; these are the property
  theorems listed by the audit.
-/
import I3.Props.C18
import I3.Model.Instances
import I3.Spec.Primes

namespace I3.Props.C18
open I3 I3.Model.FF

/-! ### the generated constants are well-formed -/

theorem ff_m : Inst.ffCfg.m = I3.q := by decide +kernel
theorem ffg_m : Inst.ffgCfg.m = I3.gp := by decide +kernel

theorem ff_wf : Inst.ffCfg.WF where
  prime := by rw [ff_m]; exact I3.q_prime
  odd := by decide +kernel
  limbs_pos := by decide +kernel
  fits := by decide +kernel
  two_adic := ⟨(Inst.ffCfg.m - 1) / 2 ^ Inst.ffCfg.r, by decide +kernel, by decide +kernel,
    by decide +kernel⟩
  r_pos := by decide +kernel
  leg := by decide +kernel
  g_order := by decide +kernel
  lex := by decide +kernel

theorem ffg_wf : Inst.ffgCfg.WF where
  prime := by rw [ffg_m]; exact I3.gp_prime
  odd := by decide +kernel
  limbs_pos := by decide +kernel
  fits := by decide +kernel
  two_adic := ⟨(Inst.ffgCfg.m - 1) / 2 ^ Inst.ffgCfg.r, by decide +kernel, by decide +kernel,
    by decide +kernel⟩
  r_pos := by decide +kernel
  leg := by decide +kernel
  g_order := by decide +kernel
  lex := by decide +kernel

/-- 2-adicities quoted in the property statement. -/
theorem ff_r : Inst.ffCfg.r = 28 := by decide +kernel
theorem ffg_r : Inst.ffgCfg.r = 32 := by decide +kernel

/-! ### /repo/ff — BN254 scalar field, modulus `I3.q` -/

/-- the hard-coded Tonelli–Shanks generators in regular form -/
def ffG : ℕ := Inst.ffCfg.fromMont Inst.ffCfg.gMont
def ffgG : ℕ := Inst.ffgCfg.fromMont Inst.ffgCfg.gMont

/-- `g` has order exactly `2^28` in `(ZMod q)ˣ`. -/
theorem ff_g_orderOf : orderOf ((ffG : ℕ) : ZMod I3.q) = 2 ^ 28 := g_orderOf ff_wf

theorem ff_exp_correct (x e : ℕ) :
    ((exp Inst.ffCfg x e : ℕ) : ZMod I3.q) = (x : ZMod I3.q) ^ e ∧ exp Inst.ffCfg x e < I3.q :=
  exp_correct ff_wf x e

theorem ff_inverse_correct (x : ℕ) :
    ((inverse Inst.ffCfg x : ℕ) : ZMod I3.q) = (x : ZMod I3.q)⁻¹ ∧ inverse Inst.ffCfg x < I3.q :=
  inverse_correct ff_wf x

theorem ff_inverse_zero : inverse Inst.ffCfg 0 = 0 := inverse_zero ff_wf

theorem ff_div_correct (x y : ℕ) :
    ((div Inst.ffCfg x y : ℕ) : ZMod I3.q) = (x : ZMod I3.q) * (y : ZMod I3.q)⁻¹ ∧
      div Inst.ffCfg x y < I3.q :=
  div_correct ff_wf x y

theorem ff_div_zero (x : ℕ) : div Inst.ffCfg x 0 = 0 := div_zero ff_wf x

theorem ff_batchInvert_correct (a : List ℕ) (ha : ∀ x ∈ a, x < I3.q) :
    batchInvert Inst.ffCfg a = a.map (inverse Inst.ffCfg) :=
  batchInvert_correct ff_wf a ha

theorem ff_halve_correct {x : ℕ} (hx : x < I3.q) :
    halve Inst.ffCfg x < I3.q ∧ (2 * halve Inst.ffCfg x) % I3.q = x :=
  halve_correct ff_wf hx

theorem ff_legendre_values (x : ℕ) : legendre Inst.ffCfg x ∈ ({0, 1, -1} : Set ℤ) :=
  legendre_values _ x

theorem ff_legendre_zero_iff (x : ℕ) : legendre Inst.ffCfg x = 0 ↔ (x : ZMod I3.q) = 0 :=
  legendre_zero_iff ff_wf x

theorem ff_legendre_one_iff (x : ℕ) :
    legendre Inst.ffCfg x = 1 ↔ (x : ZMod I3.q) ≠ 0 ∧ IsSquare (x : ZMod I3.q) :=
  legendre_one_iff ff_wf x

theorem ff_legendre_neg_one_iff (x : ℕ) :
    legendre Inst.ffCfg x = -1 ↔ ¬ IsSquare (x : ZMod I3.q) :=
  legendre_neg_one_iff ff_wf x

theorem ff_isSquare_iff_nat {x : ℕ} (hx : x < I3.q) :
    IsSquare (x : ZMod I3.q) ↔ ∃ y, y < I3.q ∧ y * y % I3.q = x :=
  isSquare_iff_nat ff_wf hx

theorem ff_sqrt_some {x : ℕ} (hx : x < I3.q) (y : ℕ) :
    sqrt Inst.ffCfg x = some y → y < I3.q ∧ (y * y) % I3.q = x :=
  sqrt_some ff_wf hx y

theorem ff_sqrt_none_iff {x : ℕ} (hx : x < I3.q) :
    sqrt Inst.ffCfg x = none ↔ ¬ IsSquare (x : ZMod I3.q) :=
  sqrt_none_iff ff_wf hx

theorem ff_sqrt_of_isSquare {x : ℕ} (hx : x < I3.q) (hsq : IsSquare (x : ZMod I3.q)) :
    ∃ y, sqrt Inst.ffCfg x = some y ∧ y < I3.q ∧ (y * y) % I3.q = x :=
  sqrt_of_isSquare ff_wf hx hsq

theorem ff_sqrt_zero : sqrt Inst.ffCfg 0 = some 0 := sqrt_zero ff_wf

theorem ff_sqrt_isSome_iff_legendre {x : ℕ} (hx : x < I3.q) :
    (sqrt Inst.ffCfg x).isSome = true ↔ legendre Inst.ffCfg x ≠ -1 :=
  sqrt_isSome_iff_legendre ff_wf hx

theorem ff_lexLargest_correct (x : ℕ) :
    lexLargest Inst.ffCfg x = true ↔ x > (I3.q - 1) / 2 :=
  lexLargest_correct ff_wf x

theorem ff_toStringInt_correct {x : ℕ} (hx : x < I3.q) :
    toStringInt Inst.ffCfg x % (I3.q : ℤ) = (x : ℤ) :=
  toStringInt_correct (c := Inst.ffCfg) hx

/-! ### /repo/ffg — Goldilocks field, modulus `I3.gp` -/

/-- `g` has order exactly `2^32` in `(ZMod gp)ˣ`. -/
theorem ffg_g_orderOf : orderOf ((ffgG : ℕ) : ZMod I3.gp) = 2 ^ 32 := g_orderOf ffg_wf

theorem ffg_exp_correct (x e : ℕ) :
    ((exp Inst.ffgCfg x e : ℕ) : ZMod I3.gp) = (x : ZMod I3.gp) ^ e ∧
      exp Inst.ffgCfg x e < I3.gp :=
  exp_correct ffg_wf x e

theorem ffg_inverse_correct (x : ℕ) :
    ((inverse Inst.ffgCfg x : ℕ) : ZMod I3.gp) = (x : ZMod I3.gp)⁻¹ ∧
      inverse Inst.ffgCfg x < I3.gp :=
  inverse_correct ffg_wf x

theorem ffg_inverse_zero : inverse Inst.ffgCfg 0 = 0 := inverse_zero ffg_wf

theorem ffg_div_correct (x y : ℕ) :
    ((div Inst.ffgCfg x y : ℕ) : ZMod I3.gp) = (x : ZMod I3.gp) * (y : ZMod I3.gp)⁻¹ ∧
      div Inst.ffgCfg x y < I3.gp :=
  div_correct ffg_wf x y

theorem ffg_div_zero (x : ℕ) : div Inst.ffgCfg x 0 = 0 := div_zero ffg_wf x

theorem ffg_batchInvert_correct (a : List ℕ) (ha : ∀ x ∈ a, x < I3.gp) :
    batchInvert Inst.ffgCfg a = a.map (inverse Inst.ffgCfg) :=
  batchInvert_correct ffg_wf a ha

theorem ffg_halve_correct {x : ℕ} (hx : x < I3.gp) :
    halve Inst.ffgCfg x < I3.gp ∧ (2 * halve Inst.ffgCfg x) % I3.gp = x :=
  halve_correct ffg_wf hx

theorem ffg_legendre_values (x : ℕ) : legendre Inst.ffgCfg x ∈ ({0, 1, -1} : Set ℤ) :=
  legendre_values _ x

theorem ffg_legendre_zero_iff (x : ℕ) : legendre Inst.ffgCfg x = 0 ↔ (x : ZMod I3.gp) = 0 :=
  legendre_zero_iff ffg_wf x

theorem ffg_legendre_one_iff (x : ℕ) :
    legendre Inst.ffgCfg x = 1 ↔ (x : ZMod I3.gp) ≠ 0 ∧ IsSquare (x : ZMod I3.gp) :=
  legendre_one_iff ffg_wf x

theorem ffg_legendre_neg_one_iff (x : ℕ) :
    legendre Inst.ffgCfg x = -1 ↔ ¬ IsSquare (x : ZMod I3.gp) :=
  legendre_neg_one_iff ffg_wf x

theorem ffg_isSquare_iff_nat {x : ℕ} (hx : x < I3.gp) :
    IsSquare (x : ZMod I3.gp) ↔ ∃ y, y < I3.gp ∧ y * y % I3.gp = x :=
  isSquare_iff_nat ffg_wf hx

theorem ffg_sqrt_some {x : ℕ} (hx : x < I3.gp) (y : ℕ) :
    sqrt Inst.ffgCfg x = some y → y < I3.gp ∧ (y * y) % I3.gp = x :=
  sqrt_some ffg_wf hx y

theorem ffg_sqrt_none_iff {x : ℕ} (hx : x < I3.gp) :
    sqrt Inst.ffgCfg x = none ↔ ¬ IsSquare (x : ZMod I3.gp) :=
  sqrt_none_iff ffg_wf hx

theorem ffg_sqrt_of_isSquare {x : ℕ} (hx : x < I3.gp) (hsq : IsSquare (x : ZMod I3.gp)) :
    ∃ y, sqrt Inst.ffgCfg x = some y ∧ y < I3.gp ∧ (y * y) % I3.gp = x :=
  sqrt_of_isSquare ffg_wf hx hsq

theorem ffg_sqrt_zero : sqrt Inst.ffgCfg 0 = some 0 := sqrt_zero ffg_wf

theorem ffg_sqrt_isSome_iff_legendre {x : ℕ} (hx : x < I3.gp) :
    (sqrt Inst.ffgCfg x).isSome = true ↔ legendre Inst.ffgCfg x ≠ -1 :=
  sqrt_isSome_iff_legendre ffg_wf hx

theorem ffg_lexLargest_correct (x : ℕ) :
    lexLargest Inst.ffgCfg x = true ↔ x > (I3.gp - 1) / 2 :=
  lexLargest_correct ffg_wf x

theorem ffg_toStringInt_correct {x : ℕ} (hx : x < I3.gp) :
    toStringInt Inst.ffgCfg x % (I3.gp : ℤ) = (x : ℤ) :=
  toStringInt_correct (c := Inst.ffgCfg) hx

/-! ### Non-vacuity: concrete evaluations of the models at the real constants -/

-- small squares / non-squares
example : sqrt Inst.ffCfg 4 = some (I3.q - 2) := by decide +kernel
example : sqrt Inst.ffCfg 5 = none := by decide +kernel
example : legendre Inst.ffCfg 4 = 1 ∧ legendre Inst.ffCfg 5 = -1 ∧ legendre Inst.ffCfg 0 = 0 := by
  decide +kernel
example : sqrt Inst.ffgCfg 4 = some 2 := by decide +kernel
example : sqrt Inst.ffgCfg 7 = none := by decide +kernel
example : legendre Inst.ffgCfg 4 = 1 ∧ legendre Inst.ffgCfg 7 = -1 ∧ legendre Inst.ffgCfg 0 = 0 := by
  decide +kernel
-- 0, 1, m-1  (−1 is a square in both fields since 4 ∣ m − 1)
example : sqrt Inst.ffCfg 1 = some 1 ∧ (sqrt Inst.ffCfg (I3.q - 1)).isSome = true := by
  decide +kernel
example : sqrt Inst.ffgCfg 1 = some 1 ∧ (sqrt Inst.ffgCfg (I3.gp - 1)).isSome = true := by
  decide +kernel
-- deepest loop: `g²` has order `2^(r-1)`, `g` itself is a non-residue
example : sqrt Inst.ffCfg (ffG * ffG % I3.q) = some ffG := by decide +kernel
example : sqrt Inst.ffCfg ffG = none := by decide +kernel
example : sqrt Inst.ffgCfg (ffgG * ffgG % I3.gp) = some ffgG := by decide +kernel
example : sqrt Inst.ffgCfg ffgG = none := by decide +kernel
-- the general theorem applied to a concrete element
example : ∃ y, sqrt Inst.ffCfg 4 = some y ∧ y < I3.q ∧ y * y % I3.q = 4 :=
  ff_sqrt_of_isSquare (by decide +kernel) ⟨2, by norm_num⟩
-- batch inversion with zeros
example : batchInvert Inst.ffgCfg [2, 0, 4] =
    [inverse Inst.ffgCfg 2, 0, inverse Inst.ffgCfg 4] := by decide +kernel

end I3.Props.C18
