/-
  I3.Props.C20 — the digest wrappers compute the standard digests for every input.

  Keccak:  `keccak256.Hash(data ...[]byte)` creates a legacy Keccak-256 sponge, `Write`s every slice
  and `Sum`s; modelled by `Keccak.hashSlices`.  It equals the one-shot reference `Keccak.keccak256`
  of the concatenation, so the digest does not depend on how the input is split.

  BLAKE-512 (in `I3.Props.C20Blake`, same namespace): the New/Write/Sum state machine of
  github.com/dchest/blake512 equals the one-shot reference `Blake.blake512`.
-/
import I3.Lemmas.Sponge
import I3.Props.C20Blake
namespace I3.Props.C20
open I3 I3.Keccak I3.Lemmas.Sponge

/-- **C20 (Keccak).**  Writing the slices one after the other and summing = hashing the
    concatenation in one shot. -/
theorem keccak_stream_eq (slices : List Bytes) :
    Keccak.hashSlices slices = Keccak.keccak256 slices.flatten := by
  rw [hashSlices, foldl_write_init]
  simp [Sponge.write, Sponge.sum, Sponge.init, keccak256]

/-- the digest depends only on the concatenation of the slices. -/
theorem keccak_split_independent (s1 s2 : List Bytes) (h : s1.flatten = s2.flatten) :
    Keccak.hashSlices s1 = Keccak.hashSlices s2 := by
  rw [keccak_stream_eq, keccak_stream_eq, h]

/-- hashing no slice at all = hashing the empty string. -/
theorem keccak_no_slice : Keccak.hashSlices [] = Keccak.keccak256 [] :=
  keccak_stream_eq []

/-- inserting an empty slice anywhere does not change the digest. -/
theorem keccak_empty_slices_irrelevant (pre post : List Bytes) :
    Keccak.hashSlices (pre ++ [] :: post) = Keccak.hashSlices (pre ++ post) :=
  keccak_split_independent _ _ (by simp)

/-- removing all empty slices does not change the digest. -/
theorem keccak_filter_empty (slices : List Bytes) :
    Keccak.hashSlices (slices.filter (· ≠ [])) = Keccak.hashSlices slices := by
  apply keccak_split_independent
  induction slices with
  | nil => rfl
  | cons x xs ih =>
    by_cases hx : x = []
    · simp_all
    · simp_all

/-- any number of empty slices hashes to the digest of the empty string. -/
theorem keccak_all_empty (n : Nat) :
    Keccak.hashSlices (List.replicate n []) = Keccak.keccak256 [] := by
  rw [keccak_stream_eq]; congr 1
  induction n with
  | zero => rfl
  | succ n ih => simp [List.replicate_succ, ih]

/-- a single slice: `Hash(msg)` is the reference digest of `msg`. -/
theorem keccak_single (msg : Bytes) : Keccak.hashSlices [msg] = Keccak.keccak256 msg := by
  rw [keccak_stream_eq]; simp

theorem keccak_digest_length (msg : Bytes) : (Keccak.keccak256 msg).length = 32 := by
  simp only [keccak256]
  exact squeeze32_length _

/-- the sponge buffer invariant `buf.length < 136` holds in every state the wrapper reaches. -/
theorem keccak_buffer_invariant (slices : List Bytes) :
    (slices.foldl Sponge.write Sponge.init).buf.length < 136 :=
  inv_foldl slices

end I3.Props.C20
