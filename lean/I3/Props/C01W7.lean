/-
  I3.Props.C01W7 — property C01 at width t = 7 (R_F = 8, R_P = 63).
  `tables_lit_7`: the kernel evaluates the relation checker `PoseidonCheck.checkAll` on the tables
  `Gen.PT7.*` (REGENERATED from /repo/poseidon/constants.go on every run) against the literal output of
  the reference Grain generator (`Spec.GrainLit.rc_7`, `mds_7`, proved equal to the generator's output in
  I3.Spec.GrainW7); the witnesses are proposed by `computeWitnesses` inside the same evaluation.
  `tables_ok_7`: the same statement about the generator itself.
  `width_7`: hence (by `checkAll_sound`) the optimised Go loop equals the textbook Poseidon permutation
  on EVERY state of width 7.
-/
import I3.Exec.PoseidonCheck
import I3.Gen.PT7
import I3.Spec.GrainW7
import I3.Lemmas.PoseidonRefine
set_option maxRecDepth 1000000
namespace I3.Props.C01
open I3

theorem tables_lit_7 :
    PoseidonCheck.checkAll q 7 63 Spec.GrainLit.rc_7 Spec.GrainLit.mds_7
      ⟨Gen.PT7.C, Gen.PT7.S, Gen.PT7.M, Gen.PT7.P⟩
      (PoseidonCheck.computeWitnesses q 7 63 Spec.GrainLit.rc_7 Spec.GrainLit.mds_7
        ⟨Gen.PT7.C, Gen.PT7.S, Gen.PT7.M, Gen.PT7.P⟩) = true := by
  decide +kernel

theorem tables_ok_7 :
    PoseidonCheck.checkAll q 7 63 (Grain.bn254Params 7).rc (Grain.mds q (Grain.bn254Params 7))
      ⟨Gen.PT7.C, Gen.PT7.S, Gen.PT7.M, Gen.PT7.P⟩
      (PoseidonCheck.computeWitnesses q 7 63 (Grain.bn254Params 7).rc
        (Grain.mds q (Grain.bn254Params 7)) ⟨Gen.PT7.C, Gen.PT7.S, Gen.PT7.M, Gen.PT7.P⟩) = true := by
  rw [Spec.GrainLit.grain_7.1, Spec.GrainLit.grain_7.2]
  exact tables_lit_7

theorem width_7 (st : List Nat) (hst : st.length = 7) :
    Model.Poseidon.permute q 5 ⟨Gen.PT7.C, Gen.PT7.S, Gen.PT7.M, Gen.PT7.P⟩ 7 63 st =
      Hades.poseidonBN254 (Grain.bn254Params 7) st :=
  PoseidonRefine.width_of_check 7 63 (by decide) _ _ tables_ok_7 st hst

end I3.Props.C01
