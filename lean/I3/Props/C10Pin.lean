/-
  I3.Props.C10 (source pin) — the Go functions mirrored by the hand-written models of C10 still have the
  source text against which those models were validated, and no function was added to or removed
  from their packages.  Regenerated fingerprints: I3.Gen.fingerprints (tools/gen_pins).
-/
import I3.Gen.Fingerprints
import I3.Model.SourcePin
namespace I3.Props.C10
open I3.SourcePin

def modelled : List String := [
  "ffg.Element.Add",
  "ffg.Element.Exp",
  "ffg.Element.FromMont",
  "ffg.Element.Mul",
  "ffg.Element.SetUint64",
  "ffg.Element.Square",
  "ffg.Element.ToUint64Regular",
  "ffg.NewElement",
  "ffg.NewElementFromUint64",
  "goldenposeidon.<decls>@constants.go",
  "goldenposeidon.<decls>@poseidon.go",
  "goldenposeidon.Hash",
  "goldenposeidon.ark",
  "goldenposeidon.exp7",
  "goldenposeidon.exp7state",
  "goldenposeidon.init",
  "goldenposeidon.mix",
  "goldenposeidon.zero",
  "tree.<layout>@ffg",
  "tree.<layout>@goldenposeidon",
  "tree.<layout>@root",
  "ffg.<decls>@arith.go",
  "ffg.<decls>@asm.go",
  "ffg.<decls>@asm_noadx.go",
  "ffg.<decls>@doc.go",
  "ffg.<decls>@element.go",
  "ffg.<decls>@element_ops_amd64.go",
  "ffg.<decls>@element_ops_noasm.go"
]

theorem source_pinned : modelled.all (same I3.Gen.fingerprints) = true := by decide +kernel

theorem function_set_pinned : (["ffg.", "goldenposeidon."] : List String).all (sameKeys I3.Gen.fingerprints) = true := by
  decide +kernel

theorem modelled_nonempty : 28 = modelled.length := by decide

end I3.Props.C10
