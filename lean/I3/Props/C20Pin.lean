/-
  I3.Props.C20 (source pin) — the Go functions mirrored by the hand-written models of C20 still have the
  source text against which those models were validated, and no function was added to or removed
  from their packages.  Regenerated fingerprints: I3.Gen.fingerprints (tools/gen_pins).
-/
import I3.Gen.Fingerprints
import I3.Model.SourcePin
namespace I3.Props.C20
open I3.SourcePin

def modelled : List String := [
  "babyjub.Blake512",
  "keccak256.<decls>@keccac256.go",
  "keccak256.Hash",
  "tree.<layout>@babyjub",
  "tree.<layout>@keccak256",
  "tree.<layout>@root",
  "babyjub.<decls>@babyjub.go",
  "babyjub.<decls>@eddsa.go",
  "babyjub.<decls>@helpers.go",
  "module.<deps>@go.mod",
  "module.<deps>@go.sum",
  "module.<deps>@vendor"
]

theorem source_pinned : modelled.all (same I3.Gen.fingerprints) = true := by decide +kernel

theorem function_set_pinned : (["babyjub.", "keccak256."] : List String).all (sameKeys I3.Gen.fingerprints) = true := by
  decide +kernel

theorem modelled_nonempty : 12 = modelled.length := by decide

end I3.Props.C20
