/-
  I3.Props.C04 — BabyJubJub addition and scalar multiplication implement the curve group law.

  Property theorems about the executable model `I3.Model.BabyJub` of babyjub.go, instantiated at the
  constants regenerated from the Go source (`I3.Inst.bjConsts`), against the abstract group
  `I3.Spec.BJJ.curve.Point` (complete twisted Edwards curve 168700 x² + y² = 1 + 168696 x² y² over
  `ZMod q`).  `coords P` are the canonical integer coordinates of a curve point (what a Go `Point`
  holds).  Helper lemmas live in `I3.Spec.BabyJub` and `I3.Lemmas.CurveBridge`.

  All theorems quantify over ALL curve points (the whole group of order `8 l`, including the
  identity, inverse pairs, equal points, the points of order 2, 4, 8) and ALL natural scalars.
-/
import I3.Lemmas.CurveBridge

namespace I3.Props.C04

open I3 I3.Spec I3.Spec.BJJ I3.Model.BabyJub I3.Lemmas.CurveBridge

/-- the regenerated Go constants (`k` in `I3.Lemmas.CurveBridge` is the same abbreviation) -/
abbrev K : Consts := I3.Inst.bjConsts

/-- affine addition as every caller in the library performs it:
`Projective`, `PointProjective.Add`, `Affine` -/
abbrev addA (p1 p2 : APoint) : APoint :=
  affine K (addProj K (projective K p1) (projective K p2))

/-- canonical integer coordinates of the eight points of order dividing 8 (`smallN` lists them) -/
abbrev smallZ (i : Fin 8) : APoint := (((smallN i).1 : ℤ), ((smallN i).2 : ℤ))

/-! ## 1. the exported constants -/

theorem q_prime : Nat.Prime I3.q := I3.q_prime
theorem l_prime : Nat.Prime I3.l := I3.l_prime

/-- the regenerated constants are the BabyJubJub parameters of the specification -/
theorem consts_eq :
    K.q = I3.q ∧ K.a = 168700 ∧ K.d = 168696 ∧ K.order = 8 * I3.l ∧ K.subOrder = I3.l ∧
      K.b8 = coords B8 :=
  ⟨k_q, k_a, k_d, k_order, k_subOrder, k_b8.trans coords_B8.symm⟩

/-- `Order = 8 * l` -/
theorem order_eq : K.order = 8 * I3.l := k_order

/-- `SubOrder = Order >> 3 = l` -/
theorem subOrder_eq : K.subOrder = I3.l := k_subOrder

/-- the curve is complete: `a` is a nonzero square and `d` a non-square modulo `q` -/
theorem a_square_d_nonsquare :
    IsSquare ((K.a : ℕ) : ZMod I3.q) ∧ ((K.a : ℕ) : ZMod I3.q) ≠ 0 ∧
      ¬ IsSquare ((K.d : ℕ) : ZMod I3.q) := by
  rw [k_a, k_d]
  exact ⟨curve.a_sq, curve.a_ne, curve.d_nsq⟩

/-- the base point `B8` has prime order `l` -/
theorem b8_order : addOrderOf B8 = I3.l := addOrderOf_B8

/-- the curve group has exactly `Order = 8 l` elements -/
theorem group_card : Nat.card curve.Point = K.order := by
  rw [k_order]; exact card_points

/-- the group is cyclic; `G` generates it -/
theorem g_order : addOrderOf G = K.order := by
  rw [k_order]; exact order_G

/-! ## 2. addition -/

/-- **Addition is the group law**, for every pair of curve points: the result is the canonical
coordinate pair of `P + Q`, in `[0, q)²`, and satisfies the curve equation (`InCurve`). -/
theorem add_correct (P Q : curve.Point) :
    addA (coords P) (coords Q) = coords (P + Q) ∧
      (0 ≤ (addA (coords P) (coords Q)).1 ∧ (addA (coords P) (coords Q)).1 < (I3.q : ℤ)) ∧
      (0 ≤ (addA (coords P) (coords Q)).2 ∧ (addA (coords P) (coords Q)).2 < (I3.q : ℤ)) ∧
      inCurve K (addA (coords P) (coords Q)) = true := by
  have h : addA (coords P) (coords Q) = coords (P + Q) := add_coords P Q
  simp only [h]
  exact ⟨trivial, ⟨(coords_nonneg _).1, (coords_lt _).1⟩, ⟨(coords_nonneg _).2, (coords_lt _).2⟩,
    inCurve_coords _⟩

/-- the same for arbitrary (also negative or unreduced) integer coordinates congruent to curve
points: `Projective` reduces them first. -/
theorem add_correct_int (x1 y1 x2 y2 : ℤ) (P Q : curve.Point)
    (hx1 : (x1 : ZMod I3.q) = P.x) (hy1 : (y1 : ZMod I3.q) = P.y)
    (hx2 : (x2 : ZMod I3.q) = Q.x) (hy2 : (y2 : ZMod I3.q) = Q.y) :
    addA (x1, y1) (x2, y2) = coords (P + Q) :=
  add_rep hx1 hy1 hx2 hy2

/-- every integer pair accepted by `InCurve` is such a representative -/
theorem inCurve_iff_point (x y : ℤ) :
    inCurve K (x, y) = true ↔ ∃ P : curve.Point, (x : ZMod I3.q) = P.x ∧ (y : ZMod I3.q) = P.y :=
  ⟨exists_point_of_inCurve, fun ⟨P, hx, hy⟩ => (inCurve_iff x y).2 (by rw [hx, hy]; exact P.on)⟩

/-- the projective addition itself: canonical components, `Z ≠ 0`, represents the sum -/
theorem addProj_correct (p1 p2 : PPoint) (P Q : curve.Point) (h1 : Rep p1 P) (h2 : Rep p2 Q) :
    Rep (addProj K p1 p2) (P + Q) ∧ (addProj K p1 p2).1 < I3.q ∧ (addProj K p1 p2).2.1 < I3.q ∧
      (addProj K p1 p2).2.2 < I3.q ∧ (addProj K p1 p2).2.2 ≠ 0 := by
  have h := addProj_rep h1 h2
  refine ⟨h, (addProj_lt p1 p2).1, (addProj_lt p1 p2).2.1, (addProj_lt p1 p2).2.2, ?_⟩
  intro h0
  exact h.1 (by rw [h0]; simp)

/-- identity -/
theorem add_zero_correct (P : curve.Point) :
    addA (coords P) (0, 1) = coords P ∧ addA (0, 1) (coords P) = coords P := by
  rw [← coords_zero]
  exact ⟨by rw [(add_correct P 0).1, add_zero], by rw [(add_correct 0 P).1, zero_add]⟩

/-- inverse pairs: `P + (-P)` is the identity `(0, 1)` -/
theorem add_neg_correct (P : curve.Point) : addA (coords P) (coords (-P)) = (0, 1) := by
  rw [(add_correct P (-P)).1, add_neg_cancel, coords_zero]

/-- equal points: the unified formula doubles -/
theorem add_self_correct (P : curve.Point) : addA (coords P) (coords P) = coords (2 • P) := by
  rw [(add_correct P P).1, two_nsmul]

/-! ## 3. scalar multiplication -/

/-- **Scalar multiplication is repeated addition**, for every natural scalar of any bit length and
every curve point; the result is canonical and on the curve. -/
theorem mul_correct (s : ℕ) (P : curve.Point) :
    mul K (s : ℤ) (coords P) = coords (s • P) ∧
      (0 ≤ (mul K (s : ℤ) (coords P)).1 ∧ (mul K (s : ℤ) (coords P)).1 < (I3.q : ℤ)) ∧
      (0 ≤ (mul K (s : ℤ) (coords P)).2 ∧ (mul K (s : ℤ) (coords P)).2 < (I3.q : ℤ)) ∧
      inCurve K (mul K (s : ℤ) (coords P)) = true := by
  rw [mul_coords]
  exact ⟨rfl, ⟨(coords_nonneg _).1, (coords_lt _).1⟩, ⟨(coords_nonneg _).2, (coords_lt _).2⟩,
    inCurve_coords _⟩

theorem mul_correct_int (s : ℕ) (x y : ℤ) (P : curve.Point)
    (hx : (x : ZMod I3.q) = P.x) (hy : (y : ZMod I3.q) = P.y) :
    mul K (s : ℤ) (x, y) = coords (s • P) :=
  mul_rep s hx hy

/-- the same for a non-negative `big.Int` scalar -/
theorem mul_correct_nonneg (s : ℤ) (hs : 0 ≤ s) (P : curve.Point) :
    mul K s (coords P) = coords (s.toNat • P) :=
  mul_coords_int hs P

/-- the model agrees with the independent affine reference oracle `I3.Ed.smul` (binary recursion
with one Fermat inversion per coordinate and step) used by the correspondence driver -/
theorem mul_eq_oracle (s : ℕ) (P : curve.Point) :
    mul K (s : ℤ) (coords P) =
      (((Ed.smul s (P.x.val, P.y.val)).1 : ℤ), ((Ed.smul s (P.x.val, P.y.val)).2 : ℤ)) :=
  mul_eq_ed_smul s P

/-- `0 * P` is the identity and `(s+1) * P = s * P + P`: `s * P` is `P` added `s` times -/
theorem mul_zero_succ (s : ℕ) (P : curve.Point) :
    mul K 0 (coords P) = (0, 1) ∧
      mul K ((s + 1 : ℕ) : ℤ) (coords P) = addA (mul K (s : ℤ) (coords P)) (coords P) := by
  constructor
  · have := mul_coords 0 P
    rwa [zero_nsmul, coords_zero] at this
  · rw [mul_coords, mul_coords, (add_correct (s • P) P).1, succ_nsmul]

/-- `(i + j) * P = i * P + j * P` at the level of the model -/
theorem mul_add (i j : ℕ) (P : curve.Point) :
    mul K ((i + j : ℕ) : ℤ) (coords P) = addA (mul K (i : ℤ) (coords P)) (mul K (j : ℤ) (coords P)) := by
  rw [mul_coords, mul_coords, mul_coords, (add_correct (i • P) (j • P)).1, add_nsmul]

/-- `(i * j) * P = i * (j * P)` -/
theorem mul_mul (i j : ℕ) (P : curve.Point) :
    mul K ((i * j : ℕ) : ℤ) (coords P) = mul K (i : ℤ) (mul K (j : ℤ) (coords P)) := by
  rw [mul_coords, mul_coords, mul_coords, mul_nsmul']

/-- `Order * P` is the identity for EVERY curve point -/
theorem mul_order (P : curve.Point) : mul K (K.order : ℤ) (coords P) = (0, 1) := by
  rw [mul_coords, k_order, order_smul, coords_zero]

/-- scalars may be reduced modulo `Order` (and only modulo `Order`: `G` has that exact order) -/
theorem mul_mod_order (s : ℕ) (P : curve.Point) :
    mul K (s : ℤ) (coords P) = mul K ((s % K.order : ℕ) : ℤ) (coords P) := by
  rw [mul_coords, mul_coords, k_order]
  conv_lhs => rw [← Nat.mod_add_div s (8 * I3.l), add_nsmul, mul_nsmul, order_smul, nsmul_zero,
    add_zero]

/-- `s * G` is the identity exactly when `Order ∣ s`: no smaller modulus is correct -/
theorem mul_G_eq_zero_iff (s : ℕ) : mul K (s : ℤ) (coords G) = (0, 1) ↔ K.order ∣ s := by
  rw [mul_coords, ← g_order, addOrderOf_dvd_iff_nsmul_eq_zero]
  exact ⟨eq_zero_of_coords, fun h => by rw [h, coords_zero]⟩

/-- `SubOrder * B8` is the identity, and `s * B8` is the identity exactly when `l ∣ s` -/
theorem mul_b8 (s : ℕ) : mul K (s : ℤ) K.b8 = (0, 1) ↔ I3.l ∣ s := by
  rw [consts_eq.2.2.2.2.2, mul_coords, ← b8_order, addOrderOf_dvd_iff_nsmul_eq_zero]
  exact ⟨eq_zero_of_coords, fun h => by rw [h, coords_zero]⟩

/-! ## 4. the eight points of small order -/

/-- the points killed by 8 are exactly the eight listed coordinate pairs -/
theorem small_points (P : curve.Point) : 8 • P = 0 ↔ ∃ i : Fin 8, coords P = smallZ i := by
  rw [eight_smul_eq_zero_iff]
  constructor
  · rintro ⟨i, rfl⟩; exact ⟨i, small_coords i⟩
  · rintro ⟨i, h⟩; exact ⟨i, coords_injective (h.trans (small_coords i).symm)⟩

/-- the 8×8 addition table of the small-order points, at the level of the model:
they form a cyclic group of order 8 under the model's addition. -/
theorem small_table (i j : Fin 8) : addA (smallZ i) (smallZ j) = smallZ (i + j) := by
  have h := (add_correct (small i) (small j)).1
  rw [small_add, small_coords, small_coords, small_coords] at h
  exact h

/-- multiplication by the cofactor 8 kills them -/
theorem small_mul_eight (i : Fin 8) : mul K ((8 : ℕ) : ℤ) (smallZ i) = (0, 1) := by
  have h := (mul_correct 8 (small i)).1
  rw [small_coords, (eight_smul_eq_zero_iff _).2 ⟨i, rfl⟩, coords_zero] at h
  exact h

/-! ## 5. non-vacuity: concrete curve points -/

example : coords B8 = ((I3.B8x : ℤ), (I3.B8y : ℤ)) := coords_B8
example : coords G = ((Gx : ℤ), (9 : ℤ)) := coords_G
example : B8 ≠ 0 := B8_ne_zero
example : (4 * I3.l) • G ≠ 0 := four_l_smul_G

/-- a point of order 8l plus a point of order l, through the model -/
example : addA ((I3.B8x : ℤ), (I3.B8y : ℤ)) ((Gx : ℤ), (9 : ℤ)) = coords (B8 + G) := by
  have := (add_correct B8 G).1
  rwa [coords_B8, coords_G] at this

example : mul K (I3.l : ℤ) ((I3.B8x : ℤ), (I3.B8y : ℤ)) = (0, 1) := by
  have := (mul_b8 I3.l).2 dvd_rfl
  rwa [k_b8] at this

/-- the point of order 2 is `(0, q - 1)`; adding it to itself gives the identity -/
example : addA (0, ((I3.q - 1 : ℕ) : ℤ)) (0, ((I3.q - 1 : ℕ) : ℤ)) = (0, 1) := small_table 4 4

end I3.Props.C04
