/-
  I3.Props.C14 — signatures are not malleable through `S`: verification rejects every `S` outside
  `[0, l)` before doing anything else, and inside `[0, l)` at most one `S` is accepted.

  Property theorems about `I3.Model.EdDSA.verify` (the model of `VerifyPoseidon` / `VerifyMimc7` in
  /repo/babyjub/eddsa.go) at the regenerated constants `K = I3.Inst.bjConsts`; `l` is the order of
  the base point (`SubOrder`).  The field hash `H` is a parameter.  The theorems of this file hold
  for ARBITRARY integer pairs `a`, `r8` (no curve-membership hypothesis), every integer message and
  every hash function.  Helper lemmas live in `I3.Lemmas.EdDSA`.
-/
import I3.Lemmas.EdDSA

namespace I3.Props.C14

open I3 I3.Spec I3.Spec.BJJ I3.Model.BabyJub I3.Model.EdDSA I3.Lemmas.EdDSA

attribute [local instance] I3.Lemmas.Bytes.exceptDecEq

/-- the regenerated Go constants -/
abbrev K : Consts := I3.Inst.bjConsts

/-- `SubOrder` is the prime `l` -/
theorem subOrder_eq : K.subOrder = I3.l := I3.Lemmas.CurveBridge.k_subOrder

/-- **The range check comes first**: a negative `S` or `S ≥ l` is rejected with `ErrSOutOfRange`
for every public key, message, `R8` and hash — no other hypothesis. -/
theorem verify_S_out_of_range (H : List ℤ → Option ℕ) (a r8 : APoint) (msg S : ℤ)
    (h : S < 0 ∨ (I3.l : ℤ) ≤ S) : verify K H a msg ⟨r8, S⟩ = .error .sOutOfRange :=
  verify_out_of_range H a r8 msg S h

/-- conversely `ErrSOutOfRange` is returned only then -/
theorem verify_S_out_of_range_iff (H : List ℤ → Option ℕ) (a r8 : APoint) (msg S : ℤ) :
    verify K H a msg ⟨r8, S⟩ = .error .sOutOfRange ↔ (S < 0 ∨ (I3.l : ℤ) ≤ S) := by
  refine ⟨fun h => ?_, verify_S_out_of_range H a r8 msg S⟩
  by_contra hc
  have h0 : 0 ≤ S := by omega
  have hl : S < (I3.l : ℤ) := by omega
  cases hH : H [r8.1, r8.2, a.1, a.2, msg] with
  | none => rw [verify_hash_none H a r8 msg S h0 hl hH] at h; cases h
  | some hm =>
    rw [verify_hash_some H a r8 msg S hm h0 hl hH] at h
    split at h <;> cases h

/-- an accepted signature has `0 ≤ S < l` -/
theorem verify_ok_S_range (H : List ℤ → Option ℕ) (a r8 : APoint) (msg S : ℤ)
    (h : verify K H a msg ⟨r8, S⟩ = .ok ()) : 0 ≤ S ∧ S < (I3.l : ℤ) :=
  ⟨(verify_ok_elim h).1, (verify_ok_elim h).2.1⟩

/-- **At most one `S` per `(A, msg, R8)`**: two accepted signatures with the same public key,
message and `R8` have the same `S` (`B8` has order exactly `l`).  Holds for arbitrary integer
pairs `a`, `r8`, in particular for curve points in canonical coordinates. -/
theorem verify_S_unique (H : List ℤ → Option ℕ) (a r8 : APoint) (msg S S' : ℤ)
    (h : verify K H a msg ⟨r8, S⟩ = .ok ()) (h' : verify K H a msg ⟨r8, S'⟩ = .ok ()) :
    S = S' := by
  obtain ⟨h0, hl, hm, hH, he⟩ := verify_ok_elim h
  obtain ⟨h0', hl', hm', hH', he'⟩ := verify_ok_elim h'
  rw [hH] at hH'
  cases hH'
  exact toNat_inj_of_nsmul_B8 h0 hl h0' hl' (coords_injective (he.trans he'.symm))

/-- the form quoted in the property: curve points in canonical coordinates -/
theorem verify_S_unique_points (H : List ℤ → Option ℕ) (A R8 : curve.Point) (msg S S' : ℤ)
    (h : verify K H (coords A) msg ⟨coords R8, S⟩ = .ok ())
    (h' : verify K H (coords A) msg ⟨coords R8, S'⟩ = .ok ()) : S = S' :=
  verify_S_unique H _ _ msg S S' h h'

/-- hence at most one 64-byte compressed signature per `(A, msg, R8)` -/
theorem compressed_sig_unique (H : List ℤ → Option ℕ) (a r8 : APoint) (msg S S' : ℤ)
    (h : verify K H a msg ⟨r8, S⟩ = .ok ()) (h' : verify K H a msg ⟨r8, S'⟩ = .ok ()) :
    sigCompress K ⟨r8, S⟩ = sigCompress K ⟨r8, S'⟩ := by
  rw [verify_S_unique H a r8 msg S S' h h']

/-- **No malleability by adding multiples of `l`**: for `S` in `[0, l)` and every `k ≠ 0`,
`S + k l` is rejected with `ErrSOutOfRange` — whether or not `S` itself verifies. -/
theorem verify_S_shift_rejected (H : List ℤ → Option ℕ) (a r8 : APoint) (msg S k : ℤ)
    (hS0 : 0 ≤ S) (hSl : S < (I3.l : ℤ)) (hk : k ≠ 0) :
    verify K H a msg ⟨r8, S + k * (I3.l : ℤ)⟩ = .error .sOutOfRange := by
  apply verify_S_out_of_range
  have hlpos : (0 : ℤ) < (I3.l : ℤ) := by
    have := I3.l_prime.pos; omega
  rcases lt_or_gt_of_ne hk with hneg | hpos
  · left
    have : k * (I3.l : ℤ) ≤ -1 * (I3.l : ℤ) := Int.mul_le_mul_of_nonneg_right (by omega) hlpos.le
    omega
  · right
    have : 1 * (I3.l : ℤ) ≤ k * (I3.l : ℤ) := Int.mul_le_mul_of_nonneg_right (by omega) hlpos.le
    omega

/-- the check is NECESSARY: the equation itself cannot tell `S` from `S + k l`, since
`l • B8 = 0`.  Without the range check every valid signature would have the malleated twins
`S + l`, `S + 2 l`, … (those below `2^256` even have distinct 64-byte encodings). -/
theorem equation_blind_to_shift (S : ℤ) (k : ℕ) (hS0 : 0 ≤ S) :
    (S + k * (I3.l : ℤ)).toNat • B8 = S.toNat • B8 := by
  have h : (S + k * (I3.l : ℤ)).toNat = S.toNat + k * I3.l := by
    have : (0 : ℤ) ≤ (k : ℤ) * (I3.l : ℤ) := by positivity
    have e : ((k * I3.l : ℕ) : ℤ) = (k : ℤ) * (I3.l : ℤ) := by push_cast; rfl
    omega
  rw [h, add_nsmul, mul_nsmul', l_smul_B8, nsmul_zero, add_zero]

/-! ## non-vacuity -/

/-- the Go test vector of `TestSignVerifyPoseidon` verifies (kernel evaluation) … -/
example : verify K Inst.hPoseidon
    (13277427435165878497778222415993513565335242147425444199013288855685581939618,
     13622229784656158136036771217484571176836296686641868549125388198837476602820)
    42649378395939397566720
    ⟨(11384336176656855268977457483345535180380036354188103142384839473266348197733,
      15383486972088797283337779941324724402501462225528836549661220478783371668959),
     1672775540645840396591609181675628451599263765380031905495115170613215233181⟩ = .ok () := by
  decide +kernel

/-- … and the malleated twin `S + l` (which satisfies the group equation) is rejected -/
example : verify K Inst.hPoseidon
    (13277427435165878497778222415993513565335242147425444199013288855685581939618,
     13622229784656158136036771217484571176836296686641868549125388198837476602820)
    42649378395939397566720
    ⟨(11384336176656855268977457483345535180380036354188103142384839473266348197733,
      15383486972088797283337779941324724402501462225528836549661220478783371668959),
     1672775540645840396591609181675628451599263765380031905495115170613215233181 + (I3.l : ℤ)⟩ =
      .error .sOutOfRange :=
  verify_S_out_of_range _ _ _ _ _ (Or.inr (by decide))

example : verify K Inst.hMimc7 (0, 1) 0 ⟨(0, 1), -1⟩ = .error .sOutOfRange :=
  verify_S_out_of_range _ _ _ _ _ (Or.inl (by decide))

example : verify K Inst.hMimc7 (0, 1) 0 ⟨(0, 1), (I3.l : ℤ)⟩ = .error .sOutOfRange :=
  verify_S_out_of_range _ _ _ _ _ (Or.inr (le_refl _))

/-- the hypotheses of `verify_S_unique` are satisfiable (constant hash, `A = B8`, `R8 = 5 • B8`,
`S = 5`), and `l - 1` is the largest accepted value of `S` in general -/
example : verify K (fun _ => some 0) (coords B8) 7 ⟨coords (5 • B8), 5⟩ = .ok () := by
  rw [verify_hash_some _ _ _ 7 5 0 (by decide) (by decide) rfl, rhsPt_coords, if_pos (by simp)]

example : ((I3.l : ℤ) - 1).toNat • B8 = ((I3.l : ℤ) - 1 + 3 * (I3.l : ℤ)).toNat • B8 :=
  (equation_blind_to_shift _ 3 (by decide)).symm

end I3.Props.C14
