/-
  I3.Props.C03Safe — C03, the "never a panic" half, about the GENERATED code: the checked variants
  (`I3/Gen/GoChkBabyjub.lean`, see I3.Lemmas.GoSafe) of the two signature verifiers are `true` for EVERY public key
  `pk : (Int × Int)`, EVERY message and EVERY signature `((R8.x, R8.y), S)` — arbitrary integers: negative,
  unreduced, off the curve, `S` out of range.  (That such inputs are REJECTED, never accepted, is
  I3.Props.C03 / C03Gen; here: the rejection is an ordinary `return`, not a run-time panic.)

  What is needed below the verifiers: the range test on `S` returns first; `poseidon.Hash` / `mimc7.Hash` on the
  five inputs never panic (I3.Props.C07Safe: values outside the field are rejected by the guard); the scalar
  multiplication `Point.Mul` runs `s.BitLen()` iterations of projective additions — field operations only, no
  indexing, no division (`PointProjective.Affine` tests `z = 0` before inverting, and `ff.Inverse` maps 0 to 0).
-/
import I3.Props.C07Safe

set_option maxRecDepth 100000

namespace I3.Props.C03Safe
open I3 I3.Go I3.Gen.Go I3.GoSafe

/-! ## the callees -/

/-- **`p.Projective()`** -/
theorem babyjub_Point_Projective_ok_true (p : Int × Int) : babyjub_Point_Projective_ok p = true :=
  GoSafe.babyjub_Point_Projective_ok_true p

/-- **`p.Add(q, o)`** on projective points: every triple of field elements. -/
theorem babyjub_PointProjective_Add_ok_true (p q o : Nat × Nat × Nat) :
    babyjub_PointProjective_Add_ok p q o = true := GoSafe.babyjub_PointProjective_Add_ok_true p q o

/-- **`p.Affine()`**: every projective triple, `z = 0` included. -/
theorem babyjub_PointProjective_Affine_ok_true (p : Nat × Nat × Nat) :
    babyjub_PointProjective_Affine_ok p = true := GoSafe.babyjub_PointProjective_Affine_ok_true p

/-- **`p.Mul(s, q)`**: every scalar (negative, larger than the order) and every pair of integers `q`. -/
theorem babyjub_Point_Mul_ok_true (p : Int × Int) (s : Int) (q : Int × Int) :
    babyjub_Point_Mul_ok p s q = true := GoSafe.babyjub_Point_Mul_ok_true p s q

/-- **`poseidon.Hash`** / **`mimc7.Hash`** as used by the verifiers. -/
theorem poseidon_Hash_ok_true (inp : List Int) : poseidon_Hash_ok inp = true := C07Safe.poseidon_Hash_ok_true inp
theorem mimc7_Hash_ok_true (arr : List Int) (key : Option Int) : mimc7_Hash_ok arr key = true :=
  C07Safe.mimc7_Hash_ok_true arr key

/-! ## the verifiers -/

/-- **`pk.VerifyPoseidon(msg, sig)`** never panics: every key, message and signature. -/
theorem babyjub_PublicKey_VerifyPoseidon_ok_true (pk : Int × Int) (msg : Int) (sig : (Int × Int) × Int) :
    babyjub_PublicKey_VerifyPoseidon_ok pk msg sig = true := by
  go_delta babyjub_PublicKey_VerifyPoseidon_ok
  generalize hH : poseidon_Hash = H
  generalize hM : babyjub_Point_Mul = Mul
  generalize hA : babyjub_PointProjective_Add = A
  generalize hF : babyjub_PointProjective_Affine = F
  as_aux_lemma =>
    dsimp only
    split
    · rfl
    · rw [req_of (C07Safe.poseidon_Hash_ok_true _)]
      split
      · rfl
      · rw [req_of babyjub_NewPoint_ok_true, req_of (GoSafe.babyjub_Point_Mul_ok_true _ _ _),
          req_of babyjub_NewPoint_ok_true, req_of (babyjub_PublicKey_Point_ok_true _),
          req_of (GoSafe.babyjub_Point_Mul_ok_true _ _ _), req_of (GoSafe.babyjub_Point_Projective_ok_true _),
          req_of (GoSafe.babyjub_Point_Projective_ok_true _),
          req_of (GoSafe.babyjub_PointProjective_Add_ok_true _ _ _),
          req_of (GoSafe.babyjub_PointProjective_Affine_ok_true _)]
        split <;> rfl

/-- **`pk.VerifyMimc7(msg, sig)`** never panics: every key, message and signature. -/
theorem babyjub_PublicKey_VerifyMimc7_ok_true (pk : Int × Int) (msg : Int) (sig : (Int × Int) × Int) :
    babyjub_PublicKey_VerifyMimc7_ok pk msg sig = true := by
  go_delta babyjub_PublicKey_VerifyMimc7_ok
  generalize hH : mimc7_Hash = H
  generalize hM : babyjub_Point_Mul = Mul
  generalize hA : babyjub_PointProjective_Add = A
  generalize hF : babyjub_PointProjective_Affine = F
  as_aux_lemma =>
    dsimp only
    split
    · rfl
    · rw [req_of (C07Safe.mimc7_Hash_ok_true _ _)]
      split
      · rfl
      · rw [req_of babyjub_NewPoint_ok_true, req_of (GoSafe.babyjub_Point_Mul_ok_true _ _ _),
          req_of babyjub_NewPoint_ok_true, req_of (babyjub_PublicKey_Point_ok_true _),
          req_of (GoSafe.babyjub_Point_Mul_ok_true _ _ _), req_of (GoSafe.babyjub_Point_Projective_ok_true _),
          req_of (GoSafe.babyjub_Point_Projective_ok_true _),
          req_of (GoSafe.babyjub_PointProjective_Add_ok_true _ _ _),
          req_of (GoSafe.babyjub_PointProjective_Affine_ok_true _)]
        split <;> rfl

end I3.Props.C03Safe
