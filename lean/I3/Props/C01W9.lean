/-
  I3.Props.C01W9 — property C01 at width t = 9 (R_F = 8, R_P = 63).
  `tables_lit_9`: the kernel evaluates the relation checker `PoseidonCheck.checkAll` on the tables
  `Gen.PT9.*` (REGENERATED from /repo/poseidon/constants.go on every run) against the literal output of
  the reference Grain generator (`Spec.GrainLit.rc_9`, `mds_9`, proved equal to the generator's output in
  I3.Spec.GrainW9); the witnesses are proposed by `computeWitnesses` inside the same evaluation.
  `tables_ok_9`: the same statement about the generator itself.
  `width_9`: hence (by `checkAll_sound`) the optimised Go loop equals the textbook Poseidon permutation
  on EVERY state of width 9.
-/
import I3.Exec.PoseidonCheck
import I3.Gen.PT9
import I3.Spec.GrainW9
import I3.Lemmas.PoseidonRefine
set_option maxRecDepth 1000000
namespace I3.Props.C01
open I3

theorem tables_lit_9 :
    PoseidonCheck.checkAll q 9 63 Spec.GrainLit.rc_9 Spec.GrainLit.mds_9
      ⟨Gen.PT9.C, Gen.PT9.S, Gen.PT9.M, Gen.PT9.P⟩
      (PoseidonCheck.computeWitnesses q 9 63 Spec.GrainLit.rc_9 Spec.GrainLit.mds_9
        ⟨Gen.PT9.C, Gen.PT9.S, Gen.PT9.M, Gen.PT9.P⟩) = true := by
  decide +kernel

theorem tables_ok_9 :
    PoseidonCheck.checkAll q 9 63 (Grain.bn254Params 9).rc (Grain.mds q (Grain.bn254Params 9))
      ⟨Gen.PT9.C, Gen.PT9.S, Gen.PT9.M, Gen.PT9.P⟩
      (PoseidonCheck.computeWitnesses q 9 63 (Grain.bn254Params 9).rc
        (Grain.mds q (Grain.bn254Params 9)) ⟨Gen.PT9.C, Gen.PT9.S, Gen.PT9.M, Gen.PT9.P⟩) = true := by
  rw [Spec.GrainLit.grain_9.1, Spec.GrainLit.grain_9.2]
  exact tables_lit_9

theorem width_9 (st : List Nat) (hst : st.length = 9) :
    Model.Poseidon.permute q 5 ⟨Gen.PT9.C, Gen.PT9.S, Gen.PT9.M, Gen.PT9.P⟩ 9 63 st =
      Hades.poseidonBN254 (Grain.bn254Params 9) st :=
  PoseidonRefine.width_of_check 9 63 (by decide) _ _ tables_ok_9 st hst

end I3.Props.C01
