/-
  I3.Props.C15Safe — C15, the "never a panic" half, about the GENERATED code: the checked variants
  (`I3/Gen/GoChkUtils.lean`, `I3/Gen/GoChkBabyjub.lean`, see I3.Lemmas.GoSafe) of the text / SQL / binary codecs
  are `true` on EVERY input.  (That wrong length / type, invalid hex and non-points are rejected WITH AN ERROR is
  I3.Props.C15 / C15Gen; here: that rejection is an ordinary `return`, never a run-time panic.)

  Input domains.  A Go slice (`[]byte`: the text `h`, the SQL value, `dst`) is an arbitrary `List UInt8` — no
  hypothesis.  A Go ARRAY (`[32]byte`: `PublicKeyComp`, the parameter of `Point.Decompress`; `[64]byte`:
  `SignatureComp`, the parameter of `Signature.Decompress`) is a list of exactly that length: the length is part of
  the Go type, and appears as a hypothesis `b.length = 32` / `b.length = 64` ONLY in `babyjub_Point_Decompress_ok`,
  `babyjub_PublicKeyComp_Decompress_ok`, `babyjub_Signature_Decompress_ok`, `babyjub_SignatureComp_Decompress_ok`
  (the exact frontier of the checked variants is `32 ≤ b.length` in all four: `…_ok_iff`).  No slice-typed
  parameter needs a length hypothesis: `HexDecodeInto(dst, h)` compares `len(h)/2` with `len(dst)` BEFORE
  `hex.Decode`, so the destination always fits, and the local arrays of `UnmarshalText` / `Scan` / `DecompressSig`
  keep their length 32 / 64 through `HexDecodeInto` and `copy`.
-/
import I3.Lemmas.GoSafe

set_option maxRecDepth 100000

namespace I3.Props.C15Safe
open I3 I3.Go I3.Gen.Go

/-! ## utils: hex and endianness -/

/-- **`utils.HexDecodeInto(dst, h)`**: every destination, every text (odd length, bad digits, wrong size). -/
theorem utils_HexDecodeInto_ok_true (dst h : List UInt8) : utils_HexDecodeInto_ok dst h = true :=
  GoSafe.utils_HexDecodeInto_ok_true dst h

/-- **`utils.HexDecode(h)`**: every string. -/
theorem utils_HexDecode_ok_true (h : String) : utils_HexDecode_ok h = true := GoSafe.utils_HexDecode_ok_true h

/-- **`utils.HexEncode(bs)`**: every byte string. -/
theorem utils_HexEncode_ok_true (bs : List UInt8) : utils_HexEncode_ok bs = true := GoSafe.utils_HexEncode_ok_true bs

/-- **`utils.Hex.MarshalText()`** / **`String()`**: every byte string. -/
theorem utils_Hex_MarshalText_ok_true (buf : List UInt8) : utils_Hex_MarshalText_ok buf = true :=
  GoSafe.utils_Hex_MarshalText_ok_true buf
theorem utils_Hex_String_ok_true (buf : List UInt8) : utils_Hex_String_ok buf = true :=
  GoSafe.utils_Hex_String_ok_true buf

/-- **`utils.SwapEndianness(xs)`**: every byte string (the index `len(xs)-1-i` stays in range). -/
theorem utils_SwapEndianness_ok_true (xs : List UInt8) : utils_SwapEndianness_ok xs = true :=
  GoSafe.utils_SwapEndianness_ok_true xs

/-- **`utils.BigIntLEBytes(v)`**: every integer (more than 32 bytes: `copy` truncates, no panic). -/
theorem utils_BigIntLEBytes_ok_true (v : Int) : utils_BigIntLEBytes_ok v = true := GoSafe.utils_BigIntLEBytes_ok_true v

/-- **`utils.SetBigIntFromLEBytes(v, leBuf)`**: every byte string (`leBuf` is a slice). -/
theorem utils_SetBigIntFromLEBytes_ok_true (v : Int) (leBuf : List UInt8) :
    utils_SetBigIntFromLEBytes_ok v leBuf = true := GoSafe.utils_SetBigIntFromLEBytes_ok_true v leBuf

/-! ## points -/

/-- **`p.Compress()`**: every pair of integers. -/
theorem babyjub_Point_Compress_ok_true (p : Int × Int) : babyjub_Point_Compress_ok p = true :=
  GoSafe.babyjub_Point_Compress_ok_true p

/-- **`PackSignY(sign, y)`**: every integer. -/
theorem babyjub_PackSignY_ok_true (sign : Bool) (y : Int) : babyjub_PackSignY_ok sign y = true :=
  GoSafe.babyjub_PackSignY_ok_true sign y

/-- **`UnpackSignY(leBuf)`**, `leBuf` a Go array `[32]byte` (hypothesis: the length is the Go type). -/
theorem babyjub_UnpackSignY_ok_true (b : List UInt8) (hb : b.length = 32) : babyjub_UnpackSignY_ok b = true :=
  (GoSafe.babyjub_UnpackSignY_ok_iff b).2 (by omega)

/-- **`PointFromSignAndY(sign, y)`**: every integer (negative, `≥ q`, no square root: errors, not panics). -/
theorem babyjub_PointFromSignAndY_ok_true (sign : Bool) (y : Int) : babyjub_PointFromSignAndY_ok sign y = true :=
  GoSafe.babyjub_PointFromSignAndY_ok_true sign y

/-- **`p.Decompress(leBuf)`**, `leBuf` a Go array `[32]byte` (hypothesis: the length is the Go type): every 32
    bytes, every previous receiver. -/
theorem babyjub_Point_Decompress_ok_true (recv : Int × Int) (b : List UInt8) (hb : b.length = 32) :
    babyjub_Point_Decompress_ok recv b = true := GoSafe.babyjub_Point_Decompress_ok_of recv b (by omega)

/-- the exact frontier of the checked variant on lists: `leBuf[31]` must exist -/
theorem babyjub_Point_Decompress_ok_iff (recv : Int × Int) (b : List UInt8) :
    babyjub_Point_Decompress_ok recv b = true ↔ 32 ≤ b.length := GoSafe.babyjub_Point_Decompress_ok_iff recv b

/-! ## public keys -/

/-- **`pkComp.Decompress()`**, the receiver a Go array `[32]byte` (hypothesis: the length is the Go type). -/
theorem babyjub_PublicKeyComp_Decompress_ok_true (b : List UInt8) (hb : b.length = 32) :
    babyjub_PublicKeyComp_Decompress_ok b = true := GoSafe.babyjub_PublicKeyComp_Decompress_ok_of b (by omega)

/-- **`pk.Compress()`**, **`pk.MarshalText()`**, **`pk.String()`**, **`pk.Value()`**: every pair of integers. -/
theorem babyjub_PublicKey_Compress_ok_true (pk : Int × Int) : babyjub_PublicKey_Compress_ok pk = true :=
  GoSafe.babyjub_PublicKey_Compress_ok_true pk
theorem babyjub_PublicKey_MarshalText_ok_true (pk : Int × Int) : babyjub_PublicKey_MarshalText_ok pk = true :=
  GoSafe.babyjub_PublicKey_MarshalText_ok_true pk
theorem babyjub_PublicKey_String_ok_true (pk : Int × Int) : babyjub_PublicKey_String_ok pk = true :=
  GoSafe.babyjub_PublicKey_String_ok_true pk
theorem babyjub_PublicKey_Value_ok_true (pk : Int × Int) : babyjub_PublicKey_Value_ok pk = true :=
  GoSafe.babyjub_PublicKey_Value_ok_true pk

/-- **`pk.UnmarshalText(h)`**: every previous receiver, every text `h` (a slice: any length, any bytes). -/
theorem babyjub_PublicKey_UnmarshalText_ok_true (pk : Int × Int) (h : List UInt8) :
    babyjub_PublicKey_UnmarshalText_ok pk h = true := GoSafe.babyjub_PublicKey_UnmarshalText_ok_true pk h

/-- **`pk.Scan(src)`**: every previous receiver, every dynamic value (wrong type, wrong length, non-point). -/
theorem babyjub_PublicKey_Scan_ok_true (pk : Int × Int) (src : Go.Any) : babyjub_PublicKey_Scan_ok pk src = true :=
  GoSafe.babyjub_PublicKey_Scan_ok_true pk src

/-- **`pkComp.MarshalText()`**, **`String()`**, **`Value()`**: every receiver. -/
theorem babyjub_PublicKeyComp_MarshalText_ok_true (b : List UInt8) :
    babyjub_PublicKeyComp_MarshalText_ok b = true := GoSafe.babyjub_PublicKeyComp_MarshalText_ok_true b
theorem babyjub_PublicKeyComp_String_ok_true (b : List UInt8) : babyjub_PublicKeyComp_String_ok b = true :=
  GoSafe.babyjub_PublicKeyComp_String_ok_true b
theorem babyjub_PublicKeyComp_Value_ok_true (b : List UInt8) : babyjub_PublicKeyComp_Value_ok b = true :=
  GoSafe.babyjub_PublicKeyComp_Value_ok_true b

/-- **`pkComp.UnmarshalText(h)`**: every text `h` (the receiver's length plays no role). -/
theorem babyjub_PublicKeyComp_UnmarshalText_ok_true (recv h : List UInt8) :
    babyjub_PublicKeyComp_UnmarshalText_ok recv h = true := GoSafe.babyjub_PublicKeyComp_UnmarshalText_ok_true recv h

/-- **`pkComp.Scan(src)`**: every dynamic value. -/
theorem babyjub_PublicKeyComp_Scan_ok_true (recv : List UInt8) (src : Go.Any) :
    babyjub_PublicKeyComp_Scan_ok recv src = true := GoSafe.babyjub_PublicKeyComp_Scan_ok_true recv src

/-! ## signatures -/

/-- **`s.Compress()`**, **`s.Value()`**: every `((R8.x, R8.y), S)` of integers. -/
theorem babyjub_Signature_Compress_ok_true (s : (Int × Int) × Int) : babyjub_Signature_Compress_ok s = true :=
  GoSafe.babyjub_Signature_Compress_ok_true s
theorem babyjub_Signature_Value_ok_true (s : (Int × Int) × Int) : babyjub_Signature_Value_ok s = true :=
  GoSafe.babyjub_Signature_Value_ok_true s

/-- **`s.Decompress(buf)`**, `buf` a Go array `[64]byte` (hypothesis: the length is the Go type): every 64 bytes,
    every previous receiver. -/
theorem babyjub_Signature_Decompress_ok_true (recv : (Int × Int) × Int) (b : List UInt8) (hb : b.length = 64) :
    babyjub_Signature_Decompress_ok recv b = true := (GoSafe.babyjub_Signature_Decompress_ok_iff recv b).2 (by omega)

/-- the exact frontier of the checked variant on lists: `buf[:32]` and `buf[32:]` must exist -/
theorem babyjub_Signature_Decompress_ok_iff (recv : (Int × Int) × Int) (b : List UInt8) :
    babyjub_Signature_Decompress_ok recv b = true ↔ 32 ≤ b.length :=
  GoSafe.babyjub_Signature_Decompress_ok_iff recv b

/-- **`sComp.Decompress()`**, the receiver a Go array `[64]byte` (hypothesis: the length is the Go type). -/
theorem babyjub_SignatureComp_Decompress_ok_true (b : List UInt8) (hb : b.length = 64) :
    babyjub_SignatureComp_Decompress_ok b = true := (GoSafe.babyjub_SignatureComp_Decompress_ok_iff b).2 (by omega)

/-- **`s.Scan(src)`**: every previous receiver, every dynamic value. -/
theorem babyjub_Signature_Scan_ok_true (s : (Int × Int) × Int) (src : Go.Any) :
    babyjub_Signature_Scan_ok s src = true := GoSafe.babyjub_Signature_Scan_ok_true s src

/-- **`sComp.MarshalText()`**, **`String()`**, **`Value()`**: every receiver. -/
theorem babyjub_SignatureComp_MarshalText_ok_true (b : List UInt8) :
    babyjub_SignatureComp_MarshalText_ok b = true := GoSafe.babyjub_SignatureComp_MarshalText_ok_true b
theorem babyjub_SignatureComp_String_ok_true (b : List UInt8) : babyjub_SignatureComp_String_ok b = true :=
  GoSafe.babyjub_SignatureComp_String_ok_true b
theorem babyjub_SignatureComp_Value_ok_true (b : List UInt8) : babyjub_SignatureComp_Value_ok b = true :=
  GoSafe.babyjub_SignatureComp_Value_ok_true b

/-- **`sComp.UnmarshalText(h)`**: every text `h`. -/
theorem babyjub_SignatureComp_UnmarshalText_ok_true (recv h : List UInt8) :
    babyjub_SignatureComp_UnmarshalText_ok recv h = true := GoSafe.babyjub_SignatureComp_UnmarshalText_ok_true recv h

/-- **`sComp.Scan(src)`**: every dynamic value. -/
theorem babyjub_SignatureComp_Scan_ok_true (recv : List UInt8) (src : Go.Any) :
    babyjub_SignatureComp_Scan_ok recv src = true := GoSafe.babyjub_SignatureComp_Scan_ok_true recv src

/-- **`DecompressSig(compressedSig)`**: every text (a slice: any length, any bytes). -/
theorem babyjub_DecompressSig_ok_true (h : List UInt8) : babyjub_DecompressSig_ok h = true :=
  GoSafe.babyjub_DecompressSig_ok_true h

end I3.Props.C15Safe
