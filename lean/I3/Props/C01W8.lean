/-
  I3.Props.C01W8 — property C01 at width t = 8 (R_F = 8, R_P = 64).
  `tables_lit_8`: the kernel evaluates the relation checker `PoseidonCheck.checkAll` on the tables
  `Gen.PT8.*` (REGENERATED from /repo/poseidon/constants.go on every run) against the literal output of
  the reference Grain generator (`Spec.GrainLit.rc_8`, `mds_8`, proved equal to the generator's output in
  I3.Spec.GrainW8); the witnesses are proposed by `computeWitnesses` inside the same evaluation.
  `tables_ok_8`: the same statement about the generator itself.
  `width_8`: hence (by `checkAll_sound`) the optimised Go loop equals the textbook Poseidon permutation
  on EVERY state of width 8.
-/
import I3.Exec.PoseidonCheck
import I3.Gen.PT8
import I3.Spec.GrainW8
import I3.Lemmas.PoseidonRefine
set_option maxRecDepth 1000000
namespace I3.Props.C01
open I3

theorem tables_lit_8 :
    PoseidonCheck.checkAll q 8 64 Spec.GrainLit.rc_8 Spec.GrainLit.mds_8
      ⟨Gen.PT8.C, Gen.PT8.S, Gen.PT8.M, Gen.PT8.P⟩
      (PoseidonCheck.computeWitnesses q 8 64 Spec.GrainLit.rc_8 Spec.GrainLit.mds_8
        ⟨Gen.PT8.C, Gen.PT8.S, Gen.PT8.M, Gen.PT8.P⟩) = true := by
  decide +kernel

theorem tables_ok_8 :
    PoseidonCheck.checkAll q 8 64 (Grain.bn254Params 8).rc (Grain.mds q (Grain.bn254Params 8))
      ⟨Gen.PT8.C, Gen.PT8.S, Gen.PT8.M, Gen.PT8.P⟩
      (PoseidonCheck.computeWitnesses q 8 64 (Grain.bn254Params 8).rc
        (Grain.mds q (Grain.bn254Params 8)) ⟨Gen.PT8.C, Gen.PT8.S, Gen.PT8.M, Gen.PT8.P⟩) = true := by
  rw [Spec.GrainLit.grain_8.1, Spec.GrainLit.grain_8.2]
  exact tables_lit_8

theorem width_8 (st : List Nat) (hst : st.length = 8) :
    Model.Poseidon.permute q 5 ⟨Gen.PT8.C, Gen.PT8.S, Gen.PT8.M, Gen.PT8.P⟩ 8 64 st =
      Hades.poseidonBN254 (Grain.bn254Params 8) st :=
  PoseidonRefine.width_of_check 8 64 (by decide) _ _ tables_ok_8 st hst

end I3.Props.C01
