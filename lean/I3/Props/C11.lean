/-
  I3.Props.C11 — field-element conversions reduce totally and round-trip losslessly (both fields).

  Theorems about the conversion part of the value-level model `I3.Model.FF` of /repo/ff and
  /repo/ffg (`SetBigInt`, `SetString`, `SetBytes`, `SetUint64`, `ToBigIntRegular`, `Bytes`, `String`,
  `Cmp`, `Equal`, `LexicographicallyLargest`).  An element is modelled by its canonical value, so
  `ToBigIntRegular` is the identity on the model value and "SetX then ToBigIntRegular" is `setX`.
  Decimal strings are modelled by the integer they denote (`SetString` = `SetBigInt` of the parsed
  integer, `String` = rendering of `toStringInt`).

  Everything is stated for an arbitrary configuration `c` with `c.WF` and then specialised to
  `Inst.ffCfg` (BN254 scalar field, modulus `q`) and `Inst.ffgCfg` (Goldilocks, modulus `gp`), which
  are assembled from the constants regenerated from the Go source.  Helper lemmas: `I3.Lemmas.Conv`.
-/
import I3.Lemmas.Conv
import I3.Props.C18Inst
namespace I3.Props.C11
open I3 I3.Model.FF I3.Lemmas.Conv

variable {c : Cfg}

/-! ## 1. integer → element: the Euclidean residue, for every integer -/

theorem setBigInt_correct (h : c.WF) (v : Int) :
    ((setBigInt c v : Nat) : Int) = v % (c.m : Int) ∧ setBigInt c v < c.m :=
  ⟨imod_cast v h.pos, imod_lt v h.pos⟩

/-- two integers give the same element exactly when they are congruent. -/
theorem setBigInt_eq_iff (h : c.WF) (v w : Int) :
    setBigInt c v = setBigInt c w ↔ v % (c.m : Int) = w % (c.m : Int) :=
  imod_eq_iff v w h.pos

/-- adding any multiple of the modulus does not change the element. -/
theorem setBigInt_add_mul (v k : Int) : setBigInt c (v + k * (c.m : Int)) = setBigInt c v :=
  imod_add_mul v k c.m

theorem setBigInt_of_canonical {x : Nat} (hx : x < c.m) : setBigInt c (x : Int) = x := by
  rw [setBigInt, imod_natCast, Nat.mod_eq_of_lt hx]

theorem setBigInt_natCast (x : Nat) : setBigInt c (x : Int) = x % c.m := imod_natCast x c.m

/-- `ToBigIntRegular ∘ SetBigInt`: the canonical representative of `v mod m`. -/
theorem tobigint_setBigInt (v : Int) : setBigInt c v = (v % (c.m : Int)).toNat := rfl

theorem setUint64_correct (v : Nat) : setUint64 c v = v % c.m := rfl

theorem setUint64_lt (h : c.WF) (v : Nat) : setUint64 c v < c.m := Nat.mod_lt _ h.pos

theorem setUint64_eq_setBigInt (v : Nat) : setUint64 c v = setBigInt c (v : Int) :=
  (imod_natCast v c.m).symm

/-! ## 2. big-endian bytes → element, any length -/

theorem setBytes_correct (bs : Bytes) : setBytes c bs = beToNat bs % c.m := rfl

theorem setBytes_lt (h : c.WF) (bs : Bytes) : setBytes c bs < c.m := Nat.mod_lt _ h.pos

theorem setBytes_eq_setBigInt (bs : Bytes) : setBytes c bs = setBigInt c (beToNat bs : Int) :=
  (imod_natCast _ c.m).symm

/-- `beToNat` is the big-endian value: empty string ↦ 0, `xs ++ ys ↦ xs·256^|ys| + ys`,
    one byte ↦ itself; leading zeros are ignored and the value is `< 256^length`. -/
theorem beToNat_nil : beToNat [] = 0 := rfl
theorem beToNat_singleton (b : UInt8) : beToNat [b] = b.toNat := Lemmas.Conv.beToNat_singleton b
theorem beToNat_cons (b : UInt8) (bs : Bytes) :
    beToNat (b :: bs) = b.toNat * 256 ^ bs.length + beToNat bs := Lemmas.Conv.beToNat_cons b bs
theorem beToNat_append (xs ys : Bytes) :
    beToNat (xs ++ ys) = beToNat xs * 256 ^ ys.length + beToNat ys :=
  Lemmas.Conv.beToNat_append xs ys
theorem beToNat_zeros_append (n : Nat) (bs : Bytes) :
    beToNat (List.replicate n 0 ++ bs) = beToNat bs := Lemmas.Conv.beToNat_zeros_append n bs
theorem beToNat_lt (bs : Bytes) : beToNat bs < 256 ^ bs.length := Lemmas.Conv.beToNat_lt bs

theorem setBytes_nil : setBytes c [] = 0 := by
  rw [setBytes_correct, beToNat_nil, Nat.zero_mod]

theorem setBytes_zeros_append (n : Nat) (bs : Bytes) :
    setBytes c (List.replicate n 0 ++ bs) = setBytes c bs := by
  rw [setBytes_correct, setBytes_correct, beToNat_zeros_append]

/-! ## 3. element → bytes: fixed width, canonical value, lossless -/

theorem toBytes_length (x : Nat) : (toBytes c x).length = 8 * c.limbs := natToBE_length _ _

theorem beToNat_toBytes_mod (x : Nat) : beToNat (toBytes c x) = x % 2 ^ (64 * c.limbs) := by
  rw [toBytes, beToNat_natToBE, pow_256_8]

theorem beToNat_toBytes (h : c.WF) {x : Nat} (hx : x < c.m) : beToNat (toBytes c x) = x := by
  rw [beToNat_toBytes_mod, Nat.mod_eq_of_lt (Nat.lt_trans hx h.fits)]

/-- element → bytes → element. -/
theorem setBytes_toBytes (h : c.WF) {x : Nat} (hx : x < c.m) : setBytes c (toBytes c x) = x := by
  rw [setBytes_correct, beToNat_toBytes h hx, Nat.mod_eq_of_lt hx]

theorem toBytes_injective (h : c.WF) {x y : Nat} (hx : x < c.m) (hy : y < c.m)
    (hxy : toBytes c x = toBytes c y) : x = y := by
  rw [← beToNat_toBytes h hx, ← beToNat_toBytes h hy, hxy]

/-- bytes → element → bytes, for a full-width string holding a canonical value. -/
theorem toBytes_setBytes (bs : Bytes) (hl : bs.length = 8 * c.limbs) (hv : beToNat bs < c.m) :
    toBytes c (setBytes c bs) = bs := by
  rw [setBytes_correct, Nat.mod_eq_of_lt hv, toBytes, ← hl, natToBE_beToNat]

/-- for any string: re-encoding gives the canonical full-width string of the residue. -/
theorem beToNat_toBytes_setBytes (h : c.WF) (bs : Bytes) :
    beToNat (toBytes c (setBytes c bs)) = beToNat bs % c.m :=
  beToNat_toBytes h (setBytes_lt h bs)

/-! ## 4. element → integer / string and back -/

/-- element → integer → element (`ToBigIntRegular` is the identity of the model value). -/
theorem setBigInt_tobigint {x : Nat} (hx : x < c.m) : setBigInt c (x : Int) = x :=
  setBigInt_of_canonical hx

/-- integer → element → integer: the residue, hence the identity on `[0, m)`. -/
theorem tobigint_setBigInt_of_range {v : Int} (h0 : 0 ≤ v) (hv : v < (c.m : Int)) :
    ((setBigInt c v : Nat) : Int) = v := by
  have hm : 0 < c.m := by omega
  rw [setBigInt, imod_cast v hm, Int.emod_eq_of_lt h0 hv]

/-- the integer printed by `String()` is `x` itself, or `x − m` when `x` is within `2^64` of the
    modulus (and not itself below `2^64`); the two cases are characterised exactly. -/
theorem toStringInt_range {x : Nat} (hx : x < c.m) :
    (toStringInt c x = (x : Int) ∧ (x < W ∨ W ≤ c.m - x)) ∨
    (toStringInt c x = (x : Int) - (c.m : Int) ∧ W ≤ x ∧ c.m - x < W ∧
      -(W : Int) < toStringInt c x ∧ toStringInt c x < 0) := by
  unfold toStringInt
  split
  · left; exact ⟨rfl, by omega⟩
  · split
    · right
      refine ⟨by omega, by omega, by omega, by omega, by omega⟩
    · left; exact ⟨rfl, by omega⟩

/-- element → string → element: the signed decimal form parses back to the same element. -/
theorem setBigInt_toStringInt (h : c.WF) {x : Nat} (hx : x < c.m) :
    setBigInt c (toStringInt c x) = x := by
  have h1 := (setBigInt_correct h (toStringInt c x)).1
  rw [Props.C18.toStringInt_correct hx] at h1
  exact_mod_cast h1

/-- string → element → string → element is stable (`String` is a section of `SetString`). -/
theorem setBigInt_toStringInt_setBigInt (h : c.WF) (v : Int) :
    setBigInt c (toStringInt c (setBigInt c v)) = setBigInt c v :=
  setBigInt_toStringInt h (setBigInt_correct h v).2

/-! ## 5. equality, three-way comparison, `LexicographicallyLargest` -/

/-- `Equal` (model: `==` on the canonical values). -/
theorem equal_iff (x y : Nat) : (x == y) = true ↔ x = y := beq_iff_eq

theorem cmp_correct (x y : Nat) :
    (Model.FF.cmp x y = -1 ↔ x < y) ∧ (Model.FF.cmp x y = 0 ↔ x = y) ∧
      (Model.FF.cmp x y = 1 ↔ y < x) :=
  Props.C18.cmp_correct x y

theorem cmp_values (x y : Nat) :
    Model.FF.cmp x y = -1 ∨ Model.FF.cmp x y = 0 ∨ Model.FF.cmp x y = 1 := by
  unfold Model.FF.cmp
  split
  · exact Or.inl rfl
  · split
    · exact Or.inr (Or.inl rfl)
    · exact Or.inr (Or.inr rfl)

theorem cmp_eq_zero_iff_equal (x y : Nat) : Model.FF.cmp x y = 0 ↔ (x == y) = true := by
  rw [equal_iff]; exact (cmp_correct x y).2.1

theorem lexLargest_correct (h : c.WF) (x : Nat) :
    lexLargest c x = true ↔ x > (c.m - 1) / 2 := Props.C18.lexLargest_correct h x

/-- for a non-zero element exactly one of `x`, `−x` is lexicographically largest. -/
theorem lexLargest_neg (h : c.WF) {x : Nat} (hx : x < c.m) (h0 : x ≠ 0) :
    lexLargest c (neg c x) = !lexLargest c x := by
  have h1 := lexLargest_correct h x
  have h2 := lexLargest_correct h (neg c x)
  have hn : neg c x = c.m - x := by
    unfold neg; exact Nat.mod_eq_of_lt (by omega)
  have hodd := h.odd
  rw [hn] at h2 ⊢
  cases hb : lexLargest c x <;> cases hb' : lexLargest c (c.m - x) <;> simp_all <;> omega

/-- comparisons after conversion are comparisons of the residues. -/
theorem cmp_setBigInt (h : c.WF) (v w : Int) :
    (Model.FF.cmp (setBigInt c v) (setBigInt c w) = -1 ↔ v % (c.m : Int) < w % (c.m : Int)) ∧
    (Model.FF.cmp (setBigInt c v) (setBigInt c w) = 0 ↔ v % (c.m : Int) = w % (c.m : Int)) ∧
    (Model.FF.cmp (setBigInt c v) (setBigInt c w) = 1 ↔ w % (c.m : Int) < v % (c.m : Int)) := by
  have h1 := (setBigInt_correct h v).1
  have h2 := (setBigInt_correct h w).1
  have := cmp_correct (setBigInt c v) (setBigInt c w)
  rw [← h1, ← h2]
  refine ⟨by rw [this.1]; omega, by rw [this.2.1]; omega, by rw [this.2.2]; omega⟩

/-! ## 6. the two fields -/

section ff
open I3.Props.C18 (ff_wf ffg_wf ff_m ffg_m)

theorem ff_limbs : Inst.ffCfg.limbs = 4 := by decide
theorem ffg_limbs : Inst.ffgCfg.limbs = 1 := by decide

theorem ff_setBigInt_correct (v : Int) :
    ((setBigInt Inst.ffCfg v : Nat) : Int) = v % (q : Int) ∧ setBigInt Inst.ffCfg v < q := by
  have := setBigInt_correct ff_wf v; rwa [ff_m] at this
theorem ff_setBigInt_eq_iff (v w : Int) :
    setBigInt Inst.ffCfg v = setBigInt Inst.ffCfg w ↔ v % (q : Int) = w % (q : Int) := by
  have := setBigInt_eq_iff ff_wf v w; rwa [ff_m] at this
theorem ff_setBigInt_of_canonical {x : Nat} (hx : x < q) : setBigInt Inst.ffCfg (x : Int) = x :=
  setBigInt_of_canonical (by rw [ff_m]; exact hx)
theorem ff_setUint64_correct (v : Nat) : setUint64 Inst.ffCfg v = v % q := by
  rw [setUint64_correct, ff_m]
theorem ff_setBytes_correct (bs : Bytes) : setBytes Inst.ffCfg bs = beToNat bs % q := by
  rw [setBytes_correct, ff_m]
theorem ff_setBytes_eq_setBigInt (bs : Bytes) :
    setBytes Inst.ffCfg bs = setBigInt Inst.ffCfg (beToNat bs : Int) := setBytes_eq_setBigInt bs
theorem ff_toBytes_length (x : Nat) : (toBytes Inst.ffCfg x).length = 32 := by
  rw [toBytes_length, ff_limbs]
theorem ff_beToNat_toBytes {x : Nat} (hx : x < q) : beToNat (toBytes Inst.ffCfg x) = x :=
  beToNat_toBytes ff_wf (by rw [ff_m]; exact hx)
theorem ff_setBytes_toBytes {x : Nat} (hx : x < q) : setBytes Inst.ffCfg (toBytes Inst.ffCfg x) = x :=
  setBytes_toBytes ff_wf (by rw [ff_m]; exact hx)
theorem ff_toBytes_injective {x y : Nat} (hx : x < q) (hy : y < q)
    (hxy : toBytes Inst.ffCfg x = toBytes Inst.ffCfg y) : x = y :=
  toBytes_injective ff_wf (by rw [ff_m]; exact hx) (by rw [ff_m]; exact hy) hxy
theorem ff_toBytes_setBytes (bs : Bytes) (hl : bs.length = 32) (hv : beToNat bs < q) :
    toBytes Inst.ffCfg (setBytes Inst.ffCfg bs) = bs :=
  toBytes_setBytes bs (by rw [ff_limbs]; exact hl) (by rw [ff_m]; exact hv)
theorem ff_setBigInt_toStringInt {x : Nat} (hx : x < q) :
    setBigInt Inst.ffCfg (toStringInt Inst.ffCfg x) = x :=
  setBigInt_toStringInt ff_wf (by rw [ff_m]; exact hx)
theorem ff_toStringInt_range {x : Nat} (hx : x < q) :
    (toStringInt Inst.ffCfg x = (x : Int) ∧ (x < W ∨ W ≤ q - x)) ∨
    (toStringInt Inst.ffCfg x = (x : Int) - (q : Int) ∧ W ≤ x ∧ q - x < W ∧
      -(W : Int) < toStringInt Inst.ffCfg x ∧ toStringInt Inst.ffCfg x < 0) := by
  have := toStringInt_range (c := Inst.ffCfg) (by rw [ff_m]; exact hx); rwa [ff_m] at this
theorem ff_lexLargest_correct (x : Nat) : lexLargest Inst.ffCfg x = true ↔ x > (q - 1) / 2 := by
  have := lexLargest_correct ff_wf x; rwa [ff_m] at this
theorem ff_cmp_setBigInt (v w : Int) :
    (Model.FF.cmp (setBigInt Inst.ffCfg v) (setBigInt Inst.ffCfg w) = -1 ↔
      v % (q : Int) < w % (q : Int)) ∧
    (Model.FF.cmp (setBigInt Inst.ffCfg v) (setBigInt Inst.ffCfg w) = 0 ↔
      v % (q : Int) = w % (q : Int)) ∧
    (Model.FF.cmp (setBigInt Inst.ffCfg v) (setBigInt Inst.ffCfg w) = 1 ↔
      w % (q : Int) < v % (q : Int)) := by
  have := cmp_setBigInt ff_wf v w; rwa [ff_m] at this

theorem ffg_setBigInt_correct (v : Int) :
    ((setBigInt Inst.ffgCfg v : Nat) : Int) = v % (gp : Int) ∧ setBigInt Inst.ffgCfg v < gp := by
  have := setBigInt_correct ffg_wf v; rwa [ffg_m] at this
theorem ffg_setBigInt_eq_iff (v w : Int) :
    setBigInt Inst.ffgCfg v = setBigInt Inst.ffgCfg w ↔ v % (gp : Int) = w % (gp : Int) := by
  have := setBigInt_eq_iff ffg_wf v w; rwa [ffg_m] at this
theorem ffg_setBigInt_of_canonical {x : Nat} (hx : x < gp) : setBigInt Inst.ffgCfg (x : Int) = x :=
  setBigInt_of_canonical (by rw [ffg_m]; exact hx)
theorem ffg_setUint64_correct (v : Nat) : setUint64 Inst.ffgCfg v = v % gp := by
  rw [setUint64_correct, ffg_m]
theorem ffg_setBytes_correct (bs : Bytes) : setBytes Inst.ffgCfg bs = beToNat bs % gp := by
  rw [setBytes_correct, ffg_m]
theorem ffg_setBytes_eq_setBigInt (bs : Bytes) :
    setBytes Inst.ffgCfg bs = setBigInt Inst.ffgCfg (beToNat bs : Int) := setBytes_eq_setBigInt bs
theorem ffg_toBytes_length (x : Nat) : (toBytes Inst.ffgCfg x).length = 8 := by
  rw [toBytes_length, ffg_limbs]
theorem ffg_beToNat_toBytes {x : Nat} (hx : x < gp) : beToNat (toBytes Inst.ffgCfg x) = x :=
  beToNat_toBytes ffg_wf (by rw [ffg_m]; exact hx)
theorem ffg_setBytes_toBytes {x : Nat} (hx : x < gp) :
    setBytes Inst.ffgCfg (toBytes Inst.ffgCfg x) = x :=
  setBytes_toBytes ffg_wf (by rw [ffg_m]; exact hx)
theorem ffg_toBytes_injective {x y : Nat} (hx : x < gp) (hy : y < gp)
    (hxy : toBytes Inst.ffgCfg x = toBytes Inst.ffgCfg y) : x = y :=
  toBytes_injective ffg_wf (by rw [ffg_m]; exact hx) (by rw [ffg_m]; exact hy) hxy
theorem ffg_toBytes_setBytes (bs : Bytes) (hl : bs.length = 8) (hv : beToNat bs < gp) :
    toBytes Inst.ffgCfg (setBytes Inst.ffgCfg bs) = bs :=
  toBytes_setBytes bs (by rw [ffg_limbs]; exact hl) (by rw [ffg_m]; exact hv)
theorem ffg_setBigInt_toStringInt {x : Nat} (hx : x < gp) :
    setBigInt Inst.ffgCfg (toStringInt Inst.ffgCfg x) = x :=
  setBigInt_toStringInt ffg_wf (by rw [ffg_m]; exact hx)
theorem ffg_toStringInt_range {x : Nat} (hx : x < gp) :
    (toStringInt Inst.ffgCfg x = (x : Int) ∧ (x < W ∨ W ≤ gp - x)) ∨
    (toStringInt Inst.ffgCfg x = (x : Int) - (gp : Int) ∧ W ≤ x ∧ gp - x < W ∧
      -(W : Int) < toStringInt Inst.ffgCfg x ∧ toStringInt Inst.ffgCfg x < 0) := by
  have := toStringInt_range (c := Inst.ffgCfg) (by rw [ffg_m]; exact hx); rwa [ffg_m] at this
/-- in the Goldilocks field every canonical value fits in 64 bits, so `String()` never uses the
    signed form. -/
theorem ffg_toStringInt_eq {x : Nat} (hx : x < gp) : toStringInt Inst.ffgCfg x = (x : Int) := by
  unfold toStringInt
  have : x < W := Nat.lt_trans hx (by decide)
  rw [if_pos this]
theorem ffg_lexLargest_correct (x : Nat) : lexLargest Inst.ffgCfg x = true ↔ x > (gp - 1) / 2 := by
  have := lexLargest_correct ffg_wf x; rwa [ffg_m] at this
theorem ffg_cmp_setBigInt (v w : Int) :
    (Model.FF.cmp (setBigInt Inst.ffgCfg v) (setBigInt Inst.ffgCfg w) = -1 ↔
      v % (gp : Int) < w % (gp : Int)) ∧
    (Model.FF.cmp (setBigInt Inst.ffgCfg v) (setBigInt Inst.ffgCfg w) = 0 ↔
      v % (gp : Int) = w % (gp : Int)) ∧
    (Model.FF.cmp (setBigInt Inst.ffgCfg v) (setBigInt Inst.ffgCfg w) = 1 ↔
      w % (gp : Int) < v % (gp : Int)) := by
  have := cmp_setBigInt ffg_wf v w; rwa [ffg_m] at this

/-! ## 7. non-vacuity: boundary values, evaluated by the kernel on the generated configurations -/

example : setBigInt Inst.ffCfg (-1) = q - 1 := by decide +kernel
example : setBigInt Inst.ffCfg (q : Int) = 0 := by decide +kernel
example : setBigInt Inst.ffCfg ((q : Int) + 1) = 1 := by decide +kernel
example : setBigInt Inst.ffCfg (-(q : Int)) = 0 := by decide +kernel
example : setBigInt Inst.ffCfg (2 ^ 256) =
    6350874878119819312338956282401532410528162663560392320966563075034087161851 := by
  decide +kernel
example : setBigInt Inst.ffCfg (-(2 ^ 300) - 5) = setBigInt Inst.ffCfg ((q : Int) * 7 - 2 ^ 300 - 5) :=
  (ff_setBigInt_eq_iff _ _).2 (by decide +kernel)
example : setBigInt Inst.ffgCfg (-1) = gp - 1 := by decide +kernel
example : setBigInt Inst.ffgCfg (gp : Int) = 0 := by decide +kernel
example : setBigInt Inst.ffgCfg (2 ^ 64) = 4294967295 := by decide +kernel
example : setUint64 Inst.ffgCfg (2 ^ 64 - 1) = 4294967294 := by decide +kernel
example : setUint64 Inst.ffCfg (2 ^ 64 - 1) = 2 ^ 64 - 1 := by decide +kernel
/-- a 200-byte string of `0xff`: the value `256^200 − 1` reduced. -/
example : setBytes Inst.ffCfg (List.replicate 200 0xff) = (256 ^ 200 - 1) % q := by decide +kernel
example : setBytes Inst.ffgCfg (List.replicate 200 0xff) = (256 ^ 200 - 1) % gp := by decide +kernel
example : setBytes Inst.ffCfg [] = 0 := by decide +kernel
/-- 168 leading zero bytes in front of the 32-byte encoding of `q + 1`. -/
example : setBytes Inst.ffCfg (List.replicate 168 0 ++ natToBE 32 (q + 1)) = 1 := by decide +kernel
example : toBytes Inst.ffCfg 1 = List.replicate 31 0 ++ [1] := by decide +kernel
example : toBytes Inst.ffgCfg 258 = [0, 0, 0, 0, 0, 0, 1, 2] := by decide +kernel
example : setBytes Inst.ffCfg (toBytes Inst.ffCfg (q - 1)) = q - 1 := ff_setBytes_toBytes (by decide)
example : toStringInt Inst.ffCfg (q - 1) = -1 := by decide +kernel
example : toStringInt Inst.ffCfg (q - (W - 1)) = -((W : Int) - 1) := by decide +kernel
example : toStringInt Inst.ffCfg (q - W) = ((q - W : Nat) : Int) := by decide +kernel
example : toStringInt Inst.ffCfg (W - 1) = (W : Int) - 1 := by decide +kernel
example : setBigInt Inst.ffCfg (toStringInt Inst.ffCfg (q - 1)) = q - 1 :=
  ff_setBigInt_toStringInt (by decide)
example : lexLargest Inst.ffCfg ((q - 1) / 2) = false := by decide +kernel
example : lexLargest Inst.ffCfg ((q + 1) / 2) = true := by decide +kernel
example : lexLargest Inst.ffgCfg ((gp - 1) / 2) = false := by decide +kernel
example : lexLargest Inst.ffgCfg ((gp + 1) / 2) = true := by decide +kernel
example : lexLargest Inst.ffCfg 0 = false := by decide +kernel
example : Model.FF.cmp (setBigInt Inst.ffCfg (-1)) (setBigInt Inst.ffCfg 1) = 1 := by decide +kernel
example : Model.FF.cmp (setBigInt Inst.ffCfg ((q : Int) + 1)) (setBigInt Inst.ffCfg 1) = 0 := by
  decide +kernel
example : (setBigInt Inst.ffCfg ((q : Int) + 1) == setBigInt Inst.ffCfg 1) = true := by
  decide +kernel

end ff

end I3.Props.C11
