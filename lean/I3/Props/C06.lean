/-
  I3.Props.C06 — point compression of /repo/babyjub/babyjub.go (`Compress`, `Decompress`,
  `PointFromSignAndY`, `PackSignY`, `UnpackSignY`).

  `K = I3.Inst.bjConsts` are the constants regenerated from the Go source.  The modular square root
  is a parameter `sqrtFn` of the model; every theorem holds for ANY `sqrtFn` satisfying
  `SqrtSpec` (a returned value is a canonical root; `none` exactly on non-residues; which root is
  returned is left open), and `sqrtQ_spec` shows that the Tonelli–Shanks model `Inst.sqrtQ`
  (proved correct in C18) satisfies it.

  * format: 32 bytes, little-endian canonical `y`, bit 7 of byte 31 set iff `x > (q-1)/2`;
  * `decompress ∘ compress = id` on every point of the curve;
  * `decompress` accepts only canonical curve points whose compression is the input
    (so `compress ∘ decompress = id` on the accepted strings, and no string has two meanings);
  * rejections: `y ≥ q`, non-residue, sign bit with `x = 0`; "division by zero" is unreachable;
  * `compress` is injective on curve points.
-/
import I3.Lemmas.Compress
import I3.Props.C18Inst

set_option maxRecDepth 100000

namespace I3.Props.C06

open I3 I3.Spec I3.Spec.BJJ I3.Model.BabyJub I3.Lemmas.CurveBridge I3.Lemmas.Compress
open I3.Model.EdDSA (Sig sigCompress sigDecompress)
open I3.Model.Codec

/-- the constants regenerated from the Go source -/
abbrev K : Consts := I3.Inst.bjConsts

/-! ## 0. the square root used in production satisfies the specification -/

/-- the Tonelli–Shanks model used as `big.Int.ModSqrt` stand-in satisfies `SqrtSpec` -/
theorem sqrtQ_spec : SqrtSpec Inst.sqrtQ := by
  intro x hx
  have e : Inst.sqrtQ x = Model.FF.sqrt Inst.ffCfg x := by
    unfold Inst.sqrtQ
    rw [gen_q, Nat.mod_eq_of_lt hx]
  rw [e]
  exact ⟨fun r h => C18.ff_sqrt_some hx r h, C18.ff_sqrt_none_iff hx⟩

section
variable (sqrtFn : ℕ → Option ℕ)

/-! ## 1. format -/

/-- **compressed format**: 32 bytes; after masking bit 255 they are the little-endian canonical
`y`; bit 255 (bit 7 of byte 31) is set exactly when `x > (q-1)/2`. -/
theorem compress_format (P : curve.Point) :
    (compress K (coords P)).length = 32 ∧
      unpackSignY (compress K (coords P)) = (decide (P.x.val > (I3.q - 1) / 2), P.y.val) := by
  refine ⟨C15.compress_length _ _, ?_⟩
  unfold compress
  rw [pointCoordSign_coords]
  have hy : P.y.val < 2 ^ 255 := lt_trans (ZMod.val_lt P.y) (lt_trans q_lt_254 (by norm_num))
  exact C15.unpackSignY_packSignY_nat _ _ hy

/-- explicit bytes: without the sign the compression is `LE32(y)`, with the sign the last byte has
`0x80` or-ed in -/
theorem compress_bytes (P : curve.Point) :
    compress K (coords P) =
      if P.x.val > (I3.q - 1) / 2 then
        (natToLE 32 P.y.val).take 31 ++ [(natToLE 32 P.y.val).getD 31 0 ||| 0x80]
      else natToLE 32 P.y.val := by
  unfold compress
  rw [pointCoordSign_coords]
  unfold packSignY bigIntLEBytes sgn
  simp only [coords, Int.natAbs_natCast, decide_eq_true_eq, gt_iff_lt]

/-! ## 2. round trip on curve points -/

/-- **`Decompress (Compress P) = P`** for every point of the curve (in or out of the subgroup),
whichever root the square-root routine returns. -/
theorem decompress_compress (hs : SqrtSpec sqrtFn) (P : curve.Point) :
    decompress K sqrtFn (compress K (coords P)) = .ok (coords P) := by
  unfold decompress
  rw [(compress_format P).2]
  simp only
  rw [pointFromSignAndY_eq sqrtFn _ _ (ZMod.val_lt P.y), ZMod.natCast_zmod_val, xsq_point]
  obtain ⟨hsome, hnone⟩ := hs (P.x ^ 2).val (ZMod.val_lt _)
  rw [ZMod.natCast_zmod_val] at hnone
  cases hr : sqrtFn (P.x ^ 2).val with
  | none => exact absurd ⟨P.x, sq P.x⟩ (hnone.1 hr)
  | some r =>
    obtain ⟨hrlt, hrr⟩ := hsome r hr
    have hrF : ((r : ℕ) : F) ^ 2 = P.x ^ 2 := by
      have := congrArg (fun n : ℕ => (n : F)) hrr
      simp only [ZMod.natCast_mod, Nat.cast_mul, ZMod.natCast_zmod_val] at this
      rw [sq]; exact this
    simp only
    have h0 : ¬ (decide (P.x.val > (I3.q - 1) / 2) = true ∧ r = 0) := by
      rintro ⟨h1, rfl⟩
      have hx0 : P.x = 0 := by
        have : P.x ^ 2 = 0 := by rw [← hrF]; simp
        exact pow_eq_zero_iff (two_ne_zero) |>.1 this
      rw [hx0] at h1
      simp at h1
    have h0' : ¬ ((decide (P.x.val > (I3.q - 1) / 2) && r == 0) = true) := by
      simpa using h0
    rw [if_neg h0']
    obtain ⟨hXlt, hXs, hXsq⟩ := fixup _ r hrlt h0
    have hXP : ((imod (if (decide (P.x.val > (I3.q - 1) / 2) != pointCoordSign k (r : ℤ)) = true
        then -(r : ℤ) else (r : ℤ)) I3.q : ℕ) : F) = P.x := by
      apply eq_of_sq_eq_of_sgn (hXsq.trans hrF)
      rw [sgn_natCast hXlt, hXs]; rfl
    have : imod (if (decide (P.x.val > (I3.q - 1) / 2) != pointCoordSign k (r : ℤ)) = true
        then -(r : ℤ) else (r : ℤ)) I3.q = P.x.val := by
      have h := congrArg ZMod.val hXP
      rwa [val_natCast_of_lt hXlt] at h
    rw [this]; rfl

/-! ## 3. soundness of decompression -/

/-- **`Decompress` accepts only valid encodings**: if 32 bytes decompress to `p`, then `p` is on the
curve, canonical, and `Compress p` gives back exactly the input bytes (in particular the sign bit
of an `x = 0` point must be clear). -/
theorem decompress_sound (hs : SqrtSpec sqrtFn) (b : Bytes) (hb : b.length = 32) (p : APoint)
    (h : decompress K sqrtFn b = .ok p) :
    inCurve K p = true ∧ (0 ≤ p.1 ∧ p.1 < I3.q ∧ 0 ≤ p.2 ∧ p.2 < I3.q) ∧ compress K p = b := by
  have hpack := C15.packSignY_unpackSignY b hb
  unfold decompress at h
  simp only at h
  generalize (unpackSignY b).1 = sign at *
  generalize (unpackSignY b).2 = y at *
  have hy : y < I3.q := by
    by_contra hge
    unfold pointFromSignAndY at h
    rw [if_pos (by rw [k_q]; omega)] at h
    cases h
  rw [pointFromSignAndY_eq sqrtFn _ _ hy] at h
  obtain ⟨hsome, -⟩ := hs (xsq ((y : ℕ) : F)).val (ZMod.val_lt _)
  cases hr : sqrtFn (xsq ((y : ℕ) : F)).val with
  | none => rw [hr] at h; cases h
  | some r =>
    rw [hr] at h
    simp only at h
    obtain ⟨hrlt, hrr⟩ := hsome r hr
    have hrF : ((r : ℕ) : F) ^ 2 = xsq ((y : ℕ) : F) := by
      have := congrArg (fun n : ℕ => (n : F)) hrr
      simp only [ZMod.natCast_mod, Nat.cast_mul, ZMod.natCast_zmod_val] at this
      rw [sq]; exact this
    by_cases h0' : (sign && r == 0) = true
    · rw [if_pos h0'] at h; cases h
    · rw [if_neg h0'] at h
      have h0 : ¬ (sign = true ∧ r = 0) := by simpa using h0'
      obtain ⟨hXlt, hXs, hXsq⟩ := fixup sign r hrlt h0
      generalize imod (if (sign != pointCoordSign k (r : ℤ)) = true then -(r : ℤ) else (r : ℤ))
        I3.q = X at *
      injection h with h
      subst h
      refine ⟨?_, ⟨by omega, by omega, by omega, by omega⟩, ?_⟩
      · rw [inCurve_iff, onCurve_iff_xsq]
        simp only [Int.cast_natCast]
        exact hXsq.trans hrF
      · unfold compress
        simp only
        rw [hXs]; exact hpack

/-- the accepted point is the canonical coordinate pair of a point of the group -/
theorem decompress_sound_point (hs : SqrtSpec sqrtFn) (b : Bytes) (hb : b.length = 32) (p : APoint)
    (h : decompress K sqrtFn b = .ok p) :
    ∃ P : curve.Point, coords P = p ∧ compress K (coords P) = b := by
  obtain ⟨hc, ⟨h1, h2, h3, h4⟩, hcomp⟩ := decompress_sound sqrtFn hs b hb p h
  obtain ⟨x, y⟩ := p
  obtain ⟨P, hx, hy⟩ := exists_point_of_inCurve hc
  have := coords_of_cast ⟨h1, h2⟩ ⟨h3, h4⟩ hx hy
  exact ⟨P, this, by rw [this]; exact hcomp⟩

/-- **no malleability**: two 32-byte strings that decompress to the same point are equal -/
theorem decompress_injective (hs : SqrtSpec sqrtFn) (b1 b2 : Bytes) (h1 : b1.length = 32)
    (h2 : b2.length = 32) (p : APoint) (hd1 : decompress K sqrtFn b1 = .ok p)
    (hd2 : decompress K sqrtFn b2 = .ok p) : b1 = b2 :=
  (decompress_sound sqrtFn hs b1 h1 p hd1).2.2.symm.trans (decompress_sound sqrtFn hs b2 h2 p hd2).2.2

/-! ## 4. rejections -/

/-- a `y` part `≥ q` (non-canonical) is rejected -/
theorem decompress_yTooBig (b : Bytes) (h : I3.q ≤ (unpackSignY b).2) :
    decompress K sqrtFn b = .error .yTooBig := by
  unfold decompress pointFromSignAndY
  simp only
  rw [if_pos (by rw [k_q]; omega)]

/-- a canonical `y` for which `(1 - y²)/(a - d y²)` is not a square (no curve point has this `y`)
is rejected -/
theorem decompress_notSquare (hs : SqrtSpec sqrtFn) (b : Bytes) (hy : (unpackSignY b).2 < I3.q)
    (hns : ¬ IsSquare ((1 - (((unpackSignY b).2 : ℕ) : ZMod I3.q) ^ 2) /
      (168700 - 168696 * (((unpackSignY b).2 : ℕ) : ZMod I3.q) ^ 2))) :
    decompress K sqrtFn b = .error .notSquare := by
  unfold decompress
  simp only
  rw [pointFromSignAndY_eq sqrtFn _ _ hy]
  obtain ⟨-, hnone⟩ := hs (xsq (((unpackSignY b).2 : ℕ) : F)).val (ZMod.val_lt _)
  rw [ZMod.natCast_zmod_val] at hnone
  rw [hnone.2 hns]

/-- the sign bit together with `x = 0` (i.e. `y² = 1`, `y ∈ {1, q-1}`) is rejected: the encoding
of `(0, ±1)` with the sign bit set is not canonical -/
theorem decompress_signOfZero (hs : SqrtSpec sqrtFn) (b : Bytes) (hy : (unpackSignY b).2 < I3.q)
    (hsign : (unpackSignY b).1 = true) (h1 : (((unpackSignY b).2 : ℕ) : ZMod I3.q) ^ 2 = 1) :
    decompress K sqrtFn b = .error .signOfZero := by
  unfold decompress
  simp only
  rw [pointFromSignAndY_eq sqrtFn _ _ hy, (xsq_eq_zero_iff _).2 h1, hsign]
  obtain ⟨hsome, hnone⟩ := hs (0 : F).val (ZMod.val_lt _)
  cases hr : sqrtFn (0 : F).val with
  | none =>
    rw [ZMod.natCast_zmod_val] at hnone
    exact absurd ⟨0, by simp⟩ (hnone.1 hr)
  | some r =>
    obtain ⟨hrlt, hrr⟩ := hsome r hr
    have : r = 0 := by
      rw [ZMod.val_zero] at hrr
      have hd : I3.q ∣ r * r := Nat.dvd_of_mod_eq_zero hrr
      rcases (Nat.Prime.dvd_mul I3.q_prime).1 hd with h | h <;>
        exact Nat.eq_zero_of_dvd_of_lt h hrlt
    subst this
    simp

/-- **"division by zero" is unreachable**: `a - d y² ≠ 0` for every `y` because `d` is a
non-residue and `a` is a residue — for every square-root routine and every input -/
theorem divZero_unreachable (b : Bytes) : decompress K sqrtFn b ≠ .error .divZero := by
  unfold decompress
  simp only
  by_cases hy : (unpackSignY b).2 < I3.q
  · rw [pointFromSignAndY_eq sqrtFn _ _ hy]
    cases sqrtFn (xsq (((unpackSignY b).2 : ℕ) : F)).val with
    | none => simp
    | some r =>
      simp only
      split_ifs <;> simp
  · unfold pointFromSignAndY
    rw [if_pos (by rw [k_q]; omega)]
    simp

/-- **exact acceptance criterion**: a string is accepted iff its `y` part is canonical,
`(1 - y²)/(a - d y²)` is a square, and the sign bit is not set when that quotient is zero -/
theorem decompress_ok_iff (hs : SqrtSpec sqrtFn) (b : Bytes) :
    (∃ p, decompress K sqrtFn b = .ok p) ↔
      (unpackSignY b).2 < I3.q ∧
      IsSquare ((1 - (((unpackSignY b).2 : ℕ) : ZMod I3.q) ^ 2) /
        (168700 - 168696 * (((unpackSignY b).2 : ℕ) : ZMod I3.q) ^ 2)) ∧
      ¬ ((unpackSignY b).1 = true ∧ (((unpackSignY b).2 : ℕ) : ZMod I3.q) ^ 2 = 1) := by
  constructor
  · rintro ⟨p, hp⟩
    have hy : (unpackSignY b).2 < I3.q := by
      by_contra hge
      rw [decompress_yTooBig sqrtFn b (by omega)] at hp
      cases hp
    refine ⟨hy, ?_, ?_⟩
    · by_contra hns
      rw [decompress_notSquare sqrtFn hs b hy hns] at hp
      cases hp
    · rintro ⟨h1, h2⟩
      rw [decompress_signOfZero sqrtFn hs b hy h1 h2] at hp
      cases hp
  · rintro ⟨hy, hsq, hz⟩
    unfold decompress
    simp only
    rw [pointFromSignAndY_eq sqrtFn _ _ hy]
    obtain ⟨hsome, hnone⟩ := hs (xsq (((unpackSignY b).2 : ℕ) : F)).val (ZMod.val_lt _)
    rw [ZMod.natCast_zmod_val] at hnone
    cases hr : sqrtFn (xsq (((unpackSignY b).2 : ℕ) : F)).val with
    | none => exact absurd hsq (hnone.1 hr)
    | some r =>
      obtain ⟨hrlt, hrr⟩ := hsome r hr
      simp only
      have h0 : ¬ (((unpackSignY b).1 && r == 0) = true) := by
        intro h
        simp only [Bool.and_eq_true, beq_iff_eq] at h
        obtain ⟨h1, rfl⟩ := h
        apply hz
        refine ⟨h1, (xsq_eq_zero_iff _).1 ?_⟩
        have := congrArg (fun n : ℕ => (n : F)) hrr
        simp only [ZMod.natCast_zmod_val] at this
        rw [← this]; simp
      rw [if_neg h0]
      exact ⟨_, rfl⟩

/-! ## 5. injectivity -/

/-- **`Compress` is injective on curve points** -/
theorem compress_injective (P Q : curve.Point)
    (h : compress K (coords P) = compress K (coords Q)) : P = Q := by
  have h2 := congrArg unpackSignY h
  rw [(compress_format P).2, (compress_format Q).2] at h2
  simp only [Prod.mk.injEq] at h2
  apply key_injective
  unfold key
  refine Prod.ext (ZMod.val_injective _ h2.2) ?_
  simp only [sgn]
  exact h2.1

/-- every accepted 32-byte string is the compression of exactly one curve point -/
theorem decompress_ok_unique (hs : SqrtSpec sqrtFn) (b : Bytes) (hb : b.length = 32) (p : APoint)
    (h : decompress K sqrtFn b = .ok p) :
    ∃! P : curve.Point, compress K (coords P) = b := by
  obtain ⟨P, -, hP⟩ := decompress_sound_point sqrtFn hs b hb p h
  exact ⟨P, hP, fun Q hQ => compress_injective Q P (hQ.trans hP.symm)⟩

/-! ## 6. the hypothesis of the codec theorems of C15, discharged on curve points -/

theorem sigDecompress_sigCompress_point (hs : SqrtSpec sqrtFn) (P : curve.Point) (s : ℤ)
    (h0 : 0 ≤ s) (h : s < 2 ^ 256) :
    sigDecompress K sqrtFn (sigCompress K ⟨coords P, s⟩) = .ok ⟨coords P, s⟩ :=
  C15.sigDecompress_sigCompress K sqrtFn ⟨coords P, s⟩ (decompress_compress sqrtFn hs P) h0 h

theorem unmarshalPublicKey_marshalPublicKey_point (hs : SqrtSpec sqrtFn) (P : curve.Point) :
    unmarshalPublicKey K sqrtFn (marshalPublicKey K (coords P)) = .ok (coords P) :=
  C15.unmarshalPublicKey_marshalPublicKey K sqrtFn _ (decompress_compress sqrtFn hs P)

theorem unmarshalPublicKey_marshalPublicKey0x_point (hs : SqrtSpec sqrtFn) (P : curve.Point) :
    unmarshalPublicKey K sqrtFn ('0' :: 'x' :: marshalPublicKey K (coords P)) = .ok (coords P) :=
  C15.unmarshalPublicKey_marshalPublicKey0x K sqrtFn _ (decompress_compress sqrtFn hs P)

theorem scanPublicKey_compress_point (hs : SqrtSpec sqrtFn) (P : curve.Point) :
    scanPublicKey K sqrtFn (.bytes (compress K (coords P))) = .ok (coords P) :=
  C15.scanPublicKey_compress K sqrtFn _ (decompress_compress sqrtFn hs P)

theorem scanSignature_sigCompress_point (hs : SqrtSpec sqrtFn) (P : curve.Point) (s : ℤ)
    (h0 : 0 ≤ s) (h : s < 2 ^ 256) :
    scanSignature K sqrtFn (.bytes (sigCompress K ⟨coords P, s⟩)) = .ok ⟨coords P, s⟩ :=
  C15.scanSignature_sigCompress K sqrtFn ⟨coords P, s⟩ (decompress_compress sqrtFn hs P) h0 h

theorem decompressSigText_hexEncode_point (hs : SqrtSpec sqrtFn) (P : curve.Point) (s : ℤ)
    (h0 : 0 ≤ s) (h : s < 2 ^ 256) :
    decompressSigText K sqrtFn (hexEncodeChars (sigCompress K ⟨coords P, s⟩)) = .ok ⟨coords P, s⟩ :=
  C15.decompressSigText_hexEncode K sqrtFn ⟨coords P, s⟩ (decompress_compress sqrtFn hs P) h0 h

end

/-! ## 7. the production instance `Inst.sqrtQ` -/

theorem decompress_compress_inst (P : curve.Point) :
    decompress K Inst.sqrtQ (compress K (coords P)) = .ok (coords P) :=
  decompress_compress _ sqrtQ_spec P

theorem decompress_sound_inst (b : Bytes) (hb : b.length = 32) (p : APoint)
    (h : decompress K Inst.sqrtQ b = .ok p) :
    inCurve K p = true ∧ (0 ≤ p.1 ∧ p.1 < I3.q ∧ 0 ≤ p.2 ∧ p.2 < I3.q) ∧ compress K p = b :=
  decompress_sound _ sqrtQ_spec b hb p h

/-! ## 8. non-vacuity: concrete values -/

/-- the specification is satisfiable by a function that always returns the OTHER root than
`Inst.sqrtQ` does (the theorems do not depend on the choice of root) -/
example : SqrtSpec (fun x => (Inst.sqrtQ x).map fun r => (I3.q - r) % I3.q) := by
  intro x hx
  obtain ⟨h1, h2⟩ := sqrtQ_spec x hx
  constructor
  · intro r hr
    change (Inst.sqrtQ x).map (fun r => (I3.q - r) % I3.q) = some r at hr
    cases hq : Inst.sqrtQ x with
    | none => rw [hq] at hr; cases hr
    | some r0 =>
      rw [hq] at hr
      simp only [Option.map_some, Option.some.injEq] at hr
      obtain ⟨hlt, hsq⟩ := h1 r0 hq
      subst hr
      refine ⟨Nat.mod_lt _ q_pos, ?_⟩
      have hc : ((((I3.q - r0) % I3.q * ((I3.q - r0) % I3.q) % I3.q : ℕ)) : ZMod I3.q) = (x : ℕ) := by
        have := congrArg (fun n : ℕ => (n : ZMod I3.q)) hsq
        simp only [ZMod.natCast_mod, Nat.cast_mul] at this
        simp only [ZMod.natCast_mod, Nat.cast_mul, Nat.cast_sub hlt.le, ZMod.natCast_self, zero_sub,
          neg_mul_neg]
        exact this
      rw [cast_eq_iff, Nat.mod_mod, Nat.mod_eq_of_lt hx] at hc
      exact hc
  · change (Inst.sqrtQ x).map (fun r => (I3.q - r) % I3.q) = none ↔ _
    rw [Option.map_eq_none_iff]; exact h2

/-- the base point: compressed form and round trip -/
example : decompress K Inst.sqrtQ (compress K K.b8) = .ok K.b8 := by
  rw [k_b8, ← coords_B8]; exact decompress_compress_inst B8
example : compress K K.b8 = natToLE 32 I3.B8y := by decide +kernel
/-- `-B8` has the sign bit set -/
example : unpackSignY (compress K (coords (-B8))) = (true, I3.B8y) := by
  rw [(compress_format (-B8)).2]
  have := coords_B8
  simp only [coords, Prod.mk.injEq, Nat.cast_inj] at this
  rw [EdCurve.neg_x, EdCurve.neg_y, this.2, ZMod.neg_val, this.1]
  decide +kernel
/-- the eight points of small order round-trip (they are curve points outside the subgroup) -/
example (i : Fin 8) : decompress K Inst.sqrtQ (compress K (coords (small i))) = .ok (coords (small i)) :=
  decompress_compress_inst (small i)
/-- the identity `(0,1)` compresses to `LE32(1)` and back -/
example : compress K (0, 1) = natToLE 32 1 := by decide +kernel
example : decompress K Inst.sqrtQ (natToLE 32 1) = .ok (0, 1) := by
  have := decompress_compress_inst 0
  rw [coords_zero] at this
  rw [show natToLE 32 1 = compress K (0, 1) by decide +kernel]; exact this
/-- `LE32(1) | 0x80` — the identity with the sign bit set — is rejected (RFC 8032 §5.1.3) -/
example : decompress K Inst.sqrtQ (natToLE 31 1 ++ [0x80]) = .error .signOfZero := by
  decide +kernel
example : decompress K Inst.sqrtQ (natToLE 31 1 ++ [0x80]) = .error .signOfZero :=
  decompress_signOfZero _ sqrtQ_spec _ (by decide +kernel) (by decide +kernel) (by decide +kernel)
/-- `LE32(q-1) | 0x80` — the point `(0,-1)` of order 2 with the sign bit set — is rejected -/
example : decompress K Inst.sqrtQ ((natToLE 32 (I3.q - 1)).take 31 ++
    [(natToLE 32 (I3.q - 1)).getD 31 0 ||| 0x80]) = .error .signOfZero := by
  decide +kernel
/-- `y = q` (a non-canonical encoding of `y = 0`) is rejected, and so is `y = 2^255 - 1` -/
example : decompress K Inst.sqrtQ (natToLE 32 I3.q) = .error .yTooBig := by decide +kernel
example : decompress K Inst.sqrtQ (natToLE 32 I3.q) = .error .yTooBig :=
  decompress_yTooBig _ _ (by decide +kernel)
example : decompress K Inst.sqrtQ (List.replicate 32 0xff) = .error .yTooBig := by decide +kernel
/-- `y = 2`: no curve point has this ordinate -/
example : decompress K Inst.sqrtQ (natToLE 32 2) = .error .notSquare := by decide +kernel
/-- `y = 0` is accepted (the points of order 4), with either sign, and they differ -/
example : ∃ x : ℤ, decompress K Inst.sqrtQ (natToLE 32 0) = .ok (x, 0) ∧
    decompress K Inst.sqrtQ (natToLE 31 0 ++ [0x80]) = .ok ((I3.q : ℤ) - x, 0) ∧ x ≠ 0 :=
  ⟨2957874849018779266517920829765869116077630550401372566248359756137677864698,
    by decide +kernel, by decide +kernel, by decide⟩

end I3.Props.C06
