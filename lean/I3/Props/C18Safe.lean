/-
  I3.Props.C18Safe — C18 / C05 / C09, the "total, never a panic, always terminating" half, about the GENERATED code:
  the checked variants (`I3/Gen/GoChkFF.lean`, `I3/Gen/GoChkFFG.lean`, see I3.Lemmas.GoSafe / GoSafeFF) of the
  value-level field functions `Exp`, `Div`, `BatchInvert`, `Legendre`, `Sqrt` of /repo/ff (BN254 scalar field) and
  /repo/ffg (Goldilocks; there also `Inverse` and `Halve`) are `true` on EVERY input.

  Input domains.  A field element is a natural number: EVERY natural number is allowed (no canonicity `x < m` is
  needed anywhere — the termination argument of `Sqrt` works on the values the code computes, which are reduced by
  the first multiplication; `GoBridge.ff_Element_Sqrt_eq` / `C18Gen.ff_Sqrt_terminates` likewise hold for every
  operand).  The destination `z` is arbitrary (never read).  The exponent of `Exp` is EVERY integer: `0` returns
  one, a negative exponent runs the same loop over `|e|.BitLen() - 2 … 0` (what it computes is not a power: see the
  `example` in I3.Lemmas.GoBridgeFF), `e = ±1` runs the loop over the empty range `-1 … 0`.  `BatchInvert` takes
  EVERY list (empty, with zeros).

  `Sqrt_ok = true` says more than "no requirement fails": the three loops without a syntactic bound are run with
  fuel 80, and an exhausted loop makes the checked variant `false`; the proof is the termination argument
  (`GoSafe.FF.outer_ok`: under the Tonelli–Shanks invariant each iteration that does not return strictly decreases
  `r ≤ 64`; the inner loops need `ordLog < r` resp. `r - m - 1` iterations).
-/
import I3.Lemmas.GoSafeFF

set_option maxRecDepth 100000

namespace I3.Props.C18Safe
open I3 I3.Go I3.Gen.Go I3.GoSafe I3.GoSafe.FF I3.Model.FF I3.GoBridge I3.GoBridge.FF I3.Props.C18

/-! ## /repo/ff — BN254 scalar field -/

/-- **`z.Div(x, y)`**: every operand, `y = 0` included (`Inverse` maps 0 to 0: no division). -/
theorem ff_Element_Div_ok_true (z x y : Nat) : ff_Element_Div_ok z x y = true := rfl

/-- **`z.Exp(x, e)`**: every operand and EVERY integer exponent (zero, negative, `±1`: empty loop). -/
theorem ff_Element_Exp_ok_true (z x : Nat) (e : Int) : ff_Element_Exp_ok z x e = true := by
  unfold ff_Element_Exp_ok
  dsimp only
  split
  · rfl
  · generalize hr : Go.forDownRet _ _ _ _ = r
    obtain ⟨h1, -⟩ := forDownRet_inv (fun _ : Nat => True) hr trivial (by
        intro i s hi0 _ _
        rw [req_of (decide_eq_true hi0)]
        split <;> exact ⟨rfl, trivial⟩)
    obtain ⟨ret, st⟩ := r
    cases h1
    rfl

/-- **`BatchInvert(a)`**: every list (empty; with zero entries; non-canonical entries).  The three slices
    `res`, `zeroes`, `a` have the same length and both loops stay inside it. -/
theorem ff_BatchInvert_ok_true (a : List Nat) : ff_BatchInvert_ok a = true := by
  unfold ff_BatchInvert_ok
  dsimp only
  rw [req_of (len_nonneg a)]
  split
  · rfl
  · rw [req_of (len_nonneg a)]
    generalize hr : Go.forRangeRet _ _ _ _ = r
    obtain ⟨h1, h2, h3⟩ := forRangeRet_inv
      (fun st : List Nat × List Bool × Nat => st.1.length = a.length ∧ st.2.1.length = a.length) hr
      ⟨by rw [length_make, len_eq, Int.toNat_natCast], by rw [length_make, len_eq, Int.toNat_natCast]⟩ (by
        rintro i st hi1 hi2 ⟨hP1, hP2⟩
        rw [len_eq] at hi2
        rw [req_of (inRange_of hi1 hi2)]
        split
        · rw [req_of (inRange_of hi1 (by rw [hP2]; exact hi2))]
          exact ⟨rfl, hP1, by dsimp only; rw [length_set, hP2]⟩
        · rw [req_of (inRange_of hi1 (by rw [hP1]; exact hi2)), req_of (inRange_of hi1 hi2)]
          exact ⟨rfl, by dsimp only; rw [length_set, hP1], hP2⟩)
    obtain ⟨ret, res, zeroes, acc⟩ := r
    cases h1
    dsimp only at h2 h3 ⊢
    generalize hr2 : Go.forDownRet _ _ _ _ = r2
    obtain ⟨h4, -⟩ := forDownRet_inv (fun st : List Nat × Nat => st.1.length = a.length) hr2 h2 (by
        intro i st hi1 hi2 hP
        rw [len_eq] at hi2
        rw [req_of (inRange_of hi1 (by rw [h3]; omega))]
        split
        · exact ⟨rfl, hP⟩
        · have hres : Go.inRange st.1 i = true := inRange_of hi1 (by rw [hP]; omega)
          rw [req_of hres, req_of hres, inRange_set, req_of hres, req_of (inRange_of hi1 (by omega))]
          exact ⟨rfl, by dsimp only; rw [length_set, hP]⟩)
    obtain ⟨ret2, st2⟩ := r2
    cases h4
    rfl

/-- **`z.Legendre()`**: every operand. -/
theorem ff_Element_Legendre_ok_true (z : Nat) : ff_Element_Legendre_ok z = true := by
  go_delta ff_Element_Legendre_ok
  generalize ff_Element_Exp = E
  as_aux_lemma =>
    dsimp only
    rw [req_of (ff_Element_Exp_ok_true _ _ _)]
    split
    · rfl
    · split <;> rfl

/-- **`z.Sqrt(x)`** never panics AND TERMINATES: every operand (zero, squares, non-squares, non-canonical), every
    destination.  No requirement fails and none of the three fuelled loops is exhausted. -/
theorem ff_Element_Sqrt_ok_true (z x : Nat) : ff_Element_Sqrt_ok z x = true := by
  unfold ff_Element_Sqrt_ok
  rw [req_of (ff_Element_Exp_ok_true _ x _)]
  rw [ff_Element_Exp_eq _ x _ (Or.inr ff_sqrtExp_ne_one)]
  ff_head_whnf
  rw [ff_one_lit, ff_g_lit, forRangeNRet_square' (fun _ _ => rfl), (by decide : Go.u64sub 28 1 = 27)]
  ff_head_whnf
  rcases sqrt_ok_facts ff_wf ff_r_le x (M := Gen.ff_modulus) (r0 := 28) (rm1 := 27)
      (e := Gen.ff_sqrtExp) (g0 := Inst.ffCfg.fromMont Inst.ffCfg.gMont) rfl rfl rfl rfl rfl
    with h0 | ⟨h0, h1⟩ | ⟨h0, h1, hloop⟩
  · rw [if_pos h0]
  · rw [if_neg h0, if_pos h1]
  · rw [if_neg h0, if_neg h1]
    apply Exists.elim (hloop ?hc ?hb z)
    · rintro z' ⟨y', b', t', g', r', hl⟩
      rw [hl]
      ff_head_whnf
      rw [if_neg Bool.false_ne_true]
    case hc => rintro ⟨_, _, _, _, _, _⟩; rfl
    case hb =>
      have hM : 1 < Gen.ff_modulus := ff_wf.one_lt
      ff_sqrt_ok_body_script Gen.ff_modulus hM

/-! ## /repo/ffg — Goldilocks -/

/-- **`z.Div(x, y)`**: every operand, `y = 0` included. -/
theorem ffg_Element_Div_ok_true (z x y : Nat) : ffg_Element_Div_ok z x y = true := rfl

/-- **`z.Halve()`**: every operand (the inverse of two is computed by `Inverse`, no division). -/
theorem ffg_Element_Halve_ok_true (z : Nat) : ffg_Element_Halve_ok z = true := rfl

/-- **`z.Inverse(x)`**: every operand, `x = 0` included (`big.Int.ModInverse` then returns `nil`, which the code
    ignores: `_xNonMont` keeps its value 0). -/
theorem ffg_Element_Inverse_ok_true (z x : Nat) : ffg_Element_Inverse_ok z x = true := rfl

/-- **`z.Exp(x, e)`**: every operand and EVERY integer exponent. -/
theorem ffg_Element_Exp_ok_true (z x : Nat) (e : Int) : ffg_Element_Exp_ok z x e = true := by
  unfold ffg_Element_Exp_ok
  dsimp only
  split
  · rfl
  · generalize hr : Go.forDownRet _ _ _ _ = r
    obtain ⟨h1, -⟩ := forDownRet_inv (fun _ : Nat => True) hr trivial (by
        intro i s hi0 _ _
        rw [req_of (decide_eq_true hi0)]
        split <;> exact ⟨rfl, trivial⟩)
    obtain ⟨ret, st⟩ := r
    cases h1
    rfl

/-- **`BatchInvert(a)`**: every list. -/
theorem ffg_BatchInvert_ok_true (a : List Nat) : ffg_BatchInvert_ok a = true := by
  unfold ffg_BatchInvert_ok
  dsimp only
  rw [req_of (len_nonneg a)]
  split
  · rfl
  · rw [req_of (len_nonneg a)]
    generalize hr : Go.forRangeRet _ _ _ _ = r
    obtain ⟨h1, h2, h3⟩ := forRangeRet_inv
      (fun st : List Nat × List Bool × Nat => st.1.length = a.length ∧ st.2.1.length = a.length) hr
      ⟨by rw [length_make, len_eq, Int.toNat_natCast], by rw [length_make, len_eq, Int.toNat_natCast]⟩ (by
        rintro i st hi1 hi2 ⟨hP1, hP2⟩
        rw [len_eq] at hi2
        rw [req_of (inRange_of hi1 hi2)]
        split
        · rw [req_of (inRange_of hi1 (by rw [hP2]; exact hi2))]
          exact ⟨rfl, hP1, by dsimp only; rw [length_set, hP2]⟩
        · rw [req_of (inRange_of hi1 (by rw [hP1]; exact hi2)), req_of (inRange_of hi1 hi2)]
          exact ⟨rfl, by dsimp only; rw [length_set, hP1], hP2⟩)
    obtain ⟨ret, res, zeroes, acc⟩ := r
    cases h1
    dsimp only at h2 h3 ⊢
    generalize hr2 : Go.forDownRet _ _ _ _ = r2
    obtain ⟨h4, -⟩ := forDownRet_inv (fun st : List Nat × Nat => st.1.length = a.length) hr2 h2 (by
        intro i st hi1 hi2 hP
        rw [len_eq] at hi2
        rw [req_of (inRange_of hi1 (by rw [h3]; omega))]
        split
        · exact ⟨rfl, hP⟩
        · have hres : Go.inRange st.1 i = true := inRange_of hi1 (by rw [hP]; omega)
          rw [req_of hres, req_of hres, inRange_set, req_of hres, req_of (inRange_of hi1 (by omega))]
          exact ⟨rfl, by dsimp only; rw [length_set, hP]⟩)
    obtain ⟨ret2, st2⟩ := r2
    cases h4
    rfl

/-- **`z.Legendre()`**: every operand. -/
theorem ffg_Element_Legendre_ok_true (z : Nat) : ffg_Element_Legendre_ok z = true := by
  go_delta ffg_Element_Legendre_ok
  generalize ffg_Element_Exp = E
  as_aux_lemma =>
    dsimp only
    rw [req_of (ffg_Element_Exp_ok_true _ _ _)]
    split
    · rfl
    · split <;> rfl

/-- **`z.Sqrt(x)`** never panics AND TERMINATES: every operand, every destination. -/
theorem ffg_Element_Sqrt_ok_true (z x : Nat) : ffg_Element_Sqrt_ok z x = true := by
  unfold ffg_Element_Sqrt_ok
  rw [req_of (ffg_Element_Exp_ok_true _ x _)]
  rw [ffg_Element_Exp_eq _ x _ (Or.inr ffg_sqrtExp_ne_one)]
  ff_head_whnf
  rw [ffg_one_lit, ffg_g_lit, forRangeNRet_square' (fun _ _ => rfl), (by decide : Go.u64sub 32 1 = 31)]
  ff_head_whnf
  rcases sqrt_ok_facts ffg_wf ffg_r_le x (M := Gen.ffg_modulus) (r0 := 32) (rm1 := 31)
      (e := Gen.ffg_sqrtExp) (g0 := Inst.ffgCfg.fromMont Inst.ffgCfg.gMont) rfl rfl rfl rfl rfl
    with h0 | ⟨h0, h1⟩ | ⟨h0, h1, hloop⟩
  · rw [if_pos h0]
  · rw [if_neg h0, if_pos h1]
  · rw [if_neg h0, if_neg h1]
    apply Exists.elim (hloop ?hc ?hb z)
    · rintro z' ⟨y', b', t', g', r', hl⟩
      rw [hl]
      ff_head_whnf
      rw [if_neg Bool.false_ne_true]
    case hc => rintro ⟨_, _, _, _, _, _⟩; rfl
    case hb =>
      have hM : 1 < Gen.ffg_modulus := ffg_wf.one_lt
      ff_sqrt_ok_body_script Gen.ffg_modulus hM

end I3.Props.C18Safe
