/-
  I3.Props.C04 (source pin) — the Go functions mirrored by the hand-written models of C04 still have the
  source text against which those models were validated, and no function was added to or removed
  from their packages.  Regenerated fingerprints: I3.Gen.fingerprints (tools/gen_pins).
-/
import I3.Gen.Fingerprints
import I3.Model.SourcePin
namespace I3.Props.C04
open I3.SourcePin

def modelled : List String := [
  "babyjub.NewPoint",
  "babyjub.NewPointProjective",
  "babyjub.Point.Mul",
  "babyjub.Point.Projective",
  "babyjub.PointProjective.Add",
  "babyjub.PointProjective.Affine",
  "babyjub.init",
  "ff.Element.Equal",
  "ff.Element.Inverse",
  "ff.Element.SetBigInt",
  "ff.Element.ToBigInt",
  "ff.Element.ToBigIntRegular",
  "ff.Element.setBigInt",
  "utils.NewIntFromString",
  "tree.<layout>@babyjub",
  "tree.<layout>@constants",
  "tree.<layout>@ff",
  "tree.<layout>@root",
  "tree.<layout>@utils",
  "babyjub.<decls>@babyjub.go",
  "babyjub.<decls>@eddsa.go",
  "babyjub.<decls>@helpers.go",
  "constants.<decls>@constants.go",
  "ff.<asm>@element_mul_adx_amd64.s",
  "ff.<asm>@element_mul_amd64.s",
  "ff.<asm>@element_ops_amd64.s",
  "ff.<decls>@arith.go",
  "ff.<decls>@asm.go",
  "ff.<decls>@asm_noadx.go",
  "ff.<decls>@doc.go",
  "ff.<decls>@element.go",
  "ff.<decls>@element_ops_amd64.go",
  "ff.<decls>@element_ops_noasm.go",
  "utils.<decls>@utils.go"
]

theorem source_pinned : modelled.all (same I3.Gen.fingerprints) = true := by decide +kernel

theorem function_set_pinned : (["babyjub.", "constants.", "ff.", "utils."] : List String).all (sameKeys I3.Gen.fingerprints) = true := by
  decide +kernel

theorem modelled_nonempty : 34 = modelled.length := by decide

end I3.Props.C04
