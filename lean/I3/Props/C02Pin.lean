/-
  I3.Props.C02 (source pin) — the Go functions mirrored by the hand-written models of C02 still have the
  source text against which those models were validated, and no function was added to or removed
  from their packages.  Regenerated fingerprints: I3.Gen.fingerprints (tools/gen_pins).
-/
import I3.Gen.Fingerprints
import I3.Model.SourcePin
namespace I3.Props.C02
open I3.SourcePin

def modelled : List String := [
  "babyjub.Blake512",
  "babyjub.NewPoint",
  "babyjub.NewPointProjective",
  "babyjub.NewPrivKeyScalar",
  "babyjub.PackSignY",
  "babyjub.Point.Compress",
  "babyjub.Point.Decompress",
  "babyjub.Point.Mul",
  "babyjub.Point.Projective",
  "babyjub.PointCoordSign",
  "babyjub.PointFromSignAndY",
  "babyjub.PointProjective.Add",
  "babyjub.PointProjective.Affine",
  "babyjub.PrivKeyScalar.BigInt",
  "babyjub.PrivKeyScalar.Public",
  "babyjub.PrivateKey.Public",
  "babyjub.PrivateKey.Scalar",
  "babyjub.PrivateKey.SignMimc7",
  "babyjub.PrivateKey.SignPoseidon",
  "babyjub.PublicKey.Point",
  "babyjub.PublicKey.VerifyMimc7",
  "babyjub.PublicKey.VerifyPoseidon",
  "babyjub.Signature.Compress",
  "babyjub.Signature.Decompress",
  "babyjub.SignatureComp.Decompress",
  "babyjub.SkToBigInt",
  "babyjub.UnpackSignY",
  "babyjub.pruneBuffer",
  "utils.BigIntLEBytes",
  "utils.SetBigIntFromLEBytes",
  "utils.SwapEndianness",
  "babyjub.<decls>@babyjub.go",
  "babyjub.<decls>@eddsa.go",
  "babyjub.<decls>@helpers.go",
  "utils.<decls>@utils.go",
  "module.<deps>@go.mod",
  "module.<deps>@go.sum",
  "module.<deps>@vendor"
]

theorem source_pinned : modelled.all (same I3.Gen.fingerprints) = true := by decide +kernel

theorem function_set_pinned : (["babyjub.", "utils."] : List String).all (sameKeys I3.Gen.fingerprints) = true := by
  decide +kernel

theorem modelled_nonempty : 38 = modelled.length := by decide

end I3.Props.C02
