/-
  I3.Props.C17 (write sites) — Tie A for concurrency: the premises of the schedule-independence /
  race-freedom theorems of I3.Props.C17Machine, checked on the write sites regenerated from /repo:
  package-level objects are written only by `init`, every other write goes to an object owned by the
  calling operation (fresh / pool-held / its documented destination), and every pooled object is put
  back on exit, never used after Put and never escapes.
-/
import I3.Gen.Effects
namespace I3.Props.C17
open I3.Policy I3.Gen.Effects

theorem no_global_write_outside_init : ∀ s ∈ sites, noGlobalWriteOutsideInit s = true := by decide +kernel

theorem all_sites_owned : ∀ s ∈ sites, allowed s = true := by decide +kernel

theorem pool_discipline : ∀ p ∈ poolUses, poolOk p = true := by decide +kernel

theorem pool_uses_found : 0 < poolUses.length := by decide +kernel

example : poolOk { pkg := "ff", fn := "SetBytes", line := 0, putKind := "stmt", puts := 1, usesAfterPut := 1, escapes := 0 } = false := by decide
example : poolOk { pkg := "poseidon", fn := "HashWithStateEx", line := 0, putKind := "defer", puts := 2, usesAfterPut := 0, escapes := 0 } = false := by decide
example : noGlobalWriteOutsideInit
    { pkg := "poseidon", fn := "mix", line := 0, kind := "call-writes-recv", what := "scratch.Mul(a, b)", origins := [.global "poseidon.scratch"], exported := false } = false := by
  decide

end I3.Props.C17
