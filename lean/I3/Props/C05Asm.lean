/-
  I3.Props.C05Asm — C05 (BN254 scalar-field arithmetic), the amd64 ASSEMBLY routines of package `ff`.

  Every theorem is about the definitions REGENERATED on every run from /repo/ff/element_ops_amd64.s,
  element_mul_amd64.s and element_mul_adx_amd64.s by the assembly translator (I3.Gen.FFAsm, namespace
  `I3.Gen.FFAsm`), instruction by instruction, with the instruction semantics of I3.Exec.Word
  (`addq`, `adcq` (also ADCX/ADOX on their own flag), `subq`, `sbbq`, `mul64` (MULX), `cmov`).
  An element is four words `x0 … x3 < W = 2^64`, value `val4 x0 x1 x2 x3`, canonical when `< Q`;
  `R = 2^256` is the Montgomery radix, `toF v = v · R⁻¹ : ZMod Q` the represented field element.

  All theorems quantify over ALL canonical operands and over arbitrary initial contents `z0 … z3` of the
  destination.  `mul`/`fromMont` of the default build dispatch at run time on the CPU feature flag
  (`adx = 1`: MULX/ADCX/ADOX code, otherwise the translated portable kernel `_mulGeneric` /
  `_fromMontGeneric`); `mul_adxonly`/`fromMont_adxonly` are the symbols of the `amd64_adx` build.
  Aliasing: each `_zx/_zy/_xy/_zxy` variant (pointer arguments sharing their cells) is shown EQUAL to the
  base routine on the shared cells, and the correctness statements are transferred.
  Helper lemmas: I3.Lemmas.LimbsAsm (and I3.Lemmas.Limbs, I3.Lemmas.LimbsField, tactic I3.Lemmas.LimbTac).
-/
import I3.Lemmas.LimbsAsm
import I3.Lemmas.LimbsField

namespace I3.Props.C05Asm

open I3.Word I3.Gen I3.Limbs

/-! ## 1. element_ops_amd64.s on canonical limbs -/

/-- `add`: canonical representative of `x + y`. -/
theorem asm_add_ok (z0 z1 z2 z3 x0 x1 x2 x3 y0 y1 y2 y3 : Nat)
    (hx0 : x0 < W) (hx1 : x1 < W) (hx2 : x2 < W) (hx3 : x3 < W)
    (hy0 : y0 < W) (hy1 : y1 < W) (hy2 : y2 < W) (hy3 : y3 < W)
    (hx : val4 x0 x1 x2 x3 < Q) (hy : val4 y0 y1 y2 y3 < Q) :
    ∃ r0 r1 r2 r3, FFAsm.add z0 z1 z2 z3 x0 x1 x2 x3 y0 y1 y2 y3 = (r0, r1, r2, r3) ∧
      r0 < W ∧ r1 < W ∧ r2 < W ∧ r3 < W ∧
      val4 r0 r1 r2 r3 = (val4 x0 x1 x2 x3 + val4 y0 y1 y2 y3) % Q :=
  I3.LimbsAsm.asm_add_ok z0 z1 z2 z3 x0 x1 x2 x3 y0 y1 y2 y3 hx0 hx1 hx2 hx3 hy0 hy1 hy2 hy3 hx hy

/-- `sub`: canonical representative of `x − y`. -/
theorem asm_sub_ok (z0 z1 z2 z3 x0 x1 x2 x3 y0 y1 y2 y3 : Nat)
    (hx0 : x0 < W) (hx1 : x1 < W) (hx2 : x2 < W) (hx3 : x3 < W)
    (hy0 : y0 < W) (hy1 : y1 < W) (hy2 : y2 < W) (hy3 : y3 < W)
    (hx : val4 x0 x1 x2 x3 < Q) (hy : val4 y0 y1 y2 y3 < Q) :
    ∃ r0 r1 r2 r3, FFAsm.sub z0 z1 z2 z3 x0 x1 x2 x3 y0 y1 y2 y3 = (r0, r1, r2, r3) ∧
      r0 < W ∧ r1 < W ∧ r2 < W ∧ r3 < W ∧
      val4 r0 r1 r2 r3 = (val4 x0 x1 x2 x3 + (Q - val4 y0 y1 y2 y3)) % Q :=
  I3.LimbsAsm.asm_sub_ok z0 z1 z2 z3 x0 x1 x2 x3 y0 y1 y2 y3 hx0 hx1 hx2 hx3 hy0 hy1 hy2 hy3 hx hy

/-- `double`: canonical representative of `2x`. -/
theorem asm_double_ok (z0 z1 z2 z3 x0 x1 x2 x3 : Nat)
    (hx0 : x0 < W) (hx1 : x1 < W) (hx2 : x2 < W) (hx3 : x3 < W) (hx : val4 x0 x1 x2 x3 < Q) :
    ∃ r0 r1 r2 r3, FFAsm.double z0 z1 z2 z3 x0 x1 x2 x3 = (r0, r1, r2, r3) ∧
      r0 < W ∧ r1 < W ∧ r2 < W ∧ r3 < W ∧
      val4 r0 r1 r2 r3 = (2 * val4 x0 x1 x2 x3) % Q :=
  I3.LimbsAsm.asm_double_ok z0 z1 z2 z3 x0 x1 x2 x3 hx0 hx1 hx2 hx3 hx

/-- `neg`: canonical representative of `−x` (in particular `−0 = 0`, not `q`). -/
theorem asm_neg_ok (z0 z1 z2 z3 x0 x1 x2 x3 : Nat)
    (hx0 : x0 < W) (hx1 : x1 < W) (hx2 : x2 < W) (hx3 : x3 < W) (hx : val4 x0 x1 x2 x3 < Q) :
    ∃ r0 r1 r2 r3, FFAsm.neg z0 z1 z2 z3 x0 x1 x2 x3 = (r0, r1, r2, r3) ∧
      r0 < W ∧ r1 < W ∧ r2 < W ∧ r3 < W ∧
      val4 r0 r1 r2 r3 = (Q - val4 x0 x1 x2 x3) % Q :=
  I3.LimbsAsm.asm_neg_ok z0 z1 z2 z3 x0 x1 x2 x3 hx0 hx1 hx2 hx3 hx

/-- `reduce` (in place; the REDUCE macro used by every routine): one conditional subtraction
canonicalises everything below `2q`. -/
theorem asm_reduce_ok (z0 z1 z2 z3 : Nat)
    (hz0 : z0 < W) (hz1 : z1 < W) (hz2 : z2 < W) (hz3 : z3 < W) (h : val4 z0 z1 z2 z3 < 2 * Q) :
    ∃ r0 r1 r2 r3, FFAsm.reduce z0 z1 z2 z3 = (r0, r1, r2, r3) ∧
      r0 < W ∧ r1 < W ∧ r2 < W ∧ r3 < W ∧ val4 r0 r1 r2 r3 = val4 z0 z1 z2 z3 % Q :=
  I3.LimbsAsm.asm_reduce_ok z0 z1 z2 z3 hz0 hz1 hz2 hz3 h

/-- `MulBy3` (in place). -/
theorem asm_mulBy3_ok (x0 x1 x2 x3 : Nat)
    (hx0 : x0 < W) (hx1 : x1 < W) (hx2 : x2 < W) (hx3 : x3 < W) (hx : val4 x0 x1 x2 x3 < Q) :
    ∃ r0 r1 r2 r3, FFAsm.MulBy3 x0 x1 x2 x3 = (r0, r1, r2, r3) ∧
      r0 < W ∧ r1 < W ∧ r2 < W ∧ r3 < W ∧ val4 r0 r1 r2 r3 = (3 * val4 x0 x1 x2 x3) % Q :=
  I3.LimbsAsm.asm_mulBy3_ok x0 x1 x2 x3 hx0 hx1 hx2 hx3 hx

/-- `MulBy5` (in place). -/
theorem asm_mulBy5_ok (x0 x1 x2 x3 : Nat)
    (hx0 : x0 < W) (hx1 : x1 < W) (hx2 : x2 < W) (hx3 : x3 < W) (hx : val4 x0 x1 x2 x3 < Q) :
    ∃ r0 r1 r2 r3, FFAsm.MulBy5 x0 x1 x2 x3 = (r0, r1, r2, r3) ∧
      r0 < W ∧ r1 < W ∧ r2 < W ∧ r3 < W ∧ val4 r0 r1 r2 r3 = (5 * val4 x0 x1 x2 x3) % Q :=
  I3.LimbsAsm.asm_mulBy5_ok x0 x1 x2 x3 hx0 hx1 hx2 hx3 hx

/-- `MulBy13` (in place). -/
theorem asm_mulBy13_ok (x0 x1 x2 x3 : Nat)
    (hx0 : x0 < W) (hx1 : x1 < W) (hx2 : x2 < W) (hx3 : x3 < W) (hx : val4 x0 x1 x2 x3 < Q) :
    ∃ r0 r1 r2 r3, FFAsm.MulBy13 x0 x1 x2 x3 = (r0, r1, r2, r3) ∧
      r0 < W ∧ r1 < W ∧ r2 < W ∧ r3 < W ∧ val4 r0 r1 r2 r3 = (13 * val4 x0 x1 x2 x3) % Q :=
  I3.LimbsAsm.asm_mulBy13_ok x0 x1 x2 x3 hx0 hx1 hx2 hx3 hx

/-- `Butterfly` (in place): `(a, b) ↦ (a + b, a − b)`. -/
theorem asm_butterfly_ok (a0 a1 a2 a3 b0 b1 b2 b3 : Nat)
    (ha0 : a0 < W) (ha1 : a1 < W) (ha2 : a2 < W) (ha3 : a3 < W)
    (hb0 : b0 < W) (hb1 : b1 < W) (hb2 : b2 < W) (hb3 : b3 < W)
    (ha : val4 a0 a1 a2 a3 < Q) (hb : val4 b0 b1 b2 b3 < Q) :
    ∃ r0 r1 r2 r3 s0 s1 s2 s3,
      FFAsm.Butterfly a0 a1 a2 a3 b0 b1 b2 b3 = (r0, r1, r2, r3, s0, s1, s2, s3) ∧
      r0 < W ∧ r1 < W ∧ r2 < W ∧ r3 < W ∧ s0 < W ∧ s1 < W ∧ s2 < W ∧ s3 < W ∧
      val4 r0 r1 r2 r3 = (val4 a0 a1 a2 a3 + val4 b0 b1 b2 b3) % Q ∧
      val4 s0 s1 s2 s3 = (val4 a0 a1 a2 a3 + (Q - val4 b0 b1 b2 b3)) % Q :=
  I3.LimbsAsm.asm_butterfly_ok a0 a1 a2 a3 b0 b1 b2 b3 ha0 ha1 ha2 ha3 hb0 hb1 hb2 hb3 ha hb

/-! ## 2. Montgomery multiplication and `fromMont` (element_mul_amd64.s, element_mul_adx_amd64.s) -/

/-- without ADX the run-time dispatch of `mul` IS the translated portable kernel `_mulGeneric`
(proved correct in I3.Props.C05). -/
theorem asm_mul_noadx_eq (adx : Nat) (h : adx ≠ 1) (z0 z1 z2 z3 x0 x1 x2 x3 y0 y1 y2 y3 : Nat) :
    FFAsm.mul adx z0 z1 z2 z3 x0 x1 x2 x3 y0 y1 y2 y3 = FF.mulGeneric z0 z1 z2 z3 x0 x1 x2 x3 y0 y1 y2 y3 :=
  I3.LimbsAsm.mul_noadx adx h z0 z1 z2 z3 x0 x1 x2 x3 y0 y1 y2 y3

/-- without ADX the run-time dispatch of `fromMont` IS the translated portable `_fromMontGeneric`. -/
theorem asm_fromMont_noadx_eq (adx : Nat) (h : adx ≠ 1) (z0 z1 z2 z3 : Nat) :
    FFAsm.fromMont adx z0 z1 z2 z3 = FF.fromMontGeneric z0 z1 z2 z3 :=
  I3.LimbsAsm.fromMont_noadx adx h z0 z1 z2 z3

/-- with ADX the default build and the `amd64_adx` build run the same instructions. -/
theorem asm_mul_adx_eq_adxonly (z0 z1 z2 z3 x0 x1 x2 x3 y0 y1 y2 y3 : Nat) :
    FFAsm.mul 1 z0 z1 z2 z3 x0 x1 x2 x3 y0 y1 y2 y3 = FFAsm.mul_adxonly z0 z1 z2 z3 x0 x1 x2 x3 y0 y1 y2 y3 :=
  I3.LimbsAsm.mul_adx1_eq_adxonly z0 z1 z2 z3 x0 x1 x2 x3 y0 y1 y2 y3
theorem asm_fromMont_adx_eq_adxonly (z0 z1 z2 z3 : Nat) :
    FFAsm.fromMont 1 z0 z1 z2 z3 = FFAsm.fromMont_adxonly z0 z1 z2 z3 :=
  I3.LimbsAsm.fromMont_adx1_eq_adxonly z0 z1 z2 z3

/-- `mul`, WHATEVER the CPU feature flag (`adx = 1`: MULX/ADCX/ADOX code; otherwise the portable
kernel): canonical `r` with `r·R ≡ x·y (mod q)`. -/
theorem asm_mul_ok (adx z0 z1 z2 z3 x0 x1 x2 x3 y0 y1 y2 y3 : Nat)
    (hx0 : x0 < W) (hx1 : x1 < W) (hx2 : x2 < W) (hx3 : x3 < W)
    (hy0 : y0 < W) (hy1 : y1 < W) (hy2 : y2 < W) (hy3 : y3 < W)
    (hx : val4 x0 x1 x2 x3 < Q) (hy : val4 y0 y1 y2 y3 < Q) :
    ∃ r0 r1 r2 r3, FFAsm.mul adx z0 z1 z2 z3 x0 x1 x2 x3 y0 y1 y2 y3 = (r0, r1, r2, r3) ∧
      r0 < W ∧ r1 < W ∧ r2 < W ∧ r3 < W ∧ val4 r0 r1 r2 r3 < Q ∧
      (val4 r0 r1 r2 r3 * R) % Q = (val4 x0 x1 x2 x3 * val4 y0 y1 y2 y3) % Q :=
  I3.LimbsAsm.asm_mul_ok adx z0 z1 z2 z3 x0 x1 x2 x3 y0 y1 y2 y3 hx0 hx1 hx2 hx3 hy0 hy1 hy2 hy3 hx hy

/-- `mul` on a CPU with ADX: the MULX/ADCX/ADOX code. -/
theorem asm_mul_adx_ok (z0 z1 z2 z3 x0 x1 x2 x3 y0 y1 y2 y3 : Nat)
    (hx0 : x0 < W) (hx1 : x1 < W) (hx2 : x2 < W) (hx3 : x3 < W)
    (hy0 : y0 < W) (hy1 : y1 < W) (hy2 : y2 < W) (hy3 : y3 < W)
    (hx : val4 x0 x1 x2 x3 < Q) (_hy : val4 y0 y1 y2 y3 < Q) :
    ∃ r0 r1 r2 r3, FFAsm.mul 1 z0 z1 z2 z3 x0 x1 x2 x3 y0 y1 y2 y3 = (r0, r1, r2, r3) ∧
      r0 < W ∧ r1 < W ∧ r2 < W ∧ r3 < W ∧ val4 r0 r1 r2 r3 < Q ∧
      (val4 r0 r1 r2 r3 * R) % Q = (val4 x0 x1 x2 x3 * val4 y0 y1 y2 y3) % Q :=
  I3.LimbsAsm.asm_mul_adx_ok' z0 z1 z2 z3 x0 x1 x2 x3 y0 y1 y2 y3 hx0 hx1 hx2 hx3 hy0 hy1 hy2 hy3 hx

/-- the MULX/ADCX/ADOX code needs only `x` canonical: `y` may be ANY four words (the invariant
`t < 2q` of the rounds `t := (t + x·y_i + m·q)/W` does not depend on `y`). -/
theorem asm_mul_adx_ok_any_right (z0 z1 z2 z3 x0 x1 x2 x3 y0 y1 y2 y3 : Nat)
    (hx0 : x0 < W) (hx1 : x1 < W) (hx2 : x2 < W) (hx3 : x3 < W)
    (hy0 : y0 < W) (hy1 : y1 < W) (hy2 : y2 < W) (hy3 : y3 < W)
    (hx : val4 x0 x1 x2 x3 < Q) :
    ∃ r0 r1 r2 r3, FFAsm.mul 1 z0 z1 z2 z3 x0 x1 x2 x3 y0 y1 y2 y3 = (r0, r1, r2, r3) ∧
      r0 < W ∧ r1 < W ∧ r2 < W ∧ r3 < W ∧ val4 r0 r1 r2 r3 < Q ∧
      (val4 r0 r1 r2 r3 * R) % Q = (val4 x0 x1 x2 x3 * val4 y0 y1 y2 y3) % Q :=
  I3.LimbsAsm.asm_mul_adx_ok' z0 z1 z2 z3 x0 x1 x2 x3 y0 y1 y2 y3 hx0 hx1 hx2 hx3 hy0 hy1 hy2 hy3 hx

/-- `mul` of the `amd64_adx` build. -/
theorem asm_mul_adxonly_ok (z0 z1 z2 z3 x0 x1 x2 x3 y0 y1 y2 y3 : Nat)
    (hx0 : x0 < W) (hx1 : x1 < W) (hx2 : x2 < W) (hx3 : x3 < W)
    (hy0 : y0 < W) (hy1 : y1 < W) (hy2 : y2 < W) (hy3 : y3 < W)
    (hx : val4 x0 x1 x2 x3 < Q) (_hy : val4 y0 y1 y2 y3 < Q) :
    ∃ r0 r1 r2 r3, FFAsm.mul_adxonly z0 z1 z2 z3 x0 x1 x2 x3 y0 y1 y2 y3 = (r0, r1, r2, r3) ∧
      r0 < W ∧ r1 < W ∧ r2 < W ∧ r3 < W ∧ val4 r0 r1 r2 r3 < Q ∧
      (val4 r0 r1 r2 r3 * R) % Q = (val4 x0 x1 x2 x3 * val4 y0 y1 y2 y3) % Q :=
  I3.LimbsAsm.asm_mul_adxonly_ok' z0 z1 z2 z3 x0 x1 x2 x3 y0 y1 y2 y3 hx0 hx1 hx2 hx3 hy0 hy1 hy2 hy3 hx

theorem asm_mul_adxonly_ok_any_right (z0 z1 z2 z3 x0 x1 x2 x3 y0 y1 y2 y3 : Nat)
    (hx0 : x0 < W) (hx1 : x1 < W) (hx2 : x2 < W) (hx3 : x3 < W)
    (hy0 : y0 < W) (hy1 : y1 < W) (hy2 : y2 < W) (hy3 : y3 < W)
    (hx : val4 x0 x1 x2 x3 < Q) :
    ∃ r0 r1 r2 r3, FFAsm.mul_adxonly z0 z1 z2 z3 x0 x1 x2 x3 y0 y1 y2 y3 = (r0, r1, r2, r3) ∧
      r0 < W ∧ r1 < W ∧ r2 < W ∧ r3 < W ∧ val4 r0 r1 r2 r3 < Q ∧
      (val4 r0 r1 r2 r3 * R) % Q = (val4 x0 x1 x2 x3 * val4 y0 y1 y2 y3) % Q :=
  I3.LimbsAsm.asm_mul_adxonly_ok' z0 z1 z2 z3 x0 x1 x2 x3 y0 y1 y2 y3 hx0 hx1 hx2 hx3 hy0 hy1 hy2 hy3 hx

/-- `fromMont` (in place), WHATEVER the CPU feature flag: canonical `r` with `r·R ≡ z (mod q)`. -/
theorem asm_fromMont_ok (adx z0 z1 z2 z3 : Nat)
    (hz0 : z0 < W) (hz1 : z1 < W) (hz2 : z2 < W) (hz3 : z3 < W) (_hz : val4 z0 z1 z2 z3 < Q) :
    ∃ r0 r1 r2 r3, FFAsm.fromMont adx z0 z1 z2 z3 = (r0, r1, r2, r3) ∧
      r0 < W ∧ r1 < W ∧ r2 < W ∧ r3 < W ∧ val4 r0 r1 r2 r3 < Q ∧
      (val4 r0 r1 r2 r3 * R) % Q = val4 z0 z1 z2 z3 % Q :=
  I3.LimbsAsm.asm_fromMont_ok adx z0 z1 z2 z3 hz0 hz1 hz2 hz3

/-- … and for ANY four words `z`. -/
theorem asm_fromMont_ok_any (adx z0 z1 z2 z3 : Nat)
    (hz0 : z0 < W) (hz1 : z1 < W) (hz2 : z2 < W) (hz3 : z3 < W) :
    ∃ r0 r1 r2 r3, FFAsm.fromMont adx z0 z1 z2 z3 = (r0, r1, r2, r3) ∧
      r0 < W ∧ r1 < W ∧ r2 < W ∧ r3 < W ∧ val4 r0 r1 r2 r3 < Q ∧
      (val4 r0 r1 r2 r3 * R) % Q = val4 z0 z1 z2 z3 % Q :=
  I3.LimbsAsm.asm_fromMont_ok adx z0 z1 z2 z3 hz0 hz1 hz2 hz3

/-- `fromMont` of the `amd64_adx` build. -/
theorem asm_fromMont_adxonly_ok (z0 z1 z2 z3 : Nat)
    (hz0 : z0 < W) (hz1 : z1 < W) (hz2 : z2 < W) (hz3 : z3 < W) (_hz : val4 z0 z1 z2 z3 < Q) :
    ∃ r0 r1 r2 r3, FFAsm.fromMont_adxonly z0 z1 z2 z3 = (r0, r1, r2, r3) ∧
      r0 < W ∧ r1 < W ∧ r2 < W ∧ r3 < W ∧ val4 r0 r1 r2 r3 < Q ∧
      (val4 r0 r1 r2 r3 * R) % Q = val4 z0 z1 z2 z3 % Q :=
  I3.LimbsAsm.asm_fromMont_adxonly_ok z0 z1 z2 z3 hz0 hz1 hz2 hz3

theorem asm_fromMont_adxonly_ok_any (z0 z1 z2 z3 : Nat)
    (hz0 : z0 < W) (hz1 : z1 < W) (hz2 : z2 < W) (hz3 : z3 < W) :
    ∃ r0 r1 r2 r3, FFAsm.fromMont_adxonly z0 z1 z2 z3 = (r0, r1, r2, r3) ∧
      r0 < W ∧ r1 < W ∧ r2 < W ∧ r3 < W ∧ val4 r0 r1 r2 r3 < Q ∧
      (val4 r0 r1 r2 r3 * R) % Q = val4 z0 z1 z2 z3 % Q :=
  I3.LimbsAsm.asm_fromMont_adxonly_ok z0 z1 z2 z3 hz0 hz1 hz2 hz3

/-! ## 3. aliasing: pointer arguments that share their cells

`f_zx z y` is the translation of `f(z, z, y)` (`res` and `x` the same object), `f_zy z x` of `f(z, x, z)`,
`f_xy z x` of `f(z, x, x)` and `f_zxy z` of `f(z, z, z)`.  Each equals the base routine applied to the
shared cells, whatever the (irrelevant) initial destination `a` of the base routine is: the assembly
loads every operand limb into registers before it stores the first result limb. -/

theorem add_zx (a0 a1 a2 a3 z0 z1 z2 z3 y0 y1 y2 y3 : Nat) :
    FFAsm.add_zx z0 z1 z2 z3 y0 y1 y2 y3 = FFAsm.add a0 a1 a2 a3 z0 z1 z2 z3 y0 y1 y2 y3 :=
  I3.LimbsAsm.add_zx a0 a1 a2 a3 z0 z1 z2 z3 y0 y1 y2 y3
theorem add_zy (a0 a1 a2 a3 z0 z1 z2 z3 x0 x1 x2 x3 : Nat) :
    FFAsm.add_zy z0 z1 z2 z3 x0 x1 x2 x3 = FFAsm.add a0 a1 a2 a3 x0 x1 x2 x3 z0 z1 z2 z3 :=
  I3.LimbsAsm.add_zy a0 a1 a2 a3 z0 z1 z2 z3 x0 x1 x2 x3
theorem add_xy (z0 z1 z2 z3 x0 x1 x2 x3 : Nat) :
    FFAsm.add_xy z0 z1 z2 z3 x0 x1 x2 x3 = FFAsm.add z0 z1 z2 z3 x0 x1 x2 x3 x0 x1 x2 x3 :=
  I3.LimbsAsm.add_xy z0 z1 z2 z3 x0 x1 x2 x3
theorem add_zxy (a0 a1 a2 a3 z0 z1 z2 z3 : Nat) :
    FFAsm.add_zxy z0 z1 z2 z3 = FFAsm.add a0 a1 a2 a3 z0 z1 z2 z3 z0 z1 z2 z3 :=
  I3.LimbsAsm.add_zxy a0 a1 a2 a3 z0 z1 z2 z3
theorem sub_zx (a0 a1 a2 a3 z0 z1 z2 z3 y0 y1 y2 y3 : Nat) :
    FFAsm.sub_zx z0 z1 z2 z3 y0 y1 y2 y3 = FFAsm.sub a0 a1 a2 a3 z0 z1 z2 z3 y0 y1 y2 y3 :=
  I3.LimbsAsm.sub_zx a0 a1 a2 a3 z0 z1 z2 z3 y0 y1 y2 y3
theorem sub_zy (a0 a1 a2 a3 z0 z1 z2 z3 x0 x1 x2 x3 : Nat) :
    FFAsm.sub_zy z0 z1 z2 z3 x0 x1 x2 x3 = FFAsm.sub a0 a1 a2 a3 x0 x1 x2 x3 z0 z1 z2 z3 :=
  I3.LimbsAsm.sub_zy a0 a1 a2 a3 z0 z1 z2 z3 x0 x1 x2 x3
theorem sub_xy (z0 z1 z2 z3 x0 x1 x2 x3 : Nat) :
    FFAsm.sub_xy z0 z1 z2 z3 x0 x1 x2 x3 = FFAsm.sub z0 z1 z2 z3 x0 x1 x2 x3 x0 x1 x2 x3 :=
  I3.LimbsAsm.sub_xy z0 z1 z2 z3 x0 x1 x2 x3
theorem sub_zxy (a0 a1 a2 a3 z0 z1 z2 z3 : Nat) :
    FFAsm.sub_zxy z0 z1 z2 z3 = FFAsm.sub a0 a1 a2 a3 z0 z1 z2 z3 z0 z1 z2 z3 :=
  I3.LimbsAsm.sub_zxy a0 a1 a2 a3 z0 z1 z2 z3
theorem double_zx (a0 a1 a2 a3 z0 z1 z2 z3 : Nat) :
    FFAsm.double_zx z0 z1 z2 z3 = FFAsm.double a0 a1 a2 a3 z0 z1 z2 z3 :=
  I3.LimbsAsm.double_zx a0 a1 a2 a3 z0 z1 z2 z3
theorem neg_zx (a0 a1 a2 a3 z0 z1 z2 z3 : Nat) :
    FFAsm.neg_zx z0 z1 z2 z3 = FFAsm.neg a0 a1 a2 a3 z0 z1 z2 z3 :=
  I3.LimbsAsm.neg_zx a0 a1 a2 a3 z0 z1 z2 z3
theorem mul_zx (adx a0 a1 a2 a3 z0 z1 z2 z3 y0 y1 y2 y3 : Nat) :
    FFAsm.mul_zx adx z0 z1 z2 z3 y0 y1 y2 y3 = FFAsm.mul adx a0 a1 a2 a3 z0 z1 z2 z3 y0 y1 y2 y3 :=
  I3.LimbsAsm.mul_zx adx a0 a1 a2 a3 z0 z1 z2 z3 y0 y1 y2 y3
theorem mul_zy (adx a0 a1 a2 a3 z0 z1 z2 z3 x0 x1 x2 x3 : Nat) :
    FFAsm.mul_zy adx z0 z1 z2 z3 x0 x1 x2 x3 = FFAsm.mul adx a0 a1 a2 a3 x0 x1 x2 x3 z0 z1 z2 z3 :=
  I3.LimbsAsm.mul_zy adx a0 a1 a2 a3 z0 z1 z2 z3 x0 x1 x2 x3
theorem mul_xy (adx z0 z1 z2 z3 x0 x1 x2 x3 : Nat) :
    FFAsm.mul_xy adx z0 z1 z2 z3 x0 x1 x2 x3 = FFAsm.mul adx z0 z1 z2 z3 x0 x1 x2 x3 x0 x1 x2 x3 :=
  I3.LimbsAsm.mul_xy adx z0 z1 z2 z3 x0 x1 x2 x3
theorem mul_zxy (adx a0 a1 a2 a3 z0 z1 z2 z3 : Nat) :
    FFAsm.mul_zxy adx z0 z1 z2 z3 = FFAsm.mul adx a0 a1 a2 a3 z0 z1 z2 z3 z0 z1 z2 z3 :=
  I3.LimbsAsm.mul_zxy adx a0 a1 a2 a3 z0 z1 z2 z3
theorem mul_adxonly_zx (a0 a1 a2 a3 z0 z1 z2 z3 y0 y1 y2 y3 : Nat) :
    FFAsm.mul_adxonly_zx z0 z1 z2 z3 y0 y1 y2 y3 = FFAsm.mul_adxonly a0 a1 a2 a3 z0 z1 z2 z3 y0 y1 y2 y3 :=
  I3.LimbsAsm.mul_adxonly_zx a0 a1 a2 a3 z0 z1 z2 z3 y0 y1 y2 y3
theorem mul_adxonly_zy (a0 a1 a2 a3 z0 z1 z2 z3 x0 x1 x2 x3 : Nat) :
    FFAsm.mul_adxonly_zy z0 z1 z2 z3 x0 x1 x2 x3 = FFAsm.mul_adxonly a0 a1 a2 a3 x0 x1 x2 x3 z0 z1 z2 z3 :=
  I3.LimbsAsm.mul_adxonly_zy a0 a1 a2 a3 z0 z1 z2 z3 x0 x1 x2 x3
theorem mul_adxonly_xy (z0 z1 z2 z3 x0 x1 x2 x3 : Nat) :
    FFAsm.mul_adxonly_xy z0 z1 z2 z3 x0 x1 x2 x3 = FFAsm.mul_adxonly z0 z1 z2 z3 x0 x1 x2 x3 x0 x1 x2 x3 :=
  I3.LimbsAsm.mul_adxonly_xy z0 z1 z2 z3 x0 x1 x2 x3
theorem mul_adxonly_zxy (a0 a1 a2 a3 z0 z1 z2 z3 : Nat) :
    FFAsm.mul_adxonly_zxy z0 z1 z2 z3 = FFAsm.mul_adxonly a0 a1 a2 a3 z0 z1 z2 z3 z0 z1 z2 z3 :=
  I3.LimbsAsm.mul_adxonly_zxy a0 a1 a2 a3 z0 z1 z2 z3

/-! ### the correctness statements transferred to the aliased calls -/

/-- `z.Add(z, y)`. -/
theorem asm_add_zx_ok (z0 z1 z2 z3 y0 y1 y2 y3 : Nat)
    (hz0 : z0 < W) (hz1 : z1 < W) (hz2 : z2 < W) (hz3 : z3 < W)
    (hy0 : y0 < W) (hy1 : y1 < W) (hy2 : y2 < W) (hy3 : y3 < W)
    (hz : val4 z0 z1 z2 z3 < Q) (hy : val4 y0 y1 y2 y3 < Q) :
    ∃ r0 r1 r2 r3, FFAsm.add_zx z0 z1 z2 z3 y0 y1 y2 y3 = (r0, r1, r2, r3) ∧
      r0 < W ∧ r1 < W ∧ r2 < W ∧ r3 < W ∧
      val4 r0 r1 r2 r3 = (val4 z0 z1 z2 z3 + val4 y0 y1 y2 y3) % Q := by
  rw [add_zx 0 0 0 0]; exact asm_add_ok _ _ _ _ _ _ _ _ _ _ _ _ hz0 hz1 hz2 hz3 hy0 hy1 hy2 hy3 hz hy

/-- `z.Add(x, z)`. -/
theorem asm_add_zy_ok (z0 z1 z2 z3 x0 x1 x2 x3 : Nat)
    (hz0 : z0 < W) (hz1 : z1 < W) (hz2 : z2 < W) (hz3 : z3 < W)
    (hx0 : x0 < W) (hx1 : x1 < W) (hx2 : x2 < W) (hx3 : x3 < W)
    (hz : val4 z0 z1 z2 z3 < Q) (hx : val4 x0 x1 x2 x3 < Q) :
    ∃ r0 r1 r2 r3, FFAsm.add_zy z0 z1 z2 z3 x0 x1 x2 x3 = (r0, r1, r2, r3) ∧
      r0 < W ∧ r1 < W ∧ r2 < W ∧ r3 < W ∧
      val4 r0 r1 r2 r3 = (val4 x0 x1 x2 x3 + val4 z0 z1 z2 z3) % Q := by
  rw [add_zy 0 0 0 0]; exact asm_add_ok _ _ _ _ _ _ _ _ _ _ _ _ hx0 hx1 hx2 hx3 hz0 hz1 hz2 hz3 hx hz

/-- `z.Add(x, x)`. -/
theorem asm_add_xy_ok (z0 z1 z2 z3 x0 x1 x2 x3 : Nat)
    (hx0 : x0 < W) (hx1 : x1 < W) (hx2 : x2 < W) (hx3 : x3 < W) (hx : val4 x0 x1 x2 x3 < Q) :
    ∃ r0 r1 r2 r3, FFAsm.add_xy z0 z1 z2 z3 x0 x1 x2 x3 = (r0, r1, r2, r3) ∧
      r0 < W ∧ r1 < W ∧ r2 < W ∧ r3 < W ∧
      val4 r0 r1 r2 r3 = (val4 x0 x1 x2 x3 + val4 x0 x1 x2 x3) % Q := by
  rw [add_xy]; exact asm_add_ok _ _ _ _ _ _ _ _ _ _ _ _ hx0 hx1 hx2 hx3 hx0 hx1 hx2 hx3 hx hx

/-- `z.Add(z, z)`. -/
theorem asm_add_zxy_ok (z0 z1 z2 z3 : Nat)
    (hz0 : z0 < W) (hz1 : z1 < W) (hz2 : z2 < W) (hz3 : z3 < W) (hz : val4 z0 z1 z2 z3 < Q) :
    ∃ r0 r1 r2 r3, FFAsm.add_zxy z0 z1 z2 z3 = (r0, r1, r2, r3) ∧
      r0 < W ∧ r1 < W ∧ r2 < W ∧ r3 < W ∧
      val4 r0 r1 r2 r3 = (val4 z0 z1 z2 z3 + val4 z0 z1 z2 z3) % Q := by
  rw [add_zxy 0 0 0 0]; exact asm_add_ok _ _ _ _ _ _ _ _ _ _ _ _ hz0 hz1 hz2 hz3 hz0 hz1 hz2 hz3 hz hz

/-- `z.Sub(z, y)`. -/
theorem asm_sub_zx_ok (z0 z1 z2 z3 y0 y1 y2 y3 : Nat)
    (hz0 : z0 < W) (hz1 : z1 < W) (hz2 : z2 < W) (hz3 : z3 < W)
    (hy0 : y0 < W) (hy1 : y1 < W) (hy2 : y2 < W) (hy3 : y3 < W)
    (hz : val4 z0 z1 z2 z3 < Q) (hy : val4 y0 y1 y2 y3 < Q) :
    ∃ r0 r1 r2 r3, FFAsm.sub_zx z0 z1 z2 z3 y0 y1 y2 y3 = (r0, r1, r2, r3) ∧
      r0 < W ∧ r1 < W ∧ r2 < W ∧ r3 < W ∧
      val4 r0 r1 r2 r3 = (val4 z0 z1 z2 z3 + (Q - val4 y0 y1 y2 y3)) % Q := by
  rw [sub_zx 0 0 0 0]; exact asm_sub_ok _ _ _ _ _ _ _ _ _ _ _ _ hz0 hz1 hz2 hz3 hy0 hy1 hy2 hy3 hz hy

/-- `z.Sub(x, z)`. -/
theorem asm_sub_zy_ok (z0 z1 z2 z3 x0 x1 x2 x3 : Nat)
    (hz0 : z0 < W) (hz1 : z1 < W) (hz2 : z2 < W) (hz3 : z3 < W)
    (hx0 : x0 < W) (hx1 : x1 < W) (hx2 : x2 < W) (hx3 : x3 < W)
    (hz : val4 z0 z1 z2 z3 < Q) (hx : val4 x0 x1 x2 x3 < Q) :
    ∃ r0 r1 r2 r3, FFAsm.sub_zy z0 z1 z2 z3 x0 x1 x2 x3 = (r0, r1, r2, r3) ∧
      r0 < W ∧ r1 < W ∧ r2 < W ∧ r3 < W ∧
      val4 r0 r1 r2 r3 = (val4 x0 x1 x2 x3 + (Q - val4 z0 z1 z2 z3)) % Q := by
  rw [sub_zy 0 0 0 0]; exact asm_sub_ok _ _ _ _ _ _ _ _ _ _ _ _ hx0 hx1 hx2 hx3 hz0 hz1 hz2 hz3 hx hz

/-- `z.Sub(x, x)`. -/
theorem asm_sub_xy_ok (z0 z1 z2 z3 x0 x1 x2 x3 : Nat)
    (hx0 : x0 < W) (hx1 : x1 < W) (hx2 : x2 < W) (hx3 : x3 < W) (hx : val4 x0 x1 x2 x3 < Q) :
    ∃ r0 r1 r2 r3, FFAsm.sub_xy z0 z1 z2 z3 x0 x1 x2 x3 = (r0, r1, r2, r3) ∧
      r0 < W ∧ r1 < W ∧ r2 < W ∧ r3 < W ∧
      val4 r0 r1 r2 r3 = (val4 x0 x1 x2 x3 + (Q - val4 x0 x1 x2 x3)) % Q := by
  rw [sub_xy]; exact asm_sub_ok _ _ _ _ _ _ _ _ _ _ _ _ hx0 hx1 hx2 hx3 hx0 hx1 hx2 hx3 hx hx

/-- `z.Sub(z, z)`. -/
theorem asm_sub_zxy_ok (z0 z1 z2 z3 : Nat)
    (hz0 : z0 < W) (hz1 : z1 < W) (hz2 : z2 < W) (hz3 : z3 < W) (hz : val4 z0 z1 z2 z3 < Q) :
    ∃ r0 r1 r2 r3, FFAsm.sub_zxy z0 z1 z2 z3 = (r0, r1, r2, r3) ∧
      r0 < W ∧ r1 < W ∧ r2 < W ∧ r3 < W ∧
      val4 r0 r1 r2 r3 = (val4 z0 z1 z2 z3 + (Q - val4 z0 z1 z2 z3)) % Q := by
  rw [sub_zxy 0 0 0 0]; exact asm_sub_ok _ _ _ _ _ _ _ _ _ _ _ _ hz0 hz1 hz2 hz3 hz0 hz1 hz2 hz3 hz hz

/-- `z.Double(z)`. -/
theorem asm_double_zx_ok (z0 z1 z2 z3 : Nat)
    (hz0 : z0 < W) (hz1 : z1 < W) (hz2 : z2 < W) (hz3 : z3 < W) (hz : val4 z0 z1 z2 z3 < Q) :
    ∃ r0 r1 r2 r3, FFAsm.double_zx z0 z1 z2 z3 = (r0, r1, r2, r3) ∧
      r0 < W ∧ r1 < W ∧ r2 < W ∧ r3 < W ∧
      val4 r0 r1 r2 r3 = (2 * val4 z0 z1 z2 z3) % Q := by
  rw [double_zx 0 0 0 0]; exact asm_double_ok _ _ _ _ _ _ _ _ hz0 hz1 hz2 hz3 hz

/-- `z.Neg(z)`. -/
theorem asm_neg_zx_ok (z0 z1 z2 z3 : Nat)
    (hz0 : z0 < W) (hz1 : z1 < W) (hz2 : z2 < W) (hz3 : z3 < W) (hz : val4 z0 z1 z2 z3 < Q) :
    ∃ r0 r1 r2 r3, FFAsm.neg_zx z0 z1 z2 z3 = (r0, r1, r2, r3) ∧
      r0 < W ∧ r1 < W ∧ r2 < W ∧ r3 < W ∧
      val4 r0 r1 r2 r3 = (Q - val4 z0 z1 z2 z3) % Q := by
  rw [neg_zx 0 0 0 0]; exact asm_neg_ok _ _ _ _ _ _ _ _ hz0 hz1 hz2 hz3 hz

/-- `z.Mul(z, y)` (`mul`, any CPU flag). -/
theorem asm_mul_zx_ok (adx z0 z1 z2 z3 y0 y1 y2 y3 : Nat)
    (hz0 : z0 < W) (hz1 : z1 < W) (hz2 : z2 < W) (hz3 : z3 < W)
    (hy0 : y0 < W) (hy1 : y1 < W) (hy2 : y2 < W) (hy3 : y3 < W)
    (hz : val4 z0 z1 z2 z3 < Q) (hy : val4 y0 y1 y2 y3 < Q) :
    ∃ r0 r1 r2 r3, FFAsm.mul_zx adx z0 z1 z2 z3 y0 y1 y2 y3 = (r0, r1, r2, r3) ∧
      r0 < W ∧ r1 < W ∧ r2 < W ∧ r3 < W ∧ val4 r0 r1 r2 r3 < Q ∧
      (val4 r0 r1 r2 r3 * R) % Q = (val4 z0 z1 z2 z3 * val4 y0 y1 y2 y3) % Q := by
  rw [mul_zx adx 0 0 0 0]; exact asm_mul_ok adx _ _ _ _ _ _ _ _ _ _ _ _ hz0 hz1 hz2 hz3 hy0 hy1 hy2 hy3 hz hy

/-- `z.Mul(x, z)` (`mul`, any CPU flag). -/
theorem asm_mul_zy_ok (adx z0 z1 z2 z3 x0 x1 x2 x3 : Nat)
    (hz0 : z0 < W) (hz1 : z1 < W) (hz2 : z2 < W) (hz3 : z3 < W)
    (hx0 : x0 < W) (hx1 : x1 < W) (hx2 : x2 < W) (hx3 : x3 < W)
    (hz : val4 z0 z1 z2 z3 < Q) (hx : val4 x0 x1 x2 x3 < Q) :
    ∃ r0 r1 r2 r3, FFAsm.mul_zy adx z0 z1 z2 z3 x0 x1 x2 x3 = (r0, r1, r2, r3) ∧
      r0 < W ∧ r1 < W ∧ r2 < W ∧ r3 < W ∧ val4 r0 r1 r2 r3 < Q ∧
      (val4 r0 r1 r2 r3 * R) % Q = (val4 x0 x1 x2 x3 * val4 z0 z1 z2 z3) % Q := by
  rw [mul_zy adx 0 0 0 0]; exact asm_mul_ok adx _ _ _ _ _ _ _ _ _ _ _ _ hx0 hx1 hx2 hx3 hz0 hz1 hz2 hz3 hx hz

/-- `z.Square(x)` = `z.Mul(x, x)` (`mul`, any CPU flag). -/
theorem asm_mul_xy_ok (adx z0 z1 z2 z3 x0 x1 x2 x3 : Nat)
    (hx0 : x0 < W) (hx1 : x1 < W) (hx2 : x2 < W) (hx3 : x3 < W) (hx : val4 x0 x1 x2 x3 < Q) :
    ∃ r0 r1 r2 r3, FFAsm.mul_xy adx z0 z1 z2 z3 x0 x1 x2 x3 = (r0, r1, r2, r3) ∧
      r0 < W ∧ r1 < W ∧ r2 < W ∧ r3 < W ∧ val4 r0 r1 r2 r3 < Q ∧
      (val4 r0 r1 r2 r3 * R) % Q = (val4 x0 x1 x2 x3 * val4 x0 x1 x2 x3) % Q := by
  rw [mul_xy]; exact asm_mul_ok adx _ _ _ _ _ _ _ _ _ _ _ _ hx0 hx1 hx2 hx3 hx0 hx1 hx2 hx3 hx hx

/-- `z.Square(z)` = `z.Mul(z, z)` (`mul`, any CPU flag). -/
theorem asm_mul_zxy_ok (adx z0 z1 z2 z3 : Nat)
    (hz0 : z0 < W) (hz1 : z1 < W) (hz2 : z2 < W) (hz3 : z3 < W) (hz : val4 z0 z1 z2 z3 < Q) :
    ∃ r0 r1 r2 r3, FFAsm.mul_zxy adx z0 z1 z2 z3 = (r0, r1, r2, r3) ∧
      r0 < W ∧ r1 < W ∧ r2 < W ∧ r3 < W ∧ val4 r0 r1 r2 r3 < Q ∧
      (val4 r0 r1 r2 r3 * R) % Q = (val4 z0 z1 z2 z3 * val4 z0 z1 z2 z3) % Q := by
  rw [mul_zxy adx 0 0 0 0]; exact asm_mul_ok adx _ _ _ _ _ _ _ _ _ _ _ _ hz0 hz1 hz2 hz3 hz0 hz1 hz2 hz3 hz hz

/-- `z.Mul(z, y)` (`amd64_adx` build). -/
theorem asm_mul_adxonly_zx_ok (z0 z1 z2 z3 y0 y1 y2 y3 : Nat)
    (hz0 : z0 < W) (hz1 : z1 < W) (hz2 : z2 < W) (hz3 : z3 < W)
    (hy0 : y0 < W) (hy1 : y1 < W) (hy2 : y2 < W) (hy3 : y3 < W)
    (hz : val4 z0 z1 z2 z3 < Q) (hy : val4 y0 y1 y2 y3 < Q) :
    ∃ r0 r1 r2 r3, FFAsm.mul_adxonly_zx z0 z1 z2 z3 y0 y1 y2 y3 = (r0, r1, r2, r3) ∧
      r0 < W ∧ r1 < W ∧ r2 < W ∧ r3 < W ∧ val4 r0 r1 r2 r3 < Q ∧
      (val4 r0 r1 r2 r3 * R) % Q = (val4 z0 z1 z2 z3 * val4 y0 y1 y2 y3) % Q := by
  rw [mul_adxonly_zx 0 0 0 0]; exact asm_mul_adxonly_ok _ _ _ _ _ _ _ _ _ _ _ _ hz0 hz1 hz2 hz3 hy0 hy1 hy2 hy3 hz hy

/-- `z.Mul(x, z)` (`amd64_adx` build). -/
theorem asm_mul_adxonly_zy_ok (z0 z1 z2 z3 x0 x1 x2 x3 : Nat)
    (hz0 : z0 < W) (hz1 : z1 < W) (hz2 : z2 < W) (hz3 : z3 < W)
    (hx0 : x0 < W) (hx1 : x1 < W) (hx2 : x2 < W) (hx3 : x3 < W)
    (hz : val4 z0 z1 z2 z3 < Q) (hx : val4 x0 x1 x2 x3 < Q) :
    ∃ r0 r1 r2 r3, FFAsm.mul_adxonly_zy z0 z1 z2 z3 x0 x1 x2 x3 = (r0, r1, r2, r3) ∧
      r0 < W ∧ r1 < W ∧ r2 < W ∧ r3 < W ∧ val4 r0 r1 r2 r3 < Q ∧
      (val4 r0 r1 r2 r3 * R) % Q = (val4 x0 x1 x2 x3 * val4 z0 z1 z2 z3) % Q := by
  rw [mul_adxonly_zy 0 0 0 0]; exact asm_mul_adxonly_ok _ _ _ _ _ _ _ _ _ _ _ _ hx0 hx1 hx2 hx3 hz0 hz1 hz2 hz3 hx hz

/-- `z.Square(x)` = `z.Mul(x, x)` (`amd64_adx` build). -/
theorem asm_mul_adxonly_xy_ok (z0 z1 z2 z3 x0 x1 x2 x3 : Nat)
    (hx0 : x0 < W) (hx1 : x1 < W) (hx2 : x2 < W) (hx3 : x3 < W) (hx : val4 x0 x1 x2 x3 < Q) :
    ∃ r0 r1 r2 r3, FFAsm.mul_adxonly_xy z0 z1 z2 z3 x0 x1 x2 x3 = (r0, r1, r2, r3) ∧
      r0 < W ∧ r1 < W ∧ r2 < W ∧ r3 < W ∧ val4 r0 r1 r2 r3 < Q ∧
      (val4 r0 r1 r2 r3 * R) % Q = (val4 x0 x1 x2 x3 * val4 x0 x1 x2 x3) % Q := by
  rw [mul_adxonly_xy]; exact asm_mul_adxonly_ok _ _ _ _ _ _ _ _ _ _ _ _ hx0 hx1 hx2 hx3 hx0 hx1 hx2 hx3 hx hx

/-- `z.Square(z)` = `z.Mul(z, z)` (`amd64_adx` build). -/
theorem asm_mul_adxonly_zxy_ok (z0 z1 z2 z3 : Nat)
    (hz0 : z0 < W) (hz1 : z1 < W) (hz2 : z2 < W) (hz3 : z3 < W) (hz : val4 z0 z1 z2 z3 < Q) :
    ∃ r0 r1 r2 r3, FFAsm.mul_adxonly_zxy z0 z1 z2 z3 = (r0, r1, r2, r3) ∧
      r0 < W ∧ r1 < W ∧ r2 < W ∧ r3 < W ∧ val4 r0 r1 r2 r3 < Q ∧
      (val4 r0 r1 r2 r3 * R) % Q = (val4 z0 z1 z2 z3 * val4 z0 z1 z2 z3) % Q := by
  rw [mul_adxonly_zxy 0 0 0 0]; exact asm_mul_adxonly_ok _ _ _ _ _ _ _ _ _ _ _ _ hz0 hz1 hz2 hz3 hz0 hz1 hz2 hz3 hz hz

/-! ## 4. the same statements in the field `ZMod q`

`toF v = v · R⁻¹` is the field element a Montgomery residue represents (I3.Lemmas.LimbsField);
`Q = I3.q` is prime (I3.Spec.Primes). -/

theorem asm_add_field (z0 z1 z2 z3 x0 x1 x2 x3 y0 y1 y2 y3 : Nat)
    (hx0 : x0 < W) (hx1 : x1 < W) (hx2 : x2 < W) (hx3 : x3 < W)
    (hy0 : y0 < W) (hy1 : y1 < W) (hy2 : y2 < W) (hy3 : y3 < W)
    (hx : val4 x0 x1 x2 x3 < Q) (hy : val4 y0 y1 y2 y3 < Q) :
    ∃ r0 r1 r2 r3, FFAsm.add z0 z1 z2 z3 x0 x1 x2 x3 y0 y1 y2 y3 = (r0, r1, r2, r3) ∧
      r0 < W ∧ r1 < W ∧ r2 < W ∧ r3 < W ∧ val4 r0 r1 r2 r3 < Q ∧
      toF (val4 r0 r1 r2 r3) = toF (val4 x0 x1 x2 x3) + toF (val4 y0 y1 y2 y3) := by
  obtain ⟨r0, r1, r2, r3, e, g0, g1, g2, g3, h⟩ :=
    asm_add_ok z0 z1 z2 z3 x0 x1 x2 x3 y0 y1 y2 y3 hx0 hx1 hx2 hx3 hy0 hy1 hy2 hy3 hx hy
  exact ⟨r0, r1, r2, r3, e, g0, g1, g2, g3, h ▸ Nat.mod_lt _ (by decide), toF_add _ _ _ h⟩

theorem asm_sub_field (z0 z1 z2 z3 x0 x1 x2 x3 y0 y1 y2 y3 : Nat)
    (hx0 : x0 < W) (hx1 : x1 < W) (hx2 : x2 < W) (hx3 : x3 < W)
    (hy0 : y0 < W) (hy1 : y1 < W) (hy2 : y2 < W) (hy3 : y3 < W)
    (hx : val4 x0 x1 x2 x3 < Q) (hy : val4 y0 y1 y2 y3 < Q) :
    ∃ r0 r1 r2 r3, FFAsm.sub z0 z1 z2 z3 x0 x1 x2 x3 y0 y1 y2 y3 = (r0, r1, r2, r3) ∧
      r0 < W ∧ r1 < W ∧ r2 < W ∧ r3 < W ∧ val4 r0 r1 r2 r3 < Q ∧
      toF (val4 r0 r1 r2 r3) = toF (val4 x0 x1 x2 x3) - toF (val4 y0 y1 y2 y3) := by
  obtain ⟨r0, r1, r2, r3, e, g0, g1, g2, g3, h⟩ :=
    asm_sub_ok z0 z1 z2 z3 x0 x1 x2 x3 y0 y1 y2 y3 hx0 hx1 hx2 hx3 hy0 hy1 hy2 hy3 hx hy
  exact ⟨r0, r1, r2, r3, e, g0, g1, g2, g3, h ▸ Nat.mod_lt _ (by decide), toF_sub _ _ _ hy h⟩

theorem asm_neg_field (z0 z1 z2 z3 x0 x1 x2 x3 : Nat)
    (hx0 : x0 < W) (hx1 : x1 < W) (hx2 : x2 < W) (hx3 : x3 < W) (hx : val4 x0 x1 x2 x3 < Q) :
    ∃ r0 r1 r2 r3, FFAsm.neg z0 z1 z2 z3 x0 x1 x2 x3 = (r0, r1, r2, r3) ∧
      r0 < W ∧ r1 < W ∧ r2 < W ∧ r3 < W ∧ val4 r0 r1 r2 r3 < Q ∧
      toF (val4 r0 r1 r2 r3) = - toF (val4 x0 x1 x2 x3) := by
  obtain ⟨r0, r1, r2, r3, e, g0, g1, g2, g3, h⟩ := asm_neg_ok z0 z1 z2 z3 x0 x1 x2 x3 hx0 hx1 hx2 hx3 hx
  exact ⟨r0, r1, r2, r3, e, g0, g1, g2, g3, h ▸ Nat.mod_lt _ (by decide), toF_neg _ _ hx h⟩

theorem asm_double_field (z0 z1 z2 z3 x0 x1 x2 x3 : Nat)
    (hx0 : x0 < W) (hx1 : x1 < W) (hx2 : x2 < W) (hx3 : x3 < W) (hx : val4 x0 x1 x2 x3 < Q) :
    ∃ r0 r1 r2 r3, FFAsm.double z0 z1 z2 z3 x0 x1 x2 x3 = (r0, r1, r2, r3) ∧
      r0 < W ∧ r1 < W ∧ r2 < W ∧ r3 < W ∧ val4 r0 r1 r2 r3 < Q ∧
      toF (val4 r0 r1 r2 r3) = 2 * toF (val4 x0 x1 x2 x3) := by
  obtain ⟨r0, r1, r2, r3, e, g0, g1, g2, g3, h⟩ := asm_double_ok z0 z1 z2 z3 x0 x1 x2 x3 hx0 hx1 hx2 hx3 hx
  exact ⟨r0, r1, r2, r3, e, g0, g1, g2, g3, h ▸ Nat.mod_lt _ (by decide), by
    rw [toF_smul _ _ _ h]; norm_num⟩

theorem asm_mulBy3_field (x0 x1 x2 x3 : Nat)
    (hx0 : x0 < W) (hx1 : x1 < W) (hx2 : x2 < W) (hx3 : x3 < W) (hx : val4 x0 x1 x2 x3 < Q) :
    ∃ r0 r1 r2 r3, FFAsm.MulBy3 x0 x1 x2 x3 = (r0, r1, r2, r3) ∧
      r0 < W ∧ r1 < W ∧ r2 < W ∧ r3 < W ∧ val4 r0 r1 r2 r3 < Q ∧
      toF (val4 r0 r1 r2 r3) = 3 * toF (val4 x0 x1 x2 x3) := by
  obtain ⟨r0, r1, r2, r3, e, g0, g1, g2, g3, h⟩ := asm_mulBy3_ok x0 x1 x2 x3 hx0 hx1 hx2 hx3 hx
  exact ⟨r0, r1, r2, r3, e, g0, g1, g2, g3, h ▸ Nat.mod_lt _ (by decide), by
    rw [toF_smul _ _ _ h]; norm_num⟩

theorem asm_mulBy5_field (x0 x1 x2 x3 : Nat)
    (hx0 : x0 < W) (hx1 : x1 < W) (hx2 : x2 < W) (hx3 : x3 < W) (hx : val4 x0 x1 x2 x3 < Q) :
    ∃ r0 r1 r2 r3, FFAsm.MulBy5 x0 x1 x2 x3 = (r0, r1, r2, r3) ∧
      r0 < W ∧ r1 < W ∧ r2 < W ∧ r3 < W ∧ val4 r0 r1 r2 r3 < Q ∧
      toF (val4 r0 r1 r2 r3) = 5 * toF (val4 x0 x1 x2 x3) := by
  obtain ⟨r0, r1, r2, r3, e, g0, g1, g2, g3, h⟩ := asm_mulBy5_ok x0 x1 x2 x3 hx0 hx1 hx2 hx3 hx
  exact ⟨r0, r1, r2, r3, e, g0, g1, g2, g3, h ▸ Nat.mod_lt _ (by decide), by
    rw [toF_smul _ _ _ h]; norm_num⟩

theorem asm_mulBy13_field (x0 x1 x2 x3 : Nat)
    (hx0 : x0 < W) (hx1 : x1 < W) (hx2 : x2 < W) (hx3 : x3 < W) (hx : val4 x0 x1 x2 x3 < Q) :
    ∃ r0 r1 r2 r3, FFAsm.MulBy13 x0 x1 x2 x3 = (r0, r1, r2, r3) ∧
      r0 < W ∧ r1 < W ∧ r2 < W ∧ r3 < W ∧ val4 r0 r1 r2 r3 < Q ∧
      toF (val4 r0 r1 r2 r3) = 13 * toF (val4 x0 x1 x2 x3) := by
  obtain ⟨r0, r1, r2, r3, e, g0, g1, g2, g3, h⟩ := asm_mulBy13_ok x0 x1 x2 x3 hx0 hx1 hx2 hx3 hx
  exact ⟨r0, r1, r2, r3, e, g0, g1, g2, g3, h ▸ Nat.mod_lt _ (by decide), by
    rw [toF_smul _ _ _ h]; norm_num⟩

theorem asm_butterfly_field (a0 a1 a2 a3 b0 b1 b2 b3 : Nat)
    (ha0 : a0 < W) (ha1 : a1 < W) (ha2 : a2 < W) (ha3 : a3 < W)
    (hb0 : b0 < W) (hb1 : b1 < W) (hb2 : b2 < W) (hb3 : b3 < W)
    (ha : val4 a0 a1 a2 a3 < Q) (hb : val4 b0 b1 b2 b3 < Q) :
    ∃ r0 r1 r2 r3 s0 s1 s2 s3,
      FFAsm.Butterfly a0 a1 a2 a3 b0 b1 b2 b3 = (r0, r1, r2, r3, s0, s1, s2, s3) ∧
      r0 < W ∧ r1 < W ∧ r2 < W ∧ r3 < W ∧ s0 < W ∧ s1 < W ∧ s2 < W ∧ s3 < W ∧
      val4 r0 r1 r2 r3 < Q ∧ val4 s0 s1 s2 s3 < Q ∧
      toF (val4 r0 r1 r2 r3) = toF (val4 a0 a1 a2 a3) + toF (val4 b0 b1 b2 b3) ∧
      toF (val4 s0 s1 s2 s3) = toF (val4 a0 a1 a2 a3) - toF (val4 b0 b1 b2 b3) := by
  obtain ⟨r0, r1, r2, r3, s0, s1, s2, s3, e, g0, g1, g2, g3, k0, k1, k2, k3, hr, hs⟩ :=
    asm_butterfly_ok a0 a1 a2 a3 b0 b1 b2 b3 ha0 ha1 ha2 ha3 hb0 hb1 hb2 hb3 ha hb
  exact ⟨r0, r1, r2, r3, s0, s1, s2, s3, e, g0, g1, g2, g3, k0, k1, k2, k3,
    hr ▸ Nat.mod_lt _ (by decide), hs ▸ Nat.mod_lt _ (by decide), toF_add _ _ _ hr, toF_sub _ _ _ hb hs⟩

theorem asm_mul_field (adx z0 z1 z2 z3 x0 x1 x2 x3 y0 y1 y2 y3 : Nat)
    (hx0 : x0 < W) (hx1 : x1 < W) (hx2 : x2 < W) (hx3 : x3 < W)
    (hy0 : y0 < W) (hy1 : y1 < W) (hy2 : y2 < W) (hy3 : y3 < W)
    (hx : val4 x0 x1 x2 x3 < Q) (hy : val4 y0 y1 y2 y3 < Q) :
    ∃ r0 r1 r2 r3, FFAsm.mul adx z0 z1 z2 z3 x0 x1 x2 x3 y0 y1 y2 y3 = (r0, r1, r2, r3) ∧
      r0 < W ∧ r1 < W ∧ r2 < W ∧ r3 < W ∧ val4 r0 r1 r2 r3 < Q ∧
      toF (val4 r0 r1 r2 r3) = toF (val4 x0 x1 x2 x3) * toF (val4 y0 y1 y2 y3) := by
  obtain ⟨r0, r1, r2, r3, e, g0, g1, g2, g3, hlt, h⟩ :=
    asm_mul_ok adx z0 z1 z2 z3 x0 x1 x2 x3 y0 y1 y2 y3 hx0 hx1 hx2 hx3 hy0 hy1 hy2 hy3 hx hy
  exact ⟨r0, r1, r2, r3, e, g0, g1, g2, g3, hlt, toF_mul _ _ _ h⟩

theorem asm_mul_adxonly_field (z0 z1 z2 z3 x0 x1 x2 x3 y0 y1 y2 y3 : Nat)
    (hx0 : x0 < W) (hx1 : x1 < W) (hx2 : x2 < W) (hx3 : x3 < W)
    (hy0 : y0 < W) (hy1 : y1 < W) (hy2 : y2 < W) (hy3 : y3 < W)
    (hx : val4 x0 x1 x2 x3 < Q) (hy : val4 y0 y1 y2 y3 < Q) :
    ∃ r0 r1 r2 r3, FFAsm.mul_adxonly z0 z1 z2 z3 x0 x1 x2 x3 y0 y1 y2 y3 = (r0, r1, r2, r3) ∧
      r0 < W ∧ r1 < W ∧ r2 < W ∧ r3 < W ∧ val4 r0 r1 r2 r3 < Q ∧
      toF (val4 r0 r1 r2 r3) = toF (val4 x0 x1 x2 x3) * toF (val4 y0 y1 y2 y3) := by
  obtain ⟨r0, r1, r2, r3, e, g0, g1, g2, g3, hlt, h⟩ :=
    asm_mul_adxonly_ok z0 z1 z2 z3 x0 x1 x2 x3 y0 y1 y2 y3 hx0 hx1 hx2 hx3 hy0 hy1 hy2 hy3 hx hy
  exact ⟨r0, r1, r2, r3, e, g0, g1, g2, g3, hlt, toF_mul _ _ _ h⟩

/-- `Square` (both operand pointers equal), any CPU flag. -/
theorem asm_square_field (adx z0 z1 z2 z3 x0 x1 x2 x3 : Nat)
    (hx0 : x0 < W) (hx1 : x1 < W) (hx2 : x2 < W) (hx3 : x3 < W) (hx : val4 x0 x1 x2 x3 < Q) :
    ∃ r0 r1 r2 r3, FFAsm.mul_xy adx z0 z1 z2 z3 x0 x1 x2 x3 = (r0, r1, r2, r3) ∧
      r0 < W ∧ r1 < W ∧ r2 < W ∧ r3 < W ∧ val4 r0 r1 r2 r3 < Q ∧
      toF (val4 r0 r1 r2 r3) = toF (val4 x0 x1 x2 x3) ^ 2 := by
  obtain ⟨r0, r1, r2, r3, e, g0, g1, g2, g3, hlt, h⟩ := asm_mul_xy_ok adx z0 z1 z2 z3 x0 x1 x2 x3 hx0 hx1 hx2 hx3 hx
  exact ⟨r0, r1, r2, r3, e, g0, g1, g2, g3, hlt, by rw [toF_mul _ _ _ h, sq]⟩

/-- `fromMont` returns the canonical integer of the represented field element (any CPU flag). -/
theorem asm_fromMont_field (adx z0 z1 z2 z3 : Nat)
    (hz0 : z0 < W) (hz1 : z1 < W) (hz2 : z2 < W) (hz3 : z3 < W) :
    ∃ r0 r1 r2 r3, FFAsm.fromMont adx z0 z1 z2 z3 = (r0, r1, r2, r3) ∧
      r0 < W ∧ r1 < W ∧ r2 < W ∧ r3 < W ∧ val4 r0 r1 r2 r3 < Q ∧
      ((val4 r0 r1 r2 r3 : Nat) : ZMod Q) = toF (val4 z0 z1 z2 z3) := by
  obtain ⟨r0, r1, r2, r3, e, g0, g1, g2, g3, hlt, h⟩ := asm_fromMont_ok_any adx z0 z1 z2 z3 hz0 hz1 hz2 hz3
  exact ⟨r0, r1, r2, r3, e, g0, g1, g2, g3, hlt, cast_fromMont _ _ h⟩

theorem asm_fromMont_adxonly_field (z0 z1 z2 z3 : Nat)
    (hz0 : z0 < W) (hz1 : z1 < W) (hz2 : z2 < W) (hz3 : z3 < W) :
    ∃ r0 r1 r2 r3, FFAsm.fromMont_adxonly z0 z1 z2 z3 = (r0, r1, r2, r3) ∧
      r0 < W ∧ r1 < W ∧ r2 < W ∧ r3 < W ∧ val4 r0 r1 r2 r3 < Q ∧
      ((val4 r0 r1 r2 r3 : Nat) : ZMod Q) = toF (val4 z0 z1 z2 z3) := by
  obtain ⟨r0, r1, r2, r3, e, g0, g1, g2, g3, hlt, h⟩ := asm_fromMont_adxonly_ok_any z0 z1 z2 z3 hz0 hz1 hz2 hz3
  exact ⟨r0, r1, r2, r3, e, g0, g1, g2, g3, hlt, cast_fromMont _ _ h⟩

/-! ## 5. non-vacuity: the routines evaluated on boundary operands (kernel evaluation, `decide`) -/

/-- the limbs of `q − 1` are canonical: the hypotheses of the theorems are satisfiable at the boundary -/
example : val4 4891460686036598784 2896914383306846353 13281191951274694749 3486998266802970665 < Q ∧
    val4 4891460686036598784 2896914383306846353 13281191951274694749 3486998266802970665 + 1 = Q := by
  decide
/-- `(q − 1) + 1 = 0`: the sum is exactly `q`, REDUCE must subtract -/
example : FFAsm.add 7 7 7 7 4891460686036598784 2896914383306846353 13281191951274694749 3486998266802970665
    1 0 0 0 = (0, 0, 0, 0) := by decide
/-- `(q − 1) + (q − 1) = q − 2` -/
example : FFAsm.add 0 0 0 0 4891460686036598784 2896914383306846353 13281191951274694749 3486998266802970665
    4891460686036598784 2896914383306846353 13281191951274694749 3486998266802970665 =
    (4891460686036598783, 2896914383306846353, 13281191951274694749, 3486998266802970665) := by decide
/-- `0 − 1 = q − 1`: the borrow ripples through all four words and `q` is added back -/
example : FFAsm.sub 0 0 0 0 0 0 0 0 1 0 0 0 =
    (4891460686036598784, 2896914383306846353, 13281191951274694749, 3486998266802970665) := by decide
/-- `1 − 1 = 0`: no borrow, the masked addend is `0` -/
example : FFAsm.sub 0 0 0 0 1 0 0 0 1 0 0 0 = (0, 0, 0, 0) := by decide
/-- `−0 = 0`, `−1 = q − 1` -/
example : FFAsm.neg 9 9 9 9 0 0 0 0 = (0, 0, 0, 0) ∧
    FFAsm.neg 9 9 9 9 1 0 0 0 = (4891460686036598784, 2896914383306846353, 13281191951274694749, 3486998266802970665) := by decide
/-- `2·(q − 1) = q − 2` -/
example : FFAsm.double 0 0 0 0 4891460686036598784 2896914383306846353 13281191951274694749 3486998266802970665 =
    (4891460686036598783, 2896914383306846353, 13281191951274694749, 3486998266802970665) := by decide
/-- `reduce q = 0`, `reduce (q − 1) = q − 1` -/
example : FFAsm.reduce 4891460686036598785 2896914383306846353 13281191951274694749 3486998266802970665 =
      (0, 0, 0, 0) ∧
    FFAsm.reduce 4891460686036598784 2896914383306846353 13281191951274694749 3486998266802970665 = (4891460686036598784, 2896914383306846353, 13281191951274694749, 3486998266802970665) := by decide
set_option synthInstance.maxSize 512 in
/-- `Butterfly (0, 1) = (1, q − 1)` (`DecidableEq` of an 8-tuple exceeds the default instance size) -/
example : FFAsm.Butterfly 0 0 0 0 1 0 0 0 =
    (1, 0, 0, 0, 4891460686036598784, 2896914383306846353, 13281191951274694749, 3486998266802970665) := by
  decide
/-- `MulBy3/5/13` of `one = R mod q` agree with the portable `mulByConstant` -/
example : FFAsm.MulBy3 12436184717236109307 3962172157175319849 7381016538464732718 1011752739694698287 =
      FF.mulByConstant 12436184717236109307 3962172157175319849 7381016538464732718 1011752739694698287 3 ∧
    FFAsm.MulBy5 12436184717236109307 3962172157175319849 7381016538464732718 1011752739694698287 =
      FF.mulByConstant 12436184717236109307 3962172157175319849 7381016538464732718 1011752739694698287 5 ∧
    FFAsm.MulBy13 12436184717236109307 3962172157175319849 7381016538464732718 1011752739694698287 =
      FF.mulByConstant 12436184717236109307 3962172157175319849 7381016538464732718 1011752739694698287 13 := by
  decide
/-- `1 · 1 = 1` in Montgomery form (`one = R mod q`), with ADX, without ADX and in the `amd64_adx` build -/
example : FFAsm.mul 1 0 0 0 0 12436184717236109307 3962172157175319849 7381016538464732718 1011752739694698287
      12436184717236109307 3962172157175319849 7381016538464732718 1011752739694698287 =
      (12436184717236109307, 3962172157175319849, 7381016538464732718, 1011752739694698287) ∧
    FFAsm.mul 0 0 0 0 0 12436184717236109307 3962172157175319849 7381016538464732718 1011752739694698287
      12436184717236109307 3962172157175319849 7381016538464732718 1011752739694698287 =
      (12436184717236109307, 3962172157175319849, 7381016538464732718, 1011752739694698287) ∧
    FFAsm.mul_adxonly 0 0 0 0 12436184717236109307 3962172157175319849 7381016538464732718 1011752739694698287
      12436184717236109307 3962172157175319849 7381016538464732718 1011752739694698287 =
      (12436184717236109307, 3962172157175319849, 7381016538464732718, 1011752739694698287) := by
  decide
/-- `(q − 1)² · R⁻¹`: the three code paths agree on the largest canonical operands -/
example : FFAsm.mul 1 0 0 0 0 4891460686036598784 2896914383306846353 13281191951274694749 3486998266802970665
      4891460686036598784 2896914383306846353 13281191951274694749 3486998266802970665 =
    FFAsm.mul 0 0 0 0 0 4891460686036598784 2896914383306846353 13281191951274694749 3486998266802970665
      4891460686036598784 2896914383306846353 13281191951274694749 3486998266802970665 ∧
    FFAsm.mul_adxonly 0 0 0 0 4891460686036598784 2896914383306846353 13281191951274694749 3486998266802970665
      4891460686036598784 2896914383306846353 13281191951274694749 3486998266802970665 =
    FFAsm.mul 0 0 0 0 0 4891460686036598784 2896914383306846353 13281191951274694749 3486998266802970665
      4891460686036598784 2896914383306846353 13281191951274694749 3486998266802970665 := by
  decide
/-- `fromMont one = 1` on the three code paths -/
example : FFAsm.fromMont 1 12436184717236109307 3962172157175319849 7381016538464732718 1011752739694698287 = (1, 0, 0, 0) ∧
    FFAsm.fromMont 0 12436184717236109307 3962172157175319849 7381016538464732718 1011752739694698287 = (1, 0, 0, 0) ∧
    FFAsm.fromMont_adxonly 12436184717236109307 3962172157175319849 7381016538464732718 1011752739694698287 = (1, 0, 0, 0) := by
  decide

/-! ## Butterfly on every aliasing pattern: the back-ends agree

`Butterfly(a, b)` has two destinations.  With distinct elements both back-ends store `(a + b, a − b)`; with
`a` and `b` the SAME element only one value can survive, and the assembly (operands loaded first, `a` stored
last) and the portable code (since fix d07808d: both results from copies, `a` stored last) both leave `2a`.
Before that fix the portable code left `−a` — the C05 defect of DESIGN §6. -/

/-- limbs below `2^64` are determined by their value -/
theorem val4_inj {a0 a1 a2 a3 b0 b1 b2 b3 : Nat}
    (ha0 : a0 < W) (ha1 : a1 < W) (ha2 : a2 < W) (ha3 : a3 < W)
    (hb0 : b0 < W) (hb1 : b1 < W) (hb2 : b2 < W) (hb3 : b3 < W)
    (h : val4 a0 a1 a2 a3 = val4 b0 b1 b2 b3) : a0 = b0 ∧ a1 = b1 ∧ a2 = b2 ∧ a3 = b3 := by
  unfold val4 at h
  simp only [I3.Word.W, I3.W] at *
  omega

/-- `Butterfly(a, a)`, assembly: the element holds `2a`. -/
theorem asm_butterfly_ab_ok (a0 a1 a2 a3 : Nat)
    (ha0 : a0 < W) (ha1 : a1 < W) (ha2 : a2 < W) (ha3 : a3 < W) (ha : val4 a0 a1 a2 a3 < Q) :
    ∃ r0 r1 r2 r3, FFAsm.Butterfly_ab a0 a1 a2 a3 = (r0, r1, r2, r3) ∧
      r0 < W ∧ r1 < W ∧ r2 < W ∧ r3 < W ∧
      val4 r0 r1 r2 r3 = (2 * val4 a0 a1 a2 a3) % Q := by
  obtain ⟨r0, r1, r2, r3, e, g0, g1, g2, g3, h⟩ := I3.LimbsAsm.asm_butterfly_ab_ok a0 a1 a2 a3 ha0 ha1 ha2 ha3 ha
  exact ⟨r0, r1, r2, r3, e, g0, g1, g2, g3, by rw [h]; congr 1; omega⟩

/-- `Butterfly(a, a)`, portable code: the element holds `2a`. -/
theorem butterfly_ab_ok (a0 a1 a2 a3 : Nat)
    (ha0 : a0 < W) (ha1 : a1 < W) (ha2 : a2 < W) (ha3 : a3 < W) (ha : val4 a0 a1 a2 a3 < Q) :
    ∃ r0 r1 r2 r3, FF.butterflyGeneric_ab a0 a1 a2 a3 = (r0, r1, r2, r3) ∧
      r0 < W ∧ r1 < W ∧ r2 < W ∧ r3 < W ∧
      val4 r0 r1 r2 r3 = (2 * val4 a0 a1 a2 a3) % Q := by
  obtain ⟨r0, r1, r2, r3, e, g0, g1, g2, g3, h⟩ := I3.Limbs.butterfly_ab_ok a0 a1 a2 a3 ha0 ha1 ha2 ha3 ha
  exact ⟨r0, r1, r2, r3, e, g0, g1, g2, g3, by rw [h]; congr 1; omega⟩

/-- same element for both arguments: assembly and portable code leave the same limbs. -/
theorem butterfly_ab_backends_agree (a0 a1 a2 a3 : Nat)
    (ha0 : a0 < W) (ha1 : a1 < W) (ha2 : a2 < W) (ha3 : a3 < W) (ha : val4 a0 a1 a2 a3 < Q) :
    FFAsm.Butterfly_ab a0 a1 a2 a3 = FF.butterflyGeneric_ab a0 a1 a2 a3 := by
  obtain ⟨r0, r1, r2, r3, e, g0, g1, g2, g3, h⟩ := asm_butterfly_ab_ok a0 a1 a2 a3 ha0 ha1 ha2 ha3 ha
  obtain ⟨s0, s1, s2, s3, e', k0, k1, k2, k3, h'⟩ := butterfly_ab_ok a0 a1 a2 a3 ha0 ha1 ha2 ha3 ha
  obtain ⟨h0, h1, h2, h3⟩ := val4_inj g0 g1 g2 g3 k0 k1 k2 k3 (h.trans h'.symm)
  rw [e, e', h0, h1, h2, h3]

/-- distinct elements: assembly and portable code store the same limbs in `a` and in `b`. -/
theorem butterfly_backends_agree (a0 a1 a2 a3 b0 b1 b2 b3 : Nat)
    (ha0 : a0 < W) (ha1 : a1 < W) (ha2 : a2 < W) (ha3 : a3 < W)
    (hb0 : b0 < W) (hb1 : b1 < W) (hb2 : b2 < W) (hb3 : b3 < W)
    (ha : val4 a0 a1 a2 a3 < Q) (hb : val4 b0 b1 b2 b3 < Q) :
    FFAsm.Butterfly a0 a1 a2 a3 b0 b1 b2 b3 = FF.butterflyGeneric a0 a1 a2 a3 b0 b1 b2 b3 := by
  obtain ⟨r0, r1, r2, r3, s0, s1, s2, s3, e, g0, g1, g2, g3, k0, k1, k2, k3, hr, hs⟩ :=
    asm_butterfly_ok a0 a1 a2 a3 b0 b1 b2 b3 ha0 ha1 ha2 ha3 hb0 hb1 hb2 hb3 ha hb
  obtain ⟨r0', r1', r2', r3', s0', s1', s2', s3', e', g0', g1', g2', g3', k0', k1', k2', k3', hr', hs'⟩ :=
    I3.Limbs.butterfly_ok a0 a1 a2 a3 b0 b1 b2 b3 ha0 ha1 ha2 ha3 hb0 hb1 hb2 hb3 ha hb
  obtain ⟨h0, h1, h2, h3⟩ := val4_inj g0 g1 g2 g3 g0' g1' g2' g3' (hr.trans hr'.symm)
  obtain ⟨j0, j1, j2, j3⟩ := val4_inj k0 k1 k2 k3 k0' k1' k2' k3' (hs.trans hs'.symm)
  rw [e, e', h0, h1, h2, h3, j0, j1, j2, j3]

-- non-vacuity: a = 5 in Montgomery form is irrelevant here — any canonical limbs do; (5,0,0,0) is canonical
example : FFAsm.Butterfly_ab 5 0 0 0 = FF.butterflyGeneric_ab 5 0 0 0 ∧ FFAsm.Butterfly_ab 5 0 0 0 = (10, 0, 0, 0) := by
  decide +kernel

end I3.Props.C05Asm
