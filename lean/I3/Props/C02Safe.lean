/-
  I3.Props.C02Safe — panic-freedom of the signing side and of the remaining hash entry points, about the GENERATED
  code (checked variants `<name>_ok` of `I3/Gen/GoChk*.lean`, see I3.Lemmas.GoSafe): `true` on EVERY input.

    * `k.SignPoseidon(msg)`, `k.SignMimc7(msg)`, `SkToBigInt(k)`, `k.Scalar()`, `k.Public()`: every key byte
      string (`PrivateKey` is a Go array `[32]byte`, but the key is only hashed: NO length hypothesis is needed) and
      every message (outside the field: the hash returns an error, no panic).  The slices `h1[32:]`, `sBuf[:32]` of
      the 64-byte BLAKE-512 digests and the local `[32]byte` buffers are in range.
    * `goldenposeidon.Hash(inp, cap)`, `inp` a Go array `[8]uint64`, `cap` a Go array `[4]uint64` (hypotheses: the
      lengths are the Go types): every index into the 12-lane state and into the tables `C` (118 entries), `S`
      (506), `M`, `P` (12 × 12) is in range.
    * `keccak256.Hash(data...)`, `babyjub.Blake512(m)`: every input.
-/
import I3.Props.C07Safe

set_option maxRecDepth 100000

namespace I3.Props.C02Safe
open I3 I3.Go I3.Gen.Go I3.GoSafe

/-! ## key derivation -/

/-- **`SkToBigInt(k)`**: every key byte string. -/
theorem babyjub_SkToBigInt_ok_true (k : List UInt8) : babyjub_SkToBigInt_ok k = true :=
  GoSafe.babyjub_SkToBigInt_ok_true k

/-- **`k.Scalar()`**: every key byte string. -/
theorem babyjub_PrivateKey_Scalar_ok_true (k : List UInt8) : babyjub_PrivateKey_Scalar_ok k = true :=
  GoSafe.babyjub_PrivateKey_Scalar_ok_true k

/-- **`s.Public()`** on a `PrivKeyScalar`: every integer. -/
theorem babyjub_PrivKeyScalar_Public_ok_true (s : Int) : babyjub_PrivKeyScalar_Public_ok s = true :=
  GoSafe.babyjub_PrivKeyScalar_Public_ok_true s

/-- **`k.Public()`**: every key byte string. -/
theorem babyjub_PrivateKey_Public_ok_true (k : List UInt8) : babyjub_PrivateKey_Public_ok k = true :=
  GoSafe.babyjub_PrivateKey_Public_ok_true k

/-- `pruneBuffer(buf)`, `buf` a Go `*[32]byte` (hypothesis: the length is the Go type). -/
theorem babyjub_pruneBuffer_ok_true (b : List UInt8) (hb : b.length = 32) : babyjub_pruneBuffer_ok b = true :=
  (GoSafe.babyjub_pruneBuffer_ok_iff b).2 (by omega)

/-! ## signing -/

/-- **`k.SignPoseidon(msg)`**: every key byte string, every message (outside the field: an error, not a panic). -/
theorem babyjub_PrivateKey_SignPoseidon_ok_true (k : List UInt8) (msg : Int) :
    babyjub_PrivateKey_SignPoseidon_ok k msg = true := by
  have hB := blake512_length
  go_delta babyjub_PrivateKey_SignPoseidon_ok
  generalize Go.Ext.blake512 = B at hB ⊢
  generalize babyjub_Point_Mul = Mul
  generalize poseidon_Hash = H
  generalize babyjub_PrivateKey_Public = Pub
  generalize babyjub_PrivateKey_Scalar = Sc
  as_aux_lemma =>
    dsimp only
    rw [req_of (utils_BigIntLEBytes_ok_true msg), req_of (sliceOk_full _),
      req_of (sliceOk_from (by decide) (by rw [hB]; decide)),
      req_of (utils_SetBigIntFromLEBytes_ok_true _ _), req_of babyjub_SubOrder_ne_zero,
      req_of babyjub_NewPoint_ok_true, req_of (babyjub_Point_Mul_ok_true _ _ _),
      req_of (GoSafe.babyjub_PrivateKey_Public_ok_true k), req_of (babyjub_PublicKey_Point_ok_true _),
      req_of (C07Safe.poseidon_Hash_ok_true _)]
    split
    · rfl
    · rw [req_of (GoSafe.babyjub_PrivateKey_Scalar_ok_true k), req_of (babyjub_PrivKeyScalar_BigInt_ok_true _),
        req_of babyjub_SubOrder_ne_zero]

/-- **`k.SignMimc7(msg)`**: every key byte string, every message. -/
theorem babyjub_PrivateKey_SignMimc7_ok_true (k : List UInt8) (msg : Int) :
    babyjub_PrivateKey_SignMimc7_ok k msg = true := by
  have hB := blake512_length
  go_delta babyjub_PrivateKey_SignMimc7_ok
  generalize Go.Ext.blake512 = B at hB ⊢
  generalize babyjub_Point_Mul = Mul
  generalize mimc7_Hash = H
  generalize babyjub_PrivateKey_Public = Pub
  generalize babyjub_PrivateKey_Scalar = Sc
  as_aux_lemma =>
    dsimp only
    rw [req_of (utils_BigIntLEBytes_ok_true msg), req_of (sliceOk_full _),
      req_of (sliceOk_from (by decide) (by rw [hB]; decide)),
      req_of (utils_SetBigIntFromLEBytes_ok_true _ _), req_of babyjub_SubOrder_ne_zero,
      req_of babyjub_NewPoint_ok_true, req_of (babyjub_Point_Mul_ok_true _ _ _),
      req_of (GoSafe.babyjub_PrivateKey_Public_ok_true k), req_of (babyjub_PublicKey_Point_ok_true _),
      req_of (C07Safe.mimc7_Hash_ok_true _ _)]
    split
    · rfl
    · rw [req_of (GoSafe.babyjub_PrivateKey_Scalar_ok_true k), req_of (babyjub_PrivKeyScalar_BigInt_ok_true _),
        req_of babyjub_SubOrder_ne_zero]

/-! ## the other hash entry points -/

/-- **`goldenposeidon.Hash(inp, cap)`**, `inp : [8]uint64`, `cap : [4]uint64` (hypotheses: the lengths are the Go
    types): every 8 + 4 words. -/
theorem goldenposeidon_Hash_ok_true (inp cap : List Nat) (hi : inp.length = 8) (hc : cap.length = 4) :
    goldenposeidon_Hash_ok inp cap = true := GoSafe.goldenposeidon_Hash_ok_of inp cap (by omega) (by omega)

/-- **`keccak256.Hash(data...)`**: every list of byte strings. -/
theorem keccak256_Hash_ok_true (data : List (List UInt8)) : keccak256_Hash_ok data = true :=
  GoSafe.keccak256_Hash_ok_true data

/-- **`babyjub.Blake512(m)`**: every byte string. -/
theorem babyjub_Blake512_ok_true (m : List UInt8) : babyjub_Blake512_ok m = true := GoSafe.babyjub_Blake512_ok_true m

end I3.Props.C02Safe
