/-
  I3.Props.C11Safe — C11 ("conversions reduce TOTALLY"), the "never a panic" half, about the GENERATED code: the
  checked variants (`I3/Gen/GoChkFFLimb.lean`, `I3/Gen/GoChkFFGLimb.lean`, see I3.Lemmas.GoSafe / GoSafeFF) of the
  LIMB-MODE functions of /repo/ff (BN254 scalar field, `Element = [4]uint64`) and /repo/ffg (Goldilocks,
  `Element = [1]uint64`): constructors from integers / bytes / strings / machine words, and the observers.

  Input domains.  A Go `Element` is an ARRAY: its length (4 resp. 1) is part of the Go type and appears here as the
  hypothesis `z.length = 4` resp. `z.length = 1` on the lists that stand for a destination that is written limb by
  limb or an operand that is read limb by limb — and nowhere else: the CONTENTS are arbitrary (any words, not
  necessarily `< q`, not even `< 2^64`).  Functions that first pass their operand through a T2 kernel wrapper
  (`Go.Ext.ffl_fromMont`, `ffl_mul`, `ffl_neg`: `Cmp`, `LexicographicallyLargest`, `String`, `Bytes`, `Marshal`,
  `ToBigIntRegular`, `SetUint64`, `NewElementFromUint64`) need no hypothesis at all, because the wrappers return a
  list of the right length whatever they are given (`GoSafe.ffl_fromMont_length`, … — the kernels are not unfolded).
  Everything else is unconstrained: `v` is EVERY integer (negative, `≥ q`, huge), `bs` EVERY byte string, `s` EVERY
  string, `i` EVERY bit index, `res` every integer.

  The two frontiers.
  * the unexported `setBigInt(v)` copies `len(v.Bits())` words into the array: its checked variant is `true` EXACTLY
    when `(Go.big.bits v).length ≤ z.length` (`ffl_Element_setBigInt_ok_iff`), i.e. `|v| < 2^256` (ffg: `|v| < 2^64`);
    `v = 2^256` (ffg: `2^64`) is a concrete `false` instance — the Go code would panic with an index out of range.
    That is why its only caller `SetBigInt` calls it directly only for `0 ≤ v < q` and REDUCES FIRST otherwise;
    `SetBigInt_ok`, `SetBytes_ok` are `true` for every argument.
  * `SetString(s)` panics BY DESIGN on a string that `big.Int.SetString(s, 10)` rejects:
    `ffl_Element_SetString_ok z s = true ↔ (Go.big.setString s 10).2 = true`; `"12a"` is a concrete `false` instance.
-/
import I3.Lemmas.GoSafeFF

set_option maxRecDepth 100000

namespace I3.Props.C11Safe
open I3 I3.Go I3.Gen.Go I3.GoSafe I3.GoBridge I3.GoBridge.FFLimb

/-! ## the T2 kernel wrappers return lists of the right length -/

/-- **`ffl_mul`, `ffl_fromMont`, `ffl_neg` (and the other wrappers) return four limbs**, for ANY argument lists. -/
theorem ffl_kernel_lengths (x y : List Nat) :
    (Go.Ext.ffl_mul x y).length = 4 ∧ (Go.Ext.ffl_fromMont x).length = 4 ∧ (Go.Ext.ffl_neg x).length = 4 ∧
    (Go.Ext.ffl_square x).length = 4 ∧ (Go.Ext.ffl_add x y).length = 4 ∧ (Go.Ext.ffl_sub x y).length = 4 ∧
    (Go.Ext.ffl_double x).length = 4 :=
  ⟨rfl, rfl, rfl, rfl, rfl, rfl, rfl⟩

/-- **`ffgl_mul`, `ffgl_fromMont`, `ffgl_neg` (and the other wrappers) return one limb**, for ANY argument lists. -/
theorem ffgl_kernel_lengths (x y : List Nat) :
    (Go.Ext.ffgl_mul x y).length = 1 ∧ (Go.Ext.ffgl_fromMont x).length = 1 ∧ (Go.Ext.ffgl_neg x).length = 1 ∧
    (Go.Ext.ffgl_square x).length = 1 ∧ (Go.Ext.ffgl_add x y).length = 1 ∧ (Go.Ext.ffgl_sub x y).length = 1 ∧
    (Go.Ext.ffgl_double x).length = 1 :=
  ⟨rfl, rfl, rfl, rfl, rfl, rfl, rfl⟩

/-! ## /repo/ff — `Element = [4]uint64` -/

/-! ### constants, machine words -/

theorem ffl_Modulus_ok_true : ffl_Modulus_ok = true := rfl
theorem ffl_NewElement_ok_true : ffl_NewElement_ok = true := rfl

/-- **`NewElementFromUint64(v)`** / **`z.SetUint64(v)`**: every word, every destination (not read, not indexed). -/
theorem ffl_NewElementFromUint64_ok_true (v : Nat) : ffl_NewElementFromUint64_ok v = true := rfl
theorem ffl_Element_SetUint64_ok_true (z : List Nat) (v : Nat) : ffl_Element_SetUint64_ok z v = true := rfl

/-- **`z.ToMont()`** / **`z.ToRegular()`**: any list (only the kernel wrapper touches it). -/
theorem ffl_Element_ToMont_ok_true (z : List Nat) : ffl_Element_ToMont_ok z = true := rfl
theorem ffl_Element_ToRegular_ok_true (z : List Nat) : ffl_Element_ToRegular_ok z = true := rfl

/-! ### `SetZero`, `SetOne`, `Set`, `One` -/

/-- **`z.SetZero()`**: a destination of four limbs, any contents. -/
theorem ffl_Element_SetZero_ok_true {z : List Nat} (hz : z.length = 4) : ffl_Element_SetZero_ok z = true := by
  obtain ⟨a, b, c, d, rfl⟩ := length_four hz; rfl

/-- **`z.SetOne()`**: a destination of four limbs, any contents. -/
theorem ffl_Element_SetOne_ok_true {z : List Nat} (hz : z.length = 4) : ffl_Element_SetOne_ok z = true := by
  obtain ⟨a, b, c, d, rfl⟩ := length_four hz; rfl

/-- **`z.Set(x)`**: destination and source of four limbs, any contents. -/
theorem ffl_Element_Set_ok_true {z x : List Nat} (hz : z.length = 4) (hx : x.length = 4) :
    ffl_Element_Set_ok z x = true := by
  obtain ⟨a, b, c, d, rfl⟩ := length_four hz
  obtain ⟨a', b', c', d', rfl⟩ := length_four hx
  rfl

/-- **`One()`** -/
theorem ffl_One_ok_true : ffl_One_ok = true := rfl

/-! ### observers that read the limbs directly -/

/-- **`z.Equal(x)`**: two lists of four limbs, any contents. -/
theorem ffl_Element_Equal_ok_true {z x : List Nat} (hz : z.length = 4) (hx : x.length = 4) :
    ffl_Element_Equal_ok z x = true := by
  obtain ⟨a, b, c, d, rfl⟩ := length_four hz
  obtain ⟨a', b', c', d', rfl⟩ := length_four hx
  unfold ffl_Element_Equal_ok
  simp only [inRange4_0, inRange4_1, inRange4_2, inRange4_3, Bool.or_true, req_true]

/-- **`z.IsZero()`** -/
theorem ffl_Element_IsZero_ok_true {z : List Nat} (hz : z.length = 4) : ffl_Element_IsZero_ok z = true := by
  obtain ⟨a, b, c, d, rfl⟩ := length_four hz; rfl

/-- **`z.IsUint64()`** -/
theorem ffl_Element_IsUint64_ok_true {z : List Nat} (hz : z.length = 4) : ffl_Element_IsUint64_ok z = true := by
  obtain ⟨a, b, c, d, rfl⟩ := length_four hz; rfl

/-- **`z.BitLen()`**: whichever limb is the highest non-zero one. -/
theorem ffl_Element_BitLen_ok_true {z : List Nat} (hz : z.length = 4) : ffl_Element_BitLen_ok z = true := by
  obtain ⟨a, b, c, d, rfl⟩ := length_four hz
  unfold ffl_Element_BitLen_ok
  simp only [inRange4_0, inRange4_1, inRange4_2, inRange4_3, req_true, ite_self]

/-- **`z.Bit(i)`**: EVERY bit index (`i ≥ 256` returns 0 before indexing). -/
theorem ffl_Element_Bit_ok_true {z : List Nat} (hz : z.length = 4) (i : Nat) : ffl_Element_Bit_ok z i = true := by
  unfold ffl_Element_Bit_ok
  dsimp only
  have h64 : ((64 : Nat) != 0) = true := by decide
  rw [req_of h64]
  split
  · rfl
  · next hj =>
    have hj' : i / 64 < 4 := by simpa using hj
    rw [req_of (inRange_of (by omega) (by rw [hz]; omega)), req_of h64]

/-- **`z.ToBigInt(res)`** (the Montgomery words as an integer): four limbs, any contents, every `res`.  The four
    `PutUint64(b[lo:hi], …)` write into 8-byte windows of the local `[32]byte`. -/
theorem ffl_Element_ToBigInt_ok_true {z : List Nat} (hz : z.length = 4) (res : Int) :
    ffl_Element_ToBigInt_ok z res = true := by
  obtain ⟨a, b, c, d, rfl⟩ := length_four hz
  unfold ffl_Element_ToBigInt_ok
  dsimp only
  rw [req_of (inRange4_0 ..),
    req_of (sliceOk_len (n := 32) (by simp only [List.length_replicate]) (by decide)),
    req_of (be64_fits _ (by decide)), req_of (inRange4_1 ..),
    req_of (sliceOk_len (n := 32) (by simp only [length_copyInto, List.length_replicate]) (by decide)),
    req_of (be64_fits _ (by decide)), req_of (inRange4_2 ..),
    req_of (sliceOk_len (n := 32) (by simp only [length_copyInto, List.length_replicate]) (by decide)),
    req_of (be64_fits _ (by decide)), req_of (inRange4_3 ..),
    req_of (sliceOk_len (n := 32) (by simp only [length_copyInto, List.length_replicate]) (by decide)),
    req_of (be64_fits _ (by decide))]

/-! ### observers that convert out of Montgomery form first: no hypothesis -/

/-- **`z.ToBigIntRegular(res)`**: ANY list (`fromMont` returns four limbs), every `res`. -/
theorem ffl_Element_ToBigIntRegular_ok_true (z : List Nat) (res : Int) :
    ffl_Element_ToBigIntRegular_ok z res = true := by
  unfold ffl_Element_ToBigIntRegular_ok
  dsimp only
  rw [req_of (ffl_Element_ToBigInt_ok_true (ffl_fromMont_length z) res)]

/-- **`z.Bytes()`**: ANY list. -/
theorem ffl_Element_Bytes_ok_true (z : List Nat) : ffl_Element_Bytes_ok z = true := by
  unfold ffl_Element_Bytes_ok
  dsimp only
  have hw : (ffl_Element_ToRegular z).length = 4 := rfl
  generalize ffl_Element_ToRegular z = w at hw ⊢
  obtain ⟨a, b, c, d, rfl⟩ := length_four hw
  rw [req_of (ffl_Element_ToRegular_ok_true z), req_of (inRange4_0 ..),
    req_of (sliceOk_len (n := 32) (by simp only [List.length_replicate]) (by decide)),
    req_of (be64_fits _ (by decide)), req_of (inRange4_1 ..),
    req_of (sliceOk_len (n := 32) (by simp only [length_copyInto, List.length_replicate]) (by decide)),
    req_of (be64_fits _ (by decide)), req_of (inRange4_2 ..),
    req_of (sliceOk_len (n := 32) (by simp only [length_copyInto, List.length_replicate]) (by decide)),
    req_of (be64_fits _ (by decide)), req_of (inRange4_3 ..),
    req_of (sliceOk_len (n := 32) (by simp only [length_copyInto, List.length_replicate]) (by decide)),
    req_of (be64_fits _ (by decide))]

/-- **`z.Marshal()`**: ANY list. -/
theorem ffl_Element_Marshal_ok_true (z : List Nat) : ffl_Element_Marshal_ok z = true := by
  unfold ffl_Element_Marshal_ok
  rw [req_of (ffl_Element_Bytes_ok_true z)]

/-- **`z.Cmp(x)`**: ANY two lists; every outcome of the limb-wise comparison. -/
theorem ffl_Element_Cmp_ok_true (z x : List Nat) : ffl_Element_Cmp_ok z x = true := by
  unfold ffl_Element_Cmp_ok
  dsimp only
  have hz := ffl_fromMont_length z
  have hx := ffl_fromMont_length x
  generalize Go.Ext.ffl_fromMont z = w at hz ⊢
  generalize Go.Ext.ffl_fromMont x = u at hx ⊢
  obtain ⟨a, b, c, d, rfl⟩ := length_four hz
  obtain ⟨a', b', c', d', rfl⟩ := length_four hx
  simp only [inRange4_0, inRange4_1, inRange4_2, inRange4_3, req_true, ite_self]

/-- **`z.LexicographicallyLargest()`**: ANY list. -/
theorem ffl_Element_LexicographicallyLargest_ok_true (z : List Nat) :
    ffl_Element_LexicographicallyLargest_ok z = true := by
  unfold ffl_Element_LexicographicallyLargest_ok
  dsimp only
  have hz := ffl_fromMont_length z
  generalize Go.Ext.ffl_fromMont z = w at hz ⊢
  obtain ⟨a, b, c, d, rfl⟩ := length_four hz
  simp only [inRange4_0, inRange4_1, inRange4_2, inRange4_3, req_true]

/-- **`z.String()`**: ANY list; all three branches (small value, small negated value, general). -/
theorem ffl_Element_String_ok_true (z : List Nat) : ffl_Element_String_ok z = true := by
  unfold ffl_Element_String_ok
  dsimp only
  have h1 := ffl_fromMont_length z
  have h2 := ffl_fromMont_length (Go.Ext.ffl_neg z)
  generalize Go.Ext.ffl_fromMont z = zz at h1 ⊢
  generalize Go.Ext.ffl_fromMont (Go.Ext.ffl_neg z) = zn at h2 ⊢
  rw [req_of (ffl_Element_IsUint64_ok_true h1)]
  split
  · rw [req_of (inRange_of (by decide) (by rw [h1]; decide))]
  · rw [req_of (ffl_Element_IsUint64_ok_true h2)]
    split
    · rw [req_of (inRange_of (by decide) (by rw [h2]; decide))]
    · rw [req_of (ffl_Element_ToBigInt_ok_true h1 _)]

/-! ### constructors from integers, bytes, strings -/

/-- **the unexported `z.setBigInt(v)`, EXACTLY**: it copies `len(v.Bits())` words into the array, so it is
    panic-free iff they fit (any destination contents, any sign of `v`: `Bits` is of `|v|`). -/
theorem ffl_Element_setBigInt_ok_iff (z : List Nat) (v : Int) :
    ffl_Element_setBigInt_ok z v = true ↔ (Go.big.bits v).length ≤ z.length := by
  unfold ffl_Element_setBigInt_ok
  dsimp only
  rw [if_pos rfl]
  generalize hr : Go.forRangeRet _ _ _ _ = r
  obtain ⟨h1, h2⟩ := copyLoop_spec _ _ hr (fun _ _ => rfl)
  obtain ⟨ret, zs⟩ := r
  by_cases hle : (Go.big.bits v).length ≤ z.length
  · obtain ⟨e1, -⟩ := h1 hle
    dsimp only at e1
    subst e1
    exact iff_of_true rfl hle
  · have e2 := h2 (by omega)
    dsimp only at e2
    subst e2
    exact iff_of_false Bool.false_ne_true hle

/-- the same frontier on a four-limb destination, in numbers: `|v| < 2^256`. -/
theorem ffl_Element_setBigInt_ok_iff_lt {z : List Nat} (hz : z.length = 4) (v : Int) :
    ffl_Element_setBigInt_ok z v = true ↔ v.natAbs < 2 ^ 256 := by
  rw [ffl_Element_setBigInt_ok_iff, hz, bits_length_le_iff]
  exact Iff.rfl

/-- **`z.setBigInt(v)` for `0 ≤ v < q`** (what its only caller guarantees): four limbs suffice. -/
theorem ffl_Element_setBigInt_ok_true {z : List Nat} (hz : z.length = 4) {v : Int} (h0 : 0 ≤ v)
    (hv : v < ((Gen.ff_modulus : Nat) : Int)) : ffl_Element_setBigInt_ok z v = true := by
  rw [ffl_Element_setBigInt_ok_iff, hz]
  refine bits_length_le h0 (Int.lt_trans hv ?_)
  rw [FFLimb.ff_modulus_q]
  exact_mod_cast q_lt_R

/-- a too large argument: `setBigInt(2^256)` would index `z[4]` — the reason why `SetBigInt` reduces first. -/
theorem ffl_Element_setBigInt_ok_false : ffl_Element_setBigInt_ok [0, 0, 0, 0] (2 ^ 256) = false := by
  decide +kernel

/-- **`z.SetBigInt(v)`**: a destination of four limbs (any contents) and EVERY integer — negative, `≥ q`, huge. -/
theorem ffl_Element_SetBigInt_ok_true {z : List Nat} (hz : z.length = 4) (v : Int) :
    ffl_Element_SetBigInt_ok z v = true := by
  have hS := ffl_Element_SetZero_eq hz
  have h4 : ([0, 0, 0, 0] : List Nat).length = 4 := rfl
  have hM : (((Gen.ff_modulus : Nat) : Int) != 0) = true := by decide
  have hpos : (0 : Int) < ((Gen.ff_modulus : Nat) : Int) := by decide
  go_delta ffl_Element_SetBigInt_ok
  dsimp only
  rw [req_of (ffl_Element_SetZero_ok_true hz), hS]
  dsimp only
  split
  · rfl
  · next hc0 =>
    split
    · next hc1 =>
      obtain ⟨k0, k1⟩ := cmp_range hc0 hc1
      rw [req_of (ffl_Element_setBigInt_ok_true h4 k0 k1)]
    · rw [req_of hM, req_of (ffl_Element_setBigInt_ok_true h4 (v := Go.big.mod v ((Gen.ff_modulus : Nat) : Int))
        (Int.emod_nonneg _ (by omega)) (Int.emod_lt_of_pos _ hpos))]

/-- **`z.SetBytes(bs)`**: a destination of four limbs and EVERY byte string (empty, longer than 32 bytes). -/
theorem ffl_Element_SetBytes_ok_true {z : List Nat} (hz : z.length = 4) (bs : List UInt8) :
    ffl_Element_SetBytes_ok z bs = true := by
  obtain ⟨l, hl, -⟩ := ffl_Element_SetBigInt_pair hz (Go.big.setBytes bs)
  ffl_open2 ffl_Element_SetBytes_ok z bs
  ffl_head_whnf
  rw [req_of (ffl_Element_SetBigInt_ok_true hz _), hl]

/-- **`z.SetString(s)`, EXACTLY**: panic-free iff `big.Int.SetString(s, 10)` accepts the string (an optional sign
    followed by one or more decimal digits); on every other string the Go code panics BY DESIGN
    ("Element.SetString failed -> can't parse number in base10 into a big.Int"). -/
theorem ffl_Element_SetString_ok_iff {z : List Nat} (hz : z.length = 4) (s : String) :
    ffl_Element_SetString_ok z s = true ↔ (Go.big.setString s 10).2 = true := by
  ffl_open2 ffl_Element_SetString_ok z s
  rcases hs : Go.big.setString s 10 with ⟨v, ok⟩
  rcases ok with _ | _
  · refine iff_of_false ?_ Bool.false_ne_true
    rw [Bool.not_eq_true]
    ffl_head_whnf
    rw [if_pos (by decide)]
  · refine iff_of_true ?_ rfl
    obtain ⟨l, hl, -⟩ := ffl_Element_SetBigInt_pair hz v
    ffl_head_whnf
    rw [if_neg (by decide), req_of (ffl_Element_SetBigInt_ok_true hz _), hl]

/-- every decimal rendering of an integer is accepted -/
theorem ffl_Element_SetString_ok_toString {z : List Nat} (hz : z.length = 4) (v : Int) :
    ffl_Element_SetString_ok z (toString v) = true := by
  rw [ffl_Element_SetString_ok_iff hz, setString_toString]

/-- a string that is not a decimal integer: the Go code panics (by design). -/
theorem ffl_Element_SetString_ok_false : ffl_Element_SetString_ok [0, 0, 0, 0] "12a" = false := by
  decide +kernel

/-! ## /repo/ffg — `Element = [1]uint64` -/

/-! ### constants, machine words -/

theorem ffgl_Modulus_ok_true : ffgl_Modulus_ok = true := rfl
theorem ffgl_NewElement_ok_true : ffgl_NewElement_ok = true := rfl

/-- **`NewElementFromUint64(v)`** / **`z.SetUint64(v)`**: every word, every destination (not read, not indexed). -/
theorem ffgl_NewElementFromUint64_ok_true (v : Nat) : ffgl_NewElementFromUint64_ok v = true := rfl
theorem ffgl_Element_SetUint64_ok_true (z : List Nat) (v : Nat) : ffgl_Element_SetUint64_ok z v = true := rfl

/-- **`z.ToMont()`** / **`z.ToRegular()`**: any list (only the kernel wrapper touches it). -/
theorem ffgl_Element_ToMont_ok_true (z : List Nat) : ffgl_Element_ToMont_ok z = true := rfl
theorem ffgl_Element_ToRegular_ok_true (z : List Nat) : ffgl_Element_ToRegular_ok z = true := rfl

/-! ### `SetZero`, `SetOne`, `Set`, `One` -/

/-- **`z.SetZero()`**: a destination of one limb, any contents. -/
theorem ffgl_Element_SetZero_ok_true {z : List Nat} (hz : z.length = 1) : ffgl_Element_SetZero_ok z = true := by
  obtain ⟨a, rfl⟩ := length_one hz; rfl

/-- **`z.SetOne()`**: a destination of one limb, any contents. -/
theorem ffgl_Element_SetOne_ok_true {z : List Nat} (hz : z.length = 1) : ffgl_Element_SetOne_ok z = true := by
  obtain ⟨a, rfl⟩ := length_one hz; rfl

/-- **`z.Set(x)`**: destination and source of one limb, any contents. -/
theorem ffgl_Element_Set_ok_true {z x : List Nat} (hz : z.length = 1) (hx : x.length = 1) :
    ffgl_Element_Set_ok z x = true := by
  obtain ⟨a, rfl⟩ := length_one hz
  obtain ⟨a', rfl⟩ := length_one hx
  rfl

/-- **`One()`** -/
theorem ffgl_One_ok_true : ffgl_One_ok = true := rfl

/-! ### observers that read the limb directly -/

/-- **`z.Equal(x)`**: two lists of one limb, any contents. -/
theorem ffgl_Element_Equal_ok_true {z x : List Nat} (hz : z.length = 1) (hx : x.length = 1) :
    ffgl_Element_Equal_ok z x = true := by
  obtain ⟨a, rfl⟩ := length_one hz
  obtain ⟨a', rfl⟩ := length_one hx
  rfl

/-- **`z.IsZero()`** -/
theorem ffgl_Element_IsZero_ok_true {z : List Nat} (hz : z.length = 1) : ffgl_Element_IsZero_ok z = true := by
  obtain ⟨a, rfl⟩ := length_one hz; rfl

/-- **`z.IsUint64()`** (constantly `true` for a one-limb element: nothing is indexed). -/
theorem ffgl_Element_IsUint64_ok_true (z : List Nat) : ffgl_Element_IsUint64_ok z = true := rfl

/-- **`z.BitLen()`** -/
theorem ffgl_Element_BitLen_ok_true {z : List Nat} (hz : z.length = 1) : ffgl_Element_BitLen_ok z = true := by
  obtain ⟨a, rfl⟩ := length_one hz; rfl

/-- **`z.Bit(i)`**: EVERY bit index (`i ≥ 64` returns 0 before indexing). -/
theorem ffgl_Element_Bit_ok_true {z : List Nat} (hz : z.length = 1) (i : Nat) : ffgl_Element_Bit_ok z i = true := by
  unfold ffgl_Element_Bit_ok
  dsimp only
  have h64 : ((64 : Nat) != 0) = true := by decide
  rw [req_of h64]
  split
  · rfl
  · next hj =>
    have hj' : i / 64 < 1 := by simpa using hj
    rw [req_of (inRange_of (by omega) (by rw [hz]; omega)), req_of h64]

/-- **`z.ToBigInt(res)`** (the Montgomery word as an integer): one limb, any contents, every `res`. -/
theorem ffgl_Element_ToBigInt_ok_true {z : List Nat} (hz : z.length = 1) (res : Int) :
    ffgl_Element_ToBigInt_ok z res = true := by
  obtain ⟨a, rfl⟩ := length_one hz
  unfold ffgl_Element_ToBigInt_ok
  dsimp only
  rw [req_of (inRange1_0 ..),
    req_of (sliceOk_len (n := 8) (by simp only [List.length_replicate]) (by decide)),
    req_of (be64_fits _ (by decide))]

/-! ### observers that convert out of Montgomery form first: no hypothesis -/

/-- **`z.ToBigIntRegular(res)`**: ANY list (`fromMont` returns one limb), every `res`. -/
theorem ffgl_Element_ToBigIntRegular_ok_true (z : List Nat) (res : Int) :
    ffgl_Element_ToBigIntRegular_ok z res = true := by
  unfold ffgl_Element_ToBigIntRegular_ok
  dsimp only
  rw [req_of (ffgl_Element_ToBigInt_ok_true (ffgl_fromMont_length z) res)]

/-- **`z.ToUint64Regular()`**: ANY list. -/
theorem ffgl_Element_ToUint64Regular_ok_true (z : List Nat) : ffgl_Element_ToUint64Regular_ok z = true := rfl

/-- **`z.Bytes()`**: ANY list. -/
theorem ffgl_Element_Bytes_ok_true (z : List Nat) : ffgl_Element_Bytes_ok z = true := by
  unfold ffgl_Element_Bytes_ok
  dsimp only
  have hw : (ffgl_Element_ToRegular z).length = 1 := rfl
  generalize ffgl_Element_ToRegular z = w at hw ⊢
  obtain ⟨a, rfl⟩ := length_one hw
  rw [req_of (ffgl_Element_ToRegular_ok_true z), req_of (inRange1_0 ..),
    req_of (sliceOk_len (n := 8) (by simp only [List.length_replicate]) (by decide)),
    req_of (be64_fits _ (by decide))]

/-- **`z.Marshal()`**: ANY list. -/
theorem ffgl_Element_Marshal_ok_true (z : List Nat) : ffgl_Element_Marshal_ok z = true := by
  unfold ffgl_Element_Marshal_ok
  rw [req_of (ffgl_Element_Bytes_ok_true z)]

/-- **`z.Cmp(x)`**: ANY two lists; every outcome of the comparison. -/
theorem ffgl_Element_Cmp_ok_true (z x : List Nat) : ffgl_Element_Cmp_ok z x = true := by
  unfold ffgl_Element_Cmp_ok
  dsimp only
  have hz := ffgl_fromMont_length z
  have hx := ffgl_fromMont_length x
  generalize Go.Ext.ffgl_fromMont z = w at hz ⊢
  generalize Go.Ext.ffgl_fromMont x = u at hx ⊢
  obtain ⟨a, rfl⟩ := length_one hz
  obtain ⟨a', rfl⟩ := length_one hx
  simp only [inRange1_0, req_true, ite_self]

/-- **`z.LexicographicallyLargest()`**: ANY list. -/
theorem ffgl_Element_LexicographicallyLargest_ok_true (z : List Nat) :
    ffgl_Element_LexicographicallyLargest_ok z = true := rfl

/-- **`z.String()`**: ANY list; all three branches. -/
theorem ffgl_Element_String_ok_true (z : List Nat) : ffgl_Element_String_ok z = true := by
  unfold ffgl_Element_String_ok
  dsimp only
  have h1 := ffgl_fromMont_length z
  have h2 := ffgl_fromMont_length (Go.Ext.ffgl_neg z)
  generalize Go.Ext.ffgl_fromMont z = zz at h1 ⊢
  generalize Go.Ext.ffgl_fromMont (Go.Ext.ffgl_neg z) = zn at h2 ⊢
  rw [req_of (ffgl_Element_IsUint64_ok_true zz)]
  split
  · rw [req_of (inRange_of (by decide) (by rw [h1]; decide))]
  · rw [req_of (ffgl_Element_IsUint64_ok_true zn)]
    split
    · rw [req_of (inRange_of (by decide) (by rw [h2]; decide))]
    · rw [req_of (ffgl_Element_ToBigInt_ok_true h1 _)]

/-! ### constructors from integers, bytes, strings -/

/-- **the unexported `z.setBigInt(v)`, EXACTLY**: panic-free iff the words of `|v|` fit into the array. -/
theorem ffgl_Element_setBigInt_ok_iff (z : List Nat) (v : Int) :
    ffgl_Element_setBigInt_ok z v = true ↔ (Go.big.bits v).length ≤ z.length := by
  unfold ffgl_Element_setBigInt_ok
  dsimp only
  rw [if_pos rfl]
  generalize hr : Go.forRangeRet _ _ _ _ = r
  obtain ⟨h1, h2⟩ := copyLoop_spec _ _ hr (fun _ _ => rfl)
  obtain ⟨ret, zs⟩ := r
  by_cases hle : (Go.big.bits v).length ≤ z.length
  · obtain ⟨e1, -⟩ := h1 hle
    dsimp only at e1
    subst e1
    exact iff_of_true rfl hle
  · have e2 := h2 (by omega)
    dsimp only at e2
    subst e2
    exact iff_of_false Bool.false_ne_true hle

/-- the same frontier on a one-limb destination, in numbers: `|v| < 2^64`. -/
theorem ffgl_Element_setBigInt_ok_iff_lt {z : List Nat} (hz : z.length = 1) (v : Int) :
    ffgl_Element_setBigInt_ok z v = true ↔ v.natAbs < 2 ^ 64 := by
  rw [ffgl_Element_setBigInt_ok_iff, hz, bits_length_le_iff]
  exact Iff.rfl

/-- **`z.setBigInt(v)` for `0 ≤ v < p`** (what its only caller guarantees): one limb suffices. -/
theorem ffgl_Element_setBigInt_ok_true {z : List Nat} (hz : z.length = 1) {v : Int} (h0 : 0 ≤ v)
    (hv : v < ((Gen.ffg_modulus : Nat) : Int)) : ffgl_Element_setBigInt_ok z v = true := by
  rw [ffgl_Element_setBigInt_ok_iff, hz]
  refine bits_length_le h0 (Int.lt_trans hv ?_)
  rw [FFLimb.ffg_modulus_gp, Nat.pow_one]
  exact_mod_cast gp_lt_W

/-- a too large argument: `setBigInt(2^64)` would index `z[1]` — the reason why `SetBigInt` reduces first. -/
theorem ffgl_Element_setBigInt_ok_false : ffgl_Element_setBigInt_ok [0] (2 ^ 64) = false := by
  decide +kernel

/-- **`z.SetBigInt(v)`**: a destination of one limb (any contents) and EVERY integer — negative, `≥ p`, huge. -/
theorem ffgl_Element_SetBigInt_ok_true {z : List Nat} (hz : z.length = 1) (v : Int) :
    ffgl_Element_SetBigInt_ok z v = true := by
  have hS := ffgl_Element_SetZero_eq hz
  have h4 : ([0] : List Nat).length = 1 := rfl
  have hM : (((Gen.ffg_modulus : Nat) : Int) != 0) = true := by decide
  have hpos : (0 : Int) < ((Gen.ffg_modulus : Nat) : Int) := by decide
  go_delta ffgl_Element_SetBigInt_ok
  dsimp only
  rw [req_of (ffgl_Element_SetZero_ok_true hz), hS]
  dsimp only
  split
  · rfl
  · next hc0 =>
    split
    · next hc1 =>
      obtain ⟨k0, k1⟩ := cmp_range hc0 hc1
      rw [req_of (ffgl_Element_setBigInt_ok_true h4 k0 k1)]
    · rw [req_of hM, req_of (ffgl_Element_setBigInt_ok_true h4 (v := Go.big.mod v ((Gen.ffg_modulus : Nat) : Int))
        (Int.emod_nonneg _ (by omega)) (Int.emod_lt_of_pos _ hpos))]

/-- **`z.SetBytes(bs)`**: a destination of one limb and EVERY byte string (empty, longer than 8 bytes). -/
theorem ffgl_Element_SetBytes_ok_true {z : List Nat} (hz : z.length = 1) (bs : List UInt8) :
    ffgl_Element_SetBytes_ok z bs = true := by
  obtain ⟨l, hl, -⟩ := ffgl_Element_SetBigInt_pair hz (Go.big.setBytes bs)
  ffl_open2 ffgl_Element_SetBytes_ok z bs
  ffl_head_whnf
  rw [req_of (ffgl_Element_SetBigInt_ok_true hz _), hl]

/-- **`z.SetString(s)`, EXACTLY**: panic-free iff `big.Int.SetString(s, 10)` accepts the string; on every other
    string the Go code panics BY DESIGN. -/
theorem ffgl_Element_SetString_ok_iff {z : List Nat} (hz : z.length = 1) (s : String) :
    ffgl_Element_SetString_ok z s = true ↔ (Go.big.setString s 10).2 = true := by
  ffl_open2 ffgl_Element_SetString_ok z s
  rcases hs : Go.big.setString s 10 with ⟨v, ok⟩
  rcases ok with _ | _
  · refine iff_of_false ?_ Bool.false_ne_true
    rw [Bool.not_eq_true]
    ffl_head_whnf
    rw [if_pos (by decide)]
  · refine iff_of_true ?_ rfl
    obtain ⟨l, hl, -⟩ := ffgl_Element_SetBigInt_pair hz v
    ffl_head_whnf
    rw [if_neg (by decide), req_of (ffgl_Element_SetBigInt_ok_true hz _), hl]

/-- every decimal rendering of an integer is accepted -/
theorem ffgl_Element_SetString_ok_toString {z : List Nat} (hz : z.length = 1) (v : Int) :
    ffgl_Element_SetString_ok z (toString v) = true := by
  rw [ffgl_Element_SetString_ok_iff hz, setString_toString]

/-- a string that is not a decimal integer: the Go code panics (by design). -/
theorem ffgl_Element_SetString_ok_false : ffgl_Element_SetString_ok [0] "12a" = false := by
  decide +kernel

end I3.Props.C11Safe
