/-
  I3.Props.C01W6 — property C01 at width t = 6 (R_F = 8, R_P = 60).
  `tables_lit_6`: the kernel evaluates the relation checker `PoseidonCheck.checkAll` on the tables
  `Gen.PT6.*` (REGENERATED from /repo/poseidon/constants.go on every run) against the literal output of
  the reference Grain generator (`Spec.GrainLit.rc_6`, `mds_6`, proved equal to the generator's output in
  I3.Spec.GrainW6); the witnesses are proposed by `computeWitnesses` inside the same evaluation.
  `tables_ok_6`: the same statement about the generator itself.
  `width_6`: hence (by `checkAll_sound`) the optimised Go loop equals the textbook Poseidon permutation
  on EVERY state of width 6.
-/
import I3.Exec.PoseidonCheck
import I3.Gen.PT6
import I3.Spec.GrainW6
import I3.Lemmas.PoseidonRefine
set_option maxRecDepth 1000000
namespace I3.Props.C01
open I3

theorem tables_lit_6 :
    PoseidonCheck.checkAll q 6 60 Spec.GrainLit.rc_6 Spec.GrainLit.mds_6
      ⟨Gen.PT6.C, Gen.PT6.S, Gen.PT6.M, Gen.PT6.P⟩
      (PoseidonCheck.computeWitnesses q 6 60 Spec.GrainLit.rc_6 Spec.GrainLit.mds_6
        ⟨Gen.PT6.C, Gen.PT6.S, Gen.PT6.M, Gen.PT6.P⟩) = true := by
  decide +kernel

theorem tables_ok_6 :
    PoseidonCheck.checkAll q 6 60 (Grain.bn254Params 6).rc (Grain.mds q (Grain.bn254Params 6))
      ⟨Gen.PT6.C, Gen.PT6.S, Gen.PT6.M, Gen.PT6.P⟩
      (PoseidonCheck.computeWitnesses q 6 60 (Grain.bn254Params 6).rc
        (Grain.mds q (Grain.bn254Params 6)) ⟨Gen.PT6.C, Gen.PT6.S, Gen.PT6.M, Gen.PT6.P⟩) = true := by
  rw [Spec.GrainLit.grain_6.1, Spec.GrainLit.grain_6.2]
  exact tables_lit_6

theorem width_6 (st : List Nat) (hst : st.length = 6) :
    Model.Poseidon.permute q 5 ⟨Gen.PT6.C, Gen.PT6.S, Gen.PT6.M, Gen.PT6.P⟩ 6 60 st =
      Hades.poseidonBN254 (Grain.bn254Params 6) st :=
  PoseidonRefine.width_of_check 6 60 (by decide) _ _ tables_ok_6 st hst

end I3.Props.C01
