/-
  I3.Props.C07GenMimc7 — the MiMC7 part of property C07 (hash entry points reject out-of-domain
  inputs instead of reducing them) about the definitions GENERATED from /repo/mimc7/mimc7.go and
  /repo/utils/utils.go by the source translator T6 (`I3.Gen.Go.mimc7_*`, `I3.Gen.Go.utils_*`,
  regenerated on every run), in place of the hand-written model.

  Every theorem is the corresponding theorem of `I3.Props.C07` with the generated function
  substituted for the model function, obtained by rewriting with the bridge equations of
  `I3.Lemmas.GoBridgeMimc7` (generated code = model, for EVERY input).

  Go types: `(*big.Int, error)` is `Int × Option String`: `(r, none)` is success, the only failure is
  `(0, some "inputs values not inside Finite Field")` (`0` stands for the `nil` `*big.Int`).
-/
import I3.Lemmas.GoBridgeMimc7
namespace I3.Props.C07GenMimc7
open I3 I3.Go I3.Gen.Go I3.GoBridge I3.GoBridge.Mimc7

/-- the error message of the MiMC7 entry points. -/
abbrev errMsg : String := "inputs values not inside Finite Field"

/-! ## the guards of `utils` -/

/-- `utils.CheckBigIntInField(a)` is exactly `0 ≤ a < q`. -/
theorem checkBigIntInField_iff (a : Int) :
    utils_CheckBigIntInField a = true ↔ 0 ≤ a ∧ a < (q : Int) := by
  rw [utils_CheckBigIntInField_eq]
  simp [Model.Mimc7.inField]

/-- `utils.CheckBigIntArrayInField(arr)` is exactly "every element is in `[0, q)`" (any length). -/
theorem checkBigIntArrayInField_iff (arr : List Int) :
    utils_CheckBigIntArrayInField arr = true ↔ ∀ x ∈ arr, 0 ≤ x ∧ x < (q : Int) := by
  rw [utils_CheckBigIntArrayInField_eq, Lemmas.Guards.mimc_all_inField_iff]

/-! ## `mimc7.Hash` -/

/-- 4a. `mimc7.Hash` accepts exactly the vectors of canonical field elements (the key is free). -/
theorem mimc7_Hash_ok_iff (arr : List Int) (key : Option Int) :
    (∃ r, mimc7_Hash arr key = (r, none)) ↔ ∀ x ∈ arr, 0 ≤ x ∧ x < (q : Int) := by
  rw [← Props.C07.mimc7_hash_ok_iff Inst.mimcCts arr key]
  simp only [mimc7_Hash_eq, toGo_eq_ok_iff]

/-- an element that is negative or `≥ q` (whatever its position): the error, and no value. -/
theorem mimc7_Hash_reject (arr : List Int) (key : Option Int)
    (h : ∃ x ∈ arr, x < 0 ∨ (q : Int) ≤ x) : mimc7_Hash arr key = (0, some errMsg) := by
  rw [mimc7_Hash_eq, Props.C07.mimc7_hash_reject _ arr key h]
  rfl

/-- there is no third outcome: success with `err = nil`, or the rejection. -/
theorem mimc7_Hash_outcomes (arr : List Int) (key : Option Int) :
    (∃ r, mimc7_Hash arr key = (r, none)) ∨ mimc7_Hash arr key = (0, some errMsg) := by
  rw [mimc7_Hash_eq]
  rcases Model.Mimc7.hash Inst.mimcCts arr key with e | r
  · exact Or.inr rfl
  · exact Or.inl ⟨r, rfl⟩

/-- the error is returned iff some element is out of range. -/
theorem mimc7_Hash_err_iff (arr : List Int) (key : Option Int) :
    (mimc7_Hash arr key).2 = some errMsg ↔ ∃ x ∈ arr, x < 0 ∨ (q : Int) ≤ x := by
  constructor
  · intro h
    apply Classical.byContradiction
    intro hno
    have hall : ∀ x ∈ arr, 0 ≤ x ∧ x < (q : Int) := by
      intro x hx
      apply Classical.byContradiction
      intro hbad
      exact hno ⟨x, hx, by omega⟩
    obtain ⟨r, hr⟩ := (mimc7_Hash_ok_iff arr key).2 hall
    rw [hr] at h
    cases h
  · intro h
    rw [mimc7_Hash_reject arr key h]

/-! ## `mimc7.HashGeneric` -/

/-- 4b. the same for `mimc7.HashGeneric`, for every iv and EVERY round count (the guard comes
    first). -/
theorem mimc7_HashGeneric_ok_iff (iv : Int) (arr : List Int) (nRounds : Int) :
    (∃ r, mimc7_HashGeneric iv arr nRounds = (r, none)) ↔ ∀ x ∈ arr, 0 ≤ x ∧ x < (q : Int) := by
  by_cases hn : 1 ≤ nRounds
  · rw [← Props.C07.mimc7_hashGeneric_ok_iff Inst.mimcSeed iv arr nRounds.toNat]
    simp only [mimc7_HashGeneric_eq iv arr nRounds hn, toGo_eq_ok_iff]
  · rw [mimc7_HashGeneric_nonpos iv arr nRounds (by omega), ← Lemmas.Guards.mimc_all_inField_iff]
    cases arr.all Model.Mimc7.inField <;> simp

theorem mimc7_HashGeneric_reject (iv : Int) (arr : List Int) (nRounds : Int)
    (h : ∃ x ∈ arr, x < 0 ∨ (q : Int) ≤ x) :
    mimc7_HashGeneric iv arr nRounds = (0, some errMsg) := by
  have hall : arr.all Model.Mimc7.inField = false := by
    rw [← Bool.not_eq_true, Lemmas.Guards.mimc_all_inField_iff]
    obtain ⟨x, hx, hbad⟩ := h
    intro hall
    have := hall x hx
    omega
  rw [GoBridge.mimc7_HashGeneric_reject iv arr nRounds hall,
    Props.C07.mimc7_hashGeneric_reject _ iv arr nRounds.toNat h]
  rfl

theorem mimc7_HashGeneric_outcomes (iv : Int) (arr : List Int) (nRounds : Int) :
    (∃ r, mimc7_HashGeneric iv arr nRounds = (r, none)) ∨
      mimc7_HashGeneric iv arr nRounds = (0, some errMsg) := by
  by_cases h : ∀ x ∈ arr, 0 ≤ x ∧ x < (q : Int)
  · exact Or.inl ((mimc7_HashGeneric_ok_iff iv arr nRounds).2 h)
  · refine Or.inr (mimc7_HashGeneric_reject iv arr nRounds ?_)
    apply Classical.byContradiction
    intro hno
    apply h
    intro x hx
    apply Classical.byContradiction
    intro hbad
    exact hno ⟨x, hx, by omega⟩

/-! ## `mimc7.HashBytes` -/

/-- 4c. `mimc7.HashBytes` never fails, for every byte string (every length): every 31-byte chunk
    is below `256^31 < q`. -/
theorem mimc7_HashBytes_ok (b : List UInt8) : ∃ r, mimc7_HashBytes b = (r, none) := by
  obtain ⟨r, hr⟩ := Props.C07.mimc7_hashBytes_ok Inst.mimcCts b
  exact ⟨r, by rw [mimc7_HashBytes_eq, hr]; rfl⟩

theorem mimc7_HashBytes_err (b : List UInt8) : (mimc7_HashBytes b).2 = none := by
  obtain ⟨r, hr⟩ := mimc7_HashBytes_ok b
  rw [hr]

/-! ## no aliasing -/

/-- 5. Two vectors accepted by `mimc7.Hash` that are component-wise congruent modulo `q` are equal:
    acceptance never identifies `x` and `x + q`. -/
theorem mimc7_no_alias (xs ys : List Int) (k1 k2 : Option Int)
    (h1 : ∃ r, mimc7_Hash xs k1 = (r, none)) (h2 : ∃ r, mimc7_Hash ys k2 = (r, none))
    (hlen : xs.length = ys.length)
    (hcong : ∀ i (h1 : i < xs.length) (h2 : i < ys.length), xs[i] % (q : Int) = ys[i] % (q : Int)) :
    xs = ys :=
  Props.C07.no_alias_mod q xs ys ((mimc7_Hash_ok_iff xs k1).1 h1) ((mimc7_Hash_ok_iff ys k2).1 h2)
    hlen hcong

/-- the same for `mimc7.HashGeneric`. -/
theorem mimc7_generic_no_alias (xs ys : List Int) (iv1 iv2 n1 n2 : Int)
    (h1 : ∃ r, mimc7_HashGeneric iv1 xs n1 = (r, none))
    (h2 : ∃ r, mimc7_HashGeneric iv2 ys n2 = (r, none))
    (hlen : xs.length = ys.length)
    (hcong : ∀ i (h1 : i < xs.length) (h2 : i < ys.length), xs[i] % (q : Int) = ys[i] % (q : Int)) :
    xs = ys :=
  Props.C07.no_alias_mod q xs ys ((mimc7_HashGeneric_ok_iff iv1 xs n1).1 h1)
    ((mimc7_HashGeneric_ok_iff iv2 ys n2).1 h2) hlen hcong

/-! ## the hash selector used by EdDSA -/

/-- `I3.Inst.hMimc7` (the MiMC7 instance of the EdDSA models) is the generated `Hash(l, nil)`. -/
theorem hMimc7_eq (l : List Int) :
    Inst.hMimc7 l =
      if (mimc7_Hash l none).2.isSome then none else some (mimc7_Hash l none).1.toNat :=
  GoBridge.mimc7_hMimc7_eq l

theorem hMimc7_isSome_iff (l : List Int) :
    (Inst.hMimc7 l).isSome ↔ ∀ x ∈ l, 0 ≤ x ∧ x < (q : Int) := by
  rw [← mimc7_Hash_ok_iff l none, mimc7_Hash_none_eq]
  cases Inst.hMimc7 l <;> simp

/-! ## non-vacuity (the generated code evaluated by the kernel where no Keccak is needed) -/

example : utils_CheckBigIntInField ((q : Int) - 1) = true ∧ utils_CheckBigIntInField (q : Int) = false ∧
    utils_CheckBigIntInField (-1) = false ∧ utils_CheckBigIntInField 0 = true := by decide +kernel
example : utils_CheckBigIntArrayInField [1, (q : Int) - 1] = true ∧
    utils_CheckBigIntArrayInField [1, (q : Int), 2] = false ∧ utils_CheckBigIntArrayInField [] = true := by
  decide +kernel
example : utils_SwapEndianness [1, 2, 3] = [3, 2, 1] := by decide +kernel
example : utils_SetBigIntFromLEBytes 7 [1, 2] = (513, 513) := by decide +kernel

/-- rejection, evaluated directly on the generated code … -/
example : mimc7_Hash [1, (q : Int)] none = (0, some errMsg) := by decide +kernel
example : mimc7_Hash [1, -1] (some 5) = (0, some errMsg) := by decide +kernel
example : mimc7_HashGeneric 0 [(q : Int) + 1] 3 = (0, some errMsg) := by decide +kernel
/-- … and through the theorems. -/
example : mimc7_Hash [1, (q : Int)] none = (0, some errMsg) :=
  mimc7_Hash_reject _ _ ⟨(q : Int), by decide, by decide⟩
example : ∃ r, mimc7_Hash [1, (q : Int) - 1] (some (-3)) = (r, none) :=
  (mimc7_Hash_ok_iff _ _).2 (by decide)
example : ¬ ∃ r, mimc7_HashGeneric 0 [(q : Int) + 1] 3 = (r, none) := by
  rw [mimc7_HashGeneric_ok_iff]; decide
example : ∃ r, mimc7_HashGeneric (-5) [0, (q : Int) - 1] 3 = (r, none) :=
  (mimc7_HashGeneric_ok_iff _ _ _).2 (by decide)
example : ∃ r, mimc7_HashBytes (List.replicate 40 0xff) = (r, none) := mimc7_HashBytes_ok _
/-- the range hypotheses of `mimc7_no_alias` matter: `1` and `q + 1` are congruent but only one is
    accepted. -/
example : (∃ r, mimc7_Hash [1] none = (r, none)) ∧ ¬ ∃ r, mimc7_Hash [(q : Int) + 1] none = (r, none) := by
  rw [mimc7_Hash_ok_iff, mimc7_Hash_ok_iff]; decide

end I3.Props.C07GenMimc7
