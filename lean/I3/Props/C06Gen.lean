/-
  I3.Props.C06Gen — point compression: the headline theorems of I3.Props.C06 restated about the
  definitions GENERATED from /repo/babyjub/babyjub.go by the source translator T6
  (`babyjub_Point_Compress`, `babyjub_Point_Decompress`, `babyjub_PointFromSignAndY`,
  `babyjub_PackSignY`, `babyjub_UnpackSignY`), obtained from the C06 theorems by rewriting with the
  bridge lemmas of I3.Lemmas.GoBridgeBabyjub.

  Conventions of the translation: `recv.Decompress(b)` is
  `babyjub_Point_Decompress recv b : (ℤ × ℤ) × Option String × (ℤ × ℤ)` = (returned point — the zero
  value `(0, 0)` stands for `nil` —, the error (`none` = nil, `some msg` = `errors.New(msg)`), the
  receiver after the call).  `b` is a `[32]byte` in Go: `b.length = 32` is the parameter TYPE, not a
  restriction.  `big.Int.ModSqrt` is `I3.Go.Ext.modSqrt`, i.e. the Tonelli–Shanks model `Inst.sqrtQ`
  proved correct in C18 (`C06.sqrtQ_spec`).

  * format: 32 bytes, little-endian canonical `y`, bit 7 of byte 31 set iff `x > (q-1)/2`;
  * `Decompress ∘ Compress = id` on every point of the curve, receiver = result;
  * `Decompress` accepts only canonical curve points whose compression is the input;
  * rejections with their messages: `"p.y >= Q"`, `"x is not a square mod q"`,
    `"x is zero but sign bit is set"`; `"division by 0"` is unreachable; receiver unchanged;
  * `Compress` is injective on curve points.
-/
import I3.Props.C06
import I3.Lemmas.GoBridgeBabyjub

set_option maxRecDepth 100000

namespace I3.Props.C06Gen

open I3 I3.Spec I3.Spec.BJJ I3.Gen.Go I3.Lemmas.CurveBridge I3.Lemmas.Compress I3.GoBridge
open I3.Model.BabyJub (Err decompress compress unpackSignY pointFromSignAndY)

/-! ## 0. the generated code is the model; reading the result triple -/

/-- the generated `Decompress` in terms of the model, with the Go error messages -/
theorem decompress_eq_model (recv : ℤ × ℤ) (b : Bytes) (hb : b.length = 32) :
    babyjub_Point_Decompress recv b =
      match decompress C06.K Inst.sqrtQ b with
      | .ok p => (p, none, p)
      | .error .yTooBig => ((0, 0), some "p.y >= Q", recv)
      | .error .divZero => ((0, 0), some "division by 0", recv)
      | .error .notSquare => ((0, 0), some "x is not a square mod q", recv)
      | .error .signOfZero => ((0, 0), some "x is zero but sign bit is set", recv) := by
  rw [babyjub_Point_Decompress_eq recv b hb]
  cases decompress K Inst.sqrtQ b with
  | ok p => rfl
  | error e => cases e <;> rfl

/-- success of the generated code is success of the model, with the same point -/
theorem decompress_ok_iff_model (recv : ℤ × ℤ) (b : Bytes) (hb : b.length = 32) (p : ℤ × ℤ) :
    ((babyjub_Point_Decompress recv b).2.1 = none ∧ (babyjub_Point_Decompress recv b).1 = p) ↔
      decompress C06.K Inst.sqrtQ b = .ok p := by
  rw [babyjub_Point_Decompress_eq recv b hb]
  exact ofExceptRecv_ok_iff recv _ p

/-- the outcome is always one of: success with receiver = result, or one of THREE error messages
with a nil result and an unchanged receiver -/
theorem decompress_cases (recv : ℤ × ℤ) (b : Bytes) (hb : b.length = 32) :
    (∃ p, babyjub_Point_Decompress recv b = (p, none, p)) ∨
      babyjub_Point_Decompress recv b = ((0, 0), some "p.y >= Q", recv) ∨
      babyjub_Point_Decompress recv b = ((0, 0), some "x is not a square mod q", recv) ∨
      babyjub_Point_Decompress recv b = ((0, 0), some "x is zero but sign bit is set", recv) := by
  rw [decompress_eq_model recv b hb]
  have hdz := C06.divZero_unreachable Inst.sqrtQ b
  cases h : decompress C06.K Inst.sqrtQ b with
  | ok p => exact Or.inl ⟨p, rfl⟩
  | error e =>
    cases e with
    | yTooBig => exact Or.inr (Or.inl rfl)
    | divZero => exact absurd h hdz
    | notSquare => exact Or.inr (Or.inr (Or.inl rfl))
    | signOfZero => exact Or.inr (Or.inr (Or.inr rfl))

/-! ## 1. format -/

/-- **compressed format**: 32 bytes; after masking bit 255 they are the little-endian canonical
`y`; bit 255 (bit 7 of byte 31) is set exactly when `x > (q-1)/2`. -/
theorem compress_format (P : curve.Point) :
    (babyjub_Point_Compress (coords P)).length = 32 ∧
      babyjub_UnpackSignY (babyjub_Point_Compress (coords P)) =
        (decide (P.x.val > (I3.q - 1) / 2), (P.y.val : ℤ)) := by
  rw [babyjub_Point_Compress_eq]
  have h := C06.compress_format P
  refine ⟨h.1, ?_⟩
  rw [babyjub_UnpackSignY_eq _ h.1, h.2]

/-- explicit bytes: without the sign the compression is `LE32(y)`, with the sign the last byte has
`0x80` or-ed in -/
theorem compress_bytes (P : curve.Point) :
    babyjub_Point_Compress (coords P) =
      if P.x.val > (I3.q - 1) / 2 then
        (natToLE 32 P.y.val).take 31 ++ [(natToLE 32 P.y.val).getD 31 0 ||| 0x80]
      else natToLE 32 P.y.val := by
  rw [babyjub_Point_Compress_eq]
  exact C06.compress_bytes P

/-- `Compress` always returns 32 bytes, for arbitrary integers -/
theorem compress_length (p : ℤ × ℤ) : (babyjub_Point_Compress p).length = 32 := by
  rw [babyjub_Point_Compress_eq]
  exact C15.compress_length _ _

/-! ## 2. round trip on curve points -/

/-- **`Decompress (Compress P) = P`** for every point of the curve (in or out of the subgroup) and
every previous content of the receiver: no error, and both the returned point and the receiver
are `P`. -/
theorem decompress_compress (recv : ℤ × ℤ) (P : curve.Point) :
    babyjub_Point_Decompress recv (babyjub_Point_Compress (coords P)) =
      (coords P, none, coords P) := by
  rw [babyjub_Point_Decompress_eq recv _ (compress_length _), babyjub_Point_Compress_eq,
    C06.decompress_compress_inst P]
  rfl

/-- the same at the level of `PointFromSignAndY` -/
theorem pointFromSignAndY_coords (P : curve.Point) :
    babyjub_PointFromSignAndY (decide (P.x.val > (I3.q - 1) / 2)) (P.y.val : ℤ) =
      (coords P, none) := by
  rw [babyjub_PointFromSignAndY_eq, ofExcept_ok_iff]
  have h := C06.decompress_compress_inst P
  rwa [decompress_def, (C06.compress_format P).2] at h

/-! ## 3. soundness of decompression -/

/-- **`Decompress` accepts only valid encodings**: if the call on 32 bytes returns no error, then
the returned point is on the curve (generated `InCurve`), canonical, its `Compress` gives back
exactly the input bytes, and the receiver holds the same point. -/
theorem decompress_sound (recv : ℤ × ℤ) (b : Bytes) (hb : b.length = 32)
    (h : (babyjub_Point_Decompress recv b).2.1 = none) :
    babyjub_Point_InCurve (babyjub_Point_Decompress recv b).1 = true ∧
      (0 ≤ (babyjub_Point_Decompress recv b).1.1 ∧ (babyjub_Point_Decompress recv b).1.1 < I3.q ∧
        0 ≤ (babyjub_Point_Decompress recv b).1.2 ∧ (babyjub_Point_Decompress recv b).1.2 < I3.q) ∧
      babyjub_Point_Compress (babyjub_Point_Decompress recv b).1 = b ∧
      (babyjub_Point_Decompress recv b).2.2 = (babyjub_Point_Decompress recv b).1 := by
  have hm := (decompress_ok_iff_model recv b hb _).1 ⟨h, rfl⟩
  have hs := C06.decompress_sound_inst b hb _ hm
  rw [babyjub_Point_InCurve_eq, babyjub_Point_Compress_eq]
  refine ⟨hs.1, hs.2.1, hs.2.2, ?_⟩
  rw [babyjub_Point_Decompress_eq recv b hb, hm]
  rfl

/-- the same with the result triple spelled out -/
theorem decompress_sound' (recv : ℤ × ℤ) (b : Bytes) (hb : b.length = 32) (p r : ℤ × ℤ)
    (h : babyjub_Point_Decompress recv b = (p, none, r)) :
    babyjub_Point_InCurve p = true ∧ (0 ≤ p.1 ∧ p.1 < I3.q ∧ 0 ≤ p.2 ∧ p.2 < I3.q) ∧
      babyjub_Point_Compress p = b ∧ r = p := by
  have hs := decompress_sound recv b hb (by rw [h])
  rw [h] at hs
  exact hs

/-- the accepted point is the canonical coordinate pair of a point of the group -/
theorem decompress_sound_point (recv : ℤ × ℤ) (b : Bytes) (hb : b.length = 32)
    (h : (babyjub_Point_Decompress recv b).2.1 = none) :
    ∃ P : curve.Point, coords P = (babyjub_Point_Decompress recv b).1 ∧
      babyjub_Point_Compress (coords P) = b := by
  have hm := (decompress_ok_iff_model recv b hb _).1 ⟨h, rfl⟩
  obtain ⟨P, h1, h2⟩ := C06.decompress_sound_point Inst.sqrtQ C06.sqrtQ_spec b hb _ hm
  exact ⟨P, h1, by rw [babyjub_Point_Compress_eq]; exact h2⟩

/-- **no malleability**: two 32-byte strings that decompress without error to the same point are
equal -/
theorem decompress_injective (r1 r2 : ℤ × ℤ) (b1 b2 : Bytes) (h1 : b1.length = 32)
    (h2 : b2.length = 32) (hd1 : (babyjub_Point_Decompress r1 b1).2.1 = none)
    (hd2 : (babyjub_Point_Decompress r2 b2).2.1 = none)
    (he : (babyjub_Point_Decompress r1 b1).1 = (babyjub_Point_Decompress r2 b2).1) : b1 = b2 := by
  have e1 := (decompress_sound r1 b1 h1 hd1).2.2.1
  have e2 := (decompress_sound r2 b2 h2 hd2).2.2.1
  rw [← e1, ← e2, he]

/-! ## 4. rejections -/

/-- a `y` part `≥ q` (non-canonical) is rejected with `"p.y >= Q"`; nil result, receiver unchanged -/
theorem decompress_yTooBig (recv : ℤ × ℤ) (b : Bytes) (hb : b.length = 32)
    (h : (I3.q : ℤ) ≤ (babyjub_UnpackSignY b).2) :
    babyjub_Point_Decompress recv b = ((0, 0), some "p.y >= Q", recv) := by
  rw [babyjub_UnpackSignY_eq b hb] at h
  dsimp only at h
  rw [decompress_eq_model recv b hb, C06.decompress_yTooBig Inst.sqrtQ b (by exact_mod_cast h)]

/-- a canonical `y` for which `(1 - y²)/(a - d y²)` is not a square (no curve point has this `y`)
is rejected with `"x is not a square mod q"` -/
theorem decompress_notSquare (recv : ℤ × ℤ) (b : Bytes) (hb : b.length = 32)
    (hy : (babyjub_UnpackSignY b).2 < (I3.q : ℤ))
    (hns : ¬ IsSquare ((1 - (((babyjub_UnpackSignY b).2 : ℤ) : ZMod I3.q) ^ 2) /
      (168700 - 168696 * (((babyjub_UnpackSignY b).2 : ℤ) : ZMod I3.q) ^ 2))) :
    babyjub_Point_Decompress recv b = ((0, 0), some "x is not a square mod q", recv) := by
  rw [babyjub_UnpackSignY_eq b hb] at hy hns
  dsimp only at hy hns
  rw [decompress_eq_model recv b hb,
    C06.decompress_notSquare Inst.sqrtQ C06.sqrtQ_spec b (by exact_mod_cast hy)
      (by simpa only [Int.cast_natCast] using hns)]

/-- the sign bit together with `x = 0` (i.e. `y² = 1`, `y ∈ {1, q-1}`) is rejected with
`"x is zero but sign bit is set"`: the encoding of `(0, ±1)` with the sign bit set is not canonical -/
theorem decompress_signOfZero (recv : ℤ × ℤ) (b : Bytes) (hb : b.length = 32)
    (hy : (babyjub_UnpackSignY b).2 < (I3.q : ℤ)) (hsign : (babyjub_UnpackSignY b).1 = true)
    (h1 : (((babyjub_UnpackSignY b).2 : ℤ) : ZMod I3.q) ^ 2 = 1) :
    babyjub_Point_Decompress recv b = ((0, 0), some "x is zero but sign bit is set", recv) := by
  rw [babyjub_UnpackSignY_eq b hb] at hy hsign h1
  dsimp only at hy hsign h1
  rw [decompress_eq_model recv b hb,
    C06.decompress_signOfZero Inst.sqrtQ C06.sqrtQ_spec b (by exact_mod_cast hy) hsign
      (by simpa only [Int.cast_natCast] using h1)]

/-- **"division by 0" is unreachable** in `PointFromSignAndY`, for every sign and EVERY integer `y`
(negative or unreduced too): `a - d y² ≠ 0` because `d` is a non-residue and `a` a residue -/
theorem pointFromSignAndY_divZero_unreachable (sign : Bool) (y : ℤ) :
    (babyjub_PointFromSignAndY sign y).2 ≠ some "division by 0" := by
  rw [babyjub_PointFromSignAndY_eq]
  intro h
  exact pointFromSignAndY_ne_divZero Inst.sqrtQ sign y ((ofExcept_error_iff _ .divZero).1 h)

/-- hence in `Decompress`, for every input and every receiver -/
theorem divZero_unreachable (recv : ℤ × ℤ) (b : Bytes) (hb : b.length = 32) :
    (babyjub_Point_Decompress recv b).2.1 ≠ some "division by 0" := by
  rw [babyjub_Point_Decompress_eq recv b hb]
  intro h
  exact C06.divZero_unreachable Inst.sqrtQ b ((ofExceptRecv_error_iff recv _ .divZero).1 h)

/-- **exact acceptance criterion**: a 32-byte string is accepted (no error) iff its `y` part is
canonical, `(1 - y²)/(a - d y²)` is a square, and the sign bit is not set when that quotient is
zero -/
theorem decompress_ok_iff (recv : ℤ × ℤ) (b : Bytes) (hb : b.length = 32) :
    (babyjub_Point_Decompress recv b).2.1 = none ↔
      (babyjub_UnpackSignY b).2 < (I3.q : ℤ) ∧
      IsSquare ((1 - (((babyjub_UnpackSignY b).2 : ℤ) : ZMod I3.q) ^ 2) /
        (168700 - 168696 * (((babyjub_UnpackSignY b).2 : ℤ) : ZMod I3.q) ^ 2)) ∧
      ¬ ((babyjub_UnpackSignY b).1 = true ∧
        (((babyjub_UnpackSignY b).2 : ℤ) : ZMod I3.q) ^ 2 = 1) := by
  have hm : (babyjub_Point_Decompress recv b).2.1 = none ↔
      ∃ p, decompress C06.K Inst.sqrtQ b = .ok p := by
    constructor
    · intro h; exact ⟨_, (decompress_ok_iff_model recv b hb _).1 ⟨h, rfl⟩⟩
    · rintro ⟨p, hp⟩; exact ((decompress_ok_iff_model recv b hb p).2 hp).1
  rw [hm, C06.decompress_ok_iff Inst.sqrtQ C06.sqrtQ_spec b, babyjub_UnpackSignY_eq b hb]
  simp only [Int.cast_natCast, Nat.cast_lt]

/-! ## 5. injectivity -/

/-- **`Compress` is injective on curve points** -/
theorem compress_injective (P Q : curve.Point)
    (h : babyjub_Point_Compress (coords P) = babyjub_Point_Compress (coords Q)) : P = Q := by
  rw [babyjub_Point_Compress_eq, babyjub_Point_Compress_eq] at h
  exact C06.compress_injective P Q h

/-- every accepted 32-byte string is the compression of exactly one curve point -/
theorem decompress_ok_unique (recv : ℤ × ℤ) (b : Bytes) (hb : b.length = 32)
    (h : (babyjub_Point_Decompress recv b).2.1 = none) :
    ∃! P : curve.Point, babyjub_Point_Compress (coords P) = b := by
  obtain ⟨P, -, hP⟩ := decompress_sound_point recv b hb h
  exact ⟨P, hP, fun Q hQ => compress_injective Q P (hQ.trans hP.symm)⟩

/-! ## 6. non-vacuity: the generated code executed on concrete values -/

/-- the base point round-trips, with a dirty receiver -/
example : babyjub_Point_Decompress (7, 8) (babyjub_Point_Compress Go.Ext.babyjub_B8) =
    (Go.Ext.babyjub_B8, none, Go.Ext.babyjub_B8) := by
  rw [babyjub_B8_eq, k_b8, ← coords_B8]
  exact decompress_compress (7, 8) B8
example : babyjub_Point_Compress Go.Ext.babyjub_B8 = natToLE 32 I3.B8y := by decide +kernel
/-- the identity `(0,1)` compresses to `LE32(1)` and back -/
example : babyjub_Point_Compress babyjub_NewPoint = natToLE 32 1 := by decide +kernel
example : babyjub_Point_Decompress (7, 8) (natToLE 32 1) = ((0, 1), none, (0, 1)) := by
  decide +kernel
/-- `LE32(1) | 0x80` — the identity with the sign bit set — is rejected, receiver untouched -/
example : babyjub_Point_Decompress (7, 8) (natToLE 31 1 ++ [0x80]) =
    ((0, 0), some "x is zero but sign bit is set", (7, 8)) := by decide +kernel
/-- `y = q` (a non-canonical encoding of `y = 0`) is rejected -/
example : babyjub_Point_Decompress (7, 8) (natToLE 32 I3.q) = ((0, 0), some "p.y >= Q", (7, 8)) := by
  decide +kernel
/-- `y = 2`: no curve point has this ordinate -/
example : babyjub_Point_Decompress (7, 8) (natToLE 32 2) =
    ((0, 0), some "x is not a square mod q", (7, 8)) := by decide +kernel

end I3.Props.C06Gen
