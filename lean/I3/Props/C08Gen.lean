/-
  I3.Props.C08Gen — property C08 (MiMC7 equals the circomlib MiMC7 definition for every input and
  round count) about the definitions GENERATED from /repo/mimc7/mimc7.go by the source translator T6
  (`I3.Gen.Go.mimc7_*`, regenerated on every run), in place of the hand-written model.

  Every theorem is a headline theorem of `I3.Props.C08` with the generated function substituted for
  the model function; it is obtained by rewriting with the bridge equations of
  `I3.Lemmas.GoBridgeMimc7` (generated code = model, for EVERY input) and applying the C08 theorem.
  The definition is `I3.Spec.Mimc7`: `c_0 = 0`, `c_i = Keccak-256^i(Keccak-256(seed)) mod q` over the
  32-byte digest, `t = x + k` resp. `r + k + c_i`, `r = t^7`, result `r + k mod q`.

  Go types: `int`, `*big.Int` are `Int`; `(*big.Int, error)` is `Int × Option String` (`(r, none)` =
  success); `[]byte` is `List UInt8`; a key that may be `nil` is an `Option Int`.
-/
import I3.Lemmas.GoBridgeMimc7
namespace I3.Props.C08Gen
open I3 I3.Go I3.Gen.Go I3.GoBridge I3.GoBridge.Mimc7

/-- the seed of the fixed-parameter entry points, as bytes. -/
abbrev seed : Bytes := strBytes "mimc"

/-! ## 1. constants -/

/-- the Go constant `SEED` and the round count of the package-level table. -/
theorem seed_eq : Gen.mimc7_SEED = "mimc" ∧ Inst.mimcSeed = seed := ⟨rfl, rfl⟩

theorem nRounds_eq : mimc7_constants.2.2.1 = 91 ∧ (Gen.mimc7_nRounds : Int) = mimc7_constants.2.2.1 :=
  ⟨rfl, rfl⟩

/-- `getConstants(seed, n)` is the table `c_0, …, c_{n-1}` of the definition, for every `n ≥ 1`. -/
theorem getConstants_eq (s : String) (n : Int) (hn : 1 ≤ n) :
    mimc7_getConstants s n = (List.range n.toNat).map (Spec.Mimc7.cst (strBytes s)) :=
  mimc7_getConstants_eq_spec s n hn

/-- for `n ≤ 0` the Go code panics; the (total) translation gives the empty table. -/
theorem getConstants_nonpos (s : String) (n : Int) (hn : n ≤ 0) : mimc7_getConstants s n = [] :=
  mimc7_getConstants_nonpos s n hn

theorem getConstants_length (s : String) (n : Int) : (mimc7_getConstants s n).length = n.toNat :=
  mimc7_getConstants_length s n

/-- entry `i` of the table is `c_i`: `0` for `i = 0`, else the `i`-fold chain digest mod `q`. -/
theorem getConstants_idx (s : String) (n i : Int) (hi0 : 0 ≤ i) (hin : i < n) :
    idx (mimc7_getConstants s n) i = Spec.Mimc7.cst (strBytes s) i.toNat := by
  have hlt : i.toNat < n.toNat := by omega
  rw [mimc7_getConstants_eq_spec s n (by omega)]
  simp only [idx, List.getD_eq_getElem?_getD, List.getElem?_map, List.getElem?_range hlt,
    Option.map_some, Option.getD_some]

/-- every constant is canonical. -/
theorem getConstants_lt (s : String) (n : Int) : ∀ c ∈ mimc7_getConstants s n, c < q := by
  intro c hc
  by_cases hn : 1 ≤ n
  · rw [mimc7_getConstants_eq_spec s n hn, List.mem_map] at hc
    obtain ⟨i, -, rfl⟩ := hc
    exact Props.C08.cst_lt _ i
  · rw [mimc7_getConstants_nonpos s n (by omega)] at hc
    cases hc

/-- the generated table is the model's table (and hence `I3.Props.C08.getConstants_*` apply). -/
theorem getConstants_eq_model (s : String) (n : Int) (hn : 1 ≤ n) :
    mimc7_getConstants s n = Model.Mimc7.getConstants (strBytes s) n.toNat :=
  mimc7_getConstants_eq s n hn

/-- the package-level `constants`: `seedHash = int(Keccak-256("mimc"))`,
    `iv = int(Keccak-256("mimc_iv")) mod q`, `nRounds = 91`, `cts = c_0 … c_90` for the seed `"mimc"`. -/
theorem constants_eq :
    mimc7_constants =
      (((beToNat (Keccak.keccak256 seed) : Nat) : Int),
       ((beToNat (Keccak.keccak256 (strBytes "mimc_iv")) % q : Nat) : Int),
       91,
       (List.range 91).map (Spec.Mimc7.cst seed)) := by
  have h1 : mimc7_constants.1 = ((beToNat (Keccak.keccak256 seed) : Nat) : Int) :=
    mimc7_constants_seedHash
  have h2 := mimc7_constants_iv
  have h3 := mimc7_constants_nRounds
  have h4 : mimc7_constants.2.2.2 = (List.range 91).map (Spec.Mimc7.cst seed) := by
    rw [mimc7_constants_cts_eq]
    exact mimc7_getConstants_eq_spec "mimc" 91 (by decide)
  have hs : Gen.mimc7_SEED ++ "_iv" = "mimc_iv" := by decide
  rw [hs] at h2
  have h0 : mimc7_constants = (mimc7_constants.1, mimc7_constants.2.1, mimc7_constants.2.2.1,
    mimc7_constants.2.2.2) := rfl
  rw [h0, h1, h2, h3, h4]

/-- `constants.cts` is the model's package-level table `I3.Inst.mimcCts`. -/
theorem constants_cts_eq_model : mimc7_constants.2.2.2 = Inst.mimcCts := mimc7_constants_cts

/-! ## 2. single-block MiMC7 -/

/-- `MIMC7HashGeneric(x, k, n)` is the circomlib permutation on the residues of `x` and `k`, for
    every pair of integers (negative, canonical, `≥ q`) and every round count `n ≥ 1`. -/
theorem MIMC7HashGeneric_eq (x k n : Int) (hn : 1 ≤ n) :
    mimc7_MIMC7HashGeneric x k n =
      ((Spec.Mimc7.mimc7 seed (imod x q) (imod k q) n.toNat : Nat) : Int) := by
  rw [mimc7_MIMC7HashGeneric_eq x k n hn, Props.C08.mimc7HashGeneric_eq _ x k n.toNat (by omega)]
  rfl

/-- on naturals (in particular canonical values) no residue needs to be taken. -/
theorem MIMC7HashGeneric_eq_nat (x k : Nat) (n : Int) (hn : 1 ≤ n) :
    mimc7_MIMC7HashGeneric (x : Int) (k : Int) n = ((Spec.Mimc7.mimc7 seed x k n.toNat : Nat) : Int) := by
  rw [mimc7_MIMC7HashGeneric_eq _ _ n hn, Props.C08.mimc7HashGeneric_eq_nat _ x k n.toNat (by omega)]
  rfl

/-- `MIMC7Hash(x, k)`: the fixed-parameter entry point is the definition at 91 rounds. -/
theorem MIMC7Hash_eq (x k : Int) :
    mimc7_MIMC7Hash x k = ((Spec.Mimc7.mimc7 seed (imod x q) (imod k q) 91 : Nat) : Int) := by
  rw [mimc7_MIMC7Hash_eq, Props.C08.mimc7Hash_eq]
  rfl

theorem MIMC7Hash_eq_nat (x k : Nat) :
    mimc7_MIMC7Hash (x : Int) (k : Int) = ((Spec.Mimc7.mimc7 seed x k 91 : Nat) : Int) := by
  rw [mimc7_MIMC7Hash_eq, Props.C08.mimc7Hash_eq_nat]
  rfl

theorem MIMC7Hash_eq_generic (x k : Int) :
    mimc7_MIMC7Hash x k = mimc7_MIMC7HashGeneric x k 91 := by
  rw [MIMC7Hash_eq, MIMC7HashGeneric_eq x k 91 (by decide)]
  rfl

/-- results of single-block MiMC7 are canonical (any round count, also where Go panics). -/
theorem MIMC7HashGeneric_canonical (x k n : Int) :
    0 ≤ mimc7_MIMC7HashGeneric x k n ∧ mimc7_MIMC7HashGeneric x k n < (q : Int) := by
  by_cases hn : 1 ≤ n
  · rw [mimc7_MIMC7HashGeneric_eq x k n hn]
    have := Props.C08.mimc7HashGeneric_lt Inst.mimcSeed x k n.toNat
    omega
  · rw [mimc7_MIMC7HashGeneric_nonpos x k n (by omega)]
    have := Lemmas.Mimc7.imod_lt k Lemmas.Mimc7.q_pos
    omega

theorem MIMC7Hash_canonical (x k : Int) :
    0 ≤ mimc7_MIMC7Hash x k ∧ mimc7_MIMC7Hash x k < (q : Int) := by
  rw [mimc7_MIMC7Hash_eq]
  have := Props.C08.mimc7Hash_lt Inst.mimcCts x k
  omega

/-! ## 3. the multi-element hash `r ← r + m_i + MiMC7(m_i, r) mod q` -/

/-- `Hash(arr, key)` on accepted input (the key is not range-checked), with the single-block hash
    given by the circomlib definition. -/
theorem Hash_eq_spec (arr : List Int) (key : Option Int) (h : ∀ x ∈ arr, 0 ≤ x ∧ x < (q : Int)) :
    mimc7_Hash arr key =
      (arr.foldl (fun r m =>
        (r + m + (Spec.Mimc7.mimc7 seed (imod m q) (imod r q) 91 : Int)) % (q : Int))
        (key.getD 0), none) := by
  rw [mimc7_Hash_eq, Props.C08.hash_eq_spec arr key h]
  rfl

/-- the same in terms of the generated single-block function. -/
theorem Hash_eq (arr : List Int) (key : Option Int) (h : ∀ x ∈ arr, 0 ≤ x ∧ x < (q : Int)) :
    mimc7_Hash arr key =
      (arr.foldl (fun r m => (r + m + mimc7_MIMC7Hash m r) % (q : Int)) (key.getD 0), none) := by
  rw [Hash_eq_spec arr key h]
  simp only [MIMC7Hash_eq]

/-- empty input: the key (0 when `nil`) is returned unchanged, whatever its value. -/
theorem Hash_nil (key : Option Int) : mimc7_Hash [] key = (key.getD 0, none) := by
  rw [mimc7_Hash_eq, Props.C08.hash_nil]
  rfl

/-- non-empty input: the result is canonical. -/
theorem Hash_canonical (arr : List Int) (key : Option Int) (r : Int) (hne : arr ≠ [])
    (hr : mimc7_Hash arr key = (r, none)) : 0 ≤ r ∧ r < (q : Int) := by
  rw [mimc7_Hash_eq, toGo_eq_ok_iff] at hr
  exact Props.C08.hash_canonical _ arr key r hne hr

/-- On natural inputs (canonical elements, any natural key) `Hash` is the multi-element hash of
    the definition, with the 91-round `"mimc"` permutation. -/
theorem Hash_spec (arr : List Nat) (key : Option Nat) (h : ∀ x ∈ arr, x < q) :
    mimc7_Hash (arr.map (fun (n : Nat) => (n : Int))) (key.map (fun (n : Nat) => (n : Int))) =
      (((Spec.Mimc7.multiHash seed 91 arr (key.getD 0) : Nat) : Int), none) := by
  rw [mimc7_Hash_eq, Props.C08.hash_spec arr key h]
  rfl

/-! ## 4. the generic fold `r ← MiMC7(r, m_i)` -/

theorem HashGeneric_eq_spec (iv : Int) (arr : List Int) (n : Int) (hn : 1 ≤ n)
    (h : ∀ x ∈ arr, 0 ≤ x ∧ x < (q : Int)) :
    mimc7_HashGeneric iv arr n =
      (arr.foldl (fun r m => (Spec.Mimc7.mimc7 seed (imod r q) (imod m q) n.toNat : Int)) iv,
        none) := by
  rw [mimc7_HashGeneric_eq iv arr n hn,
    Props.C08.hashGeneric_eq_spec _ iv arr n.toNat (by omega) h]
  rfl

theorem HashGeneric_eq (iv : Int) (arr : List Int) (n : Int) (hn : 1 ≤ n)
    (h : ∀ x ∈ arr, 0 ≤ x ∧ x < (q : Int)) :
    mimc7_HashGeneric iv arr n =
      (arr.foldl (fun r m => mimc7_MIMC7HashGeneric r m n) iv, none) := by
  rw [HashGeneric_eq_spec iv arr n hn h]
  simp only [MIMC7HashGeneric_eq _ _ n hn]

/-- empty input: the iv is returned unchanged (every round count). -/
theorem HashGeneric_nil (iv n : Int) : mimc7_HashGeneric iv [] n = (iv, none) := by
  rw [mimc7_HashGeneric_nil, Props.C08.hashGeneric_nil]
  rfl

/-- non-empty input: the result is canonical. -/
theorem HashGeneric_canonical (iv : Int) (arr : List Int) (n : Int) (r : Int) (hn : 1 ≤ n)
    (hne : arr ≠ []) (hr : mimc7_HashGeneric iv arr n = (r, none)) : 0 ≤ r ∧ r < (q : Int) := by
  rw [mimc7_HashGeneric_eq iv arr n hn, toGo_eq_ok_iff] at hr
  exact Props.C08.hashGeneric_canonical _ iv arr n.toNat r hne hr

theorem HashGeneric_spec (iv : Nat) (arr : List Nat) (n : Int) (hn : 1 ≤ n) (h : ∀ x ∈ arr, x < q) :
    mimc7_HashGeneric (iv : Int) (arr.map (fun (n : Nat) => (n : Int))) n =
      (((Spec.Mimc7.genericFold seed n.toNat arr iv : Nat) : Int), none) := by
  rw [mimc7_HashGeneric_eq _ _ n hn, Props.C08.hashGeneric_spec _ iv arr n.toNat (by omega) h]
  rfl

/-! ## 5. byte hashing -/

/-- `HashBytes(b)` is `Hash` (no key) of the little-endian values of the 31-byte slices
    `b[31 i : 31 (i+1)]`, `i < ⌈|b|/31⌉` (the last one shorter, none for the empty string). -/
theorem HashBytes_eq_Hash (b : List UInt8) :
    mimc7_HashBytes b =
      mimc7_Hash ((Spec.Mimc7.chunks b).map (fun c => ((leToNat c : Nat) : Int))) none := by
  rw [mimc7_HashBytes_eq, mimc7_Hash_eq, Props.C08.hashBytes_eq, Props.C08.chunks31_eq_spec]

/-- `HashBytes` is the byte hashing of the definition (91 rounds, seed `"mimc"`, no key), for every
    byte string. -/
theorem HashBytes_spec (b : List UInt8) :
    mimc7_HashBytes b = (((Spec.Mimc7.hashBytes seed 91 b : Nat) : Int), none) := by
  rw [mimc7_HashBytes_eq, Props.C08.hashBytes_spec]
  rfl

/-- in particular `HashBytes` never fails and its result is canonical. -/
theorem HashBytes_canonical (b : List UInt8) :
    0 ≤ (mimc7_HashBytes b).1 ∧ (mimc7_HashBytes b).1 < (q : Int) ∧ (mimc7_HashBytes b).2 = none := by
  rw [HashBytes_spec]
  have h : Spec.Mimc7.hashBytes seed 91 b < q := by
    unfold Spec.Mimc7.hashBytes Spec.Mimc7.multiHash
    by_cases hb : (Spec.Mimc7.chunks b).map leToNat = []
    · rw [hb]; exact Lemmas.Mimc7.q_pos
    · exact Lemmas.Mimc7.foldl_mem_of_ne_nil (fun r : Nat => r < q) _
        (fun a m => Nat.mod_lt _ Lemmas.Mimc7.q_pos) _ hb _
  exact ⟨by simp only; omega, by simp only; omega, rfl⟩

/-! ## 6. non-vacuity -/

section
set_option maxRecDepth 100000

/-- the GENERATED `getConstants` evaluated by the kernel (two Keccak-256 evaluations, through
    `forRange`, `make`, `set`, `big.fillBytes`, `fe.setBigInt`): circomlib's published `c_1`. -/
theorem getConstants_two : mimc7_getConstants "mimc" 2 =
    [0, 20888961410941983456478427210666206549300505294776164667214940546594746570981] := by
  decide +kernel

end

/-- the same value through the bridge: generated table = model table (`C08.getConstants_two`). -/
example : mimc7_getConstants "mimc" 2 =
    [0, 20888961410941983456478427210666206549300505294776164667214940546594746570981] := by
  rw [getConstants_eq_model "mimc" 2 (by decide)]
  exact Props.C08.getConstants_two

example : Spec.Mimc7.cst seed 1 =
    20888961410941983456478427210666206549300505294776164667214940546594746570981 := by
  have := getConstants_idx "mimc" 2 1 (by decide) (by decide)
  rw [getConstants_two] at this
  exact this.symm

/-- one round, generated code evaluated by the kernel: `(1 + 2)^7 + 2`. -/
example : mimc7_MIMC7HashGeneric 1 2 1 = 2189 := by decide +kernel

/-- non-canonical integers are reduced first: `(-1, q + 2)` behaves as `(q - 1, 2)`. -/
example : mimc7_MIMC7HashGeneric (-1) ((q : Int) + 2) 2 = mimc7_MIMC7HashGeneric ((q : Int) - 1) 2 2 := by
  rw [MIMC7HashGeneric_eq _ _ _ (by decide), MIMC7HashGeneric_eq _ _ _ (by decide)]
  have h1 : imod (-1) q = imod ((q : Int) - 1) q := by decide +kernel
  have h2 : imod ((q : Int) + 2) q = imod 2 q := by decide +kernel
  rw [h1, h2]

/-- where Go panics (`n ≤ 0`) the total translation and the model differ: on `(1, 0, 0)` the generated
    function returns `0`, the model (one round at `nRounds = 0`) returns `1`. -/
example : mimc7_MIMC7HashGeneric 1 0 0 = 0 ∧ Model.Mimc7.mimc7HashGeneric seed 1 0 0 = 1 := by
  decide +kernel

example : mimc7_Hash [] (some (-3)) = (-3, none) := Hash_nil _
example : mimc7_HashGeneric (-3) [] 91 = (-3, none) := by decide +kernel
example : mimc7_HashBytes [] = (0, none) := by decide +kernel

/-! TEST (compiled evaluation, not a kernel proof — 91 Keccak permutations are too slow for the
    kernel): the published 91-round vector `MiMC7(1, 2)` on the generated code. -/
#guard mimc7_MIMC7HashGeneric 1 2 91 =
  10594780656576967754230020536574539122676596303354946869887184401991294982664
#guard mimc7_MIMC7Hash 1 2 =
  10594780656576967754230020536574539122676596303354946869887184401991294982664

end I3.Props.C08Gen
