/-
  I3.Props.C20BlakeGen — property C20, third-party part: the compression code of github.com/dchest/blake512
  (blake512block.go, `func block(d *digest, p []uint8)`), TRANSLATED statement by statement by tools/gen_blake into
  I3.Gen.BlakeBlock (namespace I3.Gen.BlakeGo), equals
    * the specification's compression function `I3.Blake.compress` (one loop iteration), and
    * the hand-written model `I3.Model.BlakeStream.Digest.block` (the whole loop, fields h and t),
  for every chain value, counter, `nullt` flag and input, with zero salt (what `blake512.New()` sets).
  Hence `blake_stream_eq_all` (Props/C20Blake.lean), which is stated over `Digest.block`, rests on the translated
  third-party code for the compression part.  Property theorems only; proofs in I3.Lemmas.BlakeBridge.
-/
import I3.Lemmas.BlakeBridge
namespace I3.Props.C20BlakeGen
open I3 I3.Gen.BlakeGo I3.Lemmas.BlakeBridge

/-- the hand-written model of the `digest` object (I3.Model.BlakeStream). -/
abbrev MDigest := I3.Model.BlakeStream.Digest

private def hex (s : String) : Bytes := (hexDecodeOk s.toList).getD []

/-- **Every translated round is the specification's round** (`round_k` = round index `k-1`: 8 G's with the
    permutation `SIGMA[(k-1) mod 10]`), for arbitrary message words and state. -/
theorem rounds_eq_roundB (m : M) (v : V) :
    vArr (round1 m v) = Blake.roundB (mArr m) (vArr v) 0 ∧ vArr (round2 m v) = Blake.roundB (mArr m) (vArr v) 1 ∧
    vArr (round3 m v) = Blake.roundB (mArr m) (vArr v) 2 ∧ vArr (round4 m v) = Blake.roundB (mArr m) (vArr v) 3 ∧
    vArr (round5 m v) = Blake.roundB (mArr m) (vArr v) 4 ∧ vArr (round6 m v) = Blake.roundB (mArr m) (vArr v) 5 ∧
    vArr (round7 m v) = Blake.roundB (mArr m) (vArr v) 6 ∧ vArr (round8 m v) = Blake.roundB (mArr m) (vArr v) 7 ∧
    vArr (round9 m v) = Blake.roundB (mArr m) (vArr v) 8 ∧ vArr (round10 m v) = Blake.roundB (mArr m) (vArr v) 9 ∧
    vArr (round11 m v) = Blake.roundB (mArr m) (vArr v) 10 ∧ vArr (round12 m v) = Blake.roundB (mArr m) (vArr v) 11 ∧
    vArr (round13 m v) = Blake.roundB (mArr m) (vArr v) 12 ∧ vArr (round14 m v) = Blake.roundB (mArr m) (vArr v) 13 ∧
    vArr (round15 m v) = Blake.roundB (mArr m) (vArr v) 14 ∧ vArr (round16 m v) = Blake.roundB (mArr m) (vArr v) 15 :=
  ⟨round1_eq m v, round2_eq m v, round3_eq m v, round4_eq m v, round5_eq m v, round6_eq m v, round7_eq m v,
   round8_eq m v, round9_eq m v, round10_eq m v, round11_eq m v, round12_eq m v, round13_eq m v, round14_eq m v,
   round15_eq m v, round16_eq m v⟩

/-- **One iteration of the translated loop = `compress`.**  Chain value `h` (the eight locals `h0 … h7`), zero salt,
    counter `t` (= `d.t` on entry), flag `nullt`, and a 128-byte block: the new chain value is
    `compress h blk t'` where `t'` is exactly the word the model passes — `t + 1024` (the value of `d.t` after
    `d.t += 1024`) when `nullt = false`, and `0` when `nullt = true` (the Go code then skips the xor into v12, v13;
    `cst4 ^ 0 = cst4`) — and `d.t` becomes `t + 1024` in both cases. -/
theorem blockStep_eq_compress (h : H) (t : UInt64) (nullt : Bool) (blk : Bytes) (hb : blk.length = 128) :
    hArr (blockStep S0 nullt { h := h, t := t } blk).h
      = Blake.compress (hArr h) blk (if nullt then 0 else t + 1024) ∧
    (blockStep S0 nullt { h := h, t := t } blk).t = t + 1024 := by
  have e := blockStep_eq nullt { h := h, t := t } blk (by omega)
  rw [List.take_of_length_le (by omega)] at e
  exact e

/-- the same for a chain value given as an array of eight words (the form used by the specification). -/
theorem blockStep_eq_compress_array (a : Array UInt64) (ha : a.size = 8) (t : UInt64) (nullt : Bool)
    (blk : Bytes) (hb : blk.length = 128) :
    hArr (blockStep S0 nullt { h := hOf a, t := t } blk).h = Blake.compress a blk (if nullt then 0 else t + 1024) := by
  have e := (blockStep_eq_compress (hOf a) t nullt blk hb).1
  rwa [hArr_hOf a ha] at e

/-- the two cases of the counter word spelled out. -/
theorem blockStep_eq_compress_counting (h : H) (t : UInt64) (blk : Bytes) (hb : blk.length = 128) :
    hArr (blockStep S0 false { h := h, t := t } blk).h = Blake.compress (hArr h) blk (t + 1024) :=
  (blockStep_eq_compress h t false blk hb).1

theorem blockStep_eq_compress_nullt (h : H) (t : UInt64) (blk : Bytes) (hb : blk.length = 128) :
    hArr (blockStep S0 true { h := h, t := t } blk).h = Blake.compress (hArr h) blk 0 :=
  (blockStep_eq_compress h t true blk hb).1

/-- when `p` is longer than a block the iteration reads its first 128 bytes only. -/
theorem blockStep_eq_compress_prefix (h : H) (t : UInt64) (nullt : Bool) (p : Bytes) (hp : 128 ≤ p.length) :
    hArr (blockStep S0 nullt { h := h, t := t } p).h
      = Blake.compress (hArr h) (p.take 128) (if nullt then 0 else t + 1024) :=
  (blockStep_eq nullt { h := h, t := t } p hp).1

/-- the translated `block` on the digest fields it uses, started from a model digest (zero salt). -/
def goBlock (md : MDigest) (p : Bytes) : I3.Gen.BlakeGo.Digest :=
  block { h := hOf md.h, s := S0, t := md.t, nullt := md.nullt } p

/-- **The translated `block` loop = the model's `Digest.block`** on every digest state with an 8-word chain value
    and zero salt, and every byte list: fields `h` and `t` agree (and `block` leaves `nullt`, the salt and — in the
    model — the buffer `x` alone). -/
theorem block_eq_model (md : MDigest) (hh : md.h.size = 8) (p : Bytes) :
    md.block p = { h := hArr (goBlock md p).h, t := (goBlock md p).t, nullt := md.nullt, x := md.x } ∧
    (goBlock md p).nullt = md.nullt ∧ (goBlock md p).s = S0 := by
  refine ⟨?_, rfl, rfl⟩
  rw [model_block_eq md hh p]
  rfl

/-- fieldwise form of `block_eq_model`. -/
theorem block_eq_model_fields (md : MDigest) (hh : md.h.size = 8) (p : Bytes) :
    hArr (goBlock md p).h = (md.block p).h ∧ (goBlock md p).t = (md.block p).t := by
  rw [(block_eq_model md hh p).1]; exact ⟨rfl, rfl⟩

/-- **The hypothesis `h.size = 8` of `block_eq_model` holds at every call of `block` made by the stream model**:
    it holds for `New()`, and is preserved by `block`, by `Write`, and by the padding writes of `Sum`; so every
    compression performed by `blake512Stream m = (init.write m).sum` is a compression by the translated code. -/
theorem init_size : I3.Model.BlakeStream.Digest.init.h.size = 8 := rfl

theorem block_size (md : MDigest) (hh : md.h.size = 8) (p : Bytes) : (md.block p).h.size = 8 :=
  I3.Lemmas.BlakeBridge.block_size md hh p

theorem write_size (md : MDigest) (hh : md.h.size = 8) (p : Bytes) : (md.write p).h.size = 8 :=
  I3.Lemmas.BlakeBridge.write_size md hh p

theorem sumPad_size (md : MDigest) (hh : md.h.size = 8) : md.sumPad.h.size = 8 :=
  I3.Lemmas.BlakeBridge.sumPad_size md hh

theorem stream_sizes (m : Bytes) :
    (I3.Model.BlakeStream.Digest.init.write m).h.size = 8 ∧
    (I3.Model.BlakeStream.Digest.init.write m).sumPad.h.size = 8 :=
  ⟨write_size _ init_size m, sumPad_size _ (write_size _ init_size m)⟩

/-- the fuel of the generated loop (`len(p)/BlockSize`) is exact: more fuel changes nothing. -/
theorem blocks_fuel (nullt : Bool) (n k : Nat) (st : LoopState) (p : Bytes) (hn : p.length / 128 = n) :
    blocks S0 nullt (n + k) st p = blocks S0 nullt n st p := by
  induction n generalizing st p with
  | zero =>
    have hp : ¬ p.length ≥ BlockSize := by
      simp only [BlockSize]; intro h
      have := Nat.div_pos h (by decide : 0 < 128); omega
    cases k with
    | zero => rfl
    | succ k => simp only [blocks, if_neg hp]
  | succ n ih =>
    have e : n + 1 + k = (n + k) + 1 := by omega
    rw [e, blocks, blocks]
    split
    · rename_i hg
      simp only [BlockSize] at hg
      exact ih _ _ (by simp [BlockSize]; omega)
    · rfl

/-! ### known answers through the translated code -/

/-- BLAKE-512 of the empty message: one compression of the padded block (`Sum` sets `nullt`) through the
    translated Go `block`, from the IV. -/
example :
    Blake.digestBytes (hArr (block { h := hOf Blake.IV, s := S0, t := 0, nullt := true } (Blake.pad [])).h) =
    hex "a8cfbbd73726062df0c6864dda65defe58ef0cc52a5625090fa17601e1eecd1b628e94f396ae402a00acc9eab77b4d4c2e852aaaa25a636d80af3fc7913ef5b8" := by
  decide +kernel

/-- BLAKE-512 of the one-byte message `00` (counter word 8 = `d.t` after `d.t += 1024`). -/
example :
    Blake.digestBytes (hArr (block { h := hOf Blake.IV, s := S0, t := 8 - 1024, nullt := false } (Blake.pad [0])).h) =
    hex "97961587f6d970faba6d2478045de6d1fabd09b61ae50932054d52bc29d31be4ff9102b9f69e2bbdb83be13d4b9c06091e5fa0b48bd081b634058be0ec49beb3" := by
  decide +kernel

/-- the SHA-256 of the translated source file (blake512block.go of dchest/blake512 v1.0.0). -/
example : sourceSha256 = "832974eef141711251d42733837bd1315c3d4810ff9a87d4d42af236360093a1" := rfl

end I3.Props.C20BlakeGen
