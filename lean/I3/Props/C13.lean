/-
  I3.Props.C13 — the membership predicates of /repo/babyjub/babyjub.go are exact.

  `K = I3.Inst.bjConsts` are the constants regenerated from the Go source; `curve.Point` is the
  abstract BabyJubJub group (`I3.Spec.BabyJub`), `coords` its canonical integer coordinates.

  * `InCurve` accepts an integer pair exactly when it satisfies the curve equation modulo q;
  * `InSubGroup` accepts exactly the (representatives of) curve points killed by the prime `l`,
    i.e. exactly the multiples of the base point `B8`;
  * it rejects every pair off the curve, and every sum of a subgroup point and a non-zero point
    of small order.
-/
import I3.Props.C04
import I3.Lemmas.Compress

set_option maxRecDepth 100000

namespace I3.Props.C13

open I3 I3.Spec I3.Spec.BJJ I3.Model.BabyJub I3.Lemmas.CurveBridge I3.Lemmas.Compress

/-- the constants regenerated from the Go source -/
abbrev K : Consts := I3.Inst.bjConsts

/-! ## 1. `InCurve` -/

/-- **`InCurve` is exactly the curve equation** `168700 x² + y² = 1 + 168696 x² y²` in `ZMod q`,
for every pair of integers (canonical or not, negative or not). -/
theorem inCurve_exact (x y : ℤ) :
    inCurve K (x, y) = true ↔
      (168700 : ZMod I3.q) * (x : ZMod I3.q) ^ 2 + (y : ZMod I3.q) ^ 2 =
        1 + (168696 : ZMod I3.q) * (x : ZMod I3.q) ^ 2 * (y : ZMod I3.q) ^ 2 := by
  rw [inCurve_iff]
  unfold EdCurve.OnCurve
  rw [curve_a, curve_d]
  have ha : ((I3.ja : ℕ) : F) = (168700 : ZMod I3.q) := by
    show ((168700 : ℕ) : ZMod I3.q) = 168700
    exact Nat.cast_ofNat
  have hd : ((I3.jd : ℕ) : F) = (168696 : ZMod I3.q) := by
    show ((168696 : ℕ) : ZMod I3.q) = 168696
    exact Nat.cast_ofNat
  rw [ha, hd]

/-- the same with the answer `false` -/
theorem inCurve_false_iff (x y : ℤ) :
    inCurve K (x, y) = false ↔
      (168700 : ZMod I3.q) * (x : ZMod I3.q) ^ 2 + (y : ZMod I3.q) ^ 2 ≠
        1 + (168696 : ZMod I3.q) * (x : ZMod I3.q) ^ 2 * (y : ZMod I3.q) ^ 2 := by
  rw [Ne, ← inCurve_exact, Bool.not_eq_true]

/-- the accepted canonical pairs are exactly the coordinate pairs of the points of the group -/
theorem inCurve_iff_coords (x y : ℤ) (hx : 0 ≤ x ∧ x < I3.q) (hy : 0 ≤ y ∧ y < I3.q) :
    inCurve K (x, y) = true ↔ ∃ P : curve.Point, coords P = (x, y) := by
  constructor
  · intro h
    obtain ⟨P, h1, h2⟩ := exists_point_of_inCurve h
    exact ⟨P, coords_of_cast hx hy h1 h2⟩
  · rintro ⟨P, h⟩
    rw [← h]; exact inCurve_coords P

/-! ## 2. `InSubGroup` -/

/-- `InSubGroup` on arbitrary integers: the pair is congruent to a curve point killed by `l`
(the model — like the Go code — reduces the coordinates when converting to projective form). -/
theorem inSubGroup_exact_int (x y : ℤ) :
    inSubGroup K (x, y) = true ↔
      ∃ P : curve.Point, (x : ZMod I3.q) = P.x ∧ (y : ZMod I3.q) = P.y ∧ I3.l • P = 0 := by
  unfold inSubGroup
  constructor
  · intro h
    by_cases hc : inCurve K (x, y) = true
    · obtain ⟨P, h1, h2⟩ := exists_point_of_inCurve hc
      refine ⟨P, h1, h2, ?_⟩
      rw [hc, k_subOrder, mul_rep I3.l h1 h2] at h
      simp only [Bool.not_true, Bool.false_eq_true, if_false, Bool.and_eq_true, beq_iff_eq] at h
      exact eq_zero_of_coords (Prod.ext h.1 h.2)
    · rw [Bool.not_eq_true] at hc
      rw [hc] at h
      simp at h
  · rintro ⟨P, h1, h2, h3⟩
    have hc : inCurve K (x, y) = true := by
      rw [inCurve_iff, h1, h2]; exact P.on
    rw [hc, k_subOrder, mul_rep I3.l h1 h2, h3, coords_zero]
    simp

/-- **`InSubGroup` is exact**: a canonical pair is accepted exactly when it is the coordinate pair
of a point of the group with `l • P = 0`. -/
theorem inSubGroup_exact (x y : ℤ) (hx : 0 ≤ x ∧ x < I3.q) (hy : 0 ≤ y ∧ y < I3.q) :
    inSubGroup K (x, y) = true ↔ ∃ P : curve.Point, coords P = (x, y) ∧ I3.l • P = 0 := by
  rw [inSubGroup_exact_int]
  constructor
  · rintro ⟨P, h1, h2, h3⟩
    exact ⟨P, coords_of_cast hx hy h1 h2, h3⟩
  · rintro ⟨P, h, h3⟩
    refine ⟨P, ?_, ?_, h3⟩
    · have := cast_coords_x P; rw [h] at this; exact this
    · have := cast_coords_y P; rw [h] at this; exact this

/-- on the coordinates of a point of the group: `InSubGroup` decides `l • P = 0` -/
theorem inSubGroup_coords (P : curve.Point) : inSubGroup K (coords P) = true ↔ I3.l • P = 0 := by
  have h := inSubGroup_exact (coords P).1 (coords P).2
    ⟨(coords_nonneg P).1, (coords_lt P).1⟩ ⟨(coords_nonneg P).2, (coords_lt P).2⟩
  rw [show ((coords P).1, (coords P).2) = coords P from rfl] at h
  rw [h]
  constructor
  · rintro ⟨Q, hQ, h0⟩
    rw [← coords_injective hQ]; exact h0
  · intro h0; exact ⟨P, rfl, h0⟩

/-! ## 3. corollaries -/

/-- every multiple of the base point is in the subgroup (any natural scalar, of any size) -/
theorem inSubGroup_mul_b8 (s : ℕ) : inSubGroup K (mul K (s : ℤ) K.b8) = true := by
  rw [k_b8, ← coords_B8, mul_coords, inSubGroup_coords, ← mul_nsmul', mul_comm, mul_nsmul',
    l_smul_B8, nsmul_zero]

/-- `l • T ≠ 0` for a non-zero point of order dividing 8 (`l` is odd) -/
theorem l_smul_small_ne_zero (T : curve.Point) (hT : 8 • T = 0) (hT0 : T ≠ 0) : I3.l • T ≠ 0 := by
  intro h
  have hodd : I3.l = 8 * (I3.l / 8) + 1 := by decide +kernel
  rw [hodd, add_nsmul, mul_nsmul, hT, nsmul_zero, zero_add, one_nsmul] at h
  exact hT0 h

/-- **a subgroup point shifted by a non-zero point of small order is rejected**: the cofactor
component is detected, although the sum is a perfectly valid curve point. -/
theorem not_inSubGroup_add_small (S T : curve.Point) (hS : I3.l • S = 0) (hT : 8 • T = 0)
    (hT0 : T ≠ 0) : inSubGroup K (coords (S + T)) = false := by
  rw [← Bool.not_eq_true, inSubGroup_coords, nsmul_add, hS, zero_add]
  exact l_smul_small_ne_zero T hT hT0

/-- the non-zero points of small order themselves are rejected -/
theorem not_inSubGroup_small (i : Fin 8) (hi : i ≠ 0) : inSubGroup K (coords (small i)) = false := by
  have h := not_inSubGroup_add_small 0 (small i) (nsmul_zero _)
    ((eight_smul_eq_zero_iff _).2 ⟨i, rfl⟩) (by
      intro h0
      have : small i = small 0 := by rw [h0]; simp [small]
      exact hi (small_injective this))
  rwa [zero_add] at h

/-- the same on the explicit coordinate table `smallN` of the seven non-zero small-order points -/
theorem not_inSubGroup_smallN (i : Fin 8) (hi : i ≠ 0) :
    inCurve K (((smallN i).1 : ℤ), ((smallN i).2 : ℤ)) = true ∧
      inSubGroup K (((smallN i).1 : ℤ), ((smallN i).2 : ℤ)) = false := by
  rw [← small_coords]
  exact ⟨inCurve_coords _, not_inSubGroup_small i hi⟩

/-- **a pair that is not on the curve is never in the subgroup** -/
theorem not_inSubGroup_off_curve (x y : ℤ) (h : inCurve K (x, y) = false) :
    inSubGroup K (x, y) = false := by
  unfold inSubGroup
  rw [h]; rfl

/-- in particular `(0, 0)`, the value `Affine` returns for `Z = 0` -/
theorem not_inSubGroup_zero_zero : inCurve K (0, 0) = false ∧ inSubGroup K (0, 0) = false := by
  have h : inCurve K (0, 0) = false := by decide +kernel
  exact ⟨h, not_inSubGroup_off_curve 0 0 h⟩

/-- the points killed by `l` are exactly the multiples of `B8` (the curve group is cyclic of order
`8 l` and `B8` has order `l`) -/
theorem l_torsion_eq_multiples_B8 (P : curve.Point) : I3.l • P = 0 ↔ ∃ s : ℕ, s < I3.l ∧ P = s • B8 := by
  constructor
  · intro hP
    have hl := I3.l_prime
    -- E = 8 • G generates the l-torsion
    have key : ∀ Q : curve.Point, I3.l • Q = 0 → ∃ c : ℕ, Q = c • (8 • G) := by
      intro Q hQ
      obtain ⟨m, rfl⟩ := exists_nsmul_G Q
      rw [← mul_nsmul'] at hQ
      have hd : 8 * I3.l ∣ I3.l * m := by
        rw [← order_G]; exact addOrderOf_dvd_of_nsmul_eq_zero hQ
      rw [mul_comm 8 I3.l] at hd
      obtain ⟨c, rfl⟩ := (Nat.mul_dvd_mul_iff_left hl.pos).1 hd
      exact ⟨c, by rw [mul_nsmul]⟩
    obtain ⟨c, hc⟩ := key P hP
    obtain ⟨b, hb⟩ := key B8 l_smul_B8
    have hE : I3.l • (8 • G) = 0 := by rw [← mul_nsmul', mul_comm]; exact order_smul_G
    have hcop : Nat.Coprime b I3.l := by
      rw [Nat.coprime_comm, Nat.Prime.coprime_iff_not_dvd hl]
      rintro ⟨e, rfl⟩
      apply B8_ne_zero
      rw [hb, mul_nsmul, hE, nsmul_zero]
    -- u * b ≡ 1 (mod l)
    obtain ⟨u, -, hu⟩ := Nat.exists_mul_mod_eq_one_of_coprime hcop hl.one_lt
    have hEB : 8 • G = u • B8 := by
      rw [hb, ← mul_nsmul]
      conv_rhs => rw [← Nat.mod_add_div (b * u) I3.l, add_nsmul, mul_nsmul, hE, nsmul_zero, add_zero,
        hu, one_nsmul]
    refine ⟨(c * u) % I3.l, Nat.mod_lt _ hl.pos, ?_⟩
    have hlB : I3.l • B8 = 0 := l_smul_B8
    rw [hc, hEB, ← mul_nsmul]
    conv_lhs => rw [← Nat.mod_add_div (u * c) I3.l, add_nsmul, mul_nsmul, hlB, nsmul_zero, add_zero]
    rw [mul_comm]
  · rintro ⟨s, -, rfl⟩
    rw [← mul_nsmul', mul_comm, mul_nsmul', l_smul_B8, nsmul_zero]

/-- **`InSubGroup` accepts exactly the multiples of the base point**: a canonical pair is accepted
iff it is `s * B8` (as computed by the model's `Mul`) for some scalar `s < l`. -/
theorem inSubGroup_iff_mul_b8 (x y : ℤ) (hx : 0 ≤ x ∧ x < I3.q) (hy : 0 ≤ y ∧ y < I3.q) :
    inSubGroup K (x, y) = true ↔ ∃ s : ℕ, s < I3.l ∧ (x, y) = mul K (s : ℤ) K.b8 := by
  rw [inSubGroup_exact x y hx hy]
  constructor
  · rintro ⟨P, hP, h0⟩
    obtain ⟨s, hs, rfl⟩ := (l_torsion_eq_multiples_B8 P).1 h0
    exact ⟨s, hs, by rw [k_b8, ← coords_B8, mul_coords, hP]⟩
  · rintro ⟨s, hs, h⟩
    refine ⟨s • B8, ?_, (l_torsion_eq_multiples_B8 _).2 ⟨s, hs, rfl⟩⟩
    rw [h, k_b8, ← coords_B8, mul_coords]

/-- the subgroup has exactly `l` elements: `s ↦ s • B8` is injective on `[0, l)` -/
theorem mul_b8_injective (s t : ℕ) (hs : s < I3.l) (ht : t < I3.l)
    (h : mul K (s : ℤ) K.b8 = mul K (t : ℤ) K.b8) : s = t := by
  rw [k_b8, ← coords_B8, mul_coords, mul_coords] at h
  have h2 := coords_injective h
  have := (nsmul_injOn_Iio_addOrderOf (x := B8))
    (by rw [addOrderOf_B8]; exact hs) (by rw [addOrderOf_B8]; exact ht) h2
  exact this

/-! ## 4. non-vacuity: concrete points -/

/-- the base point: on the curve and in the subgroup -/
example : inCurve K K.b8 = true ∧ inSubGroup K K.b8 = true := by
  have h := inSubGroup_mul_b8 1
  have e : mul K ((1 : ℕ) : ℤ) K.b8 = K.b8 := by
    rw [k_b8, ← coords_B8, mul_coords, one_nsmul]
  rw [e] at h
  refine ⟨?_, h⟩
  rw [k_b8, ← coords_B8]; exact inCurve_coords B8
/-- the identity `(0, 1)` -/
example : inSubGroup K (0, 1) = true := by
  rw [← coords_zero, inSubGroup_coords, nsmul_zero]
/-- the generator `G` of the full group is on the curve but not in the subgroup -/
example : inCurve K (coords G) = true ∧ inSubGroup K (coords G) = false := by
  refine ⟨inCurve_coords G, ?_⟩
  rw [← Bool.not_eq_true, inSubGroup_coords, l_smul_G]
  intro h
  have : small 1 = small 0 := by simpa [small] using h
  exact absurd (small_injective this) (by decide)
/-- the point `(0, q-1)` of order 2 is on the curve but rejected by `InSubGroup` -/
example : inCurve K (0, (I3.q : ℤ) - 1) = true ∧ inSubGroup K (0, (I3.q : ℤ) - 1) = false := by
  have h := small_coords 4
  have e : coords (small 4) = (0, (I3.q : ℤ) - 1) := by rw [h]; decide +kernel
  rw [← e]
  exact ⟨inCurve_coords _, not_inSubGroup_small 4 (by decide)⟩
/-- a subgroup point plus a point of order 8 is a curve point outside the subgroup -/
example : inCurve K (coords (B8 + small 1)) = true ∧ inSubGroup K (coords (B8 + small 1)) = false :=
  ⟨inCurve_coords _, not_inSubGroup_add_small B8 (small 1) l_smul_B8
    ((eight_smul_eq_zero_iff _).2 ⟨1, rfl⟩) (by
      intro h0
      have : small 1 = small 0 := by rw [h0]; simp [small]
      exact absurd (small_injective this) (by decide))⟩
/-- off the curve: `(0,0)`, `(1,1)`, and a non-canonical representative of `B8` is still accepted -/
example : inSubGroup K (0, 0) = false := not_inSubGroup_zero_zero.2
example : inCurve K (1, 1) = false := by decide +kernel
example : inSubGroup K (1, 1) = false := not_inSubGroup_off_curve 1 1 (by decide +kernel)
example : inCurve K ((I3.B8x : ℤ) + I3.q, (I3.B8y : ℤ) - I3.q) = true := by
  rw [inCurve_iff]
  have := B8.on
  have hx : (((I3.B8x : ℤ) + I3.q : ℤ) : F) = B8.x := by
    push_cast; rw [ZMod.natCast_self, add_zero]; rfl
  have hy : (((I3.B8y : ℤ) - I3.q : ℤ) : F) = B8.y := by
    push_cast; rw [ZMod.natCast_self, sub_zero]; rfl
  rw [hx, hy]; exact this

end I3.Props.C13
