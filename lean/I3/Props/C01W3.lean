/-
  I3.Props.C01W3 — property C01 at width t = 3 (R_F = 8, R_P = 57).
  `tables_lit_3`: the kernel evaluates the relation checker `PoseidonCheck.checkAll` on the tables
  `Gen.PT3.*` (REGENERATED from /repo/poseidon/constants.go on every run) against the literal output of
  the reference Grain generator (`Spec.GrainLit.rc_3`, `mds_3`, proved equal to the generator's output in
  I3.Spec.GrainW3); the witnesses are proposed by `computeWitnesses` inside the same evaluation.
  `tables_ok_3`: the same statement about the generator itself.
  `width_3`: hence (by `checkAll_sound`) the optimised Go loop equals the textbook Poseidon permutation
  on EVERY state of width 3.
-/
import I3.Exec.PoseidonCheck
import I3.Gen.PT3
import I3.Spec.GrainW3
import I3.Lemmas.PoseidonRefine
set_option maxRecDepth 1000000
namespace I3.Props.C01
open I3

theorem tables_lit_3 :
    PoseidonCheck.checkAll q 3 57 Spec.GrainLit.rc_3 Spec.GrainLit.mds_3
      ⟨Gen.PT3.C, Gen.PT3.S, Gen.PT3.M, Gen.PT3.P⟩
      (PoseidonCheck.computeWitnesses q 3 57 Spec.GrainLit.rc_3 Spec.GrainLit.mds_3
        ⟨Gen.PT3.C, Gen.PT3.S, Gen.PT3.M, Gen.PT3.P⟩) = true := by
  decide +kernel

theorem tables_ok_3 :
    PoseidonCheck.checkAll q 3 57 (Grain.bn254Params 3).rc (Grain.mds q (Grain.bn254Params 3))
      ⟨Gen.PT3.C, Gen.PT3.S, Gen.PT3.M, Gen.PT3.P⟩
      (PoseidonCheck.computeWitnesses q 3 57 (Grain.bn254Params 3).rc
        (Grain.mds q (Grain.bn254Params 3)) ⟨Gen.PT3.C, Gen.PT3.S, Gen.PT3.M, Gen.PT3.P⟩) = true := by
  rw [Spec.GrainLit.grain_3.1, Spec.GrainLit.grain_3.2]
  exact tables_lit_3

theorem width_3 (st : List Nat) (hst : st.length = 3) :
    Model.Poseidon.permute q 5 ⟨Gen.PT3.C, Gen.PT3.S, Gen.PT3.M, Gen.PT3.P⟩ 3 57 st =
      Hades.poseidonBN254 (Grain.bn254Params 3) st :=
  PoseidonRefine.width_of_check 3 57 (by decide) _ _ tables_ok_3 st hst

end I3.Props.C01
