/-
  I3.Props.C16Gen — purity, stated over T6's own effect analysis of the CURRENT source.

  For every function it translates, the Go→Lean translator T6 computes which pointer / slice parameters (receiver
  included) the function writes through — directly, through a library mutator, or through a callee (fixpoint).  That
  analysis decides the *shape* of every generated definition: a written parameter is returned after the declared
  results, an unwritten one is not, and with value semantics an unwritten parameter cannot change.  T6 prints the table
  (package, function, exported?, receiver written?, operands written) into `I3.Gen.GoIndex.writtenParams` on every run; the theorems below pin it to the documented destinations:

  * `written_params_documented`: the table is exactly the hand-written list `expected` (receivers of the methods
    documented as in-place, the output parameters `res` / `dst` / `v`, and seven unexported helpers that work in place
    on a caller's local);
  * `exported_non_receiver_writes`: the only EXPORTED functions that write through a parameter other than their
    receiver are the four documented output-parameter functions;
  * `no_exported_operand_writes`: no exported function of babyjub / poseidon / mimc7 / goldenposeidon / keccak256
    writes through a non-receiver parameter at all — "no operation modifies the integers, slices, arrays, points, keys
    or signatures passed to it (other than a documented destination)";
  * `helpers_called_on_locals` is T4's obligation (`C16.all_sites_allowed`): the unexported in-place helpers are only
    handed fresh locals.

  A change that makes any translated function write through a further parameter changes the regenerated table and
  breaks `written_params_documented`; what value semantics cannot see (two live names for one cell) is rejected by the
  translator (DESIGN.md §3.1) or caught by Tie B's `!ARGMUT` guards.
-/
import I3.Gen.GoIndex
namespace I3.Props.C16Gen
open I3.Gen.Go

/-- the documented destinations (hand-written; compare with the Go doc comments):
    (package, function, exported, receiver written, operands written) -/
def expected : List (String × String × Bool × Bool × List String) := [
  ("babyjub", "Point.Decompress", true, true, []),
  ("babyjub", "Point.Mul", true, true, []),
  ("babyjub", "Point.Set", true, true, []),
  ("babyjub", "PointProjective.Add", true, true, []),
  ("babyjub", "PublicKey.Scan", true, true, []),
  ("babyjub", "PublicKey.UnmarshalText", true, true, []),
  ("babyjub", "PublicKeyComp.Scan", true, true, []),
  ("babyjub", "PublicKeyComp.UnmarshalText", true, true, []),
  ("babyjub", "Signature.Decompress", true, true, []),
  ("babyjub", "Signature.Scan", true, true, []),
  ("babyjub", "SignatureComp.Scan", true, true, []),
  ("babyjub", "SignatureComp.UnmarshalText", true, true, []),
  ("babyjub", "pruneBuffer", false, false, ["buf"]),
  ("ff", "Element.Div", true, true, []),
  ("ff", "Element.Exp", true, true, []),
  ("ff", "Element.Set", true, true, []),
  ("ff", "Element.SetBigInt", true, true, []),
  ("ff", "Element.SetBytes", true, true, []),
  ("ff", "Element.SetInterface", true, true, []),
  ("ff", "Element.SetOne", true, true, []),
  ("ff", "Element.SetString", true, true, []),
  ("ff", "Element.SetUint64", true, true, []),
  ("ff", "Element.SetZero", true, true, []),
  ("ff", "Element.Sqrt", true, true, []),
  ("ff", "Element.ToBigInt", true, false, ["res"]),
  ("ff", "Element.ToBigIntRegular", true, false, ["res"]),
  ("ff", "Element.ToMont", true, true, []),
  ("ff", "Element.setBigInt", false, true, []),
  ("ffg", "Element.Div", true, true, []),
  ("ffg", "Element.Exp", true, true, []),
  ("ffg", "Element.Halve", true, true, []),
  ("ffg", "Element.Inverse", true, true, []),
  ("ffg", "Element.Set", true, true, []),
  ("ffg", "Element.SetBigInt", true, true, []),
  ("ffg", "Element.SetBytes", true, true, []),
  ("ffg", "Element.SetInterface", true, true, []),
  ("ffg", "Element.SetOne", true, true, []),
  ("ffg", "Element.SetString", true, true, []),
  ("ffg", "Element.SetUint64", true, true, []),
  ("ffg", "Element.SetZero", true, true, []),
  ("ffg", "Element.Sqrt", true, true, []),
  ("ffg", "Element.ToBigInt", true, false, ["res"]),
  ("ffg", "Element.ToBigIntRegular", true, false, ["res"]),
  ("ffg", "Element.ToMont", true, true, []),
  ("ffg", "Element.setBigInt", false, true, []),
  ("goldenposeidon", "ark", false, false, ["state"]),
  ("goldenposeidon", "exp7", false, false, ["a"]),
  ("goldenposeidon", "exp7state", false, false, ["state"]),
  ("poseidon", "ark", false, false, ["state"]),
  ("poseidon", "exp5", false, false, ["a"]),
  ("poseidon", "exp5state", false, false, ["state"]),
  ("utils", "HexDecodeInto", true, false, ["dst"]),
  ("utils", "SetBigIntFromLEBytes", true, false, ["v"])
]

/-- T6's effect analysis of the current source finds exactly the documented destinations. -/
theorem written_params_documented : writtenParams = expected := by decide +kernel

/-- the exported functions writing through a non-receiver parameter are the documented output-parameter functions -/
theorem exported_non_receiver_writes :
    (writtenParams.filter (fun e => e.2.2.1 && !e.2.2.2.2.isEmpty)).map (fun e => (e.1, e.2.1, e.2.2.2.2)) =
      [("ff", "Element.ToBigInt", ["res"]), ("ff", "Element.ToBigIntRegular", ["res"]),
       ("ffg", "Element.ToBigInt", ["res"]), ("ffg", "Element.ToBigIntRegular", ["res"]),
       ("utils", "HexDecodeInto", ["dst"]), ("utils", "SetBigIntFromLEBytes", ["v"])] := by decide +kernel

/-- no exported function of the curve / hash packages writes through an operand: "no operation modifies the
    integers, slices, arrays, points, keys or signatures passed to it (other than a documented destination)" -/
theorem no_exported_operand_writes :
    ∀ e ∈ writtenParams, e.2.2.1 = true →
      e.1 ∈ ["babyjub", "poseidon", "mimc7", "goldenposeidon", "keccak256"] → e.2.2.2.2 = [] := by decide +kernel

/-- every function that writes through an operand and is NOT exported is one of the five in-place helpers (which T4
    shows are only handed fresh locals) -/
theorem unexported_operand_writers :
    (writtenParams.filter (fun e => !e.2.2.1 && !e.2.2.2.2.isEmpty)).map (fun e => (e.1, e.2.1)) =
      [("babyjub", "pruneBuffer"), ("goldenposeidon", "ark"), ("goldenposeidon", "exp7"), ("goldenposeidon", "exp7state"),
       ("poseidon", "ark"), ("poseidon", "exp5"), ("poseidon", "exp5state")] := by decide +kernel

/-- non-vacuity: the analysis is not blind — it finds the in-place receivers and the output parameters -/
theorem table_nonempty : 40 < writtenParams.length := by decide +kernel
example : ("babyjub", "Point.Mul", true, true, []) ∈ writtenParams := by decide +kernel
example : ("utils", "HexDecodeInto", true, false, ["dst"]) ∈ writtenParams := by decide +kernel

/-- the table was computed over all translated functions -/
theorem translated_count : 150 ≤ translatedFunctions.length := by decide +kernel

end I3.Props.C16Gen
