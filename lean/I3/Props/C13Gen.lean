/-
  I3.Props.C13Gen — the membership predicates are exact: the theorems of I3.Props.C13 restated about
  the definitions GENERATED from /repo/babyjub/babyjub.go by the source translator T6
  (`babyjub_Point_InCurve`, `babyjub_Point_InSubGroup`, with `babyjub_Point_Mul` inside), obtained
  from the C13 theorems by rewriting with the bridge lemmas of I3.Lemmas.GoBridgeBabyjub.

  * `InCurve` accepts an integer pair exactly when it satisfies the curve equation modulo q;
  * `InSubGroup` accepts exactly the (representatives of) curve points killed by the prime `l`,
    i.e. exactly the multiples of the base point `B8`;
  * it rejects every pair off the curve, and every sum of a subgroup point and a non-zero point
    of small order.
-/
import I3.Props.C13
import I3.Lemmas.GoBridgeBabyjub

set_option maxRecDepth 100000

namespace I3.Props.C13Gen

open I3 I3.Spec I3.Spec.BJJ I3.Gen.Go I3.Lemmas.CurveBridge I3.Lemmas.Compress I3.GoBridge

/-- the value returned by the GENERATED `recv.Mul(s, p)` -/
abbrev mulG (recv : ℤ × ℤ) (s : ℤ) (p : ℤ × ℤ) : ℤ × ℤ := (babyjub_Point_Mul recv s p).1

theorem mulG_eq_model (recv : ℤ × ℤ) (s : ℤ) (p : ℤ × ℤ) :
    mulG recv s p = Model.BabyJub.mul C13.K s p := by
  unfold mulG
  rw [babyjub_Point_Mul_eq]

/-! ## 1. `InCurve` -/

/-- **`InCurve` is exactly the curve equation** `168700 x² + y² = 1 + 168696 x² y²` in `ZMod q`,
for every pair of integers (canonical or not, negative or not). -/
theorem inCurve_exact (x y : ℤ) :
    babyjub_Point_InCurve (x, y) = true ↔
      (168700 : ZMod I3.q) * (x : ZMod I3.q) ^ 2 + (y : ZMod I3.q) ^ 2 =
        1 + (168696 : ZMod I3.q) * (x : ZMod I3.q) ^ 2 * (y : ZMod I3.q) ^ 2 := by
  rw [babyjub_Point_InCurve_eq]
  exact C13.inCurve_exact x y

/-- the same with the answer `false` -/
theorem inCurve_false_iff (x y : ℤ) :
    babyjub_Point_InCurve (x, y) = false ↔
      (168700 : ZMod I3.q) * (x : ZMod I3.q) ^ 2 + (y : ZMod I3.q) ^ 2 ≠
        1 + (168696 : ZMod I3.q) * (x : ZMod I3.q) ^ 2 * (y : ZMod I3.q) ^ 2 := by
  rw [babyjub_Point_InCurve_eq]
  exact C13.inCurve_false_iff x y

/-- the accepted canonical pairs are exactly the coordinate pairs of the points of the group -/
theorem inCurve_iff_coords (x y : ℤ) (hx : 0 ≤ x ∧ x < I3.q) (hy : 0 ≤ y ∧ y < I3.q) :
    babyjub_Point_InCurve (x, y) = true ↔ ∃ P : curve.Point, coords P = (x, y) := by
  rw [babyjub_Point_InCurve_eq]
  exact C13.inCurve_iff_coords x y hx hy

/-- every point of the group is accepted -/
theorem inCurve_coords (P : curve.Point) : babyjub_Point_InCurve (coords P) = true := by
  rw [babyjub_Point_InCurve_eq]
  exact Lemmas.CurveBridge.inCurve_coords P

/-! ## 2. `InSubGroup` -/

/-- `InSubGroup` on arbitrary integers: the pair is congruent to a curve point killed by `l`
(the Go code reduces the coordinates when converting to projective form). -/
theorem inSubGroup_exact_int (x y : ℤ) :
    babyjub_Point_InSubGroup (x, y) = true ↔
      ∃ P : curve.Point, (x : ZMod I3.q) = P.x ∧ (y : ZMod I3.q) = P.y ∧ I3.l • P = 0 := by
  rw [babyjub_Point_InSubGroup_eq]
  exact C13.inSubGroup_exact_int x y

/-- **`InSubGroup` is exact**: a canonical pair is accepted exactly when it is the coordinate pair
of a point of the group with `l • P = 0`. -/
theorem inSubGroup_exact (x y : ℤ) (hx : 0 ≤ x ∧ x < I3.q) (hy : 0 ≤ y ∧ y < I3.q) :
    babyjub_Point_InSubGroup (x, y) = true ↔
      ∃ P : curve.Point, coords P = (x, y) ∧ I3.l • P = 0 := by
  rw [babyjub_Point_InSubGroup_eq]
  exact C13.inSubGroup_exact x y hx hy

/-- on the coordinates of a point of the group: `InSubGroup` decides `l • P = 0` -/
theorem inSubGroup_coords (P : curve.Point) :
    babyjub_Point_InSubGroup (coords P) = true ↔ I3.l • P = 0 := by
  rw [babyjub_Point_InSubGroup_eq]
  exact C13.inSubGroup_coords P

/-! ## 3. corollaries -/

/-- every multiple of the base point computed by the generated `Mul` is in the subgroup (any
natural scalar, of any size, any receiver) -/
theorem inSubGroup_mul_b8 (recv : ℤ × ℤ) (s : ℕ) :
    babyjub_Point_InSubGroup (mulG recv (s : ℤ) Go.Ext.babyjub_B8) = true := by
  rw [babyjub_Point_InSubGroup_eq, mulG_eq_model]
  exact C13.inSubGroup_mul_b8 s

/-- **a subgroup point shifted by a non-zero point of small order is rejected**: the cofactor
component is detected, although the sum is a perfectly valid curve point. -/
theorem not_inSubGroup_add_small (S T : curve.Point) (hS : I3.l • S = 0) (hT : 8 • T = 0)
    (hT0 : T ≠ 0) :
    babyjub_Point_InCurve (coords (S + T)) = true ∧
      babyjub_Point_InSubGroup (coords (S + T)) = false := by
  rw [babyjub_Point_InSubGroup_eq]
  exact ⟨inCurve_coords _, C13.not_inSubGroup_add_small S T hS hT hT0⟩

/-- the non-zero points of small order themselves are rejected -/
theorem not_inSubGroup_small (i : Fin 8) (hi : i ≠ 0) :
    babyjub_Point_InSubGroup (coords (small i)) = false := by
  rw [babyjub_Point_InSubGroup_eq]
  exact C13.not_inSubGroup_small i hi

/-- the same on the explicit coordinate table `smallN` of the seven non-zero small-order points -/
theorem not_inSubGroup_smallN (i : Fin 8) (hi : i ≠ 0) :
    babyjub_Point_InCurve (((smallN i).1 : ℤ), ((smallN i).2 : ℤ)) = true ∧
      babyjub_Point_InSubGroup (((smallN i).1 : ℤ), ((smallN i).2 : ℤ)) = false := by
  rw [babyjub_Point_InSubGroup_eq, babyjub_Point_InCurve_eq]
  exact C13.not_inSubGroup_smallN i hi

/-- **a pair that is not on the curve is never in the subgroup** -/
theorem not_inSubGroup_off_curve (x y : ℤ) (h : babyjub_Point_InCurve (x, y) = false) :
    babyjub_Point_InSubGroup (x, y) = false := by
  rw [babyjub_Point_InCurve_eq] at h
  rw [babyjub_Point_InSubGroup_eq]
  exact C13.not_inSubGroup_off_curve x y h

/-- in particular `(0, 0)`, the value `Affine` returns for `Z = 0` and the zero value standing for
a nil `*Point` -/
theorem not_inSubGroup_zero_zero :
    babyjub_Point_InCurve (0, 0) = false ∧ babyjub_Point_InSubGroup (0, 0) = false := by
  rw [babyjub_Point_InSubGroup_eq, babyjub_Point_InCurve_eq]
  exact C13.not_inSubGroup_zero_zero

/-- **`InSubGroup` accepts exactly the multiples of the base point**: a canonical pair is accepted
iff it is `s * B8` (as computed by the generated `Mul`) for some scalar `s < l`. -/
theorem inSubGroup_iff_mul_b8 (recv : ℤ × ℤ) (x y : ℤ) (hx : 0 ≤ x ∧ x < I3.q)
    (hy : 0 ≤ y ∧ y < I3.q) :
    babyjub_Point_InSubGroup (x, y) = true ↔
      ∃ s : ℕ, s < I3.l ∧ (x, y) = mulG recv (s : ℤ) Go.Ext.babyjub_B8 := by
  rw [babyjub_Point_InSubGroup_eq]
  simp only [mulG_eq_model]
  exact C13.inSubGroup_iff_mul_b8 x y hx hy

/-- the subgroup has exactly `l` elements: `s ↦ s * B8` is injective on `[0, l)` -/
theorem mul_b8_injective (r1 r2 : ℤ × ℤ) (s t : ℕ) (hs : s < I3.l) (ht : t < I3.l)
    (h : mulG r1 (s : ℤ) Go.Ext.babyjub_B8 = mulG r2 (t : ℤ) Go.Ext.babyjub_B8) : s = t := by
  rw [mulG_eq_model, mulG_eq_model] at h
  exact C13.mul_b8_injective s t hs ht h

/-! ## 4. non-vacuity: concrete points -/

/-- the base point: on the curve and in the subgroup (the generated code, executed) -/
example : babyjub_Point_InCurve Go.Ext.babyjub_B8 = true := by decide +kernel
example : babyjub_Point_InSubGroup Go.Ext.babyjub_B8 = true := by
  have h := inSubGroup_mul_b8 (0, 0) 1
  have e : mulG (0, 0) ((1 : ℕ) : ℤ) Go.Ext.babyjub_B8 = Go.Ext.babyjub_B8 := by
    rw [mulG_eq_model, babyjub_B8_eq, k_b8, ← coords_B8, mul_coords, one_nsmul]
  rwa [e] at h
/-- the identity `NewPoint() = (0, 1)` -/
example : babyjub_Point_InSubGroup babyjub_NewPoint = true := by
  rw [babyjub_NewPoint_eq, ← coords_zero, inSubGroup_coords, nsmul_zero]
/-- the point `(0, q-1)` of order 2 is on the curve but rejected by `InSubGroup` -/
example : babyjub_Point_InCurve (0, (I3.q : ℤ) - 1) = true ∧
    babyjub_Point_InSubGroup (0, (I3.q : ℤ) - 1) = false := by
  have h := small_coords 4
  have e : coords (small 4) = (0, (I3.q : ℤ) - 1) := by rw [h]; decide +kernel
  rw [← e]
  exact ⟨inCurve_coords _, not_inSubGroup_small 4 (by decide)⟩
/-- off the curve -/
example : babyjub_Point_InCurve (1, 1) = false := by decide +kernel
example : babyjub_Point_InSubGroup (1, 1) = false := not_inSubGroup_off_curve 1 1 (by decide +kernel)

end I3.Props.C13Gen
