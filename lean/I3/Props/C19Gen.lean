/-
  I3.Props.C19Gen — receiver contract of the babyjub methods documented as "stores the result in the
  receiver and returns it", proved about the definitions GENERATED from /repo/babyjub/babyjub.go by
  the source translator T6.

  The translation makes the receiver explicit: a method that writes through its receiver takes the
  receiver's previous contents as FIRST argument and returns its declared results FOLLOWED BY the
  receiver's final contents:
    `babyjub_Point_Mul recv s q            : (ℤ×ℤ) × (ℤ×ℤ)`                  = (returned, receiver)
    `babyjub_Point_Set recv c              : (ℤ×ℤ) × (ℤ×ℤ)`                  = (returned, receiver)
    `babyjub_PointProjective_Add recv q o  : (ℕ×ℕ×ℕ) × (ℕ×ℕ×ℕ)`              = (returned, receiver)
    `babyjub_Point_Decompress recv b       : (ℤ×ℤ) × Option String × (ℤ×ℤ)`  = (returned, error, receiver)
  Passing the same value as receiver and as argument is the value-level reading of `p.Mul(s, p)`.

  For every input, every previous receiver content, and when an argument is the receiver itself:
  the receiver after the call equals the returned value and is the mathematically specified value;
  a failing `Decompress` leaves the receiver unchanged and returns nil (the zero value `(0, 0)`).
-/
import I3.Props.C19
import I3.Props.C04Gen
import I3.Props.C06Gen

set_option maxRecDepth 100000

namespace I3.Props.C19Gen

open I3 I3.Spec I3.Spec.BJJ I3.Gen.Go I3.Lemmas.CurveBridge I3.GoBridge
open I3.Model.BabyJub (Consts APoint PPoint)

/-- the constants regenerated from the Go source -/
abbrev K : Consts := I3.Inst.bjConsts

/-! ## 0. the generated methods are the receiver models of I3.Model.Receiver -/

theorem mul_eq_model (recv : ℤ × ℤ) (s : ℤ) (q : ℤ × ℤ) :
    babyjub_Point_Mul recv s q =
      ((Model.Receiver.pointMul K recv s q).2, (Model.Receiver.pointMul K recv s q).1) :=
  babyjub_Point_Mul_eq recv s q

theorem set_eq_model (recv c : ℤ × ℤ) :
    babyjub_Point_Set recv c =
      ((Model.Receiver.pointSet recv c).2, (Model.Receiver.pointSet recv c).1) := rfl

/-- `b` is a `[32]byte` in Go: `b.length = 32` is the parameter type -/
theorem decompress_eq_model (recv : ℤ × ℤ) (b : Bytes) (hb : b.length = 32) :
    babyjub_Point_Decompress recv b =
      match (Model.Receiver.pointDecompress K Inst.sqrtQ recv b).2 with
      | .ok p => (p, none, (Model.Receiver.pointDecompress K Inst.sqrtQ recv b).1)
      | .error e => ((0, 0), some (errMsg e), (Model.Receiver.pointDecompress K Inst.sqrtQ recv b).1) := by
  rw [babyjub_Point_Decompress_eq recv b hb]
  unfold Model.Receiver.pointDecompress
  cases Model.BabyJub.decompress K Inst.sqrtQ b <;> rfl

/-! ## 1. `Point.Mul` -/

/-- **`recv.Mul(s, q)`**: for every previous receiver content, EVERY integer scalar (negative ones
included) and every argument, the receiver after the call is the returned value, and it is the
double-and-add result of the model on the ORIGINAL argument. -/
theorem mul_receiver (recv : ℤ × ℤ) (s : ℤ) (q : ℤ × ℤ) :
    (babyjub_Point_Mul recv s q).2 = (babyjub_Point_Mul recv s q).1 ∧
      (babyjub_Point_Mul recv s q).1 = Model.BabyJub.mul K s q := by
  rw [babyjub_Point_Mul_eq]
  exact ⟨rfl, rfl⟩

/-- **argument ≡ receiver (`p.Mul(s, p)`)**: the result is still that of multiplying the ORIGINAL
point (`q.Projective()` is taken before anything is stored). -/
theorem mul_receiver_self (s : ℤ) (p : ℤ × ℤ) :
    (babyjub_Point_Mul p s p).2 = (babyjub_Point_Mul p s p).1 ∧
      (babyjub_Point_Mul p s p).1 = Model.BabyJub.mul K s p :=
  mul_receiver p s p

/-- the previous content of the receiver is irrelevant -/
theorem mul_receiver_indep (r1 r2 : ℤ × ℤ) (s : ℤ) (q : ℤ × ℤ) :
    babyjub_Point_Mul r1 s q = babyjub_Point_Mul r2 s q := by
  rw [babyjub_Point_Mul_eq, babyjub_Point_Mul_eq]

/-- on a curve point and a natural scalar the stored and returned value is `s • P` — also when the
receiver is the argument -/
theorem mul_receiver_point (recv : ℤ × ℤ) (s : ℕ) (P : curve.Point) :
    babyjub_Point_Mul recv (s : ℤ) (coords P) = (coords (s • P), coords (s • P)) ∧
      babyjub_Point_Mul (coords P) (s : ℤ) (coords P) = (coords (s • P), coords (s • P)) := by
  rw [babyjub_Point_Mul_eq, babyjub_Point_Mul_eq, mul_coords]
  exact ⟨rfl, rfl⟩

/-! ## 2. `Point.Set` -/

/-- **`recv.Set(c)`**: receiver = returned value = `c`. -/
theorem set_receiver (recv c : ℤ × ℤ) :
    (babyjub_Point_Set recv c).2 = (babyjub_Point_Set recv c).1 ∧
      (babyjub_Point_Set recv c).1 = c := ⟨rfl, rfl⟩

/-- `p.Set(p)` leaves `p` as it is -/
theorem set_receiver_self (p : ℤ × ℤ) : babyjub_Point_Set p p = (p, p) := rfl

/-! ## 3. `PointProjective.Add` -/

/-- **`recv.Add(q, o)`**: for every previous receiver content the receiver after the call is the
returned value, and it is the add-2008-bbjlp sum of the model on the ORIGINAL arguments. -/
theorem add_receiver (recv q o : ℕ × ℕ × ℕ) :
    (babyjub_PointProjective_Add recv q o).2 = (babyjub_PointProjective_Add recv q o).1 ∧
      (babyjub_PointProjective_Add recv q o).1 = Model.BabyJub.addProj K q o := by
  rw [babyjub_PointProjective_Add_eq]
  exact ⟨rfl, rfl⟩

/-- **the receiver is one or both of the arguments** (`q.Add(q, o)`, `o.Add(q, o)`, `q.Add(q, q)` —
the three patterns used in `Point.Mul` and `Verify*`): same result (all reads of the formulas happen
before the three stores). -/
theorem add_receiver_alias (q o : ℕ × ℕ × ℕ) :
    babyjub_PointProjective_Add q q o =
        (Model.BabyJub.addProj K q o, Model.BabyJub.addProj K q o) ∧
      babyjub_PointProjective_Add o q o =
        (Model.BabyJub.addProj K q o, Model.BabyJub.addProj K q o) ∧
      babyjub_PointProjective_Add q q q =
        (Model.BabyJub.addProj K q q, Model.BabyJub.addProj K q q) := by
  simp only [babyjub_PointProjective_Add_eq, and_self]

/-- on representatives of curve points the stored and returned value represents `P + Q` -/
theorem add_receiver_point (recv q o : ℕ × ℕ × ℕ) (P Q : curve.Point) (h1 : Rep q P)
    (h2 : Rep o Q) :
    (babyjub_PointProjective_Add recv q o).2 = (babyjub_PointProjective_Add recv q o).1 ∧
      Rep (babyjub_PointProjective_Add recv q o).2 (P + Q) := by
  have h := C04Gen.addProj_correct recv q o P Q h1 h2
  exact ⟨h.1, by rw [h.1]; exact h.2.1⟩

/-! ## 4. `Point.Decompress` (`b` is a `[32]byte`: `b.length = 32` is the parameter type) -/

/-- **success**: no error ⇒ the receiver after the call is the returned point, and it is the point
the model decodes. -/
theorem decompress_receiver (recv : ℤ × ℤ) (b : Bytes) (hb : b.length = 32)
    (h : (babyjub_Point_Decompress recv b).2.1 = none) :
    (babyjub_Point_Decompress recv b).2.2 = (babyjub_Point_Decompress recv b).1 ∧
      Model.BabyJub.decompress K Inst.sqrtQ b = .ok (babyjub_Point_Decompress recv b).1 :=
  ⟨(C06Gen.decompress_sound recv b hb h).2.2.2,
    (C06Gen.decompress_ok_iff_model recv b hb _).1 ⟨h, rfl⟩⟩

/-- **a failing decompression stores nothing**: an error ⇒ the receiver is unchanged and nil (the
zero value) is returned. -/
theorem decompress_receiver_error (recv : ℤ × ℤ) (b : Bytes) (hb : b.length = 32) (msg : String)
    (h : (babyjub_Point_Decompress recv b).2.1 = some msg) :
    (babyjub_Point_Decompress recv b).2.2 = recv ∧ (babyjub_Point_Decompress recv b).1 = (0, 0) := by
  rcases C06Gen.decompress_cases recv b hb with ⟨p, hp⟩ | hp | hp | hp <;> rw [hp] at h ⊢
  · cases h
  all_goals exact ⟨rfl, rfl⟩

/-- the two cases are exhaustive: either (result, nil, result) or (nil, error, old receiver) -/
theorem decompress_receiver_cases (recv : ℤ × ℤ) (b : Bytes) (hb : b.length = 32) :
    (∃ p, babyjub_Point_Decompress recv b = (p, none, p)) ∨
      (∃ msg, babyjub_Point_Decompress recv b = ((0, 0), some msg, recv)) := by
  rcases C06Gen.decompress_cases recv b hb with h | h | h | h
  · exact Or.inl h
  all_goals exact Or.inr ⟨_, h⟩

/-- **receiver ≡ the point that was compressed** (`p.Decompress(p.Compress())`) and any other
receiver: on every curve point the receiver ends up holding the point, which is also returned. -/
theorem decompress_receiver_point (recv : ℤ × ℤ) (P : curve.Point) :
    babyjub_Point_Decompress recv (babyjub_Point_Compress (coords P)) = (coords P, none, coords P) ∧
      babyjub_Point_Decompress (coords P) (babyjub_Point_Compress (coords P)) =
        (coords P, none, coords P) :=
  ⟨C06Gen.decompress_compress recv P, C06Gen.decompress_compress (coords P) P⟩

/-! ## 5. non-vacuity: the generated code executed, with dirty and self-aliased receivers -/

example : babyjub_Point_Set (7, 8) (1, 2) = ((1, 2), (1, 2)) := rfl
/-- `p.Mul(3, p)` with `p = B8` gives `3 * B8` in both components, the same as with a fresh receiver -/
example : babyjub_Point_Mul Go.Ext.babyjub_B8 3 Go.Ext.babyjub_B8 =
    babyjub_Point_Mul babyjub_NewPoint 3 Go.Ext.babyjub_B8 ∧
    (babyjub_Point_Mul Go.Ext.babyjub_B8 3 Go.Ext.babyjub_B8).2 =
      (babyjub_Point_Mul Go.Ext.babyjub_B8 3 Go.Ext.babyjub_B8).1 ∧
    (babyjub_Point_Mul Go.Ext.babyjub_B8 3 Go.Ext.babyjub_B8).1 ≠ Go.Ext.babyjub_B8 := by
  decide +kernel
/-- a failing `Decompress` (sign bit on the identity) keeps the dirty receiver `(7, 8)` -/
example : babyjub_Point_Decompress (7, 8) (natToLE 31 1 ++ [0x80]) =
    ((0, 0), some "x is zero but sign bit is set", (7, 8)) := by decide +kernel
/-- a successful one overwrites it -/
example : babyjub_Point_Decompress (7, 8) (natToLE 32 1) = ((0, 1), none, (0, 1)) := by
  decide +kernel

end I3.Props.C19Gen
