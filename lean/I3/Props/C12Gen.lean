/-
  I3.Props.C12Gen — key derivation: the headline theorems of I3.Props.C12 restated about the
  definitions GENERATED from /repo/babyjub/eddsa.go by the source translator T6
  (`babyjub_pruneBuffer`, `babyjub_SkToBigInt`, `babyjub_PrivateKey_Scalar`, `babyjub_NewPrivKeyScalar`,
  `babyjub_PrivKeyScalar_BigInt`, `babyjub_PrivKeyScalar_Public`, `babyjub_PrivateKey_Public`,
  `babyjub_PublicKey_Compress`, `babyjub_PublicKeyComp_Decompress`), obtained from the C12 theorems by
  rewriting with the bridge lemmas of I3.Lemmas.GoBridgeEdDSA.

  Conventions of the translation: a `PrivateKey` (`[32]byte`) is the list of its bytes — no theorem of
  this file needs the length, the key is only hashed —, a `*big.Int` / `*PrivKeyScalar` is an `ℤ`, a
  `*PublicKey` / `*Point` is a pair `ℤ × ℤ`; `pruneBuffer(buf)` returns (the returned pointer's
  contents, the contents of `*buf` after the call).  BLAKE-512 is the generated wrapper
  `babyjub_Blake512` (= the one-shot function the translated callers use: `C20Gen.blake_extern_justified`).

  * `pruneBuffer` clamps the 256-bit little-endian value of a `[32]byte`: bits 0–2 and 255 cleared,
    bit 254 set, all other bits untouched;
  * `SkToBigInt(k) = clamp(LE(BLAKE-512(k)[:32])) >> 3`, no bit lost by the shift, in `[2^251, 2^252)`;
    `k.Scalar()`, `.BigInt()` give the same integer;
  * `k.Public() = s • B8` in canonical coordinates: on the curve, in the subgroup of order `l`
    (accepted by the generated `InSubGroup`), the identity only for `s = 2 l`; it survives
    `Compress` / `Decompress`.
-/
import I3.Props.C12
import I3.Props.C13Gen
import I3.Props.C20Gen
import I3.Lemmas.GoBridgeEdDSA

set_option maxRecDepth 100000

namespace I3.Props.C12Gen

open I3 I3.Spec I3.Spec.BJJ I3.Gen.Go I3.Lemmas.CurveBridge I3.Lemmas.Compress I3.GoBridge
open I3.Model.EdDSA (prune skToBigInt publicKey)

/-- the constants regenerated from the Go source -/
abbrev K : Model.BabyJub.Consts := I3.Inst.bjConsts

/-! ## 0. the generated code is the model -/

/-- the hash of the model instance is the generated `Blake512` wrapper -/
theorem blake_eq_generated (m : Bytes) : Inst.blake m = babyjub_Blake512 m :=
  (C20Gen.blake_gen_eq m).symm

theorem skToBigInt_eq_model (k : Bytes) :
    babyjub_SkToBigInt k = ((skToBigInt Inst.blake k : ℕ) : ℤ) := babyjub_SkToBigInt_eq k

theorem public_eq_model (k : Bytes) : babyjub_PrivateKey_Public k = publicKey K Inst.blake k :=
  babyjub_PrivateKey_Public_eq k

/-- `buf` is a `[32]byte` in Go (`b.length = 32` is the parameter type); on any other length the
generated code and the model differ (`GoBridge.babyjub_pruneBuffer_eq_iff`) -/
theorem pruneBuffer_eq_model (b : Bytes) (hb : b.length = 32) :
    babyjub_pruneBuffer b = (prune b, prune b) := babyjub_pruneBuffer_eq b hb

/-! ## 1. `pruneBuffer` -/

/-- **`pruneBuffer` clamps** the 256-bit little-endian value of the buffer:
`clamp n = (n mod 2^254) / 8 * 8 + 2^254`; the returned pointer is the argument (same contents),
still 32 bytes. -/
theorem pruneBuffer_eq_clamp (b : Bytes) (hb : b.length = 32) :
    leToNat (babyjub_pruneBuffer b).1 = clamp (leToNat b) ∧
      (babyjub_pruneBuffer b).2 = (babyjub_pruneBuffer b).1 ∧
      (babyjub_pruneBuffer b).1.length = 32 := by
  rw [babyjub_pruneBuffer_eq b hb]
  exact ⟨C12.prune_eq_clamp b hb, rfl, C12.prune_length b hb⟩

/-- bit-level reading: the three low bits and bit 255 are clear, bit 254 is set, every other bit is
the bit of the input -/
theorem pruneBuffer_bits (b : Bytes) (hb : b.length = 32) (i : ℕ) :
    (leToNat (babyjub_pruneBuffer b).1).testBit i =
      if i < 3 then false else if i = 254 then true else if i ≥ 255 then false
      else (leToNat b).testBit i := by
  rw [(pruneBuffer_eq_clamp b hb).1]
  exact C12.clamp_bits _ i

/-- byte-level reading: only bytes 0 and 31 change -/
theorem pruneBuffer_bytes (b : Bytes) (hb : b.length = 32) :
    (babyjub_pruneBuffer b).1 =
      [b.getD 0 0 &&& 0xF8] ++ (b.drop 1).take 30 ++ [(b.getD 31 0 &&& 0x7F) ||| 0x40] := by
  rw [babyjub_pruneBuffer_eq b hb]
  rfl

/-! ## 2. the secret scalar -/

/-- **`SkToBigInt`**: the clamped little-endian value of the first 32 bytes of the BLAKE-512 digest
of the key, shifted right by 3 — for a key of any length -/
theorem skToBigInt_eq (k : Bytes) :
    babyjub_SkToBigInt k = ((clamp (leToNat ((babyjub_Blake512 k).take 32)) / 8 : ℕ) : ℤ) := by
  rw [babyjub_SkToBigInt_eq, C12.skToBigInt_eq Inst.blake C12.blake_length, blake_eq_generated]

/-- `8 * SkToBigInt` is the clamped value itself (no bit is lost by the shift) -/
theorem eight_mul_skToBigInt (k : Bytes) :
    8 * babyjub_SkToBigInt k = ((clamp (leToNat ((babyjub_Blake512 k).take 32)) : ℕ) : ℤ) := by
  rw [babyjub_SkToBigInt_eq, ← blake_eq_generated,
    ← C12.eight_mul_skToBigInt Inst.blake C12.blake_length]
  push_cast
  rfl

/-- the secret scalar has exactly 252 bits: `2^251 ≤ s < 2^252` -/
theorem skToBigInt_range (k : Bytes) :
    2 ^ 251 ≤ babyjub_SkToBigInt k ∧ babyjub_SkToBigInt k < 2 ^ 252 := by
  rw [babyjub_SkToBigInt_eq]
  have h := C12.skToBigInt_range_inst k
  exact ⟨by exact_mod_cast h.1, by exact_mod_cast h.2⟩

/-- the three Go routes to the scalar agree: `SkToBigInt(k)`, `k.Scalar()`, `k.Scalar().BigInt()`,
and `NewPrivKeyScalar` is the identity on values -/
theorem scalar_routes (k : Bytes) (s : ℤ) :
    babyjub_PrivateKey_Scalar k = babyjub_SkToBigInt k ∧
      babyjub_PrivKeyScalar_BigInt (babyjub_PrivateKey_Scalar k) = babyjub_SkToBigInt k ∧
      babyjub_NewPrivKeyScalar s = s ∧ babyjub_PrivKeyScalar_BigInt s = s := by
  rw [babyjub_PrivKeyScalar_BigInt_eq, babyjub_PrivateKey_Scalar_eq, babyjub_SkToBigInt_eq]
  exact ⟨rfl, rfl, rfl, rfl⟩

/-! ## 3. the public key -/

/-- `s.Public()` for a natural scalar: `s • B8` in canonical coordinates -/
theorem privKeyScalar_public (s : ℕ) : babyjub_PrivKeyScalar_Public (s : ℤ) = coords (s • B8) := by
  rw [babyjub_PrivKeyScalar_Public_eq]
  exact I3.Lemmas.EdDSA.mul_b8_nat s

/-- **`k.Public()`**: the secret scalar times the base point, in canonical coordinates; it is
`SkToBigInt(k)` fed to `PrivKeyScalar.Public` -/
theorem publicKey_eq (k : Bytes) :
    babyjub_PrivateKey_Public k = coords ((babyjub_SkToBigInt k).toNat • B8) ∧
      babyjub_PrivateKey_Public k = babyjub_PrivKeyScalar_Public (babyjub_SkToBigInt k) := by
  rw [babyjub_PrivateKey_Public_eq, babyjub_SkToBigInt_eq, Int.toNat_natCast, privKeyScalar_public]
  exact ⟨C12.publicKey_eq Inst.blake k, C12.publicKey_eq Inst.blake k⟩

/-- the public key is a canonical point of the curve (generated `InCurve`) -/
theorem publicKey_valid (k : Bytes) :
    babyjub_Point_InCurve (babyjub_PrivateKey_Public k) = true ∧
      (0 ≤ (babyjub_PrivateKey_Public k).1 ∧ (babyjub_PrivateKey_Public k).1 < I3.q) ∧
      (0 ≤ (babyjub_PrivateKey_Public k).2 ∧ (babyjub_PrivateKey_Public k).2 < I3.q) := by
  rw [babyjub_Point_InCurve_eq, babyjub_PrivateKey_Public_eq]
  exact C12.publicKey_valid Inst.blake k

/-- the public key is killed by the subgroup order `l` -/
theorem publicKey_order (k : Bytes) : I3.l • ((babyjub_SkToBigInt k).toNat • B8) = 0 := by
  rw [babyjub_SkToBigInt_eq, Int.toNat_natCast]
  exact C12.publicKey_order Inst.blake k

/-- **the public key is in the prime-order subgroup**, as tested by the generated `InSubGroup` -/
theorem publicKey_inSubGroup (k : Bytes) :
    babyjub_Point_InSubGroup (babyjub_PrivateKey_Public k) = true := by
  rw [babyjub_Point_InSubGroup_eq, babyjub_PrivateKey_Public_eq]
  exact C12.publicKey_inSubGroup Inst.blake k

/-- the public key is the identity only for the single scalar `2 l` of the range `[2^251, 2^252)` -/
theorem publicKey_eq_zero_iff (k : Bytes) :
    babyjub_PrivateKey_Public k = (0, 1) ↔ babyjub_SkToBigInt k = 2 * (I3.l : ℤ) := by
  rw [babyjub_PrivateKey_Public_eq, babyjub_SkToBigInt_eq,
    C12.publicKey_eq_zero_iff Inst.blake C12.blake_length]
  exact ⟨fun h => by rw [h]; push_cast; rfl, fun h => by exact_mod_cast h⟩

/-- the public key survives `pk.Compress()` / `pkComp.Decompress()` (no error, same point);
`pk.Point()` is the same pair -/
theorem publicKey_roundtrip (k : Bytes) :
    babyjub_PublicKeyComp_Decompress (babyjub_PublicKey_Compress (babyjub_PrivateKey_Public k)) =
        (babyjub_PrivateKey_Public k, none) ∧
      (babyjub_PublicKey_Compress (babyjub_PrivateKey_Public k)).length = 32 ∧
      babyjub_PublicKey_Point (babyjub_PrivateKey_Public k) = babyjub_PrivateKey_Public k := by
  have hl : (babyjub_PublicKey_Compress (babyjub_PrivateKey_Public k)).length = 32 := by
    rw [babyjub_PublicKey_Compress_eq]; exact C15.compress_length _ _
  refine ⟨?_, hl, rfl⟩
  rw [babyjub_PublicKeyComp_Decompress_eq _ hl, babyjub_PublicKey_Compress_eq,
    babyjub_PrivateKey_Public_eq, C12.publicKey_roundtrip Inst.blake Inst.sqrtQ C06.sqrtQ_spec k]
  rfl

/-! ## 4. non-vacuity: concrete values, evaluated on the GENERATED definitions -/

example : (babyjub_pruneBuffer (List.replicate 32 0xff)).1 =
    0xf8 :: List.replicate 30 0xff ++ [0x7f] := by decide
example : (babyjub_pruneBuffer (List.replicate 32 0)).1 = List.replicate 31 0 ++ [0x40] := by decide
example : leToNat (babyjub_pruneBuffer (List.replicate 32 0xff)).1 = 2 ^ 255 - 8 := by
  rw [(pruneBuffer_eq_clamp _ (by decide)).1]; decide
/-- the length hypothesis is needed: on 30 bytes the generated `pruneBuffer` changes byte 0 only -/
example : (babyjub_pruneBuffer (List.replicate 30 0xff)).1 = 0xf8 :: List.replicate 29 0xff := by
  decide

/-- the key `LE32(1)`: scalar and public key as computed by the Go library (kernel evaluation of the
generated `SkToBigInt` and `Public`, BLAKE-512 included) -/
example : babyjub_SkToBigInt (natToLE 32 1) =
    7145686369095809317503459916107662843906012966450591263510695581871728353645 := by
  decide +kernel
example : babyjub_PrivateKey_Public (natToLE 32 1) =
    (9294265634356104354972967978764070932614808460219262817760395479619496686168,
     14382649545529405976710664157356364657039027681269256663271478725131562622080) := by
  decide +kernel
example : 2 ^ 251 ≤ babyjub_SkToBigInt (natToLE 32 1) ∧ babyjub_SkToBigInt (natToLE 32 1) < 2 ^ 252 :=
  skToBigInt_range _
example : babyjub_Point_InSubGroup (babyjub_PrivateKey_Public (natToLE 32 1)) = true :=
  publicKey_inSubGroup _

end I3.Props.C12Gen
