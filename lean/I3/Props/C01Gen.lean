/-
  I3.Props.C01Gen — property C01 for the definitions GENERATED from /repo/poseidon/poseidon.go by the source
  translator T6 (`I3.Gen.Go.poseidon_HashWithStateEx`, `poseidon_HashEx`, `poseidon_HashWithState`,
  `poseidon_Hash`), in place of the hand-written model `I3.Inst.poseidonEx`.

  Every theorem is the corresponding theorem of I3.Props.C01 rewritten with the bridge
  `I3.GoBridge.poseidon_HashWithStateEx_eq` (I3.Lemmas.GoBridgePoseidon): the generated function returns, on
  every input, exactly what the model prescribes.  Go values: `*big.Int` is `Int`, a returned slice is a `List Int`,
  the `error` is `Option String` (`none` = `nil`).
-/
import I3.Props.C01
import I3.Lemmas.GoBridgePoseidon
namespace I3.Props.C01Gen
open I3 I3.Gen.Go I3.GoBridge

/-- **C01 (headline) for the generated code.**  Whenever `poseidon.HashWithStateEx(inp, st, nOuts)` — as
    translated from the Go source — returns no error, its result is the first `nOuts` lanes of the textbook
    Poseidon permutation with the reference (Grain) constants applied to the state `[st, inp…]`, for every input
    vector, capacity value and `nOuts`. -/
theorem poseidon_eq_reference (inp : List Int) (st : Int) (nOuts : Int) (out : List Int)
    (h : poseidon_HashWithStateEx inp st nOuts = (out, none)) :
    out = ((Hades.poseidonBN254 (Grain.bn254Params (inp.length + 1))
            (st.toNat :: inp.map Int.toNat)).take nOuts.toNat).map Int.ofNat := by
  obtain ⟨r, hr, rfl⟩ := (poseidon_HashWithStateEx_nil_iff inp st nOuts out).1 h
  rw [C01.poseidon_eq_reference inp st nOuts r hr]

/-- Totality form: on every admissible input the generated function returns exactly the reference value and
    a `nil` error. -/
theorem poseidon_spec (inp : List Int) (st : Int) (nOuts : Int)
    (h1 : 1 ≤ inp.length) (h2 : inp.length ≤ 16) (h3 : ∀ x ∈ inp, 0 ≤ x ∧ x < (q : Int))
    (h4 : 0 ≤ st) (h5 : st < (q : Int)) (h6 : 1 ≤ nOuts) (h7 : nOuts ≤ (inp.length : Int) + 1) :
    poseidon_HashWithStateEx inp st nOuts =
      (((Hades.poseidonBN254 (Grain.bn254Params (inp.length + 1))
          (st.toNat :: inp.map Int.toNat)).take nOuts.toNat).map Int.ofNat, none) :=
  (poseidon_HashWithStateEx_ok_iff inp st nOuts _).1 (C01.poseidon_spec inp st nOuts h1 h2 h3 h4 h5 h6 h7)

/-- the same for `poseidon.HashEx` (`initState = 0`). -/
theorem hashEx_spec (inp : List Int) (nOuts : Int)
    (h1 : 1 ≤ inp.length) (h2 : inp.length ≤ 16) (h3 : ∀ x ∈ inp, 0 ≤ x ∧ x < (q : Int))
    (h6 : 1 ≤ nOuts) (h7 : nOuts ≤ (inp.length : Int) + 1) :
    poseidon_HashEx inp nOuts =
      (((Hades.poseidonBN254 (Grain.bn254Params (inp.length + 1))
          (0 :: inp.map Int.toNat)).take nOuts.toNat).map Int.ofNat, none) :=
  poseidon_spec inp 0 nOuts h1 h2 h3 (by decide) (by decide) h6 h7

/-- The plain hash `poseidon.Hash(inp)` (`initState = 0`, one output), when it returns no error, is lane 0 of
    the reference permutation applied to `[0, inp…]`. -/
theorem hash_eq_reference (inp : List Int) (v : Int) (hh : poseidon_Hash inp = (v, none)) :
    (Hades.poseidonBN254 (Grain.bn254Params (inp.length + 1)) (0 :: inp.map Int.toNat)).head?.map Int.ofNat =
      some v := by
  obtain ⟨h, hh', rfl⟩ := (poseidon_Hash_nil_iff inp v).1 hh
  rw [C01.hash_eq_reference inp h hh']; rfl

/-- Totality form for `poseidon.Hash`. -/
theorem hash_spec (inp : List Int)
    (h1 : 1 ≤ inp.length) (h2 : inp.length ≤ 16) (h3 : ∀ x ∈ inp, 0 ≤ x ∧ x < (q : Int)) :
    ∃ h, (Hades.poseidonBN254 (Grain.bn254Params (inp.length + 1)) (0 :: inp.map Int.toNat)).head? = some h ∧
      poseidon_Hash inp = ((h : Int), none) := by
  have hq : Gen.constants_q = q := by decide
  obtain ⟨r, hr⟩ := (C07.poseidonEx_ok_iff inp 0 1).2
    ⟨h1, h2, by rw [hq]; exact h3, by decide, by decide, by decide, by omega⟩
  obtain ⟨x, rfl⟩ := poseidonEx_one_ok inp 0 r hr
  have hh : Inst.hPoseidon inp = some x := by unfold Inst.hPoseidon; rw [hr]
  exact ⟨x, C01.hash_eq_reference inp x hh, (poseidon_Hash_some_iff inp x).1 hh⟩

/-- Every output of a call that returns no error is a canonical residue in `[0, q)`. -/
theorem poseidon_output_lt_q (inp : List Int) (st : Int) (nOuts : Int) (out : List Int)
    (h : poseidon_HashWithStateEx inp st nOuts = (out, none)) : ∀ x ∈ out, 0 ≤ x ∧ x < (q : Int) := by
  obtain ⟨r, hr, rfl⟩ := (poseidon_HashWithStateEx_nil_iff inp st nOuts out).1 h
  intro x hx
  obtain ⟨y, hy, rfl⟩ := List.mem_map.1 hx
  have := C01.poseidon_output_lt_q inp st nOuts r hr y hy
  exact ⟨Int.natCast_nonneg y, Int.ofNat_lt.2 this⟩

/-! ### non-vacuity -/

/-- circomlib test vector `poseidon([1, 2])` for the GENERATED code, obtained from the model's vector through
    the bridge (no evaluation). -/
theorem vector_1_2 : poseidon_HashWithStateEx [1, 2] 0 1 =
    ([7853200120776062878684798364095072458815029376092732009249414926327459813530], none) :=
  (poseidon_HashWithStateEx_ok_iff [1, 2] 0 1 _).1 C01.vector_1_2

/-- the same vector, by evaluating the generated definition directly in the kernel (measured: 2.5 s). -/
example : poseidon_HashWithStateEx [1, 2] 0 1 =
    ([7853200120776062878684798364095072458815029376092732009249414926327459813530], none) := by
  decide +kernel

/-- … hence the REFERENCE permutation with Grain constants yields the same vector. -/
example : ((Hades.poseidonBN254 (Grain.bn254Params 3) [0, 1, 2]).take 1).map Int.ofNat =
    [7853200120776062878684798364095072458815029376092732009249414926327459813530] :=
  (poseidon_eq_reference [1, 2] 0 1 _ vector_1_2).symm

theorem hash_vector_1_2 : poseidon_Hash [1, 2] =
    (7853200120776062878684798364095072458815029376092732009249414926327459813530, none) :=
  (poseidon_Hash_some_iff [1, 2] _).1 (by decide +kernel)

example : (Hades.poseidonBN254 (Grain.bn254Params 3) [0, 1, 2]).head?.map Int.ofNat =
    some 7853200120776062878684798364095072458815029376092732009249414926327459813530 :=
  hash_eq_reference [1, 2] _ hash_vector_1_2

end I3.Props.C01Gen
