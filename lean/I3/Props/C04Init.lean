/-
  I3.Props.C04Init — the package-level constants of `babyjub` and `goldenposeidon` as their Go `init()` functions
  BUILD them.  T6 translates an `init()` into a definition whose result is the tuple of package-level variables it
  assigns; here the kernel evaluates those definitions (decimal parsing through `utils.NewIntFromString`,
  `SetBigInt`, the `>> 3` that derives `SubOrder`, the circulant/diagonal MDS construction in `uint64`, the
  `NewElementFromUint64` reductions) and finds exactly the values that translator T1 reads off the source literals
  and that every other theorem uses (`I3.Go.Ext.*`).  So the constants of C04/C13 and the tables of C10 are tied to
  the code that creates them, not only to the literals.  (`poseidon.init`, the 24 k-line hex table parser, is not
  translated: its in-memory result is compared with T1's tables through a hook on every run.)
-/
import I3.Gen.GoBabyjub
import I3.Gen.GoChkBabyjub

set_option maxRecDepth 100000
namespace I3.Props.C04Init
open I3 I3.Gen.Go

/-- `babyjub.init()` assigns (A, Aff, D, Dff, Order, SubOrder, B8) -/
theorem babyjub_init_eq :
    babyjub_init = (I3.Go.Ext.babyjub_A, I3.Go.Ext.babyjub_Aff, I3.Go.Ext.babyjub_D, I3.Go.Ext.babyjub_Dff,
      I3.Go.Ext.babyjub_Order, I3.Go.Ext.babyjub_SubOrder, I3.Go.Ext.babyjub_B8) := by
  have h : babyjub_init.1 = I3.Go.Ext.babyjub_A ∧ babyjub_init.2.1 = I3.Go.Ext.babyjub_Aff ∧
      babyjub_init.2.2.1 = I3.Go.Ext.babyjub_D ∧ babyjub_init.2.2.2.1 = I3.Go.Ext.babyjub_Dff ∧
      babyjub_init.2.2.2.2.1 = I3.Go.Ext.babyjub_Order ∧ babyjub_init.2.2.2.2.2.1 = I3.Go.Ext.babyjub_SubOrder ∧
      babyjub_init.2.2.2.2.2.2.1 = I3.Go.Ext.babyjub_B8.1 ∧ babyjub_init.2.2.2.2.2.2.2 = I3.Go.Ext.babyjub_B8.2 := by
    decide +kernel
  obtain ⟨h1, h2, h3, h4, h5, h6, h7, h8⟩ := h
  ext <;> assumption

/-- in particular `SubOrder = Order >> 3 = l` and `Order = 8·l` -/
theorem babyjub_init_orders : babyjub_init.2.2.2.2.1 = ((8 * I3.l : Nat) : Int) ∧ babyjub_init.2.2.2.2.2.1 = (I3.l : Int) := by
  decide +kernel

/-- `babyjub.init()` does not panic (every decimal literal parses) -/
theorem babyjub_init_ok_true : babyjub_init_ok = true := by decide +kernel

/-- `utils.NewIntFromString` on a decimal rendering returns the integer; on anything else the error -/
example : utils_NewIntFromString "-0042" = (-42, none) ∧
    utils_NewIntFromString "12x" = (0, some "bad base 10 string %s") := by decide +kernel

end I3.Props.C04Init
