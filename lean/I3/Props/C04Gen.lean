/-
  I3.Props.C04Gen — BabyJubJub addition and scalar multiplication implement the curve group law:
  the headline theorems of I3.Props.C04 restated about the definitions GENERATED from
  /repo/babyjub/babyjub.go by the source translator T6 (`I3.Gen.Go.babyjub_*`), instead of the
  hand-written model.  They are obtained from the C04 theorems by rewriting with the bridge lemmas
  of I3.Lemmas.GoBridgeBabyjub (generated function = model function, for every input), so they are
  re-checked against what the Go source says on every run.

  Conventions of the translation (I3.Exec.Go): a `*big.Int` is an `ℤ`, a `*ff.Element` the canonical
  residue it represents, a `Point` a pair `ℤ × ℤ`, a `PointProjective` a triple `ℕ × ℕ × ℕ`; a method
  that writes through its receiver returns (returned value, receiver after the call) and takes the
  receiver's previous contents `recv` as first argument.  Every theorem quantifies over ALL previous
  receiver contents, ALL curve points (the whole group of order `8 l`) and ALL natural scalars.
-/
import I3.Props.C04
import I3.Lemmas.GoBridgeBabyjub

namespace I3.Props.C04Gen

open I3 I3.Spec I3.Spec.BJJ I3.Gen.Go I3.Lemmas.CurveBridge I3.GoBridge

/-- affine addition as every caller in the library performs it, through the GENERATED functions:
`p1.Projective()`, `p2.Projective()`, `recv.Add(·, ·)`, `.Affine()` -/
abbrev addG (recv : ℕ × ℕ × ℕ) (p1 p2 : ℤ × ℤ) : ℤ × ℤ :=
  babyjub_PointProjective_Affine
    (babyjub_PointProjective_Add recv (babyjub_Point_Projective p1) (babyjub_Point_Projective p2)).1

/-- the value returned by the GENERATED `recv.Mul(s, p)` -/
abbrev mulG (recv : ℤ × ℤ) (s : ℤ) (p : ℤ × ℤ) : ℤ × ℤ := (babyjub_Point_Mul recv s p).1

/-! ## 0. the generated code is the model -/

theorem addG_eq_model (recv : ℕ × ℕ × ℕ) (p1 p2 : ℤ × ℤ) : addG recv p1 p2 = C04.addA p1 p2 := by
  unfold addG C04.addA
  rw [babyjub_PointProjective_Add_eq, babyjub_PointProjective_Affine_eq, babyjub_Point_Projective_eq,
    babyjub_Point_Projective_eq]

theorem mulG_eq_model (recv : ℤ × ℤ) (s : ℤ) (p : ℤ × ℤ) :
    mulG recv s p = Model.BabyJub.mul C04.K s p := by
  unfold mulG
  rw [babyjub_Point_Mul_eq]

/-! ## 1. the exported constants (package-level values of I3.Exec.GoExt) -/

/-- the package-level values used by the generated code are the BabyJubJub parameters of the
specification: `constants.Q = q`, `A = 168700`, `D = 168696`, `Order = 8 l`, `SubOrder = l`,
`B8 = coords B8` -/
theorem consts_eq :
    Go.Ext.constants_Q = (I3.q : ℤ) ∧ Gen.ff_modulus = I3.q ∧ Go.Ext.babyjub_A = 168700 ∧
      Go.Ext.babyjub_D = 168696 ∧ Go.Ext.babyjub_Order = ((8 * I3.l : ℕ) : ℤ) ∧
      Go.Ext.babyjub_SubOrder = (I3.l : ℤ) ∧ Go.Ext.babyjub_B8 = coords B8 := by
  refine ⟨constants_Q_eq, ff_modulus_eq, by decide +kernel, by decide +kernel, by decide +kernel, ?_, ?_⟩
  · rw [babyjub_SubOrder_eq, k_subOrder]
  · rw [babyjub_B8_eq, k_b8, coords_B8]

/-! ## 2. addition -/

/-- **Addition is the group law**, for every pair of curve points and every previous content of
the receiver: the result is the canonical coordinate pair of `P + Q`, in `[0, q)²`, and satisfies
the curve equation (generated `InCurve`). -/
theorem add_correct (recv : ℕ × ℕ × ℕ) (P Q : curve.Point) :
    addG recv (coords P) (coords Q) = coords (P + Q) ∧
      (0 ≤ (addG recv (coords P) (coords Q)).1 ∧ (addG recv (coords P) (coords Q)).1 < (I3.q : ℤ)) ∧
      (0 ≤ (addG recv (coords P) (coords Q)).2 ∧ (addG recv (coords P) (coords Q)).2 < (I3.q : ℤ)) ∧
      babyjub_Point_InCurve (addG recv (coords P) (coords Q)) = true := by
  rw [addG_eq_model, babyjub_Point_InCurve_eq]
  exact C04.add_correct P Q

/-- the same for arbitrary (also negative or unreduced) integer coordinates congruent to curve
points: `Projective` reduces them first. -/
theorem add_correct_int (recv : ℕ × ℕ × ℕ) (x1 y1 x2 y2 : ℤ) (P Q : curve.Point)
    (hx1 : (x1 : ZMod I3.q) = P.x) (hy1 : (y1 : ZMod I3.q) = P.y)
    (hx2 : (x2 : ZMod I3.q) = Q.x) (hy2 : (y2 : ZMod I3.q) = Q.y) :
    addG recv (x1, y1) (x2, y2) = coords (P + Q) := by
  rw [addG_eq_model]
  exact C04.add_correct_int x1 y1 x2 y2 P Q hx1 hy1 hx2 hy2

/-- every integer pair accepted by the generated `InCurve` is such a representative -/
theorem inCurve_iff_point (x y : ℤ) :
    babyjub_Point_InCurve (x, y) = true ↔
      ∃ P : curve.Point, (x : ZMod I3.q) = P.x ∧ (y : ZMod I3.q) = P.y := by
  rw [babyjub_Point_InCurve_eq]
  exact C04.inCurve_iff_point x y

/-- the generated projective addition itself: returned value and receiver coincide, have canonical
components and `Z ≠ 0`, and represent the sum (`recv` is overwritten, never read) -/
theorem addProj_correct (recv p1 p2 : ℕ × ℕ × ℕ) (P Q : curve.Point) (h1 : Rep p1 P)
    (h2 : Rep p2 Q) :
    (babyjub_PointProjective_Add recv p1 p2).2 = (babyjub_PointProjective_Add recv p1 p2).1 ∧
      Rep (babyjub_PointProjective_Add recv p1 p2).1 (P + Q) ∧
      (babyjub_PointProjective_Add recv p1 p2).1.1 < I3.q ∧
      (babyjub_PointProjective_Add recv p1 p2).1.2.1 < I3.q ∧
      (babyjub_PointProjective_Add recv p1 p2).1.2.2 < I3.q ∧
      (babyjub_PointProjective_Add recv p1 p2).1.2.2 ≠ 0 := by
  rw [babyjub_PointProjective_Add_eq]
  exact ⟨rfl, C04.addProj_correct p1 p2 P Q h1 h2⟩

/-- `NewPoint()` is the identity of the group; `NewPointProjective()` represents it -/
theorem newPoint_zero : babyjub_NewPoint = coords 0 ∧ Rep babyjub_NewPointProjective 0 := by
  refine ⟨coords_zero.symm, ?_⟩
  have h := projective_coords_rep 0
  rw [coords_zero] at h
  rw [babyjub_NewPointProjective_eq]
  have e : Model.BabyJub.projective k (0, 1) = (0, 1 % k.q, 1 % k.q) := by decide +kernel
  rwa [e] at h

/-- identity -/
theorem add_zero_correct (recv : ℕ × ℕ × ℕ) (P : curve.Point) :
    addG recv (coords P) babyjub_NewPoint = coords P ∧
      addG recv babyjub_NewPoint (coords P) = coords P := by
  rw [addG_eq_model, addG_eq_model, babyjub_NewPoint_eq]
  exact C04.add_zero_correct P

/-- inverse pairs: `P + (-P)` is the identity `(0, 1)` -/
theorem add_neg_correct (recv : ℕ × ℕ × ℕ) (P : curve.Point) :
    addG recv (coords P) (coords (-P)) = (0, 1) := by
  rw [addG_eq_model]
  exact C04.add_neg_correct P

/-- equal points: the unified formula doubles (also when both arguments and the receiver are the
same projective point, as in the doubling step of `Mul`) -/
theorem add_self_correct (recv : ℕ × ℕ × ℕ) (P : curve.Point) :
    addG recv (coords P) (coords P) = coords (2 • P) ∧
      addG (babyjub_Point_Projective (coords P)) (coords P) (coords P) = coords (2 • P) := by
  rw [addG_eq_model, addG_eq_model]
  exact ⟨C04.add_self_correct P, C04.add_self_correct P⟩

/-! ## 3. scalar multiplication -/

/-- **Scalar multiplication is repeated addition**, for every natural scalar of any bit length,
every curve point and every previous content of the receiver; the result is canonical and on the
curve. -/
theorem mul_correct (recv : ℤ × ℤ) (s : ℕ) (P : curve.Point) :
    mulG recv (s : ℤ) (coords P) = coords (s • P) ∧
      (0 ≤ (mulG recv (s : ℤ) (coords P)).1 ∧ (mulG recv (s : ℤ) (coords P)).1 < (I3.q : ℤ)) ∧
      (0 ≤ (mulG recv (s : ℤ) (coords P)).2 ∧ (mulG recv (s : ℤ) (coords P)).2 < (I3.q : ℤ)) ∧
      babyjub_Point_InCurve (mulG recv (s : ℤ) (coords P)) = true := by
  rw [mulG_eq_model, babyjub_Point_InCurve_eq]
  exact C04.mul_correct s P

/-- the receiver may be the argument itself (`p.Mul(s, p)`): still `s • P` -/
theorem mul_correct_self (s : ℕ) (P : curve.Point) :
    mulG (coords P) (s : ℤ) (coords P) = coords (s • P) :=
  (mul_correct (coords P) s P).1

theorem mul_correct_int (recv : ℤ × ℤ) (s : ℕ) (x y : ℤ) (P : curve.Point)
    (hx : (x : ZMod I3.q) = P.x) (hy : (y : ZMod I3.q) = P.y) :
    mulG recv (s : ℤ) (x, y) = coords (s • P) := by
  rw [mulG_eq_model]
  exact C04.mul_correct_int s x y P hx hy

/-- the same for a non-negative `big.Int` scalar -/
theorem mul_correct_nonneg (recv : ℤ × ℤ) (s : ℤ) (hs : 0 ≤ s) (P : curve.Point) :
    mulG recv s (coords P) = coords (s.toNat • P) := by
  rw [mulG_eq_model]
  exact C04.mul_correct_nonneg s hs P

/-- the generated code agrees with the independent affine reference oracle `I3.Ed.smul` -/
theorem mul_eq_oracle (recv : ℤ × ℤ) (s : ℕ) (P : curve.Point) :
    mulG recv (s : ℤ) (coords P) =
      (((Ed.smul s (P.x.val, P.y.val)).1 : ℤ), ((Ed.smul s (P.x.val, P.y.val)).2 : ℤ)) := by
  rw [mulG_eq_model]
  exact C04.mul_eq_oracle s P

/-- `0 * P` is the identity and `(s+1) * P = s * P + P`: `s * P` is `P` added `s` times -/
theorem mul_zero_succ (recv r1 : ℤ × ℤ) (r2 : ℕ × ℕ × ℕ) (s : ℕ) (P : curve.Point) :
    mulG recv 0 (coords P) = (0, 1) ∧
      mulG recv ((s + 1 : ℕ) : ℤ) (coords P) = addG r2 (mulG r1 (s : ℤ) (coords P)) (coords P) := by
  simp only [mulG_eq_model, addG_eq_model]
  exact C04.mul_zero_succ s P

/-- `(i + j) * P = i * P + j * P` at the level of the generated code -/
theorem mul_add (recv r1 r2 : ℤ × ℤ) (r3 : ℕ × ℕ × ℕ) (i j : ℕ) (P : curve.Point) :
    mulG recv ((i + j : ℕ) : ℤ) (coords P) =
      addG r3 (mulG r1 (i : ℤ) (coords P)) (mulG r2 (j : ℤ) (coords P)) := by
  simp only [mulG_eq_model, addG_eq_model]
  exact C04.mul_add i j P

/-- `(i * j) * P = i * (j * P)` -/
theorem mul_mul (recv r1 r2 : ℤ × ℤ) (i j : ℕ) (P : curve.Point) :
    mulG recv ((i * j : ℕ) : ℤ) (coords P) = mulG r1 (i : ℤ) (mulG r2 (j : ℤ) (coords P)) := by
  simp only [mulG_eq_model]
  exact C04.mul_mul i j P

/-- `Order * P` is the identity for EVERY curve point -/
theorem mul_order (recv : ℤ × ℤ) (P : curve.Point) :
    mulG recv Go.Ext.babyjub_Order (coords P) = (0, 1) := by
  rw [mulG_eq_model]
  exact C04.mul_order P

/-- scalars may be reduced modulo `Order` (and only modulo `Order`: `G` has that exact order) -/
theorem mul_mod_order (recv r1 : ℤ × ℤ) (s : ℕ) (P : curve.Point) :
    mulG recv (s : ℤ) (coords P) = mulG r1 ((s : ℤ) % Go.Ext.babyjub_Order) (coords P) := by
  simp only [mulG_eq_model]
  have h : ((s : ℤ) % Go.Ext.babyjub_Order) = ((s % C04.K.order : ℕ) : ℤ) := by
    rw [Int.natCast_mod]; rfl
  rw [h]
  exact C04.mul_mod_order s P

/-- `s * G` is the identity exactly when `Order ∣ s`: no smaller modulus is correct -/
theorem mul_G_eq_zero_iff (recv : ℤ × ℤ) (s : ℕ) :
    mulG recv (s : ℤ) (coords G) = (0, 1) ↔ 8 * I3.l ∣ s := by
  rw [mulG_eq_model, ← C04.order_eq]
  exact C04.mul_G_eq_zero_iff s

/-- `SubOrder * B8` is the identity, and `s * B8` is the identity exactly when `l ∣ s` -/
theorem mul_b8 (recv : ℤ × ℤ) (s : ℕ) :
    mulG recv (s : ℤ) Go.Ext.babyjub_B8 = (0, 1) ↔ I3.l ∣ s := by
  rw [mulG_eq_model]
  exact C04.mul_b8 s

/-- in particular `SubOrder * B8 = (0, 1)` with the package-level `SubOrder` -/
theorem mul_subOrder_b8 (recv : ℤ × ℤ) :
    mulG recv Go.Ext.babyjub_SubOrder Go.Ext.babyjub_B8 = (0, 1) := by
  rw [consts_eq.2.2.2.2.2.1]
  exact (mul_b8 recv I3.l).2 dvd_rfl

/-! ## 4. the eight points of small order -/

/-- the 8×8 addition table of the small-order points through the generated code: they form a
cyclic group of order 8. -/
theorem small_table (recv : ℕ × ℕ × ℕ) (i j : Fin 8) :
    addG recv (C04.smallZ i) (C04.smallZ j) = C04.smallZ (i + j) := by
  rw [addG_eq_model]
  exact C04.small_table i j

/-- multiplication by the cofactor 8 kills them -/
theorem small_mul_eight (recv : ℤ × ℤ) (i : Fin 8) : mulG recv 8 (C04.smallZ i) = (0, 1) := by
  rw [mulG_eq_model]
  exact C04.small_mul_eight i

/-! ## 5. non-vacuity: concrete instances -/

/-- the generated code, executed: `B8 + B8 = 2 * B8` (with a dirty receiver) -/
example : addG (7, 8, 9) Go.Ext.babyjub_B8 Go.Ext.babyjub_B8 = mulG (3, 4) 2 Go.Ext.babyjub_B8 := by
  decide +kernel

/-- the point of order 2 is `(0, q - 1)`; adding it to itself gives the identity -/
example : addG (0, 0, 0) (0, ((I3.q - 1 : ℕ) : ℤ)) (0, ((I3.q - 1 : ℕ) : ℤ)) = (0, 1) :=
  small_table _ 4 4

example : mulG (0, 0) (I3.l : ℤ) ((I3.B8x : ℤ), (I3.B8y : ℤ)) = (0, 1) := by
  have := (mul_b8 (0, 0) I3.l).2 dvd_rfl
  rwa [consts_eq.2.2.2.2.2.2, coords_B8] at this

end I3.Props.C04Gen
