/-
  I3.Props.C11 (source pin) — the Go functions mirrored by the hand-written models of C11 still have the
  source text against which those models were validated, and no function was added to or removed
  from their packages.  Regenerated fingerprints: I3.Gen.fingerprints (tools/gen_pins).
-/
import I3.Gen.Fingerprints
import I3.Model.SourcePin
namespace I3.Props.C11
open I3.SourcePin

def modelled : List String := [
  "ff.Element.Bit",
  "ff.Element.BitLen",
  "ff.Element.Bytes",
  "ff.Element.Cmp",
  "ff.Element.Equal",
  "ff.Element.FromMont",
  "ff.Element.IsUint64",
  "ff.Element.IsZero",
  "ff.Element.LexicographicallyLargest",
  "ff.Element.Marshal",
  "ff.Element.Set",
  "ff.Element.SetBigInt",
  "ff.Element.SetBytes",
  "ff.Element.SetInterface",
  "ff.Element.SetOne",
  "ff.Element.SetRandom",
  "ff.Element.SetString",
  "ff.Element.SetUint64",
  "ff.Element.SetZero",
  "ff.Element.String",
  "ff.Element.ToBigInt",
  "ff.Element.ToBigIntRegular",
  "ff.Element.ToMont",
  "ff.Element.ToRegular",
  "ff.Element.setBigInt",
  "ff.Modulus",
  "ff.NewElementFromUint64",
  "ff.init@element.go",
  "ff.init@element.go#2",
  "ffg.Element.Bit",
  "ffg.Element.BitLen",
  "ffg.Element.Bytes",
  "ffg.Element.Cmp",
  "ffg.Element.Equal",
  "ffg.Element.FromMont",
  "ffg.Element.IsUint64",
  "ffg.Element.IsZero",
  "ffg.Element.LexicographicallyLargest",
  "ffg.Element.Marshal",
  "ffg.Element.Set",
  "ffg.Element.SetBigInt",
  "ffg.Element.SetBytes",
  "ffg.Element.SetInterface",
  "ffg.Element.SetOne",
  "ffg.Element.SetRandom",
  "ffg.Element.SetString",
  "ffg.Element.SetUint64",
  "ffg.Element.SetZero",
  "ffg.Element.String",
  "ffg.Element.ToBigInt",
  "ffg.Element.ToBigIntRegular",
  "ffg.Element.ToMont",
  "ffg.Element.ToRegular",
  "ffg.Element.ToUint64Regular",
  "ffg.Element.setBigInt",
  "ffg.Modulus",
  "ffg.NewElementFromUint64",
  "ffg.init@element.go",
  "ffg.init@element.go#2",
  "tree.<layout>@ff",
  "tree.<layout>@ffg",
  "tree.<layout>@root",
  "ff.<asm>@element_mul_adx_amd64.s",
  "ff.<asm>@element_mul_amd64.s",
  "ff.<asm>@element_ops_amd64.s",
  "ff.<decls>@arith.go",
  "ff.<decls>@asm.go",
  "ff.<decls>@asm_noadx.go",
  "ff.<decls>@doc.go",
  "ff.<decls>@element.go",
  "ff.<decls>@element_ops_amd64.go",
  "ff.<decls>@element_ops_noasm.go",
  "ffg.<decls>@arith.go",
  "ffg.<decls>@asm.go",
  "ffg.<decls>@asm_noadx.go",
  "ffg.<decls>@doc.go",
  "ffg.<decls>@element.go",
  "ffg.<decls>@element_ops_amd64.go",
  "ffg.<decls>@element_ops_noasm.go"
]

theorem source_pinned : modelled.all (same I3.Gen.fingerprints) = true := by decide +kernel

theorem function_set_pinned : (["ff.", "ffg."] : List String).all (sameKeys I3.Gen.fingerprints) = true := by
  decide +kernel

theorem modelled_nonempty : 79 = modelled.length := by decide

end I3.Props.C11
