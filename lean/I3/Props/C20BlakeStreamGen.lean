/-
  I3.Props.C20BlakeStreamGen — property C20, third-party part, the streaming state machine: `New`, `(*digest).Write`,
  `(*digest).Sum`, `(*digest).Size` of github.com/dchest/blake512 (blake512.go), TRANSLATED statement by statement by
  tools/gen_blake into I3.Gen.BlakeDigest (namespace I3.Gen.BlakeGo; `block` is the translation of blake512block.go in
  I3.Gen.BlakeBlock), refine the hand-written model I3.Model.BlakeStream.Digest and therefore compute the BLAKE-512
  specification `I3.Blake.blake512` on every message.  Property theorems only; proofs in I3.Lemmas.BlakeDigestBridge.
-/
import I3.Lemmas.BlakeDigestBridge
import I3.Lemmas.BlakeStreamSplit
import I3.Exec.GoExt
namespace I3.Props.C20BlakeStreamGen
open I3 I3.Gen.BlakeGo I3.Lemmas.BlakeBridge I3.Lemmas.BlakeDigestBridge

/-- the hand-written model of the `digest` object (I3.Model.BlakeStream). -/
abbrev MDigest := I3.Model.BlakeStream.Digest

private def hex (s : String) : Bytes := (hexDecodeOk s.toList).getD []

/-- `blake512.New()`. -/
def goNew : FullDigest := New
/-- `d.Write(p)`: the digest afterwards. -/
def goWrite (d : FullDigest) (p : List UInt8) : FullDigest := (digest_Write d p).1
/-- `d.Sum(in)`. -/
def goSum (d : FullDigest) (in_ : List UInt8) : List UInt8 := digest_Sum d in_

/-- the refinement relation between a translated digest and a model digest: the translated digest is a BLAKE-512
    digest (`hashSize = 512`) with zero salt, a 128-byte buffer and `0 ≤ nx < 128`, and the model digest is its
    abstraction — same chain value (8 words), counter and `nullt` flag, pending bytes `x[:nx]`. -/
theorem rel_def (g : FullDigest) (m : MDigest) :
    Rel g m ↔ (g.hashSize = 512 ∧ g.s = S0 ∧ g.x.length = 128 ∧ 0 ≤ g.nx ∧ g.nx < 128) ∧
      (m.h = hArr g.h ∧ m.t = g.t ∧ m.nullt = g.nullt ∧ m.x = g.x.take g.nx.toNat) := by
  constructor
  · rintro ⟨⟨a, b, c, d, e⟩, rfl⟩
    exact ⟨⟨a, b, c, d, e⟩, rfl, rfl, rfl, rfl⟩
  · rintro ⟨⟨a, b, c, d, e⟩, h1, h2, h3, h4⟩
    refine ⟨⟨a, b, c, d, e⟩, ?_⟩
    obtain ⟨mh, mt, mn, mx⟩ := m
    simp only at h1 h2 h3 h4
    subst h1 h2 h3 h4
    rfl

/-- a related model digest has an 8-word chain value. -/
theorem rel_h_size (g : FullDigest) (m : MDigest) (r : Rel g m) : m.h.size = 8 := by
  rw [r.2]; rfl

/-- `New()` is related to the model's initial digest. -/
theorem new_refines : Rel goNew I3.Model.BlakeStream.Digest.init := new_rel

/-- **`Write` preserves the relation for EVERY byte list** (any length, any split position relative to the buffer). -/
theorem write_refines (g : FullDigest) (m : MDigest) (r : Rel g m) (p : List UInt8) :
    Rel (goWrite g p) (m.write p) := I3.Lemmas.BlakeDigestBridge.write_refines g m r p

/-- `Write` returns `nn = len(p)`; `err` is never assigned (the translator checks this), i.e. `nil`. -/
theorem write_nn (g : FullDigest) (p : List UInt8) : (digest_Write g p).2 = (p.length : Int) := rfl

/-- **`Sum` of related states returns `in ++ model.sum`.** -/
theorem sum_refines (g : FullDigest) (m : MDigest) (r : Rel g m) (in_ : List UInt8) :
    goSum g in_ = in_ ++ m.sum := I3.Lemmas.BlakeDigestBridge.sum_refines g m r in_

/-- `Size()` of a BLAKE-512 digest is 64. -/
theorem size_eq (g : FullDigest) (m : MDigest) (r : Rel g m) : digest_Size g = 64 := by
  rw [digest_Size, r.1.1]; decide

/-- the translated `New(); Write(m); Sum(in)` is the stream model `blake512Stream`. -/
theorem go_eq_stream (m in_ : List UInt8) :
    goSum (goWrite goNew m) in_ = in_ ++ I3.Model.BlakeStream.blake512Stream m :=
  sum_refines _ _ (write_refines _ _ new_refines m) in_

/-- **Headline: translated `New` / `Write` / `Sum` / `block` = the BLAKE-512 specification, for every message.** -/
theorem blake512_go_eq_spec (m : List UInt8) : goSum (goWrite goNew m) [] = I3.Blake.blake512 m := by
  rw [go_eq_stream, I3.Props.C20.blake_stream_eq_all]; rfl

/-- the same with a non-empty `in` (`Sum` appends). -/
theorem blake512_go_eq_spec_append (m in_ : List UInt8) :
    goSum (goWrite goNew m) in_ = in_ ++ I3.Blake.blake512 m := by
  rw [go_eq_stream, I3.Props.C20.blake_stream_eq_all]

/-- any sequence of `Write` calls on the translated digest is the same sequence of `write`s on the model. -/
theorem writes_refines (g : FullDigest) (m : MDigest) (r : Rel g m) (ps : List (List UInt8)) :
    Rel (ps.foldl goWrite g) (ps.foldl (fun d p => d.write p) m) := by
  induction ps generalizing g m with
  | nil => exact r
  | cons p ps ih => exact ih _ _ (write_refines g m r p)

/-- `New(); Write(p₁); …; Write(pₖ); Sum(in)` through the translated code = the same calls on the stream model. -/
theorem go_eq_stream_chunks (ps : List (List UInt8)) (in_ : List UInt8) :
    goSum (ps.foldl goWrite goNew) in_ =
      in_ ++ (ps.foldl (fun d p => d.write p) I3.Model.BlakeStream.Digest.init).sum :=
  sum_refines _ _ (writes_refines _ _ new_refines ps) in_

/-- a related model digest has fewer than 128 pending bytes. -/
theorem rel_x_length (g : FullDigest) (m : MDigest) (r : Rel g m) : m.x.length < 128 := by
  have h1 := r.1.4; have h2 := r.1.5
  rw [r.2, abs_x_length g r.1.weak]; omega

/-- **Split writes**: on any reachable (related) state, `Write(p); Write(q)` and `Write(p ++ q)` lead to the same
    abstract state, hence to the same `Sum` (the translated digests themselves may differ in the stale part of the
    buffer `x[nx:]`, which nothing reads). -/
theorem write_split (g : FullDigest) (m : MDigest) (r : Rel g m) (p q in_ : List UInt8) :
    abs (goWrite (goWrite g p) q) = abs (goWrite g (p ++ q)) ∧
    goSum (goWrite (goWrite g p) q) in_ = goSum (goWrite g (p ++ q)) in_ := by
  have r2 := write_refines _ _ (write_refines g m r p) q
  have r1 := write_refines g m r (p ++ q)
  rw [I3.Lemmas.BlakeStreamSplit.write_write m (rel_x_length g m r)] at r2
  exact ⟨r2.2.symm.trans r1.2, (sum_refines _ _ r2 in_).trans (sum_refines _ _ r1 in_).symm⟩

/-- `New(); Write(p); Write(q); Sum(in)` through the translated code = `in ++ BLAKE-512(p ++ q)`. -/
theorem blake512_go_split_eq_spec (p q in_ : List UInt8) :
    goSum (goWrite (goWrite goNew p) q) in_ = in_ ++ I3.Blake.blake512 (p ++ q) := by
  rw [(write_split goNew _ new_refines p q in_).2, blake512_go_eq_spec_append]

/-- **any chunking**: `New(); Write(p₁); …; Write(pₖ); Sum(in)` = `in ++ BLAKE-512(p₁ ++ … ++ pₖ)`. -/
theorem blake512_go_chunks_eq_spec (ps : List (List UInt8)) (in_ : List UInt8) :
    goSum (ps.foldl goWrite goNew) in_ = in_ ++ I3.Blake.blake512 ps.flatten := by
  rw [go_eq_stream_chunks, I3.Lemmas.BlakeStreamSplit.writes_join _ (by decide) ps]
  exact congrArg (in_ ++ ·) (I3.Props.C20.blake_stream_eq_all ps.flatten)

/-- the stream model itself: a split write is one write (every digest with a non-full buffer). -/
theorem model_write_write (d : MDigest) (hx : d.x.length < 128) (p q : List UInt8) :
    (d.write p).write q = d.write (p ++ q) := I3.Lemmas.BlakeStreamSplit.write_write d hx p q

/-- **the glue object of T6**: the translated wrapper `babyjub.Blake512` (I3.Gen.GoBabyjub) drives the hasher object
    `I3.Go.Ext.Hasher` (`newBlake512`, `write`, `sum` — the hand-written stream model); the same calls on the
    TRANSLATED digest give the same bytes. -/
theorem hasher_eq_go (m in_ : List UInt8) :
    I3.Go.Ext.Hasher.sum (I3.Go.Ext.Hasher.write I3.Go.Ext.Hasher.newBlake512 m) in_ =
      goSum (goWrite goNew m) in_ := (go_eq_stream m in_).symm

/-- the digest has 64 bytes. -/
theorem digest_length (m : List UInt8) : (goSum (goWrite goNew m) []).length = 64 := by
  rw [blake512_go_eq_spec]; exact I3.Props.C20.blake_digest_length m

/-! ### known answers through the translated code (`New`, `Write`, `Sum`, `block`), evaluated by the kernel -/

private def kmsg (n : Nat) : Bytes := (List.range n).map fun i => UInt8.ofNat (7 * i + 3)

/-- BLAKE-512 of the empty message (published value). -/
example : goSum (goWrite goNew []) [] =
    hex "a8cfbbd73726062df0c6864dda65defe58ef0cc52a5625090fa17601e1eecd1b628e94f396ae402a00acc9eab77b4d4c2e852aaaa25a636d80af3fc7913ef5b8" := by
  decide +kernel

/-- BLAKE-512 of the one-byte message `00` (published value). -/
example : goSum (goWrite goNew [0]) [] =
    hex "97961587f6d970faba6d2478045de6d1fabd09b61ae50932054d52bc29d31be4ff9102b9f69e2bbdb83be13d4b9c06091e5fa0b48bd081b634058be0ec49beb3" := by
  decide +kernel

/-- a 200-byte message (bytes `7i+3`): two compressions in `Write`'s bulk part and buffer, two more in `Sum`;
    the expected value was computed with the compiled Go package (dchest/blake512 v1.0.0). -/
example : goSum (goWrite goNew (kmsg 200)) [] =
    hex "c668db29e38d83495c035cc91875bbe519b656a8bd05c12b59a734ec98a01b68bdcd7d3189b77f0d4702a38427dd2f3cd8f0d030b8065796740897d4cee99179" := by
  decide +kernel

/-- the same message written in two pieces of 100 bytes (the second `Write` fills the buffer, compresses it, and
    keeps the remaining 72 bytes), with a non-empty `in`. -/
example : goSum (goWrite (goWrite goNew (kmsg 100)) ((kmsg 200).drop 100)) [1, 2] = [1, 2] ++
    hex "c668db29e38d83495c035cc91875bbe519b656a8bd05c12b59a734ec98a01b68bdcd7d3189b77f0d4702a38427dd2f3cd8f0d030b8065796740897d4cee99179" := by
  decide +kernel

/-- the SHA-256 of the translated source file (blake512.go of dchest/blake512 v1.0.0). -/
example : digestSourceSha256 = "9250ba09e5e5a11dcabda830fe95b28254f942ae34b7f4a8fd06a1d2496d7ba2" := rfl

end I3.Props.C20BlakeStreamGen
