/-
  I3.Props.C17Machine — C17 (concurrency) on the abstract heap machine of I3.Lemmas.Machine.

  Reading guide.  `ops t` is the list of calls of thread (goroutine) `t : Nat`; any number of
  threads may have calls.  `exec sched (Config.init ops s0)` is the configuration reached from the
  initial state `s0` under the schedule `sched : List Nat`, an ARBITRARY sequence of thread
  indices; each entry lets that thread perform one atomic step (one read / write / alloc /
  poolGet / poolPut, a call start, or a return).  `ThreadsOk G pub ops` says: every call of every
  thread is disciplined (`Op.Ok G`, the per-function write-site obligation, which includes "no
  write to a package-level object"), all arguments/destinations and globals are caller-visible
  (`pub`), and a destination of a call of one thread is neither an argument nor a destination of
  a call of another thread (independent inputs, or shared inputs that are only read).
  `WF pub s0`: the caller-visible objects exist in `s0` and the pool objects are private.
  "Run alone" is `runOps (ops t) s0` / `runOp op s'` of the sequential semantics (C16).
-/
import I3.Lemmas.Machine
import I3.Props.C16Machine
namespace I3.Props.C17
open I3.Machine

variable {Val Res : Type} {G pub : Obj → Prop} {ops : Nat → List (Op Val Res)} {s0 : State Val}

/-- (a) RACE FREEDOM: in every configuration reachable under any schedule, no two different
    threads are about to access the same object with at least one of them writing. -/
theorem race_free (hok : ThreadsOk G pub ops) (hwf : WF pub s0) (sched : List Nat) :
    ¬ Race (exec sched (Config.init ops s0)) := by
  obtain ⟨gh, hinv⟩ := inv_reachable hok hwf sched
  exact hinv.no_race hok

/-- (b) SCHEDULE INDEPENDENCE: under any schedule, at any time, the results a thread has returned
    so far are exactly the first results of running that thread's calls alone from `s0`; once the
    thread has finished they are all of them. -/
theorem schedule_independent (hok : ThreadsOk G pub ops) (hwf : WF pub s0) (sched : List Nat)
    (t : Nat) :
    ((exec sched (Config.init ops s0)).threads t).done <+: (runOps (ops t) s0).2 ∧
    (((exec sched (Config.init ops s0)).threads t).finished →
      ((exec sched (Config.init ops s0)).threads t).done = (runOps (ops t) s0).2) := by
  obtain ⟨gh, hinv⟩ := inv_reachable hok hwf sched
  have h := (hinv.thr t).res
  refine ⟨⟨_, h⟩, fun hf => ?_⟩
  simpa [Thread.rest, hf.1, hf.2, runOps] using h

/-- (b') the same, call by call, against the call run ALONE from any state `s'` that agrees with
    `s0` on the call's arguments and the globals (any allocator, any pool, any garbage), provided
    no earlier call of the SAME thread had one of these arguments as destination. -/
theorem result_alone (hok : ThreadsOk G pub ops) (hwf : WF pub s0) (sched : List Nat) (t : Nat)
    {pre post : List (Op Val Res)} {op : Op Val Res} (hops : ops t = pre ++ op :: post)
    (hpre : ∀ q, q ∈ pre → ∀ d, d ∈ q.dst → d ∉ op.args)
    {s' : State Val} (hwf' : WF (Visible G [op]) s')
    (hag : ∀ o, o ∈ op.args ∨ G o → s'.heap o = s0.heap o) {r : Res}
    (hr : ((exec sched (Config.init ops s0)).threads t).done[pre.length]? = some r) :
    r = (runOp op s').2 := by
  obtain ⟨⟨rest, hpf⟩, -⟩ := schedule_independent hok hwf sched t
  have h1 := C16.result_history_independent (hops ▸ hok.hist t) hwf hpre hwf' hag
  rw [← hops, ← hpf] at h1
  have hlt : pre.length < ((exec sched (Config.init ops s0)).threads t).done.length := by
    rcases Nat.lt_or_ge pre.length ((exec sched (Config.init ops s0)).threads t).done.length with
      h | h
    · exact h
    · rw [List.getElem?_eq_none h] at hr; simp at hr
  rw [List.getElem?_append_left hlt, hr] at h1
  exact Option.some.inj h1

/-- No package-level object is ever modified, under any schedule. -/
theorem globals_constant (hok : ThreadsOk G pub ops) (hwf : WF pub s0) (sched : List Nat) :
    ∀ g, G g → (exec sched (Config.init ops s0)).shared.heap g = s0.heap g := by
  obtain ⟨gh, hinv⟩ := inv_reachable hok hwf sched
  exact hinv.glob

/-- Effects through destinations are schedule independent too: once a thread has finished, every
    object visible to it (its arguments and destinations, the globals) holds in the shared state
    the value it holds after running the thread's calls alone from `s0`. -/
theorem final_values_independent (hok : ThreadsOk G pub ops) (hwf : WF pub s0) (sched : List Nat)
    (t : Nat) (hf : ((exec sched (Config.init ops s0)).threads t).finished) :
    ∀ o, Visible G (ops t) o →
      (exec sched (Config.init ops s0)).shared.heap o = (runOps (ops t) s0).1.heap o := by
  obtain ⟨gh, hinv⟩ := inv_reachable hok hwf sched
  intro o ho
  have h := (hinv.thr t).fin
  simp only [Thread.restState, hf.1, hf.2, runOps] at h
  rw [← h]
  exact (hinv.thr t).agree.pub o ho

/-! ## Non-vacuity: a concrete instance

Objects: `0` = package-level constant (value 1), `1` = a SHARED read-only input `x` (value 5),
`2`, `3` = the destinations of thread 0 resp. thread 1.  Thread 0 runs `addTo 2`; thread 1 runs
`addTo 3` and then a failing call.  `addTo d` computes `x + One` in a pool scratch object. -/
section example_ok
open C16 (exG failing failing_ok)

def exPub : Obj → Prop := fun o => o < 4

def addTo (d : Obj) : Op Nat (Option Nat) where
  args := [1]
  dst := [d]
  prog := .poolGet <| .read (.obj 1) fun x => .read (.obj 0) fun one =>
    .write (.loc 0) (x + one) <| .read (.loc 0) fun w => .write (.obj d) w <|
    .poolPut 0 <| .ret (some w)

theorem addTo_ok (d : Obj) (hd : d ≠ 0) : (addTo d).Ok exG := by
  simp only [Op.Ok, Disciplined, addTo, Disc, canRead, canWrite, afterWrite, Ctx.at, exG]
  refine ⟨by simp, fun _ => ⟨by simp, fun _ => ⟨by decide, by decide, fun _ => ⟨⟨List.mem_singleton.2 rfl, hd⟩, ?_⟩⟩⟩⟩
  refine ⟨rfl, fun i => ?_⟩
  rcases i with _ | i <;> simp [Status.held, Status.written]

def exOps : Nat → List (Op Nat (Option Nat))
  | 0 => [addTo 2]
  | 1 => [addTo 3, failing]
  | _ => []

def exS0 : State Nat := ⟨fun o => [1, 5, 0, 0].getD o 0, 4, []⟩

theorem exS0_wf : WF exPub exS0 := ⟨fun _ h => h, by simp [exS0], by simp [exS0], by simp [exS0]⟩

theorem mem_exOps {t : Nat} {op : Op Nat (Option Nat)} (h : op ∈ exOps t) :
    (t = 0 ∧ op = addTo 2) ∨ (t = 1 ∧ (op = addTo 3 ∨ op = failing)) := by
  rcases t with _ | _ | t <;> simp_all [exOps]

theorem exOk : ThreadsOk exG exPub exOps := by
  refine ⟨fun t => ⟨fun g hg => ?_, fun op hop o hf => ?_, fun op hop => ?_⟩, ?_⟩
  · simp only [exG] at hg; subst hg; show (0 : Nat) < 4; decide
  · have hcase : o = 1 ∨ o = 2 ∨ o = 3 := by
      rcases mem_exOps hop with ⟨-, rfl⟩ | ⟨-, rfl | rfl⟩ <;>
        simp only [Op.foot, addTo, failing, List.mem_singleton] at hf <;>
        rcases hf with hf | hf <;> simp_all
    show o < 4
    rcases hcase with rfl | rfl | rfl <;> decide
  · rcases mem_exOps hop with ⟨-, rfl⟩ | ⟨-, rfl | rfl⟩
    · exact addTo_ok 2 (by decide)
    · exact addTo_ok 3 (by decide)
    · exact failing_ok
  · intro t u htu a ha b hb d hd hf
    rcases mem_exOps ha with ⟨rfl, rfl⟩ | ⟨rfl, rfl | rfl⟩ <;>
      rcases mem_exOps hb with ⟨rfl, rfl⟩ | ⟨rfl, rfl | rfl⟩ <;>
      simp_all [Op.foot, addTo, failing] <;> (subst hd; simp at hf)

/-- a schedule that interleaves the two threads action by action and lets both finish -/
def exSched : List Nat := [0, 1, 0, 1, 0, 1, 0, 1, 0, 1, 0, 1, 0, 1, 0, 1, 0, 1, 1, 1, 1, 1]

example : ((exec exSched (Config.init exOps exS0)).threads 0).done = [some 6] ∧
    ((exec exSched (Config.init exOps exS0)).threads 1).done = [some 6, none] := by decide
example : ((exec exSched (Config.init exOps exS0)).threads 0).finished ∧
    ((exec exSched (Config.init exOps exS0)).threads 1).finished := ⟨⟨rfl, rfl⟩, ⟨rfl, rfl⟩⟩
/-- the two calls really overlap: after 10 steps both threads are in the middle of `addTo`, each
    holding its own scratch object -/
example : ((exec (exSched.take 10) (Config.init exOps exS0)).threads 0).env = [4] ∧
    ((exec (exSched.take 10) (Config.init exOps exS0)).threads 1).env = [5] := by decide
/-- … and under another schedule the scratch object of thread 0 is re-used by thread 1 -/
example : ((exec [0, 0, 0, 0, 0, 0, 0, 0, 1, 1] (Config.init exOps exS0)).threads 1).env = [4] := by
  decide
example : ¬ Race (exec exSched (Config.init exOps exS0)) := race_free exOk exS0_wf exSched
example : ((exec exSched (Config.init exOps exS0)).threads 1).done = (runOps (exOps 1) exS0).2 :=
  (schedule_independent exOk exS0_wf exSched 1).2 ⟨rfl, rfl⟩
example : (runOps (exOps 1) exS0).2 = [some 6, none] := by decide
example : (exec exSched (Config.init exOps exS0)).shared.heap 3 = 6 ∧ exS0.heap 3 = 0 := by decide

end example_ok

/-! ## Counter-example: a package-level scratch object (the `poseidon.mix`-style defect)

`viaGlobal x` copies its input through the package-level object `0`.  It violates the discipline;
two threads running it on INDEPENDENT inputs race on object `0`, a thread returns a value it never
returns alone, and the package-level object is modified. -/
section example_bad
open C16 (exG)

def viaGlobal (x : Obj) : Op Nat (Option Nat) where
  args := [x]
  dst := []
  prog := .read (.obj x) fun v => .write (.obj 0) v <| .read (.obj 0) fun w => .ret (some w)

def badOps : Nat → List (Op Nat (Option Nat))
  | 0 => [viaGlobal 1]
  | 1 => [viaGlobal 2]
  | _ => []

def badS0 : State Nat := ⟨fun o => [0, 5, 9].getD o 0, 3, []⟩

example : ¬ (viaGlobal 1).Ok exG := by
  simp [Op.Ok, Disciplined, viaGlobal, Disc, canRead, canWrite]
example : Race (exec [0, 1, 0, 1] (Config.init badOps badS0)) :=
  ⟨0, 1, 0, true, true, by decide, rfl, rfl, .inl rfl⟩
example : ((exec [0, 1, 0, 1, 0, 1, 0, 0] (Config.init badOps badS0)).threads 0).done = [some 9] ∧
    (runOps (badOps 0) badS0).2 = [some 5] := by decide
example : (exec [0, 1, 0, 1, 0, 1, 0, 0] (Config.init badOps badS0)).shared.heap 0 ≠
    badS0.heap 0 := by decide

end example_bad

end I3.Props.C17
