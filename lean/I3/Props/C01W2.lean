/-
  I3.Props.C01W2 — property C01 at width t = 2 (R_F = 8, R_P = 56).
  `tables_lit_2`: the kernel evaluates the relation checker `PoseidonCheck.checkAll` on the tables
  `Gen.PT2.*` (REGENERATED from /repo/poseidon/constants.go on every run) against the literal output of
  the reference Grain generator (`Spec.GrainLit.rc_2`, `mds_2`, proved equal to the generator's output in
  I3.Spec.GrainW2); the witnesses are proposed by `computeWitnesses` inside the same evaluation.
  `tables_ok_2`: the same statement about the generator itself.
  `width_2`: hence (by `checkAll_sound`) the optimised Go loop equals the textbook Poseidon permutation
  on EVERY state of width 2.
-/
import I3.Exec.PoseidonCheck
import I3.Gen.PT2
import I3.Spec.GrainW2
import I3.Lemmas.PoseidonRefine
set_option maxRecDepth 1000000
namespace I3.Props.C01
open I3

theorem tables_lit_2 :
    PoseidonCheck.checkAll q 2 56 Spec.GrainLit.rc_2 Spec.GrainLit.mds_2
      ⟨Gen.PT2.C, Gen.PT2.S, Gen.PT2.M, Gen.PT2.P⟩
      (PoseidonCheck.computeWitnesses q 2 56 Spec.GrainLit.rc_2 Spec.GrainLit.mds_2
        ⟨Gen.PT2.C, Gen.PT2.S, Gen.PT2.M, Gen.PT2.P⟩) = true := by
  decide +kernel

theorem tables_ok_2 :
    PoseidonCheck.checkAll q 2 56 (Grain.bn254Params 2).rc (Grain.mds q (Grain.bn254Params 2))
      ⟨Gen.PT2.C, Gen.PT2.S, Gen.PT2.M, Gen.PT2.P⟩
      (PoseidonCheck.computeWitnesses q 2 56 (Grain.bn254Params 2).rc
        (Grain.mds q (Grain.bn254Params 2)) ⟨Gen.PT2.C, Gen.PT2.S, Gen.PT2.M, Gen.PT2.P⟩) = true := by
  rw [Spec.GrainLit.grain_2.1, Spec.GrainLit.grain_2.2]
  exact tables_lit_2

theorem width_2 (st : List Nat) (hst : st.length = 2) :
    Model.Poseidon.permute q 5 ⟨Gen.PT2.C, Gen.PT2.S, Gen.PT2.M, Gen.PT2.P⟩ 2 56 st =
      Hades.poseidonBN254 (Grain.bn254Params 2) st :=
  PoseidonRefine.width_of_check 2 56 (by decide) _ _ tables_ok_2 st hst

end I3.Props.C01
