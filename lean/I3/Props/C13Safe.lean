/-
  I3.Props.C13Safe — C13, the "never a panic" half, about the GENERATED code: the checked variants
  (`I3/Gen/GoChkBabyjub.lean`, see I3.Lemmas.GoSafe) of the curve / subgroup membership tests and of the point
  constructors are `true` for EVERY input `p : Int × Int` — arbitrary integers: negative, unreduced, off the curve.
  (What the tests DECIDE is I3.Props.C13 / C13Gen; here: they are total.)

  What is needed: `InCurve` only multiplies, adds and reduces `Mod Q` with `Q ≠ 0`; `InSubGroup` returns `false`
  right after a failed `InCurve`, otherwise runs `Point.Mul` with the scalar `SubOrder` — field operations only
  (`GoSafe.babyjub_Point_Mul_ok_true`, every scalar and every pair of integers).  `babyjub_PointCoordSign_ok`,
  `babyjub_Point_Set_ok`, `babyjub_NewPoint_ok`, `babyjub_NewPointProjective_ok` hold by evaluation (proved in
  I3.Lemmas.GoSafe, restated here).
-/
import I3.Lemmas.GoSafe

set_option maxRecDepth 100000

namespace I3.Props.C13Safe
open I3 I3.Go I3.Gen.Go I3.GoSafe

/-- **`p.InCurve()`**: every pair of integers (the four reductions are `Mod Q`, `Q ≠ 0`). -/
theorem babyjub_Point_InCurve_ok_true (p : Int × Int) : babyjub_Point_InCurve_ok p = true := by
  unfold babyjub_Point_InCurve_ok
  dsimp only
  have hQ := constants_Q_ne_zero
  rw [req_of hQ, req_of hQ, req_of hQ, req_of hQ]

/-- **`p.InSubGroup()`**: every pair of integers (a point off the curve is rejected before the multiplication;
    the multiplication itself is panic-free for every operand). -/
theorem babyjub_Point_InSubGroup_ok_true (p : Int × Int) : babyjub_Point_InSubGroup_ok p = true := by
  go_delta babyjub_Point_InSubGroup_ok
  generalize hM : babyjub_Point_Mul = Mul
  generalize hC : babyjub_Point_InCurve = C
  as_aux_lemma =>
    dsimp only
    rw [req_of (babyjub_Point_InCurve_ok_true p)]
    split
    · rfl
    · rw [req_of babyjub_NewPoint_ok_true, req_of (GoSafe.babyjub_Point_Mul_ok_true _ _ _)]

/-- **`PointCoordSign(c)`**: every integer. -/
theorem babyjub_PointCoordSign_ok_true (c : Int) : babyjub_PointCoordSign_ok c = true :=
  GoSafe.babyjub_PointCoordSign_ok_true c

/-- **`p.Set(c)`**: every pair of points. -/
theorem babyjub_Point_Set_ok_true (p c : Int × Int) : babyjub_Point_Set_ok p c = true :=
  GoSafe.babyjub_Point_Set_ok_true p c

/-- **`NewPoint()`** / **`NewPointProjective()`**. -/
theorem babyjub_NewPoint_ok_true : babyjub_NewPoint_ok = true := GoSafe.babyjub_NewPoint_ok_true
theorem babyjub_NewPointProjective_ok_true : babyjub_NewPointProjective_ok = true :=
  GoSafe.babyjub_NewPointProjective_ok_true

/-- **`p.Projective()`** / **`p.Mul(s, q)`** / **`p.Add(q, o)`** / **`p.Affine()`** as used by `InSubGroup`. -/
theorem babyjub_Point_Projective_ok_true (p : Int × Int) : babyjub_Point_Projective_ok p = true :=
  GoSafe.babyjub_Point_Projective_ok_true p
theorem babyjub_Point_Mul_ok_true (p : Int × Int) (s : Int) (q : Int × Int) :
    babyjub_Point_Mul_ok p s q = true := GoSafe.babyjub_Point_Mul_ok_true p s q

end I3.Props.C13Safe
