/-
  I3.Props.C07Gen — property C07 (hash entry points reject out-of-domain inputs instead of reducing them) for
  the definitions GENERATED from /repo/poseidon/poseidon.go by the source translator T6:
  `I3.Gen.Go.poseidon_HashWithStateEx`, `poseidon_HashEx`, `poseidon_HashWithState`, `poseidon_Hash`.

  Every theorem is the corresponding theorem of I3.Props.C07 (about the hand-written model) transported along
  the bridge `I3.GoBridge.poseidon_HashWithStateEx_eq` (I3.Lemmas.GoBridgePoseidon).  A Go result
  `([]*big.Int, error)` is a pair `List Int × Option String`; `none` is the `nil` error and the strings are the
  message constants of the Go source.  (The MiMC7 part of C07 is in I3.Props.C07GenMimc7.)
-/
import I3.Props.C07
import I3.Lemmas.GoBridgePoseidon
namespace I3.Props.C07Gen
open I3 I3.Gen.Go I3.GoBridge

private theorem hlen : Gen.poseidon_NROUNDSP.length = 16 := by decide
private theorem hq : Gen.constants_q = q := by decide

/-! ## `HashWithStateEx` -/

section
variable (inp : List Int) (st nOuts : Int)

/-- 1. Acceptance (no error returned) is exactly the conjunction of the documented bounds. -/
theorem hashWithStateEx_ok_iff :
    (poseidon_HashWithStateEx inp st nOuts).2 = none ↔
      (1 ≤ inp.length ∧ inp.length ≤ 16 ∧ (∀ x ∈ inp, 0 ≤ x ∧ x < (q : Int)) ∧
        0 ≤ st ∧ st < (q : Int) ∧ 1 ≤ nOuts ∧ nOuts ≤ (inp.length : Int) + 1) := by
  rw [poseidon_HashWithStateEx_noerr_iff, C07.poseidonEx_ok_iff, hq]

/-- 2a. first guard: empty or too long. -/
theorem hashWithStateEx_badLen (h : inp.length = 0 ∨ 16 < inp.length) :
    poseidon_HashWithStateEx inp st nOuts = ([], some "invalid inputs length %d, max %d") :=
  (poseidon_HashWithStateEx_badLen inp st nOuts).1
    (C07.poseidon_badLen _ _ _ _ _ _ _ (by rw [hlen]; exact h))

/-- 2b. second guard: some element negative or `≥ q` (whatever its position). -/
theorem hashWithStateEx_notInField (h1 : 1 ≤ inp.length) (h2 : inp.length ≤ 16)
    (h : ∃ x ∈ inp, x < 0 ∨ (q : Int) ≤ x) :
    poseidon_HashWithStateEx inp st nOuts = ([], some "inputs values not inside Finite Field") :=
  (poseidon_HashWithStateEx_notInField inp st nOuts).1
    (C07.poseidon_notInField _ _ _ _ _ _ _ h1 (by rw [hlen]; exact h2) (by rw [hq]; exact h))

/-- 2c. third guard: requested output count outside `1 .. len+1`. -/
theorem hashWithStateEx_badNOuts (h1 : 1 ≤ inp.length) (h2 : inp.length ≤ 16)
    (h3 : ∀ x ∈ inp, 0 ≤ x ∧ x < (q : Int)) (h : nOuts < 1 ∨ (inp.length : Int) + 1 < nOuts) :
    poseidon_HashWithStateEx inp st nOuts = ([], some "invalid nOuts %d, min 1, max %d") :=
  (poseidon_HashWithStateEx_badNOuts inp st nOuts).1
    (C07.poseidon_badNOuts _ _ _ _ _ _ _ h1 (by rw [hlen]; exact h2) (by rw [hq]; exact h3) h)

/-- 2d. fourth guard: initial state negative or `≥ q`. -/
theorem hashWithStateEx_stateNotInField (h1 : 1 ≤ inp.length) (h2 : inp.length ≤ 16)
    (h3 : ∀ x ∈ inp, 0 ≤ x ∧ x < (q : Int)) (h4 : 1 ≤ nOuts) (h5 : nOuts ≤ (inp.length : Int) + 1)
    (h : st < 0 ∨ (q : Int) ≤ st) :
    poseidon_HashWithStateEx inp st nOuts = ([], some "initState values not inside Finite Field") :=
  (poseidon_HashWithStateEx_stateNotInField inp st nOuts).1
    (C07.poseidon_stateNotInField _ _ _ _ _ _ _ C07.inst_tablesPresent h1 (by rw [hlen]; exact h2)
      (by rw [hq]; exact h3) h4 h5 (by rw [hq]; exact h))

/-- The only outcomes are success and the four guard errors (no fifth message, no partial result). -/
theorem hashWithStateEx_outcomes :
    (∃ out, poseidon_HashWithStateEx inp st nOuts = (out, none)) ∨
    poseidon_HashWithStateEx inp st nOuts = ([], some "invalid inputs length %d, max %d") ∨
    poseidon_HashWithStateEx inp st nOuts = ([], some "inputs values not inside Finite Field") ∨
    poseidon_HashWithStateEx inp st nOuts = ([], some "invalid nOuts %d, min 1, max %d") ∨
    poseidon_HashWithStateEx inp st nOuts = ([], some "initState values not inside Finite Field") := by
  by_cases c1 : inp.length = 0 ∨ 16 < inp.length
  · exact .inr (.inl (hashWithStateEx_badLen inp st nOuts c1))
  by_cases c2 : ∀ x ∈ inp, 0 ≤ x ∧ x < (q : Int)
  · by_cases c3 : nOuts < 1 ∨ (inp.length : Int) + 1 < nOuts
    · exact .inr (.inr (.inr (.inl (hashWithStateEx_badNOuts inp st nOuts (by omega) (by omega) c2 c3))))
    by_cases c4 : st < 0 ∨ (q : Int) ≤ st
    · exact .inr (.inr (.inr (.inr
        (hashWithStateEx_stateNotInField inp st nOuts (by omega) (by omega) c2 (by omega) (by omega) c4))))
    · have := (hashWithStateEx_ok_iff inp st nOuts).2
        ⟨by omega, by omega, c2, by omega, by omega, by omega, by omega⟩
      exact .inl ⟨(poseidon_HashWithStateEx inp st nOuts).1, by rw [← this]⟩
  · simp only [Classical.not_forall] at c2
    obtain ⟨x, hx, hbad⟩ := c2
    exact .inr (.inr (.inl (hashWithStateEx_notInField inp st nOuts (by omega) (by omega) ⟨x, hx, by omega⟩)))

/-- 3a. On success exactly `nOuts` values are returned. -/
theorem hashWithStateEx_ok_length (out : List Int) (h : poseidon_HashWithStateEx inp st nOuts = (out, none)) :
    (out.length : Int) = nOuts := by
  obtain ⟨r, hr, rfl⟩ := (poseidon_HashWithStateEx_nil_iff inp st nOuts out).1 h
  rw [List.length_map]
  exact C07.poseidon_ok_length _ _ _ _ inp st nOuts C07.inst_tablesPresent r hr

/-- 3b. On success every returned value is a canonical residue in `[0, q)`. -/
theorem hashWithStateEx_ok_canonical (out : List Int)
    (h : poseidon_HashWithStateEx inp st nOuts = (out, none)) : ∀ x ∈ out, 0 ≤ x ∧ x < (q : Int) := by
  obtain ⟨r, hr, rfl⟩ := (poseidon_HashWithStateEx_nil_iff inp st nOuts out).1 h
  intro x hx
  obtain ⟨y, hy, rfl⟩ := List.mem_map.1 hx
  have := C07.poseidon_ok_canonical Gen.constants_q Gen.poseidon_sboxExp Inst.pTables Gen.poseidon_NROUNDSP
    inp st nOuts (by decide) r hr y hy
  rw [hq] at this
  exact ⟨Int.natCast_nonneg y, Int.ofNat_lt.2 this⟩

end

/-! ## `HashEx`, `HashWithState`, `Hash` -/

/-- `HashEx(inp, nOuts)` is `HashWithStateEx(inp, 0, nOuts)`: all statements above apply with `st = 0`. -/
theorem hashEx_eq (inp : List Int) (nOuts : Int) :
    poseidon_HashEx inp nOuts = poseidon_HashWithStateEx inp 0 nOuts := rfl

/-- `Hash(inp)` is `HashWithState(inp, 0)`. -/
theorem hash_eq (inp : List Int) : poseidon_Hash inp = poseidon_HashWithState inp 0 := rfl

/-- `HashWithState` returns the single output of `HashWithStateEx(·, ·, 1)`, or `0` and the same error. -/
theorem hashWithState_eq (inp : List Int) (st : Int) :
    poseidon_HashWithState inp st =
      match poseidon_HashWithStateEx inp st 1 with
      | (out, none) => (out.getD 0 0, none)
      | (_, some msg) => (0, some msg) := by
  rw [poseidon_HashWithState_def]
  rcases h : poseidon_HashWithStateEx inp st 1 with ⟨out, _ | msg⟩ <;> rfl

/-- acceptance frontier of `HashWithState`. -/
theorem hashWithState_ok_iff (inp : List Int) (st : Int) :
    (poseidon_HashWithState inp st).2 = none ↔
      (1 ≤ inp.length ∧ inp.length ≤ 16 ∧ (∀ x ∈ inp, 0 ≤ x ∧ x < (q : Int)) ∧ 0 ≤ st ∧ st < (q : Int)) := by
  have : (poseidon_HashWithState inp st).2 = none ↔ (poseidon_HashWithStateEx inp st 1).2 = none := by
    rw [hashWithState_eq]
    rcases h : poseidon_HashWithStateEx inp st 1 with ⟨out, _ | msg⟩ <;> simp
  rw [this, hashWithStateEx_ok_iff]
  constructor
  · rintro ⟨h1, h2, h3, h4, h5, -, -⟩; exact ⟨h1, h2, h3, h4, h5⟩
  · rintro ⟨h1, h2, h3, h4, h5⟩; exact ⟨h1, h2, h3, h4, h5, by decide, by omega⟩

/-- acceptance frontier of `Hash`. -/
theorem hash_ok_iff (inp : List Int) :
    (poseidon_Hash inp).2 = none ↔
      (1 ≤ inp.length ∧ inp.length ≤ 16 ∧ ∀ x ∈ inp, 0 ≤ x ∧ x < (q : Int)) := by
  rw [hash_eq, hashWithState_ok_iff]
  constructor
  · rintro ⟨h1, h2, h3, -, -⟩; exact ⟨h1, h2, h3⟩
  · rintro ⟨h1, h2, h3⟩; exact ⟨h1, h2, h3, by decide, by decide⟩

/-- `Hash` on a bad length: value 0 and the length message. -/
theorem hash_badLen (inp : List Int) (h : inp.length = 0 ∨ 16 < inp.length) :
    poseidon_Hash inp = (0, some "invalid inputs length %d, max %d") := by
  rw [hash_eq, hashWithState_eq, hashWithStateEx_badLen inp 0 1 h]

/-- `Hash` on an element outside `[0, q)`: value 0 and the field message — the element is NOT reduced. -/
theorem hash_notInField (inp : List Int) (h1 : 1 ≤ inp.length) (h2 : inp.length ≤ 16)
    (h : ∃ x ∈ inp, x < 0 ∨ (q : Int) ≤ x) :
    poseidon_Hash inp = (0, some "inputs values not inside Finite Field") := by
  rw [hash_eq, hashWithState_eq, hashWithStateEx_notInField inp 0 1 h1 h2 h]

/-- a successful `Hash` is canonical. -/
theorem hash_ok_canonical (inp : List Int) (v : Int) (h : poseidon_Hash inp = (v, none)) :
    0 ≤ v ∧ v < (q : Int) := by
  obtain ⟨x, hx, rfl⟩ := (poseidon_Hash_nil_iff inp v).1 h
  unfold Inst.hPoseidon at hx
  split at hx
  · next r heq =>
    cases hx
    have := C07.poseidon_ok_canonical Gen.constants_q Gen.poseidon_sboxExp Inst.pTables Gen.poseidon_NROUNDSP
      inp 0 1 (by decide) _ heq x (by simp)
    rw [hq] at this
    exact ⟨Int.natCast_nonneg x, Int.ofNat_lt.2 this⟩
  · cases hx

/-! ## no aliasing -/

/-- 5. Two input vectors accepted by the generated `HashWithStateEx` that are component-wise congruent
    modulo `q` are equal: acceptance never identifies `x` and `x + q`. -/
theorem hashWithStateEx_no_alias (xs ys : List Int) (s1 s2 n1 n2 : Int)
    (h1 : (poseidon_HashWithStateEx xs s1 n1).2 = none) (h2 : (poseidon_HashWithStateEx ys s2 n2).2 = none)
    (hlen : xs.length = ys.length)
    (hcong : ∀ i (h1 : i < xs.length) (h2 : i < ys.length), xs[i] % (q : Int) = ys[i] % (q : Int)) :
    xs = ys :=
  C07.no_alias_mod q xs ys ((hashWithStateEx_ok_iff xs s1 n1).1 h1).2.2.1
    ((hashWithStateEx_ok_iff ys s2 n2).1 h2).2.2.1 hlen hcong

/-- the same for `Hash`. -/
theorem hash_no_alias (xs ys : List Int)
    (h1 : (poseidon_Hash xs).2 = none) (h2 : (poseidon_Hash ys).2 = none) (hlen : xs.length = ys.length)
    (hcong : ∀ i (h1 : i < xs.length) (h2 : i < ys.length), xs[i] % (q : Int) = ys[i] % (q : Int)) :
    xs = ys :=
  C07.no_alias_mod q xs ys ((hash_ok_iff xs).1 h1).2.2 ((hash_ok_iff ys).1 h2).2.2 hlen hcong

/-! ### examples on concrete values (the generated code evaluated, or the theorems applied) -/

example : poseidon_HashWithStateEx [] 0 1 = ([], some "invalid inputs length %d, max %d") := by decide
example : poseidon_HashWithStateEx (List.replicate 17 0) 0 1 = ([], some "invalid inputs length %d, max %d") :=
  hashWithStateEx_badLen _ _ _ (by decide)
example : poseidon_HashWithStateEx [1, 2, -1] 0 1 = ([], some "inputs values not inside Finite Field") := by
  decide
example : poseidon_HashWithStateEx [1, (q : Int) + 1] 0 1 = ([], some "inputs values not inside Finite Field") :=
  hashWithStateEx_notInField _ _ _ (by decide) (by decide) ⟨(q : Int) + 1, by decide, by decide⟩
example : poseidon_HashWithStateEx [1, 2] 0 4 = ([], some "invalid nOuts %d, min 1, max %d") := by decide
example : poseidon_HashWithStateEx [1, 2] 0 (-3) = ([], some "invalid nOuts %d, min 1, max %d") :=
  hashWithStateEx_badNOuts _ _ _ (by decide) (by decide) (by decide) (by decide)
example : poseidon_HashWithStateEx [1, 2] (q : Int) 1 = ([], some "initState values not inside Finite Field") :=
  hashWithStateEx_stateNotInField _ _ _ (by decide) (by decide) (by decide) (by decide) (by decide) (by decide)
/-- order of the guards: a bad element wins over a bad `nOuts` and a bad state. -/
example : poseidon_HashWithStateEx [1, -2] (-1) 9 = ([], some "inputs values not inside Finite Field") := by
  decide
example : (poseidon_HashWithStateEx [1, 2] 0 1).2 = none := (hashWithStateEx_ok_iff _ _ _).2 (by decide)
example : ¬ (poseidon_HashWithStateEx [1, (q : Int)] 0 1).2 = none := by
  rw [hashWithStateEx_ok_iff]; decide
example : poseidon_Hash [(q : Int)] = (0, some "inputs values not inside Finite Field") :=
  hash_notInField _ (by decide) (by decide) ⟨(q : Int), by decide, by decide⟩
example : ∀ out, poseidon_HashWithStateEx [1, 2] 5 3 = (out, none) → (out.length : Int) = 3 :=
  fun out h => hashWithStateEx_ok_length _ _ _ out h

end I3.Props.C07Gen
