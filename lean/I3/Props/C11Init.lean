/-
  I3.Props.C11Init — the package-level values of `ff`, `ffg` and `constants` as the Go code BUILDS them
  (DESIGN §8 item 5: the three initialisations that were "not translated").

  T6 translates the `init()`s of the field packages — each package has two: `_modulus.SetString("…", 10)` and
  `_bLegendreExponentElement, _ = new(big.Int).SetString("…", 16)`, `_bSqrtExponentElement, _ = …` (with the local
  `const sqrtExponentElement`) — into `ff_init`, `ff_init_2`, `ffg_init`, `ffg_init_2` (an `init()` becomes the tuple of
  package-level variables it assigns), and the package-level initialisers of `constants`
  (`var Q, _ = new(big.Int).SetString(qString, 10)`, `big.NewInt(0)`, `big.NewInt(1)`, `big.NewInt(-1)`) into
  `constants_init` (I3.Gen.GoFieldInit, regenerated on every run).  Here the kernel evaluates those definitions — the
  decimal and hexadecimal parsers `I3.Go.big.setString` / `setString16` run over the literals of the source — and finds
  exactly the values translator T1 reads off the literals and every other theorem uses (`I3.Gen.ff_modulus`,
  `ff_legendreExp`, `ff_sqrtExp`, `ffg_…`, `I3.Go.Ext.constants_Q/Zero/One/MinusOne`).  So the moduli, the two exponents
  of Legendre/Sqrt and the constants of package `constants` are tied to the code that creates them, not only to the
  literals; and every `SetString` of the three initialisations SUCCEEDS (`*_parse_ok`: otherwise Go would leave an
  undefined `_modulus`, resp. nil pointers).
-/
import I3.Gen.GoFieldInit
import I3.Gen.Consts
import I3.Exec.GoExt

set_option maxRecDepth 100000
namespace I3.Props.C11Init
open I3 I3.Gen.Go

/-- the two `init()`s of package `ff` assign `_modulus`, `_bLegendreExponentElement`, `_bSqrtExponentElement`: the
    values every C05/C11/C18 theorem uses. -/
theorem ff_init_eq :
    ff_init = ((Gen.ff_modulus : Nat) : Int) ∧
      ff_init_2 = (((Gen.ff_legendreExp : Nat) : Int), ((Gen.ff_sqrtExp : Nat) : Int)) := by
  have h : ff_init = ((Gen.ff_modulus : Nat) : Int) ∧ ff_init_2.1 = ((Gen.ff_legendreExp : Nat) : Int) ∧
      ff_init_2.2 = ((Gen.ff_sqrtExp : Nat) : Int) := by decide +kernel
  exact ⟨h.1, Prod.ext h.2.1 h.2.2⟩

/-- the same for package `ffg` (Goldilocks). -/
theorem ffg_init_eq :
    ffg_init = ((Gen.ffg_modulus : Nat) : Int) ∧
      ffg_init_2 = (((Gen.ffg_legendreExp : Nat) : Int), ((Gen.ffg_sqrtExp : Nat) : Int)) := by
  have h : ffg_init = ((Gen.ffg_modulus : Nat) : Int) ∧ ffg_init_2.1 = ((Gen.ffg_legendreExp : Nat) : Int) ∧
      ffg_init_2.2 = ((Gen.ffg_sqrtExp : Nat) : Int) := by decide +kernel
  exact ⟨h.1, Prod.ext h.2.1 h.2.2⟩

/-- the initialisers of package `constants` compute (Q, Zero, One, MinusOne): the values T1 reads off the literals. -/
theorem constants_init_eq :
    constants_init =
      (I3.Go.Ext.constants_Q, I3.Go.Ext.constants_Zero, I3.Go.Ext.constants_One, I3.Go.Ext.constants_MinusOne) := by
  have h : constants_init.1 = I3.Go.Ext.constants_Q ∧ constants_init.2.1 = I3.Go.Ext.constants_Zero ∧
      constants_init.2.2.1 = I3.Go.Ext.constants_One ∧ constants_init.2.2.2 = I3.Go.Ext.constants_MinusOne := by
    decide +kernel
  obtain ⟨h1, h2, h3, h4⟩ := h
  ext1
  · exact h1
  · ext1
    · exact h2
    · ext1 <;> assumption

/-- in particular: `constants.Q`, `ff._modulus` are the BN254 scalar-field prime `q`, `ffg._modulus` is the Goldilocks
    prime, and the exponents are `(m−1)/2` and `(s−1)/2` with `m − 1 = 2^r·s`, `s` odd (`r` = 28 resp. 32). -/
theorem init_values :
    ff_init = (I3.q : Int) ∧ constants_init.1 = (I3.q : Int) ∧ ffg_init = (I3.gp : Int) ∧
      ff_init_2.1 = ((I3.q - 1) / 2 : Nat) ∧ ff_init_2.2 = (((I3.q - 1) / 2 ^ 28 - 1) / 2 : Nat) ∧
      ffg_init_2.1 = ((I3.gp - 1) / 2 : Nat) ∧ ffg_init_2.2 = (((I3.gp - 1) / 2 ^ 32 - 1) / 2 : Nat) := by
  decide +kernel

/-- every `SetString` of the three initialisations succeeds (the `ok` result the code discards is `true`). -/
theorem ff_parse_ok :
    (I3.Go.big.setString "21888242871839275222246405745257275088548364400416034343698204186575808495617" 10).2 = true ∧
      (I3.Go.big.setString16 "183227397098d014dc2822db40c0ac2e9419f4243cdcb848a1f0fac9f8000000").2 = true ∧
      (I3.Go.big.setString16 "183227397098d014dc2822db40c0ac2e9419f4243cdcb848a1f0fac9f").2 = true := by
  decide +kernel

theorem ffg_parse_ok :
    (I3.Go.big.setString "18446744069414584321" 10).2 = true ∧
      (I3.Go.big.setString16 "7fffffff80000000").2 = true ∧ (I3.Go.big.setString16 "7fffffff").2 = true := by
  decide +kernel

/-- the `init()`s do not panic. -/
theorem init_ok_true : ff_init_ok = true ∧ ff_init_2_ok = true ∧ ffg_init_ok = true ∧ ffg_init_2_ok = true := by
  decide +kernel

end I3.Props.C11Init
