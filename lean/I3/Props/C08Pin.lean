/-
  I3.Props.C08 (source pin) — the Go functions mirrored by the hand-written models of C08 still have the
  source text against which those models were validated, and no function was added to or removed
  from their packages.  Regenerated fingerprints: I3.Gen.fingerprints (tools/gen_pins).
-/
import I3.Gen.Fingerprints
import I3.Model.SourcePin
namespace I3.Props.C08
open I3.SourcePin

def modelled : List String := [
  "keccak256.<decls>@keccac256.go",
  "keccak256.Hash",
  "mimc7.<decls>@mimc7.go",
  "mimc7.Hash",
  "mimc7.HashBytes",
  "mimc7.HashGeneric",
  "mimc7.MIMC7Hash",
  "mimc7.MIMC7HashGeneric",
  "mimc7.generateConstantsData",
  "mimc7.getConstants",
  "utils.CheckBigIntArrayInField",
  "utils.CheckBigIntInField",
  "utils.SetBigIntFromLEBytes",
  "utils.SwapEndianness",
  "tree.<layout>@constants",
  "tree.<layout>@ff",
  "tree.<layout>@keccak256",
  "tree.<layout>@mimc7",
  "tree.<layout>@root",
  "tree.<layout>@utils",
  "constants.<decls>@constants.go",
  "ff.<asm>@element_mul_adx_amd64.s",
  "ff.<asm>@element_mul_amd64.s",
  "ff.<asm>@element_ops_amd64.s",
  "ff.<decls>@arith.go",
  "ff.<decls>@asm.go",
  "ff.<decls>@asm_noadx.go",
  "ff.<decls>@doc.go",
  "ff.<decls>@element.go",
  "ff.<decls>@element_ops_amd64.go",
  "ff.<decls>@element_ops_noasm.go",
  "utils.<decls>@utils.go",
  "module.<deps>@go.mod",
  "module.<deps>@go.sum",
  "module.<deps>@vendor"
]

theorem source_pinned : modelled.all (same I3.Gen.fingerprints) = true := by decide +kernel

theorem function_set_pinned : (["constants.", "ff.", "keccak256.", "mimc7.", "utils."] : List String).all (sameKeys I3.Gen.fingerprints) = true := by
  decide +kernel

theorem modelled_nonempty : 35 = modelled.length := by decide

end I3.Props.C08
