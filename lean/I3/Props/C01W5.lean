/-
  I3.Props.C01W5 — property C01 at width t = 5 (R_F = 8, R_P = 60).
  `tables_lit_5`: the kernel evaluates the relation checker `PoseidonCheck.checkAll` on the tables
  `Gen.PT5.*` (REGENERATED from /repo/poseidon/constants.go on every run) against the literal output of
  the reference Grain generator (`Spec.GrainLit.rc_5`, `mds_5`, proved equal to the generator's output in
  I3.Spec.GrainW5); the witnesses are proposed by `computeWitnesses` inside the same evaluation.
  `tables_ok_5`: the same statement about the generator itself.
  `width_5`: hence (by `checkAll_sound`) the optimised Go loop equals the textbook Poseidon permutation
  on EVERY state of width 5.
-/
import I3.Exec.PoseidonCheck
import I3.Gen.PT5
import I3.Spec.GrainW5
import I3.Lemmas.PoseidonRefine
set_option maxRecDepth 1000000
namespace I3.Props.C01
open I3

theorem tables_lit_5 :
    PoseidonCheck.checkAll q 5 60 Spec.GrainLit.rc_5 Spec.GrainLit.mds_5
      ⟨Gen.PT5.C, Gen.PT5.S, Gen.PT5.M, Gen.PT5.P⟩
      (PoseidonCheck.computeWitnesses q 5 60 Spec.GrainLit.rc_5 Spec.GrainLit.mds_5
        ⟨Gen.PT5.C, Gen.PT5.S, Gen.PT5.M, Gen.PT5.P⟩) = true := by
  decide +kernel

theorem tables_ok_5 :
    PoseidonCheck.checkAll q 5 60 (Grain.bn254Params 5).rc (Grain.mds q (Grain.bn254Params 5))
      ⟨Gen.PT5.C, Gen.PT5.S, Gen.PT5.M, Gen.PT5.P⟩
      (PoseidonCheck.computeWitnesses q 5 60 (Grain.bn254Params 5).rc
        (Grain.mds q (Grain.bn254Params 5)) ⟨Gen.PT5.C, Gen.PT5.S, Gen.PT5.M, Gen.PT5.P⟩) = true := by
  rw [Spec.GrainLit.grain_5.1, Spec.GrainLit.grain_5.2]
  exact tables_lit_5

theorem width_5 (st : List Nat) (hst : st.length = 5) :
    Model.Poseidon.permute q 5 ⟨Gen.PT5.C, Gen.PT5.S, Gen.PT5.M, Gen.PT5.P⟩ 5 60 st =
      Hades.poseidonBN254 (Grain.bn254Params 5) st :=
  PoseidonRefine.width_of_check 5 60 (by decide) _ _ tables_ok_5 st hst

end I3.Props.C01
