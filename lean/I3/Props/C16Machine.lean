/-
  I3.Props.C16Machine — C16 (purity) on the abstract heap machine of I3.Lemmas.Machine.

  Reading guide.  `G` is the set of package-level objects; `pub` is ANY set of caller-visible
  objects that contains `G` and every argument/destination of the history (`HistOk`), such that
  in the initial state all of `pub` exists and no pool object belongs to it (`WF pub s0`);
  e.g. `pub := Visible G ops`, or `pub :=` all objects existing in `s0` outside the pool.
  `Op.Ok G op` is the write/read discipline checked per function by the write-site theorem.
  A "failing" call is a call whose result is an error value: `Res` is arbitrary.
  The histories are arbitrary finite lists of calls; the allocator and pool state, and the
  garbage left in pool objects, are arbitrary and may differ between the runs compared.
-/
import I3.Lemmas.Machine
namespace I3.Props.C16
open I3.Machine

variable {Val Res : Type} {G pub : Obj → Prop}

/-- (a) FRAME, package-level objects: after any history of disciplined calls every package-level
    object holds its initial value. -/
theorem frame_globals {ops : List (Op Val Res)} {s0 : State Val}
    (h : HistOk G pub ops) (hwf : WF pub s0) :
    ∀ g, G g → (runOps ops s0).1.heap g = s0.heap g :=
  fun g hg => (runOps_frame h.ok hwf).2 g (h.glob g hg) (fun _ _ hn => hn.2 hg)

/-- (a) FRAME, caller objects: after any history of disciplined calls every caller-visible object
    that is not the destination of some call of the history holds its initial value; in
    particular every argument object that is only read. -/
theorem frame_args {ops : List (Op Val Res)} {s0 : State Val}
    (h : HistOk G pub ops) (hwf : WF pub s0) :
    ∀ o, pub o → (∀ op, op ∈ ops → o ∉ op.dst) → (runOps ops s0).1.heap o = s0.heap o :=
  fun o ho hn => (runOps_frame h.ok hwf).2 o ho (fun op hop hd => hn op hop hd.1)

/-- Key lemma (FOOTPRINT): the result of a disciplined call is a function of the values of its
    arguments and of the package-level objects only — not of the allocator, the pool, the
    contents of pool objects or any other object. -/
theorem result_footprint {op : Op Val Res} (hok : op.Ok G) {s s' : State Val}
    (hwf : WF (Visible G [op]) s) (hwf' : WF (Visible G [op]) s')
    (hag : ∀ o, o ∈ op.args ∨ G o → s.heap o = s'.heap o) :
    (runOp op s).2 = (runOp op s').2 :=
  have hv : ∀ o, op.foot o → Visible G [op] o := fun _ hf => .inr ⟨op, by simp, hf⟩
  runOp_agree hok (fun _ hg => .inl hg) hv (fun _ hg => .inl hg) hv hwf hwf' hag

/-- (b) The result of a call inside a history is the result of that call run alone from ANY
    state that agrees with the state in which it starts on its arguments and the globals. -/
theorem result_depends_on_footprint_only {pre post : List (Op Val Res)} {op : Op Val Res}
    {s0 s' : State Val} (h : HistOk G pub (pre ++ op :: post)) (hwf : WF pub s0)
    (hwf' : WF (Visible G [op]) s')
    (hag : ∀ o, o ∈ op.args ∨ G o → s'.heap o = (runOps pre s0).1.heap o) :
    (runOps (pre ++ op :: post) s0).2[pre.length]? = some (runOp op s').2 := by
  have hw1 : WF pub (runOps pre s0).1 := (runOps_frame (fun q hq => h.ok q (by simp [hq])) hwf).1
  have hv : ∀ o, op.foot o → Visible G [op] o := fun _ hf => .inr ⟨op, by simp, hf⟩
  have := runOp_agree (h.ok op (by simp)) (fun _ hg => .inl hg) hv h.glob (h.vis op (by simp))
    hwf' hw1 hag
  rw [runOps_append, List.getElem?_append_right (by rw [runOps_length]; exact Nat.le_refl _),
    runOps_length, Nat.sub_self, this]
  rfl

/-- (b) PURITY / HISTORY INDEPENDENCE: if no earlier call of the history has one of the call's
    arguments as its destination, the result of the call inside the history is the result of the
    call run alone from ANY state that agrees with the INITIAL state on its arguments and the
    globals (whatever the earlier calls were, failing or not). -/
theorem result_history_independent {pre post : List (Op Val Res)} {op : Op Val Res}
    {s0 s' : State Val} (h : HistOk G pub (pre ++ op :: post)) (hwf : WF pub s0)
    (hpre : ∀ q, q ∈ pre → ∀ d, d ∈ q.dst → d ∉ op.args)
    (hwf' : WF (Visible G [op]) s')
    (hag : ∀ o, o ∈ op.args ∨ G o → s'.heap o = s0.heap o) :
    (runOps (pre ++ op :: post) s0).2[pre.length]? = some (runOp op s').2 := by
  refine result_depends_on_footprint_only h hwf hwf' (fun o ho => ?_)
  have hpo : pub o := ho.elim (fun ha => h.vis op (by simp) o (.inl ha)) (h.glob o)
  rw [hag o ho, (runOps_frame (fun q hq => h.ok q (by simp [hq])) hwf).2 o hpo]
  intro q hq hd
  exact ho.elim (fun ha => hpre q hq o hd.1 ha) hd.2

/-- (b) REPETITION / INTERLEAVING: a call repeated later in a history, with arbitrary disciplined
    calls `mid` in between (failing or not), returns the same result both times, provided none
    of the calls from the first occurrence on overwrites one of its arguments. -/
theorem repeat_same_result {pre mid post : List (Op Val Res)} {op : Op Val Res} {s0 : State Val}
    (h : HistOk G pub (pre ++ op :: (mid ++ op :: post))) (hwf : WF pub s0)
    (hmid : ∀ q, q ∈ op :: mid → ∀ d, d ∈ q.dst → d ∉ op.args) :
    ∃ r, (runOps (pre ++ op :: (mid ++ op :: post)) s0).2[pre.length]? = some r ∧
      (runOps (pre ++ op :: (mid ++ op :: post)) s0).2[pre.length + 1 + mid.length]? = some r := by
  have hw1 : WF pub (runOps pre s0).1 := (runOps_frame (fun q hq => h.ok q (by simp [hq])) hwf).1
  have hvis : ∀ o, Visible G [op] o → pub o := by
    rintro o (hg | ⟨q, hq, hf⟩)
    · exact h.glob o hg
    · rw [List.mem_singleton] at hq; exact h.vis op (by simp) o (hq ▸ hf)
  refine ⟨(runOp op (runOps pre s0).1).2, ?_, ?_⟩
  · exact result_depends_on_footprint_only h hwf (hw1.mono hvis) (fun _ _ => rfl)
  · have e : pre ++ op :: (mid ++ op :: post) = (pre ++ op :: mid) ++ op :: post := by simp
    have hl : pre.length + 1 + mid.length = (pre ++ op :: mid).length := by
      simp only [List.length_append, List.length_cons]; omega
    rw [hl]
    simp only [e] at h ⊢
    refine result_depends_on_footprint_only h hwf (hw1.mono hvis) (fun o ho => ?_)
    have hpo : pub o := ho.elim (fun ha => h.vis op (by simp) o (.inl ha)) (h.glob o)
    rw [runOps_append]
    refine ((runOps_frame (fun q hq => h.ok q ?_) hw1).2 o hpo ?_).symm
    · simp only [List.mem_append, List.mem_cons] at hq ⊢; exact .inl (.inr hq)
    · intro q hq hd
      exact ho.elim (fun ha => hmid q hq o hd.1 ha) hd.2

/-! ## Non-vacuity: a concrete instance

Three caller-visible objects: `0` = a package-level constant (value 1), `1` = an argument `x`
(value 5), `2` = a destination `z`.  `addOne` computes `x + One` in a scratch object taken from
the pool, stores it into `z` and returns it; `failing` reads `x` and returns an error. -/
section example_ok

def exG : Obj → Prop := fun o => o = 0
def exPub : Obj → Prop := fun o => o < 3

def addOne : Op Nat (Option Nat) where
  args := [1]
  dst := [2]
  prog := .poolGet <| .read (.obj 1) fun x => .read (.obj 0) fun one =>
    .write (.loc 0) (x + one) <| .read (.loc 0) fun w => .write (.obj 2) w <|
    .poolPut 0 <| .ret (some w)

def failing : Op Nat (Option Nat) where
  args := [1]
  dst := []
  prog := .alloc 7 <| .read (.obj 1) fun _ => .ret none

/-- initial state: empty pool -/
def exS0 : State Nat := ⟨fun o => [1, 5, 0].getD o 0, 3, []⟩
/-- another state: other allocator position, a pool object `4` holding garbage, other `z` -/
def exS1 : State Nat := ⟨fun o => [1, 5, 99, 0, 1234].getD o 77, 9, [4]⟩

theorem addOne_ok : addOne.Ok exG := by
  simp only [Op.Ok, Disciplined, addOne, Disc, canRead, canWrite, afterWrite, Ctx.at, exG]
  refine ⟨by simp, fun _ => ⟨by simp, fun _ => ⟨by decide, by decide, fun _ => ⟨by simp, ?_⟩⟩⟩⟩
  refine ⟨rfl, fun i => ?_⟩
  rcases i with _ | i <;> simp [Status.held, Status.written]

theorem failing_ok : failing.Ok exG := by
  simp only [Op.Ok, Disciplined, failing, Disc, canRead, Ctx.at, exG]
  refine ⟨by simp, fun _ i => ?_⟩
  rcases i with _ | i <;> simp [Status.held]

def exHist : List (Op Nat (Option Nat)) := [addOne, failing, addOne, failing]

theorem exHist_ok : HistOk exG exPub exHist := by
  refine ⟨fun g hg => by simp only [exG] at hg; simp [exPub, hg], ?_, ?_⟩
  · intro op hop o hf
    simp only [exHist, List.mem_cons, List.not_mem_nil, or_false] at hop
    rcases hop with rfl | rfl | rfl | rfl <;>
      simp only [Op.foot, addOne, failing, List.mem_singleton] at hf <;>
      rcases hf with rfl | hf <;> simp_all [exPub] <;> (subst hf; decide)
  · intro op hop
    simp only [exHist, List.mem_cons, List.not_mem_nil, or_false] at hop
    rcases hop with rfl | rfl | rfl | rfl <;> first | exact addOne_ok | exact failing_ok

theorem exS0_wf : WF exPub exS0 := ⟨fun _ h => h, by simp [exS0], by simp [exS0], by simp [exS0]⟩
theorem exS1_wf : WF (Visible exG [addOne]) exS1 := by
  refine ⟨?_, by simp [exS1], ?_, by simp [exS1]⟩
  · rintro o (h | ⟨q, hq, hf⟩)
    · simp only [exG] at h; simp [exS1, h]
    · rw [List.mem_singleton] at hq; subst hq
      simp only [Op.foot, addOne, List.mem_singleton] at hf
      rcases hf with rfl | hf <;> simp_all [exS1] <;> (subst hf; decide)
  · intro o ho
    simp only [exS1, List.mem_singleton] at ho; subst ho
    rintro (h | ⟨q, hq, hf⟩)
    · simp [exG] at h
    · rw [List.mem_singleton] at hq; subst hq
      simp only [Op.foot, addOne, List.mem_singleton] at hf
      rcases hf with hf | hf <;> simp_all

/-- the history actually runs, mixes successes and failures, and moves the allocator and pool -/
example : (runOps exHist exS0).2 = [some 6, none, some 6, none] := by decide
example : (runOps exHist exS0).1.next = 6 ∧ (runOps exHist exS0).1.pool = [3] := by decide
/-- frame theorems instantiated; the destination DID change, so the frame is not trivial -/
example : (runOps exHist exS0).1.heap 0 = exS0.heap 0 := frame_globals exHist_ok exS0_wf 0 rfl
example : (runOps exHist exS0).1.heap 1 = exS0.heap 1 :=
  frame_args exHist_ok exS0_wf 1 (by simp [exPub]) (by
    intro op hop
    simp only [exHist, List.mem_cons, List.not_mem_nil, or_false] at hop
    rcases hop with rfl | rfl | rfl | rfl <;> simp [addOne, failing])
example : (runOps exHist exS0).1.heap 2 ≠ exS0.heap 2 := by decide
/-- history independence instantiated: third call of the history vs. the call alone in `exS1`
    (different allocator, non-empty pool with garbage, different destination content) -/
example : (runOps exHist exS0).2[2]? = some (runOp addOne exS1).2 :=
  result_history_independent (pre := [addOne, failing]) (post := [failing]) exHist_ok exS0_wf
    (by intro q hq d hd
        simp only [List.mem_cons, List.not_mem_nil, or_false] at hq
        rcases hq with rfl | rfl <;> simp_all [addOne, failing] <;> (subst hd; decide))
    exS1_wf
    (by rintro o (h | h)
        · simp only [addOne, List.mem_singleton] at h; subst h; rfl
        · simp only [exG] at h; subst h; rfl)
example : (runOp addOne exS1).2 = some 6 := by decide
example : ∃ r, (runOps exHist exS0).2[0]? = some r ∧ (runOps exHist exS0).2[0 + 1 + 1]? = some r :=
  repeat_same_result (pre := []) (mid := [failing]) (post := [failing]) exHist_ok exS0_wf
    (by intro q hq d hd
        simp only [List.mem_cons, List.not_mem_nil, or_false] at hq
        rcases hq with rfl | rfl <;> simp_all [addOne, failing] <;> (subst hd; decide))

end example_ok

/-! ## Counter-examples: without the discipline the conclusions fail -/
section example_bad

/-- writes a package-level object (`constants.One.Add(One, One)`-style defect) -/
def bumpGlobal : Op Nat (Option Nat) where
  args := []
  dst := []
  prog := .read (.obj 0) fun g => .write (.obj 0) (g + 1) <| .ret (some g)

/-- reads a pool object before writing it (stale scratch content flows into the result) -/
def peek : Op Nat (Option Nat) where
  args := []
  dst := []
  prog := .poolGet <| .read (.loc 0) fun v => .poolPut 0 <| .ret (some v)

example : ¬ bumpGlobal.Ok exG := by
  simp [Op.Ok, Disciplined, bumpGlobal, Disc, canRead, canWrite, exG]
example : ¬ peek.Ok exG := by
  simp [Op.Ok, Disciplined, peek, Disc, canRead, Ctx.at, Status.readable]
/-- the global is modified, and a later disciplined call becomes history-dependent -/
example : (runOps [bumpGlobal] exS0).1.heap 0 ≠ exS0.heap 0 := by decide
example : (runOps [bumpGlobal, addOne] exS0).2[1]? ≠ some (runOp addOne exS0).2 := by decide
/-- the undisciplined read returns what an earlier call left in the pool object -/
example : (runOps [addOne, peek] exS0).2[1]? ≠ some (runOp peek exS0).2 := by decide

end example_bad

end I3.Props.C16
