/-
  I3.Props.C10Gen — property C10 (the Goldilocks Poseidon hash of /repo/goldenposeidon) for the definition
  GENERATED from /repo/goldenposeidon/poseidon.go by the source translator T6,
  `I3.Gen.Go.goldenposeidon_Hash : List Nat → List Nat → List Nat × Option String`
  (Go: `func Hash(inpBI [NROUNDSF]uint64, capBI [CAPLEN]uint64) ([CAPLEN]uint64, error)`), in place of the
  hand-written model `Model.Golden.hash Inst.goldenTab 7 12 22 4`.

  Every theorem is the corresponding theorem of I3.Props.C10 transported along the bridge
  `I3.GoBridge.goldenposeidon_Hash_eq` (I3.Lemmas.GoBridgeGolden).  The two length hypotheses are the Go array
  types `[8]uint64` and `[4]uint64`; the words themselves are arbitrary naturals (in particular all 64-bit
  words, including those ≥ p).  `refK`, `refM` and the HONEST LIMIT on `refK` are those of I3.Props.C10.
-/
import I3.Props.C10
import I3.Lemmas.GoBridgeGolden
set_option maxRecDepth 1000000
namespace I3.Props.C10Gen
open I3 I3.GoldenRef I3.Gen.Go I3.GoBridge

section
variable (inp cap : List Nat) (hi : inp.length = 8) (hc : cap.length = 4)
include hi hc

/-- **C10 (headline) for the generated code.**  `Hash(inp, cap)` returns the first four lanes of the textbook
    width-12 Poseidon permutation (x^7, 8 + 22 rounds, reference constants and MDS matrix) applied to the inputs
    followed by the capacity, every word taken modulo `p` — and a `nil` error. -/
theorem hash_spec :
    goldenposeidon_Hash inp cap =
      ((Hades.permute gp 7 12 8 22 refK refM ((inp ++ cap).map (· % gp))).take 4, none) := by
  rw [goldenposeidon_Hash_eq' inp cap hi hc, C10.hash_spec inp cap hi hc]

/-- no error is ever returned. -/
theorem hash_no_error : (goldenposeidon_Hash inp cap).2 = none := by
  rw [goldenposeidon_Hash_eq' inp cap hi hc]

/-- four words are returned. -/
theorem hash_length : (goldenposeidon_Hash inp cap).1.length = 4 := by
  rw [goldenposeidon_Hash_eq' inp cap hi hc]
  dsimp only
  exact C10.hash_length inp cap hi hc

/-- every returned word is a canonical value below `p`. -/
theorem hash_canonical : ∀ x ∈ (goldenposeidon_Hash inp cap).1, x < gp := by
  rw [goldenposeidon_Hash_eq' inp cap hi hc]
  dsimp only
  exact C10.hash_canonical inp cap

/-- words `≥ p` count as their residue modulo `p`. -/
theorem hash_mod :
    goldenposeidon_Hash inp cap = goldenposeidon_Hash (inp.map (· % gp)) (cap.map (· % gp)) := by
  rw [goldenposeidon_Hash_eq' inp cap hi hc,
    goldenposeidon_Hash_eq' _ _ (by rw [List.length_map, hi]) (by rw [List.length_map, hc]),
    ← C10.hash_mod inp cap]

/-- the generated function is the expression evaluated by the correspondence driver for the model. -/
theorem hash_driver :
    goldenposeidon_Hash inp cap =
      (Model.Golden.hash Inst.goldenTab Gen.golden_sboxExp Gen.golden_mLen Gen.golden_NROUNDSP
        Gen.golden_CAPLEN inp cap, none) :=
  goldenposeidon_Hash_eq inp cap hi hc

end

/-! ### known answers (vectors of /repo/goldenposeidon/poseidon_test.go) for the generated code -/

theorem hash_kat_zero :
    goldenposeidon_Hash [0, 0, 0, 0, 0, 0, 0, 0] [0, 0, 0, 0] =
      ([4330397376401421145, 14124799381142128323, 8742572140681234676, 14345658006221440202], none) := by
  rw [goldenposeidon_Hash_eq' _ _ rfl rfl, C10.hash_kat_zero]

theorem hash_kat_one :
    goldenposeidon_Hash [1, 1, 1, 1, 1, 1, 1, 1] [1, 1, 1, 1] =
      ([16428316519797902711, 13351830238340666928, 682362844289978626, 12150588177266359240], none) := by
  rw [goldenposeidon_Hash_eq' _ _ rfl rfl, C10.hash_kat_one]

theorem hash_kat_pm1 :
    goldenposeidon_Hash (List.replicate 8 (gp - 1)) (List.replicate 4 (gp - 1)) =
      ([13691089994624172887, 15662102337790434313, 14940024623104903507, 10772674582659927682], none) := by
  rw [goldenposeidon_Hash_eq' _ _ rfl rfl, C10.hash_kat_pm1]

/-- words equal to `p` (≥ p, still 64-bit) hash like zero — the fifth vector of the Go test. -/
theorem hash_kat_p :
    goldenposeidon_Hash (List.replicate 8 gp) [0, 0, 0, 0] =
      ([4330397376401421145, 14124799381142128323, 8742572140681234676, 14345658006221440202], none) := by
  rw [goldenposeidon_Hash_eq' _ _ rfl rfl, C10.hash_kat_p]

theorem hash_kat_mixed :
    goldenposeidon_Hash
      [923978, 235763497586, 9827635653498, 112870, 289273673480943876, 230295874986745876,
       6254867324987, 2087] [0, 0, 0, 0] =
      ([1892171027578617759, 984732815927439256, 7866041765487844082, 8161503938059336191], none) := by
  rw [goldenposeidon_Hash_eq' _ _ rfl rfl, C10.hash_kat_mixed]

/-! ### examples -/

/-- the largest 64-bit word `2^64 − 1 ≥ p` counts as `2^32 − 2`. -/
example :
    goldenposeidon_Hash (List.replicate 8 (2 ^ 64 - 1)) [0, 0, 0, 0] =
      goldenposeidon_Hash (List.replicate 8 (2 ^ 32 - 2)) [0, 0, 0, 0] := by
  rw [hash_mod _ _ rfl rfl]; rfl

example : (goldenposeidon_Hash (List.replicate 8 (2 ^ 64 - 1)) [1, 2, 3, 4]).1.length = 4 :=
  hash_length _ _ rfl rfl

example : (goldenposeidon_Hash (List.replicate 8 (2 ^ 64 - 1)) [1, 2, 3, 4]).2 = none :=
  hash_no_error _ _ rfl rfl

end I3.Props.C10Gen
