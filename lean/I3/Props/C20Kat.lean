/-
  I3.Props.C20Kat — published known answers for the two reference hash functions the C20 / C08 / C02 / C12 theorems
  compare against (I3.Exec.Keccak.keccak256 = original Keccak-256, domain byte 0x01; I3.Exec.Blake512 = BLAKE-512 of
  the SHA-3 submission), evaluated by the Lean kernel, and the same for the definitions REGENERATED from the Go
  wrappers.  The constants are the published test vectors (Keccak-256 of "" and "abc" as used by Ethereum;
  BLAKE-512 of "" and of one zero byte from the BLAKE submission document).
-/
import I3.Props.C20Gen

namespace I3.Props.C20Kat
open I3 I3.Gen.Go

def hex (s : String) : Bytes := (hexDecodeOk s.toList).getD []

theorem keccak256_empty : Keccak.keccak256 [] =
    hex "c5d2460186f7233c927e7db2dcc703c0e500b653ca82273b7bfad8045d85a470" := by decide +kernel

theorem keccak256_abc : Keccak.keccak256 [0x61, 0x62, 0x63] =
    hex "4e03657aea45a94fc7d47ba826c8d667c0d1e6e33a64a036ec44f58fa12d6c45" := by decide +kernel

theorem blake512_empty : Blake.blake512 [] =
    hex "a8cfbbd73726062df0c6864dda65defe58ef0cc52a5625090fa17601e1eecd1b628e94f396ae402a00acc9eab77b4d4c2e852aaaa25a636d80af3fc7913ef5b8" := by
  decide +kernel

theorem blake512_zero_byte : Blake.blake512 [0] =
    hex "97961587f6d970faba6d2478045de6d1fabd09b61ae50932054d52bc29d31be4ff9102b9f69e2bbdb83be13d4b9c06091e5fa0b48bd081b634058be0ec49beb3" := by
  decide +kernel

/-- the regenerated Go wrappers reproduce the published vectors (through `keccak_gen_eq`, `blake_gen_eq`) -/
theorem generated_wrappers_kat :
    keccak256_Hash [[0x61], [], [0x62, 0x63]] =
      hex "4e03657aea45a94fc7d47ba826c8d667c0d1e6e33a64a036ec44f58fa12d6c45" ∧
    babyjub_Blake512 [0] =
      hex "97961587f6d970faba6d2478045de6d1fabd09b61ae50932054d52bc29d31be4ff9102b9f69e2bbdb83be13d4b9c06091e5fa0b48bd081b634058be0ec49beb3" := by
  rw [I3.Props.C20Gen.keccak_gen_eq, I3.Props.C20Gen.blake_gen_eq]
  exact ⟨keccak256_abc, blake512_zero_byte⟩

end I3.Props.C20Kat
