/-
  I3.Props.C01W4 — property C01 at width t = 4 (R_F = 8, R_P = 56).
  `tables_lit_4`: the kernel evaluates the relation checker `PoseidonCheck.checkAll` on the tables
  `Gen.PT4.*` (REGENERATED from /repo/poseidon/constants.go on every run) against the literal output of
  the reference Grain generator (`Spec.GrainLit.rc_4`, `mds_4`, proved equal to the generator's output in
  I3.Spec.GrainW4); the witnesses are proposed by `computeWitnesses` inside the same evaluation.
  `tables_ok_4`: the same statement about the generator itself.
  `width_4`: hence (by `checkAll_sound`) the optimised Go loop equals the textbook Poseidon permutation
  on EVERY state of width 4.
-/
import I3.Exec.PoseidonCheck
import I3.Gen.PT4
import I3.Spec.GrainW4
import I3.Lemmas.PoseidonRefine
set_option maxRecDepth 1000000
namespace I3.Props.C01
open I3

theorem tables_lit_4 :
    PoseidonCheck.checkAll q 4 56 Spec.GrainLit.rc_4 Spec.GrainLit.mds_4
      ⟨Gen.PT4.C, Gen.PT4.S, Gen.PT4.M, Gen.PT4.P⟩
      (PoseidonCheck.computeWitnesses q 4 56 Spec.GrainLit.rc_4 Spec.GrainLit.mds_4
        ⟨Gen.PT4.C, Gen.PT4.S, Gen.PT4.M, Gen.PT4.P⟩) = true := by
  decide +kernel

theorem tables_ok_4 :
    PoseidonCheck.checkAll q 4 56 (Grain.bn254Params 4).rc (Grain.mds q (Grain.bn254Params 4))
      ⟨Gen.PT4.C, Gen.PT4.S, Gen.PT4.M, Gen.PT4.P⟩
      (PoseidonCheck.computeWitnesses q 4 56 (Grain.bn254Params 4).rc
        (Grain.mds q (Grain.bn254Params 4)) ⟨Gen.PT4.C, Gen.PT4.S, Gen.PT4.M, Gen.PT4.P⟩) = true := by
  rw [Spec.GrainLit.grain_4.1, Spec.GrainLit.grain_4.2]
  exact tables_lit_4

theorem width_4 (st : List Nat) (hst : st.length = 4) :
    Model.Poseidon.permute q 5 ⟨Gen.PT4.C, Gen.PT4.S, Gen.PT4.M, Gen.PT4.P⟩ 4 56 st =
      Hades.poseidonBN254 (Grain.bn254Params 4) st :=
  PoseidonRefine.width_of_check 4 56 (by decide) _ _ tables_ok_4 st hst

end I3.Props.C01
