/-
  I3.Props.C05Inverse — C05 (BN254 scalar-field arithmetic): `ff.Element.Inverse`
  ("Algorithm 16 in Efficient Software-Implementation of Finite Fields with Applications to
  Cryptography": binary extended GCD on Montgomery representations).

  Object of the theorems: `I3.Model.FFInverse.inverse z0 z1 z2 z3 x0 x1 x2 x3 : Option (ℕ × ℕ × ℕ × ℕ)`,
  the hand-written fuel skeleton (main loop: fuel 600, the two inner halving loops: fuel 300 each,
  `none` = fuel exhausted) around the straight-line PIECES regenerated from /repo/ff/element.go by the
  limb translator (I3.Gen.FFInverse): zero test and initialisation, condition and body of the two
  inner loops, compare-and-subtract with the two exit tests.  Go's `uint64` primitives have the
  semantics of I3.Exec.Word.  An element is four words `x0 … x3 < W = 2^64` of value
  `val4 x0 x1 x2 x3`, canonical when `< Q` (`Q = I3.q`, prime by I3.Spec.Primes); `R = 2^256` is the
  Montgomery radix and `toF v = v·R⁻¹ : ZMod Q` the represented field element.

  Results, for EVERY canonical operand (no sampling) and arbitrary previous contents of `z`:
  * `inverse_zero`            : `Inverse(0) = 0`;
  * `inverse_ok`              : for `x ≠ 0` no loop runs out of fuel and the result is four words,
                                canonical, with `r·x ≡ R² (mod q)` — the Montgomery form of the inverse;
  * `inverse_field`           : the same in `ZMod Q`: `r = R²·x⁻¹`, i.e. `toF r = (toF x)⁻¹`;
  * `inverse_unique`          : the result is the only canonical residue with that property;
  * `inverse_terminates`      : in particular the result is never `none`;
  * `inverse_dest_irrelevant`, `inverse_alias` : the result does not depend on the previous contents
                                of `z`, for arbitrary (even non-canonical) words — this covers `z ≡ x`;
  * `inverse_mul`             : `z.Inverse(x); z.Mul(z, x)` yields `One()` (link with `_mulGeneric`).
  Helper lemmas: I3.Lemmas.InverseLoop.
-/
import I3.Lemmas.InverseLoop

namespace I3.Props.C05Inverse

open I3.Word I3.Limbs I3.Model.FFInverse

-- the word modulus of I3.Exec.Word (inside `namespace I3` a bare `W` would be `I3.W` of I3.Exec.Field)
local notation "W" => I3.Word.W

/-- `Inverse(0) = 0`, whatever `z` contained. -/
theorem inverse_zero (z0 z1 z2 z3 : Nat) : inverse z0 z1 z2 z3 0 0 0 0 = some (0, 0, 0, 0) :=
  I3.InvLoop.inverse_zero_of z0 z1 z2 z3 0 0 0 0 rfl

/-- Total correctness on canonical non-zero operands: the fuel of all three loops suffices and the
result is the canonical `r` with `r·x ≡ R² (mod q)`, i.e. the Montgomery form `x⁻¹·R²` of the inverse of
the element represented by `x`. -/
theorem inverse_ok (z0 z1 z2 z3 x0 x1 x2 x3 : Nat)
    (hx0 : x0 < W) (hx1 : x1 < W) (hx2 : x2 < W) (hx3 : x3 < W)
    (hx : val4 x0 x1 x2 x3 < Q) (hne : val4 x0 x1 x2 x3 ≠ 0) :
    ∃ r0 r1 r2 r3, inverse z0 z1 z2 z3 x0 x1 x2 x3 = some (r0, r1, r2, r3) ∧
      r0 < W ∧ r1 < W ∧ r2 < W ∧ r3 < W ∧ val4 r0 r1 r2 r3 < Q ∧
      (val4 r0 r1 r2 r3 * val4 x0 x1 x2 x3) % Q = (R * R) % Q :=
  I3.InvLoop.inverse_correct z0 z1 z2 z3 x0 x1 x2 x3 hx0 hx1 hx2 hx3 hx hne

/-- The fuel is never exhausted on canonical non-zero operands. -/
theorem inverse_terminates (z0 z1 z2 z3 x0 x1 x2 x3 : Nat)
    (hx0 : x0 < W) (hx1 : x1 < W) (hx2 : x2 < W) (hx3 : x3 < W)
    (hx : val4 x0 x1 x2 x3 < Q) (hne : val4 x0 x1 x2 x3 ≠ 0) :
    inverse z0 z1 z2 z3 x0 x1 x2 x3 ≠ none := by
  obtain ⟨r0, r1, r2, r3, h, _⟩ := inverse_ok z0 z1 z2 z3 x0 x1 x2 x3 hx0 hx1 hx2 hx3 hx hne
  rw [h]; exact Option.some_ne_none _

/-- The result does not depend on the previous contents of the destination (arbitrary words). -/
theorem inverse_dest_irrelevant (w0 w1 w2 w3 z0 z1 z2 z3 x0 x1 x2 x3 : Nat) :
    inverse w0 w1 w2 w3 x0 x1 x2 x3 = inverse z0 z1 z2 z3 x0 x1 x2 x3 :=
  I3.InvLoop.inverse_z_irrel z0 z1 z2 z3 w0 w1 w2 w3 x0 x1 x2 x3

/-- Aliasing `z ≡ x` (`x.Inverse(&x)`): the destination cells then hold the operand. -/
theorem inverse_alias (z0 z1 z2 z3 x0 x1 x2 x3 : Nat) :
    inverse x0 x1 x2 x3 x0 x1 x2 x3 = inverse z0 z1 z2 z3 x0 x1 x2 x3 :=
  inverse_dest_irrelevant x0 x1 x2 x3 z0 z1 z2 z3 x0 x1 x2 x3

/-- Field reading: as residues `r = R²·x⁻¹` in `ZMod Q`; as represented elements `toF r = (toF x)⁻¹`. -/
theorem inverse_field (z0 z1 z2 z3 x0 x1 x2 x3 : Nat)
    (hx0 : x0 < W) (hx1 : x1 < W) (hx2 : x2 < W) (hx3 : x3 < W)
    (hx : val4 x0 x1 x2 x3 < Q) (hne : val4 x0 x1 x2 x3 ≠ 0) :
    ∃ r0 r1 r2 r3, inverse z0 z1 z2 z3 x0 x1 x2 x3 = some (r0, r1, r2, r3) ∧
      r0 < W ∧ r1 < W ∧ r2 < W ∧ r3 < W ∧ val4 r0 r1 r2 r3 < Q ∧
      ((val4 r0 r1 r2 r3 : Nat) : ZMod Q) = (R : ZMod Q) ^ 2 * ((val4 x0 x1 x2 x3 : Nat) : ZMod Q)⁻¹ ∧
      toF (val4 r0 r1 r2 r3) = (toF (val4 x0 x1 x2 x3))⁻¹ := by
  obtain ⟨r0, r1, r2, r3, e, g0, g1, g2, g3, hlt, h⟩ :=
    inverse_ok z0 z1 z2 z3 x0 x1 x2 x3 hx0 hx1 hx2 hx3 hx hne
  obtain ⟨f1, f2⟩ := I3.InvLoop.inverse_field_of _ _ hx hne h
  exact ⟨r0, r1, r2, r3, e, g0, g1, g2, g3, hlt, f1, f2⟩

/-- The result is the only canonical residue `s` with `s·x ≡ R² (mod q)`. -/
theorem inverse_unique (z0 z1 z2 z3 x0 x1 x2 x3 r0 r1 r2 r3 s : Nat)
    (hx0 : x0 < W) (hx1 : x1 < W) (hx2 : x2 < W) (hx3 : x3 < W)
    (hx : val4 x0 x1 x2 x3 < Q) (hne : val4 x0 x1 x2 x3 ≠ 0)
    (hr : inverse z0 z1 z2 z3 x0 x1 x2 x3 = some (r0, r1, r2, r3))
    (hs : s < Q) (h : (s * val4 x0 x1 x2 x3) % Q = (R * R) % Q) : s = val4 r0 r1 r2 r3 := by
  obtain ⟨r0', r1', r2', r3', e, _, _, _, _, hlt, h'⟩ :=
    inverse_ok z0 z1 z2 z3 x0 x1 x2 x3 hx0 hx1 hx2 hx3 hx hne
  rw [hr] at e
  obtain ⟨rfl, rfl, rfl, rfl⟩ : r0 = r0' ∧ r1 = r1' ∧ r2 = r2' ∧ r3 = r3' := by
    simpa using e
  have h1 := (I3.InvLoop.inverse_field_of s _ hx hne h).1
  have h2 := (I3.InvLoop.inverse_field_of _ _ hx hne h').1
  have h3 := (ZMod.natCast_eq_natCast_iff' _ _ _).1 (h1.trans h2.symm)
  rwa [Nat.mod_eq_of_lt hs, Nat.mod_eq_of_lt hlt] at h3

/-- Link with the multiplication kernel: `z.Inverse(x)` followed by `z.Mul(z, x)` yields `One()`
(`R mod q`, the Montgomery form of 1), whatever the destination of the product contained. -/
theorem inverse_mul (z0 z1 z2 z3 w0 w1 w2 w3 x0 x1 x2 x3 : Nat)
    (hx0 : x0 < W) (hx1 : x1 < W) (hx2 : x2 < W) (hx3 : x3 < W)
    (hx : val4 x0 x1 x2 x3 < Q) (hne : val4 x0 x1 x2 x3 ≠ 0) :
    ∃ r0 r1 r2 r3 m0 m1 m2 m3, inverse z0 z1 z2 z3 x0 x1 x2 x3 = some (r0, r1, r2, r3) ∧
      I3.Gen.FF.mulGeneric w0 w1 w2 w3 r0 r1 r2 r3 x0 x1 x2 x3 = (m0, m1, m2, m3) ∧
      m0 < W ∧ m1 < W ∧ m2 < W ∧ m3 < W ∧ val4 m0 m1 m2 m3 = R % Q := by
  obtain ⟨r0, r1, r2, r3, e, g0, g1, g2, g3, _, h⟩ :=
    inverse_ok z0 z1 z2 z3 x0 x1 x2 x3 hx0 hx1 hx2 hx3 hx hne
  obtain ⟨m0, m1, m2, m3, em, k0, k1, k2, k3, hm, hmul⟩ :=
    I3.Limbs.mul_ok' w0 w1 w2 w3 r0 r1 r2 r3 x0 x1 x2 x3 g0 g1 g2 g3 hx0 hx1 hx2 hx3 hx
  refine ⟨r0, r1, r2, r3, m0, m1, m2, m3, e, em, k0, k1, k2, k3, ?_⟩
  have h1 := cancel_R _ _ (hmul.trans h)
  rwa [Nat.mod_eq_of_lt hm] at h1

/-! ## non-vacuity: the hypotheses are satisfiable and the model evaluates -/

example : (1 : Nat) < W ∧ (0 : Nat) < W ∧ val4 1 0 0 0 < Q ∧ val4 1 0 0 0 ≠ 0 := by decide

/-- `x = 1` (the element `R⁻¹`): its inverse `R` has Montgomery form `R² mod q`; one iteration. -/
example : inverse 7 7 7 7 1 0 0 0 =
    some (1997599621687373223, 6052339484930628067, 10108755138030829701, 150537098327114917) := by decide

/-- `x = One()`: the inverse of 1 is 1. -/
example : inverse 0 0 0 0 12436184717236109307 3962172157175319849 7381016538464732718 1011752739694698287 =
    some (12436184717236109307, 3962172157175319849, 7381016538464732718, 1011752739694698287) := by
  decide +kernel

/-- a generic operand (187 iterations of the main loop), checked against an independent computation
of `R²·x⁻¹ mod q` -/
example : 1311768467294899695 < W ∧
    val4 1311768467294899695 1311768467294899695 1311768467294899695 1311768467294899695 < Q ∧
    inverse 0 0 0 0 1311768467294899695 1311768467294899695 1311768467294899695 1311768467294899695 =
      some (12526834713005035304, 6731992984192574232, 9178313441524078307, 3000348668259135221) ∧
    (val4 12526834713005035304 6731992984192574232 9178313441524078307 3000348668259135221 *
      val4 1311768467294899695 1311768467294899695 1311768467294899695 1311768467294899695) % Q = (R * R) % Q := by
  decide +kernel

/-- `none` is reachable, so `inverse_terminates` is not trivially true: the NON-canonical operand `x = q`
(outside the theorems) passes the zero test, the first subtraction gives `v = 0`, and the `v` loop then
halves `0` until its fuel is exhausted (the Go code would spin forever on such an operand). -/
example : inverse 0 0 0 0 4891460686036598785 2896914383306846353 13281191951274694749 3486998266802970665 = none := by
  decide +kernel

end I3.Props.C05Inverse
