/-
  I3.Props.C01W17 — property C01 at width t = 17 (R_F = 8, R_P = 68).
  `tables_lit_17`: the kernel evaluates the relation checker `PoseidonCheck.checkAll` on the tables
  `Gen.PT17.*` (REGENERATED from /repo/poseidon/constants.go on every run) against the literal output of
  the reference Grain generator (`Spec.GrainLit.rc_17`, `mds_17`, proved equal to the generator's output in
  I3.Spec.GrainW17); the witnesses are proposed by `computeWitnesses` inside the same evaluation.
  `tables_ok_17`: the same statement about the generator itself.
  `width_17`: hence (by `checkAll_sound`) the optimised Go loop equals the textbook Poseidon permutation
  on EVERY state of width 17.
-/
import I3.Exec.PoseidonCheck
import I3.Gen.PT17
import I3.Spec.GrainW17
import I3.Lemmas.PoseidonRefine
set_option maxRecDepth 1000000
namespace I3.Props.C01
open I3

theorem tables_lit_17 :
    PoseidonCheck.checkAll q 17 68 Spec.GrainLit.rc_17 Spec.GrainLit.mds_17
      ⟨Gen.PT17.C, Gen.PT17.S, Gen.PT17.M, Gen.PT17.P⟩
      (PoseidonCheck.computeWitnesses q 17 68 Spec.GrainLit.rc_17 Spec.GrainLit.mds_17
        ⟨Gen.PT17.C, Gen.PT17.S, Gen.PT17.M, Gen.PT17.P⟩) = true := by
  decide +kernel

theorem tables_ok_17 :
    PoseidonCheck.checkAll q 17 68 (Grain.bn254Params 17).rc (Grain.mds q (Grain.bn254Params 17))
      ⟨Gen.PT17.C, Gen.PT17.S, Gen.PT17.M, Gen.PT17.P⟩
      (PoseidonCheck.computeWitnesses q 17 68 (Grain.bn254Params 17).rc
        (Grain.mds q (Grain.bn254Params 17)) ⟨Gen.PT17.C, Gen.PT17.S, Gen.PT17.M, Gen.PT17.P⟩) = true := by
  rw [Spec.GrainLit.grain_17.1, Spec.GrainLit.grain_17.2]
  exact tables_lit_17

theorem width_17 (st : List Nat) (hst : st.length = 17) :
    Model.Poseidon.permute q 5 ⟨Gen.PT17.C, Gen.PT17.S, Gen.PT17.M, Gen.PT17.P⟩ 17 68 st =
      Hades.poseidonBN254 (Grain.bn254Params 17) st :=
  PoseidonRefine.width_of_check 17 68 (by decide) _ _ tables_ok_17 st hst

end I3.Props.C01
