/-
  I3.Props.C20KeccakStreamGen — property C20, third-party part (Keccak), the sponge: the code of
  golang.org/x/crypto/sha3 (sha3.go / hashes.go: `NewLegacyKeccak256`, `Write`, `Sum`, `Read`, `padAndPermute`, `permute`,
  `clone`; keccakf.go: `keccakF1600`), TRANSLATED statement by statement by tools/gen_keccak into I3.Gen.KeccakSponge /
  I3.Gen.KeccakF, computes the Keccak-256 of the specification (I3.Exec.Keccak) for EVERY message and EVERY way of splitting
  it into `Write` calls.
  Chain: refinement relation `Refines` between the translated `*state` (200 bytes `a`, `n`, rate 136, dsbyte 1, outputLen
  32, absorbing) and the specification's streaming sponge `Keccak.Sponge` (lanes + buffer) — `new_refines`,
  `write_refines` (every byte slice), `sum_refines`; the model side is `I3.Props.C20.keccak_stream_eq`.
  `hasher_eq_go` / `keccak256_Hash_eq_go`: the external hasher object that the T6 translation of the project's
  `keccak256.Hash` drives (I3.Go.Ext.Hasher, I3.Gen.Go.keccak256_Hash) behaves exactly as the translated third-party code.
  Property theorems only; proofs in I3.Lemmas.KeccakSpongeRefine.
-/
import I3.Lemmas.KeccakSpongeRefine
import I3.Props.C20
import I3.Props.C20Gen

namespace I3.Props.C20KeccakStreamGen
open I3 I3.Gen.KeccakGo I3.Lemmas.KeccakBridge I3.Lemmas.KeccakSpongeBridge I3.Lemmas.KeccakSpongeRefine

/-- `sha3.NewLegacyKeccak256()` (the translated code). -/
def goNew : State := NewLegacyKeccak256
/-- `d.Write(p)`: the new `*d` (the translated code; the returned `n` is `len(p)`, `err` is nil). -/
def goWrite (d : State) (p : List UInt8) : State := (state_Write d p).1
/-- `d.Sum(in)` (the translated code; `*d` is not written). -/
def goSum (d : State) (in_ : List UInt8) : List UInt8 := state_Sum d in_

/-- **the refinement relation** between the translated `*state` and the specification's streaming sponge: parameters of
    `NewLegacyKeccak256` (rate 136, dsbyte 1, outputLen 32), absorbing, `d.n` = number of buffered bytes (< 136), and the
    200 state bytes `d.a` = the little-endian bytes of the specification's 25 lanes with the buffered bytes XORed in from
    position 0 (the Go code XORs input into the state as it arrives; the specification buffers it until a block is full). -/
abbrev Refines (d : State) (s : Keccak.Sponge) : Prop := R d s

/-- the relation, spelled out. -/
theorem refines_iff (d : State) (s : Keccak.Sponge) :
    Refines d s ↔ (d.rate = 136 ∧ d.dsbyte = 1 ∧ d.outputLen = 32 ∧ d.state = spongeAbsorbing ∧ d.n = (s.buf.length : Int) ∧
      s.buf.length < 136 ∧ ∃ A : A, s.a = lanes A ∧ d.a = xorb (bytesOfWords A) s.buf) :=
  ⟨fun h => ⟨h.rate, h.dsbyte, h.outputLen, h.absorbing, h.n, h.lt, h.a⟩,
   fun ⟨h1, h2, h3, h4, h5, h6, h7⟩ => ⟨h1, h2, h3, h4, h5, h6, h7⟩⟩

/-- `xorb B p`, byte by byte: byte `i` of the state is `B[i] ^ p[i]` (`p[i] = 0` beyond `len(p)`). -/
theorem xorb_spec (B p : List UInt8) (i : Nat) (h : i < B.length) :
    (xorb B p).length = B.length ∧ (xorb B p).getD i 0 = B.getD i 0 ^^^ p.getD i 0 :=
  ⟨xorb_length B p, xorb_getD B p i h⟩

/-- a fresh hasher refines the initial sponge. -/
theorem new_refines : Refines goNew Keccak.Sponge.init := R_init

/-- **`Write` refines `Sponge.write`, for every byte slice** (empty, shorter than what is missing to a block, crossing
    one or many block boundaries). -/
theorem write_refines (d : State) (s : Keccak.Sponge) (p : List UInt8) (h : Refines d s) :
    Refines (goWrite d p) (s.write p) := write_refines' d s p h

/-- `Write` returns `len(p)`; in a state related to a sponge neither `Write` nor `Sum` panics. -/
theorem write_returns_len (d : State) (p : List UInt8) : (state_Write d p).2 = (p.length : Int) := rfl
theorem no_panic (d : State) (s : Keccak.Sponge) (h : Refines d s) :
    state_Write_panics d = false ∧ state_Sum_panics d = false := by
  have := h.absorbing
  simp [state_Write_panics, state_Sum_panics, this]

/-- the fuel `len(p)` of the generated `for len(p) > 0` loop is enough: it ends with `p` empty. -/
theorem write_fuel (d : State) (s : Keccak.Sponge) (p : List UInt8) (h : Refines d s) :
    (state_Write_for1 p.length d p).2 = [] := write_fuel_exact d s p h

/-- more fuel changes nothing (any fuel ≥ `len(p)` gives a state related to the same sponge and ends with `p` empty). -/
theorem write_fuel_any (k : Nat) (d : State) (s : Keccak.Sponge) (p : List UInt8) (hk : p.length ≤ k) (h : Refines d s) :
    Refines (state_Write_for1 k d p).1 (s.write p) ∧ (state_Write_for1 k d p).2 = [] := loop_refines k p d s hk h

/-- **`Sum` refines `Sponge.sum`**: `Sum(in)` = `in` followed by the digest of the related sponge. -/
theorem sum_refines (d : State) (s : Keccak.Sponge) (in_ : List UInt8) (h : Refines d s) :
    goSum d in_ = in_ ++ s.sum := sum_refines' d s in_ h

/-- the loop of `Read` inside `Sum` runs exactly once (fuel 32 = `len(out)`; one iteration copies the 32 bytes). -/
theorem read_fuel (W : A) :
    (state_Read_for1 32 { a := bytesOfWords W, n := 0, rate := 136, dsbyte := 1, outputLen := 32, state := 1 } [] (goMake 32)).2.2 = [] ∧
    ∀ k, state_Read_for1 (1 + k) { a := bytesOfWords W, n := 0, rate := 136, dsbyte := 1, outputLen := 32, state := 1 } [] (goMake 32) =
      state_Read_for1 1 { a := bytesOfWords W, n := 0, rate := 136, dsbyte := 1, outputLen := 32, state := 1 } [] (goMake 32) :=
  read_fuel_exact W

/-- any sequence of `Write`s on a fresh hasher refines the same sequence of `Sponge.write`s. -/
theorem foldl_refines (slices : List (List UInt8)) :
    Refines (slices.foldl goWrite goNew) (slices.foldl Keccak.Sponge.write Keccak.Sponge.init) := by
  have key : ∀ (l : List (List UInt8)) (d : State) (s : Keccak.Sponge), Refines d s →
      Refines (l.foldl goWrite d) (l.foldl Keccak.Sponge.write s) := by
    intro l
    induction l with
    | nil => intro d s h; exact h
    | cons x xs ih => intro d s h; exact ih _ _ (write_refines d s x h)
  exact key slices _ _ new_refines

/-- the translated code = the streaming model of the specification. -/
theorem go_eq_stream (slices : List (List UInt8)) (in_ : List UInt8) :
    goSum (slices.foldl goWrite goNew) in_ = in_ ++ Keccak.hashSlices slices :=
  sum_refines _ _ in_ (foldl_refines slices)

/-- **C20 (Keccak, third-party code).**  `NewLegacyKeccak256()`, one `Write` per slice, `Sum(nil)` — the translated code of
    golang.org/x/crypto/sha3 — is the Keccak-256 of the specification of the concatenation, for every list of slices. -/
theorem keccak256_go_eq_spec :
    ∀ slices : List (List UInt8), goSum (slices.foldl goWrite goNew) [] = Keccak.keccak256 slices.flatten := by
  intro slices
  rw [go_eq_stream, List.nil_append]
  exact I3.Props.C20.keccak_stream_eq slices

/-- `Sum(in)` appends the digest to `in`. -/
theorem keccak256_go_sum_append (slices : List (List UInt8)) (in_ : List UInt8) :
    goSum (slices.foldl goWrite goNew) in_ = in_ ++ Keccak.keccak256 slices.flatten := by
  rw [go_eq_stream, I3.Props.C20.keccak_stream_eq]

/-- how the message is cut into `Write` calls does not matter. -/
theorem go_split_independent (s1 s2 : List (List UInt8)) (h : s1.flatten = s2.flatten) :
    goSum (s1.foldl goWrite goNew) [] = goSum (s2.foldl goWrite goNew) [] := by
  rw [keccak256_go_eq_spec, keccak256_go_eq_spec, h]

/-- `Sum` does not end the absorbing phase (it works on a clone): `Write` after `Sum` continues the same message. -/
theorem sum_then_write (slices : List (List UInt8)) (p : List UInt8) :
    goSum (goWrite (slices.foldl goWrite goNew) p) [] = Keccak.keccak256 (slices.flatten ++ p) := by
  have h := keccak256_go_eq_spec (slices ++ [p])
  rw [List.foldl_append] at h
  simpa using h

/-- **the hasher object of the T6 translation = the translated third-party code**: the external object
    `I3.Go.Ext.Hasher` (created by `newKeccak256`, driven by `write`, read by `sum`) that the translated
    `keccak256.Hash` uses returns, for every sequence of slices and every `Sum` argument, what the translated
    x/crypto/sha3 code returns. -/
theorem hasher_eq_go (slices : List (List UInt8)) (b : List UInt8) :
    I3.Go.Ext.Hasher.sum (slices.foldl I3.Go.Ext.Hasher.write I3.Go.Ext.Hasher.newKeccak256) b =
      goSum (slices.foldl goWrite goNew) b := by
  have key : ∀ (l : List (List UInt8)) (s : Keccak.Sponge),
      l.foldl I3.Go.Ext.Hasher.write (.keccak s) = .keccak (l.foldl Keccak.Sponge.write s) := by
    intro l
    induction l with
    | nil => intro s; rfl
    | cons x xs ih => intro s; simp only [List.foldl_cons, I3.Go.Ext.Hasher.write]; exact ih _
  rw [show I3.Go.Ext.Hasher.newKeccak256 = .keccak Keccak.Sponge.init from rfl, key, go_eq_stream]
  rfl

/-- the T6 translation of the project's `keccak256.Hash(data...)` = the translated third-party code driven the same way. -/
theorem keccak256_Hash_eq_go (slices : List (List UInt8)) :
    I3.Gen.Go.keccak256_Hash slices = goSum (slices.foldl goWrite goNew) [] := by
  rw [I3.Props.C20Gen.keccak_gen_eq, keccak256_go_eq_spec]

/-- … and so is the one-shot function `I3.Go.Ext.keccak256` that translated callers (mimc7, poseidon constants) see. -/
theorem ext_keccak256_eq_go (slices : List (List UInt8)) :
    I3.Go.Ext.keccak256 slices = goSum (slices.foldl goWrite goNew) [] := by
  rw [keccak256_go_eq_spec]; rfl

end I3.Props.C20KeccakStreamGen
