/-
  I3.Props.C01W15 — property C01 at width t = 15 (R_F = 8, R_P = 60).
  `tables_lit_15`: the kernel evaluates the relation checker `PoseidonCheck.checkAll` on the tables
  `Gen.PT15.*` (REGENERATED from /repo/poseidon/constants.go on every run) against the literal output of
  the reference Grain generator (`Spec.GrainLit.rc_15`, `mds_15`, proved equal to the generator's output in
  I3.Spec.GrainW15); the witnesses are proposed by `computeWitnesses` inside the same evaluation.
  `tables_ok_15`: the same statement about the generator itself.
  `width_15`: hence (by `checkAll_sound`) the optimised Go loop equals the textbook Poseidon permutation
  on EVERY state of width 15.
-/
import I3.Exec.PoseidonCheck
import I3.Gen.PT15
import I3.Spec.GrainW15
import I3.Lemmas.PoseidonRefine
set_option maxRecDepth 1000000
namespace I3.Props.C01
open I3

theorem tables_lit_15 :
    PoseidonCheck.checkAll q 15 60 Spec.GrainLit.rc_15 Spec.GrainLit.mds_15
      ⟨Gen.PT15.C, Gen.PT15.S, Gen.PT15.M, Gen.PT15.P⟩
      (PoseidonCheck.computeWitnesses q 15 60 Spec.GrainLit.rc_15 Spec.GrainLit.mds_15
        ⟨Gen.PT15.C, Gen.PT15.S, Gen.PT15.M, Gen.PT15.P⟩) = true := by
  decide +kernel

theorem tables_ok_15 :
    PoseidonCheck.checkAll q 15 60 (Grain.bn254Params 15).rc (Grain.mds q (Grain.bn254Params 15))
      ⟨Gen.PT15.C, Gen.PT15.S, Gen.PT15.M, Gen.PT15.P⟩
      (PoseidonCheck.computeWitnesses q 15 60 (Grain.bn254Params 15).rc
        (Grain.mds q (Grain.bn254Params 15)) ⟨Gen.PT15.C, Gen.PT15.S, Gen.PT15.M, Gen.PT15.P⟩) = true := by
  rw [Spec.GrainLit.grain_15.1, Spec.GrainLit.grain_15.2]
  exact tables_lit_15

theorem width_15 (st : List Nat) (hst : st.length = 15) :
    Model.Poseidon.permute q 5 ⟨Gen.PT15.C, Gen.PT15.S, Gen.PT15.M, Gen.PT15.P⟩ 15 60 st =
      Hades.poseidonBN254 (Grain.bn254Params 15) st :=
  PoseidonRefine.width_of_check 15 60 (by decide) _ _ tables_ok_15 st hst

end I3.Props.C01
