/-
  I3.Props.C01W13 — property C01 at width t = 13 (R_F = 8, R_P = 65).
  `tables_lit_13`: the kernel evaluates the relation checker `PoseidonCheck.checkAll` on the tables
  `Gen.PT13.*` (REGENERATED from /repo/poseidon/constants.go on every run) against the literal output of
  the reference Grain generator (`Spec.GrainLit.rc_13`, `mds_13`, proved equal to the generator's output in
  I3.Spec.GrainW13); the witnesses are proposed by `computeWitnesses` inside the same evaluation.
  `tables_ok_13`: the same statement about the generator itself.
  `width_13`: hence (by `checkAll_sound`) the optimised Go loop equals the textbook Poseidon permutation
  on EVERY state of width 13.
-/
import I3.Exec.PoseidonCheck
import I3.Gen.PT13
import I3.Spec.GrainW13
import I3.Lemmas.PoseidonRefine
set_option maxRecDepth 1000000
namespace I3.Props.C01
open I3

theorem tables_lit_13 :
    PoseidonCheck.checkAll q 13 65 Spec.GrainLit.rc_13 Spec.GrainLit.mds_13
      ⟨Gen.PT13.C, Gen.PT13.S, Gen.PT13.M, Gen.PT13.P⟩
      (PoseidonCheck.computeWitnesses q 13 65 Spec.GrainLit.rc_13 Spec.GrainLit.mds_13
        ⟨Gen.PT13.C, Gen.PT13.S, Gen.PT13.M, Gen.PT13.P⟩) = true := by
  decide +kernel

theorem tables_ok_13 :
    PoseidonCheck.checkAll q 13 65 (Grain.bn254Params 13).rc (Grain.mds q (Grain.bn254Params 13))
      ⟨Gen.PT13.C, Gen.PT13.S, Gen.PT13.M, Gen.PT13.P⟩
      (PoseidonCheck.computeWitnesses q 13 65 (Grain.bn254Params 13).rc
        (Grain.mds q (Grain.bn254Params 13)) ⟨Gen.PT13.C, Gen.PT13.S, Gen.PT13.M, Gen.PT13.P⟩) = true := by
  rw [Spec.GrainLit.grain_13.1, Spec.GrainLit.grain_13.2]
  exact tables_lit_13

theorem width_13 (st : List Nat) (hst : st.length = 13) :
    Model.Poseidon.permute q 5 ⟨Gen.PT13.C, Gen.PT13.S, Gen.PT13.M, Gen.PT13.P⟩ 13 65 st =
      Hades.poseidonBN254 (Grain.bn254Params 13) st :=
  PoseidonRefine.width_of_check 13 65 (by decide) _ _ tables_ok_13 st hst

end I3.Props.C01
